import SqlObjVerif.Lemmas.InhSelXAlgo
/-!
Semantics of the clause `InheritableSelectResults.__init__` builds when the used tables lie on one class chain
(`chain_sat`: the tables of the chain segment deepest … topmost used, joined on their ids, filtered by the caller's
clause), and list facts about that segment (`seg_top`, `exists_deepest`, `anc_sorted`).
-/
set_option linter.unusedSimpArgs false
namespace SqlObjVerif.InhSel
open SqlObjVerif.PyIS (Sql)
open SqlObjVerif.Inherit hiding Val Res Cmp Out

/-- the chain from its first class up to and including `t` -/
def segTo (t : Nat) : List Nat → List Nat
  | [] => []
  | a :: l => if a = t then [a] else a :: segTo t l

theorem head_mem_segTo (t a : Nat) (l : List Nat) : a ∈ segTo t (a :: l) := by
  simp only [segTo]; split <;> simp

theorem segTo_subset (t : Nat) : ∀ (l : List Nat) (x : Nat), x ∈ segTo t l → x ∈ l := by
  intro l
  induction l with
  | nil => intro x hx; simp [segTo] at hx
  | cons a l ih =>
    intro x hx
    simp only [segTo] at hx
    split at hx
    · simp at hx; simp [hx]
    · simp only [List.mem_cons] at hx ⊢
      rcases hx with hx | hx
      · exact Or.inl hx
      · exact Or.inr (ih x hx)

theorem eval_foldl_and (db : DB) (σ : Nat → Nat) : ∀ (l : List Sql) (g : Sql),
    sqlEval db σ (l.foldl Sql.and g) = (sqlEval db σ g && l.all (sqlEval db σ)) := by
  intro l
  induction l with
  | nil => intro g; simp
  | cons a l ih => intro g; simp [ih, sqlEval, Bool.and_assoc]

theorem tables_foldl_and : ∀ (l : List Sql) (g : Sql) (x : Nat),
    x ∈ sqlTables (l.foldl Sql.and g) ↔ (x ∈ sqlTables g ∨ x ∈ l.flatMap sqlTables) := by
  intro l
  induction l with
  | nil => intro g x; simp
  | cons a l ih => intro g x; simp [ih, sqlTables, or_assoc]

theorem links_all (db : DB) (σ : Nat → Nat) (t : Nat) : ∀ (l : List Nat) (a : Nat),
    (linksTo t (a :: l)).all (sqlEval db σ) = (segTo t (a :: l)).all (fun b => σ b == σ a) := by
  intro l
  induction l with
  | nil => intro a; simp [linksTo, segTo]
  | cons b l ih =>
    intro a
    by_cases hat : a = t
    · simp [linksTo, segTo, hat]
    · simp only [linksTo, hat, if_false, List.all_cons, sqlEval, ih b]
      rw [show segTo t (a :: b :: l) = a :: segTo t (b :: l) by simp [segTo, hat]]
      simp only [List.all_cons, beq_self_eq_true, Bool.true_and]
      by_cases hab : σ a = σ b
      · simp [hab]
      · have hb := head_mem_segTo t b l
        have h1 : (σ a == σ b) = false := by simpa using hab
        rw [h1, Bool.false_and]
        symm
        rw [List.all_eq_false]
        exact ⟨b, hb, by simpa using fun e => hab e.symm⟩

theorem links_tables (t : Nat) : ∀ (l : List Nat) (a : Nat) (x : Nat),
    x ∈ (linksTo t (a :: l)).flatMap sqlTables ↔ (x ∈ segTo t (a :: l) ∧ a ≠ t ∧ l ≠ []) := by
  intro l
  induction l with
  | nil => intro a x; simp [linksTo]
  | cons b l ih =>
    intro a x
    by_cases hat : a = t
    · simp [linksTo, hat]
    · rw [show segTo t (a :: b :: l) = a :: segTo t (b :: l) by simp [segTo, hat]]
      simp only [linksTo, hat, if_false, List.flatMap_cons, List.mem_append, sqlTables, ih b, List.mem_cons,
        List.mem_singleton, ne_eq, not_false_eq_true, true_and, reduceCtorEq, and_true, List.not_mem_nil, or_false]
      have hb := head_mem_segTo t b l
      constructor
      · rintro ((h | h) | h)
        · exact Or.inl h
        · exact Or.inr (h ▸ hb)
        · exact Or.inr h.1
      · rintro (h | h)
        · exact Or.inl (Or.inl h)
        · by_cases hbt : b = t
          · have : segTo t (b :: l) = [b] := by simp [segTo, hbt]
            rw [this] at h; simp at h
            exact Or.inl (Or.inr h)
          · cases l with
            | nil =>
              have : segTo t [b] = [b] := by simp [segTo]
              rw [this] at h; simp at h
              exact Or.inl (Or.inr h)
            | cons c l => exact Or.inr ⟨h, hbt, by simp⟩

/-- the rows of the query `InheritableSelectResults.__init__` builds when the used tables lie on one chain: the tables
    of the chain segment `d … t` joined on their ids, filtered by the caller's clause -/
theorem chain_sat (T : Tree) (db : DB) (s d t : Nat) (g : Sql) (σ : Nat → Nat)
    (hsub : ∀ a, a ∈ sqlTables g ++ [s] → a ∈ segTo t (T.anc d)) (hd : d ∈ sqlTables g ++ [s]) :
    Sat db s ((linksTo t (T.anc d)).foldl Sql.and g) σ ↔
      ((∀ a, a ∈ segTo t (T.anc d) → σ a = σ d ∧ db.has a (σ d) = true) ∧ sqlEval db σ g = true) := by
  rw [anc_eq_cons'] at hsub ⊢
  generalize (T.anc d).tail = l at hsub ⊢
  unfold Sat
  rw [eval_foldl_and, links_all]
  simp only [List.mem_append, tables_foldl_and, links_tables, List.mem_singleton, Bool.and_eq_true, List.all_eq_true,
    beq_iff_eq]
  constructor
  · rintro ⟨hrows, hg, heq⟩
    refine ⟨fun a ha => ⟨heq a ha, ?_⟩, hg⟩
    have := heq a ha
    rw [← this]
    by_cases hc : d ≠ t ∧ l ≠ []
    · exact hrows a (Or.inl (Or.inr ⟨ha, hc⟩))
    · have hseg : segTo t (d :: l) = [d] := by
        by_cases hdt : d = t
        · simp [segTo, hdt]
        · have : l = [] := by
            apply Classical.byContradiction; intro hl; exact hc ⟨hdt, hl⟩
          simp [this, segTo]
      rw [hseg] at ha; simp at ha; subst ha
      apply hrows
      simp only [List.mem_append, List.mem_singleton] at hd
      rcases hd with hd | hd
      · exact Or.inl (Or.inl hd)
      · exact Or.inr hd
  · rintro ⟨hseg, hg⟩
    refine ⟨?_, hg, fun a ha => (hseg a ha).1⟩
    intro a ha
    have hmem : a ∈ segTo t (d :: l) := by
      rcases ha with (ha | ha) | ha
      · exact hsub a (by simp [ha])
      · exact ha.1
      · exact hsub a (by simp [ha])
    obtain ⟨h1, h2⟩ := hseg a hmem
    rw [h1]; exact h2


/-! ### which class is the topmost used one -/

theorem topUsed_split (p : Nat → Bool) : ∀ (l : List Nat) (a t : Nat), topUsed p l (some a) = some t →
    (t = a ∧ ∀ z, z ∈ l → p z = false) ∨
    (∃ l1 l2, l = l1 ++ t :: l2 ∧ p t = true ∧ ∀ z, z ∈ l2 → p z = false) := by
  intro l
  induction l with
  | nil => intro a t ht; simp only [topUsed, Option.some.injEq] at ht; exact Or.inl ⟨ht.symm, by simp⟩
  | cons z zs ih =>
    intro a t ht
    simp only [topUsed] at ht
    by_cases hz : p z = true
    · simp only [hz, if_true] at ht
      rcases ih z t ht with ⟨rfl, hall⟩ | ⟨l1, l2, rfl, hp, hall⟩
      · exact Or.inr ⟨[], zs, rfl, hz, hall⟩
      · exact Or.inr ⟨z :: l1, l2, rfl, hp, hall⟩
    · have hz' : p z = false := by simpa using hz
      simp only [hz', Bool.false_eq_true, if_false] at ht
      rcases ih a t ht with ⟨rfl, hall⟩ | ⟨l1, l2, rfl, hp, hall⟩
      · refine Or.inl ⟨rfl, ?_⟩
        intro y hy
        rcases List.mem_cons.1 hy with rfl | hy
        · exact hz'
        · exact hall y hy
      · exact Or.inr ⟨z :: l1, l2, rfl, hp, hall⟩


theorem segTo_split (t : Nat) : ∀ (pre post : List Nat), t ∉ pre → segTo t (pre ++ t :: post) = pre ++ [t] := by
  intro pre
  induction pre with
  | nil => intro post _; simp [segTo]
  | cons a pre ih =>
    intro post hn
    simp only [List.mem_cons, not_or] at hn
    have : ¬ a = t := fun e => hn.1 e.symm
    simp [segTo, this, ih post hn.2]

/-- `a :: l`: a duplicate-free chain whose first class is used; its segment up to the topmost used class holds every
    used class of the chain and ends where the used classes end -/
theorem seg_top (p : Nat → Bool) (a : Nat) (l : List Nat) (hnd : (a :: l).Nodup) (ha : p a = true) :
    ∃ pre post t, topUsed p l (some a) = some t ∧ a :: l = pre ++ t :: post ∧ p t = true ∧
      (∀ z, z ∈ post → p z = false) ∧ segTo t (a :: l) = pre ++ [t] := by
  obtain ⟨t, ht, _⟩ := topUsed_some p l a
  rcases topUsed_split p l a t ht with ⟨rfl, hall⟩ | ⟨l1, l2, rfl, hp, hall⟩
  · refine ⟨[], l, t, ht, rfl, ha, hall, by simp [segTo]⟩
  · refine ⟨a :: l1, l2, t, ht, rfl, hp, hall, ?_⟩
    have := segTo_split t (a :: l1) l2 (by
      intro hmem
      have hnd' : (a :: l1 ++ t :: l2).Nodup := by simpa using hnd
      rw [List.nodup_append] at hnd'
      exact hnd'.2.2 t hmem t List.mem_cons_self rfl)
    simpa using this

theorem dropWhile_append_neg {α : Type} (q : α → Bool) : ∀ (l1 l2 : List α), (∀ x, x ∈ l1 → q x = true) →
    (l1 ++ l2).dropWhile q = l2.dropWhile q := by
  intro l1
  induction l1 with
  | nil => intro l2 _; rfl
  | cons a l1 ih =>
    intro l2 h
    simp only [List.cons_append, List.dropWhile_cons, h a List.mem_cons_self, if_true]
    exact ih l2 (fun x hx => h x (List.mem_cons_of_mem _ hx))

/-- the chain above the deepest needed class -/
theorem exists_deepest {T : Tree} (h : T.WF) (needed : Nat → Bool) : ∀ c, needed (T.root c) = true →
    ∃ d pre, T.anc c = pre ++ T.anc d ∧ (∀ x, x ∈ pre → needed x = false) ∧ needed d = true := by
  intro c
  induction c using h.induction with
  | root c hc =>
    intro hr
    rw [root_self h hc] at hr
    exact ⟨c, [], rfl, by simp, hr⟩
  | step c p hp ih =>
    intro hr
    by_cases hn : needed c = true
    · exact ⟨c, [], rfl, by simp, hn⟩
    · rw [root_cons h hp] at hr
      obtain ⟨d, pre, he, hpre, hd⟩ := ih hr
      refine ⟨d, c :: pre, by rw [anc_cons h hp, he]; rfl, ?_, hd⟩
      intro x hx
      rcases List.mem_cons.1 hx with rfl | hx
      · simpa using hn
      · exact hpre x hx

theorem anc_sorted {T : Tree} (h : T.WF) : ∀ c, (T.anc c).Pairwise (fun a b => b < a) := by
  intro c
  induction c using h.induction with
  | root c hc => rw [anc_root h hc]; simp
  | step c p hp ih =>
    rw [anc_cons h hp, List.pairwise_cons]
    refine ⟨?_, ih⟩
    intro a ha
    have := mem_anc_le h p a ha
    have := (h.lt c p hp).1
    omega

end SqlObjVerif.InhSel
