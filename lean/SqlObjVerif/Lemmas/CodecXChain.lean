import SqlObjVerif.Model.CodecXChain
import SqlObjVerif.Lemmas.CodecX
import SqlObjVerif.Lemmas.CodecXInt
import SqlObjVerif.Lemmas.CodecXFkAll
import SqlObjVerif.Lemmas.CodecXSub
import SqlObjVerif.Lemmas.CodecXBin
import SqlObjVerif.Lemmas.CodecXMore
/-!
# CodecXChain — the translated validator chain of a column kind = the hand model's `toDb` / `toPy`
-/
namespace SqlObjVerif.PyCodec

open SqlObjVerif.Codec (Str PyVal ColT)
open Extracted

theorem bindT_some (r : Codec.Res PyVal) (g : PyVal → Codec.Res PyVal) :
    bindT (some r) (fun a => some (g a)) = some (r.bind g) := by
  cases r <;> rfl

theorem runChain_one (f : VFun) (v : PyVal) : runChain [f] v = f v := by
  simp only [runChain]
  cases h : f v with
  | none => rfl
  | some r => cases r <;> rfl

/-- a chain of total model functions -/
theorem runChain_two (f g : PyVal → Codec.Res PyVal) (v : PyVal) :
    runChain [fun a => some (f a), fun a => some (g a)] v = some ((f v).bind g) := by
  simp only [runChain]
  cases f v with
  | ok a => simp only [bindT, Codec.Res.bind]; cases g a <;> rfl
  | _ => rfl

theorem runChain_three (f g h : PyVal → Codec.Res PyVal) (v : PyVal) :
    runChain [fun a => some (f a), fun a => some (g a), fun a => some (h a)] v = some (((f v).bind g).bind h) := by
  simp only [runChain]
  cases f v with
  | ok a =>
    simp only [bindT, Codec.Res.bind]
    cases g a with
    | ok b => simp only [Codec.Res.bind]; cases h b <;> rfl
    | _ => rfl
  | _ => rfl

theorem fn_string (dec : Bool) : runV (cfgString dec) stringToPython = fun v => some (Codec.stringV dec v) := by
  funext v; exact stringToPython_eq dec v
theorem fn_binFrom : runV Cfg.base binFromPython = fun v => some (Codec.binFromPython v) := by
  funext v; exact binFromPython_eq v
theorem fn_binTo : runV Cfg.base binToPython = fun v => some (Codec.binToPython v) := by
  funext v; exact binToPython_eq v
theorem fn_pickleFrom : runV Cfg.base pickleFromPython = fun v => some (pickleFromM v) := by
  funext v; exact pickleFromPython_eq v
theorem fn_pickleTo : runV Cfg.base pickleToPython = fun v => some (pickleToM v) := by
  funext v; exact pickleToPython_eq v
theorem fn_decStrFrom : runV cfgDecStr decStrFromPython = fun v => some (Codec.toDb .decimalString v) := by
  funext v; exact decStrFromPython_eq v
theorem fn_decStrTo : runV cfgDecStr decStrToPython = fun v => some (decStrToM v) := by
  funext v; exact decStrToPython_eq v

/-- what the Binary validator hands to the Pickle validator -/
theorem binToPython_shape (v y : PyVal) (h : Codec.binToPython v = .ok y) : y = .none ∨ ∃ b, y = .bytes b := by
  cases v <;> simp [Codec.binToPython] at h
  · exact Or.inl h.symm
  · split at h
    · split at h
      · exact Or.inr ⟨_, (Codec.Res.ok.inj h).symm⟩
      · cases h
    · cases h
  · exact Or.inr ⟨_, h.symm⟩

theorem chainToDb_eq (T : ColT) (_hT : translatedKind T = true) (v : PyVal) : chainToDb T v = some (Codec.toDb T v) := by
  cases T <;>
    simp only [chainToDb, chainOf, chainString, chainUnicode, chainInt, chainBool, chainDateTime, chainDate, chainTime,
      chainDecimal, chainEnum, chainBLOB, chainForeignKey, chainFloat, chainDecimalString, chainPickle, chainUuid, chainJSON,
      List.map, runChain_one] <;>
    simp [fromOf, strDec, intFromPython, boolFromPython, stringFromPython, enumFromPython, dateFromPython, timeFromPython,
      floatFromPython, intToPython_eq, boolToPython_eq, stringToPython_eq, unicodeFromPython_eq, enumToPython_eq,
      fkFromPython_int_eq, fkFromPython_str_eq, dtFromPython_eq, dateToPython_eq, timeToPython_eq, decFromPython_eq,
      floatToPython_eq, uuidFromPython_eq, jsonFromPython_eq, Codec.toDb]
  -- decimalString: DecimalString then String(dataType=Decimal)
  · rw [fn_decStrFrom, fn_string, runChain_two]; cases v <;> rfl
  -- blob: Binary then String
  · rw [fn_binFrom, fn_string, runChain_two]
  -- pickle: Pickle, Binary, String
  · rw [fn_pickleFrom, fn_binFrom, fn_string, runChain_three]; cases v <;> rfl

theorem chainToPy_eq (T : ColT) (_hT : translatedKind T = true) (v : PyVal) : chainToPy T v = some (Codec.toPy T v) := by
  cases T <;>
    simp only [chainToPy, chainOf, chainString, chainUnicode, chainInt, chainBool, chainDateTime, chainDate, chainTime,
      chainDecimal, chainEnum, chainBLOB, chainForeignKey, chainFloat, chainDecimalString, chainPickle, chainUuid, chainJSON,
      List.reverse_cons, List.reverse_nil, List.nil_append, List.cons_append, List.map, runChain_one] <;>
    simp [toOf, strDec, intToPython_eq, boolToPython_eq, stringToPython_eq, unicodeToPython_eq, enumToPython_eq,
      dtToPython_dt_eq, dateToPython_eq, timeToPython_eq, decToPython_eq, floatToPython_eq, uuidToPython_eq,
      jsonToPython_eq, Codec.toPy]
  · rw [fn_string, fn_decStrTo, runChain_two]; cases v <;> rfl
  · rw [fn_string, fn_binTo, runChain_two]
  · rw [fn_string, fn_binTo, fn_pickleTo, runChain_three]
    cases h : (Codec.stringV false v).bind Codec.binToPython with
    | ok y =>
      have hy : y = .none ∨ ∃ b, y = .bytes b := by
        cases hs : Codec.stringV false v with
        | ok a => rw [hs] at h; exact binToPython_shape a y h
        | _ => rw [hs] at h; cases h
      rcases hy with rfl | ⟨b, rfl⟩ <;> rfl
    | _ => rfl

theorem readBackT_eq (T : ColT) (hT : translatedKind T = true) (x : PyVal) :
    readBackT T x = some (Codec.readBack T x) := by
  have h2 : chainToPy T = fun v => some (Codec.toPy T v) := by funext v; exact chainToPy_eq T hT v
  rw [readBackT, chainToDb_eq T hT, h2, Codec.readBack]
  cases Codec.toDb T x with
  | ok y => simp only [bindT, Codec.Res.bind]; cases Codec.roundtrip T y <;> rfl
  | _ => rfl

end SqlObjVerif.PyCodec
