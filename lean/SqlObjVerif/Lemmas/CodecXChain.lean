import SqlObjVerif.Model.CodecXChain
import SqlObjVerif.Lemmas.CodecX
import SqlObjVerif.Lemmas.CodecXSub
import SqlObjVerif.Lemmas.CodecXBin
/-!
# CodecXChain — the translated validator chain of a column kind = the hand model's `toDb` / `toPy`
-/
namespace SqlObjVerif.PyCodec

open SqlObjVerif.Codec (Str PyVal ColT)
open Extracted

theorem bindT_some (r : Codec.Res PyVal) (g : PyVal → Codec.Res PyVal) :
    bindT (some r) (fun a => some (g a)) = some (r.bind g) := by
  cases r <;> rfl

theorem runChain_one (f : VFun) (v : PyVal) : runChain [f] v = f v := by
  simp only [runChain]
  cases h : f v with
  | none => rfl
  | some r => cases r <;> rfl

theorem chainToDb_eq (T : ColT) (hT : translatedKind T = true) (v : PyVal) : chainToDb T v = some (Codec.toDb T v) := by
  cases T <;> simp only [translatedKind, Bool.false_eq_true] at hT <;>
    simp only [chainToDb, chainOf, chainString, chainUnicode, chainInt, chainBool, chainDateTime, chainDate, chainTime,
      chainDecimal, chainEnum, chainBLOB, chainForeignKey, List.map, runChain_one] <;>
    simp [fromOf, intFromPython, boolFromPython, stringFromPython, enumFromPython, dateFromPython, timeFromPython,
      intToPython_eq, boolToPython_eq, stringToPython_eq, unicodeFromPython_eq, enumToPython_eq, fkFromPython_int_eq,
      fkFromPython_str_eq, dtFromPython_eq, dateToPython_eq, timeToPython_eq, decFromPython_eq, binFromPython_eq, Codec.toDb]
  -- blob: Binary then String
  · simp only [runChain, binFromPython_eq]
    cases Codec.binFromPython v <;> simp [bindT, Codec.Res.bind, stringToPython_eq]
    rename_i a; cases Codec.stringV false a <;> rfl

theorem chainToPy_eq (T : ColT) (hT : translatedKind T = true) (v : PyVal) : chainToPy T v = some (Codec.toPy T v) := by
  cases T <;> simp only [translatedKind, Bool.false_eq_true] at hT <;>
    simp only [chainToPy, chainOf, chainString, chainUnicode, chainInt, chainBool, chainDateTime, chainDate, chainTime,
      chainDecimal, chainEnum, chainBLOB, chainForeignKey, List.reverse_cons, List.reverse_nil, List.nil_append,
      List.cons_append, List.map, runChain_one] <;>
    simp [toOf, intToPython_eq, boolToPython_eq, stringToPython_eq, unicodeToPython_eq, enumToPython_eq,
      dtToPython_dt_eq, dateToPython_eq, timeToPython_eq, decToPython_eq, binToPython_eq, Codec.toPy]
  · simp only [runChain, stringToPython_eq]
    cases Codec.stringV false v <;> simp [bindT, Codec.Res.bind, binToPython_eq]
    rename_i a; cases Codec.binToPython a <;> rfl

theorem readBackT_eq (T : ColT) (hT : translatedKind T = true) (x : PyVal) :
    readBackT T x = some (Codec.readBack T x) := by
  have h2 : chainToPy T = fun v => some (Codec.toPy T v) := by funext v; exact chainToPy_eq T hT v
  rw [readBackT, chainToDb_eq T hT, h2, Codec.readBack]
  cases Codec.toDb T x with
  | ok y => simp only [bindT, Codec.Res.bind]; cases Codec.roundtrip T y <;> rfl
  | _ => rfl

end SqlObjVerif.PyCodec
