import SqlObjVerif.Lemmas.EvChainXDepth
import SqlObjVerif.Lemmas.Events
/-!
C19 translator tie, part 17: the level-tagged log of the translated chain constructor, read as a chain log of the hand model,
IS `Chain.createObj` (`Model/Events.lean`).
-/
namespace SqlObjVerif.Events
open SqlObjVerif.PyEv (World Obj Thunk Outcome PV PDict kwPV tagLog)

/-- a level-tagged log entry of the translated run as an entry of the hand model's chain log -/
def convT (p : Nat × Entry) : Chain.CEntry := Chain.conv p.1 p.2

theorem map_convT_tag (j : Nat) (es : List Entry) : (tagLog j es).map convT = es.map (Chain.conv j) := by
  simp [tagLog, convT, Function.comp_def]

section
variable (cls : Nat → Cfg) (ccfg : Chain.CCfg) (hL : ∀ j, (cls j).listeners = Chain.effective ccfg j)
include hL

theorem cLog_construct (i : Nat) : ∀ L, (cLog cls i L).map convT = (Chain.construct ccfg i L).1
    ∧ (Chain.construct ccfg i L).2 = List.range (L + 1) := by
  intro L
  induction L with
  | zero =>
    simp [cLog, Chain.construct, dCreate, hL, map_convT_tag, convT, Chain.conv, Function.comp_def]
  | succ L ih =>
    refine ⟨?_, ?_⟩
    · simp only [cLog, Chain.construct, List.map_append, map_convT_tag, ih.1, dCreate, hL]
      simp [convT, Chain.conv, Function.comp_def]
    · simp only [Chain.construct, ih.2]
      rw [List.range_succ (n := L + 1)]

theorem flush_sendCreated (i L : Nat) :
    ((List.range (L + 1)).flatMap fun j => tagLog j (createdLog (cls j) i)).map convT
      = (List.range (L + 1)).flatMap fun j => Chain.sendCreated ccfg j i := by
  rw [List.map_flatMap]
  induction (List.range (L + 1)) with
  | nil => rfl
  | cons j js ih =>
    simp only [List.flatMap_cons, ih]
    simp [map_convT_tag, createdLog, Chain.sendCreated, hL]

theorem chain_log_eq (i L : Nat) :
    (cLog cls i L ++ (List.range (L + 1)).flatMap fun j => tagLog j (createdLog (cls j) i)).map convT
      = Chain.createObj ccfg i L := by
  rw [List.map_append, (cLog_construct cls ccfg hL i L).1, flush_sendCreated cls ccfg hL]
  simp [Chain.createObj, (cLog_construct cls ccfg hL i L).2]

end
end SqlObjVerif.Events
