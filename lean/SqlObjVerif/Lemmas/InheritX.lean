import SqlObjVerif.Model.InheritX
import SqlObjVerif.Lemmas.Inherit
/-!
Symbolic execution of the TRANSLATED `InheritableSQLObject` methods (PyInherit programs regenerated from /repo's
`sqlobject/inheritance/__init__.py` on every run) against the hand-written model `Model/Inherit.lean`.
`ihrun` evaluates the interpreter on the concrete program under the path's facts.  This file: the interface
projections, world lemmas and `destroySelf` (one level: `destroySelfX_level_model`; the translated method calling
itself along `_parent`: `destroySelfC_eq`, induction over the depth of the class).
-/
namespace SqlObjVerif.Inherit
open SqlObjVerif.PyInh
open SqlObjVerif.PyInh.Extracted

@[simp] theorem xIface_self (X : Ctx) (C : Calls) (s : PVal) : (xIface X C s).self = s := rfl
@[simp] theorem xIface_attrOf (X : Ctx) (C : Calls) (s : PVal) : (xIface X C s).attrOf = xAttrOf X := rfl
@[simp] theorem xIface_setAttrOf (X : Ctx) (C : Calls) (s : PVal) : (xIface X C s).setAttrOf = xSetAttrOf := rfl
@[simp] theorem xIface_hasattr (X : Ctx) (C : Calls) (s : PVal) (w : XW) : (xIface X C s).hasattr w = xHasattr X := rfl
@[simp] theorem xIface_global (X : Ctx) (C : Calls) (s : PVal) (n : String) :
    (xIface X C s).global n = if n = "sqlbuilder.NoDefault" then some noDefault else none := rfl
@[simp] theorem xIface_isinstance (X : Ctx) (C : Calls) (s : PVal) (w : XW) : (xIface X C s).isinstance w = xIsinstance X := rfl
@[simp] theorem xIface_call (X : Ctx) (C : Calls) (s : PVal) : (xIface X C s).call = xCall X C := rfl
@[simp] theorem xIface_callFn (X : Ctx) (C : Calls) (s : PVal) : (xIface X C s).callFn = xCallFn X C := rfl
@[simp] theorem xIface_super (X : Ctx) (C : Calls) (s : PVal) : (xIface X C s).super = xSuper X s := rfl
@[simp] theorem xIface_fuel (X : Ctx) (C : Calls) (s : PVal) (w : XW) : (xIface X C s).fuel w = X.T.n + 1 := rfl

/-! `pyBool` on constructors only (unfolding it on a symbolic value leaves a 13-way match) -/
@[simp] theorem pyBool_none : pyBool .none = false := rfl
@[simp] theorem pyBool_bool (b : Bool) : pyBool (.bool b) = b := rfl
@[simp] theorem pyBool_int (n : Int) : pyBool (.int n) = (n != 0) := rfl
@[simp] theorem pyBool_nat (n : Nat) : pyBool (.nat n) = (n != 0) := rfl
@[simp] theorem pyBool_str (s : String) : pyBool (.str s) = (s != "") := rfl
@[simp] theorem pyBool_name (a j : Nat) : pyBool (.name a j) = true := rfl
@[simp] theorem pyBool_cls (c : Nat) : pyBool (.cls c) = true := rfl
@[simp] theorem pyBool_conn (k : Nat) : pyBool (.conn k) = true := rfl
@[simp] theorem pyBool_inst (k c i : Nat) : pyBool (.inst k c i) = true := rfl
@[simp] theorem pyBool_ref (a b : Nat) : pyBool (.ref a b) = true := rfl
@[simp] theorem pyBool_pair (a b : PVal) : pyBool (.pair a b) = true := rfl
@[simp] theorem pyBool_nil : pyBool .nil = false := rfl
@[simp] theorem pyBool_cons (a b : PVal) : pyBool (.cons a b) = true := rfl

macro "ihrun" : tactic => `(tactic|
  simp [PyInh.run, Block.exec, Stmt.exec, Cond.eval, Expr.eval, Exprs.eval, eval2, evalArgs, evalStar, Env.get, St.setVar,
        St.setOpt, afterCall, Res.toCall, zipKw, ExcPat.catches, xAttrOf, xSetAttrOf, xHasattr, xIsinstance,
        xSuper, xCall, xCallFn, Val.isNone, isListVal, classOpt, *])

@[simp] theorem setCur_cur (w : XW) (k : Nat) (db : DB) : (w.setCur k db).cur k = db := by simp [XW.setCur]
theorem setCur_cur_ne (w : XW) (k k' : Nat) (db : DB) (h : k' ≠ k) : (w.setCur k db).cur k' = w.cur k' := by
  simp [XW.setCur, h]
@[simp] theorem setCur_par (w : XW) (k : Nat) (db : DB) : (w.setCur k db).par = w.par := rfl
@[simp] theorem setCur_setCur (w : XW) (k : Nat) (d1 d2 : DB) : (w.setCur k d1).setCur k d2 = w.setCur k d2 := by
  simp only [XW.setCur, XW.mk.injEq, and_true]
  funext k'; by_cases h : k' = k <;> simp [h]
@[simp] theorem setCur_self (w : XW) (k : Nat) : w.setCur k (w.cur k) = w := by
  cases w; simp only [XW.setCur, XW.mk.injEq, and_true]
  funext k'; by_cases h : k' = k <;> simp [h]

@[simp] theorem setPar_par_self (w : XW) (k c i : Nat) (v : PVal) : (w.setPar k c i v).par k c i = v := by
  simp [XW.setPar]
@[simp] theorem setPar_cur (w : XW) (k c i : Nat) (v : PVal) : (w.setPar k c i v).cur = w.cur := rfl
theorem setPar_par_ne (w : XW) (k c i : Nat) (v : PVal) (k' c' i' : Nat) (h : ¬ (k' = k ∧ c' = c ∧ i' = i)) :
    (w.setPar k c i v).par k' c' i' = w.par k' c' i' := by
  simp [XW.setPar, h]

theorem toList_ofList (l : List PVal) : Val.toList (Val.ofList l) = some l := by
  induction l with
  | nil => rfl
  | cons a l ih => simp [Val.ofList, Val.toList, ih]

theorem isListVal_ofList (l : List PVal) : isListVal (Val.ofList l) = true := by
  induction l with
  | nil => rfl
  | cons a l ih => simpa [Val.ofList, isListVal] using ih

/-- one level of `destroySelf`: the parent's `destroySelf` is the call parameter -/
theorem destroySelfX_level (X : Ctx) (C : Calls) (w : XW) (k c i : Nat)
    (hpar : w.par k c i = parVal X.T k c i) :
    destroySelfX X C w k c i =
      match X.T.parent c with
      | none => xSuper X (.inst k c i) w "destroySelf" [] [] .none
      | some p =>
        match C.destroy w k p i with
        | .ret w' _ => xSuper X (.inst k c i) w' "destroySelf" [] [] .none
        | r => r := by
  unfold destroySelfX destroySelfProg destroySelf_nlocals
  cases hp : X.T.parent c with
  | none =>
    simp only [parVal, hp] at hpar
    ihrun
    cases hb : X.blocked c <;> simp
  | some p =>
    simp only [parVal, hp] at hpar
    ihrun
    cases hd : C.destroy w k p i <;> simp
    cases hb : X.blocked c <;> simp

theorem guardedDelete_snoc (i : Nat) (b : Nat → Bool) (c : Nat) : ∀ (l : List Nat) (db : DB),
    guardedDelete i b (l ++ [c]) db =
      if (guardedDelete i b l db).2 then
        (if b c then ((guardedDelete i b l db).1, false) else (((guardedDelete i b l db).1).del c i, true))
      else guardedDelete i b l db := by
  intro l
  induction l with
  | nil => intro db; simp [guardedDelete]
  | cons a l ih =>
    intro db
    simp only [List.cons_append, guardedDelete]
    by_cases ha : b a = true
    · simp [ha]
    · simp only [ha]; exact ih _

theorem deleteOrder_eq (T : Tree) (m : Nat) : deleteOrder T m = (T.anc m).reverse := rfl

/-- the hand model's destroy at level `c`, from the hand model's destroy at the parent level -/
theorem destroySelfX_step {X : Ctx} (h : X.T.WF) (C : Calls) (w : XW) (k c i : Nat)
    (hpar : w.par k c i = parVal X.T k c i)
    (hrec : ∀ p, X.T.parent c = some p → C.destroy w k p i = destroyModel X w k p i) :
    destroySelfX X C w k c i = destroyModel X w k c i := by
  rw [destroySelfX_level X C w k c i hpar]
  cases hp : X.T.parent c with
  | none =>
    simp only [destroyModel, destroyGuarded, deleteOrder_eq, anc_root h hp, List.reverse_cons, List.reverse_nil,
      List.nil_append, guardedDelete, xSuper]
    cases hb : X.blocked c <;> simp
  | some p =>
    simp only [hrec p hp]
    simp only [destroyModel, destroyGuarded, deleteOrder_eq, anc_cons h hp, List.reverse_cons, guardedDelete_snoc]
    by_cases hg : (guardedDelete i X.blocked (X.T.anc p).reverse (w.cur k)).2 = true
    · simp [hg, xSuper]
      cases hb : X.blocked c <;> simp
    · simp [hg]

/-- `C15_translated_destroySelf_eq_model`, one level -/
theorem destroySelfX_level_model {X : Ctx} (h : X.T.WF) (w : XW) (k c i : Nat)
    (hpar : w.par k c i = parVal X.T k c i) :
    destroySelfX X { noCalls with destroy := destroyModel X } w k c i = destroyModel X w k c i :=
  destroySelfX_step h _ w k c i hpar (fun _ _ => rfl)

/-- the whole chain: the translated `destroySelf` calling itself -/
theorem destroySelfN_eq {X : Ctx} (h : X.T.WF) (w : XW) (k i : Nat) : ∀ (n c : Nat), c < n →
    (∀ a, a ∈ X.T.anc c → w.par k a i = parVal X.T k a i) →
    destroySelfN X n w k c i = destroyModel X w k c i := by
  intro n
  induction n with
  | zero => intro c hc; omega
  | succ n ih =>
    intro c hc hpar
    unfold destroySelfN
    apply destroySelfX_step h _ w k c i (hpar c (self_mem_anc h c))
    intro p hp
    have hlt := (h.lt c p hp).1
    apply ih p (by omega)
    intro a ha
    apply hpar
    rw [anc_cons h hp]; exact List.mem_cons_of_mem _ ha

theorem destroySelfC_eq {X : Ctx} (h : X.T.WF) (w : XW) (k c i : Nat)
    (hpar : ∀ a, a ∈ X.T.anc c → w.par k a i = parVal X.T k a i) :
    destroySelfC X w k c i = destroyModel X w k c i :=
  destroySelfN_eq h w k i (c + 1) c (by omega) hpar

/-- nothing on the chain is restricted: the hand model's plain `destroyInst` -/
theorem destroyModel_unblocked (X : Ctx) (w : XW) (k c i : Nat) (hb : ∀ a, a ∈ X.T.anc c → X.blocked a = false) :
    destroyModel X w k c i = .ret (w.setCur k (destroyInst X.T (w.cur k) c i)) .none := by
  obtain ⟨h1, h2⟩ := destroyGuarded_unblocked X.T (w.cur k) c i X.blocked hb
  have : (destroyGuarded X.T (w.cur k) c i X.blocked).1 = destroyInst X.T (w.cur k) c i := by
    funext a j; exact h2 a j
  simp [destroyModel, h1, this]

end SqlObjVerif.Inherit
