import SqlObjVerif.Lemmas.TxX
/-!
The expiry loops of `Transaction.commit` / `rollback`, without the interpreter: running
`inst = cache.tryGet(id); if inst is not None: inst.expire()` over ANY list of keys (any order, repetitions
allowed) gives the hand model's all-at-once `commitExpire` / `rollbackExpire` over the SET of its members
(`expireKeys_eq`), for a well-formed connection (`ConnWF`: what a cache map refers to has that key).
-/
namespace SqlObjVerif.Tx

/-- expire what `tryGet` finds for the keys `hit` selects, all at once (the shape of `commitExpire` / `rollbackExpire`) -/
def expireOn (dc : Bool) (c : Conn) (hit : Key → Bool) : Conn :=
  { c with
    insts := fun j => if hit (c.insts j).key && (c.tryGet dc (c.insts j).key == some j) then (c.insts j).expire else c.insts j
    strong := fun k => if hit k && (c.tryGet dc k).isSome then none else c.strong k
    weak := fun k => if hit k && (c.tryGet dc k).isSome then none else c.weak k }

theorem commitExpire_eq (s : St) : s.commitExpire = expireOn s.dc s.p s.reached := rfl

theorem rollbackExpire_eq (s : St) : s.rollbackExpire = expireOn s.dc s.t (fun _ => true) := by
  simp [St.rollbackExpire, expireOn]

/-- one iteration of the loops: `inst = cache.tryGet(id); if inst is not None: inst.expire()` -/
def expireKey (dc : Bool) (c : Conn) (k : Key) : Conn :=
  match c.tryGet dc k with
  | some j => expireInst c j
  | none => c

theorem Conn.ext' {a b : Conn} (h1 : a.insts = b.insts) (h2 : a.n = b.n) (h3 : a.strong = b.strong) (h4 : a.weak = b.weak) :
    a = b := by
  cases a; cases b; simp_all

theorem tryGet_key {c : Conn} (wf : ConnWF c) (dc : Bool) (k : Key) (j : Nat) (h : c.tryGet dc k = some j) :
    (c.insts j).key = k := by
  have a := wf.strongKey k j
  have b := wf.weakKey k j
  unfold Conn.tryGet at h
  split at h
  · rename_i j' hw
    have b' := wf.weakKey k j' hw
    split at h
    · cases h; exact b'.2
    · split at h
      · exact (a h).2
      · cases h
  · split at h
    · exact (a h).2
    · cases h

theorem expireOn_key (dc : Bool) (c : Conn) (hit : Key → Bool) (j : Nat) :
    ((expireOn dc c hit).insts j).key = (c.insts j).key := by
  simp only [expireOn]; split <;> rfl

theorem expireOn_held (dc : Bool) (c : Conn) (hit : Key → Bool) (j : Nat) :
    ((expireOn dc c hit).insts j).held = (c.insts j).held := by
  simp only [expireOn]; split <;> rfl

theorem tryGet_expireOn {c : Conn} (wf : ConnWF c) (dc : Bool) (hit : Key → Bool) (k : Key) :
    (expireOn dc c hit).tryGet dc k = if hit k && (c.tryGet dc k).isSome then none else c.tryGet dc k := by
  by_cases hc : (hit k && (c.tryGet dc k).isSome) = true
  · simp only [hc, if_true]
    unfold Conn.tryGet
    simp only [expireOn, hc, if_true]
    cases dc <;> rfl
  · simp only [hc]
    have hs : (expireOn dc c hit).strong k = c.strong k := by simp only [expireOn, hc]; rfl
    have hw : (expireOn dc c hit).weak k = c.weak k := by simp only [expireOn, hc]; rfl
    unfold Conn.tryGet
    rw [hs, hw]
    cases hwk : c.weak k with
    | none => rfl
    | some j =>
      have hk := (wf.weakKey k j hwk).2
      have : (expireOn dc c hit).alive j = c.alive j := by
        unfold Conn.alive
        rw [expireOn_held, expireOn_key, hk, hs]
      simp only [this]
      rfl

theorem expireKey_expireOn {c : Conn} (wf : ConnWF c) (dc : Bool) (hit : Key → Bool) (k : Key) :
    expireKey dc (expireOn dc c hit) k = expireOn dc c (fun x => hit x || x == k) := by
  unfold expireKey
  rw [tryGet_expireOn wf]
  by_cases hc : (hit k && (c.tryGet dc k).isSome) = true
  · simp only [hc, if_true]
    simp only [Bool.and_eq_true] at hc
    apply Conn.ext'
    · funext j
      simp only [expireOn]
      by_cases hj : (c.insts j).key = k
      · simp [hj, hc.1]
      · simp [hj]
    · rfl
    · funext x
      simp only [expireOn]
      by_cases hx : x = k
      · subst hx; simp [hc.1]
      · simp [hx]
    · funext x
      simp only [expireOn]
      by_cases hx : x = k
      · subst hx; simp [hc.1]
      · simp [hx]
  · simp only [hc]
    cases ht : c.tryGet dc k with
    | none =>
      simp only [Bool.false_eq_true, if_false]
      apply Conn.ext'
      · funext j
        simp only [expireOn]
        by_cases hj : (c.insts j).key = k
        · simp [hj, ht]
        · simp [hj]
      · rfl
      · funext x
        simp only [expireOn]
        by_cases hx : x = k
        · subst hx; simp [ht]
        · simp [hx]
      · funext x
        simp only [expireOn]
        by_cases hx : x = k
        · subst hx; simp [ht]
        · simp [hx]
    | some j =>
      have hk := tryGet_key wf dc k j ht
      have hh : hit k = false := by simpa [ht] using hc
      simp only [Bool.false_eq_true, if_false]
      unfold expireInst
      rw [expireOn_key, hk]
      apply Conn.ext'
      · funext j'
        simp only [Conn.evict_insts, Conn.modify_insts]
        by_cases hj : j' = j
        · subst hj
          simp [expireOn, hk, hh, ht]
        · simp only [hj, if_false, expireOn]
          by_cases hj2 : (c.insts j').key = k
          · have : ¬ (j = j') := fun e => hj e.symm
            simp [hj2, hh, ht, this]
          · simp [hj2]
      · rfl
      · funext x
        simp only [Conn.evict_strong, Conn.modify_strong]
        by_cases hx : x = k
        · subst hx; simp [expireOn, ht]
        · simp [expireOn, hx]
      · funext x
        simp only [Conn.evict_weak, Conn.modify_weak]
        by_cases hx : x = k
        · subst hx; simp [expireOn, ht]
        · simp [expireOn, hx]


theorem expireOn_false (dc : Bool) (c : Conn) : expireOn dc c (fun _ => false) = c := by
  apply Conn.ext' <;> simp [expireOn]

def expireKeys (dc : Bool) (c : Conn) (ks : List Key) : Conn := ks.foldl (expireKey dc) c

theorem expireKeys_expireOn {c : Conn} (wf : ConnWF c) (dc : Bool) (ks : List Key) (hit : Key → Bool) :
    expireKeys dc (expireOn dc c hit) ks = expireOn dc c (fun x => hit x || ks.contains x) := by
  induction ks generalizing hit with
  | nil => simp [expireKeys]
  | cons k ks ih =>
    simp only [expireKeys, List.foldl_cons] at ih ⊢
    rw [expireKey_expireOn wf, ih]
    congr 1
    funext x
    simp only [List.contains_cons, Bool.or_assoc]

/-- the sequential loop over ANY list of keys = the hand model's all-at-once expiry over the set of its members -/
theorem expireKeys_eq {c : Conn} (wf : ConnWF c) (dc : Bool) (ks : List Key) :
    expireKeys dc c ks = expireOn dc c (fun x => ks.contains x) := by
  have := expireKeys_expireOn wf dc ks (fun _ => false)
  rw [expireOn_false] at this
  simpa using this

theorem expireOn_congr (dc : Bool) (c : Conn) (hit hit' : Key → Bool)
    (h : ∀ k, (c.tryGet dc k).isSome = true → hit k = hit' k) : expireOn dc c hit = expireOn dc c hit' := by
  apply Conn.ext'
  · funext j
    simp only [expireOn]
    by_cases ht : c.tryGet dc (c.insts j).key = some j
    · rw [h _ (by simp [ht])]
    · simp [ht]
  · rfl
  · funext k
    simp only [expireOn]
    cases ht : (c.tryGet dc k).isSome
    · simp
    · rw [h k ht]
  · funext k
    simp only [expireOn]
    cases ht : (c.tryGet dc k).isSome
    · simp
    · rw [h k ht]

theorem tryGet_inAllIDs (dc : Bool) (c : Conn) (k : Key) (h : (c.tryGet dc k).isSome = true) : c.inAllIDs dc k = true := by
  unfold Conn.tryGet at h
  unfold Conn.inAllIDs
  cases hw : c.weak k with
  | none => simp [hw] at h ⊢; cases dc <;> simp_all
  | some j =>
    simp only [hw] at h ⊢
    cases ha : c.alive j
    · simp [ha] at h ⊢; cases dc <;> simp_all
    · simp

end SqlObjVerif.Tx
