import SqlObjVerif.Lemmas.OrmValXSet
/-!
Symbolic execution of the translated `set(**kw)` against `opSet` for calls with NO keyword and with ONE
keyword (every loop of the method then runs at most once and is evaluated directly; both the lazy and the
eager branch, `Invalid`, the refused UPDATE).  The general n-keyword statement needs loop invariants for the
eight loops of `set` and is not proved here (the hand model + correspondence stream still cover it).
-/
namespace SqlObjVerif.OrmVal
open SqlObjVerif.PyMain
open SqlObjVerif.PyMain.Extracted

@[simp] theorem dictOf_nil {α : Type} : dictOf ([] : List (Nat × α)) = [] := rfl
@[simp] theorem dictOf_single {α : Type} (k : Nat) (v : α) : dictOf [(k, v)] = [(k, v)] := by
  simp [dictOf, dupdate, dset, dhas]
@[simp] theorem dupdate_nil {α : Type} (d : List (Nat × α)) : dupdate [] d = d := rfl
@[simp] theorem dupdate_single {α : Type} (k : Nat) (v : α) (d : List (Nat × α)) : dupdate [(k, v)] d = dset k v d := rfl
@[simp] theorem dset_nil {α : Type} (k : Nat) (v : α) : dset k v ([] : List (Nat × α)) = [(k, v)] := by
  simp [dset, dhas]
@[simp] theorem dset_single {α : Type} (k : Nat) (v w : α) : dset k v [(k, w)] = [(k, v)] := by
  simp [dset, dhas]

@[simp] theorem sortByKey_single {α : Type} (x : Nat × α) : sortByKey [x] = [x] := rfl

theorem cacheAll_single (dec : Col → Val → Val) (cached : Col → Option Val) (c : Col) (x : Val) :
    cacheAll dec cached [(c, x)] = fun k => if k = c then some (dec c x) else cached k := by
  funext k
  unfold cacheAll
  by_cases hk : k = c <;> simp [plookup, hk]

macro "pymrun_set" : tactic => `(tactic|
  (pymrun; try (simp [set_for0, set_for1, set_for2, set_for3, set_for4, set_for5, set_for6, set_for7]; pymrun)))

theorem setX1_ok_eager (cfg : Cfg) (i : Iface) (s : State) (h : Hnd) (o : Inst) (cv : Pend) (fail : Bool) (c : Col) (v : Val)
    (ho : s.objs h = some o) (hrep : Rep cv o.pending) (hc : c < cfg.ncols o.cls) (hi : i.Ok cfg o.cls)
    (hlz : cfg.lazyUpdate o.cls = false) :
    absUnit o.cls o.id h (setX o.cls o.id (cfg.ncols o.cls) h (absW cfg i s o cv fail) [(c, .ok v)]) =
      some (opSet cfg s h [(c, .ok v)] fail) := by
  obtain ⟨cls, id, cached, expired, dirty, pending, obsolete, inCache⟩ := o
  have hs := hrep.sorted
  have hnd := hrep.nodup
  simp only at hs hc hi hlz
  subst hs
  unfold setX setProg set_nlocals set_nlists set_ndicts opSet
  have ht : i.hasTo c = i.hasFrom c := (hi.same c).symm
  have he := hi.enc c v
  have hd := hi.dec c
  cases hf : i.hasFrom c <;> rw [hf] at ht <;> cases fail <;> cases hcv : cfg.cacheValues cls <;> pymrun_set <;>
    simp [colsOk, validate, passign, pmerge, cacheAll_single, absUnit, conc, instOf, excOut, sortByKey_dset _ _ _ hnd,
      sendUpdate, ho, hc, hlz, hcv, hf, ht, he, hd]
  all_goals (first | rfl | exact setObj_self _ _ _ ho | exact setObj_self _ _ _ (by simpa using ho))

theorem setX1_ok_lazy (cfg : Cfg) (i : Iface) (s : State) (h : Hnd) (o : Inst) (cv : Pend) (fail : Bool) (c : Col) (v : Val)
    (ho : s.objs h = some o) (hrep : Rep cv o.pending) (hc : c < cfg.ncols o.cls) (hi : i.Ok cfg o.cls)
    (hlz : cfg.lazyUpdate o.cls = true) :
    absUnit o.cls o.id h (setX o.cls o.id (cfg.ncols o.cls) h (absW cfg i s o cv fail) [(c, .ok v)]) =
      some (opSet cfg s h [(c, .ok v)] fail) := by
  obtain ⟨cls, id, cached, expired, dirty, pending, obsolete, inCache⟩ := o
  have hs := hrep.sorted
  have hnd := hrep.nodup
  simp only at hs hc hi hlz
  subst hs
  unfold setX setProg set_nlocals set_nlists set_ndicts opSet
  have ht : i.hasTo c = i.hasFrom c := (hi.same c).symm
  have he := hi.enc c v
  have hd := hi.dec c
  cases hf : i.hasFrom c <;> rw [hf] at ht <;> cases fail <;> cases hcv : cfg.cacheValues cls <;> pymrun_set <;>
    simp [colsOk, validate, passign, pmerge, cacheAll_single, absUnit, conc, instOf, excOut, sortByKey_dset _ _ _ hnd,
      sendUpdate, ho, hc, hlz, hcv, hf, ht, he, hd]
  all_goals (first | rfl | exact setObj_self _ _ _ ho | exact setObj_self _ _ _ (by simpa using ho))

theorem setX1_eq (cfg : Cfg) (i : Iface) (s : State) (h : Hnd) (o : Inst) (cv : Pend) (fail : Bool) (c : Col) (inp : Inp)
    (ho : s.objs h = some o) (hrep : Rep cv o.pending) (hc : c < cfg.ncols o.cls) (hi : i.Ok cfg o.cls)
    (hbad : inp = .bad → i.hasFrom c = true) :
    absUnit o.cls o.id h (setX o.cls o.id (cfg.ncols o.cls) h (absW cfg i s o cv fail) [(c, inp)]) =
      some (opSet cfg s h [(c, inp)] fail) := by
  cases inp with
  | bad =>
    obtain ⟨cls, id, cached, expired, dirty, pending, obsolete, inCache⟩ := o
    have hs := hrep.sorted
    have hf := hbad rfl
    simp only at hs hc hi
    subst hs
    unfold setX setProg set_nlocals set_nlists set_ndicts opSet
    cases hlz : cfg.lazyUpdate cls <;> pymrun_set <;>
      simp [colsOk, validate, hc, absUnit, conc, instOf, excOut, ho, hlz]
    all_goals exact setObj_self _ _ _ ho
  | ok v =>
    cases hlz : cfg.lazyUpdate o.cls
    · exact setX1_ok_eager cfg i s h o cv fail c v ho hrep hc hi hlz
    · exact setX1_ok_lazy cfg i s h o cv fail c v ho hrep hc hi hlz

theorem cacheAll_nil (dec : Col → Val → Val) (cached : Col → Option Val) : cacheAll dec cached [] = cached := rfl

/-- `set()` without keywords changes nothing and sends nothing -/
theorem setX0_eq (cfg : Cfg) (i : Iface) (s : State) (h : Hnd) (o : Inst) (cv : Pend) (fail : Bool)
    (ho : s.objs h = some o) (hrep : Rep cv o.pending) :
    absUnit o.cls o.id h (setX o.cls o.id (cfg.ncols o.cls) h (absW cfg i s o cv fail) []) =
      some (opSet cfg s h [] fail) := by
  obtain ⟨cls, id, cached, expired, dirty, pending, obsolete, inCache⟩ := o
  have hs := hrep.sorted
  simp only at hs
  subst hs
  unfold setX setProg set_nlocals set_nlists set_ndicts opSet
  cases hlz : cfg.lazyUpdate cls <;> cases hcv : cfg.cacheValues cls <;> pymrun_set <;>
    simp [colsOk, validate, pmerge, cacheAll_nil, absUnit, conc, instOf, ho, hlz, hcv]
  all_goals (first | rfl | exact setObj_self _ _ _ ho)

end SqlObjVerif.OrmVal
