import SqlObjVerif.Lemmas.CodecXBase
/-!
# CodecX — the translated Int / Bool / String / Unicode / Enum / ForeignKey validators = the hand model

For ALL values of the universe `Codec.PyVal`; `some …` on the left says that the translated code never gets stuck.
-/
namespace SqlObjVerif.PyCodec

open SqlObjVerif.Codec (Str PyVal FTok)
open Extracted

/-! ### IntValidator -/

theorem int_float (t : FTok) : runV cfgInt intToPython (.float t) = some (Codec.intV (.float t)) := by
  cases t with
  | lit t =>
    cases h : Codec.floatClass t <;>
    pyxw [intToPython, intToPython_s0, intToPython_s1, intToPython_s2, intToPython_s3, intToPython_s4, intToPython_for0,
      Codec.intV, floatFracM, intOfFloatM, Codec.intOfFloat, h]
  | ofInt i =>
    by_cases h : Codec.exactInt i = true <;>
    pyxw [intToPython, intToPython_s0, intToPython_s1, intToPython_s2, intToPython_s3, intToPython_s4, intToPython_for0,
      Codec.intV, floatFracM, intOfFloatM, Codec.intOfFloat, h]

theorem intToPython_eq (v : PyVal) : runV cfgInt intToPython v = some (Codec.intV v) := by
  cases v with
  | float t => exact int_float t
  | _ => rfl

/-! ### BoolValidator -/

theorem boolToPython_eq (v : PyVal) : runV Cfg.base boolToPython v = some (Codec.boolV v) := by
  cases v <;> rfl

/-! ### StringValidator (`dataType=None`, and `dataType=Decimal` as DecimalStringCol builds it) -/

theorem stringToPython_eq (dec : Bool) (v : PyVal) : runV (cfgString dec) stringToPython v = some (Codec.stringV dec v) := by
  cases dec <;> cases v <;> rfl

/-! ### UnicodeStringValidator -/

theorem unicodeToPython_eq (v : PyVal) : runV Cfg.base unicodeToPython v = some (Codec.unicodeV v) := by
  cases v <;> rfl

theorem unicodeFromPython_eq (v : PyVal) : runV Cfg.base unicodeFromPython v = some (Codec.unicodeV v) := by
  cases v <;> rfl

/-! ### EnumValidator -/

theorem enumToPython_eq (vals : List Str) (v : PyVal) : runV (cfgEnum vals) enumToPython v = some (Codec.enumV vals v) := by
  cases v with
  | str s =>
    by_cases h : s ∈ vals <;>
    pyxw [enumToPython, enumToPython_s0, enumToPython_s1, Codec.enumV, h]
  | _ => rfl

/-! ### ForeignKeyValidator.from_python -/

theorem fkInt_str (first : Bool) (s : Str) :
    runV (cfgFkInt first) fkFromPython (.str s) = some (Codec.fkFromPython (.str s)) := by
  cases first <;> cases h : Codec.intText s <;> by_cases h2 : (∃ x, x ∈ s ∧ Codec.isDigit x = true) <;>
  pyxw [fkFromPython, fkFromPython_s0, fkFromPython_s1, fkFromPython_s2, fkFromPython_s3, fkFromPython_s4,
    Codec.fkFromPython, h, h2]

theorem fkFromPython_int_eq (first : Bool) (v : PyVal) :
    runV (cfgFkInt first) fkFromPython v = some (Codec.fkFromPython v) := by
  cases v with
  | str s => exact fkInt_str first s
  | _ => cases first <;> rfl

theorem fkFromPython_str_eq (first : Bool) (v : PyVal) :
    runV (cfgFkStr first) fkFromPython v = some (Codec.fkStrFromPython v) := by
  cases first <;> cases v <;> rfl

end SqlObjVerif.PyCodec
