import SqlObjVerif.Lemmas.CodecXBase
/-!
# CodecX — the translated Int / Bool / String / Unicode / Enum / ForeignKey validators = the hand model

For ALL values of the universe `Codec.PyVal`; `some …` on the left says that the translated code never gets stuck.
-/
namespace SqlObjVerif.PyCodec

open SqlObjVerif.Codec (Str PyVal FTok)
open Extracted

/-! ### BoolValidator -/

theorem boolToPython_eq (v : PyVal) : runV Cfg.base boolToPython v = some (Codec.boolV v) := by
  cases v <;> rfl

/-! ### StringValidator (`dataType=None`, and `dataType=Decimal` as DecimalStringCol builds it) -/

theorem stringToPython_eq (dec : Bool) (v : PyVal) : runV (cfgString dec) stringToPython v = some (Codec.stringV dec v) := by
  cases dec <;> cases v <;> rfl

/-! ### UnicodeStringValidator -/

theorem unicodeToPython_eq (v : PyVal) : runV Cfg.base unicodeToPython v = some (Codec.unicodeV v) := by
  cases v <;> rfl

theorem unicodeFromPython_eq (v : PyVal) : runV Cfg.base unicodeFromPython v = some (Codec.unicodeV v) := by
  cases v <;> rfl

/-! ### EnumValidator -/

theorem enumToPython_eq (vals : List Str) (v : PyVal) : runV (cfgEnum vals) enumToPython v = some (Codec.enumV vals v) := by
  cases v with
  | str s =>
    by_cases h : s ∈ vals <;>
    pyxw [enumToPython, enumToPython_s0, enumToPython_s1, Codec.enumV, h]
  | _ => rfl

end SqlObjVerif.PyCodec
