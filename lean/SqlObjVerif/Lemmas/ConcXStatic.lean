import SqlObjVerif.Model.ConcX
/-!
# C09 — a static check of the translated programs: one shared access per statement

`stmtNAcc` (Model/PyCacheSS.lean) counts the dict operations, lock operations and `cullCount` writes a statement makes by
itself (the condition of an `if`, the bounds of a `range`; not its sub-blocks).  For every statement of the methods the
concurrent model runs it is `≤ 1`, so a micro-step of the small-step semantics — which executes a statement by its LAST
access after prefetching `cullCount` / the `self.cache` attribute — never fuses two of them.
-/
namespace SqlObjVerif.ConcX
open SqlObjVerif.PyCache (Block Stmt)
open SqlObjVerif.PyCache.Extracted
open SqlObjVerif.PyCacheSS

mutual
def stmtMaxAcc : Stmt → Nat
  | .ite c t e => max (stmtNAcc (.ite c t e)) (max (blockMaxAcc t) (blockMaxAcc e))
  | .forList _ _ b => blockMaxAcc b
  | .forRange x a b c body => max (stmtNAcc (.forRange x a b c .nil)) (blockMaxAcc body)
  | .forItems _ _ _ b => blockMaxAcc b
  | .forValues _ _ b => blockMaxAcc b
  | .tryKey b h o => max (blockMaxAcc b) (max (blockMaxAcc h) (blockMaxAcc o))
  | .tryFinally b f => max (blockMaxAcc b) (blockMaxAcc f)
  | s => stmtNAcc s
def blockMaxAcc : Block → Nat
  | .nil => 0
  | .cons s r => max (stmtMaxAcc s) (blockMaxAcc r)
end

/-- the programs the threads of `ConcX` execute -/
def scopeProgs : List Block := [getProg, putProg, finishPutProg, createdProg, expireProg, expireAllProg, cullProg]

theorem scope_one_access : ∀ b ∈ scopeProgs, blockMaxAcc b ≤ 1 := by decide

end SqlObjVerif.ConcX
