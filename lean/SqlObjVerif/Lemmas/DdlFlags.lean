import SqlObjVerif.Model.Ddl
/-! # C14 — create-if-missing / drop-if-present with the join-table flags: never fail, idempotent -/
namespace SqlObjVerif.Ddl

theorem dropTbl_subset (t x : Name) (c : Cat) (h : x ∈ (dropTbl t c).tables) : x ∈ c.tables ∧ x ≠ t := by
  simpa [dropTbl] using h

theorem dropLinks_true_ok (ls : List Name) (c : Cat) :
    ∃ c1, dropLinks true ls c = .ok c1 ∧ ∀ x, x ∈ c1.tables → x ∈ c.tables := by
  induction ls generalizing c with
  | nil => exact ⟨c, rfl, fun _ h => h⟩
  | cons l ls ih =>
    unfold dropLinks
    by_cases hl : l ∈ c.tables
    · simp only [hl, not_true_eq_false, and_false, if_false]
      obtain ⟨c1, h1, h2⟩ := ih (dropTbl l c)
      exact ⟨c1, h1, fun x hx => (dropTbl_subset l x c (h2 x hx)).1⟩
    · simp only [hl, not_false_eq_true, and_self, if_true]
      exact ih c

theorem dropTableG_if_present_ok (dedup dj : Bool) (r : Req) (c : Cat) :
    ∃ c1, dropTableG true dedup true dj r c = .ok c1 ∧ r.table ∉ c1.tables := by
  unfold dropTableG
  by_cases ht : r.table ∈ c.tables
  · simp only [ht, not_true_eq_false, and_false, if_false, Bool.and_self]
    cases dj with
    | false =>
      simp only [Bool.false_eq_true, if_false]
      exact ⟨_, rfl, fun h => (dropTbl_subset _ _ _ h).2 rfl⟩
    | true =>
      simp only [if_true]
      obtain ⟨c1, h1, h2⟩ := dropLinks_true_ok (linksOf dedup r.links) (dropTbl r.table c)
      exact ⟨c1, h1, fun h => (dropTbl_subset _ _ _ (h2 _ h)).2 rfl⟩
  · simp only [ht, not_false_eq_true, and_self, if_true]
    exact ⟨c, rfl, ht⟩

theorem dropTableG_idempotent (dedup dj : Bool) (r : Req) (c c1 : Cat)
    (h : dropTableG true dedup true dj r c = .ok c1) : dropTableG true dedup true dj r c1 = .ok c1 := by
  obtain ⟨c1', h1, h2⟩ := dropTableG_if_present_ok dedup dj r c
  rw [h1] at h
  cases h
  unfold dropTableG
  simp [h2]

theorem createIdx_tables (t : Name) (is : List Name) (c c1 : Cat) (h : createIdx t is c = .ok c1) :
    c1.tables = c.tables := by
  induction is generalizing c with
  | nil => simp [createIdx] at h; rw [← h]
  | cons i is ih =>
    unfold createIdx at h
    split at h
    · cases h
    · have := ih _ h
      simpa using this

theorem createLinks_mono (b : Bool) (ls : List Name) (c c1 : Cat) (h : createLinks b ls c = .ok c1) :
    ∀ x, x ∈ c.tables → x ∈ c1.tables := by
  induction ls generalizing c with
  | nil => simp [createLinks] at h; rw [← h]; exact fun _ hx => hx
  | cons l ls ih =>
    unfold createLinks at h
    split at h
    · exact ih _ h
    · split at h
      · cases h
      · intro x hx
        exact ih _ h x (by simp [addTbl, hx])

theorem createTableG_idempotent (pass dedup cj : Bool) (r : Req) (c c1 : Cat)
    (h : createTableG pass dedup true cj r c = .ok c1) : createTableG pass dedup true cj r c1 = .ok c1 := by
  have hin : r.table ∈ c1.tables := by
    unfold createTableG at h
    by_cases ht : r.table ∈ c.tables
    · simp only [ht, and_self, if_true, Except.ok.injEq] at h
      rw [← h]; exact ht
    · simp only [ht, and_false, if_false] at h
      split at h
      · cases h
      · rename_i c2 hc2
        rw [createIdx_tables _ _ _ _ h]
        cases cj with
        | false =>
          simp only [Bool.false_eq_true, if_false, Except.ok.injEq] at hc2
          rw [← hc2]; simp [addTbl]
        | true =>
          simp only [if_true] at hc2
          exact createLinks_mono _ _ _ _ hc2 _ (by simp [addTbl])
  unfold createTableG
  simp [hin]

end SqlObjVerif.Ddl
