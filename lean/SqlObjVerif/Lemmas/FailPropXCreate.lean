import SqlObjVerif.Model.FailPropX
import SqlObjVerif.Lemmas.FailXSetExBase
/-!
C06, `set(**pd)` WHILE `_creating` with ForeignKeys given by object among the keywords, the setters being the
translated `_SO_setValue` (`propCallT`, `Model/FailPropX.lean`): `setValueV_creating` (the creating branch of the
translated `_SO_setValue` only touches the object under construction), `set_fk_loop`, `setFT_creating` (what the
translated `set` leaves of the object under construction: used by create with by-object keywords).
-/
namespace SqlObjVerif.PyFail
open SqlObjVerif.PyMain (PV FnKind Flag Expr Cond LExpr Target DRef ColAttr R mapR ofOpt PDict CVal
  dget dhas dset dupdate dictOf sortByKey ofVal toVal? pvIdx pyBool nameOf natOf itemsOf dbNameOf optMap
  updItemOf dictItemOf cvOf Block)
open SqlObjVerif.PyMain.Extracted
open SqlObjVerif.Fail (Err Schema Inj Extra clsOf hit exec bump applyMem Mem updPending rowVals In allOk)
open SqlObjVerif.PyPure (dset_not_mem dictOf_nodup filter_fst_none filter_fst_all filter_fst_map nodup_keys_filter mapR_ok_of)

/-- `_SO_setValue` on an object under construction: validate (oracle), then dirty, `_SO_createValues[name]`, the
    shown value — nothing else -/
theorem setValueV_creating (w : FW) (col : Nat) (v : Fail.Val) (b1 b2 : Bool) (tail : List Bool)
    (hc : w.creating = true) (hsig : w.sigSuppress = false) (hvq : w.vq = b1 :: b2 :: tail)
    (hcol : col < (clsOf w.sch w.c).cols.length) :
    setValueV w col v =
      if b1 = true then
        if b2 = true then
          .ret { w with vq := tail, nobj := ⟨dset col v w.nobj.vals, updPending w.nobj.cv [(col, v)], true⟩ } .none
        else .exc { w with vq := tail } .invalid
      else .exc { w with vq := b2 :: tail } .invalid := by
  unfold setValueV setValueProg setValue_nlocals setValue_nlists setValue_ndicts
  have hb : Nat.blt col (clsOf w.sch w.c).cols.length = true := by simpa [Nat.blt_eq] using hcol
  cases b1 <;> cases b2 <;>
    pfwith [hc, hsig, hvq, hb, hcol, FW.ncols, FW.setDirty, FW.updCV, FW.setVal]

/-- the column and value of a ForeignKey-by-object keyword -/
def fkOf (props : Nat → Extra) (e : Nat × In) : Nat × Fail.Val :=
  match props e.1 with
  | .fk col v => (col, v)
  | _ => (0, none)

/-- the object under construction after the setters of the ForeignKey-by-object keywords ran -/
def fkEnd (w : FW) (tail : List Bool) (fks : List (Nat × Fail.Val)) : FW :=
  { w with vq := tail, nobj := ⟨dupdate fks w.nobj.vals, updPending w.nobj.cv fks, if fks.isEmpty then w.nobj.dirty else true⟩ }

/-- one ForeignKey-by-object setter on the object under construction -/
def stepW (w : FW) (q : List Bool) (col : Nat) (v : Fail.Val) : FW :=
  { w with vq := q, nobj := ⟨dset col v w.nobj.vals, updPending w.nobj.cv [(col, v)], true⟩ }

theorem set_fk_step (ps : FW → Nat → Nat → In → Outcome) (body : Block) (hbody : body = set_for5) (w : FW) (k : Nat) (pv : PV)
    (col : Nat) (v : Fail.Val) (tail : List Bool)
    (hk : Nat.blt k (clsOf w.sch w.c).cols.length = false) (hp : w.props k = .fk col v)
    (hcol : col < (clsOf w.sch w.c).cols.length)
    (hc : w.creating = true) (hsig : w.sigSuppress = false) (hvq : w.vq = true :: true :: tail)
    (v0 v1 v2 a3 a4 a5 a6 a7 v8 v9 v10 v11 : Option PV) (ls : List (List PV)) (d0 d1 d2 d3 : PDict) :
    bindThen (.two 3 4) (fun st' => Block.exec (propCallT ps) st' body)
        (setSt w v0 v1 v2 a3 a4 a5 a6 a7 v8 v9 v10 v11 ls d0 d1 d2 d3) (PV.pair (.name k) pv) =
      .norm (setSt { w with vq := tail, nobj := ⟨dset col v w.nobj.vals, updPending w.nobj.cv [(col, v)], true⟩ }
        v0 v1 v2 (some (.name k)) (some pv) a5 a6 a7 v8 v9 v10 v11 ls d0 d1 d2 d3) := by
  subst hbody
  have hk' : ¬ k < (clsOf w.sch w.c).cols.length := by
    intro h; rw [← Nat.blt_eq, hk] at h; exact absurd h (by simp)
  have hu : (w.props k != Extra.unknown) = true := by simp [hp]
  have hu0 : ¬ w.props k = Extra.unknown := by simp [hp]
  have hcall : propCallT ps "__setattr__" [PV.name k, pv] [] w = setValueV w col v := by
    simp [propCallT, hp]
  simp only [bind_two, set_for5, setSt]
  pfonly [hk, hk', FW.hasAttr, hu, hu0, FW.ncols, hcall, setValueV_creating w col v true true tail hc hsig hvq hcol]

theorem vqEx_fk_cons (col : Nat) (v : Fail.Val) (l : List Extra) : vqEx (Extra.fk col v :: l) = true :: true :: vqEx l := rfl

/-- the extras loop while creating, every extra keyword a ForeignKey given by object -/
theorem set_fk_loop (ps : FW → Nat → Nat → In → Outcome) (body : Block) (hbody : body = set_for5) (exs : List (Nat × In)) :
    ∀ (w : FW) (tail : List Bool) (v0 v1 v2 a3 a4 a5 a6 a7 v8 v9 v10 v11 : Option PV) (ls : List (List PV)) (d0 d1 d2 d3 : PDict),
      w.creating = true → w.sigSuppress = false →
      (∀ e ∈ exs, Nat.blt e.1 (clsOf w.sch w.c).cols.length = false ∧
        ∃ col v, w.props e.1 = .fk col v ∧ col < (clsOf w.sch w.c).cols.length) →
      w.vq = vqEx (exs.map fun e => w.props e.1) ++ tail →
      ∃ b3 b4,
        forLoop (bindThen (.two 3 4) fun st' => Block.exec (propCallT ps) st' body)
            (exs.map fun e => PV.pair (.name e.1) (pvOfIn e.2))
            (setSt w v0 v1 v2 a3 a4 a5 a6 a7 v8 v9 v10 v11 ls d0 d1 d2 d3) =
          .norm (setSt (fkEnd w tail (exs.map (fkOf w.props))) v0 v1 v2 b3 b4 a5 a6 a7 v8 v9 v10 v11 ls d0 d1 d2 d3) := by
  induction exs with
  | nil =>
    intro w tail v0 v1 v2 a3 a4 a5 a6 a7 v8 v9 v10 v11 ls d0 d1 d2 d3 _ _ _ hvq
    simp only [List.map_nil, vqEx, List.nil_append] at hvq
    exact ⟨a3, a4, by simp [forLoop, fkEnd, dupdate, updPending, ← hvq]⟩
  | cons x exs ih =>
    intro w tail v0 v1 v2 a3 a4 a5 a6 a7 v8 v9 v10 v11 ls d0 d1 d2 d3 hc hsig hall hvq
    obtain ⟨k, inp⟩ := x
    obtain ⟨hk, col, v, hp, hcol⟩ := hall (k, inp) (by simp)
    simp only at hk hp
    simp only [List.map_cons, hp, vqEx_fk_cons, List.cons_append] at hvq
    have hstep := set_fk_step ps body hbody w k (pvOfIn inp) col v _ hk hp hcol hc hsig hvq
      v0 v1 v2 a3 a4 a5 a6 a7 v8 v9 v10 v11 ls d0 d1 d2 d3
    obtain ⟨b3, b4, hb⟩ := ih (stepW w (vqEx (exs.map fun e => w.props e.1) ++ tail) col v) tail
      v0 v1 v2 (some (.name k)) (some (pvOfIn inp)) a5 a6 a7 v8 v9 v10 v11 ls d0 d1 d2 d3 hc hsig
      (fun e he => hall e (by simp [he])) rfl
    refine ⟨b3, b4, ?_⟩
    simp only [List.map_cons, forLoop, hstep]
    simp only [stepW] at hb
    rw [hb]
    have hf : fkOf w.props (k, inp) = (col, v) := by simp [fkOf, hp]
    simp [fkEnd, hf, dupdate, updPending, stepW]

/-- the world with another oracle queue -/
def wq (w : FW) (q : List Bool) : FW := { w with vq := q }

/-- the object under construction after the plain columns were cached and made pending -/
def w2 (w : FW) (q : List Bool) (kw : List (Nat × In)) : FW :=
  { w with vq := q, nobj := ⟨dupdate (Fail.asgOf kw) w.nobj.vals, updPending w.nobj.cv (Fail.asgOf kw), w.nobj.dirty⟩ }

/-- what `set(**pd)` leaves of an object under construction: plain columns `kw`, then the ForeignKey-by-object
    keywords `fks` (column, id) -/
def creatingEnd (w : FW) (tail : List Bool) (kw : List (Nat × In)) (fks : List (Nat × Fail.Val)) : FW :=
  { w with vq := tail, nobj := ⟨dupdate fks (dupdate (Fail.asgOf kw) w.nobj.vals),
      updPending (updPending w.nobj.cv (Fail.asgOf kw)) fks, if kw.isEmpty && fks.isEmpty then w.nobj.dirty else true⟩ }

/-- **`set(**pd)` while `_creating`, plain columns and ForeignKeys given by object** (setters = translated
    `_SO_setValue`): every column value is validated before anything changes; the by-object keywords are
    validated and stored one by one afterwards -/
theorem setFT_creating (ps : FW → Nat → Nat → In → Outcome) (sup : Bool) (w : FW) (tail : List Bool)
    (pd kw exs : List (Nat × In)) (hc : w.creating = true) (hsig : w.sigSuppress = false)
    (hnd : (pd.map (·.1)).Nodup)
    (hkwF : pd.filter (fun x => Nat.blt x.1 (clsOf w.sch w.c).cols.length) = kw)
    (hexF : pd.filter (fun x => !Nat.blt x.1 (clsOf w.sch w.c).cols.length) = exs)
    (hfk : ∀ e ∈ exs, ∃ col v, w.props e.1 = .fk col v ∧ col < (clsOf w.sch w.c).cols.length)
    (hvq : w.vq = vqOf kw ++ (vqEx (exs.map fun e => w.props e.1) ++ tail)) :
    (allOk kw = true → setFWith (propCallT ps) sup w (kwPV pd) =
        .ret (creatingEnd w tail kw (exs.map (fkOf w.props))) .none) ∧
    (allOk kw = false → ∃ q, setFWith (propCallT ps) sup w (kwPV pd) = .exc { w with vq := q } .invalid) := by
  have hlt : ∀ e ∈ kw, e.1 < (clsOf w.sch w.c).cols.length := by
    intro e he; rw [← hkwF, List.mem_filter] at he; simpa [Nat.blt_eq] using he.2
  have hge : ∀ e ∈ exs, Nat.blt e.1 (clsOf w.sch w.c).cols.length = false := by
    intro e he; rw [← hexF, List.mem_filter] at he; simpa using he.2
  have hkwnd : (kw.map (·.1)).Nodup := hkwF ▸ nodup_keys_filter pd _ hnd
  have hexnd : (exs.map (·.1)).Nodup := hexF ▸ nodup_keys_filter pd _ hnd
  have hf1 := filter_fst_map pd (fun x => !Nat.blt x.fst (clsOf w.sch w.c).cols.length) (fun x => (PV.name x.fst).pair (ofVal x.snd.val))
  have hf2 := filter_fst_map pd (fun x => Nat.blt x.fst (clsOf w.sch w.c).cols.length) (fun x => (PV.name x.fst).pair (ofVal x.snd.val))
  rw [hexF] at hf1
  rw [hkwF] at hf2
  have hkw0 : dictOf (kw.map fun e => (e.1, ofVal e.2.val)) = kw.map fun e => (e.1, ofVal e.2.val) :=
    dictOf_nodup _ (by simpa [Function.comp_def] using hkwnd)
  have hex0 : dictOf (exs.map fun e => (e.1, ofVal e.2.val)) = exs.map fun e => (e.1, ofVal e.2.val) :=
    dictOf_nodup _ (by simpa [Function.comp_def] using hexnd)
  clear hkwF hexF hnd
  obtain ⟨hOk, hBad⟩ := set_for0_loop (propCallT ps) kw w (vqEx (exs.map fun e => w.props e.1) ++ tail)
    (some (.bool sup)) none none none none none none none none none none none
    [[], [], []] (kwPV kw) (kwPV exs) [] [] hvq (fun e he => by simpa [Nat.blt_eq] using hlt e he) hkwnd (by simp)
    (fun e he => dset_same _ _ _ (by simpa [kwPV, Function.comp_def] using hkwnd)
      (List.mem_map.mpr ⟨e, he, by simp [pvOfIn]⟩))
  simp only [setSt, kwPV, pvOfIn] at hOk hBad
  unfold setFWith setProg set_nlocals set_nlists set_ndicts
  constructor
  · intro hok
    obtain ⟨b3, b4, b5, b6, b7, hb⟩ := hOk hok
    pfonly [kwPV, hf1, hf2, hkw0, hex0, FW.ncols, hsig, hc]
    simp only [Function.comp_def]
    rw [hb]
    pfonly [hc]
    simp only [Function.comp_def]
    -- pre-check: no unknown keyword
    have hun : Fail.hasUnknown (exs.map fun e => w.props e.1) = false := by
      simp only [Fail.hasUnknown, List.any_eq_false, List.mem_map]
      rintro x ⟨e, he, rfl⟩
      obtain ⟨col, v, hp, _⟩ := hfk e he
      simp [hp]
    obtain ⟨p3, hp⟩ := set_for1_loop (propCallT ps) (exs.map (·.1)) (wq w (vqEx (exs.map fun e => w.props e.1) ++ tail))
      (some (.bool sup)) none none b3 b4 b5 b6 b7 none none none none [[], [], []]
      (List.map (fun e => (e.1, ofVal e.2.val)) kw) (List.map (fun e => (e.1, ofVal e.2.val)) exs)
      (List.map (fun e => (e.1, ofVal e.2.val)) kw) []
      (fun k hk => by
        obtain ⟨e, he, rfl⟩ := List.mem_map.mp hk
        exact hge e he)
    simp only [wq, setSt, List.map_map, Function.comp_def, hc] at hp
    simp only [hun, Bool.false_eq_true, if_false] at hp
    rw [hp]
    pfonly []
    simp only [Function.comp_def]
    have hitems : kw.map (fun x => (PV.name x.1).pair (ofVal x.2.val)) =
        (Fail.asgOf kw).map fun e => PV.pair (.name e.1) (ofVal e.2) := by simp [Fail.asgOf]
    obtain ⟨c3, c4, hcl⟩ := set_cache_loop (propCallT ps) set_for2 rfl (Fail.asgOf kw)
      (wq w (vqEx (exs.map fun e => w.props e.1) ++ tail))
      (some (.bool sup)) none none p3 b4 b5 b6 b7 none none none none [[], [], []]
      (List.map (fun e => (e.1, ofVal e.2.val)) kw) (List.map (fun e => (e.1, ofVal e.2.val)) exs)
      (List.map (fun e => (e.1, ofVal e.2.val)) kw) []
    simp only [wq, setSt, hc] at hcl
    rw [hitems, hcl, setVals_creating _ _ rfl]
    pfonly [cvOf_kwPV, FW.updCV]
    simp only [Function.comp_def]
    obtain ⟨e3, e4, he⟩ := set_fk_loop ps set_for3 (by rfl) exs
      (w2 w (vqEx (exs.map fun e => w.props e.1) ++ tail) kw) tail
      (some (.bool sup)) none none c3 c4 b5 b6 b7 none none none none [[], [], []]
      (List.map (fun e => (e.1, ofVal e.2.val)) kw) (List.map (fun e => (e.1, ofVal e.2.val)) exs)
      (List.map (fun e => (e.1, ofVal e.2.val)) kw) [] hc hsig
      (fun e he => ⟨hge e he, hfk e he⟩) rfl
    simp only [w2, setSt, pvOfIn, hc, fkEnd] at he
    rw [he]
    cases kw <;> cases hx : exs <;> pfonly [hc, FW.setDirty, creatingEnd, Fail.asgOf, dupdate, updPending, hx]
  · intro hok
    obtain ⟨st', q, hb, hw⟩ := hBad hok
    refine ⟨q, ?_⟩
    pfonly [kwPV, hf1, hf2, hkw0, hex0, FW.ncols, hsig, hc]
    simp only [Function.comp_def]
    rw [hb]
    simp [hw, hc, hsig]

end SqlObjVerif.PyFail
