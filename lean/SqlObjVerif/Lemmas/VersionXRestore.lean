import SqlObjVerif.Lemmas.VersionXRow
/-!
The translated `Version.restore` (PyVersion program regenerated from /repo on every run) is the hand model's `restore`
step on the version's own connection: `restoreX_eq`.
-/
namespace SqlObjVerif.Version
open SqlObjVerif.Events
open SqlObjVerif.PyVer
open SqlObjVerif.PyVer.Extracted

/-- the loop `for _col in self.extraCols: del values[_col]` -/
theorem restore_loop (I : Iface XW) (cols : List (String × PVal)) (f : String → PVal) (w : XW) (o2 : Option PVal) :
    ∀ (es : List String) (o1 : Option PVal), es.Nodup → (∀ e ∈ es, e ∉ cols.map (·.1)) →
      ∃ o1', forLoop (fun st a => Block.exec I (st.setVar 1 a) restore_loop0) (es.map PyVer.Val.str)
          { w := w, vars := [some (.dictv (body (cols ++ es.map fun e => (e, f e)))), o1, o2] }
        = .norm { w := w, vars := [some (.dictv (body cols)), o1', o2] } := by
  intro es
  induction es with
  | nil => intro o1 _ _; exact ⟨o1, by simp [forLoop]⟩
  | cons e es ih =>
    intro o1 hnd hdis
    have hnd' := List.nodup_cons.mp hnd
    have he : e ∉ cols.map (·.1) := hdis e (by simp)
    obtain ⟨o1', h⟩ := ih (some (.str e)) hnd'.2 (fun x hx => hdis x (List.mem_cons_of_mem _ hx))
    refine ⟨o1', ?_⟩
    have h1 := vdHas_body_mid cols (es.map fun e => (e, f e)) e (f e)
    have h2 := vdDel_body_mid cols (es.map fun e => (e, f e)) e (f e) he
    have hstep : Block.exec I (St.setVar { w := w, vars := [some (.dictv (body (cols ++ (e, f e) :: es.map fun e => (e, f e)))), o1, o2] } 1 (.str e))
        restore_loop0 = .norm { w := w, vars := [some (.dictv (body (cols ++ es.map fun e => (e, f e)))), some (.str e), o2] } := by
      simp [restore_loop0, Block.exec, Stmt.exec, Expr.eval, Env.get, St.setVar, h1, h2]
    simp only [List.map_cons, forLoop, hstep]
    exact h

/-- **`Version.restore` as translated** is the hand model's `restore` step on the version's own connection -/
theorem restoreX_eq (X : Ctx) (hX : X.OK) (w : XW) (d vid : Nat) (v : VRow)
    (hv : findV (w.S d) vid = some v) (hvl : v.vals.length = X.names.length)
    (hrl : ∀ row, rowOf? (w.S d).masters v.master = some row → row.length = X.names.length) :
    outOf (restoreX X w d vid) = some (dstep X.c w.S d (.restore vid)) := by
  have hfind : (w.S d).versions.find? (fun v => v.vid = vid) = some v := hv
  simp only [dstep, vstep, vRestore, hfind, vUpdateVec_eq_setRest]
  have hndn : X.names.Nodup := (List.nodup_append.mp hX.nodup).1
  have hnde : X.extra.Nodup := (List.nodup_append.mp hX.nodup).2.1
  have hk := colPairs_keys X.names v.vals hvl
  have hkE : (X.extra.map fun e => (e, X.xval d v.vid e)).map (·.1) = X.extra := by simp [Function.comp_def]
  have n1 : "id" ∉ (("dateArchived", X.date d v.vid) :: ("masterID", PyVer.Val.nat v.master) ::
      (colPairs X.names v.vals ++ X.extra.map fun e => (e, X.xval d v.vid e))).map (·.1) := by
    simp only [List.map_cons, List.map_append, hk, hkE, List.mem_cons, List.mem_append, not_or]
    exact ⟨by decide, by decide, OK.notin_names X hX _ (by simp [reserved]), OK.notin_extra X hX _ (by simp [reserved])⟩
  have h1 := vdHas_body_mid (("dateArchived", X.date d v.vid) :: ("masterID", PyVer.Val.nat v.master) ::
      (colPairs X.names v.vals ++ X.extra.map fun e => (e, X.xval d v.vid e))) [] "id" (.nat v.vid)
  have h2 := vdDel_body_mid _ [] "id" (.nat v.vid) n1
  have h3 := vdHas_body_mid [("dateArchived", X.date d v.vid)]
      (colPairs X.names v.vals ++ X.extra.map fun e => (e, X.xval d v.vid e)) "masterID" (.nat v.master)
  have h4 := vdDel_body_mid [("dateArchived", X.date d v.vid)]
      (colPairs X.names v.vals ++ X.extra.map fun e => (e, X.xval d v.vid e)) "masterID" (.nat v.master) (by simp)
  have h5 := vdHas_body_mid []
      (colPairs X.names v.vals ++ X.extra.map fun e => (e, X.xval d v.vid e)) "dateArchived" (X.date d v.vid)
  have h6 := vdDel_body_mid []
      (colPairs X.names v.vals ++ X.extra.map fun e => (e, X.xval d v.vid e)) "dateArchived" (X.date d v.vid) (by simp)
  simp only [List.cons_append, List.nil_append, List.append_assoc, List.append_nil] at h1 h2 h3 h4 h5 h6
  have hkeys : vdKeys (body (List.map (fun e => (e, xcolObj e)) X.extra)) = X.extra.map PyVer.Val.str := by
    simp [vdKeys_body]
  have hdis : ∀ e ∈ X.extra, e ∉ (colPairs X.names v.vals).map (·.1) := by
    intro e he; rw [hk]; intro hn
    exact (List.nodup_append.mp hX.nodup).2.2 e hn e he rfl
  obtain ⟨o1', hL⟩ := restore_loop (xIface X (calls1 X) (.inst d 1 vid)) (colPairs X.names v.vals)
    (fun e => X.xval d v.vid e) w none X.extra none hnde hdis
  simp only [St.setVar] at hL
  unfold restoreX
  simp only [restoreProg, restore_nlocals]
  vxwith [versionDict, h1, h2, h3, h4, h5, h6, hkeys, hL]
  cases hr : rowOf? (w.S d).masters v.master with
  | none => simp [outOf, dset_self]
  | some row =>
    have hrow := hrl row hr
    have hvec : vecOf X (body (colPairs X.names v.vals)) = v.vals.map some := by
      rw [vecOf_body]; exact lookup_colPairs X.names hndn v.vals hvl
    have hunk : unkOf X (body (colPairs X.names v.vals)) = false :=
      unkOf_body X _ (fun p hp => colPairs_keys_sub X.names v.vals p.1 (List.mem_map.mpr ⟨p, hp, rfl⟩))
    have hru := rowUpdateX_eq X hX w d v.master row (.dictv (body (colPairs X.names v.vals))) hr hrow
    vxwith [xSet, calls1, hvec, hunk]
    generalize setRest X.c _ _ _ _ _ = q
    obtain ⟨s', o⟩ := q
    cases o <;> simp [outRes, outOf, St.setOpt]

end SqlObjVerif.Version
