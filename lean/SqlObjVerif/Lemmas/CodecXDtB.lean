import SqlObjVerif.Lemmas.CodecXStr
/-!
# CodecX — `DateTimeValidator.to_python` on a text: fraction longer than six digits, no `.` at all, format without `.%f`
-/
namespace SqlObjVerif.PyCodec

open SqlObjVerif.Codec (Str PyVal FTok SPiece DT)
open Extracted

theorem dt_dot_gt (fs : Str) (F : List SPiece) (hp : parseFmt fs = some F) (k : Int)
    (hf : strFind [46, 37, 102] fs = k) (hk : 0 ≤ k) (p u : Str) (hu : 46 ∉ u) (c : 6 < u.length) :
    DotGoal fs F p u := by
  have hst : ∀ x, strptimeText fs x = Codec.strptime F x := by intro x; simp [strptimeText, hp]
  have h1 := splitChr_snoc 46 p u hu
  have h2 : strIn [46] (p ++ 46 :: u) = true := by simp [strIn_single]
  have c1 : ¬ ((u.length : Int) < 6) := by omega
  have c2 : ((6 : Int) < u.length) := by omega
  have c3 : ¬ ((u.length : Int) = 6) := by omega
  have c4 : ¬ (u.length < 6) := by omega
  rw [DotGoal, fixMicro_app p u hu]
  pyxw [dtToPython, dtToPython_s0, dtToPython_s1, dtToPython_s2, dtToPython_s3, dtToPython_s4, hf, hk, h1, h2,
    pyIndex_last, setLast_snoc, joinStr_split_snoc, strMul_pad, hst, c, c1, c2, c3, c4]
  generalize Codec.strptime F _ = r
  cases r <;> simp [dtRes]

end SqlObjVerif.PyCodec
