import SqlObjVerif.Lemmas.ConcXBase
/-!
# C09 — the caller layer, `created`, `expire`, `expireAll` (translated) simulate the `Conc` actions, pc kind by pc kind
-/
namespace SqlObjVerif.ConcX
open SqlObjVerif.PyCache (Val Block Stmt Dict DictAttr Expr Cond dget dset ddel dhasKey)
open SqlObjVerif.PyCache.Extracted
open SqlObjVerif.PyCacheSS
open SqlObjVerif.Conc (Id Obj Op Out K Pc State AInv holds aget aset adel goto finish)

/-! ## the caller layer -/
theorem good_idle (s : State) (t : Tid)
    (hpc : (s.th t).pc = .idle) (x : XTh) (hx : ThSim s.dc (s.th t) x) : Good s t x := by
  xintro
  obtain ⟨rfl, rfl⟩ := hp
  xstep []

theorem good_csGet (s : State) (t : Tid) (k : K) (ha : AInv s)
    (hpc : (s.th t).pc = .csGet k) (x : XTh) (hx : ThSim s.dc (s.th t) x) : Good s t x := by
  have hnl : s.lock ≠ some t := nonholder s t ha (by rw [hpc]; rfl)
  xintro
  obtain ⟨hk, rfl, rfl⟩ := hp
  cases hc : s.caches
  · simp only [Bool.false_eq_true, if_false]
    cases k
    case get i => dsimp only; xstep [hnl, hc]; xclose [hpc]
    case create i o => dsimp only; xstep [hnl, hc]; xclose [hpc]
    case cull => exact hk.elim
    all_goals (dsimp only; xstep [hnl, hc]; xfin [hpc])
  · simp only [if_true]
    cases hdc : s.dc <;> cases k <;> dsimp only
    case false.expireAll => xstep [hnl, hc, hdc]; xfin [hpc]
    case false.cull => exact hk.elim
    case true.cull => exact hk.elim
    all_goals (xstep [Conc.afterCaches, hnl, hc, hdc]; xclose [hpc, hdc])

theorem good_csSet (s : State) (t : Tid) (k : K) (ha : AInv s)
    (hpc : (s.th t).pc = .csSet k) (x : XTh) (hx : ThSim s.dc (s.th t) x) : Good s t x := by
  have hnl : s.lock ≠ some t := nonholder s t ha (by rw [hpc]; rfl)
  xintro
  obtain ⟨hk, rfl, rfl⟩ := hp
  cases hdc : s.dc <;> cases k <;> simp only [ccOK] at hk <;> (xstep [Conc.afterCaches, hnl, hdc]; xclose [hpc, hdc])

theorem good_insert (s : State) (t : Tid) (i : Id) (ha : AInv s)
    (hpc : (s.th t).pc = .insert i) (x : XTh) (hx : ThSim s.dc (s.th t) x) : Good s t x := by
  have hnl : s.lock ≠ some t := nonholder s t ha (by rw [hpc]; rfl)
  xintro
  obtain ⟨rfl, rfl⟩ := hp
  by_cases hi : i ∈ s.db
  · simp only [hi, if_true]; xstep [hnl, hi]; xfin [hpc]
  · simp only [hi, if_false]
    cases hc : s.caches <;> cases hdc : s.dc <;> simp only [Bool.false_eq_true, if_true, if_false] <;>
      (xstep [hnl, hi, hc, hdc]; xclose [hpc, hdc])

theorem good_crSelect (s : State) (t : Tid) (i : Id) (o : Obj) (ha : AInv s)
    (hpc : (s.th t).pc = .crSelect i o) (x : XTh) (hx : ThSim s.dc (s.th t) x) : Good s t x := by
  have hnl : s.lock ≠ some t := nonholder s t ha (by rw [hpc]; rfl)
  xintro
  obtain ⟨rfl, rfl⟩ := hp
  by_cases hi : i ∈ s.db
  · simp only [hi, if_true]; xstep [hnl, hi]; xfin [hpc]
  · simp only [hi, if_false]; xstep [hnl, hi]; xfin [hpc]

theorem good_eaEntry (s : State) (t : Tid) (ha : AInv s)
    (hpc : (s.th t).pc = .eaEntry) (x : XTh) (hx : ThSim s.dc (s.th t) x) : Good s t x := by
  have hnl : s.lock ≠ some t := nonholder s t ha (by rw [hpc]; rfl)
  xintro
  obtain ⟨rfl, rfl⟩ := hp
  cases hc : s.caches
  · simp only [Bool.false_eq_true, if_false]; xstep [hnl, hc]; xclose [hpc]
  · simp only [if_true]; xstep [hnl, hc]; xfin [hpc]

/-! ## `created` -/
theorem good_crSetL (s : State) (t : Tid) (i : Id) (o : Obj) (ha : AInv s)
    (hpc : (s.th t).pc = .crSetL i o) (x : XTh) (hx : ThSim s.dc (s.th t) x) : Good s t x := by
  have hnl : s.lock ≠ some t := nonholder s t ha (by rw [hpc]; rfl)
  xintro
  obtain ⟨hdc, rfl, rfl⟩ := hp
  xstep [hnl, hdc]
  xclose [hpc, hdc]

theorem good_crSet (s : State) (t : Tid) (i : Id) (o : Obj) (g : Nat) (ha : AInv s)
    (hpc : (s.th t).pc = .crSet i o g) (x : XTh) (hx : ThSim s.dc (s.th t) x) : Good s t x := by
  have hnl : s.lock ≠ some t := nonholder s t ha (by rw [hpc]; rfl)
  have hds := dset_eq_aset i o s.strong ha.skeys
  have hdw := dset_eq_aset i o s.weak ha.wkeys
  xintro
  obtain ⟨rfl, hm⟩ := hp
  cases hdc : s.dc <;> simp only [hdc, Bool.false_eq_true, if_true, if_false] at hm ⊢ <;> subst hm
  · xstep [hnl, hdc, hdw]; xclose [hpc]
  · by_cases hg : g = s.gen
    · simp only [hg, if_true]; xstep [hnl, hdc, hg, hds]; xclose [hpc]
    · simp only [hg, if_false]; xstep [hnl, hdc, hg]; xclose [hpc]

/-! ## `expire` -/
theorem good_exAcq (s : State) (t : Tid) (i : Id) (ha : AInv s)
    (hpc : (s.th t).pc = .exAcq i) (x : XTh) (hx : ThSim s.dc (s.th t) x) : Good s t x := by
  xintro
  obtain ⟨rfl, rfl⟩ := hp
  cases hl : s.lock with
  | none => dsimp only; cases hdc : s.dc <;> simp only [Bool.false_eq_true, if_true, if_false] <;> (xstep [hl, hdc]; xclose [hpc, hdc])
  | some u => dsimp only; xstep [hl]

theorem good_exInStrong (s : State) (t : Tid) (i : Id) (ha : AInv s)
    (hpc : (s.th t).pc = .exInStrong i) (x : XTh) (hx : ThSim s.dc (s.th t) x) : Good s t x := by
  have hl : s.lock = some t := (ha.holder t).1 (by rw [hpc]; rfl)
  xintro
  obtain ⟨hdc, rfl, rfl⟩ := hp
  cases h : aget s.strong i with
  | none => dsimp only; xstep [hl, hdc, h]; xclose [hpc]
  | some o => dsimp only; xstep [hl, hdc, h]; xclose [hpc]

theorem good_exDelStrong (s : State) (t : Tid) (i : Id) (ha : AInv s)
    (hpc : (s.th t).pc = .exDelStrong i) (x : XTh) (hx : ThSim s.dc (s.th t) x) : Good s t x := by
  have hl : s.lock = some t := (ha.holder t).1 (by rw [hpc]; rfl)
  have hn := (ha.needS t).2 i (by rw [hpc]; simp [Conc.needS])
  xintro
  obtain ⟨hdc, rfl, rfl⟩ := hp
  cases h : aget s.strong i with
  | none => exact absurd h hn
  | some o => dsimp only; xstep [hl, hdc, h]; xclose [hpc]

theorem good_exInWeak (s : State) (t : Tid) (i : Id) (ha : AInv s)
    (hpc : (s.th t).pc = .exInWeak i) (x : XTh) (hx : ThSim s.dc (s.th t) x) : Good s t x := by
  have hl : s.lock = some t := (ha.holder t).1 (by rw [hpc]; rfl)
  xintro
  obtain ⟨rfl, rfl⟩ := hp
  cases h : aget s.weak i with
  | none => dsimp only; xstep [hl, h]; xclose [hpc]
  | some o => dsimp only; xstep [hl, h]; xclose [hpc]

theorem good_exDelWeak (s : State) (t : Tid) (i : Id) (ha : AInv s)
    (hpc : (s.th t).pc = .exDelWeak i) (x : XTh) (hx : ThSim s.dc (s.th t) x) : Good s t x := by
  have hl : s.lock = some t := (ha.holder t).1 (by rw [hpc]; rfl)
  have hn := (ha.needW t).2 i (by rw [hpc]; simp [Conc.needW])
  xintro
  obtain ⟨rfl, rfl⟩ := hp
  cases h : aget s.weak i with
  | none => exact absurd h hn
  | some o => dsimp only; xstep [hl, h]; xclose [hpc]

theorem good_exRel (s : State) (t : Tid) (ha : AInv s)
    (hpc : (s.th t).pc = .exRel) (x : XTh) (hx : ThSim s.dc (s.th t) x) : Good s t x := by
  have hl : s.lock = some t := (ha.holder t).1 (by rw [hpc]; rfl)
  xintro
  obtain ⟨rfl, v, rfl⟩ := hp
  xstep [hl]
  xfin [hpc]

theorem good_exRelErr (s : State) (t : Tid)
    (hpc : (s.th t).pc = .exRelErr) (x : XTh) (hx : ThSim s.dc (s.th t) x) : Good s t x := by
  obtain ⟨_, _, hp⟩ := hx
  rw [hpc] at hp
  exact hp.elim

/-! ## `expireAll` -/
theorem good_eaAcq (s : State) (t : Tid) (ha : AInv s)
    (hpc : (s.th t).pc = .eaAcq) (x : XTh) (hx : ThSim s.dc (s.th t) x) : Good s t x := by
  xintro
  obtain ⟨hdc, rfl, rfl⟩ := hp
  cases hl : s.lock with
  | none => dsimp only; xstep [hl, hdc]; xclose [hpc, hdc]
  | some u => dsimp only; xstep [hl, hdc]

theorem good_eaNext (s : State) (t : Tid) (pos used : Nat) (ha : AInv s)
    (hpc : (s.th t).pc = .eaNext pos used) (x : XTh) (hx : ThSim s.dc (s.th t) x) : Good s t x := by
  have hl : s.lock = some t := (ha.holder t).1 (by rw [hpc]; rfl)
  xintro
  obtain ⟨hdc, rfl, v0, v1, rfl⟩ := hp
  by_cases hlen : s.strong.length ≠ used
  · rw [if_pos hlen]; xstep [hl, hdc, hlen]; xclose [hpc, hdc]
  · rw [if_neg hlen]
    cases h : s.strong[pos]? with
    | none => dsimp only; xstep [hl, hdc, hlen, h]; xclose [hpc, hdc]
    | some e => obtain ⟨k, v⟩ := e; dsimp only; xstep [hl, hdc, hlen, h]; xclose [hpc, hdc]

theorem good_eaSetWeak (s : State) (t : Tid) (k : Id) (v : Obj) (pos used : Nat) (ha : AInv s)
    (hpc : (s.th t).pc = .eaSetWeak k v pos used) (x : XTh) (hx : ThSim s.dc (s.th t) x) : Good s t x := by
  have hl : s.lock = some t := (ha.holder t).1 (by rw [hpc]; rfl)
  have hdw := dset_eq_aset k v s.weak ha.wkeys
  xintro
  obtain ⟨hdc, rfl, rfl⟩ := hp
  xstep [hl, hdc, hdw]
  xclose [hpc, hdc]

theorem good_eaSwap (s : State) (t : Tid) (ha : AInv s)
    (hpc : (s.th t).pc = .eaSwap) (x : XTh) (hx : ThSim s.dc (s.th t) x) : Good s t x := by
  have hl : s.lock = some t := (ha.holder t).1 (by rw [hpc]; rfl)
  xintro
  obtain ⟨hdc, rfl, v0, v1, rfl⟩ := hp
  xstep [hl, hdc]
  xclose [hpc, hdc]

theorem good_eaRel (s : State) (t : Tid) (ha : AInv s)
    (hpc : (s.th t).pc = .eaRel) (x : XTh) (hx : ThSim s.dc (s.th t) x) : Good s t x := by
  have hl : s.lock = some t := (ha.holder t).1 (by rw [hpc]; rfl)
  xintro
  obtain ⟨rfl, v0, v1, rfl⟩ := hp
  xstep [hl]
  xfin [hpc]

theorem good_eaRelErr (s : State) (t : Tid) (ha : AInv s)
    (hpc : (s.th t).pc = .eaRelErr) (x : XTh) (hx : ThSim s.dc (s.th t) x) : Good s t x := by
  have hl : s.lock = some t := (ha.holder t).1 (by rw [hpc]; rfl)
  xintro
  obtain ⟨rfl, v0, v1, rfl⟩ := hp
  xstep [hl, excMap]
  xfin [hpc]

end SqlObjVerif.ConcX
