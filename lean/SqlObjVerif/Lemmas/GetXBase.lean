import SqlObjVerif.Model.GetX
import SqlObjVerif.Lemmas.CacheXCull
set_option linter.unusedSimpArgs false
namespace SqlObjVerif.Cache
open SqlObjVerif.PyGet
open SqlObjVerif.PyGet.Extracted

/-- `s'` differs from `s` only in class `c`'s factory and in which objects are dead -/
structure Local (s s' : State) (c : Cls) : Prop where
  cfg : s'.cfg = s.cfg
  rows : s'.rows = s.rows
  maxId : s'.maxId = s.maxId
  n : s'.n = s.n
  pickles : s'.pickles = s.pickles
  fac : ∀ c', c' ≠ c → s'.fac c' = s.fac c'
  obj : ∀ h, s'.obj h = { s.obj h with dead := (s'.obj h).dead }

theorem Local.refl (s : State) (c : Cls) : Local s s c := ⟨rfl, rfl, rfl, rfl, rfl, fun _ _ => rfl, fun _ => rfl⟩

theorem Local.trans {a b d : State} {c : Cls} (h1 : Local a b c) (h2 : Local b d c) : Local a d c := by
  refine ⟨h2.cfg.trans h1.cfg, h2.rows.trans h1.rows, h2.maxId.trans h1.maxId, h2.n.trans h1.n,
    h2.pickles.trans h1.pickles, fun c' hc => (h2.fac c' hc).trans (h1.fac c' hc), ?_⟩
  intro h
  rw [h2.obj h, h1.obj h]

theorem local_setFac (s : State) (c : Cls) (f : Factory) : Local s (setFac s c f) c :=
  ⟨rfl, rfl, rfl, rfl, rfl, fun c' hc => by simp [setFac, upd, hc], fun _ => rfl⟩

theorem local_cull (s : State) (c : Cls) : Local s (cull s c) c := by
  refine ⟨rfl, rfl, rfl, rfl, rfl, fun c' hc => cull_fac_other s c c' hc, ?_⟩
  intro h
  simp only [cull]
  split <;> rfl

theorem local_tick (s : State) (c : Cls) : Local s (tick s c) c := by
  rcases tick_cases s c with h | h | h <;> rw [h]
  · exact Local.refl s c
  · exact local_setFac s c _
  · exact (local_setFac s c _).trans (local_cull _ c)

theorem local_lookup (s : State) (c : Cls) (k : Id) : Local s (lookupCache s c k).1 c := by
  unfold lookupCache
  simp only
  split
  · split
    · exact Local.refl s c
    · split
      · exact Local.refl s c
      · split
        · exact local_setFac s c _
        · exact local_setFac s c _
  · split
    · exact Local.refl s c
    · split
      · exact local_setFac s c _
      · exact Local.refl s c

theorem local_insert (s : State) (c : Cls) (k : Id) (h : Handle) : Local s (insertEntry s c k h) c := by
  unfold insertEntry
  simp only
  split <;> exact local_setFac s c _

theorem local_purge (s : State) (c : Cls) (k : Id) : Local s (purge s c k) c := by
  rw [purge_eq]; exact local_setFac s c _

theorem backS_absW {s s' : State} {c : Cls} (h : Local s s' c) (rel falsy : Handle → Bool) (l : Bool) :
    backS s c (absW s' c rel falsy l) = s' := by
  obtain ⟨h1, h2, h3, h4, h5, h6, h7⟩ := h
  obtain ⟨cfg', rows', maxId', fac', obj', n', pickles'⟩ := s'
  simp only at h1 h2 h3 h4 h5 h6 h7
  subst h1 h2 h3 h4 h5
  unfold backS absW absSelf facOf
  simp only
  congr 1
  · funext c'
    simp only [upd]
    split
    · rename_i hc; subst hc; rfl
    · rename_i hc; exact (h6 c' hc).symm
  · funext h; exact (h7 h).symm

macro "grun" : tactic => `(tactic|
  simp [PyGet.run, Block.exec, Stmt.exec, Cond.eval, Expr.eval, evalList, evalOpt, eval2, afterCall, St.setVar, St.setOpt,
        St.setAll, Env.get, Res.toCall, pyBool, zipKw, Val.isNone, ExcPat.catches, PyGet.forLoop, Val.toList, Val.ofList,
        csIface, csIface2, VcacheSet, Vcaches, VnewFactory, *])

def addMade (made : List Cls) (c : Cls) : List Cls := if c ∈ made then made else made ++ [c]

def optV : Option Handle → Val
  | none => .none
  | some h => .obj h

theorem upd_self {β : Type} (f : Nat → β) (a : Nat) : upd f a (f a) = f := by
  funext x; simp only [upd]; split <;> simp_all

theorem setFac_self (s : State) (c : Cls) : setFac s c (s.fac c) = s := by
  unfold setFac; rw [upd_self]

theorem install_wf (w : GW) (c : Cls) (hwf : w.WF) (hc : c ∉ w.made) : w.install c = { w with made := w.made ++ [c] } := by
  obtain ⟨h1, h2⟩ := hwf c hc
  unfold GW.install
  rw [← h1, setFac_self, ← h2, upd_self]

theorem facOut_ret (w : GW) (c : Cls) (s' : State) (rel falsy : Handle → Bool) (l' : Bool) (v : PyCache.Val)
    (hloc : Local w.s s' c) :
    facOut w c (.ret (absW s' c rel falsy l') v) = .ret { w with s := s', lock := upd w.lock c l' } (valOfP v) := by
  simp only [facOut, GW.back, backS_absW hloc]
  rfl

theorem valOfP_optObj (o : Option Handle) : valOfP (optObj o) = optV o := by cases o <;> rfl

theorem facGet_eq (w : GW) (c : Cls) (k : Id) (hl : w.lock c = false)
    (hfr : w.s.cfg.cullFraction ≠ 0) (hrep : Rep w.s c) :
    facCall w c "get" [.key k] =
      .ret { w with s := (lookupCache (tick w.s c) c k).1,
                    lock := upd w.lock c (lookupCache (tick w.s c) c k).2.isNone }
        (optV (lookupCache (tick w.s c) c k).2) := by
  simp only [facCall, if_true, GW.pw, hl]
  rw [getX_eq w.s c k w.falsy hfr hrep, facOut_ret _ _ _ _ _ _ _ ((local_tick w.s c).trans (local_lookup _ c k)),
    valOfP_optObj]

theorem facPut_eq (w : GW) (c : Cls) (k : Id) (h : Handle)
    (hrel : ∀ e ∈ (w.s.fac c).strong, e.1 = k → e.2 ≠ h → relOf w.s e.2 = false) :
    facCall w c "put" [.key k, .obj h] = .ret { w with s := insertEntry w.s c k h } .none := by
  simp [facCall, GW.pw]
  rw [putX_eq w.s c k h _ w.falsy _ hrel, facOut_ret _ _ _ _ _ _ _ (local_insert w.s c k h), upd_self]
  rfl

theorem facFinishPut_eq (w : GW) (c : Cls) (hl : w.lock c = true) :
    facCall w c "finishPut" [] = .ret { w with lock := upd w.lock c false } .none := by
  simp [facCall, GW.pw, hl]
  rw [finishPutX_eq w.s c _ w.falsy, facOut_ret _ _ _ _ _ _ _ (Local.refl w.s c)]
  rfl

theorem facCreated_eq (w : GW) (c : Cls) (k : Id) (h : Handle) (hl : w.lock c = false)
    (hfr : w.s.cfg.cullFraction ≠ 0) (hrep : Rep w.s c)
    (hrel : ∀ e ∈ (w.s.fac c).strong, e.1 = k → e.2 ≠ h → relOf w.s e.2 = false) :
    facCall w c "created" [.key k, .obj h] = .ret { w with s := insertEntry (tick w.s c) c k h } .none := by
  simp [facCall, GW.pw, hl]
  rw [createdX_eq w.s c k h w.falsy hfr hrep hrel,
    facOut_ret _ _ _ _ _ _ _ ((local_tick w.s c).trans (local_insert _ c k h)), ← hl, upd_self]
  rfl

theorem facExpire_eq (w : GW) (c : Cls) (k : Id) (hl : w.lock c = false)
    (hnc : w.s.cfg.doCache = false → (w.s.fac c).strong = [])
    (hrel : ∀ e ∈ (w.s.fac c).strong, e.1 = k → relOf w.s e.2 = false) :
    facCall w c "expire" [.key k] = .ret { w with s := purge w.s c k } .none := by
  simp [facCall, GW.pw, hl]
  rw [expireX_eq w.s c k _ w.falsy hnc hrel, facOut_ret _ _ _ _ _ _ _ (local_purge w.s c k), ← hl, upd_self]
  rfl

theorem facTryGet_eq (w : GW) (c : Cls) (k : Id) :
    facCall w c "tryGet" [.key k] = .ret w (optV (tryGet w.s c k)) := by
  simp [facCall, GW.pw]
  rw [tryGetX_eq w.s c k _ w.falsy, facOut_ret _ _ _ _ _ _ _ (Local.refl w.s c), upd_self, valOfP_optObj]

/-! ### the translated `CacheSet` methods -/

theorem csGet_eq (w : GW) (c : Cls) (k : Id) (hwf : w.WF) (hl : w.lock c = false)
    (hfr : w.s.cfg.cullFraction ≠ 0) (hrep : Rep w.s c) :
    csCall w "get" [.key k, .cls c] =
      .ret { w with s := (lookupCache (tick w.s c) c k).1, made := addMade w.made c,
                    lock := upd w.lock c (lookupCache (tick w.s c) c k).2.isNone }
        (optV (lookupCache (tick w.s c) c k).2) := by
  unfold csCall csGetProg csGet_nlocals addMade
  by_cases hc : c ∈ w.made
  · have key := facGet_eq w c k hl hfr hrep
    grun
  · have key := facGet_eq { w with made := w.made ++ [c] } c k hl hfr hrep
    grun
    rw [install_wf w c hwf hc, key]
    simp

theorem csPut_eq (w : GW) (c : Cls) (k : Id) (h : Handle) (hc : c ∈ w.made)
    (hrel : ∀ e ∈ (w.s.fac c).strong, e.1 = k → e.2 ≠ h → relOf w.s e.2 = false) :
    csCall w "put" [.key k, .cls c, .obj h] = .ret { w with s := insertEntry w.s c k h } .none := by
  unfold csCall csPutProg csPut_nlocals
  have key := facPut_eq w c k h hrel
  grun

theorem csFinishPut_eq (w : GW) (c : Cls) (hc : c ∈ w.made) (hl : w.lock c = true) :
    csCall w "finishPut" [.cls c] = .ret { w with lock := upd w.lock c false } .none := by
  unfold csCall csFinishPutProg csFinishPut_nlocals
  have key := facFinishPut_eq w c hl
  grun

theorem csCreated_eq (w : GW) (c : Cls) (k : Id) (h : Handle) (hwf : w.WF) (hl : w.lock c = false)
    (hfr : w.s.cfg.cullFraction ≠ 0) (hrep : Rep w.s c)
    (hrel : ∀ e ∈ (w.s.fac c).strong, e.1 = k → e.2 ≠ h → relOf w.s e.2 = false) :
    csCall w "created" [.key k, .cls c, .obj h] =
      .ret { w with s := insertEntry (tick w.s c) c k h, made := addMade w.made c } .none := by
  unfold csCall csCreatedProg csCreated_nlocals addMade
  by_cases hc : c ∈ w.made
  · have key := facCreated_eq w c k h hl hfr hrep hrel
    grun
  · have key := facCreated_eq { w with made := w.made ++ [c] } c k h hl hfr hrep hrel
    grun
    rw [install_wf w c hwf hc, key]

/-- `CacheSet.expire`: a class without a factory has nothing to expire -/
theorem csExpire_eq (w : GW) (c : Cls) (k : Id) (hwf : w.WF) (hl : w.lock c = false)
    (hnc : w.s.cfg.doCache = false → (w.s.fac c).strong = [])
    (hrel : ∀ e ∈ (w.s.fac c).strong, e.1 = k → relOf w.s e.2 = false) :
    csCall w "expire" [.key k, .cls c] = .ret { w with s := purge w.s c k } .none := by
  unfold csCall csExpireProg csExpire_nlocals
  by_cases hc : c ∈ w.made
  · have key := facExpire_eq w c k hl hnc hrel
    grun
  · grun
    have : purge w.s c k = w.s := by
      rw [purge_eq, (hwf c hc).1]
      simp only [emptyFactory, aerase, List.filter_nil]
      have := setFac_self w.s c
      rw [(hwf c hc).1] at this
      exact this
    rw [this]

theorem csTryGet_eq (w : GW) (c : Cls) (k : Id) (hwf : w.WF) :
    csCall w "tryGet" [.key k, .cls c] = .ret w (optV (tryGet w.s c k)) := by
  unfold csCall csTryGetProg csTryGet_nlocals
  by_cases hc : c ∈ w.made
  · have key := facTryGet_eq w c k
    grun
    simp [csTryGetByNameProg, csTryGetByName_nlocals]
    grun
  · grun
    simp [csTryGetByNameProg, csTryGetByName_nlocals]
    grun
    simp [tryGet, (hwf c hc).1, emptyFactory, aget, optV]

end SqlObjVerif.Cache
