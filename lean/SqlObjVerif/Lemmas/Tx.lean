import SqlObjVerif.Model.Tx
/-!
# Lemmas about the `Tx` model: frames, reads, connection well-formedness, coherence
-/
namespace SqlObjVerif.Tx

/-! ### field projections of the connection operations -/
@[simp] theorem Conn.modify_n (c : Conn) (j : Nat) (f : Inst → Inst) : (c.modify j f).n = c.n := rfl
@[simp] theorem Conn.modify_strong (c : Conn) (j : Nat) (f : Inst → Inst) : (c.modify j f).strong = c.strong := rfl
@[simp] theorem Conn.modify_weak (c : Conn) (j : Nat) (f : Inst → Inst) : (c.modify j f).weak = c.weak := rfl
@[simp] theorem Conn.modify_insts (c : Conn) (j : Nat) (f : Inst → Inst) (x : Nat) :
    (c.modify j f).insts x = if x = j then f (c.insts j) else c.insts x := rfl
@[simp] theorem Conn.evict_n (c : Conn) (k : Key) : (c.evict k).n = c.n := rfl
@[simp] theorem Conn.evict_insts (c : Conn) (k : Key) : (c.evict k).insts = c.insts := rfl
@[simp] theorem Conn.evict_strong (c : Conn) (k x : Key) : (c.evict k).strong x = if x = k then none else c.strong x := rfl
@[simp] theorem Conn.evict_weak (c : Conn) (k x : Key) : (c.evict k).weak x = if x = k then none else c.weak x := rfl
@[simp] theorem Conn.alloc_n (c : Conn) (k : Key) (row : Row) : (c.alloc k row).n = c.n + 1 := rfl
@[simp] theorem Conn.alloc_strong (c : Conn) (k : Key) (row : Row) : (c.alloc k row).strong = c.strong := rfl
@[simp] theorem Conn.alloc_weak (c : Conn) (k : Key) (row : Row) : (c.alloc k row).weak = c.weak := rfl
@[simp] theorem Conn.alloc_insts (c : Conn) (k : Key) (row : Row) (x : Nat) :
    (c.alloc k row).insts x
      = if x = c.n then ⟨k, fun col => some (row col), true, false, true, false⟩ else c.insts x := rfl
@[simp] theorem Conn.put_n (dc : Bool) (c : Conn) (k : Key) (j : Nat) : (c.put dc k j).n = c.n := by
  unfold Conn.put; split <;> rfl
@[simp] theorem Conn.put_insts (dc : Bool) (c : Conn) (k : Key) (j : Nat) : (c.put dc k j).insts = c.insts := by
  unfold Conn.put; split <;> rfl
@[simp] theorem Conn.weaken_n (c : Conn) (k : Key) : (c.weaken k).n = c.n := by
  unfold Conn.weaken; repeat' split
  all_goals rfl
@[simp] theorem Conn.weaken_insts (c : Conn) (k : Key) : (c.weaken k).insts = c.insts := by
  unfold Conn.weaken; repeat' split
  all_goals rfl
@[simp] theorem Conn.purge_n (c : Conn) (cls : Nat) : (c.purge cls).n = c.n := rfl
@[simp] theorem Conn.purge_insts (c : Conn) (cls : Nat) : (c.purge cls).insts = c.insts := rfl
@[simp] theorem Conn.purge_strong (c : Conn) (cls : Nat) : (c.purge cls).strong = c.strong := rfl
@[simp] theorem Conn.cacheGet_n (dc : Bool) (c : Conn) (k : Key) : (c.cacheGet dc k).2.n = c.n := by
  unfold Conn.cacheGet; repeat' split
  all_goals rfl
@[simp] theorem Conn.cacheGet_insts (dc : Bool) (c : Conn) (k : Key) : (c.cacheGet dc k).2.insts = c.insts := by
  unfold Conn.cacheGet; repeat' split
  all_goals rfl

@[simp] theorem St.setConn_dc (s : St) (sd : Side) (c : Conn) : (s.setConn sd c).dc = s.dc := by cases sd <;> rfl
@[simp] theorem St.setConn_db (s : St) (sd : Side) (c : Conn) : (s.setConn sd c).db = s.db := by cases sd <;> rfl
@[simp] theorem St.setConn_ws (s : St) (sd : Side) (c : Conn) : (s.setConn sd c).ws = s.ws := by cases sd <;> rfl
@[simp] theorem St.setConn_lock (s : St) (sd : Side) (c : Conn) : (s.setConn sd c).lock = s.lock := by cases sd <;> rfl
@[simp] theorem St.setConn_obsolete (s : St) (sd : Side) (c : Conn) : (s.setConn sd c).obsolete = s.obsolete := by
  cases sd <;> rfl
@[simp] theorem St.setConn_del (s : St) (sd : Side) (c : Conn) : (s.setConn sd c).del = s.del := by cases sd <;> rfl
@[simp] theorem St.setConn_upd (s : St) (sd : Side) (c : Conn) : (s.setConn sd c).upd = s.upd := by cases sd <;> rfl
@[simp] theorem St.setConn_dom (s : St) (sd : Side) (c : Conn) : (s.setConn sd c).dom = s.dom := by cases sd <;> rfl
@[simp] theorem St.setConn_conn (s : St) (sd : Side) (c : Conn) : (s.setConn sd c).conn sd = c := by cases sd <;> rfl
@[simp] theorem St.setConn_T_p (s : St) (c : Conn) : (s.setConn .T c).p = s.p := rfl
@[simp] theorem St.setConn_P_t (s : St) (c : Conn) : (s.setConn .P c).t = s.t := rfl
@[simp] theorem St.setConn_P_p (s : St) (c : Conn) : (s.setConn .P c).p = c := rfl
@[simp] theorem St.setConn_T_t (s : St) (c : Conn) : (s.setConn .T c).t = c := rfl
@[simp] theorem St.setConn_view (s : St) (sd sd' : Side) (c : Conn) : (s.setConn sd c).view sd' = s.view sd' := by
  cases sd <;> cases sd' <;> rfl
@[simp] theorem St.setConn_refused (s : St) (sd sd' : Side) (c : Conn) :
    (s.setConn sd c).refused sd' = s.refused sd' := by
  cases sd <;> rfl

/-! ### reads -/

/-- what a read answers when the instance has nothing cached for the column: the side's view of the row -/
def freshAnswer (row : Option Row) (c : Col) : Out :=
  match row with
  | some r => .val (r c)
  | none => .notFound

theorem opRead_fresh (s : St) (sd : Side) (j : Nat) (c : Col) (hj : j < (s.conn sd).n)
    (hc : ((s.conn sd).insts j).cached c = none) (hr : s.refused sd = false) :
    (opRead s sd j c).2 = freshAnswer (s.view sd ((s.conn sd).insts j).key) c := by
  unfold opRead
  have : ¬ (j ≥ (s.conn sd).n) := by omega
  simp only [this, if_false, hc, hr]
  cases s.view sd ((s.conn sd).insts j).key <;> rfl

theorem opRead_cached (s : St) (sd : Side) (j : Nat) (c : Col) (v : Val) (hj : j < (s.conn sd).n)
    (hc : ((s.conn sd).insts j).cached c = some v) :
    opRead s sd j c = (s, .val v) := by
  unfold opRead
  have : ¬ (j ≥ (s.conn sd).n) := by omega
  simp only [this, if_false, hc]

/-! ### frames: what a select row / a transaction-side step leaves alone -/

theorem selStep_frame (sd : Side) (acc : St × List (Nat × Key)) (k : Key) :
    (selStep sd acc k).1.db = acc.1.db ∧ (selStep sd acc k).1.dc = acc.1.dc ∧ (selStep sd acc k).1.ws = acc.1.ws
    ∧ (selStep sd acc k).1.lock = acc.1.lock ∧ (selStep sd acc k).1.obsolete = acc.1.obsolete
    ∧ (selStep sd acc k).1.dom = acc.1.dom ∧ (selStep sd acc k).1.del = acc.1.del := by
  unfold selStep
  split
  · simp
  · split <;> simp

theorem selFold_frame (sd : Side) (l : List Key) (acc : St × List (Nat × Key)) :
    (l.foldl (selStep sd) acc).1.db = acc.1.db ∧ (l.foldl (selStep sd) acc).1.dc = acc.1.dc
    ∧ (l.foldl (selStep sd) acc).1.ws = acc.1.ws ∧ (l.foldl (selStep sd) acc).1.lock = acc.1.lock
    ∧ (l.foldl (selStep sd) acc).1.obsolete = acc.1.obsolete ∧ (l.foldl (selStep sd) acc).1.dom = acc.1.dom
    ∧ (l.foldl (selStep sd) acc).1.del = acc.1.del := by
  induction l generalizing acc with
  | nil => simp
  | cons k l ih =>
    have h := selStep_frame sd acc k
    have := ih (selStep sd acc k)
    simp only [List.foldl_cons]
    grind

theorem selStep_T_p (acc : St × List (Nat × Key)) (k : Key) : (selStep .T acc k).1.p = acc.1.p := by
  unfold selStep
  split
  · rfl
  · split <;> rfl

theorem selFold_T_p (l : List Key) (acc : St × List (Nat × Key)) : (l.foldl (selStep .T) acc).1.p = acc.1.p := by
  induction l generalizing acc with
  | nil => rfl
  | cons k l ih => simp only [List.foldl_cons]; exact (ih _).trans (selStep_T_p acc k)

theorem selStep_P_t (acc : St × List (Nat × Key)) (k : Key) : (selStep .P acc k).1.t = acc.1.t := by
  unfold selStep
  split
  · rfl
  · split <;> rfl

theorem selFold_P_t (l : List Key) (acc : St × List (Nat × Key)) : (l.foldl (selStep .P) acc).1.t = acc.1.t := by
  induction l generalizing acc with
  | nil => rfl
  | cons k l ih => simp only [List.foldl_cons]; exact (ih _).trans (selStep_P_t acc k)

/-! ### connection well-formedness -/

/-- column `c` of an optional row -/
def colOf (r : Option Row) (c : Col) : Option Val := r.map fun r => r c

@[simp, grind =] theorem colOf_some (r : Row) (c : Col) : colOf (some r) c = some (r c) := rfl
@[simp, grind =] theorem colOf_none (c : Col) : colOf none c = none := rfl

/-- well-formedness of one connection's instance table and cache maps -/
structure ConnWF (c : Conn) : Prop where
  loaded : ∀ j col, (c.insts j).loaded = false → (c.insts j).cached col = none
  fresh : ∀ j, c.n ≤ j → (c.insts j).loaded = false
  strongKey : ∀ k j, c.strong k = some j → j < c.n ∧ (c.insts j).key = k
  weakKey : ∀ k j, c.weak k = some j → j < c.n ∧ (c.insts j).key = k

/-- the cached values of the live instances agree with `view` -/
def Coh (view : Key → Option Row) (c : Conn) : Prop :=
  ∀ j col v, (c.insts j).destroyed = false → (c.insts j).cached col = some v →
    colOf (view (c.insts j).key) col = some v

theorem ConnWF.empty : ConnWF Conn.empty :=
  ⟨fun _ _ _ => rfl, fun _ _ => rfl, fun _ _ h => by simp [Conn.empty] at h, fun _ _ h => by simp [Conn.empty] at h⟩

theorem ConnWF.modify {c : Conn} (wf : ConnWF c) (j : Nat) (f : Inst → Inst)
    (hk : (f (c.insts j)).key = (c.insts j).key)
    (hl : (f (c.insts j)).loaded = false → ∀ col, (f (c.insts j)).cached col = none)
    (hf : c.n ≤ j → (f (c.insts j)).loaded = false) : ConnWF (c.modify j f) := by
  obtain ⟨l1, f1, sk1, wk1⟩ := wf
  refine ⟨?_, ?_, ?_, ?_⟩
  · intro j' col; have := l1 j' col; simp only [Conn.modify_insts]; split <;> grind
  · intro j' h; have := f1 j' h; simp only [Conn.modify_insts, Conn.modify_n] at h ⊢; split <;> grind
  · intro k j' h; have := sk1 k j' h; simp only [Conn.modify_insts, Conn.modify_n]; split <;> grind
  · intro k j' h; have := wk1 k j' h; simp only [Conn.modify_insts, Conn.modify_n]; split <;> grind

theorem ConnWF.evict {c : Conn} (wf : ConnWF c) (k : Key) : ConnWF (c.evict k) := by
  obtain ⟨l1, f1, sk1, wk1⟩ := wf
  refine ⟨l1, f1, ?_, ?_⟩
  · intro x j h; simp only [Conn.evict_strong] at h; have := sk1 x j; simp only [Conn.evict_insts, Conn.evict_n]; grind
  · intro x j h; simp only [Conn.evict_weak] at h; have := wk1 x j; simp only [Conn.evict_insts, Conn.evict_n]; grind

theorem ConnWF.put {c : Conn} (wf : ConnWF c) (dc : Bool) (k : Key) (j : Nat) (hj : j < c.n) (hk : (c.insts j).key = k) :
    ConnWF (c.put dc k j) := by
  obtain ⟨l1, f1, sk1, wk1⟩ := wf
  unfold Conn.put
  split
  · refine ⟨l1, f1, ?_, wk1⟩
    intro x j' h; simp only [upd_apply] at h; have := sk1 x j'; grind
  · refine ⟨l1, f1, sk1, ?_⟩
    intro x j' h; simp only [upd_apply] at h; have := wk1 x j'; grind

theorem ConnWF.alloc {c : Conn} (wf : ConnWF c) (k : Key) (row : Row) : ConnWF (c.alloc k row) := by
  obtain ⟨l1, f1, sk1, wk1⟩ := wf
  refine ⟨?_, ?_, ?_, ?_⟩
  · intro j col; have := l1 j col; simp only [Conn.alloc_insts]; split <;> grind
  · intro j h; simp only [Conn.alloc_n] at h; have := f1 j (by omega); simp only [Conn.alloc_insts]; split <;> grind
  · intro x j h; simp only [Conn.alloc_strong] at h; have := sk1 x j h
    simp only [Conn.alloc_insts, Conn.alloc_n]; split <;> grind
  · intro x j h; simp only [Conn.alloc_weak] at h; have := wk1 x j h
    simp only [Conn.alloc_insts, Conn.alloc_n]; split <;> grind

theorem ConnWF.weaken {c : Conn} (wf : ConnWF c) (k : Key) : ConnWF (c.weaken k) := by
  obtain ⟨l1, f1, sk1, wk1⟩ := wf
  unfold Conn.weaken
  split
  · rename_i j hs
    have := sk1 k j hs
    split
    · refine ⟨l1, f1, ?_, ?_⟩
      · intro x j' h; simp only [upd_apply] at h; have := sk1 x j'; grind
      · intro x j' h; simp only [upd_apply] at h; have := wk1 x j'; grind
    · refine ⟨l1, f1, ?_, wk1⟩
      intro x j' h; simp only [upd_apply] at h; have := sk1 x j'; grind
  · exact ⟨l1, f1, sk1, wk1⟩

theorem ConnWF.purge {c : Conn} (wf : ConnWF c) (cls : Nat) : ConnWF (c.purge cls) := by
  obtain ⟨l1, f1, sk1, wk1⟩ := wf
  refine ⟨l1, f1, sk1, ?_⟩
  intro x j h
  simp only [Conn.purge] at h
  have := wk1 x j
  simp only [Conn.purge_n, Conn.purge_insts]
  split at h
  · split at h <;> grind
  · cases h

theorem ConnWF.cacheGet {c : Conn} (wf : ConnWF c) (dc : Bool) (k : Key) : ConnWF (c.cacheGet dc k).2 := by
  obtain ⟨l1, f1, sk1, wk1⟩ := wf
  unfold Conn.cacheGet
  repeat' split
  all_goals first
    | exact ⟨l1, f1, sk1, wk1⟩
    | (refine ⟨l1, f1, ?_, ?_⟩
       · intro x j' h; simp only [upd_apply] at h; have := sk1 x j'; have := wk1 k; grind
       · intro x j' h; simp only [upd_apply] at h; have := wk1 x j'; grind)

theorem Conn.cacheGet_hit {c : Conn} (wf : ConnWF c) (dc : Bool) (k : Key) (j : Nat)
    (h : (c.cacheGet dc k).1 = some j) : j < c.n ∧ (c.insts j).key = k := by
  unfold Conn.cacheGet at h
  have a := wf.strongKey k j
  have b := wf.weakKey k j
  repeat' split at h
  all_goals grind

/-! ### coherence of cached values with the side's view; the invariant -/

theorem Coh.modify {view : Key → Option Row} {c : Conn} (h : Coh view c) (j : Nat) (f : Inst → Inst)
    (hk : (f (c.insts j)).key = (c.insts j).key)
    (hc : (f (c.insts j)).destroyed = false → ∀ col v, (f (c.insts j)).cached col = some v →
      colOf (view (c.insts j).key) col = some v) : Coh view (c.modify j f) := by
  intro j' col v
  simp only [Conn.modify_insts]
  by_cases hj : j' = j
  · subst hj; simp only [if_true, hk]; exact fun hd hv => hc hd col v hv
  · simp only [hj, if_false]; exact h j' col v

theorem Coh.modify_keep {view : Key → Option Row} {c : Conn} (h : Coh view c) (j : Nat) (f : Inst → Inst)
    (hk : (f (c.insts j)).key = (c.insts j).key)
    (hd : (f (c.insts j)).destroyed = false → (c.insts j).destroyed = false)
    (hc : ∀ col v, (f (c.insts j)).cached col = some v → (c.insts j).cached col = some v) :
    Coh view (c.modify j f) :=
  h.modify j f hk fun hd' col v hv => h j col v (hd hd') (hc col v hv)

theorem Coh.alloc {view : Key → Option Row} {c : Conn} (h : Coh view c) (k : Key) (row : Row)
    (hv : view k = some row) : Coh view (c.alloc k row) := by
  intro j col v
  simp only [Conn.alloc_insts]
  by_cases hj : j = c.n
  · simp only [hj, if_true, hv, colOf_some]; intro _ h; simpa using h
  · simp only [hj, if_false]; exact h j col v

theorem Coh.of_insts {view : Key → Option Row} {c c' : Conn} (h : Coh view c) (he : c'.insts = c.insts) :
    Coh view c' := by
  intro j col v; rw [he]; exact h j col v

theorem Coh.view_change {view view' : Key → Option Row} {c : Conn} (h : Coh view c)
    (hv : ∀ j col v, (c.insts j).destroyed = false → (c.insts j).cached col = some v →
      view' (c.insts j).key = view (c.insts j).key) : Coh view' c := by
  intro j col v hd hc; rw [hv j col v hd hc]; exact h j col v hd hc

theorem Coh.empty (view : Key → Option Row) : Coh view Conn.empty := by
  intro j col v _ h; simp [Conn.empty, Inst.blank] at h

/-- the invariant of the histories that stay inside `good` -/
structure Inv (s : St) : Prop where
  cohP : Coh s.db s.p
  cohT : Coh (s.view .T) s.t
  wfP : ConnWF s.p
  wfT : ConnWF s.t
  wsLock : s.lock = false → ∀ k, s.ws k = none

theorem St.view_P (s : St) : s.view .P = s.db := rfl

theorem Inv.coh {s : St} (hi : Inv s) (sd : Side) : Coh (s.view sd) (s.conn sd) := by
  cases sd
  · exact hi.cohP
  · exact hi.cohT

theorem Inv.wf {s : St} (hi : Inv s) (sd : Side) : ConnWF (s.conn sd) := by
  cases sd
  · exact hi.wfP
  · exact hi.wfT

theorem Inv.setConn {s : St} (hi : Inv s) (sd : Side) (c' : Conn) (hc : Coh (s.view sd) c') (hw : ConnWF c') :
    Inv (s.setConn sd c') := by
  cases sd
  · exact ⟨hc, hi.cohT, hw, hi.wfT, hi.wsLock⟩
  · exact ⟨hi.cohP, hc, hi.wfP, hw, hi.wsLock⟩

theorem Inv.init (dc : Bool) : Inv (init dc) :=
  ⟨Coh.empty _, Coh.empty _, ConnWF.empty, ConnWF.empty, fun _ _ => rfl⟩

/-! ### steps that write nothing -/

theorem opGet_inv {s : St} (hi : Inv s) (sd : Side) (k : Key) (b : Bool) : Inv (opGet s sd k b).1 := by
  unfold opGet
  have hwf := (hi.wf sd).cacheGet s.dc k
  have hco : Coh (s.view sd) ((s.conn sd).cacheGet s.dc k).2 := (hi.coh sd).of_insts (by simp)
  split
  · exact hi
  · split
    · rename_i j c' heq
      have e2 : ((s.conn sd).cacheGet s.dc k).2 = c' := by rw [heq]
      rw [e2] at hwf hco
      exact hi.setConn sd _ (hco.modify_keep j _ rfl (fun h => h) (fun _ _ h => h))
        (hwf.modify j _ rfl (fun h col => hwf.loaded j col h) (fun h => hwf.fresh j h))
    · rename_i c' heq
      have e2 : ((s.conn sd).cacheGet s.dc k).2 = c' := by rw [heq]
      rw [e2] at hwf hco
      split
      · exact hi.setConn sd _ hco hwf
      · split
        · exact hi.setConn sd _ hco hwf
        · rename_i row hv
          exact hi.setConn sd _ ((hco.alloc k row hv).of_insts (by simp))
            ((hwf.alloc k row).put s.dc k c'.n (by simp) (by simp))


theorem opRead_inv {s : St} (hi : Inv s) (sd : Side) (j : Nat) (col : Col) : Inv (opRead s sd j col).1 := by
  unfold opRead
  have hwf := hi.wf sd
  have hco := hi.coh sd
  split
  · exact hi
  · split
    · exact hi
    · split
      · exact hi.setConn sd _ (hco.modify_keep j _ rfl (fun h => h) (fun _ _ h => h))
          (hwf.modify j _ rfl (fun h c => hwf.loaded j c h) (fun h => hwf.fresh j h))
      · split
        · exact hi.setConn sd _ (hco.modify_keep j _ rfl (fun h => h) (fun _ _ h => h))
            (hwf.modify j _ rfl (fun h c => hwf.loaded j c h) (fun h => hwf.fresh j h))
        · rename_i hlt _ _ _ row hv
          refine hi.setConn sd _ (hco.modify j _ rfl ?_) (hwf.modify j _ rfl ?_ ?_)
          · intro _ c v h
            simp only [Inst.load] at h
            rw [hv]; simpa using h
          · intro h; simp [Inst.load] at h
          · intro h; omega

theorem opExpire_inv {s : St} (hi : Inv s) (sd : Side) (j : Nat) : Inv (opExpire s sd j).1 := by
  unfold opExpire
  have hwf := hi.wf sd
  have hco := hi.coh sd
  split
  · exact hi
  · refine hi.setConn sd _ (Coh.of_insts (hco.modify j Inst.expire rfl ?_) (by simp)) ((hwf.modify j _ rfl ?_ ?_).evict _)
    · intro _ c v h; simp [Inst.expire] at h
    · intro _ c; rfl
    · intro _; rfl

theorem opDrop_inv {s : St} (hi : Inv s) (sd : Side) (j : Nat) : Inv (opDrop s sd j).1 := by
  unfold opDrop
  have hwf := hi.wf sd
  have hco := hi.coh sd
  split
  · exact hi
  · exact hi.setConn sd _ (hco.modify_keep j _ rfl (fun h => h) (fun _ _ h => h))
      (hwf.modify j _ rfl (fun h c => hwf.loaded j c h) (fun h => hwf.fresh j h))

theorem weaken_inv {s : St} (hi : Inv s) (sd : Side) (k : Key) : Inv (s.setConn sd ((s.conn sd).weaken k)) :=
  hi.setConn sd _ ((hi.coh sd).of_insts (by simp)) ((hi.wf sd).weaken k)

theorem purge_inv {s : St} (hi : Inv s) (sd : Side) (cls : Nat) : Inv (s.setConn sd ((s.conn sd).purge cls)) :=
  hi.setConn sd _ ((hi.coh sd).of_insts (by simp)) ((hi.wf sd).purge cls)

theorem selStep_inv (sd : Side) {acc : St × List (Nat × Key)} (hi : Inv acc.1) (k : Key) :
    Inv (selStep sd acc k).1 := by
  unfold selStep
  have hwf := (hi.wf sd).cacheGet acc.1.dc k
  have hco : Coh (acc.1.view sd) ((acc.1.conn sd).cacheGet acc.1.dc k).2 := (hi.coh sd).of_insts (by simp)
  have hhit := Conn.cacheGet_hit (hi.wf sd) acc.1.dc k
  split
  · exact hi
  · rename_i row hv
    split
    · rename_i j c' heq
      have e2 : ((acc.1.conn sd).cacheGet acc.1.dc k).2 = c' := by rw [heq]
      have e1 : ((acc.1.conn sd).cacheGet acc.1.dc k).1 = some j := by rw [heq]
      have hk := (hhit j e1).2
      have hins : c'.insts = (acc.1.conn sd).insts := by rw [← e2]; simp
      rw [e2] at hwf hco
      refine hi.setConn sd _ (hco.modify j _ rfl ?_) (hwf.modify j _ rfl ?_ ?_)
      · intro _ c v h
        simp only [Inst.load] at h
        rw [hins, hk, hv]; simpa using h
      · intro h; simp [Inst.load] at h
      · intro h; have := (hhit j e1).1; rw [← e2] at h; simp at h; omega
    · rename_i c' heq
      have e2 : ((acc.1.conn sd).cacheGet acc.1.dc k).2 = c' := by rw [heq]
      rw [e2] at hwf hco
      exact hi.setConn sd _ ((hco.alloc k row hv).of_insts (by simp))
        ((hwf.alloc k row).put acc.1.dc k c'.n (by simp) (by simp))

theorem selFold_inv (sd : Side) (l : List Key) {acc : St × List (Nat × Key)} (hi : Inv acc.1) :
    Inv (l.foldl (selStep sd) acc).1 := by
  induction l generalizing acc with
  | nil => exact hi
  | cons k l ih => simp only [List.foldl_cons]; exact ih (selStep_inv sd hi k)

theorem opSelect_inv {s : St} (hi : Inv s) (sd : Side) (cls : Nat) : Inv (opSelect s sd cls).1 := by
  unfold opSelect
  split
  · exact hi
  · exact selFold_inv sd _ hi

/-! ### the excluded class `good` and the writing steps -/

/-- some other live instance of row `k` on this connection has cached values -/
def otherLoaded (c : Conn) (k : Key) (j : Nat) : Bool :=
  (List.range c.n).any fun j' => j' != j && (c.insts j').key == k && (c.insts j').loaded && !(c.insts j').destroyed

/-- some live instance of row `k` on this connection has cached values -/
def anyLoaded (c : Conn) (k : Key) : Bool :=
  (List.range c.n).any fun j' => (c.insts j').key == k && (c.insts j').loaded && !(c.insts j').destroyed

theorem otherLoaded_false {c : Conn} {k : Key} {j : Nat} (h : otherLoaded c k j = false) (wf : ConnWF c) :
    ∀ j', j' ≠ j → (c.insts j').key = k → (c.insts j').destroyed = false → ∀ col, (c.insts j').cached col = none := by
  intro j' hne hk hd col
  apply wf.loaded
  by_cases hlt : j' < c.n
  · simp only [otherLoaded, List.any_eq_false, List.mem_range] at h
    have := h j' hlt
    simp [hne, hk, hd] at this
    exact this
  · exact wf.fresh j' (by omega)

theorem anyLoaded_false {c : Conn} {k : Key} (h : anyLoaded c k = false) (wf : ConnWF c) :
    ∀ j', (c.insts j').key = k → (c.insts j').destroyed = false → ∀ col, (c.insts j').cached col = none := by
  intro j' hk hd col
  apply wf.loaded
  by_cases hlt : j' < c.n
  · simp only [anyLoaded, List.any_eq_false, List.mem_range] at h
    have := h j' hlt
    simp [hk, hd] at this
    exact this
  · exact wf.fresh j' (by omega)

/-- the loaded live parent instances of rows the transaction wrote are the ones the parent cache hands out.  (That the
    transaction's bookkeeping reaches every such row is no longer a hypothesis: `Transaction._SO_update` logs the row,
    `WsLogged` below.) -/
def commitReaches (s : St) : Bool :=
  (List.range s.p.n).all fun j =>
    !((s.p.insts j).loaded && !(s.p.insts j).destroyed && (s.ws (s.p.insts j).key).isSome)
    || (s.p.tryGet s.dc (s.p.insts j).key == some j)

def rollbackReaches (s : St) : Bool :=
  (List.range s.t.n).all fun j =>
    !((s.t.insts j).loaded && !(s.t.insts j).destroyed && (s.ws (s.t.insts j).key).isSome)
    || (s.t.tryGet s.dc (s.t.insts j).key == some j)

/-- **the excluded class, step by step** (decidable): the situations in which the code leaves a stale value
    behind.  `good s op = true` is the hypothesis of the `_partial` theorems. -/
def good (s : St) : Op → Bool
  | .commit _ => s.obsolete || commitReaches s
  | .rollback => s.obsolete || rollbackReaches s
  | .set .P j _ _ => s.lock || decide (j ≥ s.p.n) ||
      ((s.db (s.p.insts j).key).isSome && !otherLoaded s.p (s.p.insts j).key j && !anyLoaded s.t (s.p.insts j).key)
  | .destroy .P j => s.lock || decide (j ≥ s.p.n) ||
      (!otherLoaded s.p (s.p.insts j).key j && !anyLoaded s.t (s.p.insts j).key)
  | .set .T j _ _ => s.obsolete || decide (j ≥ s.t.n) ||
      ((s.view .T (s.t.insts j).key).isSome && !otherLoaded s.t (s.t.insts j).key j)
  | .destroy .T j => s.obsolete || decide (j ≥ s.t.n) || !otherLoaded s.t (s.t.insts j).key j
  | _ => true

theorem view_T_of_ws_none {s : St} {k : Key} (h : s.ws k = none) : s.view .T k = s.db k := by
  simp [St.view, h]

theorem Coh.no_cached_of_none {view : Key → Option Row} {c : Conn} (h : Coh view c) {k : Key} (hv : view k = none)
    (j : Nat) (hk : (c.insts j).key = k) (hd : (c.insts j).destroyed = false) (col : Col) :
    (c.insts j).cached col = none := by
  cases hc : (c.insts j).cached col with
  | none => rfl
  | some v => have := h j col v hd hc; rw [hk, hv] at this; simp at this

theorem opCreate_inv {s : St} (hi : Inv s) (sd : Side) (k : Key) (row : Row) : Inv (opCreate s sd k row).1 := by
  unfold opCreate
  cases sd with
  | P =>
    simp only
    split
    · exact hi
    · rename_i hl
      have hws := hi.wsLock (by simpa using hl)
      split
      · exact hi
      · rename_i hn
        have hdb : s.db k = none := by simpa using hn
        refine ⟨?_, ?_, (hi.wfP.alloc k row).put s.dc k s.p.n (by simp) (by simp), hi.wfT, ?_⟩
        · refine Coh.of_insts (c := s.p.alloc k row) (Coh.alloc (view := upd s.db k (some row)) ?_ k row (by simp)) (by simp)
          refine hi.cohP.view_change ?_
          intro j col v hd hc
          have := hi.cohP.no_cached_of_none hdb j
          simp only [upd_apply]; split <;> grind
        · refine hi.cohT.view_change ?_
          intro j col v hd hc
          have hvt : s.view .T k = none := by rw [view_T_of_ws_none (hws k)]; exact hdb
          have := hi.cohT.no_cached_of_none hvt j
          have w1 := hws (s.t.insts j).key
          simp only [St.view, w1, upd_apply]
          split <;> grind
        · intro h; exact hws
  | T =>
    simp only
    split
    · exact hi
    · split
      · exact ⟨hi.cohP, hi.cohT, hi.wfP, hi.wfT, fun h => by simp at h⟩
      · rename_i hn
        have hv : s.view .T k = none := by simpa using hn
        refine ⟨hi.cohP, ?_, hi.wfP, (hi.wfT.alloc k row).put s.dc k s.t.n (by simp) (by simp), fun h => by simp at h⟩
        refine Coh.of_insts (c := s.t.alloc k row) ?_ (by simp)
        refine Coh.alloc ?_ k row (by simp [St.view])
        refine hi.cohT.view_change ?_
        intro j col v hd hc
        have := hi.cohT.no_cached_of_none hv j
        simp only [St.view, upd_apply]
        split <;> grind


theorem opSet_inv {s : St} (hi : Inv s) (sd : Side) (j : Nat) (col : Col) (v : Val)
    (hg : good s (.set sd j col v) = true) : Inv (opSet s sd j col v).1 := by
  unfold opSet
  split
  · exact hi
  rename_i hlt
  cases sd with
  | P =>
    simp only [St.conn] at hlt
    simp only
    split
    · exact hi
    rename_i hl
    have hws := hi.wsLock (by simpa using hl)
    simp only [good, Bool.or_eq_true, decide_eq_true_eq, Bool.and_eq_true, Bool.not_eq_true'] at hg
    rcases hg with (hg | hg) | ⟨⟨hv, ho⟩, ha⟩
    · exact absurd hg hl
    · exact absurd hg hlt
    obtain ⟨r0, hr0⟩ := Option.isSome_iff_exists.mp hv
    have hoP := otherLoaded_false ho hi.wfP
    have haT := anyLoaded_false ha hi.wfT
    have hwfm : ConnWF (s.p.modify j fun i => { i with cached := upd i.cached col (some v), loaded := true }) :=
      hi.wfP.modify j _ rfl (fun h => by simp at h) (fun h => by omega)
    refine ⟨?_, ?_, ?_, hi.wfT, fun _ => hws⟩
    rotate_left 2
    · exact hwfm
    · intro j' c v'
      have a := hi.cohP j' c v'
      have b := hoP j'
      simp only [Conn.modify_insts]
      by_cases hj : j' = j
      · subst hj
        simp only [if_true, upd_apply, hr0, Option.map_some, colOf_some] at a ⊢
        grind
      · simp only [hj, if_false, upd_apply, hr0, Option.map_some] at a ⊢
        grind
    · refine hi.cohT.view_change ?_
      intro j' c v' hd hc
      have b := haT j'
      have w1 := hws (s.t.insts j').key
      simp only [St.view, w1, upd_apply]
      grind
  | T =>
    simp only [St.conn] at hlt
    simp only
    split
    · exact ⟨hi.cohP, hi.cohT, hi.wfP, hi.wfT, hi.wsLock⟩
    rename_i hob
    simp only [good, Bool.or_eq_true, decide_eq_true_eq, Bool.and_eq_true, Bool.not_eq_true'] at hg
    rcases hg with (hg | hg) | ⟨hv, ho⟩
    · exact absurd hg hob
    · exact absurd hg hlt
    obtain ⟨r0, hr0⟩ := Option.isSome_iff_exists.mp hv
    have hoT := otherLoaded_false ho hi.wfT
    have hwfm : ConnWF (s.t.modify j fun i => { i with cached := upd i.cached col (some v), loaded := true }) :=
      hi.wfT.modify j _ rfl (fun h => by simp at h) (fun h => by omega)
    refine ⟨hi.cohP, ?_, hi.wfP, ?_, fun h => by simp at h⟩
    rotate_left 1
    · exact hwfm
    intro j' c v'
    have a := hi.cohT j' c v'
    have b := hoT j'
    simp only [Conn.modify_insts, hr0]
    by_cases hj : j' = j
    · subst hj
      rw [hr0] at a
      simp only [if_true, upd_apply, St.view, colOf_some] at a ⊢
      grind
    · simp only [hj, if_false, upd_apply, St.view] at a ⊢
      grind

theorem opDestroy_inv {s : St} (hi : Inv s) (sd : Side) (j : Nat)
    (hg : good s (.destroy sd j) = true) : Inv (opDestroy s sd j).1 := by
  unfold opDestroy
  split
  · exact hi
  rename_i hlt
  cases sd with
  | P =>
    simp only [St.conn] at hlt
    simp only
    have hdes : Coh s.db (s.p.modify j fun i => { i with destroyed := true }) :=
      hi.cohP.modify j _ rfl (fun h => by simp at h)
    have hwfd : ConnWF (s.p.modify j fun i => { i with destroyed := true }) :=
      hi.wfP.modify j _ rfl (fun h c => hi.wfP.loaded j c h) (fun h => hi.wfP.fresh j h)
    split
    · exact hi
    rename_i hl
    have hws := hi.wsLock (by simpa using hl)
    simp only [good, Bool.or_eq_true, decide_eq_true_eq, Bool.and_eq_true, Bool.not_eq_true'] at hg
    rcases hg with (hg | hg) | ⟨ho, ha⟩
    · exact absurd hg hl
    · exact absurd hg hlt
    have hoP := otherLoaded_false ho hi.wfP
    have haT := anyLoaded_false ha hi.wfT
    refine ⟨?_, ?_, hwfd.evict _, hi.wfT, fun _ => hws⟩
    · refine Coh.of_insts (c := s.p.modify j fun i => { i with destroyed := true }) ?_ (by simp)
      intro j' c v'
      have a := hi.cohP j' c v'
      have b := hoP j'
      simp only [Conn.modify_insts]
      by_cases hj : j' = j
      · subst hj; simp
      · simp only [hj, if_false, upd_apply] at a ⊢
        grind
    · refine hi.cohT.view_change ?_
      intro j' c v' hd hc
      have b := haT j'
      have w1 := hws (s.t.insts j').key
      simp only [St.view, w1, upd_apply]
      grind
  | T =>
    simp only [St.conn] at hlt
    simp only
    have hdes : Coh (s.view .T) (s.t.modify j fun i => { i with destroyed := true }) :=
      hi.cohT.modify j _ rfl (fun h => by simp at h)
    have hwfd : ConnWF (s.t.modify j fun i => { i with destroyed := true }) :=
      hi.wfT.modify j _ rfl (fun h c => hi.wfT.loaded j c h) (fun h => hi.wfT.fresh j h)
    split
    · exact ⟨hi.cohP, hi.cohT, hi.wfP, hi.wfT, hi.wsLock⟩
    rename_i hob
    simp only [good, Bool.or_eq_true, decide_eq_true_eq, Bool.not_eq_true'] at hg
    rcases hg with (hg | hg) | ho
    · exact absurd hg hob
    · exact absurd hg hlt
    have hoT := otherLoaded_false ho hi.wfT
    refine ⟨hi.cohP, ?_, hi.wfP, hwfd.evict _, fun h => by simp at h⟩
    refine Coh.of_insts (c := s.t.modify j fun i => { i with destroyed := true }) ?_ (by simp)
    intro j' c v'
    have a := hi.cohT j' c v'
    have b := hoT j'
    simp only [Conn.modify_insts]
    by_cases hj : j' = j
    · subst hj; simp
    · simp only [hj, if_false, St.view] at a ⊢
      split <;> (try simp only [upd_apply]) <;> grind

/-! ### commit, rollback, begin; every good step keeps the invariant -/

theorem ConnWF.expireWhere {c : Conn} (wf : ConnWF c) (hitI : Nat → Bool) (hitK : Key → Bool) :
    ConnWF { c with
      insts := fun j => if hitI j then (c.insts j).expire else c.insts j
      strong := fun k => if hitK k then none else c.strong k
      weak := fun k => if hitK k then none else c.weak k } := by
  obtain ⟨l1, f1, sk1, wk1⟩ := wf
  refine ⟨?_, ?_, ?_, ?_⟩
  · intro j col; have := l1 j col; simp only; split <;> simp_all [Inst.expire]
  · intro j h; have := f1 j h; simp only; split <;> simp_all [Inst.expire]
  · intro k j h; simp only at h ⊢; have := sk1 k j; split at h
    · cases h
    · split <;> simp_all [Inst.expire]
  · intro k j h; simp only at h ⊢; have := wk1 k j; split at h
    · cases h
    · split <;> simp_all [Inst.expire]

theorem commitReaches_spec {s : St} (h : commitReaches s = true) (wf : ConnWF s.p) (j : Nat)
    (hl : (s.p.insts j).loaded = true) (hd : (s.p.insts j).destroyed = false)
    (hw : (s.ws (s.p.insts j).key).isSome = true) :
    s.p.tryGet s.dc (s.p.insts j).key = some j := by
  have hlt : j < s.p.n := by
    by_cases hh : j < s.p.n
    · exact hh
    · have := wf.fresh j (by omega); simp [this] at hl
  simp only [commitReaches, List.all_eq_true, List.mem_range] at h
  have := h j hlt
  simpa [hl, hd, hw] using this

theorem rollbackReaches_spec {s : St} (h : rollbackReaches s = true) (wf : ConnWF s.t) (j : Nat)
    (hl : (s.t.insts j).loaded = true) (hd : (s.t.insts j).destroyed = false)
    (hw : (s.ws (s.t.insts j).key).isSome = true) :
    s.t.tryGet s.dc (s.t.insts j).key = some j := by
  have hlt : j < s.t.n := by
    by_cases hh : j < s.t.n
    · exact hh
    · have := wf.fresh j (by omega); simp [this] at hl
  simp only [rollbackReaches, List.all_eq_true, List.mem_range] at h
  have := h j hlt
  simpa [hl, hd, hw] using this

/-- every row in the transaction's write set is a row it created (no committed row of that key), or is in the
    updated log, or in the deleted log: whatever the transaction wrote that the parent may hold an instance of is known
    to `commit`.  Holds in every state every history reaches (no `good` needed). -/
structure WsLogged (s : St) : Prop where
  wsLock : s.lock = false → ∀ k, s.ws k = none
  logged : ∀ k, (s.ws k).isSome = true → s.db k = none ∨ k ∈ s.upd ∨ k ∈ s.del

theorem WsLogged.init (dc : Bool) : WsLogged (init dc) := ⟨fun _ _ => rfl, fun k h => by simp [Tx.init] at h⟩

theorem WsLogged.of_frame {s s' : St} (h : WsLogged s) (h1 : s'.db = s.db) (h2 : s'.ws = s.ws) (h3 : s'.lock = s.lock)
    (h4 : s'.upd = s.upd) (h5 : s'.del = s.del) : WsLogged s' :=
  ⟨fun hl k => by rw [h2]; exact h.wsLock (by rw [← h3]; exact hl) k,
   fun k hk => by rw [h1, h4, h5]; exact h.logged k (by rw [← h2]; exact hk)⟩

theorem selStep_upd (sd : Side) (acc : St × List (Nat × Key)) (k : Key) : (selStep sd acc k).1.upd = acc.1.upd := by
  unfold selStep
  split
  · rfl
  · split <;> simp

theorem selFold_upd (sd : Side) (l : List Key) (acc : St × List (Nat × Key)) :
    (l.foldl (selStep sd) acc).1.upd = acc.1.upd := by
  induction l generalizing acc with
  | nil => rfl
  | cons k l ih => simp only [List.foldl_cons]; exact (ih _).trans (selStep_upd sd acc k)

theorem step_wsLogged {s : St} (h : WsLogged s) (op : Op) : WsLogged (step s op).1 := by
  cases op with
  | create sd k row =>
    cases sd with
    | P =>
      simp only [step, opCreate]
      repeat' split
      · exact h
      · exact h
      · rename_i hl _
        have hws := h.wsLock (by simpa using hl)
        exact ⟨fun _ => hws, fun x hx => by simp [hws x] at hx⟩
    | T =>
      simp only [step, opCreate]
      repeat' split
      · exact h
      · exact ⟨fun hl => by simp at hl, h.logged⟩
      · rename_i hv
        refine ⟨fun hl => by simp at hl, ?_⟩
        intro x hx
        simp only [upd_apply] at hx
        by_cases hxk : x = k
        · subst hxk
          cases hw : s.ws x with
          | none => left; simpa [St.view, hw] using hv
          | some w => exact h.logged x (by simp [hw])
        · exact h.logged x (by simpa [hxk] using hx)
  | get sd k b =>
    simp only [step, opGet]
    repeat' split
    all_goals exact h.of_frame (by simp) (by simp) (by simp) (by simp) (by simp)
  | read sd j c =>
    simp only [step, opRead]
    repeat' split
    all_goals exact h.of_frame (by simp) (by simp) (by simp) (by simp) (by simp)
  | set sd j c v =>
    cases sd with
    | P =>
      simp only [step, opSet]
      repeat' split
      · exact h
      · exact h
      · rename_i hl
        have hws := h.wsLock (by simpa using hl)
        exact ⟨fun _ => hws, fun x hx => by simp [hws x] at hx⟩
    | T =>
      simp only [step, opSet]
      split
      · exact h
      split
      · refine ⟨h.wsLock, fun x hx => ?_⟩
        simp only [List.mem_cons]
        rcases h.logged x hx with a | a | a
        · exact Or.inl a
        · exact Or.inr (Or.inl (Or.inr a))
        · exact Or.inr (Or.inr a)
      · refine ⟨fun hl => by simp at hl, ?_⟩
        intro x hx
        simp only [List.mem_cons]
        by_cases hxk : x = (s.t.insts j).key
        · exact Or.inr (Or.inl (Or.inl hxk))
        · have hx' : (s.ws x).isSome = true := by
            revert hx; simp only
            cases s.view Side.T (s.t.insts j).key <;> simp [upd_apply, hxk]
          rcases h.logged x hx' with a | a | a
          · exact Or.inl a
          · exact Or.inr (Or.inl (Or.inr a))
          · exact Or.inr (Or.inr a)
  | destroy sd j =>
    cases sd with
    | P =>
      simp only [step, opDestroy]
      repeat' split
      · exact h
      · exact h
      · rename_i hl
        have hws := h.wsLock (by simpa using hl)
        exact ⟨fun _ => hws, fun x hx => by simp [hws x] at hx⟩
    | T =>
      simp only [step, opDestroy]
      split
      · exact h
      split
      · refine ⟨h.wsLock, fun x hx => ?_⟩
        simp only [List.mem_cons]
        rcases h.logged x hx with a | a | a
        · exact Or.inl a
        · exact Or.inr (Or.inl a)
        · exact Or.inr (Or.inr (Or.inr a))
      · refine ⟨fun hl => by simp at hl, ?_⟩
        intro x hx
        simp only [List.mem_cons]
        by_cases hxk : x = (s.t.insts j).key
        · exact Or.inr (Or.inr (Or.inl hxk))
        · have hx' : (s.ws x).isSome = true := by
            revert hx; simp only
            cases s.view Side.T (s.t.insts j).key <;> simp [upd_apply, hxk]
          rcases h.logged x hx' with a | a | a
          · exact Or.inl a
          · exact Or.inr (Or.inl a)
          · exact Or.inr (Or.inr (Or.inr a))
  | expire sd j =>
    simp only [step, opExpire]
    repeat' split
    all_goals exact h.of_frame (by simp) (by simp) (by simp) (by simp) (by simp)
  | select sd cls =>
    simp only [step, opSelect]
    split
    · exact h
    · have f := selFold_frame sd (s.dom.filter fun k => clsOf k == cls) (s, [])
      exact h.of_frame f.1 f.2.2.1 f.2.2.2.1 (selFold_upd sd _ _) f.2.2.2.2.2.2
  | drop sd j =>
    simp only [step, opDrop]
    repeat' split
    all_goals exact h.of_frame (by simp) (by simp) (by simp) (by simp) (by simp)
  | weaken sd k => exact h.of_frame (by simp [step]) (by simp [step]) (by simp [step]) (by simp [step]) (by simp [step])
  | purge sd cls => exact h.of_frame (by simp [step]) (by simp [step]) (by simp [step]) (by simp [step]) (by simp [step])
  | commit close =>
    simp only [step, opCommit]
    split
    · exact h
    · exact ⟨fun _ _ => rfl, fun k hk => by simp at hk⟩
  | rollback =>
    simp only [step, opRollback]
    split
    · exact h
    · exact ⟨fun _ _ => rfl, fun k hk => by simp at hk⟩
  | begin =>
    simp only [step, opBegin]
    split
    · exact h.of_frame rfl rfl rfl rfl rfl
    · exact h

theorem run_wsLogged {s : St} (h : WsLogged s) (ops : List Op) : WsLogged (run s ops) := by
  induction ops generalizing s with
  | nil => exact h
  | cons op ops ih => exact ih (step_wsLogged h op)

theorem opCommit_inv {s : St} (hi : Inv s) (hlg : WsLogged s) (close : Bool) (hg : good s (.commit close) = true) :
    Inv (opCommit s close).1 := by
  unfold opCommit
  split
  · exact hi
  rename_i hob
  simp only [good, Bool.or_eq_true] at hg
  rcases hg with hg | hg
  · exact absurd hg hob
  have hsp := commitReaches_spec hg hi.wfP
  refine ⟨?_, ?_, ?_, hi.wfT, fun _ _ => rfl⟩
  · intro j col v
    simp only [St.commitExpire]
    split
    · intro _ h; simp [Inst.expire] at h
    · rename_i hne
      intro hd hc
      have hl : (s.p.insts j).loaded = true := by
        cases hh : (s.p.insts j).loaded with
        | true => rfl
        | false => have := hi.wfP.loaded j col hh; rw [this] at hc; cases hc
      cases hw : s.ws (s.p.insts j).key with
      | none => simp only [St.view, hw]; exact hi.cohP j col v hd hc
      | some w =>
        have hatt := hsp j hl hd (by simp [hw])
        rcases hlg.logged (s.p.insts j).key (by simp [hw]) with h0 | h0 | h0
        · have := hi.cohP j col v hd hc
          rw [h0] at this; simp at this
        · simp [St.reached, h0, hatt] at hne
        · simp [St.reached, h0, hatt] at hne
  · exact hi.cohT
  · exact hi.wfP.expireWhere _ _

theorem opRollback_inv {s : St} (hi : Inv s) (hg : good s .rollback = true) : Inv (opRollback s).1 := by
  unfold opRollback
  split
  · exact hi
  rename_i hob
  simp only [good, Bool.or_eq_true] at hg
  rcases hg with hg | hg
  · exact absurd hg hob
  have hsp := rollbackReaches_spec hg hi.wfT
  refine ⟨hi.cohP, ?_, hi.wfP, ?_, fun _ _ => rfl⟩
  · intro j col v
    simp only [St.rollbackExpire]
    split
    · intro _ h; simp [Inst.expire] at h
    · rename_i hne
      intro hd hc
      have hl : (s.t.insts j).loaded = true := by
        cases hh : (s.t.insts j).loaded with
        | true => rfl
        | false => have := hi.wfT.loaded j col hh; rw [this] at hc; cases hc
      cases hw : s.ws (s.t.insts j).key with
      | none =>
        have := hi.cohT j col v hd hc
        simpa [St.view, hw] using this
      | some w =>
        have := hsp j hl hd (by simp [hw])
        simp [this] at hne
  · exact hi.wfT.expireWhere _ _

theorem opBegin_inv {s : St} (hi : Inv s) : Inv (opBegin s).1 := by
  unfold opBegin
  split
  · exact ⟨hi.cohP, hi.cohT, hi.wfP, hi.wfT, hi.wsLock⟩
  · exact hi

/-- every step inside `good` preserves the invariant -/
theorem step_inv {s : St} (hi : Inv s) (hlg : WsLogged s) (op : Op) (hg : good s op = true) : Inv (step s op).1 := by
  cases op with
  | create sd k row => exact opCreate_inv hi sd k row
  | get sd k b => exact opGet_inv hi sd k b
  | read sd j c => exact opRead_inv hi sd j c
  | set sd j c v => exact opSet_inv hi sd j c v hg
  | destroy sd j => exact opDestroy_inv hi sd j hg
  | expire sd j => exact opExpire_inv hi sd j
  | select sd cls => exact opSelect_inv hi sd cls
  | drop sd j => exact opDrop_inv hi sd j
  | weaken sd k => exact weaken_inv hi sd k
  | purge sd cls => exact purge_inv hi sd cls
  | commit close => exact opCommit_inv hi hlg close hg
  | rollback => exact opRollback_inv hi hg
  | begin => exact opBegin_inv hi

/-- a history all of whose steps are inside `good` -/
def GoodHist : St → List Op → Prop
  | _, [] => True
  | s, op :: ops => good s op = true ∧ GoodHist (step s op).1 ops

instance GoodHist.dec : (s : St) → (ops : List Op) → Decidable (GoodHist s ops)
  | _, [] => isTrue trivial
  | s, op :: ops =>
    have := GoodHist.dec (step s op).1 ops
    inferInstanceAs (Decidable (good s op = true ∧ GoodHist (step s op).1 ops))

theorem run_inv {s : St} (hi : Inv s) (hlg : WsLogged s) (ops : List Op) (hg : GoodHist s ops) : Inv (run s ops) := by
  induction ops generalizing s with
  | nil => exact hi
  | cons op ops ih => exact ih (step_inv hi hlg op hg.1) (step_wsLogged hlg op) hg.2

/-! ### `select` enumerates the side's view: the domain invariant -/

theorem mem_domAdd (x k : Key) (d : List Key) : x ∈ domAdd k d ↔ x = k ∨ x ∈ d := by
  induction d with
  | nil => simp [domAdd]
  | cons y ys ih =>
    simp only [domAdd]
    split
    · simp
    · split
      · rename_i h; subst h; simp
      · simp [ih]; grind

/-- every row anybody can see has its key in the enumeration domain of `select` -/
def DomInv (s : St) : Prop := ∀ k, (s.db k).isSome = true ∨ (s.view .T k).isSome = true → k ∈ s.dom

theorem selStep_view (sd sd' : Side) (acc : St × List (Nat × Key)) (k : Key) :
    (selStep sd acc k).1.view sd' = acc.1.view sd' := by
  unfold selStep
  split
  · rfl
  · split <;> simp

theorem selStep_keys (sd : Side) (acc : St × List (Nat × Key)) (k : Key) :
    (selStep sd acc k).2.map Prod.snd = acc.2.map Prod.snd ++ (if (acc.1.view sd k).isSome then [k] else []) := by
  unfold selStep
  split
  · rename_i h; simp [h]
  · rename_i row h
    split <;> simp [h]

theorem selFold_keys (sd : Side) (l : List Key) (acc : St × List (Nat × Key)) :
    (l.foldl (selStep sd) acc).2.map Prod.snd
      = acc.2.map Prod.snd ++ l.filter fun k => (acc.1.view sd k).isSome := by
  induction l generalizing acc with
  | nil => simp
  | cons k l ih =>
    simp only [List.foldl_cons]
    rw [ih, selStep_keys, selStep_view]
    by_cases h : (acc.1.view sd k).isSome = true <;> simp [h]

theorem DomInv.init (dc : Bool) : DomInv (init dc) := by
  intro k h; simp [Tx.init, St.view] at h

theorem DomInv.of_frame {s s' : St} (h : DomInv s) (hdb : s'.db = s.db) (hws : s'.ws = s.ws) (hdom : s'.dom = s.dom) :
    DomInv s' := by
  intro k hk
  rw [hdom]
  apply h k
  simpa [St.view, hdb, hws] using hk

theorem step_domInv {s : St} (h : DomInv s) (op : Op) : DomInv (step s op).1 := by
  cases op with
  | create sd k row =>
    cases sd with
    | P =>
      simp only [step, opCreate]
      repeat' split
      · exact h
      · exact h
      · intro x hx
        simp only [St.view, upd_apply] at hx
        rw [mem_domAdd]
        by_cases hxk : x = k
        · exact Or.inl hxk
        · right; apply h x; simpa [St.view, hxk] using hx
    | T =>
      simp only [step, opCreate]
      repeat' split
      · exact h
      · exact h.of_frame rfl rfl rfl
      · intro x hx
        simp only [St.view, upd_apply] at hx
        rw [mem_domAdd]
        by_cases hxk : x = k
        · exact Or.inl hxk
        · right; apply h x; simpa [St.view, hxk] using hx
  | get sd k b =>
    simp only [step, opGet]
    repeat' split
    all_goals exact h.of_frame (by simp) (by simp) (by simp)
  | read sd j c =>
    simp only [step, opRead]
    repeat' split
    all_goals exact h.of_frame (by simp) (by simp) (by simp)
  | set sd j c v =>
    cases sd with
    | P =>
      simp only [step, opSet]
      repeat' split
      · exact h
      · exact h
      · intro x hx
        apply h x
        simp only [St.view, upd_apply] at hx ⊢
        by_cases hxk : x = (s.p.insts j).key
        · subst hxk; simp at hx; cases hd : s.db (s.p.insts j).key <;> simp_all
        · simpa [hxk] using hx
    | T =>
      simp only [step, opSet]
      repeat' split
      · exact h
      · exact h
      · rename_i r hv
        intro x hx
        apply h x
        simp only [St.view, upd_apply] at hx hv ⊢
        by_cases hxk : x = (s.t.insts j).key
        · subst hxk; right; rw [hv]; rfl
        · simpa [hxk] using hx
      · exact h.of_frame rfl rfl rfl
  | destroy sd j =>
    cases sd with
    | P =>
      simp only [step, opDestroy]
      repeat' split
      · exact h
      · exact h.of_frame rfl rfl rfl
      · intro x hx
        apply h x
        simp only [St.view, upd_apply] at hx ⊢
        by_cases hxk : x = (s.p.insts j).key
        · subst hxk; simp at hx; cases hw : s.ws (s.p.insts j).key <;> simp_all
        · simpa [hxk] using hx
    | T =>
      simp only [step, opDestroy]
      repeat' split
      · exact h
      · exact h.of_frame rfl rfl rfl
      · intro x hx
        apply h x
        simp only [St.view, upd_apply] at hx ⊢
        by_cases hxk : x = (s.t.insts j).key
        · subst hxk; simp at hx; exact Or.inl hx
        · simpa [hxk] using hx
      · exact h.of_frame rfl rfl rfl
  | expire sd j =>
    simp only [step, opExpire]
    repeat' split
    all_goals exact h.of_frame (by simp) (by simp) (by simp)
  | select sd cls =>
    simp only [step, opSelect]
    split
    · exact h
    · have f := selFold_frame sd (s.dom.filter fun k => clsOf k == cls) (s, [])
      exact h.of_frame f.1 f.2.2.1 f.2.2.2.2.2.1
  | drop sd j =>
    simp only [step, opDrop]
    repeat' split
    all_goals exact h.of_frame (by simp) (by simp) (by simp)
  | weaken sd k => exact h.of_frame (by simp [step]) (by simp [step]) (by simp [step])
  | purge sd cls => exact h.of_frame (by simp [step]) (by simp [step]) (by simp [step])
  | commit close =>
    simp only [step, opCommit]
    split
    · exact h
    · intro x hx
      apply h x
      right
      simpa [St.view] using hx
  | rollback =>
    simp only [step, opRollback]
    split
    · exact h
    · intro x hx
      apply h x
      left
      simpa [St.view] using hx
  | begin =>
    simp only [step, opBegin]
    split
    · exact h.of_frame rfl rfl rfl
    · exact h

theorem run_domInv {s : St} (h : DomInv s) (ops : List Op) : DomInv (run s ops) := by
  induction ops generalizing s with
  | nil => exact h
  | cons op ops ih => exact ih (step_domInv h op)

/-- the invariant of the good histories gives the reading of every live instance on both sides -/
theorem read_of_inv {s : St} (hi : Inv s) (sd : Side) (j : Nat) (c : Col) (hj : j < (s.conn sd).n)
    (hd : ((s.conn sd).insts j).destroyed = false) (hr : s.refused sd = false) :
    (step s (.read sd j c)).2 = freshAnswer (s.view sd ((s.conn sd).insts j).key) c := by
  cases hc : ((s.conn sd).insts j).cached c with
  | none => exact opRead_fresh s sd j c hj hc hr
  | some v =>
    simp only [step, opRead_cached s sd j c v hj hc]
    have := hi.coh sd j c v hd hc
    cases hv : s.view sd ((s.conn sd).insts j).key with
    | none => rw [hv] at this; simp at this
    | some r => rw [hv] at this; simp at this; simp [freshAnswer, this]

end SqlObjVerif.Tx
