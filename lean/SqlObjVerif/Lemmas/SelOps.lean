import SqlObjVerif.Model.PyOps
import SqlObjVerif.Extracted.SelOps
/-!
# C10 — `SelectResults.clone` / `__init__` as TRANSLATED (PyOps): `clone` is fresh

`init_spec`: the translated `__init__` only writes to its own `**ops` dict and leaves
start / end as passed.  `clone_spec`: for every heap, object and oracle, the translated `clone`
returns an object whose `ops` dict is at a NEW address, no dict that existed before is changed, and the
new dict holds the requested window.
-/
namespace SqlObjVerif.PyOps
open Extracted

@[simp] theorem Dict.get?_del_self (d : Dict) (k : String) : (Dict.del d k).get? k = none := by
  induction d with
  | nil => rfl
  | cons p d ih =>
    obtain ⟨k', v⟩ := p
    by_cases h : k' = k
    · subst h; simpa [Dict.del, Dict.get?, List.filter] using ih
    · have h' : (k' != k) = true := by simpa using h
      have h'' : (k == k') = false := by simpa using (Ne.symm h)
      simp only [Dict.del, Dict.get?, List.filter, h', List.lookup, h''] at ih ⊢
      exact ih

theorem Dict.get?_del_ne (d : Dict) (k k' : String) (hne : k' ≠ k) : (Dict.del d k).get? k' = d.get? k' := by
  induction d with
  | nil => rfl
  | cons p d ih =>
    obtain ⟨k0, v⟩ := p
    by_cases h : k0 = k
    · subst h
      have h1 : (k' == k0) = false := by simpa using hne
      simpa [Dict.del, Dict.get?, List.filter, List.lookup, h1] using ih
    · have h' : (k0 != k) = true := by simpa using h
      simp only [Dict.del, Dict.get?, List.filter, h', List.lookup] at ih ⊢
      cases hk : (k' == k0) <;> simp [ih]

@[simp] theorem Dict.get?_set_self (d : Dict) (k : String) (v : V) : (Dict.set d k v).get? k = some v := by
  simp [Dict.set, Dict.get?]

theorem Dict.get?_set_ne (d : Dict) (k k' : String) (v : V) (hne : k' ≠ k) : (Dict.set d k v).get? k' = d.get? k' := by
  have h1 : (k' == k) = false := by simpa using hne
  simp only [Dict.set, Dict.get?, List.lookup, h1]
  exact Dict.get?_del_ne d k k' hne
end SqlObjVerif.PyOps

namespace SqlObjVerif.PyOps
open Extracted

@[simp] theorem V.int_beq_pyNone (i : Int) : (V.int i == V.pyNone) = false := by simp
@[simp] theorem V.obj_beq_pyNone (n : Nat) : (V.obj n == V.pyNone) = false := by simp
@[simp] theorem V.noDefault_beq_pyNone : (V.noDefault == V.pyNone) = false := by simp
@[simp] theorem V.int_beq_noDefault (i : Int) : (V.int i == V.noDefault) = false := by simp
@[simp] theorem V.obj_beq_noDefault (n : Nat) : (V.obj n == V.noDefault) = false := by simp
@[simp] theorem V.pyNone_beq_noDefault : (V.pyNone == V.noDefault) = false := by simp

theorem init_spec (o : Orc) (h : Heap) (a : Nat) (D : Dict) (ha : h.cells a = some D)
    (hl : D.get? "limit" = none) :
    ∃ h' D', runInit o initProg h a = some (h', a) ∧ h'.next = h.next
      ∧ (∀ q, q ≠ a → h'.cells q = h.cells q)
      ∧ h'.cells a = some D' ∧ D'.get? "start" = D.get? "start" ∧ D'.get? "end" = D.get? "end"
      ∧ D'.get? "limit" = none := by
  unfold runInit initProg
  rcases hob : D.get? "orderBy" with _ | ob
  all_goals (try cases ob)
  all_goals (rcases hc : D.get? "connection" with _ | c)
  all_goals (try cases c)
  all_goals
    simp [Block.exec, Stmt.exec, C.eval, E.eval, St.dict?, List.lookup, Heap.write, ha, hl, hob, hc,
      Dict.get?_set_ne, Dict.get?_del_ne, pyTruthy]
  all_goals (try (intro q hq; simp [hq]))
end SqlObjVerif.PyOps

namespace SqlObjVerif.PyOps
open Extracted

theorem update_newOps (d : Dict) (s : Int) (e : Option Int) :
    (d.update (newOpsOf s e)).get? "start" = some (.int s)
    ∧ (d.update (newOpsOf s e)).get? "end" = some (ofOpt e)
    ∧ (d.update (newOpsOf s e)).get? "limit" = d.get? "limit" := by
  simp [Dict.update, newOpsOf, List.foldl, Dict.get?_set_ne]

/-- the heap right before `__init__` runs inside `clone`: three allocations (clone's `**newOps`,
    the `.copy()`, the callee's `**ops`) -/
def cloneHeap (h : Heap) (d : Dict) (s : Int) (e : Option Int) : Heap :=
  { cells := fun q =>
      if q = h.next + 1 + 1 then some (d.update (newOpsOf s e))
      else if q = h.next + 1 then some (d.update (newOpsOf s e))
      else if q = h.next + 1 then some d
      else if q = h.next then some (newOpsOf s e) else h.cells q,
    next := h.next + 1 + 1 + 1 }

theorem clone_reduces (o : Orc) (h : Heap) (p : Nat) (d : Dict) (s : Int) (e : Option Int)
    (hp : h.cells p = some d) (hlt : p < h.next) :
    runClone o initProg cloneProg h p (newOpsOf s e) =
      runInit o initProg (cloneHeap h d s e) (h.next + 1 + 1) := by
  have hne : p ≠ h.next := by omega
  unfold runClone cloneProg cloneHeap
  simp [Block.exec, Stmt.exec, St.dict?, List.lookup, Heap.write, Heap.alloc, hp, hne]
  have key : ∀ x : Option (Heap × Nat),
      (match (match (match x with
                | some (h', r) => Res.ret h' r
                | none => Res.err) with
              | Res.ok s' => Res.ok s'
              | r => r) with
        | Res.ret h' r => some (h', r)
        | _ => none) = x := by
    intro x; rcases x with _ | ⟨h', r⟩ <;> rfl
  exact key _

/-- **`clone` is fresh.**  For every heap, every object (its `self.ops` at address `p`), every
    oracle: `self.clone(start=s, end=e)` returns; the new object's `ops` dict lives at an address
    that did not exist before the call; no dict that existed before the call is changed; the new
    dict holds the requested window. -/
theorem clone_spec (o : Orc) (h : Heap) (p : Nat) (d : Dict) (s : Int) (e : Option Int)
    (hwf : h.WF) (hp : h.cells p = some d) (hnl : d.get? "limit" = none) :
    ∃ h' r d', runClone o initProg cloneProg h p (newOpsOf s e) = some (h', r)
      ∧ h.next ≤ r ∧ r < h'.next ∧ h'.WF
      ∧ (∀ q, q < h.next → h'.cells q = h.cells q)
      ∧ h'.cells r = some d' ∧ d'.get? "start" = some (.int s) ∧ d'.get? "end" = some (ofOpt e)
      ∧ d'.get? "limit" = none := by
  have hlt : p < h.next := by
    rcases Nat.lt_or_ge p h.next with hlt | hge
    · exact hlt
    · rw [hwf p hge] at hp; cases hp
  obtain ⟨hu1, hu2, hu3⟩ := update_newOps d s e
  rw [clone_reduces o h p d s e hp hlt]
  have hHa : (cloneHeap h d s e).cells (h.next + 1 + 1) = some (d.update (newOpsOf s e)) := by
    simp [cloneHeap]
  have hHlow : ∀ q, q < h.next → (cloneHeap h d s e).cells q = h.cells q := by
    intro q hq
    have h1 : q ≠ h.next + 1 + 1 := by omega
    have h2 : q ≠ h.next + 1 := by omega
    have h3 : q ≠ h.next := by omega
    simp [cloneHeap, h1, h2, h3]
  have hHhigh : ∀ q, h.next + 3 ≤ q → (cloneHeap h d s e).cells q = none := by
    intro q hq
    have h1 : q ≠ h.next + 1 + 1 := by omega
    have h2 : q ≠ h.next + 1 := by omega
    have h3 : q ≠ h.next := by omega
    simp [cloneHeap, h1, h2, h3]
    exact hwf q (by omega)
  obtain ⟨h', D', hrun, hn', hoth, hcell, hs, he, hl⟩ :=
    init_spec o (cloneHeap h d s e) (h.next + 1 + 1) _ hHa (by rw [hu3]; exact hnl)
  have hn'' : h'.next = h.next + 3 := by rw [hn']; rfl
  refine ⟨h', h.next + 1 + 1, D', hrun, by omega, by omega, ?_, ?_, hcell, by rw [hs, hu1], by rw [he, hu2], hl⟩
  · intro q hq
    have : q ≠ h.next + 1 + 1 := by omega
    rw [hoth q this]
    exact hHhigh q (by omega)
  · intro q hq
    have : q ≠ h.next + 1 + 1 := by omega
    rw [hoth q this]
    exact hHlow q hq
end SqlObjVerif.PyOps
