import SqlObjVerif.Lemmas.Ddl
import SqlObjVerif.Extracted.Ddl
/-! # C14 — every column kind renders to reader-safe pieces; the skeleton theorem for any table set passing `TablesOK` -/
namespace SqlObjVerif.Ddl

def safeFrag (bs : Bool) (f : Str) : Bool :=
  match fragCheck bs f with
  | some ts => ts.all SafeTok
  | none => false

def safeWord (w : Str) : Bool := !w.isEmpty && w.all isPlain && SafeTok (.w w)

def nameOK (w : Str) : Bool := !w.isEmpty && w.all isPlain && !isTableConstraintWord w

/-- the expected flags of the id column per dialect -/
def idFlags : Dialect → Flags
  | .firebird => ⟨true, false, .primaryKey⟩
  | .mssql | .sybase => ⟨false, true, .identity⟩
  | _ => ⟨false, false, .primaryKey⟩

def idSuffixOK (bs : Bool) (d : Dialect) (sfx : Option Str) : Bool :=
  match sfx with
  | none => true
  | some [] => false
  | some (c :: f) =>
    c == 32 &&
    match fragCheck bs f with
    | some ts => commaFree ts && decide (scanFlags ts = idFlags d)
    | none => false

def joinTypeOK (bs : Bool) (f : Str) : Bool :=
  match fragCheck bs f with
  | some ts => commaFree ts && decide (scanFlags ts = ⟨true, false, .none⟩)
  | none => false

/-- decidable well-formedness of the extracted tables w.r.t. the reader with convention `bs` -/
structure TablesOK (bs : Bool) (T : Tables) : Prop where
  indent : T.indent.all isBlank = true ∧ T.indent ≠ []
  colSep : T.colSep = [44, 10]
  open_ : T.createTable.2.1 = [32, 40, 10]
  close : T.createTable.2.2 = [10, 41]
  pre : T.createTable.1.all (· != 40) = true
  simple : (allDialects.all fun d => allSimple.all fun k => allCaps.all fun c =>
      match (T.simpleType d k).eval c with
      | some t => safeFrag bs t
      | none => true) = true
  intBase : (allIntKinds.all fun k => safeWord (T.intBase k)) = true
  intAttrs : (safeFrag bs T.intUnsigned && safeFrag bs T.intZerofill) = true
  str : (safeFrag bs T.strText && safeWord T.strVarchar.1 && safeWord T.strChar.1 && safeFrag bs T.strFirebirdNoLen &&
      safeFrag bs T.strMaxdbNoLen && safeFrag bs T.strMssqlMax && safeFrag bs T.strMssqlNoMax &&
      safeFrag bs (T.unicodeMssqlPrefix ++ T.strMssqlMax) && safeFrag bs (T.unicodeMssqlPrefix ++ T.strMssqlNoMax) &&
      safeWord T.strMssqlVarchar.1 && safeWord T.strMssqlChar.1 &&
      safeWord (T.unicodeMssqlPrefix ++ T.strMssqlVarchar.1) && safeWord (T.unicodeMssqlPrefix ++ T.strMssqlChar.1)) = true
  blob : ((T.blobMysql.all fun e => safeFrag bs e.2.1 && safeFrag bs e.2.2) && safeFrag bs T.blobMysqlElse.1 &&
      safeFrag bs T.blobMysqlElse.2 && (T.pickleMysql.all fun e => safeFrag bs e.2) && safeFrag bs T.pickleMysqlElse &&
      safeFrag bs T.blobPostgres && safeFrag bs T.blobMssqlMax && safeFrag bs T.blobMssqlNoMax) = true
  decimal : (safeWord T.decimalFmt.1 && T.decimalFmt.2.1.all isPlainIn) = true
  enum : (safeWord T.enumMysql.1 && T.enumMysqlExtra.isEmpty && safeWord T.enumVarchar.1 && safeFrag bs T.enumCheck.1 &&
      T.enumSep.all isPlainIn && T.enumCheck.2.1.dropLast.all isPlainIn && T.enumCheck.2.1.getLast? == some 40 &&
      T.enumCheck.2.2 == [41, 41]) = true
  keyType : (allDialects.all fun d => safeFrag bs (T.keyType d false) && safeFrag bs (T.keyType d true)) = true
  extras : (fragCheck bs T.kwNotNull == some [.w kwNOT, .w kwNULL] && fragCheck bs T.kwUnique == some [.w kwUNIQUE] &&
      safeWord T.kwDefault && T.extraOrder.contains .notNull && T.extraOrder.contains .unique) = true
  idSuffix : (allDialects.all fun d => [false, true].all fun s => allIdSizes.all fun z => idSuffixOK bs d (T.idSuffix d s z)) = true
  fkAction : (allCascades.all fun c => safeFrag bs (T.fkAction c)) = true
  joinType : (allDialects.all fun d => joinTypeOK bs (T.joinType d)) = true

set_option maxRecDepth 4000 in
theorem tablesOK_extracted (bs : Bool) : TablesOK bs Extracted.tables := by
  cases bs <;> constructor <;> decide +kernel


/-! ### safe pieces -/

def SafePiece (bs : Bool) (p : Str) : Prop := ∃ ts, PieceSeg bs p (.safe ts)

def SafePieces (bs : Bool) (ps : List Str) : Prop :=
  ∃ segs, All2 (PieceSeg bs) ps segs ∧ segs.any Seg.isNN = false ∧ segs.any Seg.isUQ = false

theorem all2_append {α β} {R : α → β → Prop} {a1 a2 : List α} {b1 b2 : List β} (h1 : All2 R a1 b1) (h2 : All2 R a2 b2) :
    All2 R (a1 ++ a2) (b1 ++ b2) := by
  induction h1 with
  | nil => exact h2
  | cons h _ ih => exact .cons h ih

theorem safePieces_nil (bs : Bool) : SafePieces bs [] := ⟨[], .nil, rfl, rfl⟩

theorem safePieces_cons {bs : Bool} {p : Str} {ps : List Str} (h : SafePiece bs p) (hs : SafePieces bs ps) :
    SafePieces bs (p :: ps) := by
  obtain ⟨ts, ht⟩ := h
  obtain ⟨segs, a, b, c⟩ := hs
  exact ⟨.safe ts :: segs, .cons ht a, by simp [Seg.isNN, b], by simp [Seg.isUQ, c]⟩

theorem safePieces_append {bs : Bool} {p q : List Str} (h1 : SafePieces bs p) (h2 : SafePieces bs q) :
    SafePieces bs (p ++ q) := by
  obtain ⟨s1, a1, b1, c1⟩ := h1
  obtain ⟨s2, a2, b2, c2⟩ := h2
  exact ⟨s1 ++ s2, all2_append a1 a2, by simp [b1, b2], by simp [c1, c2]⟩

theorem safePiece_of_safeFrag {bs : Bool} {f : Str} (h : safeFrag bs f = true) : SafePiece bs f := by
  unfold safeFrag at h
  split at h
  · rename_i ts hts
    exact ⟨ts, frag_of_check bs f ts hts, h⟩
  · exact absurd h (by simp)

theorem safePiece_nil (bs : Bool) : SafePiece bs [] := ⟨[], frag_nil bs, rfl⟩

theorem safeWord_spec {w : Str} (h : safeWord w = true) :
    w ≠ [] ∧ (∀ c ∈ w, isPlain c = true) ∧ SafeTok (.w w) = true := by
  simp only [safeWord, Bool.and_eq_true, Bool.not_eq_true', List.isEmpty_eq_false_iff, List.all_eq_true] at h
  exact ⟨h.1.1, h.1.2, h.2⟩

theorem nameOK_spec {w : Str} (h : nameOK w = true) :
    w ≠ [] ∧ (∀ c ∈ w, isPlain c = true) ∧ isTableConstraintWord w = false := by
  simp only [nameOK, Bool.and_eq_true, Bool.not_eq_true', List.isEmpty_eq_false_iff, List.all_eq_true] at h
  exact ⟨h.1.1, h.1.2, h.2⟩

theorem safePiece_word {bs : Bool} {w : Str} (h : safeWord w = true) : SafePiece bs w := by
  obtain ⟨h1, h2, h3⟩ := safeWord_spec h
  exact ⟨[.w w], frag_word bs w h1 h2, by simp [Seg.ok, h3]⟩

theorem safePiece_wordParen {bs : Bool} {w g : Str} (h : safeWord w = true) (hg : Inner bs g) :
    SafePiece bs (wordParen w g) := by
  obtain ⟨h1, h2, h3⟩ := safeWord_spec h
  have hf : Frag bs (wordParen w g) (Seg.safe (wordToks w ++ [.grp])).toks := frag_word_grp bs w g h2 hg
  refine ⟨wordToks w ++ [.grp], hf, ?_⟩
  cases w with
  | nil => exact absurd rfl h1
  | cons a l => simp only [Seg.ok, wordToks, List.cons_append, List.nil_append, List.all_cons, h3, List.all_nil]; decide

theorem safePiece_paren {bs : Bool} {g : Str} (hg : Inner bs g) : SafePiece bs (40 :: (g ++ [41])) := by
  refine ⟨[.grp], ?_, by decide⟩
  have := frag_word_grp bs [] g (by simp) hg
  simpa [wordToks, Seg.toks] using this

theorem plainIn_of_plain {c : Nat} (h : isPlain c = true) : isPlainIn c = true := by
  simp only [isPlain, Bool.and_eq_true, bne_iff_ne, ne_eq] at h
  simp [isPlainIn, h.1.1.2, h.1.2, h.2]

theorem natDigitsAux_digits (fuel n : Nat) (acc : Str) :
    ∀ c ∈ natDigitsAux fuel n acc, c ∈ acc ∨ (48 ≤ c ∧ c ≤ 57) := by
  induction fuel generalizing n acc with
  | zero => intro c hc; exact Or.inl hc
  | succ k ih =>
    intro c hc
    unfold natDigitsAux at hc
    split at hc
    · simp only [List.mem_cons] at hc
      rcases hc with rfl | hc
      · right; omega
      · exact Or.inl hc
    · rcases ih _ _ c hc with h | h
      · simp only [List.mem_cons] at h
        rcases h with rfl | h
        · right; omega
        · exact Or.inl h
      · exact Or.inr h

theorem inner_digits (bs : Bool) (n : Nat) : Inner bs (natDigits n) := by
  apply inner_plain
  intro c hc
  rcases natDigitsAux_digits _ _ _ c hc with h | h
  · simp at h
  · simp only [isPlainIn, Bool.and_eq_true, bne_iff_ne, ne_eq]; omega

theorem inner_joinWith (bs : Bool) (sep : Str) (hs : sep.all isPlainIn = true) (lits : List Str)
    (h : ∀ l ∈ lits, Inner bs l) : Inner bs (joinWith sep lits) := by
  induction lits with
  | nil => exact inner_nil bs
  | cons a rest ih =>
    cases rest with
    | nil => simpa [joinWith] using h a (by simp)
    | cons b r =>
      simp only [joinWith]
      have hsep : Inner bs sep := inner_plain bs sep (by simpa [List.all_eq_true] using hs)
      exact inner_append bs _ _ (inner_append bs _ _ (h a (by simp)) hsep) (ih (fun l hl => h l (by simp [hl])))

theorem lookupThreshold_mem {α} (tbl : List (Nat × α)) (dflt : α) (n : Nat) (P : α → Prop) (hd : P dflt)
    (ht : ∀ e ∈ tbl, P e.2) : P (lookupThreshold tbl dflt n) := by
  induction tbl with
  | nil => exact hd
  | cons e rest ih =>
    obtain ⟨t, a⟩ := e
    simp only [lookupThreshold]
    split
    · exact ht (t, a) (by simp)
    · exact ih (fun x hx => ht x (by simp [hx]))

theorem mem_allDialects (d : Dialect) : d ∈ allDialects := by cases d <;> decide
theorem mem_allSimple (k : SimpleKind) : k ∈ allSimple := by cases k <;> decide
theorem mem_allIntKinds (k : IntKind) : k ∈ allIntKinds := by cases k <;> decide
theorem mem_allCascades (k : Cascade) : k ∈ allCascades := by cases k <;> decide
theorem mem_allIdSizes (k : IdSize) : k ∈ allIdSizes := by cases k <;> decide
theorem mem_allCaps (c : Caps) : c ∈ allCaps := by
  obtain ⟨a, b⟩ := c; cases a <;> cases b <;> decide


variable {bs : Bool} {T : Tables}

theorem strSqlType_safe (hT : TablesOK bs T) (n : Nat) (vc : Bool) : SafePiece bs (strSqlType T n vc) := by
  have h := hT.str
  simp only [Bool.and_eq_true] at h
  unfold strSqlType
  split
  · exact safePiece_of_safeFrag h.1.1.1.1.1.1.1.1.1.1.1.1
  · split
    · exact safePiece_wordParen h.1.1.1.1.1.1.1.1.1.1.1.2 (inner_digits bs n)
    · exact safePiece_wordParen h.1.1.1.1.1.1.1.1.1.1.2 (inner_digits bs n)

theorem strType_safe (hT : TablesOK bs T) (d : Dialect) (c : Caps) (u : Bool) (n : Nat) (vc : Bool) :
    SafePiece bs (strType T d c u n vc) := by
  have h := hT.str
  simp only [Bool.and_eq_true] at h
  obtain ⟨⟨⟨⟨⟨⟨⟨⟨⟨⟨⟨⟨h1, h2⟩, h3⟩, h4⟩, h5⟩, h6⟩, h7⟩, h8⟩, h9⟩, h10⟩, h11⟩, h12⟩, h13⟩ := h
  cases d <;> simp only [strType] <;> (try exact strSqlType_safe hT n vc)
  · -- firebird
    split
    · exact safePiece_of_safeFrag h4
    · exact strSqlType_safe hT n vc
  · -- mssql
    cases u <;> simp only [Bool.false_eq_true, if_false, if_true]
    · split
      · split
        · exact safePiece_of_safeFrag h6
        · exact safePiece_of_safeFrag h7
      · split
        · exact safePiece_wordParen h10 (inner_digits bs n)
        · exact safePiece_wordParen h11 (inner_digits bs n)
    · split
      · split
        · exact safePiece_of_safeFrag h8
        · exact safePiece_of_safeFrag h9
      · split
        · have : T.unicodeMssqlPrefix ++ wordParen T.strMssqlVarchar.1 (natDigits n)
              = wordParen (T.unicodeMssqlPrefix ++ T.strMssqlVarchar.1) (natDigits n) := by simp [wordParen]
          rw [this]; exact safePiece_wordParen h12 (inner_digits bs n)
        · have : T.unicodeMssqlPrefix ++ wordParen T.strMssqlChar.1 (natDigits n)
              = wordParen (T.unicodeMssqlPrefix ++ T.strMssqlChar.1) (natDigits n) := by simp [wordParen]
          rw [this]; exact safePiece_wordParen h13 (inner_digits bs n)
  · -- maxdb
    split
    · exact safePiece_of_safeFrag h5
    · exact strSqlType_safe hT n vc

theorem blobType_safe (hT : TablesOK bs T) (d : Dialect) (c : Caps) (p : Bool) (n : Nat) (vc : Bool) :
    SafePiece bs (blobType T d c p n vc) := by
  have h := hT.blob
  simp only [Bool.and_eq_true, List.all_eq_true] at h
  obtain ⟨⟨⟨⟨⟨⟨⟨h1, h2⟩, h3⟩, h4⟩, h5⟩, h6⟩, h7⟩, h8⟩ := h
  cases d <;> simp only [blobType] <;> (try exact strType_safe hT _ c false n vc)
  · -- mysql
    split
    · exact safePiece_of_safeFrag (lookupThreshold_mem T.pickleMysql T.pickleMysqlElse n (fun a => safeFrag bs a = true) h5 h4)
    · have hp := lookupThreshold_mem T.blobMysql T.blobMysqlElse n
        (fun a => safeFrag bs a.1 = true ∧ safeFrag bs a.2 = true) ⟨h2, h3⟩ (fun e he => h1 e he)
      split
      · exact safePiece_of_safeFrag hp.1
      · exact safePiece_of_safeFrag hp.2
  · exact safePiece_of_safeFrag h6
  · split
    · exact safePiece_of_safeFrag h7
    · exact safePiece_of_safeFrag h8


theorem eq_dropLast_append (l : List Nat) (a : Nat) (h : l.getLast? = some a) : l = l.dropLast ++ [a] := by
  induction l with
  | nil => simp at h
  | cons x l ih =>
    cases l with
    | nil => simp at h; simp [h]
    | cons y r =>
      have h' : (y :: r).getLast? = some a := by simpa [List.getLast?_cons_cons] using h
      have := ih h'
      simp only [List.dropLast_cons_cons, List.cons_append]
      rw [← this]

def litDb (T : Tables) (d : Dialect) : LitDb := if d = .mysql then .mysql else T.enumLit d

/-- side conditions on the data a column kind carries (foreign-key target names) -/
def kindWF : Kind → Bool
  | .fk tTable tId _ _ => safeWord tTable && tId.all isPlainIn
  | _ => true

theorem inner_enumLit (l : LitDb) (h : bsOK bs l) (v : Option Str) : Inner bs (enumLit l v) := by
  cases v with
  | none => exact inner_plain bs kwNULLlit (by decide)
  | some s => exact inner_lit bs l h s

theorem safeTok_exists (db : Str) : SafeTok (.w (db ++ typePieces.sfxExists)) = true := by
  have key : ∀ kw : Str, kw.getLast? ≠ some 83 → (upper (db ++ typePieces.sfxExists) == kw) = false := by
    intro kw hk
    cases hb : upper (db ++ typePieces.sfxExists) == kw with
    | false => rfl
    | true =>
      have := eq_of_beq hb
      rw [← this] at hk
      exact absurd (by simp [upper, typePieces.sfxExists, upC]) hk
  simp only [SafeTok, isW, Bool.and_eq_true, Bool.not_eq_true', bne_iff_ne, ne_eq]
  refine ⟨⟨⟨⟨by simp, ?_⟩, ?_⟩, ?_⟩, ?_⟩ <;> exact key _ (by decide)

theorem constKw_safe (bs : Bool) (kw : Str) (h : ∀ b, safeFrag b kw = true) : SafePiece bs kw :=
  safePiece_of_safeFrag (h bs)

theorem typePieces_safe (hT : TablesOK bs T) (d : Dialect) (c : Caps) (db : Str) (hdb : nameOK db = true)
    (kind : Kind) (hk : kindWF kind = true) (hbs : bsOK bs (litDb T d)) (pre post : List Str)
    (h : typePieces T d c db kind = some (pre, post)) : SafePieces bs pre ∧ SafePieces bs post := by
  obtain ⟨hdb1, hdb2, hdb3⟩ := nameOK_spec hdb
  have one : ∀ p, SafePiece bs p → SafePieces bs [p] := fun p hp => safePieces_cons hp (safePieces_nil bs)
  cases kind with
  | simple k =>
    simp only [typePieces, Option.map_eq_some_iff] at h
    obtain ⟨t, ht, he⟩ := h
    simp only [Prod.mk.injEq] at he
    obtain ⟨rfl, rfl⟩ := he
    have := hT.simple
    simp only [List.all_eq_true] at this
    have := this d (mem_allDialects d) k (mem_allSimple k) c (mem_allCaps c)
    rw [ht] at this
    exact ⟨one _ (safePiece_of_safeFrag this), safePieces_nil bs⟩
  | int k n u z =>
    simp only [typePieces, Option.some.injEq, Prod.mk.injEq] at h
    obtain ⟨rfl, rfl⟩ := h
    have hb := hT.intBase
    simp only [List.all_eq_true] at hb
    have hb := hb k (mem_allIntKinds k)
    have ha := hT.intAttrs
    simp only [Bool.and_eq_true] at ha
    refine ⟨?_, safePieces_nil bs⟩
    refine safePieces_append (safePieces_append (one _ ?_) ?_) ?_
    · split
      · exact safePiece_wordParen hb (inner_digits bs n)
      · exact safePiece_word hb
    · split
      · exact one _ (safePiece_of_safeFrag ha.1)
      · exact safePieces_nil bs
    · split
      · exact one _ (safePiece_of_safeFrag ha.2)
      · exact safePieces_nil bs
  | str u n v =>
    simp only [typePieces, Option.some.injEq, Prod.mk.injEq] at h
    obtain ⟨rfl, rfl⟩ := h
    exact ⟨one _ (strType_safe hT d c u n _), safePieces_nil bs⟩
  | blob n v =>
    simp only [typePieces, Option.some.injEq, Prod.mk.injEq] at h
    obtain ⟨rfl, rfl⟩ := h
    exact ⟨one _ (blobType_safe hT d c false n _), safePieces_nil bs⟩
  | pickle n v =>
    simp only [typePieces, Option.some.injEq, Prod.mk.injEq] at h
    obtain ⟨rfl, rfl⟩ := h
    exact ⟨one _ (blobType_safe hT d c true n _), safePieces_nil bs⟩
  | decimal s p =>
    simp only [typePieces, Option.some.injEq, Prod.mk.injEq] at h
    obtain ⟨rfl, rfl⟩ := h
    have hd := hT.decimal
    simp only [Bool.and_eq_true] at hd
    refine ⟨one _ (safePiece_wordParen hd.1 ?_), safePieces_nil bs⟩
    exact inner_append bs _ _ (inner_append bs _ _ (inner_digits bs s)
      (inner_plain bs _ (by simpa [List.all_eq_true] using hd.2))) (inner_digits bs p)
  | currency =>
    simp only [typePieces, Option.some.injEq, Prod.mk.injEq] at h
    obtain ⟨rfl, rfl⟩ := h
    have hd := hT.decimal
    simp only [Bool.and_eq_true] at hd
    refine ⟨one _ (safePiece_wordParen hd.1 ?_), safePieces_nil bs⟩
    exact inner_append bs _ _ (inner_append bs _ _ (inner_digits bs _)
      (inner_plain bs _ (by simpa [List.all_eq_true] using hd.2))) (inner_digits bs _)
  | enum vals =>
    have he := hT.enum
    simp only [Bool.and_eq_true, List.isEmpty_iff, beq_iff_eq] at he
    obtain ⟨⟨⟨⟨⟨⟨⟨e1, e2⟩, e3⟩, e4⟩, e5⟩, e6⟩, e7⟩, e8⟩ := he
    have common : ∀ (d : Dialect), d ≠ .maxdb → d ≠ .mysql → bsOK bs (T.enumLit d) →
        (if vals = [] then none else
          let lits := vals.map (enumLit (T.enumLit d))
          let vc := wordParen T.enumVarchar.1 (natDigits (enumMaxLen vals))
          let chk := [T.enumCheck.1, enumCheckGroup T db lits]
          if d = .firebird then some ([vc], chk) else some (vc :: chk, [])) = some (pre, post) →
        SafePieces bs pre ∧ SafePieces bs post := by
      intro d _ _ hl h
      split at h
      · exact absurd h (by simp)
      · have hvc : SafePiece bs (wordParen T.enumVarchar.1 (natDigits (enumMaxLen vals))) :=
          safePiece_wordParen e3 (inner_digits bs _)
        have hck : SafePiece bs T.enumCheck.1 := safePiece_of_safeFrag e4
        have hgrp : SafePiece bs (enumCheckGroup T db (vals.map (enumLit (T.enumLit d)))) := by
          have hlast : T.enumCheck.2.1 = T.enumCheck.2.1.dropLast ++ [40] := eq_dropLast_append _ 40 e7
          have hshape : enumCheckGroup T db (vals.map (enumLit (T.enumLit d)))
              = 40 :: ((db ++ T.enumCheck.2.1.dropLast ++
                  (40 :: (joinWith T.enumSep (vals.map (enumLit (T.enumLit d))) ++ [41]))) ++ [41]) := by
            unfold enumCheckGroup
            rw [e8]
            conv => lhs; rw [hlast]
            simp
          rw [hshape]
          apply safePiece_paren
          refine inner_append bs _ _ (inner_append bs _ _ (inner_plain bs db (fun x hx => plainIn_of_plain (hdb2 x hx)))
            (inner_plain bs _ (by simpa [List.all_eq_true] using e6))) (inner_paren bs _ ?_)
          apply inner_joinWith bs _ e5
          intro l hl'
          simp only [List.mem_map] at hl'
          obtain ⟨v, _, rfl⟩ := hl'
          exact inner_enumLit _ hl v
        simp only at h
        split at h
        · simp only [Option.some.injEq, Prod.mk.injEq] at h
          obtain ⟨rfl, rfl⟩ := h
          exact ⟨one _ hvc, safePieces_cons hck (one _ hgrp)⟩
        · simp only [Option.some.injEq, Prod.mk.injEq] at h
          obtain ⟨rfl, rfl⟩ := h
          exact ⟨safePieces_cons hvc (safePieces_cons hck (one _ hgrp)), safePieces_nil bs⟩
    cases d with
    | maxdb => simp [typePieces] at h
    | mysql =>
      simp only [typePieces] at h
      have hb : bsOK bs .mysql := by simpa [litDb] using hbs
      have hp : SafePiece bs (wordParen T.enumMysql.1 (joinWith T.enumSep ((vals.filterMap id).map (sqlLit .mysql)))) := by
        apply safePiece_wordParen e1
        apply inner_joinWith bs _ e5
        intro l hl'
        simp only [List.mem_map] at hl'
        obtain ⟨v, _, rfl⟩ := hl'
        exact inner_lit bs .mysql hb v
      split at h
      · simp only [Option.some.injEq, Prod.mk.injEq] at h
        obtain ⟨rfl, rfl⟩ := h
        exact ⟨one _ hp, safePieces_nil bs⟩
      · rename_i hc
        exact absurd (Or.inr e2) hc
    | sqlite => exact common .sqlite (by decide) (by decide) (by simpa [litDb] using hbs) (by simpa [typePieces] using h)
    | postgres => exact common .postgres (by decide) (by decide) (by simpa [litDb] using hbs) (by simpa [typePieces] using h)
    | firebird => exact common .firebird (by decide) (by decide) (by simpa [litDb] using hbs) (by simpa [typePieces] using h)
    | mssql => exact common .mssql (by decide) (by decide) (by simpa [litDb] using hbs) (by simpa [typePieces] using h)
    | sybase => exact common .sybase (by decide) (by decide) (by simpa [litDb] using hbs) (by simpa [typePieces] using h)
  | fk tTable tId tIdStr cas =>
    simp only [kindWF, Bool.and_eq_true] at hk
    have hkt := hT.keyType
    simp only [List.all_eq_true, Bool.and_eq_true] at hkt
    have hkt := hkt d (mem_allDialects d)
    have hty : SafePiece bs (T.keyType d tIdStr) := by
      cases tIdStr
      · exact safePiece_of_safeFrag hkt.1
      · exact safePiece_of_safeFrag hkt.2
    have href : SafePiece bs (tTable ++ 40 :: (tId ++ [41])) :=
      safePiece_wordParen hk.1 (inner_plain bs tId (by simpa [List.all_eq_true] using hk.2))
    have hrefkw : SafePiece bs kwREFERENCES := safePiece_of_safeFrag (by cases bs <;> decide)
    have hact : SafePiece bs (T.fkAction cas) := by
      have := hT.fkAction
      simp only [List.all_eq_true] at this
      exact safePiece_of_safeFrag (this cas (mem_allCascades cas))
    cases d <;> simp only [typePieces, Option.some.injEq, Prod.mk.injEq] at h <;> obtain ⟨rfl, rfl⟩ := h
    · -- sqlite
      refine ⟨one _ hty, ?_⟩
      refine safePieces_cons (safePiece_of_safeFrag (by cases bs <;> decide)) (safePieces_cons ?_
        (safePieces_cons hrefkw (safePieces_cons href (one _ hact))))
      refine ⟨[.w (db ++ typePieces.sfxExists)], frag_word bs _ (by simp [hdb1]) ?_, by simp [Seg.ok, safeTok_exists]⟩
      intro x hx
      simp only [List.mem_append] at hx
      rcases hx with hx | hx
      · exact hdb2 x hx
      · revert x; decide
    · exact ⟨one _ hty, safePieces_nil bs⟩
    · exact ⟨one _ hty, safePieces_nil bs⟩
    · exact ⟨one _ hty, safePieces_nil bs⟩
    · exact ⟨one _ hty, safePieces_cons hrefkw (safePieces_cons href (one _ (safePiece_nil bs)))⟩
    · exact ⟨one _ hty, safePieces_cons hrefkw (safePieces_cons href (one _ (safePiece_nil bs)))⟩
    · exact ⟨one _ hty, safePieces_nil bs⟩


/-! ### `_extraSQL`, whole columns, the id column -/

def extraSeg (bs : Bool) (T : Tables) (col : Col) : Extra → List Seg
  | .notNull => if col.nn then [.nn] else []
  | .unique => if col.uq then [.uq] else []
  | .default => match col.defaultSQL with
    | some ds => [.safe (.w T.kwDefault :: (fragCheck bs ds).getD [])]
    | none => []

def colWF (bs : Bool) (st : Style) (col : Col) : Bool :=
  nameOK (col.db st) && kindWF col.kind &&
    match col.defaultSQL with
    | some ds => safeFrag bs ds
    | none => true

theorem extra_pieces (hT : TablesOK bs T) (col : Col) (hds : ∀ ds, col.defaultSQL = some ds → safeFrag bs ds = true)
    (order : List Extra) :
    All2 (PieceSeg bs) (order.flatMap (extraPiece T col)) (order.flatMap (extraSeg bs T col)) := by
  have he := hT.extras
  simp only [Bool.and_eq_true, beq_iff_eq] at he
  obtain ⟨⟨⟨⟨e1, e2⟩, e3⟩, _⟩, _⟩ := he
  induction order with
  | nil => exact .nil
  | cons e rest ih =>
    simp only [List.flatMap_cons]
    refine all2_append ?_ ih
    cases e with
    | notNull =>
      simp only [extraPiece, extraSeg]
      split
      · exact .cons ⟨frag_of_check bs _ _ e1, rfl⟩ .nil
      · exact .nil
    | unique =>
      simp only [extraPiece, extraSeg]
      split
      · exact .cons ⟨frag_of_check bs _ _ e2, rfl⟩ .nil
      · exact .nil
    | default =>
      simp only [extraPiece, extraSeg]
      cases hd : col.defaultSQL with
      | none => exact .nil
      | some ds =>
        have hs := hds ds hd
        unfold safeFrag at hs
        split at hs
        · rename_i ts hts
          obtain ⟨w1, w2, w3⟩ := safeWord_spec e3
          refine .cons ⟨?_, ?_⟩ .nil
          · have := frag_append bs _ _ _ _ (frag_word bs T.kwDefault w1 w2) (frag_of_check bs ds ts hts)
            simpa [Seg.toks, hts] using this
          · simp [Seg.ok, hts, w3, hs]
        · exact absurd hs (by simp)

theorem extra_flags (T : Tables) (col : Col) (order : List Extra) :
    (order.flatMap (extraSeg bs T col)).any Seg.isNN = (order.contains .notNull && col.nn) ∧
    (order.flatMap (extraSeg bs T col)).any Seg.isUQ = (order.contains .unique && col.uq) := by
  induction order with
  | nil => simp
  | cons e rest ih =>
    simp only [List.flatMap_cons, List.any_append, ih.1, ih.2, List.contains_cons]
    have d1 : (Extra.unique == Extra.notNull) = false := by decide
    have d2 : (Extra.notNull == Extra.unique) = false := by decide
    have d3 : (Extra.notNull == Extra.default) = false := by decide
    have d4 : (Extra.unique == Extra.default) = false := by decide
    cases e <;> simp only [extraSeg]
    · cases col.nn <;> simp [Seg.isNN, Seg.isUQ, d1]
    · cases col.uq <;> simp [Seg.isNN, Seg.isUQ, d2]
    · cases col.defaultSQL <;> simp [Seg.isNN, Seg.isUQ, d3, d4]

def colSpec (st : Style) (col : Col) : ItemSpec := ⟨col.db st, col.nn, col.uq, .none⟩

theorem colPieces_items (hT : TablesOK bs T) (d : Dialect) (c : Caps) (st : Style) (col : Col)
    (hwf : colWF bs st col = true) (hbs : bsOK bs (litDb T d)) (ps : List Str)
    (h : colPieces T d c st col = some ps) :
    ∃ segs, All2 (PieceSeg bs) ps segs ∧ segs.any Seg.isNN = col.nn ∧ segs.any Seg.isUQ = col.uq := by
  simp only [colWF, Bool.and_eq_true] at hwf
  obtain ⟨⟨hn, hk⟩, hd⟩ := hwf
  simp only [colPieces, Option.map_eq_some_iff] at h
  obtain ⟨⟨pre, post⟩, htp, rfl⟩ := h
  obtain ⟨⟨s1, a1, b1, c1⟩, ⟨s2, a2, b2, c2⟩⟩ := typePieces_safe hT d c (col.db st) hn col.kind hk hbs pre post htp
  have hds : ∀ ds, col.defaultSQL = some ds → safeFrag bs ds = true := by
    intro ds hds; rw [hds] at hd; exact hd
  have hx := extra_pieces hT col hds T.extraOrder
  have hf := extra_flags (bs := bs) T col T.extraOrder
  have he := hT.extras
  simp only [Bool.and_eq_true] at he
  refine ⟨s1 ++ T.extraOrder.flatMap (extraSeg bs T col) ++ s2, all2_append (all2_append a1 hx) a2, ?_, ?_⟩
  · have h1 := he.1.2
    simp only [List.any_append, b1, b2, hf.1, h1]; simp
  · have h2 := he.2
    simp only [List.any_append, c1, c2, hf.2, h2]; simp


theorem allSome_all2 {α β} (f : α → Option β) (l : List α) (r : List β) (h : allSome (l.map f) = some r) :
    All2 (fun a b => f a = some b) l r := by
  induction l generalizing r with
  | nil => simp [allSome] at h; subst h; exact .nil
  | cons a l ih =>
    simp only [List.map_cons] at h
    cases hf : f a with
    | none => simp [hf, allSome] at h
    | some b =>
      simp only [hf, allSome, Option.map_eq_some_iff] at h
      obtain ⟨r', hr, rfl⟩ := h
      exact .cons hf (ih r' hr)

theorem all2_length {α β} {R : α → β → Prop} {a : List α} {b : List β} (h : All2 R a b) : a.length = b.length := by
  induction h with
  | nil => rfl
  | cons _ _ ih => simp [ih]

def declWF (bs : Bool) (decl : Decl) : Bool :=
  decl.tableName.all isPlain && nameOK decl.idCol && decl.cols.all (colWF bs decl.style)

/-- maxdb renders a foreign key as a column plus a table-level clause -/
def plainItem (d : Dialect) (col : Col) : Bool := !(d == .maxdb && col.isFk)

theorem colText_items (hT : TablesOK bs T) (d : Dialect) (c : Caps) (st : Style) (col : Col)
    (hwf : colWF bs st col = true) (hbs : bsOK bs (litDb T d)) (hp : plainItem d col = true) (t : Str)
    (h : colText T d c st col = some t) : ColItems bs t (colSpec st col) := by
  have hn : nameOK (col.db st) = true := by
    simp only [colWF, Bool.and_eq_true] at hwf; exact hwf.1.1
  obtain ⟨n1, n2, n3⟩ := nameOK_spec hn
  have hgen : (colPieces T d c st col).map (fun ps => col.db st ++ spaced ps) = some t := by
    unfold colText at h
    split at h
    · rename_i tt ti ts cs hk
      simp [plainItem, Col.isFk, hk] at hp
    · exact h
  simp only [Option.map_eq_some_iff] at hgen
  obtain ⟨ps, hps, rfl⟩ := hgen
  obtain ⟨segs, a, b, c'⟩ := colPieces_items hT d c st col hwf hbs ps hps
  have := colitems_of_pieces bs (col.db st) n2 n1 n3 ps segs a
  rw [b, c'] at this
  exact this

theorem spaced_cons (p : Str) (ps : List Str) : spaced (p :: ps) = 32 :: (p ++ spaced ps) := by simp [spaced]

theorem maxdbFk_items (hT : TablesOK bs T) (c : Caps) (st : Style) (col : Col)
    (hwf : colWF bs st col = true) (hbs : bsOK bs (litDb T .maxdb)) (tTable tId : Str) (tIdStr : Bool) (cas : Cascade)
    (hk : col.kind = .fk tTable tId tIdStr cas) (t : Str)
    (h : colText T .maxdb c st col = some t) : ColItems bs t (colSpec st col) := by
  have hn : nameOK (col.db st) = true := by
    simp only [colWF, Bool.and_eq_true] at hwf; exact hwf.1.1
  have hkw : kindWF col.kind = true := by
    simp only [colWF, Bool.and_eq_true] at hwf; exact hwf.1.2
  rw [hk] at hkw
  simp only [kindWF, Bool.and_eq_true] at hkw
  obtain ⟨n1, n2, n3⟩ := nameOK_spec hn
  obtain ⟨w1, w2, w3⟩ := safeWord_spec hkw.1
  unfold colText at h
  rw [hk] at h
  simp only [Option.map_eq_some_iff] at h
  obtain ⟨ps, hps, rfl⟩ := h
  obtain ⟨segs, a, b, c'⟩ := colPieces_items hT .maxdb c st col hwf hbs ps hps
  obtain ⟨hf, hok⟩ := all2_frag_of_pieceSeg bs ps segs a
  have hitem := item_of_pieces bs (col.db st) n2 n1 ps _ hf
  -- the table-level clause
  let fkToks : List Tok := [.w kwFOREIGN, .w kwKEY, .grp, .w kwREFERENCES] ++ (wordToks tTable ++ [.grp])
  have hfk : All2 (Frag bs) (maxdbFkPieces (col.db st) tTable tId)
      [[.w kwFOREIGN], [.w kwKEY], [.grp], [.w kwREFERENCES], wordToks tTable ++ [.grp]] := by
    refine .cons (frag_word bs _ (by decide) (by decide)) (.cons (frag_word bs _ (by decide) (by decide)) (.cons ?_
      (.cons (frag_word bs _ (by decide) (by decide)) (.cons ?_ .nil))))
    · have := frag_word_grp bs [] (col.db st) (by simp) (inner_plain bs _ (fun x hx => plainIn_of_plain (n2 x hx)))
      simpa [wordToks] using this
    · exact frag_word_grp bs tTable tId w2 (inner_plain bs tId (by simpa [List.all_eq_true] using hkw.2))
  let colToks : List Tok := .w (col.db st) :: segs.flatMap Seg.toks
  refine ⟨[colToks, fkToks], ?_, by simp, ?_, ?_⟩
  · intro out
    obtain ⟨a1, a2, a3⟩ := hitem out
    rw [run_append]
    generalize run bs ⟨.top, 0, [], out⟩ (col.db st ++ spaced ps) = r at a1 a2 a3
    have e1 : run bs r (maxdbFkTail (col.db st) tTable tId)
        = run bs ⟨.top, 0, [], .comma :: emitted r.cur r.out⟩ (spaced (maxdbFkPieces (col.db st) tTable tId)) := by
      unfold maxdbFkTail
      rw [run_cons, step_comma bs r a1 a2]
      simp only [maxdbFkPieces, spaced_cons, List.drop_succ_cons, List.drop_zero]
      rw [run_cons, run_cons, step_blank' bs _ (Or.inl rfl) rfl 10 (by decide), step_blank' bs _ (Or.inl rfl) rfl 32 (by decide)]
    rw [e1]
    obtain ⟨b1, b2, b3⟩ := fragL bs _ _ hfk ⟨.top, 0, [], .comma :: emitted r.cur r.out⟩ (Or.inl rfl) rfl
    refine ⟨b1, b2, ?_⟩
    rw [b3, a3]
    simp [joinComma, emitted, colToks, fkToks, List.flatMap_def]
  · intro x hx
    simp only [List.mem_cons, List.not_mem_nil, or_false] at hx
    rcases hx with rfl | rfl
    · have := commaFree_segs segs hok
      simpa [commaFree, colToks] using this
    · cases tTable with
      | nil => exact absurd rfl w1
      | cons x y => simp [commaFree, fkToks, wordToks]
  · have h1 : itemSkel fkToks = none := by
      simp only [fkToks, List.cons_append, itemSkel]
      have : isTableConstraintWord kwFOREIGN = true := by decide
      simp [this]
    simp only [List.filterMap_cons, List.filterMap_nil, h1, colToks, itemSkel_segs _ n3 segs hok, b, c', colSpec,
      ItemSpec.skel]


theorem colText_items_all (hT : TablesOK bs T) (d : Dialect) (c : Caps) (st : Style) (col : Col)
    (hwf : colWF bs st col = true) (hbs : bsOK bs (litDb T d)) (t : Str)
    (h : colText T d c st col = some t) : ColItems bs t (colSpec st col) := by
  by_cases hp : plainItem d col = true
  · exact colText_items hT d c st col hwf hbs hp t h
  · have hp' : d = .maxdb ∧ col.isFk = true := by
      cases d <;> cases hf : col.isFk <;> simp [plainItem, hf] at hp ⊢
    obtain ⟨rfl, hfk⟩ := hp'
    cases hk : col.kind with
    | fk tTable tId tIdStr cas => exact maxdbFk_items hT c st col hwf hbs tTable tId tIdStr cas hk t h
    | _ => simp [Col.isFk, hk] at hfk

def idSpec (d : Dialect) (decl : Decl) : ItemSpec :=
  ⟨decl.idCol, (idFlags d).notNull, (idFlags d).unique, (idFlags d).key⟩

theorem idText_items (hT : TablesOK bs T) (d : Dialect) (decl : Decl) (hn : nameOK decl.idCol = true) (t : Str)
    (h : idText T d decl = some t) : ColItems bs t (idSpec d decl) := by
  obtain ⟨n1, n2, n3⟩ := nameOK_spec hn
  simp only [idText, Option.map_eq_some_iff] at h
  obtain ⟨sfx, hs, rfl⟩ := h
  have hok := hT.idSuffix
  simp only [List.all_eq_true] at hok
  have hok := hok d (mem_allDialects d) decl.idStr (by cases decl.idStr <;> simp) decl.idSize (mem_allIdSizes _)
  rw [hs] at hok
  unfold idSuffixOK at hok
  split at hok
  · simp at *
  · exact absurd hok (by simp)
  · rename_i c0 f heq
    simp only [Option.some.injEq] at heq
    subst heq
    simp only [Bool.and_eq_true, beq_iff_eq] at hok
    obtain ⟨rfl, hok⟩ := hok
    split at hok
    · rename_i ts hts
      simp only [Bool.and_eq_true, decide_eq_true_eq] at hok
      have hi := item_of_pieces bs decl.idCol n2 n1 [f] [ts] (.cons (frag_of_check bs f ts hts) .nil)
      refine ⟨[.w decl.idCol :: ts], ?_, by simp, ?_, ?_⟩
      · simpa [joinComma, spaced] using hi
      · intro x hx
        simp only [List.mem_singleton] at hx
        subst hx
        simpa [commaFree] using hok.1
      · simp [itemSkel, n3, hok.2, idSpec, ItemSpec.skel]
    · exact absurd hok (by simp)

/-- **the skeleton theorem, generic in the tables** -/
theorem skeleton_eq_declaration (hT : TablesOK bs T) (d : Dialect) (c : Caps) (decl : Decl)
    (hbs : bsOK bs (litDb T d)) (hwf : declWF bs decl = true) (text : Str)
    (h : createTableSQL T d c decl = some text) :
    skeleton bs text = (idSpec d decl).skel :: decl.cols.map (fun col => (colSpec decl.style col).skel) := by
  simp only [declWF, Bool.and_eq_true, List.all_eq_true] at hwf
  obtain ⟨⟨ht, hi⟩, hc⟩ := hwf
  unfold createTableSQL at h
  split at h
  · rename_i it cs hit hcs
    simp only [Option.some.injEq] at h
    subst h
    have hframe : FrameOK T := ⟨⟨by simpa [List.all_eq_true] using hT.indent.1, hT.indent.2⟩, hT.colSep, hT.open_, hT.close,
      by simpa [List.all_eq_true] using hT.pre⟩
    have hcols : All2 (ColItems bs) cs (decl.cols.map (colSpec decl.style)) := by
      have h2 := allSome_all2 (colText T d c decl.style) decl.cols cs hcs
      clear hcs
      generalize decl.cols = cols at h2 hc
      induction h2 with
      | nil => exact .nil
      | @cons col t cols ts hct _ ih =>
        refine .cons (colText_items_all hT d c decl.style col (hc col (by simp)) hbs t hct) ?_
        exact ih (fun x hx => hc x (by simp [hx]))
    have := skeleton_generic bs T hframe decl.tableName ht (it :: cs) (idSpec d decl :: decl.cols.map (colSpec decl.style))
      (by simp) (.cons (idText_items hT d decl hi it hit) hcols)
    rw [this]
    simp [List.map_map, Function.comp_def]
  · exact absurd h (by simp)

end SqlObjVerif.Ddl
