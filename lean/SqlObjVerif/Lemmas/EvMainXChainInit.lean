import SqlObjVerif.Lemmas.EvMainXChainId
/-!
C19 translator tie, part 14: the flush loop over n postponed thunks, and `__init__` as translated for ANY `_create`
(a parameter) — nested (the thread-local list exists: no flush) and outermost (creates, flushes and deletes the list).
-/
namespace SqlObjVerif.Events
open SqlObjVerif.PyEv
open SqlObjVerif.PyEv.Extracted
open SqlObjVerif.PyMain (R mapR ofOpt dget dhas dset dupdate dictOf sortByKey insByKey Exc FnKind)

/-- what flushing the postponed thunks `ts` adds to the log -/
def flushLog (ts : List Thunk) : List (Nat × Entry) :=
  ts.flatMap fun t => tagLog t.lvl (createdLog t.cfg (t.selfId.getD 0))

/-- the `for func in _postponed_local.postponed_calls: func()` loop reaches every thunk, in order -/
theorem flush_loop (fuel : Nat) (create : World → List PV → PDict → Outcome) (ts : List Thunk)
    (hg : ∀ t ∈ ts, ∃ i, GoodThunk t i) : ∀ (n i : Nat) (st : St), st.w.postponed = some ts → ts.length - i < n →
    ∃ vs', idxLoop (bindIdx 3 fun st' => Block.exec (evOps fuel) (initCalls fuel create) st' init_for1) n i st
      = .norm { st with w := { st.w with log := st.w.log ++ flushLog (ts.drop i) }, vars := vs' } := by
  intro n
  induction n with
  | zero => intro i st _ h; omega
  | succ n ih =>
    intro i st hp hn
    obtain ⟨⟨c, lvl, rows, nextId, o, pp, log⟩, vars, lists, dicts⟩ := st
    simp only at hp
    subst hp
    by_cases hi : i < ts.length
    · have hti : ts[i]? = some ts[i] := List.getElem?_eq_getElem hi
      obtain ⟨j, hj⟩ := hg ts[i] (List.getElem_mem hi)
      have hsid : (ts[i]).selfId = some j := hj.2.1
      obtain ⟨vs', h'⟩ := ih (i + 1)
        { w := { c := c, lvl := lvl, rows := rows, nextId := nextId, o := o, postponed := some ts, log := log ++ tagLog (ts[i]).lvl (createdLog (ts[i]).cfg j) }, vars := vars.put 3 (.thunkAt i), lists := lists, dicts := dicts }
        rfl (by omega)
      refine ⟨vs', ?_⟩
      have hstep : (bindIdx 3 fun st' => Block.exec (evOps fuel) (initCalls fuel create) st' init_for1)
          { w := { c := c, lvl := lvl, rows := rows, nextId := nextId, o := o, postponed := some ts, log := log }, vars := vars, lists := lists, dicts := dicts } i =
          .norm { w := { c := c, lvl := lvl, rows := rows, nextId := nextId, o := o, postponed := some ts, log := log ++ tagLog (ts[i]).lvl (createdLog (ts[i]).cfg j) }, vars := vars.put 3 (.thunkAt i), lists := lists, dicts := dicts } := by
        evwith [init_for1, hti, thunkCall_run fuel _ j _ hj]
      rw [idxLoop]
      dsimp only
      rw [if_pos hi, hstep]
      dsimp only
      rw [h']
      have hd : ts.drop i = ts[i] :: ts.drop (i + 1) := (List.drop_eq_getElem_cons hi)
      simp only [flushLog]
      rw [hd, List.flatMap_cons, hsid]
      simp only [Option.getD_some, List.append_assoc]
    · have hd : ts.drop i = [] := List.drop_eq_nil_of_le (by omega)
      refine ⟨vars, ?_⟩
      rw [idxLoop]
      simp [hi, hd, flushLog]


theorem flush_loop' {fuel : Nat} {create : World → List PV → PDict → Outcome} {n : Nat} {st : St} {r : Res}
    (hF : idxLoop (bindIdx 3 fun st' => Block.exec (evOps fuel) (initCalls fuel create) st' init_for1) n 0 st = r)
    (ts : List Thunk) (hg : ∀ t ∈ ts, ∃ i, GoodThunk t i) (hp : st.w.postponed = some ts) (hn : ts.length < n) :
    ∃ vs', r = .norm { st with w := { st.w with log := st.w.log ++ flushLog ts }, vars := vs' } := by
  obtain ⟨vs', h⟩ := flush_loop fuel create ts hg n 0 st hp (by omega)
  exact ⟨vs', by rw [← hF, h]; simp⟩

/-- the world `__init__` hands to `_create`: the RowCreateSignal delivered, the thread-local list in place -/
def initW (w : World) (D : Kw × List Nat × List Entry) (pp : List Thunk) : World :=
  { w with log := w.log ++ tagLog w.lvl D.2.2, postponed := some pp }

/-- the callbacks appended on RowCreateSignal ran for row `i` -/
def withPosts (w2 : World) (pf : List Nat) (i : Nat) : World :=
  { w2 with log := w2.log ++ tagLog w2.lvl (pf.map fun p => Entry.post p i) }

/-- a NESTED constructor (the thread-local list exists): RowCreateSignal, `_create` (a parameter), the callbacks; no flush -/
theorem initX_nested (fuel : Nat) (create : World → List PV → PDict → Outcome) (w : World) (l : List Thunk) (kw0 : Kw)
    (ho : w.o = newObj) (hpp : w.postponed = some l) (w2 : World) (i : Nat)
    (hc : create (initW w (deliver .create none 0 w.c.listeners kw0 []) l) [.none]
            (kwPV (deliver .create none 0 w.c.listeners kw0 []).1) = .ret w2 .none)
    (hid : w2.o.id = some i) :
    initX fuel create w (kwPV kw0) = .ret (withPosts w2 (deliver .create none 0 w.c.listeners kw0 []).2.1 i) .none := by
  obtain ⟨c, lvl, rows, nextId, o, pp, log⟩ := w
  simp only at ho hpp
  subst ho hpp
  unfold initX initProg
  evwith [newObj]
  generalize deliver Sig.create none 0 c.listeners kw0 [] = D at hc ⊢
  generalize hcx : create _ [PV.none] (kwPV D.1) = out
  have : out = .ret w2 .none := hcx.symm.trans hc
  subst this
  evwith []
  generalize hF : forLoop _ _ _ = r
  obtain ⟨vs', rfl, hvs⟩ := post_loop' hF rfl i hid
  clear hF
  have e0 : vs' 0 = some (.bool false) := by rw [hvs 0 (by decide)]; simp
  evwith [e0, withPosts]


/-- after the outermost constructor's `finally:`: every postponed thunk ran, the thread-local list is gone -/
def flushed (w3 : World) (ts : List Thunk) : World :=
  { w3 with log := w3.log ++ flushLog ts, postponed := none }

/-- the OUTERMOST constructor (no thread-local list): it creates the list, and its `finally:` flushes and deletes it -/
theorem initX_outer (fuel : Nat) (create : World → List PV → PDict → Outcome) (w : World) (kw0 : Kw)
    (ho : w.o = newObj) (hpp : w.postponed = none) (w2 : World) (i : Nat) (ts : List Thunk)
    (hc : create (initW w (deliver .create none 0 w.c.listeners kw0 []) []) [.none]
            (kwPV (deliver .create none 0 w.c.listeners kw0 []).1) = .ret w2 .none)
    (hid : w2.o.id = some i) (hp2 : w2.postponed = some ts) (hg : ∀ t ∈ ts, ∃ j, GoodThunk t j) (hfuel : ts.length < fuel) :
    initX fuel create w (kwPV kw0)
      = .ret (flushed (withPosts w2 (deliver .create none 0 w.c.listeners kw0 []).2.1 i) ts) .none := by
  obtain ⟨c, lvl, rows, nextId, o, pp, log⟩ := w
  simp only at ho hpp
  subst ho hpp
  unfold initX initProg
  evwith [newObj]
  generalize deliver Sig.create none 0 c.listeners kw0 [] = D at hc ⊢
  generalize hcx : create _ [PV.none] (kwPV D.1) = out
  have : out = .ret w2 .none := hcx.symm.trans hc
  subst this
  evwith []
  generalize hF : forLoop _ _ _ = r
  obtain ⟨vs', rfl, hvs⟩ := post_loop' hF rfl i hid
  clear hF
  have e0 : vs' 0 = some (.bool true) := by rw [hvs 0 (by decide)]; simp
  evwith [e0, hp2]
  generalize hF : idxLoop _ _ _ _ = r
  obtain ⟨vs2, rfl⟩ := flush_loop' hF ts hg rfl hfuel
  clear hF
  evwith [hp2, flushed, withPosts]

end SqlObjVerif.Events
