import SqlObjVerif.Lemmas.FailDestroyXBase
/-!
C06, translated `destroySelf`, part 2: the small loops of one iteration of the loop over the dependent classes — the
related joins of the dependent class (`for2_loop` = `Fail.freeLinksSeg`, segment (c)), the loop that builds `query`
and `restrict` (`for3_loop`), the one that collects the `cascade='null'` columns in the dict `setnull` (`for4_loop`)
and the one that computes `delete` (`for7_loop`).  The last three send nothing and cannot raise.
-/
namespace SqlObjVerif.FailDX
open SqlObjVerif.PyDestroy (Val Const Exc R CallRes Expr Exprs Cond Stmt Block Env St Res forLoop zipKw pyBool
  lenOf keysOf pairsOf vlSnoc isListVal vdSet starKwOf afterCall)
open SqlObjVerif.PyDestroyF
open SqlObjVerif.PyDestroy.Extracted
open SqlObjVerif.Fail (Err Schema Inj Pol Col Join Cls clsOf colOf fkCols Mem In)
open SqlObjVerif.PyFail (sendStmt memStep)

variable (sch : Schema) (inj : Option Inj) (recC : Nat → Nat → Fail.St → CallRes Hnd Fail.St) (c id : Nat)

/-- the column objects `findDependantColumns` returns -/
def colV (c k : Nat) (a : Nat × Pol) : PVal := .obj (.col k a.1 (some (c, a.2)))

theorem for2_step (j : Join) (s : Fail.St) (env : Env Hnd) (h1 : env 1 = some (.obj (.cls c))) : ∃ envA,
    execB (dIface sch inj recC c id) (St.setVar ⟨s, env⟩ 2 (.obj (.join j))) destroySelf_for2 =
      resSt envA (if j.other == c then sendStmt sch inj (.delLinks j.tab (!j.side) id) s else (s, none)) ∧
    ∀ x, x ≠ 2 → x ≠ 3 → envA x = env x := by
  by_cases hj : j.other = c
  · refine ⟨(env.put 2 (.obj (.join j))).put 3 (.app "%" (.cons (.str "DELETE FROM %s WHERE %s=%d") (.cons (.obj (.tbl j.tab)) (.cons (.obj (.lcol (!j.side))) (.cons (.int id) .nil))))), ?_, ?_⟩
    · unfold destroySelf_for2
      fdrun
      simp only [Val.ofList, fCall_delete, afterCall_outCall]
      rcases sendStmt sch inj (.delLinks j.tab (!j.side) id) s with ⟨s1, _ | e⟩ <;> simp
    · intro x hx2 hx3; simp [hx2, hx3]
  · refine ⟨env.put 2 (.obj (.join j)), ?_, ?_⟩
    · unfold destroySelf_for2
      fdrun
    · intro x hx2 hx3; simp [hx2]

/-- **segment (c)**: the loop over the related joins of dependent class `k` is `Fail.freeLinksSeg` -/
theorem for2_loop (js : List Join) :
    ∀ (s : Fail.St) (env : Env Hnd), env 1 = some (.obj (.cls c)) → ∃ env',
      forLoop (fun st a => execB (dIface sch inj recC c id) (st.setVar 2 a) destroySelf_for2) (js.map fun j => .obj (.join j)) ⟨s, env⟩ =
        resSt env' (Fail.run sch inj ((js.filter fun j => j.other == c).foldr
          (fun j acc => .stmt (.delLinks j.tab (!j.side) id) acc) .done) s) ∧
      ∀ x, x ≠ 2 → x ≠ 3 → env' x = env x := by
  induction js with
  | nil => intro s env _; exact ⟨env, by simp [forLoop, run_done], fun _ _ _ => rfl⟩
  | cons j js ih =>
    intro s env h1
    obtain ⟨envA, hA, hAf⟩ := for2_step sch inj recC c id j s env h1
    have hA1 : envA 1 = some (.obj (.cls c)) := by rw [hAf 1 (by decide) (by decide)]; exact h1
    simp only [List.map_cons, forLoop, hA, List.filter_cons]
    by_cases hj : (j.other == c) = true
    · simp only [hj, if_true, List.foldr_cons, run_stmt]
      rcases sendStmt sch inj (.delLinks j.tab (!j.side) id) s with ⟨s1, _ | e⟩
      · obtain ⟨env', e1, e2⟩ := ih s1 envA hA1
        exact ⟨env', by simpa using e1, fun x hx2 hx3 => by rw [e2 x hx2 hx3, hAf x hx2 hx3]⟩
      · exact ⟨envA, rfl, hAf⟩
    · simp only [hj, Bool.false_eq_true, if_false]
      obtain ⟨env', e1, e2⟩ := ih s envA hA1
      exact ⟨env', by simpa using e1, fun x hx2 hx3 => by rw [e2 x hx2 hx3, hAf x hx2 hx3]⟩

/-- `for _col in cols`: build `query` and `restrict` -/
theorem for3_step (k : Nat) (a : Nat × Pol) (s : Fail.St) (env : Env Hnd) (q r : List PVal) (h5 : env 5 = some (.obj (.cls k)))
    (h7 : env 7 = some (Val.ofList q)) (h8 : env 8 = some (Val.ofList r)) : ∃ envA,
    execB (dIface sch inj recC c id) (St.setVar ⟨s, env⟩ 9 (colV c k a)) destroySelf_for3 = .norm ⟨s, envA⟩ ∧
    envA 7 = some (Val.ofList (q ++ [atomV k id a.1])) ∧
    envA 8 = some (Val.ofList (r ++ if a.2 = .restrict then [atomV k id a.1] else [])) ∧
    ∀ x, x ≠ 7 → x ≠ 8 → x ≠ 9 → envA x = env x := by
  by_cases hp : a.2 = .restrict
  · refine ⟨((env.put 9 (colV c k a)).put 7 (Val.ofList (q ++ [atomV k id a.1]))).put 8 (Val.ofList (r ++ [atomV k id a.1])), ?_, ?_, ?_, ?_⟩
    · unfold destroySelf_for3 colV
      fdrun
      simp [atomV]
    · simp
    · simp [hp]
    · intro x h7 h8 h9; simp [h7, h8, h9]
  · refine ⟨(env.put 9 (colV c k a)).put 7 (Val.ofList (q ++ [atomV k id a.1])), ?_, ?_, ?_, ?_⟩
    · unfold destroySelf_for3 colV
      fdrun
      simp [atomV]
    · simp
    · simp [hp, h8]
    · intro x h7 h8 h9; simp [h7, h9]

theorem for3_loop (k : Nat) (fk : List (Nat × Pol)) (s : Fail.St) :
    ∀ (env : Env Hnd) (q r : List PVal), env 5 = some (.obj (.cls k)) → env 7 = some (Val.ofList q) → env 8 = some (Val.ofList r) →
    ∃ env', forLoop (fun st a => execB (dIface sch inj recC c id) (st.setVar 9 a) destroySelf_for3) (fk.map (colV c k)) ⟨s, env⟩ =
        .norm ⟨s, env'⟩ ∧
      env' 7 = some (Val.ofList (q ++ fk.map fun a => atomV k id a.1)) ∧
      env' 8 = some (Val.ofList (r ++ (Fail.restrictCols fk).map fun a => atomV k id a.1)) ∧
      ∀ x, x ≠ 7 → x ≠ 8 → x ≠ 9 → env' x = env x := by
  induction fk with
  | nil => intro env q r _ h7 h8; exact ⟨env, rfl, by simpa using h7, by simpa [Fail.restrictCols] using h8, fun _ _ _ _ => rfl⟩
  | cons a fk ih =>
    intro env q r h5 h7 h8
    obtain ⟨envA, hA, a7, a8, af⟩ := for3_step sch inj recC c id k a s env q r h5 h7 h8
    simp only [List.map_cons, forLoop, hA]
    obtain ⟨env', e1, e7, e8, ef⟩ := ih envA _ _ (by rw [af 5 (by decide) (by decide) (by decide)]; exact h5) a7 a8
    refine ⟨env', e1, by simpa using e7, ?_, fun x x7 x8 x9 => by rw [ef x x7 x8 x9, af x x7 x8 x9]⟩
    rw [e8]
    by_cases hp : a.2 = .restrict <;> simp [Fail.restrictCols, hp]

/-- the body of a dict `{name f: None, …}` -/
def dbody (ns : List Nat) : PVal := Val.ofList (ns.map fun f => .pair (.obj (.name f)) .none)

def addKey (f : Nat) (ns : List Nat) : List Nat := if f ∈ ns then ns else ns ++ [f]

def addKeys (ns : List Nat) (fs : List Nat) : List Nat := fs.foldl (fun ns f => addKey f ns) ns

theorem vdSet_dbody (f : Nat) (ns : List Nat) : vdSet (.obj (.name f)) .none (dbody ns) = dbody (addKey f ns) := by
  induction ns with
  | nil => rfl
  | cons g ns ih =>
    unfold dbody at ih ⊢
    by_cases h : g = f
    · subst h; simp [addKey, vdSet, Val.ofList]
    · have h' : ¬ f = g := fun e => h e.symm
      simp only [List.map_cons, Val.ofList, vdSet, Val.obj.injEq, Hnd.name.injEq, h, if_false, ih]
      by_cases hm : f ∈ ns <;> simp [addKey, hm, h', Val.ofList]

@[simp] theorem isListVal_dbody (ns : List Nat) : isListVal (dbody ns) = true := by
  simp [dbody, isListVal_ofList]

theorem mem_addKey {f g : Nat} {ns : List Nat} : g ∈ addKey f ns ↔ g = f ∨ g ∈ ns := by
  unfold addKey; by_cases h : f ∈ ns <;> simp [h] <;> grind

theorem mem_addKeys {g : Nat} {fs : List Nat} : ∀ {ns : List Nat}, g ∈ addKeys ns fs ↔ g ∈ ns ∨ g ∈ fs := by
  induction fs with
  | nil => simp [addKeys]
  | cons f fs ih => intro ns; simp only [addKeys, List.foldl_cons] at ih ⊢; rw [ih, mem_addKey]; simp; grind

/-- distinct new keys are appended in order -/
theorem addKeys_nodup (fs : List Nat) : ∀ (ns : List Nat), fs.Nodup → (∀ x ∈ fs, x ∉ ns) → addKeys ns fs = ns ++ fs := by
  induction fs with
  | nil => intro ns _ _; simp [addKeys]
  | cons f fs ih =>
    intro ns hnd hdis
    have hf : f ∉ ns := hdis f (by simp)
    rw [List.nodup_cons] at hnd
    have hk : addKey f ns = ns ++ [f] := by simp [addKey, hf]
    simp only [addKeys, List.foldl_cons, hk]
    have := ih (ns ++ [f]) hnd.2 (fun x hx => by
      simp only [List.mem_append, List.mem_singleton, not_or]
      exact ⟨hdis x (by simp [hx]), fun e => hnd.1 (e ▸ hx)⟩)
    simp only [addKeys] at this
    rw [this]; simp

/-- `for _col in cols`: collect the `cascade='null'` columns -/
theorem for4_step (k : Nat) (a : Nat × Pol) (s : Fail.St) (env : Env Hnd) (ns : List Nat) (h11 : env 11 = some (.dict (dbody ns))) : ∃ envA,
    execB (dIface sch inj recC c id) (St.setVar ⟨s, env⟩ 9 (colV c k a)) destroySelf_for4 = .norm ⟨s, envA⟩ ∧
    envA 11 = some (.dict (dbody (if a.2 = .null then addKey a.1 ns else ns))) ∧
    ∀ x, x ≠ 9 → x ≠ 11 → envA x = env x := by
  by_cases hp : a.2 = .null
  · refine ⟨(env.put 9 (colV c k a)).put 11 (.dict (dbody (addKey a.1 ns))), ?_, ?_, ?_⟩
    · unfold destroySelf_for4 colV
      fdrun
      simp [vdSet_dbody]
    · simp [hp]
    · intro x h9 h11; simp [h9, h11]
  · refine ⟨env.put 9 (colV c k a), ?_, ?_, ?_⟩
    · unfold destroySelf_for4 colV
      fdrun
    · simp [hp, h11]
    · intro x h9 h11; simp [h9]

theorem for4_loop (k : Nat) (fk : List (Nat × Pol)) (s : Fail.St) :
    ∀ (env : Env Hnd) (ns : List Nat), env 11 = some (.dict (dbody ns)) →
    ∃ env', forLoop (fun st a => execB (dIface sch inj recC c id) (st.setVar 9 a) destroySelf_for4) (fk.map (colV c k)) ⟨s, env⟩ =
        .norm ⟨s, env'⟩ ∧
      env' 11 = some (.dict (dbody (addKeys ns (Fail.nullCols fk)))) ∧
      ∀ x, x ≠ 9 → x ≠ 11 → env' x = env x := by
  induction fk with
  | nil => intro env ns h; exact ⟨env, rfl, by simpa [Fail.nullCols, addKeys] using h, fun _ _ _ => rfl⟩
  | cons a fk ih =>
    intro env ns h11
    obtain ⟨envA, hA, a11, af⟩ := for4_step sch inj recC c id k a s env ns h11
    simp only [List.map_cons, forLoop, hA]
    obtain ⟨env', e1, e11, ef⟩ := ih envA _ a11
    refine ⟨env', e1, ?_, fun x x9 x11 => by rw [ef x x9 x11, af x x9 x11]⟩
    rw [e11]
    by_cases hp : a.2 = .null <;> simp [Fail.nullCols, addKeys, hp]

/-- `for _col in cols`: is there a `cascade=True` column? -/
theorem for7_step (k : Nat) (a : Nat × Pol) (s : Fail.St) (env : Env Hnd) (b : Bool) (h15 : env 15 = some (.bool b)) : ∃ envA,
    execB (dIface sch inj recC c id) (St.setVar ⟨s, env⟩ 9 (colV c k a)) destroySelf_for7 = .norm ⟨s, envA⟩ ∧
    envA 15 = some (.bool (b || a.2 == .cascade)) ∧
    ∀ x, x ≠ 9 → x ≠ 15 → envA x = env x := by
  by_cases hp : a.2 = .cascade
  · refine ⟨(env.put 9 (colV c k a)).put 15 (.bool true), ?_, ?_, ?_⟩
    · unfold destroySelf_for7 colV
      fdrun
    · simp [hp]
    · intro x h9 h15; simp [h9, h15]
  · refine ⟨env.put 9 (colV c k a), ?_, ?_, ?_⟩
    · unfold destroySelf_for7 colV
      fdrun
    · simp [hp, h15]
    · intro x h9 h15; simp [h9]

theorem for7_loop (k : Nat) (fk : List (Nat × Pol)) (s : Fail.St) :
    ∀ (env : Env Hnd) (b : Bool), env 15 = some (.bool b) →
    ∃ env', forLoop (fun st a => execB (dIface sch inj recC c id) (st.setVar 9 a) destroySelf_for7) (fk.map (colV c k)) ⟨s, env⟩ =
        .norm ⟨s, env'⟩ ∧
      env' 15 = some (.bool (b || Fail.hasCascade fk)) ∧
      ∀ x, x ≠ 9 → x ≠ 15 → env' x = env x := by
  induction fk with
  | nil => intro env b h; exact ⟨env, rfl, by simpa [Fail.hasCascade] using h, fun _ _ _ => rfl⟩
  | cons a fk ih =>
    intro env b h15
    obtain ⟨envA, hA, a15, af⟩ := for7_step sch inj recC c id k a s env b h15
    simp only [List.map_cons, forLoop, hA]
    obtain ⟨env', e1, e15, ef⟩ := ih envA _ a15
    refine ⟨env', e1, ?_, fun x x9 x15 => by rw [ef x x9 x15, af x x9 x15]⟩
    rw [e15]
    simp [Fail.hasCascade, Bool.or_assoc]

end SqlObjVerif.FailDX
