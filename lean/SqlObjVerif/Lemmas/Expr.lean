import SqlObjVerif.Model.Expr
/-!
# C03 — lemmas: the reference parser inverts `rend` for every precedence table; rendering of the object
graph is `rend ∘ toT`; the SQLite-style value of the parsed text is the three-valued value of the source tree.
-/
namespace SqlObjVerif.Expr

theorem T.size_pos (e : T) : 0 < e.size := by cases e <;> simp [T.size] <;> omega

def Stops : List Tok → Prop
  | Tok.op _ :: _ => False
  | Tok.kwIn :: _ => False
  | _ => True

theorem loop_stops (P : Prec) (f m : Nat) (lhs : T) (rest : List Tok) (h : Stops rest) :
    parseLoop P (f+1) m lhs rest = some (lhs, rest) := by
  unfold parseLoop
  cases rest with
  | nil => rfl
  | cons t ts => cases t <;> simp_all [Stops]

def lbody : T → List Tok
  | .nil => [Tok.rp]
  | .cons h t => rend false h ++ rend true t
  | _ => []

theorem rend_list (t : T) (h : wf true t = true) : rend false t = Tok.lp :: lbody t := by
  cases t <;> simp_all [wf, rend, lbody]

theorem stops_tail (t : T) (rest : List Tok) (h : wf true t = true) : Stops (rend true t ++ rest) := by
  cases t <;> simp_all [wf, rend, Stops]

theorem head_expr (t : T) (h : wf false t = true) : ∃ a s, rend false t = a :: s ∧ a ≠ Tok.rp := by
  cases t <;> simp_all [wf, rend]

theorem parseList_item (P : Prec) (fuel : Nat) (ts : List Tok) (a : Tok) (s : List Tok)
    (h : ts = a :: s) (ha : a ≠ Tok.rp) :
    parseList P (fuel+1) ts =
      match parseExpr P fuel 0 ts with
      | some (e, rest) =>
        match parseTail P fuel rest with
        | some (t, rest') => some (T.cons e t, rest')
        | none => none
      | none => none := by
  subst h
  rw [parseList]
  · rfl
  · intro rest hr
    injection hr with h1 _
    exact ha h1

theorem wrap_bin (o l r) : wrapS (rend false (T.bin o l r)) = rend false (T.bin o l r) := by
  simp [rend, wrapS]
theorem wrap_isin (x l) : wrapS (rend false (T.isin x l)) = rend false (T.isin x l) := by
  simp [rend, wrapS]

theorem parse_rend_aux (P : Prec) (t : T) :
    (wf false t = true →
      (∀ fuel m rest, 6 * t.size ≤ fuel → Stops rest →
        parseExpr P fuel m (rend false t ++ rest) = some (t, rest)) ∧
      (∀ fuel rest, 6 * t.size + 1 ≤ fuel →
        parsePrim P fuel (wrapS (rend false t) ++ rest) = some (t, rest))) ∧
    (wf true t = true →
      (∀ fuel rest, 6 * t.size ≤ fuel →
        parseTail P fuel (rend true t ++ rest) = some (t, rest)) ∧
      (∀ fuel rest, 6 * t.size ≤ fuel →
        parseList P fuel (lbody t ++ rest) = some (t, rest))) := by
  induction t with
  | col c =>
    refine ⟨fun _ => ?_, by simp [wf]⟩
    have hA : ∀ fuel m rest, 6 * (T.col c).size ≤ fuel → Stops rest →
        parseExpr P fuel m (rend false (T.col c) ++ rest) = some (T.col c, rest) := by
      intro fuel m rest hf hs
      simp [T.size] at hf
      obtain ⟨k, rfl⟩ : ∃ k, fuel = k + 2 := ⟨fuel - 2, by omega⟩
      simp [rend, parseExpr, parsePrim, loop_stops P k m _ rest hs]
    refine ⟨hA, ?_⟩
    intro fuel rest hf
    simp [T.size] at hf
    obtain ⟨k, rfl⟩ : ∃ k, fuel = k + 1 := ⟨fuel - 1, by omega⟩
    have := hA k 0 (Tok.rp :: rest) (by simp [T.size]; omega) (by simp [Stops])
    simp [rend] at this
    simp [rend, wrapS, parsePrim, this]
  | num n =>
    refine ⟨fun _ => ?_, by simp [wf]⟩
    have hA : ∀ fuel m rest, 6 * (T.num n).size ≤ fuel → Stops rest →
        parseExpr P fuel m (rend false (T.num n) ++ rest) = some (T.num n, rest) := by
      intro fuel m rest hf hs
      simp [T.size] at hf
      obtain ⟨k, rfl⟩ : ∃ k, fuel = k + 2 := ⟨fuel - 2, by omega⟩
      simp [rend, parseExpr, parsePrim, loop_stops P k m _ rest hs]
    refine ⟨hA, ?_⟩
    intro fuel rest hf
    simp [T.size] at hf
    obtain ⟨k, rfl⟩ : ∃ k, fuel = k + 1 := ⟨fuel - 1, by omega⟩
    have := hA k 0 (Tok.rp :: rest) (by simp [T.size]; omega) (by simp [Stops])
    simp [rend] at this
    simp [rend, wrapS, parsePrim, this]
  | null =>
    refine ⟨fun _ => ⟨?_, ?_⟩, by simp [wf]⟩
    · intro fuel m rest hf hs
      simp [T.size] at hf
      obtain ⟨k, rfl⟩ : ∃ k, fuel = k + 2 := ⟨fuel - 2, by omega⟩
      simp [rend, parseExpr, parsePrim, loop_stops P k m _ rest hs]
    · intro fuel rest hf
      simp [T.size] at hf
      obtain ⟨k, rfl⟩ : ∃ k, fuel = k + 1 := ⟨fuel - 1, by omega⟩
      simp [rend, wrapS, parsePrim]
  | bin o l r ihl ihr =>
    refine ⟨fun hw => ?_, by simp [wf]⟩
    simp only [wf, Bool.and_eq_true] at hw
    have ihl := ihl.1 hw.1
    have ihr := ihr.1 hw.2
    have hB : ∀ fuel rest, 6 * (T.bin o l r).size ≤ fuel + 1 →
        parsePrim P fuel (rend false (T.bin o l r) ++ rest) = some (T.bin o l r, rest) := by
      intro fuel rest hf
      simp [T.size] at hf
      have hl := T.size_pos l
      have hr := T.size_pos r
      obtain ⟨k, rfl⟩ : ∃ k, fuel = k + 6 := ⟨fuel - 6, by omega⟩
      simp only [rend, List.cons_append, List.append_assoc, List.nil_append]
      rw [parsePrim, parseExpr]
      rw [ihl.2 _ _ (by omega)]
      dsimp only
      rw [parseLoop]
      simp only [Nat.zero_le, ge_iff_le, if_true]
      rw [parseExpr]
      rw [ihr.2 _ _ (by omega)]
      dsimp only
      rw [loop_stops P _ _ _ _ (by simp [Stops])]
      dsimp only
      rw [loop_stops P _ _ _ _ (by simp [Stops])]
    constructor
    · intro fuel m rest hf hs
      obtain ⟨k, rfl⟩ : ∃ k, fuel = k + 2 := ⟨fuel - 2, by simp [T.size] at hf; omega⟩
      rw [parseExpr, hB (k+1) rest (by omega)]
      dsimp only
      exact loop_stops P k m _ rest hs
    · intro fuel rest hf
      rw [wrap_bin]
      exact hB fuel rest (by omega)
  | un p t iht =>
    refine ⟨fun hw => ?_, by simp [wf]⟩
    simp only [wf] at hw
    have iht := iht.1 hw
    have hA : ∀ fuel m rest, 6 * (T.un p t).size ≤ fuel + 1 → Stops rest →
        parseExpr P fuel m (rend false (T.un p t) ++ rest) = some (T.un p t, rest) := by
      intro fuel m rest hf hs
      simp [T.size] at hf
      obtain ⟨k, rfl⟩ : ∃ k, fuel = k + 3 := ⟨fuel - 3, by omega⟩
      simp only [rend, List.cons_append]
      rw [parseExpr, parsePrim, iht.1 _ _ _ (by omega) hs]
      dsimp only
      exact loop_stops P (k+1) m _ rest hs
    constructor
    · intro fuel m rest hf hs; exact hA fuel m rest (by omega) hs
    · intro fuel rest hf
      simp [T.size] at hf
      obtain ⟨k, rfl⟩ : ∃ k, fuel = k + 1 := ⟨fuel - 1, by omega⟩
      have := hA k 0 (Tok.rp :: rest) (by simp [T.size]; omega) (by simp [Stops])
      simp only [rend, List.cons_append] at this
      simp only [rend, wrapS, List.cons_append, List.append_assoc, List.nil_append]
      rw [parsePrim]
      try dsimp only
      rw [this]
  | isin x l ihx ihl =>
    refine ⟨fun hw => ?_, by simp [wf]⟩
    simp only [wf, Bool.and_eq_true] at hw
    have ihx := ihx.1 hw.1
    have ihl := ihl.2 hw.2
    have hB : ∀ fuel rest, 6 * (T.isin x l).size ≤ fuel + 1 →
        parsePrim P fuel (rend false (T.isin x l) ++ rest) = some (T.isin x l, rest) := by
      intro fuel rest hf
      simp [T.size] at hf
      have hl := T.size_pos l
      have hr := T.size_pos x
      obtain ⟨k, rfl⟩ : ∃ k, fuel = k + 6 := ⟨fuel - 6, by omega⟩
      simp only [rend, rend_list l hw.2, List.cons_append, List.append_assoc, List.nil_append]
      rw [parsePrim, parseExpr]
      rw [ihx.2 _ _ (by omega)]
      dsimp only
      rw [parseLoop]
      simp only [Nat.zero_le, ge_iff_le, if_true]
      rw [ihl.2 _ _ (by omega)]
      dsimp only
      rw [loop_stops P _ _ _ _ (by simp [Stops])]
    constructor
    · intro fuel m rest hf hs
      obtain ⟨k, rfl⟩ : ∃ k, fuel = k + 2 := ⟨fuel - 2, by simp [T.size] at hf; omega⟩
      rw [parseExpr, hB (k+1) rest (by omega)]
      dsimp only
      exact loop_stops P k m _ rest hs
    · intro fuel rest hf
      rw [wrap_isin]
      exact hB fuel rest (by omega)
  | call f a iha =>
    refine ⟨fun hw => ?_, by simp [wf]⟩
    simp only [wf] at hw
    have iha := iha.2 hw
    have hA : ∀ fuel m rest, 6 * (T.call f a).size ≤ fuel + 1 → Stops rest →
        parseExpr P fuel m (rend false (T.call f a) ++ rest) = some (T.call f a, rest) := by
      intro fuel m rest hf hs
      simp [T.size] at hf
      have ha := T.size_pos a
      obtain ⟨k, rfl⟩ : ∃ k, fuel = k + 3 := ⟨fuel - 3, by omega⟩
      simp only [rend, rend_list a hw, List.cons_append]
      rw [parseExpr, parsePrim, iha.2 _ _ (by omega)]
      dsimp only
      exact loop_stops P (k+1) m _ rest hs
    constructor
    · intro fuel m rest hf hs; exact hA fuel m rest (by omega) hs
    · intro fuel rest hf
      simp [T.size] at hf
      obtain ⟨k, rfl⟩ : ∃ k, fuel = k + 1 := ⟨fuel - 1, by omega⟩
      have := hA k 0 (Tok.rp :: rest) (by simp [T.size]; omega) (by simp [Stops])
      simp only [rend, List.cons_append] at this
      simp only [rend, wrapS, List.cons_append, List.append_assoc, List.nil_append]
      rw [parsePrim]
      try dsimp only
      rw [this]
  | nil =>
    refine ⟨by simp [wf], fun _ => ⟨?_, ?_⟩⟩
    · intro fuel rest hf
      simp [T.size] at hf
      obtain ⟨k, rfl⟩ : ∃ k, fuel = k + 1 := ⟨fuel - 1, by omega⟩
      simp [rend, parseTail]
    · intro fuel rest hf
      simp [T.size] at hf
      obtain ⟨k, rfl⟩ : ∃ k, fuel = k + 1 := ⟨fuel - 1, by omega⟩
      simp [lbody, parseList]
  | cons h t ihh iht =>
    refine ⟨by simp [wf], fun hw => ?_⟩
    simp only [wf, Bool.and_eq_true] at hw
    have ihh := ihh.1 hw.1
    have iht := iht.2 hw.2
    have hh := T.size_pos h
    have ht := T.size_pos t
    constructor
    · intro fuel rest hf
      simp [T.size] at hf
      obtain ⟨k, rfl⟩ : ∃ k, fuel = k + 1 := ⟨fuel - 1, by omega⟩
      simp only [rend, List.cons_append, List.append_assoc]
      rw [parseTail, ihh.1 _ _ _ (by omega) (stops_tail t rest hw.2)]
      dsimp only
      rw [iht.1 _ _ (by omega)]
    · intro fuel rest hf
      simp [T.size] at hf
      obtain ⟨k, rfl⟩ : ∃ k, fuel = k + 1 := ⟨fuel - 1, by omega⟩
      obtain ⟨a, s, h1, h2⟩ := head_expr h hw.1
      simp only [lbody, List.append_assoc]
      rw [parseList_item P k _ a (s ++ (rend true t ++ rest)) (by simp [h1]) h2]
      rw [ihh.1 _ _ _ (by omega) (stops_tail t rest hw.2)]
      dsimp only
      rw [iht.1 _ _ (by omega)]

theorem parse_rend (P : Prec) (t : T) (h : wf false t = true) (fuel : Nat) (hf : 6 * t.size ≤ fuel) :
    parseExpr P fuel 0 (rend false t) = some (t, []) := by
  have := ((parse_rend_aux P t).1 h).1 fuel 0 [] hf (by simp [Stops])
  simpa using this



/-! ## token length bounds the fuel; `render` is the concrete syntax of `toT` -/

theorem wrapS_length (s : List Tok) : s.length ≤ (wrapS s).length := by
  unfold wrapS
  split <;> simp <;> omega

theorem size_le_length (t : T) : ∀ b, t.size ≤ (rend b t).length := by
  induction t with
  | col c => intro b; cases b <;> simp [rend, T.size]
  | num n => intro b; cases b <;> simp [rend, T.size]
  | null => intro b; cases b <;> simp [rend, T.size]
  | bin o l r ihl ihr =>
    intro b
    have h1 := wrapS_length (rend false l)
    have h2 := wrapS_length (rend false r)
    have := ihl false; have := ihr false
    cases b <;> simp [rend, T.size] <;> omega
  | un p t ih =>
    intro b
    have := ih false
    cases b <;> simp [rend, T.size] <;> omega
  | isin x l ihx ihl =>
    intro b
    have h1 := wrapS_length (rend false x)
    have := ihx false; have := ihl false
    cases b <;> simp [rend, T.size] <;> omega
  | call f a ih =>
    intro b
    have := ih false
    cases b <;> simp [rend, T.size] <;> omega
  | nil => intro b; cases b <;> simp [rend, T.size]
  | cons h t ihh iht =>
    intro b
    have := ihh false; have := iht true
    cases b <;> simp [rend, T.size] <;> omega

theorem parse_rend_top (P : Prec) (t : T) (h : wf false t = true) :
    parse P (rend false t) = some t := by
  unfold parse
  rw [parse_rend P t h _ (by have := size_le_length t false; omega)]

/-- `render` (the mirror of `__sqlrepr__`) is the concrete syntax of `toT` -/
theorem render_eq (d : String) (n : Node) : ∀ b, render d b n = rend b (toT d n) := by
  induction n with
  | field c => intro b; cases b <;> simp [render, toT, rend]
  | int i => intro b; cases b <;> simp [render, toT] <;> split <;> simp [rend]
  | flt n i => intro b; cases b <;> simp [render, toT] <;> split <;> simp [rend]
  | none => intro b; cases b <;> simp [render, toT, rend]
  | sqlop o l r ihl ihr => intro b; cases b <;> simp [render, toT, rend, renderOp, ihl, ihr]
  | sqlin x l ihx ihl => intro b; cases b <;> simp [render, toT, rend, ihx, ihl]
  | modulo l r ihl ihr =>
    intro b
    cases b <;> simp only [render, toT] <;> split <;> simp [rend, renderOp, ihl, ihr]
  | «prefix» p x ih => intro b; cases b <;> simp [render, toT, rend, ih]
  | lnil => intro b; cases b <;> simp [render, toT, rend]
  | lcons h t ihh iht => intro b; cases b <;> simp [render, toT, rend, ihh, iht]



/-! ### shape of what the constructors build -/

theorem wf_applyOv (d : String) (ov : OvBin) (a b : Node) :
    wf false (toT d (applyOv ov a b)) = (wf false (toT d a) && wf false (toT d b)) := by
  unfold applyOv
  split <;> simp [toT, wf, Bool.and_comm]

theorem wf_int (d : String) (i : Int) : wf false (toT d (Node.int i)) = true := by
  simp only [toT]; split <;> simp [wf]

theorem wf_flt (d : String) (n : Bool) (i : Nat) : wf false (toT d (Node.flt n i)) = true := by
  simp only [toT]; split <;> simp [wf]

theorem wf_noneRule (d : String) (rule : NoneRule) (ov : OvBin) (a : Node) (h : wf false (toT d a) = true) :
    wf false (toT d (noneRule rule ov a)) = true := by
  cases rule <;> simp [noneRule, toT, wf, wf_applyOv, h]

def isItems : Srt → Bool
  | .items => true
  | _ => false

theorem wf_build (d : String) {s : Srt} (e : E s) : wf (isItems s) (toT d (build e)) = true := by
  induction e with
  | col c => simp [build, toT, wf, isItems]
  | rcol c => simp [build, toT, wf, isItems]
  | const i => simp only [build, isItems]; exact wf_int d i
  | fconst n i => simp only [build, isItems]; exact wf_flt d n i
  | wconst n i k => simp only [build, isItems]; exact wf_flt d n i
  | ar o l r ihl ihr =>
    simp only [isItems] at ihl ihr ⊢
    simp only [build]
    split
    · simp only [toT]; split <;> simp [wf, ihl, ihr]
    · split <;> simp [wf_applyOv, ihl, ihr]
  | neg x ih => simp only [isItems] at ih ⊢; simp [build, toT, wf, ih]
  | pos x ih => simp only [isItems] at ih ⊢; simp [build, toT, wf, ih]
  | b2i b ih => simp only [isItems] at ih ⊢; simpa [build] using ih
  | cmp o l r ihl ihr =>
    simp only [isItems] at ihl ihr ⊢
    simp only [build]; split <;> simp [wf_applyOv, ihl, ihr]
  | andOp l r ihl ihr => simp only [isItems] at ihl ihr ⊢; simp [build, wf_applyOv, ihl, ihr]
  | orOp l r ihl ihr => simp only [isItems] at ihl ihr ⊢; simp [build, wf_applyOv, ihl, ihr]
  | andFn l r ihl ihr => simp only [isItems] at ihl ihr ⊢; simp [build, toT, wf, ihl, ihr]
  | orFn l r ihl ihr => simp only [isItems] at ihl ihr ⊢; simp [build, toT, wf, ihl, ihr]
  | notOp x ih => simp only [isItems] at ih ⊢; simp [build, toT, wf, ih]
  | notFn x ih => simp only [isItems] at ih ⊢; simp [build, toT, wf, ih]
  | isin x l ihx ihl => simp only [isItems] at ihx ihl ⊢; simp [build, toT, wf, ihx, ihl]
  | notin x l ihx ihl =>
    simp only [isItems] at ihx ihl ⊢
    simp only [build]; split <;> simp [toT, wf, ihx, ihl]
  | isnull x ih => simp only [isItems] at ih ⊢; simp [build, toT, wf, ih]
  | isnotnull x ih => simp only [isItems] at ih ⊢; simp [build, toT, wf, ih]
  | eqNone x ih =>
    simp only [isItems] at ih ⊢
    simp only [build]; split <;> exact wf_noneRule _ _ _ _ ih
  | neNone x ih =>
    simp only [isItems] at ih ⊢
    simp only [build]; split <;> exact wf_noneRule _ _ _ _ ih
  | inil => simp [build, toT, wf, isItems]
  | inull t ih => simp only [isItems] at ih ⊢; simp [build, toT, wf, ih]
  | icons h t ihh iht => simp only [isItems] at ihh iht ⊢; simp [build, toT, wf, ihh, iht]

theorem wf_buildN (d : String) (e : NumE) : wf false (toT d (buildN e)) = true := wf_build d e
theorem wf_buildB (d : String) (e : BoolE) : wf false (toT d (buildB e)) = true := wf_build d e

/-! ## the value of the parsed text is the three-valued value of the source tree -/

theorem truth_b2i (D : Dom) (x : Option Bool) : truth D (x.map (b2i D)) = x := by
  cases x with
  | none => rfl
  | some b => cases b <;> simp [truth, b2i, D.isTrue_one, D.isTrue_zero]

theorem or3_false_left (z : Option Bool) : or3 (some false) z = z := by
  rcases z with _ | _ | _ <;> rfl

def inF (D : Dom) (a : D.V) (ys : List (Option D.V)) : Option Bool :=
  if ys.any (eqItem D a) then some true else if ys.any Option.isNone then none else some false

theorem inSpec_some (D : Dom) (a : D.V) (ys : List (Option D.V)) : inSpec D (some a) ys = inF D a ys := by
  cases ys with
  | nil => simp [inSpec, inF]
  | cons y ys => simp only [inSpec, inF, List.isEmpty_cons, Bool.false_eq_true, if_false]

theorem in3_some (D : Dom) (a : D.V) (ys : List (Option D.V)) : in3 D (some a) ys = inF D a ys := by
  induction ys with
  | nil => simp [in3, inF]
  | cons y ys ih =>
    simp only [in3, ih, inF, List.any_cons]
    cases y with
    | none =>
      simp only [eq3, eqItem, Option.isNone_none, Bool.false_or, Bool.true_or]
      generalize ys.any (eqItem D a) = p
      generalize ys.any Option.isNone = q
      cases p <;> cases q <;> simp [or3]
    | some b =>
      simp only [eq3, eqItem, Option.isNone_some, Bool.false_or]
      cases D.cmp .eq a b
      · simp only [or3_false_left, Bool.false_or]
      · simp [or3]

theorem in3_eq_inSpec (D : Dom) (x : Option D.V) (ys : List (Option D.V)) : in3 D x ys = inSpec D x ys := by
  cases x with
  | some a => rw [in3_some, inSpec_some]
  | none =>
    induction ys with
    | nil => simp [in3, inSpec]
    | cons y ys ih =>
      simp only [in3, ih]
      cases ys <;> simp [inSpec, eq3, or3]

theorem natAbs_neg_cast (i : Int) (h : i < 0) : -((i.natAbs : Nat) : Int) = i := by omega
theorem natAbs_nonneg_cast (i : Int) (h : ¬ i < 0) : ((i.natAbs : Nat) : Int) = i := by omega

theorem ev_int (D : Dom) (r : Row D) (d : String) (i : Int) :
    ev D r (toT d (Node.int i)) = .v (some (D.ofInt i)) := by
  simp only [toT]
  split
  · rename_i h
    simp only [ev, preSem, Option.map, Lit.val, D.neg_ofNat, natAbs_neg_cast i h]
  · rename_i h
    simp only [ev, Lit.val, natAbs_nonneg_cast i h]

theorem ev_flt (D : Dom) (r : Row D) (d : String) (n : Bool) (i : Nat) :
    ev D r (toT d (Node.flt n i)) = .v (some (if n then D.neg (D.flt i) else D.flt i)) := by
  simp only [toT]
  split <;> simp_all [ev, preSem, Lit.val]

theorem ev_applyOv (D : Dom) (r : Row D) (d : String) (ov : OvBin) (a b : Node) (x y : Option D.V)
    (ha : ev D r (toT d a) = .v x) (hb : ev D r (toT d b) = .v y) :
    ev D r (toT d (applyOv ov a b)) = .v (if ov.swapped then binSem D ov.op y x else binSem D ov.op x y) := by
  unfold applyOv
  split <;> simp [toT, ev, ha, hb]

theorem binSem_ar (D : Dom) (o : ArOp) (x y : Option D.V) :
    binSem D (arOv o).op x y = lift2 (D.ar o) x y ∧ (arOv o).swapped = false ∧
    binSem D (arRov o).op x y = lift2 (D.ar o) x y ∧ (arRov o).swapped = true := by
  cases o <;>
    simp [arOv, arRov, Extracted.add, Extracted.sub, Extracted.mul, Extracted.div, Extracted.radd, Extracted.rsub,
      Extracted.rmul, Extracted.rdiv, Extracted.moduloOp, binSem]

theorem lift2_cmp_map (D : Dom) (o : CmpOp) (x y : Option D.V) :
    lift2 (fun a b => some (b2i D (D.cmp o a b))) x y =
      (lift2 (fun a b => some (D.cmp o a b)) x y).map (b2i D) := by
  cases x <;> cases y <;> simp [lift2]

theorem lift2_cmp_flip (D : Dom) (o : CmpOp) (x y : Option D.V) :
    lift2 (fun a b => some (b2i D (D.cmp o.flip a b))) y x =
      (lift2 (fun a b => some (D.cmp o a b)) x y).map (b2i D) := by
  cases x <;> cases y <;> simp [lift2, D.cmp_flip]

theorem binSem_cmp (D : Dom) (f : Bool) (o : CmpOp) (x y : Option D.V) :
    binSem D (cmpOv f o).op x y = (lift2 (fun a b => some (D.cmp o a b)) x y).map (b2i D) ∧
    (cmpOv f o).swapped = false ∧
    binSem D (cmpOv f o.flip).op y x = (lift2 (fun a b => some (D.cmp o a b)) x y).map (b2i D) := by
  refine ⟨?_, ?_, ?_⟩
  · rw [← lift2_cmp_map]
    cases o <;> cases f <;>
      simp [cmpOv, Extracted.lt, Extracted.le, Extracted.gt, Extracted.ge, Extracted.exprEq, Extracted.exprNe,
        Extracted.fieldEq, Extracted.fieldNe, binSem]
  · cases o <;> cases f <;>
      simp [cmpOv, Extracted.lt, Extracted.le, Extracted.gt, Extracted.ge, Extracted.exprEq, Extracted.exprNe,
        Extracted.fieldEq, Extracted.fieldNe]
  · rw [← lift2_cmp_flip]
    cases o <;> cases f <;>
      simp [cmpOv, CmpOp.flip, Extracted.lt, Extracted.le, Extracted.gt, Extracted.ge, Extracted.exprEq, Extracted.exprNe,
        Extracted.fieldEq, Extracted.fieldNe, binSem]

theorem binSem_and (D : Dom) (x y : Option Bool) :
    binSem D .and (x.map (b2i D)) (y.map (b2i D)) = (and3 x y).map (b2i D) := by
  simp [binSem, truth_b2i]

theorem binSem_or (D : Dom) (x y : Option Bool) :
    binSem D .or (x.map (b2i D)) (y.map (b2i D)) = (or3 x y).map (b2i D) := by
  simp [binSem, truth_b2i]

theorem preSem_not (D : Dom) (x : Option Bool) : preSem D .not (x.map (b2i D)) = (not3 x).map (b2i D) := by
  simp [preSem, truth_b2i]

theorem binSem_is_none (D : Dom) (x : Option D.V) : binSem D .is x none = some (b2i D x.isNone) := by
  cases x <;> simp [binSem, isSame]

theorem binSem_isNot_none (D : Dom) (x : Option D.V) : binSem D .isNot x none = some (b2i D x.isSome) := by
  cases x <;> simp [binSem, isSame]

theorem ev_build (D : Dom) (r : Row D) (d : String) {s : Srt} (e : E s) :
    ev D r (toT d (build e)) = embed D s (eval D r e) := by
  induction e with
  | col c => simp [build, toT, ev, eval, embed]
  | rcol c => simp [build, toT, ev, eval, embed]
  | const i => simp only [build, eval, embed]; exact ev_int D r d i
  | fconst n i => simp only [build, eval, embed, litVal]; exact ev_flt D r d n i
  | wconst n i k => simp only [build, eval, embed, litVal]; exact ev_flt D r d n i
  | ar o l x ihl ihx =>
    simp only [embed] at ihl ihx ⊢
    simp only [build, eval]
    split
    · rename_i ho; subst ho
      have hm := (binSem_ar D .mod (eval D r l) (eval D r x)).1
      simp only [arOv] at hm
      simp only [toT]
      split
      · simp [ev, ihl, ihx, hm]
      · simp [ev, ihl, ihx]
        simpa [Extracted.moduloOp] using hm
    · have h := binSem_ar D o
      split
      · rw [ev_applyOv D r d _ _ _ _ _ ihx ihl]
        simp [(h (eval D r l) (eval D r x)).2.2]
      · rw [ev_applyOv D r d _ _ _ _ _ ihl ihx]
        simp [(h (eval D r l) (eval D r x)).1, (h (eval D r l) (eval D r x)).2.1]
  | neg x ih => simp only [embed] at ih ⊢; simp [build, toT, ev, eval, ih, Extracted.negOp, preSem]
  | pos x ih => simp only [embed] at ih ⊢; simp [build, toT, ev, eval, ih, Extracted.posOp, preSem]
  | b2i b ih => simp only [embed] at ih ⊢; simpa [build, eval] using ih
  | cmp o l x ihl ihx =>
    simp only [embed] at ihl ihx ⊢
    simp only [build, eval]
    have h := binSem_cmp D
    split
    · rw [ev_applyOv D r d _ _ _ _ _ ihx ihl]
      simp [(h _ o.flip (eval D r x) (eval D r l)).2.1, (h _ o (eval D r l) (eval D r x)).2.2]
    · rw [ev_applyOv D r d _ _ _ _ _ ihl ihx]
      simp [(h _ o (eval D r l) (eval D r x)).2.1, (h _ o (eval D r l) (eval D r x)).1]
  | andOp l x ihl ihx =>
    simp only [embed] at ihl ihx ⊢
    simp only [build, eval]
    rw [ev_applyOv D r d _ _ _ _ _ ihl ihx]
    simp [Extracted.andOp, binSem_and]
  | orOp l x ihl ihx =>
    simp only [embed] at ihl ihx ⊢
    simp only [build, eval]
    rw [ev_applyOv D r d _ _ _ _ _ ihl ihx]
    simp [Extracted.orOp, binSem_or]
  | andFn l x ihl ihx => simp only [embed] at ihl ihx ⊢; simp [build, eval, toT, ev, ihl, ihx, Extracted.andFn, binSem_and]
  | orFn l x ihl ihx => simp only [embed] at ihl ihx ⊢; simp [build, eval, toT, ev, ihl, ihx, Extracted.orFn, binSem_or]
  | notOp x ih => simp only [embed] at ih ⊢; simp [build, eval, toT, ev, ih, Extracted.invertOp, preSem_not]
  | notFn x ih => simp only [embed] at ih ⊢; simp [build, eval, toT, ev, ih, Extracted.notFn, preSem_not]
  | isin x l ihx ihl => simp only [embed] at ihx ihl ⊢; simp [build, eval, toT, ev, ihx, ihl, in3_eq_inSpec]
  | notin x l ihx ihl =>
    simp only [embed] at ihx ihl ⊢
    simp [build, eval, toT, ev, ihx, ihl, in3_eq_inSpec, Extracted.notinNegates, Extracted.notFn, preSem_not]
  | isnull x ih => simp only [embed] at ih ⊢; simp [build, eval, toT, ev, ih, Extracted.isnullOp, binSem_is_none]
  | isnotnull x ih => simp only [embed] at ih ⊢; simp [build, eval, toT, ev, ih, Extracted.isnotnullOp, binSem_isNot_none]
  | eqNone x ih =>
    simp only [embed] at ih ⊢
    simp only [build, eval]
    split <;> simp [noneRule, Extracted.fieldEqNone, Extracted.exprEqNone, toT, ev, ih, Extracted.isnullOp, binSem_is_none]
  | neNone x ih =>
    simp only [embed] at ih ⊢
    simp only [build, eval]
    split <;> simp [noneRule, Extracted.fieldNeNone, Extracted.exprNeNone, toT, ev, ih, Extracted.isnotnullOp, binSem_isNot_none]
  | inil => simp [build, toT, ev, eval, embed]
  | inull t ih => simp only [embed] at ih ⊢; simp [build, toT, ev, eval, ih]
  | icons h t ihh iht => simp only [embed] at ihh iht ⊢; simp [build, toT, ev, eval, ihh, iht]

theorem ev_buildN (D : Dom) (r : Row D) (d : String) (e : NumE) :
    ev D r (toT d (buildN e)) = .v (evalN D r e) := ev_build D r d e
theorem ev_buildB (D : Dom) (r : Row D) (d : String) (e : BoolE) :
    ev D r (toT d (buildB e)) = .v ((evalB D r e).map (b2i D)) := ev_build D r d e

/-! ## no (in)equality operator is followed by NULL -/

def T.isNull : T → Bool
  | .null => true
  | _ => false

/-- some (in)equality comparison in the syntax tree has the bare `NULL` as its right operand -/
def eqNullT : T → Bool
  | .bin o l r => eqNullT l || eqNullT r || ((Tok.op o).isEqLike && r.isNull)
  | .un _ t => eqNullT t
  | .isin x l => eqNullT x || eqNullT l
  | .call _ a => eqNullT a
  | .cons h t => eqNullT h || eqNullT t
  | _ => false

theorem hasEqNull_cons (t : Tok) (ts : List Tok) :
    hasEqNull (t :: ts) = ((t.isEqLike && ts.head? == some Tok.null) || hasEqNull ts) := rfl

theorem hasEqNull_wrap (s : List Tok) (X : Bool) (h : ∀ k, hasEqNull (s ++ k) = (X || hasEqNull k)) :
    ∀ k, hasEqNull (wrapS s ++ k) = (X || hasEqNull k) := by
  intro k
  unfold wrapS
  split
  · exact h k
  · exact h k
  · simp only [List.cons_append, List.append_assoc, hasEqNull_cons, Tok.isEqLike, Bool.false_and, Bool.false_or, h]
    simp

theorem head_wrap (r : T) (k : List Tok) :
    ((wrapS (rend false r) ++ k).head? == some Tok.null) = r.isNull := by
  cases r <;> simp [rend, wrapS, T.isNull]

theorem hasEqNull_rend (t : T) : ∀ b k, hasEqNull (rend b t ++ k) = (eqNullT t || hasEqNull k) := by
  induction t with
  | col c => intro b k; cases b <;> simp [rend, eqNullT, hasEqNull_cons, Tok.isEqLike]
  | num n => intro b k; cases b <;> simp [rend, eqNullT, hasEqNull_cons, Tok.isEqLike]
  | null => intro b k; cases b <;> simp [rend, eqNullT, hasEqNull_cons, Tok.isEqLike]
  | nil => intro b k; cases b <;> simp [rend, eqNullT, hasEqNull_cons, Tok.isEqLike]
  | bin o l r ihl ihr =>
    intro b k
    have hl := hasEqNull_wrap _ _ (ihl false)
    have hr := hasEqNull_wrap _ _ (ihr false)
    have hh := head_wrap r (Tok.rp :: k)
    cases b <;>
    · simp only [rend, List.cons_append, List.append_assoc, List.nil_append, hasEqNull_cons, hl, hr, hh, eqNullT]
      simp [Tok.isEqLike, Bool.or_assoc, Bool.or_comm, Bool.or_left_comm]
  | un p t ih =>
    intro b k
    cases b <;> simp [rend, eqNullT, hasEqNull_cons, Tok.isEqLike, ih]
  | isin x l ihx ihl =>
    intro b k
    have hx := hasEqNull_wrap _ _ (ihx false)
    cases b <;>
    · simp only [rend, List.cons_append, List.append_assoc, List.nil_append, hasEqNull_cons, hx, ihl, eqNullT]
      simp [Tok.isEqLike, Bool.or_assoc]
  | call f a ih =>
    intro b k
    cases b <;> simp [rend, eqNullT, hasEqNull_cons, Tok.isEqLike, ih]
  | cons h t ihh iht =>
    intro b k
    cases b <;> simp [rend, eqNullT, hasEqNull_cons, Tok.isEqLike, ihh, iht, Bool.or_assoc]


theorem isNull_applyOv (d : String) (ov : OvBin) (a b : Node) : (toT d (applyOv ov a b)).isNull = false := by
  unfold applyOv; split <;> simp [toT, T.isNull]

theorem eqNullT_applyOv (d : String) (ov : OvBin) (a b : Node)
    (ha : (toT d a).isNull = false) (hb : (toT d b).isNull = false) :
    eqNullT (toT d (applyOv ov a b)) = (eqNullT (toT d a) || eqNullT (toT d b)) := by
  unfold applyOv; split <;> simp [toT, eqNullT, ha, hb, Bool.or_comm]

theorem eqNullT_int (d : String) (i : Int) : eqNullT (toT d (Node.int i)) = false := by
  simp only [toT]; split <;> simp [eqNullT]

theorem eqNullT_flt (d : String) (n : Bool) (i : Nat) : eqNullT (toT d (Node.flt n i)) = false := by
  simp only [toT]; split <;> simp [eqNullT]

theorem isNull_noneRule (d : String) (rule : NoneRule) (ov : OvBin) (a : Node) :
    (toT d (noneRule rule ov a)).isNull = false := by
  cases rule
  · simp [noneRule, toT, T.isNull]
  · simp [noneRule, toT, T.isNull]
  · exact isNull_applyOv _ _ _ _

theorem isNull_build (d : String) {s : Srt} (e : E s) : (toT d (build e)).isNull = false := by
  induction e with
  | col c => simp [build, toT, T.isNull]
  | rcol c => simp [build, toT, T.isNull]
  | const i => simp only [build, toT]; split <;> simp [T.isNull]
  | fconst n i => simp only [build, toT]; split <;> simp [T.isNull]
  | wconst n i k => simp only [build, toT]; split <;> simp [T.isNull]
  | ar o l r =>
    simp only [build]
    split
    · simp only [toT]; split <;> simp [T.isNull]
    · split <;> exact isNull_applyOv _ _ _ _
  | neg x => simp [build, toT, T.isNull]
  | pos x => simp [build, toT, T.isNull]
  | b2i b ih => simpa [build] using ih
  | cmp o l r => simp only [build]; split <;> exact isNull_applyOv _ _ _ _
  | andOp l r => exact isNull_applyOv _ _ _ _
  | orOp l r => exact isNull_applyOv _ _ _ _
  | andFn l r => simp [build, toT, T.isNull]
  | orFn l r => simp [build, toT, T.isNull]
  | notOp x => simp [build, toT, T.isNull]
  | notFn x => simp [build, toT, T.isNull]
  | isin x l => simp [build, toT, T.isNull]
  | notin x l => simp only [build]; split <;> simp [toT, T.isNull]
  | isnull x => simp [build, toT, T.isNull]
  | isnotnull x => simp [build, toT, T.isNull]
  | eqNone x => simp only [build]; split <;> exact isNull_noneRule _ _ _ _
  | neNone x => simp only [build]; split <;> exact isNull_noneRule _ _ _ _
  | inil => simp [build, toT, T.isNull]
  | inull t => simp [build, toT, T.isNull]
  | icons h t => simp [build, toT, T.isNull]

theorem eqNullT_noneRule (d : String) (a : Node) (h : eqNullT (toT d a) = false) :
    eqNullT (toT d (noneRule Extracted.fieldEqNone Extracted.fieldEq a)) = false ∧
    eqNullT (toT d (noneRule Extracted.exprEqNone Extracted.exprEq a)) = false ∧
    eqNullT (toT d (noneRule Extracted.fieldNeNone Extracted.fieldNe a)) = false ∧
    eqNullT (toT d (noneRule Extracted.exprNeNone Extracted.exprNe a)) = false := by
  simp [noneRule, Extracted.fieldEqNone, Extracted.exprEqNone, Extracted.fieldNeNone, Extracted.exprNeNone, toT, eqNullT,
    h, Extracted.isnullOp, Extracted.isnotnullOp, Tok.isEqLike, BinOp.spell]

theorem eqNullT_build (d : String) {s : Srt} (e : E s) : eqNullT (toT d (build e)) = false := by
  induction e with
  | col c => simp [build, toT, eqNullT]
  | rcol c => simp [build, toT, eqNullT]
  | const i => simp only [build]; exact eqNullT_int d i
  | fconst n i => simp only [build]; exact eqNullT_flt d n i
  | wconst n i k => simp only [build]; exact eqNullT_flt d n i
  | ar o l r ihl ihr =>
    simp only [build]
    split
    · simp only [toT]; split <;> simp [eqNullT, ihl, ihr, isNull_build]
    · split <;> simp [eqNullT_applyOv, isNull_build, ihl, ihr]
  | neg x ih => simp [build, toT, eqNullT, ih]
  | pos x ih => simp [build, toT, eqNullT, ih]
  | b2i b ih => simpa [build] using ih
  | cmp o l r ihl ihr =>
    simp only [build]
    split <;> simp [eqNullT_applyOv, isNull_build, ihl, ihr]
  | andOp l r ihl ihr => simp [build, eqNullT_applyOv, isNull_build, ihl, ihr]
  | orOp l r ihl ihr => simp [build, eqNullT_applyOv, isNull_build, ihl, ihr]
  | andFn l r ihl ihr => simp [build, toT, eqNullT, isNull_build, ihl, ihr]
  | orFn l r ihl ihr => simp [build, toT, eqNullT, isNull_build, ihl, ihr]
  | notOp x ih => simp [build, toT, eqNullT, ih]
  | notFn x ih => simp [build, toT, eqNullT, ih]
  | isin x l ihx ihl => simp [build, toT, eqNullT, ihx, ihl]
  | notin x l ihx ihl => simp only [build]; split <;> simp [toT, eqNullT, ihx, ihl]
  | isnull x ih => simp [build, toT, eqNullT, ih, Extracted.isnullOp, Tok.isEqLike, BinOp.spell]
  | isnotnull x ih => simp [build, toT, eqNullT, ih, Extracted.isnotnullOp, Tok.isEqLike, BinOp.spell]
  | eqNone x ih => simp only [build]; split <;> simp [eqNullT_noneRule d _ ih]
  | neNone x ih => simp only [build]; split <;> simp [eqNullT_noneRule d _ ih]
  | inil => simp [build, toT, eqNullT]
  | inull t ih => simp [build, toT, eqNullT, ih]
  | icons h t ihh iht => simp [build, toT, eqNullT, ihh, iht]

theorem eqNullT_buildB (d : String) (e : BoolE) : eqNullT (toT d (buildB e)) = false := eqNullT_build d e

/-! ## n-ary AND / OR -/

theorem and3_assoc (a b c : Option Bool) : and3 (and3 a b) c = and3 a (and3 b c) := by
  rcases a with _ | _ | _ <;> rcases b with _ | _ | _ <;> rcases c with _ | _ | _ <;> rfl

theorem or3_assoc (a b c : Option Bool) : or3 (or3 a b) c = or3 a (or3 b c) := by
  rcases a with _ | _ | _ <;> rcases b with _ | _ | _ <;> rcases c with _ | _ | _ <;> rfl

theorem and3_all3 (x : Option Bool) (xs : List (Option Bool)) : and3 x (all3 xs) = all3 (x :: xs) := by
  simp only [all3, List.mem_cons]
  rcases x with _ | _ | _ <;> by_cases h1 : some false ∈ xs <;> by_cases h2 : none ∈ xs <;>
    simp [h1, h2, and3]

theorem or3_any3 (x : Option Bool) (xs : List (Option Bool)) : or3 x (any3 xs) = any3 (x :: xs) := by
  simp only [any3, List.mem_cons]
  rcases x with _ | _ | _ <;> by_cases h1 : some true ∈ xs <;> by_cases h2 : none ∈ xs <;>
    simp [h1, h2, or3]

theorem and3_true (x : Option Bool) : and3 x (some true) = x := by rcases x with _ | _ | _ <;> rfl
theorem or3_false (x : Option Bool) : or3 x (some false) = x := by rcases x with _ | _ | _ <;> rfl

theorem foldl_and3 (xs : List (Option Bool)) : ∀ a, xs.foldl and3 a = and3 a (all3 xs) := by
  induction xs with
  | nil => intro a; simp [all3, and3_true]
  | cons x xs ih => intro a; rw [List.foldl_cons, ih, and3_assoc, and3_all3]

theorem foldl_or3 (xs : List (Option Bool)) : ∀ a, xs.foldl or3 a = or3 a (any3 xs) := by
  induction xs with
  | nil => intro a; simp [any3, or3_false]
  | cons x xs ih => intro a; rw [List.foldl_cons, ih, or3_assoc, or3_any3]

theorem evalB_foldR_and (D : Dom) (r : Row D) (es : List BoolE) : ∀ e,
    evalB D r (foldR .andFn e es) = all3 ((e :: es).map (evalB D r)) := by
  induction es with
  | nil => intro e; simp only [foldR, List.map]; rw [← and3_all3]; simp [all3, and3_true]
  | cons e' es ih => intro e; simp only [foldR, evalB, eval, ih]; rw [and3_all3]; rfl

theorem evalB_foldl_and (D : Dom) (r : Row D) (es : List BoolE) : ∀ e,
    evalB D r (es.foldl .andFn e) = (es.map (evalB D r)).foldl and3 (evalB D r e) := by
  induction es with
  | nil => intro e; rfl
  | cons e' es ih => intro e; simp only [List.foldl_cons, List.map_cons, ih, evalB, eval]

theorem evalB_foldR_or (D : Dom) (r : Row D) (es : List BoolE) : ∀ e,
    evalB D r (foldR .orFn e es) = any3 ((e :: es).map (evalB D r)) := by
  induction es with
  | nil => intro e; simp only [foldR, List.map]; rw [← or3_any3]; simp [any3, or3_false]
  | cons e' es ih => intro e; simp only [foldR, evalB, eval, ih]; rw [or3_any3]; rfl

theorem evalB_foldl_or (D : Dom) (r : Row D) (es : List BoolE) : ∀ e,
    evalB D r (es.foldl .orFn e) = (es.map (evalB D r)).foldl or3 (evalB D r e) := by
  induction es with
  | nil => intro e; rfl
  | cons e' es ih => intro e; simp only [List.foldl_cons, List.map_cons, ih, evalB, eval]

theorem evalB_foldFn_and (D : Dom) (f : Fold) (r : Row D) (e : BoolE) (es : List BoolE) :
    evalB D r (foldFn f .andFn e es) = all3 ((e :: es).map (evalB D r)) := by
  cases f
  · exact evalB_foldR_and D r es e
  · simp only [foldFn, evalB_foldl_and, foldl_and3, List.map_cons, and3_all3]

theorem evalB_foldFn_or (D : Dom) (f : Fold) (r : Row D) (e : BoolE) (es : List BoolE) :
    evalB D r (foldFn f .orFn e es) = any3 ((e :: es).map (evalB D r)) := by
  cases f
  · exact evalB_foldR_or D r es e
  · simp only [foldFn, evalB_foldl_or, foldl_or3, List.map_cons, or3_any3]


/-! ## the constant normalisation of `IntCol == <float>` keeps the meaning -/

theorem eval_coerceCmp (D : Dom) (r : Row D) (o : CmpOp) (l x : NumE) (b : BoolE)
    (hl : WholeOk D l) (hx : WholeOk D x) (hc : coerceCmp o l x = some b) :
    eval D r b = eval D r (E.cmp o l x) ∧ WholeOk D b := by
  unfold coerceCmp at hc
  split at hc
  · split at hc
    · injection hc with hc; subst hc
      simp only [WholeOk] at hx
      simp only [eval, WholeOk, and_self, and_true]
      cases r _ <;> simp [lift2, (hx o _).1]
    · simp at hc
    · injection hc with hc; subst hc
      simp only [WholeOk] at hl
      simp only [eval, WholeOk, and_self, and_true]
      cases r _ <;> simp [lift2, (hl o _).2]
    · simp at hc
    · injection hc with hc; subst hc; exact ⟨rfl, by simp only [WholeOk]; exact ⟨hl, hx⟩⟩
  · injection hc with hc; subst hc; exact ⟨rfl, by simp only [WholeOk]; exact ⟨hl, hx⟩⟩

/-- leaf: `coerce` is the identity -/
macro "coerce_leaf" : tactic =>
  `(tactic| (intro e' hw hc; simp only [coerce, Option.some.injEq] at hc; subst hc; exact ⟨rfl, hw⟩))

/-- one recursive argument -/
macro "coerce_un" x:ident ih:ident : tactic =>
  `(tactic| (intro e' hw hc
             simp only [WholeOk] at hw
             cases h1 : coerce $x with
             | none => simp [coerce, h1] at hc
             | some x' =>
               simp [coerce, h1] at hc; subst hc
               have a := $ih _ hw h1
               exact ⟨by simp only [eval, a.1], by simp only [WholeOk]; exact a.2⟩))

/-- two recursive arguments -/
macro "coerce_bin" l:ident x:ident ihl:ident ihx:ident : tactic =>
  `(tactic| (intro e' hw hc
             simp only [WholeOk] at hw
             cases h1 : coerce $l with
             | none => simp [coerce, h1] at hc
             | some l' =>
               cases h2 : coerce $x with
               | none => simp [coerce, h1, h2] at hc
               | some x' =>
                 simp [coerce, h1, h2] at hc; subst hc
                 have a := $ihl _ hw.1 h1
                 have b := $ihx _ hw.2 h2
                 exact ⟨by simp only [eval, a.1, b.1], by simp only [WholeOk]; exact ⟨a.2, b.2⟩⟩))

theorem eval_coerce (D : Dom) (r : Row D) {s : Srt} (e : E s) :
    ∀ e', WholeOk D e → coerce e = some e' → eval D r e' = eval D r e ∧ WholeOk D e' := by
  induction e with
  | col c => coerce_leaf
  | rcol c => coerce_leaf
  | const i => coerce_leaf
  | fconst n i => coerce_leaf
  | wconst n i k => coerce_leaf
  | inil => coerce_leaf
  | ar o l x ihl ihx => coerce_bin l x ihl ihx
  | neg x ih => coerce_un x ih
  | pos x ih => coerce_un x ih
  | b2i x ih => coerce_un x ih
  | cmp o l x ihl ihx =>
    intro e' hw hc
    simp only [WholeOk] at hw
    cases h1 : coerce l with
    | none => simp [coerce, h1] at hc
    | some l' =>
      cases h2 : coerce x with
      | none => simp [coerce, h1, h2] at hc
      | some x' =>
        simp [coerce, h1, h2] at hc
        have a := ihl _ hw.1 h1
        have b := ihx _ hw.2 h2
        have c := eval_coerceCmp D r o l' x' e' a.2 b.2 hc
        exact ⟨by rw [c.1]; simp only [eval, a.1, b.1], c.2⟩
  | andOp l x ihl ihx => coerce_bin l x ihl ihx
  | orOp l x ihl ihx => coerce_bin l x ihl ihx
  | andFn l x ihl ihx => coerce_bin l x ihl ihx
  | orFn l x ihl ihx => coerce_bin l x ihl ihx
  | notOp x ih => coerce_un x ih
  | notFn x ih => coerce_un x ih
  | isin l x ihl ihx => coerce_bin l x ihl ihx
  | notin l x ihl ihx => coerce_bin l x ihl ihx
  | isnull x ih => coerce_un x ih
  | isnotnull x ih => coerce_un x ih
  | eqNone x ih => coerce_un x ih
  | neNone x ih => coerce_un x ih
  | inull x ih => coerce_un x ih
  | icons l x ihl ihx => coerce_bin l x ihl ihx


/-! ## typed tokens are determined by the lexical stream -/

theorem BinOp.ofSpell_spell (o : BinOp) : BinOp.ofSpell o.spell = some o := by
  cases o <;> decide

theorem PreOp.ofSpell_spell (p : PreOp) : PreOp.ofSpell p.spell = some p := by
  cases p <;> decide

/-- `R b s`: read from the state `b` (`false` = operand expected), the symbols of `s` followed by
    anything are classified back to `s`, ending after an operand -/
def Retags (b : Bool) (s : List Tok) : Prop :=
  ∀ k : List Tok, retag b ((s ++ k).map Tok.erase) = (retag true (k.map Tok.erase)).map (s ++ ·)

theorem retags_wrap (s : List Tok) (h : Retags false s) : Retags false (wrapS s) := by
  unfold wrapS
  split
  · exact h
  · exact h
  · intro k
    have := h (Tok.rp :: k)
    simp only [List.cons_append, List.append_assoc, List.map_cons, Tok.erase, retag, this, List.nil_append]
    cases retag true (k.map Tok.erase) <;> simp

theorem retags_rend (t : T) :
    (wf false t = true → Retags false (rend false t)) ∧
    (wf true t = true → Retags false (rend false t) ∧ Retags true (rend true t)) := by
  induction t with
  | col c => refine ⟨fun _ k => ?_, by simp [wf]⟩; simp [rend, Tok.erase, retag]
  | num n => refine ⟨fun _ k => ?_, by simp [wf]⟩; simp [rend, Tok.erase, retag]
  | null => refine ⟨fun _ k => ?_, by simp [wf]⟩; simp [rend, Tok.erase, retag]
  | nil =>
    refine ⟨by simp [wf], fun _ => ⟨fun k => ?_, fun k => ?_⟩⟩ <;> simp [rend, Tok.erase, retag] <;>
      (cases retag true (k.map Tok.erase) <;> simp)
  | bin o l r ihl ihr =>
    refine ⟨fun hw k => ?_, by simp [wf]⟩
    simp only [wf, Bool.and_eq_true] at hw
    have hl := retags_wrap _ (ihl.1 hw.1)
    have hr := retags_wrap _ (ihr.1 hw.2)
    have h2 := hr (Tok.rp :: k)
    have h1 := hl (Tok.op o :: (wrapS (rend false r) ++ Tok.rp :: k))
    simp only [rend, List.cons_append, List.append_assoc, List.nil_append, List.map_cons, Tok.erase, retag] at h1 h2 ⊢
    rw [h1]
    simp only [BinOp.ofSpell_spell, h2]
    cases retag true (k.map Tok.erase) <;> simp
  | un p t ih =>
    refine ⟨fun hw k => ?_, by simp [wf]⟩
    simp only [wf] at hw
    have h := ih.1 hw k
    simp only [rend, List.cons_append, List.map_cons, Tok.erase, retag, PreOp.ofSpell_spell, h]
    cases retag true (k.map Tok.erase) <;> simp
  | isin x l ihx ihl =>
    refine ⟨fun hw k => ?_, by simp [wf]⟩
    simp only [wf, Bool.and_eq_true] at hw
    have hx := retags_wrap _ (ihx.1 hw.1)
    have h2 := (ihl.2 hw.2).1 (Tok.rp :: k)
    have h1 := hx (Tok.kwIn :: (rend false l ++ Tok.rp :: k))
    simp only [rend, List.cons_append, List.append_assoc, List.nil_append, List.map_cons, Tok.erase, retag] at h1 h2 ⊢
    rw [h1]
    simp only [h2]
    cases retag true (k.map Tok.erase) <;> simp
  | call f a ih =>
    refine ⟨fun hw k => ?_, by simp [wf]⟩
    simp only [wf] at hw
    have h := (ih.2 hw).1 k
    simp only [rend, List.cons_append, List.map_cons, Tok.erase, retag, h]
    cases retag true (k.map Tok.erase) <;> simp
  | cons h t ihh iht =>
    refine ⟨by simp [wf], fun hw => ?_⟩
    simp only [wf, Bool.and_eq_true] at hw
    constructor <;> intro k <;>
    · have h1 := ihh.1 hw.1 (rend true t ++ k)
      have h2 := (iht.2 hw.2).2 k
      simp only [rend, List.cons_append, List.append_assoc, List.map_cons, Tok.erase, retag, h1, h2]
      cases retag true (k.map Tok.erase) <;> simp

theorem retag_rend (t : T) (h : wf false t = true) :
    retag false ((rend false t).map Tok.erase) = some (rend false t) := by
  have := (retags_rend t).1 h []
  simpa [retag] using this


end SqlObjVerif.Expr
