import SqlObjVerif.Model.Expr
/-!
# C03 — lemmas: the reference parser inverts `rend` for every precedence table; rendering of the object
graph is `rend ∘ toT`; the SQLite-style value of the parsed text is the three-valued value of the source tree.
-/
namespace SqlObjVerif.Expr

theorem T.size_pos (e : T) : 0 < e.size := by cases e <;> simp [T.size] <;> omega

def Stops : List Tok → Prop
  | Tok.op _ :: _ => False
  | Tok.kwIn :: _ => False
  | _ => True

theorem loop_stops (P : Prec) (f m : Nat) (lhs : T) (rest : List Tok) (h : Stops rest) :
    parseLoop P (f+1) m lhs rest = some (lhs, rest) := by
  unfold parseLoop
  cases rest with
  | nil => rfl
  | cons t ts => cases t <;> simp_all [Stops]

def lbody : T → List Tok
  | .nil => [Tok.rp]
  | .cons h t => rend false h ++ rend true t
  | _ => []

theorem rend_list (t : T) (h : wf true t = true) : rend false t = Tok.lp :: lbody t := by
  cases t <;> simp_all [wf, rend, lbody]

theorem stops_tail (t : T) (rest : List Tok) (h : wf true t = true) : Stops (rend true t ++ rest) := by
  cases t <;> simp_all [wf, rend, Stops]

theorem head_expr (t : T) (h : wf false t = true) : ∃ a s, rend false t = a :: s ∧ a ≠ Tok.rp := by
  cases t <;> simp_all [wf, rend]

theorem parseList_item (P : Prec) (fuel : Nat) (ts : List Tok) (a : Tok) (s : List Tok)
    (h : ts = a :: s) (ha : a ≠ Tok.rp) :
    parseList P (fuel+1) ts =
      match parseExpr P fuel 0 ts with
      | some (e, rest) =>
        match parseTail P fuel rest with
        | some (t, rest') => some (T.cons e t, rest')
        | none => none
      | none => none := by
  subst h
  rw [parseList]
  · rfl
  · intro rest hr
    injection hr with h1 _
    exact ha h1

theorem wrap_bin (o l r) : wrapS (rend false (T.bin o l r)) = rend false (T.bin o l r) := by
  simp [rend, wrapS]
theorem wrap_isin (x l) : wrapS (rend false (T.isin x l)) = rend false (T.isin x l) := by
  simp [rend, wrapS]

theorem parse_rend_aux (P : Prec) (t : T) :
    (wf false t = true →
      (∀ fuel m rest, 6 * t.size ≤ fuel → Stops rest →
        parseExpr P fuel m (rend false t ++ rest) = some (t, rest)) ∧
      (∀ fuel rest, 6 * t.size + 1 ≤ fuel →
        parsePrim P fuel (wrapS (rend false t) ++ rest) = some (t, rest))) ∧
    (wf true t = true →
      (∀ fuel rest, 6 * t.size ≤ fuel →
        parseTail P fuel (rend true t ++ rest) = some (t, rest)) ∧
      (∀ fuel rest, 6 * t.size ≤ fuel →
        parseList P fuel (lbody t ++ rest) = some (t, rest))) := by
  induction t with
  | col c =>
    refine ⟨fun _ => ?_, by simp [wf]⟩
    have hA : ∀ fuel m rest, 6 * (T.col c).size ≤ fuel → Stops rest →
        parseExpr P fuel m (rend false (T.col c) ++ rest) = some (T.col c, rest) := by
      intro fuel m rest hf hs
      simp [T.size] at hf
      obtain ⟨k, rfl⟩ : ∃ k, fuel = k + 2 := ⟨fuel - 2, by omega⟩
      simp [rend, parseExpr, parsePrim, loop_stops P k m _ rest hs]
    refine ⟨hA, ?_⟩
    intro fuel rest hf
    simp [T.size] at hf
    obtain ⟨k, rfl⟩ : ∃ k, fuel = k + 1 := ⟨fuel - 1, by omega⟩
    have := hA k 0 (Tok.rp :: rest) (by simp [T.size]; omega) (by simp [Stops])
    simp [rend] at this
    simp [rend, wrapS, parsePrim, this]
  | num n =>
    refine ⟨fun _ => ?_, by simp [wf]⟩
    have hA : ∀ fuel m rest, 6 * (T.num n).size ≤ fuel → Stops rest →
        parseExpr P fuel m (rend false (T.num n) ++ rest) = some (T.num n, rest) := by
      intro fuel m rest hf hs
      simp [T.size] at hf
      obtain ⟨k, rfl⟩ : ∃ k, fuel = k + 2 := ⟨fuel - 2, by omega⟩
      simp [rend, parseExpr, parsePrim, loop_stops P k m _ rest hs]
    refine ⟨hA, ?_⟩
    intro fuel rest hf
    simp [T.size] at hf
    obtain ⟨k, rfl⟩ : ∃ k, fuel = k + 1 := ⟨fuel - 1, by omega⟩
    have := hA k 0 (Tok.rp :: rest) (by simp [T.size]; omega) (by simp [Stops])
    simp [rend] at this
    simp [rend, wrapS, parsePrim, this]
  | null =>
    refine ⟨fun _ => ⟨?_, ?_⟩, by simp [wf]⟩
    · intro fuel m rest hf hs
      simp [T.size] at hf
      obtain ⟨k, rfl⟩ : ∃ k, fuel = k + 2 := ⟨fuel - 2, by omega⟩
      simp [rend, parseExpr, parsePrim, loop_stops P k m _ rest hs]
    · intro fuel rest hf
      simp [T.size] at hf
      obtain ⟨k, rfl⟩ : ∃ k, fuel = k + 1 := ⟨fuel - 1, by omega⟩
      simp [rend, wrapS, parsePrim]
  | bin o l r ihl ihr =>
    refine ⟨fun hw => ?_, by simp [wf]⟩
    simp only [wf, Bool.and_eq_true] at hw
    have ihl := ihl.1 hw.1
    have ihr := ihr.1 hw.2
    have hB : ∀ fuel rest, 6 * (T.bin o l r).size ≤ fuel + 1 →
        parsePrim P fuel (rend false (T.bin o l r) ++ rest) = some (T.bin o l r, rest) := by
      intro fuel rest hf
      simp [T.size] at hf
      have hl := T.size_pos l
      have hr := T.size_pos r
      obtain ⟨k, rfl⟩ : ∃ k, fuel = k + 6 := ⟨fuel - 6, by omega⟩
      simp only [rend, List.cons_append, List.append_assoc, List.nil_append]
      rw [parsePrim, parseExpr]
      rw [ihl.2 _ _ (by omega)]
      dsimp only
      rw [parseLoop]
      simp only [Nat.zero_le, ge_iff_le, if_true]
      rw [parseExpr]
      rw [ihr.2 _ _ (by omega)]
      dsimp only
      rw [loop_stops P _ _ _ _ (by simp [Stops])]
      dsimp only
      rw [loop_stops P _ _ _ _ (by simp [Stops])]
    constructor
    · intro fuel m rest hf hs
      obtain ⟨k, rfl⟩ : ∃ k, fuel = k + 2 := ⟨fuel - 2, by simp [T.size] at hf; omega⟩
      rw [parseExpr, hB (k+1) rest (by omega)]
      dsimp only
      exact loop_stops P k m _ rest hs
    · intro fuel rest hf
      rw [wrap_bin]
      exact hB fuel rest (by omega)
  | un p t iht =>
    refine ⟨fun hw => ?_, by simp [wf]⟩
    simp only [wf] at hw
    have iht := iht.1 hw
    have hA : ∀ fuel m rest, 6 * (T.un p t).size ≤ fuel + 1 → Stops rest →
        parseExpr P fuel m (rend false (T.un p t) ++ rest) = some (T.un p t, rest) := by
      intro fuel m rest hf hs
      simp [T.size] at hf
      obtain ⟨k, rfl⟩ : ∃ k, fuel = k + 3 := ⟨fuel - 3, by omega⟩
      simp only [rend, List.cons_append]
      rw [parseExpr, parsePrim, iht.1 _ _ _ (by omega) hs]
      dsimp only
      exact loop_stops P (k+1) m _ rest hs
    constructor
    · intro fuel m rest hf hs; exact hA fuel m rest (by omega) hs
    · intro fuel rest hf
      simp [T.size] at hf
      obtain ⟨k, rfl⟩ : ∃ k, fuel = k + 1 := ⟨fuel - 1, by omega⟩
      have := hA k 0 (Tok.rp :: rest) (by simp [T.size]; omega) (by simp [Stops])
      simp only [rend, List.cons_append] at this
      simp only [rend, wrapS, List.cons_append, List.append_assoc, List.nil_append]
      rw [parsePrim]
      try dsimp only
      rw [this]
  | isin x l ihx ihl =>
    refine ⟨fun hw => ?_, by simp [wf]⟩
    simp only [wf, Bool.and_eq_true] at hw
    have ihx := ihx.1 hw.1
    have ihl := ihl.2 hw.2
    have hB : ∀ fuel rest, 6 * (T.isin x l).size ≤ fuel + 1 →
        parsePrim P fuel (rend false (T.isin x l) ++ rest) = some (T.isin x l, rest) := by
      intro fuel rest hf
      simp [T.size] at hf
      have hl := T.size_pos l
      have hr := T.size_pos x
      obtain ⟨k, rfl⟩ : ∃ k, fuel = k + 6 := ⟨fuel - 6, by omega⟩
      simp only [rend, rend_list l hw.2, List.cons_append, List.append_assoc, List.nil_append]
      rw [parsePrim, parseExpr]
      rw [ihx.2 _ _ (by omega)]
      dsimp only
      rw [parseLoop]
      simp only [Nat.zero_le, ge_iff_le, if_true]
      rw [ihl.2 _ _ (by omega)]
      dsimp only
      rw [loop_stops P _ _ _ _ (by simp [Stops])]
    constructor
    · intro fuel m rest hf hs
      obtain ⟨k, rfl⟩ : ∃ k, fuel = k + 2 := ⟨fuel - 2, by simp [T.size] at hf; omega⟩
      rw [parseExpr, hB (k+1) rest (by omega)]
      dsimp only
      exact loop_stops P k m _ rest hs
    · intro fuel rest hf
      rw [wrap_isin]
      exact hB fuel rest (by omega)
  | call f a iha =>
    refine ⟨fun hw => ?_, by simp [wf]⟩
    simp only [wf] at hw
    have iha := iha.2 hw
    have hA : ∀ fuel m rest, 6 * (T.call f a).size ≤ fuel + 1 → Stops rest →
        parseExpr P fuel m (rend false (T.call f a) ++ rest) = some (T.call f a, rest) := by
      intro fuel m rest hf hs
      simp [T.size] at hf
      have ha := T.size_pos a
      obtain ⟨k, rfl⟩ : ∃ k, fuel = k + 3 := ⟨fuel - 3, by omega⟩
      simp only [rend, rend_list a hw, List.cons_append]
      rw [parseExpr, parsePrim, iha.2 _ _ (by omega)]
      dsimp only
      exact loop_stops P (k+1) m _ rest hs
    constructor
    · intro fuel m rest hf hs; exact hA fuel m rest (by omega) hs
    · intro fuel rest hf
      simp [T.size] at hf
      obtain ⟨k, rfl⟩ : ∃ k, fuel = k + 1 := ⟨fuel - 1, by omega⟩
      have := hA k 0 (Tok.rp :: rest) (by simp [T.size]; omega) (by simp [Stops])
      simp only [rend, List.cons_append] at this
      simp only [rend, wrapS, List.cons_append, List.append_assoc, List.nil_append]
      rw [parsePrim]
      try dsimp only
      rw [this]
  | nil =>
    refine ⟨by simp [wf], fun _ => ⟨?_, ?_⟩⟩
    · intro fuel rest hf
      simp [T.size] at hf
      obtain ⟨k, rfl⟩ : ∃ k, fuel = k + 1 := ⟨fuel - 1, by omega⟩
      simp [rend, parseTail]
    · intro fuel rest hf
      simp [T.size] at hf
      obtain ⟨k, rfl⟩ : ∃ k, fuel = k + 1 := ⟨fuel - 1, by omega⟩
      simp [lbody, parseList]
  | cons h t ihh iht =>
    refine ⟨by simp [wf], fun hw => ?_⟩
    simp only [wf, Bool.and_eq_true] at hw
    have ihh := ihh.1 hw.1
    have iht := iht.2 hw.2
    have hh := T.size_pos h
    have ht := T.size_pos t
    constructor
    · intro fuel rest hf
      simp [T.size] at hf
      obtain ⟨k, rfl⟩ : ∃ k, fuel = k + 1 := ⟨fuel - 1, by omega⟩
      simp only [rend, List.cons_append, List.append_assoc]
      rw [parseTail, ihh.1 _ _ _ (by omega) (stops_tail t rest hw.2)]
      dsimp only
      rw [iht.1 _ _ (by omega)]
    · intro fuel rest hf
      simp [T.size] at hf
      obtain ⟨k, rfl⟩ : ∃ k, fuel = k + 1 := ⟨fuel - 1, by omega⟩
      obtain ⟨a, s, h1, h2⟩ := head_expr h hw.1
      simp only [lbody, List.append_assoc]
      rw [parseList_item P k _ a (s ++ (rend true t ++ rest)) (by simp [h1]) h2]
      rw [ihh.1 _ _ _ (by omega) (stops_tail t rest hw.2)]
      dsimp only
      rw [iht.1 _ _ (by omega)]

theorem parse_rend (P : Prec) (t : T) (h : wf false t = true) (fuel : Nat) (hf : 6 * t.size ≤ fuel) :
    parseExpr P fuel 0 (rend false t) = some (t, []) := by
  have := ((parse_rend_aux P t).1 h).1 fuel 0 [] hf (by simp [Stops])
  simpa using this


end SqlObjVerif.Expr
