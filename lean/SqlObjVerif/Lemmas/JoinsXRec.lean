import SqlObjVerif.Lemmas.JoinsXSort
/-!
Symbolic execution of the TRANSLATED join accessors (C13), part 3: the recursion of `doSort` over a list / tuple of keys
(`doSortX_one`, `doSortX_many`, `doSortX_manyT`) and the theorem `doSortN_denotes`: for every `orderBy` value that
denotes a key list the translated `doSort` computes the hand model's `doSort`.
-/
namespace SqlObjVerif.Joins
open SqlObjVerif.Graph
open SqlObjVerif.PyJoins
open SqlObjVerif.PyJoins.Extracted

@[simp] theorem jEqOver_int (n : Int) (v : PVal) : jEqOver (.int n) v = none := rfl
@[simp] theorem jEqOver_field (k f : Nat) (v : PVal) :
    jEqOver (.obj (.field k f)) v = some (.app "==" (.cons (.obj (.field k f)) (.cons v .nil))) := rfl

theorem doSort_append {α : Type} (val : α → Nat → Option Int) (ks1 ks2 : List SortKey) (l : List α) :
    doSort val (ks1 ++ ks2) l = doSort val ks1 (doSort val ks2 l) := by
  induction ks1 with
  | nil => rfl
  | cons k ks ih => simp [doSort, ih]

/-- what a call of `doSort(results, v)` does when `v` denotes `ks`, for every list object of instances -/
def SortsAs (P : Params) (f : DB → Heap Hnd → List PVal → CallRes Hnd DB) (v : PVal) (ks : List SortKey) : Prop :=
  ∀ (db : DB) (heap : Heap Hnd) (r c : Nat) (l : List Nat), heap.cells r = some (instList c l) →
    f db heap [.ref r, v] = .ret db (heap.set r (instList c (doSort (valOf P) ks l))) .none

theorem leaf_not_seq {nm v k} (h : Leaf nm v k) : (match v with | .tup _ => true | _ => false) = false ∧
    (match v with | .nil => true | .cons _ _ => true | .ref _ => true | _ => false) = false := by
  cases h <;> exact ⟨rfl, rfl⟩

set_option maxHeartbeats 400000 in
/-- a list / tuple of ONE single key: `orderBy = orderBy[0]`, then as for the key itself -/
theorem doSortX_one (P : Params) (hnm : ∀ a, (P.nm a).head? ≠ some '-') (rec) (v : PVal) (k : SortKey) (hv : Leaf P.nm v k) :
    SortsAs P (doSortX P rec) (Val.ofList [v]) [k] ∧ SortsAs P (doSortX P rec) (.tup (Val.ofList [v])) [k] := by
  have hp := fun a => not_dash_prefix (hnm a)
  constructor <;> intro db heap r c l hr <;> unfold doSortX PyJoins.run doSortProg doSortBody <;> cases hv
  all_goals (try obtain ⟨a, d⟩ := k; try cases d)
  all_goals
    simp [Block.exec, Stmt.exec, Cond.eval, Expr.eval, Exprs.eval, St.setVar,
        Const.val, isInstAny, builtinIs, jIsinstance, Env.ofArgs, Res.toCall, keyStr, hp, List.isPrefixOf, sliceFromOf,
        sortedBy_sortkey, Val.ofList, hr, indexOf, idxRes, itemsOf, Val.toList, doSort]


section seqs
variable (heap : Heap Hnd)
@[simp] theorem itemsOf_ofList (l : List PVal) : itemsOf heap (Val.ofList l) = some l := by
  cases l <;> simp [Val.ofList, itemsOf, Val.toList]
@[simp] theorem itemsOf_tup_ofList (l : List PVal) : itemsOf heap (.tup (Val.ofList l)) = some l := by
  simp [itemsOf]
@[simp] theorem sliceFromOf_ofList (a : PVal) (l : List PVal) (n : Nat) :
    sliceFromOf (Val.ofList (a :: l)) n = some (Val.ofList ((a :: l).drop n)) := by
  simp [Val.ofList, sliceFromOf, Val.toList]
@[simp] theorem sliceFromOf_tup_ofList (l : List PVal) (n : Nat) :
    sliceFromOf (.tup (Val.ofList l)) n = some (.tup (Val.ofList (l.drop n))) := by
  simp [sliceFromOf]
@[simp] theorem indexOf_ofList_zero (a : PVal) (l : List PVal) :
    indexOf heap (Val.ofList (a :: l)) (.int 0) = some (.ok a) := by
  have : itemsOf heap (Val.ofList (a :: l)) = some (a :: l) := itemsOf_ofList heap _
  simp only [Val.ofList] at this
  simp [Val.ofList, indexOf, this, idxRes]
@[simp] theorem indexOf_tup_ofList_zero (a : PVal) (l : List PVal) :
    indexOf heap (.tup (Val.ofList (a :: l))) (.int 0) = some (.ok a) := by
  simp [indexOf, idxRes]
theorem len2_ne_1 (n : Nat) : ((n : Int) + 1 + 1 = 1) = False := by
  simp; omega
@[simp] theorem builtinIs_list_ofList (l : List PVal) : builtinIs (Val.ofList l) "list" = some true := by
  cases l <;> simp [builtinIs, Val.ofList]
@[simp] theorem builtinIs_tuple_ofList (l : List PVal) : builtinIs (Val.ofList l) "tuple" = some false := by
  cases l <;> simp [builtinIs, Val.ofList]
@[simp] theorem builtinIs_tuple_tup (t : PVal) : builtinIs (.tup t) "tuple" = some true := by
  simp [builtinIs]
end seqs

set_option maxHeartbeats 400000 in
/-- a list of two or more items: `doSort(results, orderBy[1:]); doSort(results, orderBy[0])` -/
theorem doSortX_many (P : Params) (rec) (v v' : PVal) (vs : List PVal) (ks1 ks2 : List SortKey)
    (h1 : SortsAs P rec v ks1) (h2 : SortsAs P rec (Val.ofList (v' :: vs)) ks2) :
    SortsAs P (doSortX P rec) (Val.ofList (v :: v' :: vs)) (ks1 ++ ks2) := by
  intro db heap r c l hr
  have e2 := h2 db heap r c l hr
  have e1 := h1 db (heap.set r (instList c (doSort (valOf P) ks2 l))) r c (doSort (valOf P) ks2 l) (by simp)
  unfold doSortX PyJoins.run doSortProg doSortBody
  simp [Block.exec, Stmt.exec, Cond.eval, Expr.eval, Exprs.eval, St.setVar, St.setOpt, afterCall,
        Const.val, isInstAny, Env.ofArgs, Res.toCall, e1, e2, Heap.set_set, doSort_append, len2_ne_1]


set_option maxHeartbeats 400000 in
/-- a tuple of two or more items -/
theorem doSortX_manyT (P : Params) (rec) (v v' : PVal) (vs : List PVal) (ks1 ks2 : List SortKey)
    (h1 : SortsAs P rec v ks1) (h2 : SortsAs P rec (.tup (Val.ofList (v' :: vs))) ks2) :
    SortsAs P (doSortX P rec) (.tup (Val.ofList (v :: v' :: vs))) (ks1 ++ ks2) := by
  intro db heap r c l hr
  have e2 := h2 db heap r c l hr
  have e1 := h1 db (heap.set r (instList c (doSort (valOf P) ks2 l))) r c (doSort (valOf P) ks2 l) (by simp)
  unfold doSortX PyJoins.run doSortProg doSortBody
  simp [Block.exec, Stmt.exec, Cond.eval, Expr.eval, Exprs.eval, St.setVar, St.setOpt, afterCall,
        Const.val, isInstAny, Env.ofArgs, Res.toCall, e1, e2, Heap.set_set, doSort_append, len2_ne_1]

theorem doSortX_leaf' (P : Params) (hnm : ∀ a, (P.nm a).head? ≠ some '-') (rec) (v : PVal) (k : SortKey) (hv : Leaf P.nm v k) :
    SortsAs P (doSortX P rec) v [k] := by
  intro db heap r c l hr
  rw [doSortX_leaf P hnm rec db heap r c l v k hr hv]
  rfl

/-- **the TRANSLATED `doSort` computes the hand model's `doSort`**, for every `orderBy` value that denotes a key list,
    every list object of instances, and every recursion allowance `n` from some `n0` on -/
theorem doSortN_denotes (P : Params) (hnm : ∀ a, (P.nm a).head? ≠ some '-') {v : PVal} {ks : List SortKey}
    (h : Denotes P.nm v ks) : ∃ n0, ∀ n, n0 ≤ n → SortsAs P (doSortN P n) v ks := by
  induction h with
  | leaf v k hl =>
    refine ⟨1, fun n hn => ?_⟩
    obtain ⟨m, rfl⟩ : ∃ m, n = m + 1 := ⟨n - 1, by omega⟩
    exact doSortX_leaf' P hnm _ v k hl
  | list1 v k hl =>
    refine ⟨1, fun n hn => ?_⟩
    obtain ⟨m, rfl⟩ : ∃ m, n = m + 1 := ⟨n - 1, by omega⟩
    exact (doSortX_one P hnm _ v k hl).1
  | tup1 v k hl =>
    refine ⟨1, fun n hn => ?_⟩
    obtain ⟨m, rfl⟩ : ∃ m, n = m + 1 := ⟨n - 1, by omega⟩
    exact (doSortX_one P hnm _ v k hl).2
  | listN v v' vs ks1 ks2 _ _ ih1 ih2 =>
    obtain ⟨n1, h1⟩ := ih1
    obtain ⟨n2, h2⟩ := ih2
    refine ⟨max n1 n2 + 1, fun n hn => ?_⟩
    obtain ⟨m, rfl⟩ : ∃ m, n = m + 1 := ⟨n - 1, by omega⟩
    exact doSortX_many P _ v v' vs ks1 ks2 (h1 m (by omega)) (h2 m (by omega))
  | tupN v v' vs ks1 ks2 _ _ ih1 ih2 =>
    obtain ⟨n1, h1⟩ := ih1
    obtain ⟨n2, h2⟩ := ih2
    refine ⟨max n1 n2 + 1, fun n hn => ?_⟩
    obtain ⟨m, rfl⟩ : ∃ m, n = m + 1 := ⟨n - 1, by omega⟩
    exact doSortX_manyT P _ v v' vs ks1 ks2 (h1 m (by omega)) (h2 m (by omega))

/-- the usual spelling — a list of names — denotes its key list, and needs as many nested calls as it has keys -/
theorem keysVal_denotes (nm : Nat → List Char) (k : SortKey) (ks : List SortKey) : Denotes nm (keysVal nm (k :: ks)) (k :: ks) := by
  induction ks generalizing k with
  | nil => exact Denotes.list1 _ k (Leaf.str k)
  | cons k' ks ih =>
    exact Denotes.listN _ _ _ [k] (k' :: ks) (Denotes.leaf _ k (Leaf.str k)) (ih k')

end SqlObjVerif.Joins
