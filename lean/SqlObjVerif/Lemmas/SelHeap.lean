import SqlObjVerif.Model.SelHeap
import SqlObjVerif.Lemmas.SelOps
namespace SqlObjVerif.Slice
open SqlObjVerif.PyMini SqlObjVerif.PyOps

def Rel (h : Heap) : CVal α → Sel α → Prop
  | .sel p, .q w => ∃ dd, h.cells p = some dd ∧ winOfDict dd = some w ∧ dd.get? "limit" = none
  | .lst l, .lst l' => l = l'
  | .err, .err => True
  | _, _ => False

theorem Rel.mono {h h' : Heap} (hwf : h.WF) (hlow : ∀ q, q < h.next → h'.cells q = h.cells q)
    {c : CVal α} {a : Sel α} (hr : Rel h c a) : Rel h' c a := by
  cases c <;> cases a <;> simp_all [Rel]
  rename_i p w
  obtain ⟨dd, hc, hw, hl⟩ := hr
  have hp : p < h.next := by
    rcases Nat.lt_or_ge p h.next with hlt | hge
    · exact hlt
    · rw [hwf p hge] at hc; cases hc
  exact ⟨dd, by rw [hlow p hp]; exact hc, hw, hl⟩

theorem winOfDict_new (dd : Dict) (s : Int) (e : Option Int) (hs : ¬ s < 0)
    (he : ∀ x, e = some x → ¬ x < 0)
    (h1 : dd.get? "start" = some (.int s)) (h2 : dd.get? "end" = some (ofOpt e)) :
    winOfDict dd = some ⟨s.toNat, e.map Int.toNat⟩ := by
  cases e with
  | none => simp [winOfDict, h1, h2, ofOpt, hs]
  | some x => simp [winOfDict, h1, h2, ofOpt, hs, he x rfl]

/-- pointwise relation of two lists of the same length -/
inductive All2 (R : β → γ → Prop) : List β → List γ → Prop where
  | nil : All2 R [] []
  | cons {x y l1 l2} : R x y → All2 R l1 l2 → All2 R (x :: l1) (y :: l2)

theorem forall2_push {R : β → γ → Prop} {l1 : List β} {l2 : List γ} {x : β} {y : γ}
    (h : All2 R l1 l2) (hxy : R x y) : All2 R (l1 ++ [x]) (l2 ++ [y]) := by
  induction h with
  | nil => exact .cons hxy .nil
  | cons h0 _ ih => exact .cons h0 ih

theorem All2.imp {R S : β → γ → Prop} {l1 : List β} {l2 : List γ} (hRS : ∀ x y, R x y → S x y)
    (h : All2 R l1 l2) : All2 S l1 l2 := by
  induction h with
  | nil => exact .nil
  | cons h0 _ ih => exact .cons (hRS _ _ h0) ih

theorem forall2_get {R : β → γ → Prop} {l1 : List β} {l2 : List γ}
    (h : All2 R l1 l2) (i : Nat) :
    (l1[i]? = none ∧ l2[i]? = none) ∨ (∃ x y, l1[i]? = some x ∧ l2[i]? = some y ∧ R x y) := by
  induction h generalizing i with
  | nil => left; simp
  | cons hxy _ ih =>
    cases i with
    | zero => right; exact ⟨_, _, rfl, rfl, hxy⟩
    | succ i => simpa using ih i

/-- **simulation**: one session statement on the heap (translated `__getitem__` + `clone` + `__init__`)
    and on the value-level model stay related, for every oracle -/
theorem cstep_sim (o : Orc) (d : Dialect) (xs : List α) (st : CState α) (av : List (Sel α)) (op : SOp)
    (hwf : st.heap.WF) (hR : All2 (Rel st.heap) st.vals av) :
    (cstep o d xs st op).heap.WF ∧
      All2 (Rel (cstep o d xs st op).heap) (cstep o d xs st op).vals (astep d xs av op) := by
  obtain ⟨i, a, b⟩ := op
  rcases forall2_get hR i with ⟨h1, h2⟩ | ⟨x, y, h1, h2, hxy⟩
  · simp [cstep, astep, h1, h2, hwf, hR]
  · cases x with
    | lst l =>
      cases y <;> simp [Rel] at hxy
      subst hxy
      simp only [cstep, astep, h1, h2, CState.push, stepSelX]
      exact ⟨hwf, forall2_push hR (by simp [Rel])⟩
    | err =>
      cases y <;> simp [Rel] at hxy
      simp only [cstep, astep, h1, h2, CState.push, stepSelX]
      exact ⟨hwf, forall2_push hR (by simp [Rel])⟩
    | sel p =>
      cases y <;> simp [Rel] at hxy
      rename_i w
      obtain ⟨dd, hc, hw, hl⟩ := hxy
      simp only [cstep, astep, h1, h2, hc, Option.bind, hw, stepSelX, sliceSelX]
      have hclone : ∀ (s : Int) (e : Option Int), ¬ s < 0 → (∀ x, e = some x → ¬ x < 0) →
          (doClone o st p s e).heap.WF ∧
            All2 (Rel (doClone o st p s e).heap) (doClone o st p s e).vals
              (av ++ [.q ⟨s.toNat, e.map Int.toNat⟩]) := by
        intro s e hs he
        obtain ⟨h', r, d', hrun, hr1, hr2, hwf', hlow, hcell, hst, hen, hlim⟩ :=
          clone_spec o st.heap p dd s e hwf hc hl
        simp only [doClone, hrun]
        refine ⟨hwf', forall2_push (All2.imp (fun x y hxy => Rel.mono hwf hlow hxy) hR) ?_⟩
        exact ⟨d', hcell, winOfDict_new d' s e hs he hst hen, hlim⟩
      generalize run Extracted.sliceProg (envSlice w a b) = out
      cases out with
      | self => exact ⟨hwf, forall2_push hR ⟨dd, hc, hw, hl⟩⟩
      | clone s e =>
        cases s with
        | none => exact ⟨hwf, forall2_push hR (by simp [selOfOutcome, Rel])⟩
        | some s =>
          by_cases hs : s < 0
          · simp only [hs, if_true, selOfOutcome]
            exact ⟨hwf, forall2_push hR (by simp [Rel])⟩
          · simp only [hs, if_false, selOfOutcome]
            cases e with
            | none => simpa using hclone s none hs (by intro x hx; cases hx)
            | some e =>
              by_cases he : e < 0
              · simp only [he, if_true]
                exact ⟨hwf, forall2_push hR (by simp [Rel])⟩
              · simp only [he, if_false]
                simpa using hclone s (some e) hs (by intro x hx; cases hx; exact he)
      | listSlice a' b' =>
        simp only [selOfOutcome]
        cases rows d xs w with
        | none => exact ⟨hwf, forall2_push hR (by simp [Rel])⟩
        | some l => exact ⟨hwf, forall2_push hR (by simp [Rel])⟩
      | _ => exact ⟨hwf, forall2_push hR (by simp [selOfOutcome, Rel])⟩

theorem session_sim (o : Orc) (d : Dialect) (xs : List α) (ops : List SOp) :
    (runC o d xs ops).heap.WF ∧ All2 (Rel (runC o d xs ops).heap) (runC o d xs ops).vals (runA d xs ops) := by
  unfold runC runA
  have h0 : (initC : CState α).heap.WF ∧ All2 (Rel (initC : CState α).heap) (initC : CState α).vals [.q ⟨0, none⟩] := by
    refine ⟨?_, .cons ⟨[], by simp [initC], by simp [winOfDict, Dict.get?], by simp [Dict.get?]⟩ .nil⟩
    intro q hq
    have : q ≠ 0 := by simp [initC] at hq; omega
    simp [initC, this]
  generalize (initC : CState α) = st at h0
  generalize ([.q ⟨0, none⟩] : List (Sel α)) = av at h0
  induction ops generalizing st av with
  | nil => exact h0
  | cons op ops ih =>
    simp only [List.foldl]
    exact ih _ _ (cstep_sim o d xs st av op h0.1 h0.2)

end SqlObjVerif.Slice
