import SqlObjVerif.Lemmas.FailXSet
/-!
C06, `obj.syncUpdate()`: the translated `SQLObject.syncUpdate` (main.py) under the schedule `inj` = the hand-compiled
tree `Fail.syncProg c id .done` (operation `Op.sync c id`) under the same schedule — outcome, statement log, post-state —
for EVERY state: nothing pending ⇒ no statement at all; otherwise ONE `UPDATE` listing the pending values in creation
order (`sorted(…, key=creationOrder)` = `sortAsg`); if that UPDATE is refused by the database or hit by the injected
error, the pending values and the dirty flag SURVIVE (`sqlmeta.dirty = False` / `_SO_createValues = {}` come after
`_SO_update` returned; the write lock is released by `finally`), else pending := [] and dirty := false (`Mem.synced`).
Hypothesis: the pending values of the instance have pairwise distinct column numbers (a dict), all columns of the class.
-/
namespace SqlObjVerif.PyFail
open SqlObjVerif.PyMain (PV FnKind Flag Expr Cond LExpr Target DRef ColAttr R mapR ofOpt PDict CVal
  dget dhas dset dupdate dictOf sortByKey ofVal toVal? pvIdx pyBool nameOf natOf itemsOf dbNameOf optMap
  updItemOf dictItemOf cvOf Block)
open SqlObjVerif.PyMain.Extracted
open SqlObjVerif.Fail (Err Schema Inj Extra clsOf hit exec bump applyMem Mem updPending rowVals In)
open SqlObjVerif.PyPure (mapR_ok_of)

theorem cv_mk (sch inj props s c id no sg lk vq) :
    (FW.mk sch inj props s c id false no sg lk vq).cv = Fail.pendingOf s c id := rfl

theorem cv_mkW (sch : Schema) (inj : Option Inj) (props : Nat → Extra) (s : Fail.St) (c id : Nat) (vq : List Bool) :
    (mkW sch inj props s c id vq).cv = Fail.pendingOf s c id := rfl

theorem sync_run_dyn (sch : Schema) (inj : Option Inj) (f : Fail.St → Fail.Prog) (s : Fail.St) :
    Fail.run sch inj (.dyn f) s = Fail.run sch inj (f s) s := by
  simp only [Fail.run]

theorem syncUpdateF_eq (sch : Schema) (inj : Option Inj) (props : Nat → Extra) (s : Fail.St) (c id : Nat)
    (hp : ((Fail.pendingOf s c id).map (·.1)).Nodup ∧ ∀ e ∈ Fail.pendingOf s c id, e.1 < (clsOf sch c).cols.length) :
    viewObs (syncUpdateF (mkW sch inj props s c id [])) =
      some (runObs (Fail.run sch inj (Fail.syncProg c id .done) s)) := by
  obtain ⟨hnd, hlt⟩ := hp
  unfold syncUpdateF syncUpdateProg syncUpdate_nlocals syncUpdate_nlists syncUpdate_ndicts
  simp only [Fail.syncProg, sync_run_dyn]
  generalize hP : Fail.pendingOf s c id = p at hnd hlt
  by_cases hE : p = []
  · subst hE
    pfwith [cv_mk, hP, pvDict]
    simp [viewObs, Outcome.view, runObs, run_done]
  · have hcols : (clsOf sch c).cols ≠ [] := by
      cases p with
      | nil => exact absurd rfl hE
      | cons a p =>
        intro h
        have := hlt a (by simp)
        rw [h] at this
        exact Nat.not_lt_zero _ this
    pfwith [cv_mk, hP, pvDict, hE, hcols]
    generalize hM : mapR _ p = m
    have hm := mapR_ok_of hM (fun e => (e.1, PV.pair (.name e.1) (ofVal e.2))) (by
      intro x hx
      simp [hlt x hx])
    subst hm
    clear hM
    simp only [PyPure.R.bind_ok, PyPure.sortByKey_map, List.map_map]
    pfwith [hE, hcols]
    generalize hM : mapR _ (sortByKey p) = m
    have hm := mapR_ok_of hM (fun e => PV.pair (.dbName e.1) (ofVal e.2)) (by
      intro x hx
      simp [hlt x ((PyPure.mem_sortByKey _ _).mp hx)])
    subst hm
    clear hM
    have hsort : sortByKey p = Fail.sortAsg p := sortByKey_eq_sortAsg p hnd
    frun []
    cases hs : sendStmt sch inj (Fail.Stmt.update c id (Fail.sortAsg p)) s with
    | mk s1 r =>
    cases r
    · pfwith [hE, hcols, hsort, hs, FW.setS, FW.setDirty, FW.clearCV, FW.mem, syncUpdate_for0]
      simp [viewObs, Outcome.view, runObs, obs]
      simp only [applyMem, mapInst_mapInst']
    · pfwith [hE, hcols, hsort, hs, FW.setS]
      simp [viewObs, Outcome.view, runObs]

/-- nothing pending: no statement, nothing changes, no error -/
theorem syncUpdateF_nothing (sch : Schema) (inj : Option Inj) (props : Nat → Extra) (s : Fail.St) (c id : Nat)
    (h0 : Fail.pendingOf s c id = []) :
    viewObs (syncUpdateF (mkW sch inj props s c id [])) = some (obs s, Option.none) := by
  rw [syncUpdateF_eq sch inj props s c id (by simp [h0])]
  simp [Fail.syncProg, sync_run_dyn, h0, run_done, runObs]

/-- a statement that raises leaves `core` alone (`sendStmt`: injected error, or rejected with no effect) -/
theorem sendStmt_err_core (sch : Schema) (inj : Option Inj) (q : Fail.Stmt) (s s1 : Fail.St) (e : Err)
    (hs : sendStmt sch inj q s = (s1, some e)) : s1.core = s.core := by
  simp only [sendStmt] at hs
  split at hs
  · injection hs with h1 _; subst h1; rfl
  · split at hs
    · injection hs with h1 _; subst h1; rfl
    · injection hs with _ h2; exact absurd h2 (by simp)

/-- **the failure case, spelled out**: something is pending and the one UPDATE raises `e` (refused by the database or
    hit by the injected error) ⇒ the translated `syncUpdate` raises `e`, with the lock released, in a state that differs
    from `s` only by the statement counter / log: `core` — the tables, and the instance's pending values and dirty flag —
    is unchanged -/
theorem syncUpdateF_refused (sch : Schema) (inj : Option Inj) (props : Nat → Extra) (s : Fail.St) (c id : Nat)
    (hp : ((Fail.pendingOf s c id).map (·.1)).Nodup ∧ ∀ e ∈ Fail.pendingOf s c id, e.1 < (clsOf sch c).cols.length)
    (hne : Fail.pendingOf s c id ≠ []) (s1 : Fail.St) (e : Err)
    (hs : sendStmt sch inj (.update c id (Fail.sortAsg (Fail.pendingOf s c id))) s = (s1, some e)) :
    viewObs (syncUpdateF (mkW sch inj props s c id [])) = some (obs s1, some e) ∧
    (∃ w, syncUpdateF (mkW sch inj props s c id []) = .exc w e ∧ w.lock = false ∧ obs w.s = obs s1) ∧
    s1.core = s.core ∧ Fail.pendingOf s1 c id = Fail.pendingOf s c id := by
  have hv : viewObs (syncUpdateF (mkW sch inj props s c id [])) = some (obs s1, some e) := by
    rw [syncUpdateF_eq sch inj props s c id hp]
    simp only [Fail.syncProg, sync_run_dyn, List.isEmpty_iff, hne, if_false]
    frun [hs]
    rfl
  have hc := sendStmt_err_core sch inj _ s s1 e hs
  refine ⟨hv, ?_, hc, by simp only [Fail.pendingOf, hc]⟩
  generalize syncUpdateF (mkW sch inj props s c id []) = o at hv
  cases o with
  | exc w e' =>
    simp only [viewObs, Outcome.view] at hv
    cases hl : w.lock <;> cases hg : w.sigSuppress <;> simp [hl, hg] at hv
    exact ⟨w, by rw [hv.2], hl, hv.1⟩
  | ret w v =>
    simp only [viewObs, Outcome.view] at hv
    split at hv <;> simp at hv
  | deadlock w => simp [viewObs, Outcome.view] at hv
  | stuck => simp [viewObs, Outcome.view] at hv

/-! ### closed witnesses: the translated `syncUpdate`, run by the kernel -/

/-- a lazy class, two columns, the first one UNIQUE -/
def syncSch : Schema := [{ cols := [{ unique := true }, {}], lazy := true }]

/-- rows 1 = (5, 0) and 2 = (7, 0); instance 2 is cached, dirty, with two pending values: col1 := 9, then col0 := `v` -/
def syncSt (v : Int) : Fail.St :=
  { core := { tabs := [[⟨1, [some 5, some 0]⟩, ⟨2, [some 7, some 0]⟩]], links := [],
              insts := [⟨0, 2, [some v, some 9], [(1, some 9), (0, some v)], true, false⟩], reg := [(0, 2)] },
    seqs := [2], lastId := 2, n := 0, changes := 0, log := [] }

/-- col0 := 5 collides with row 1: ONE UPDATE (columns in creation order) is sent and rejected by the duplicate key;
    the translated `syncUpdate` raises it, the row is unchanged, the instance KEEPS both pending values and `dirty` -/
example : viewObs (syncUpdateF (mkW syncSch Option.none (fun _ => .unknown) (syncSt 5) 0 2 [])) =
    some (⟨(syncSt 5).core, [2], 2, 1, [.update 0 2 [(0, some 5), (1, some 9)]]⟩, some .duplicate) := by
  decide +kernel

/-- what the next witnesses show of an outcome: per instance (pending values, dirty), the tables, the number of
    statements sent, the error raised -/
structure SyncView where
  insts : List (List (Nat × Fail.Val) × Bool)
  tabs : List (List Fail.Row)
  sent : Nat
  err : Option Err
  deriving DecidableEq

def syncView (r : Option (Obs × Option Err)) : Option SyncView :=
  r.map fun r => ⟨r.1.core.insts.map fun i => (i.pending, i.dirty), r.1.core.tabs, r.1.log.length, r.2⟩

example : syncView (viewObs (syncUpdateF (mkW syncSch Option.none (fun _ => .unknown) (syncSt 5) 0 2 []))) =
    some ⟨[([(1, some 9), (0, some 5)], true)], [[⟨1, [some 5, some 0]⟩, ⟨2, [some 7, some 0]⟩]], 1, some .duplicate⟩ := by
  decide +kernel

/-- the same under an injected `OperationalError` at the first statement (col0 := 6 would have been accepted) -/
example : syncView (viewObs (syncUpdateF (mkW syncSch (some ⟨1, .operational⟩) (fun _ => .unknown) (syncSt 6) 0 2 []))) =
    some ⟨[([(1, some 9), (0, some 6)], true)], [[⟨1, [some 5, some 0]⟩, ⟨2, [some 7, some 0]⟩]], 1, some .operational⟩ := by
  decide +kernel

/-- contrast: col0 := 6 is accepted: the row is written, nothing pending, not dirty -/
example : syncView (viewObs (syncUpdateF (mkW syncSch Option.none (fun _ => .unknown) (syncSt 6) 0 2 []))) =
    some ⟨[([], false)], [[⟨1, [some 5, some 0]⟩, ⟨2, [some 6, some 9]⟩]], 1, Option.none⟩ := by
  decide +kernel

/-- nothing pending: no statement -/
example : syncView (viewObs (syncUpdateF (mkW syncSch (some ⟨1, .operational⟩) (fun _ => .unknown)
      { syncSt 6 with core := { (syncSt 6).core with insts := [⟨0, 2, [some 7, some 0], [], false, false⟩] } } 0 2 []))) =
    some ⟨[([], false)], [[⟨1, [some 5, some 0]⟩, ⟨2, [some 7, some 0]⟩]], 0, Option.none⟩ := by
  decide +kernel

/-- the hypotheses of `syncUpdateF_refused` hold of the first witness (non-vacuity) -/
example : (((Fail.pendingOf (syncSt 5) 0 2).map (·.1)).Nodup ∧
      ∀ e ∈ Fail.pendingOf (syncSt 5) 0 2, e.1 < (clsOf syncSch 0).cols.length) ∧ Fail.pendingOf (syncSt 5) 0 2 ≠ [] ∧
    (sendStmt syncSch Option.none (.update 0 2 (Fail.sortAsg (Fail.pendingOf (syncSt 5) 0 2))) (syncSt 5)).2 = some .duplicate := by
  decide +kernel

end SqlObjVerif.PyFail
