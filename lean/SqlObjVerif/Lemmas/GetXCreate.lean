import SqlObjVerif.Lemmas.GetXLife
set_option linter.unusedSimpArgs false
namespace SqlObjVerif.Cache
open SqlObjVerif.PyGet
open SqlObjVerif.PyGet.Extracted

@[simp] theorem insertEntry_rows (s : State) (c : Cls) (k : Id) (h : Handle) : (insertEntry s c k h).rows = s.rows :=
  (insertEntry_fields s c k h).1
@[simp] theorem insertEntry_obj (s : State) (c : Cls) (k : Id) (h : Handle) : (insertEntry s c k h).obj = s.obj :=
  (insertEntry_fields s c k h).2.2.2.1
@[simp] theorem tick_rows (s : State) (c : Cls) : (tick s c).rows = s.rows := (tick_facts s c).2.1
@[simp] theorem tick_obj_cls (s : State) (c : Cls) (h : Handle) : ((tick s c).obj h).cls = (s.obj h).cls :=
  ((tick_facts s c).2.2.2.2.2.2 h).1

theorem initCall_one (w : GW) (h : Handle) (k : Id) :
    initCall w h [.key k] [] =
      if k ∈ w.s.rows (w.s.obj h).cls then
        .ret { w with s := setObj w.s h { w.s.obj h with id := k }, wlock := upd w.wlock h false,
                      dirty := upd w.dirty h false } .none
      else .exc { w with s := setObj w.s h { w.s.obj h with id := k }, wlock := upd w.wlock h false } .notFound := by
  rw [← initCall_none w h k .none (Or.inl rfl)]
  simp [initCall, bindArgs, bindFrom, initRow_params, initRow_defaults, kwGet]

def idArg : Option Id → Val
  | none => .none
  | some k => .key k

/-- `inst._SO_finishCreate(id)`: INSERT (a duplicate id raises), `cache.created(id, cls, self)` = `insertEntry ∘ tick`,
    then `_init(id)` finds the row -/
theorem finishCreateG_eq (w : GW) (h : Handle) (ko : Option Id) (hwf : w.WF)
    (hl : w.lock (w.s.obj h).cls = false) (hfr : w.s.cfg.cullFraction ≠ 0) (hrep : Rep w.s (w.s.obj h).cls)
    (hk : ahasKey (ko.getD (w.s.maxId (w.s.obj h).cls + 1)) (w.s.fac (w.s.obj h).cls).strong = false) :
    finishCreateG w h (idArg ko) =
      let c := (w.s.obj h).cls
      let k := ko.getD (w.s.maxId c + 1)
      if k ∈ w.s.rows c then .exc { w with dirty := upd w.dirty h false } .duplicate
      else
        let s1 : State := { w.s with rows := upd w.s.rows c (w.s.rows c ++ [k]), maxId := upd w.s.maxId c (max (w.s.maxId c) k) }
        let s2 := insertEntry (tick s1 c) c k h
        .ret { w with s := setObj s2 h { s2.obj h with id := k }, made := addMade w.made c,
                      dirty := upd w.dirty h false, wlock := upd w.wlock h false } .none := by
  unfold finishCreateG finishCreateProg finishCreate_nlocals
  generalize hkk : ko.getD (w.s.maxId (w.s.obj h).cls + 1) = k at hk
  by_cases hr : k ∈ w.s.rows (w.s.obj h).cls
  · cases ko <;> simp only [idArg, Option.getD] at hkk ⊢ <;> subst hkk <;> srun
  · cases ko <;> simp only [idArg, Option.getD] at hkk ⊢ <;> subst hkk <;> srun
    all_goals rw [csCreated_fresh]
    case none.hwf => exact WF_congr hwf rfl rfl rfl
    case some.hwf => exact WF_congr hwf rfl rfl rfl
    case none.hl => simpa using hl
    case some.hl => simpa using hl
    case none.hfr => simpa using hfr
    case some.hfr => simpa using hfr
    case none.hrep => exact rep_congr hrep rfl (fun _ => rfl)
    case some.hrep => exact rep_congr hrep rfl (fun _ => rfl)
    case none.hk => simpa using hk
    case some.hk => simpa using hk
    all_goals simp [PyGet.run, Block.exec, Stmt.exec, Cond.eval, Expr.eval, evalList, evalOpt, eval2, afterCall, St.setVar, St.setOpt,
        St.setAll, Env.get, Res.toCall, pyBool, zipKw, Val.isNone, ExcPat.catches, PyGet.forLoop, Val.toList, Val.ofList,
        bindArgs, bindFrom, kwGet,
        soIface, soAttr, soSetAttr, soCall, connCall, knownOpaque, noExt, ext1, ext2, VcacheSet, Vconn, VnewLock, Vcols, Vrow,
        Vpickle, optV, Vsr, GW.construct, initCall_one, upd_upd, *]

theorem setObj_held_same (s : State) (h : Handle) (o : Obj) (ho : o.held = (s.obj h).held) (x : Handle) :
    ((setObj s h o).obj x).held = (s.obj x).held := by
  simp only [setObj, upd]
  split
  · rename_i hx; subst hx; exact ho
  · rfl

/-- `cull` does not look at ids: it commutes with `self.id = k` -/
theorem cull_setId (s : State) (c : Cls) (h : Handle) (k : Id) :
    cull (setObj s h { s.obj h with id := k }) c = setObj (cull s c) h { (cull s c).obj h with id := k } := by
  have hd := setObj_dead_same s h { s.obj h with id := k } rfl
  have hh := setObj_held_same s h { s.obj h with id := k } rfl
  unfold cull
  simp only [setObj_fac, setObj_cfg, hd, hh]
  simp only [setObj, upd]
  congr 1
  funext x
  by_cases hx : x = h
  · subst hx; simp only [upd, if_true]; split <;> simp_all
  · simp only [upd, hx, if_false]

def trigOf (s : State) (c : Cls) : Bool :=
  if Extracted.Cache.cullTriggerStrict then decide ((s.fac c).cullCount > s.cfg.cullFrequency)
  else decide ((s.fac c).cullCount ≥ s.cfg.cullFrequency)

def tickB (d t : Bool) (s : State) (c : Cls) : State :=
  if d then
    (if t then cull (setFac s c { s.fac c with cullCount := 0 }) c
     else setFac s c { s.fac c with cullCount := (s.fac c).cullCount + 1 })
  else s

theorem tick_eq_tickB (s : State) (c : Cls) : tick s c = tickB s.cfg.doCache (trigOf s c) s c := rfl

theorem tick_setId (s : State) (c : Cls) (h : Handle) (k : Id) :
    tick (setObj s h { s.obj h with id := k }) c = setObj (tick s c) h { (tick s c).obj h with id := k } := by
  rw [tick_eq_tickB, tick_eq_tickB]
  show tickB s.cfg.doCache (trigOf s c) (setObj s h { s.obj h with id := k }) c = _
  generalize s.cfg.doCache = d
  generalize trigOf s c = t
  cases d with
  | false => rfl
  | true =>
    cases t with
    | false => rfl
    | true => exact cull_setId (setFac s c { s.fac c with cullCount := 0 }) c h k

end SqlObjVerif.Cache
