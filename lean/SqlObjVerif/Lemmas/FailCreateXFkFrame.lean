import SqlObjVerif.Lemmas.FailCreateXFkMain
import SqlObjVerif.Lemmas.PyCreateFrame
/-!
C06, operation CREATE with ForeignKeys given by object: the frame theorem of the translated constructor `createFT`
(the by-object setters run the translated `_SO_setValue`; the setter of an inherited column is a parameter whose frame
is assumed), and closed runs of the translated constructor (`decide +kernel`).
-/
namespace SqlObjVerif.PyCreate
open SqlObjVerif.PyMain (PV PDict)
open SqlObjVerif.Fail (Err Schema Inj Extra In clsOf)
open SqlObjVerif.PyFail (FW mkW vqOf vqEx viewObs OutFr setFWith propCallT setValueV)

theorem setValueV_frame (w : FW) (col : Nat) (v : Fail.Val) : OutFr w (setValueV w col v) :=
  PyFail.run_frameX PyFail.noCall PyFail.noCall_frame _ _ _ _ _ _ w

/-- the call table with translated setters keeps the ghost counter exact if the inherited-column setter does -/
theorem propCallT_frame (ps : FW → Nat → Nat → In → PyFail.Outcome) (hps : ∀ w p col v, OutFr w (ps w p col v)) :
    ∀ m args kw w, OutFr w (propCallT ps m args kw w) := by
  intro m args kw w
  unfold propCallT
  split
  · split
    · split
      · exact setValueV_frame _ _ _
      · exact hps _ _ _ _
      · exact PyFail.propOutcome_frame _ _ (PyFail.setProp_fr _ _)
    · trivial
  · trivial

theorem setFT_frame (ps : FW → Nat → Nat → In → PyFail.Outcome) (hps : ∀ w p col v, OutFr w (ps w p col v)) (sup : Bool)
    (w : FW) (kw : PDict) : OutFr w (setFWith (propCallT ps) sup w kw) :=
  PyFail.run_frameX (propCallT ps) (propCallT_frame ps hps) _ _ _ _ _ _ w

/-- **Frame, for the translated constructor with by-object keywords.**  Under every schedule, defaults table, keyword
    list: the ghost counter of the state `Cls(id=…, **pd)` ends in is ≥ the initial one, and if it is equal, `core` is
    unchanged. -/
theorem createFT_frame (ps : FW → Nat → Nat → In → PyFail.Outcome) (hps : ∀ w p col v, OutFr w (ps w p col v))
    (dflt : Nat → Option In) (dsql : Nat → Bool) (sch : Schema) (inj : Option Inj) (props : Nat → Extra)
    (s : Fail.St) (c : Nat) (vq : List Bool) (id? : Option Nat) (pd : List (Nat × In)) :
    OutFr (mkW sch inj props s c 0 vq) (createFT ps dflt dsql sch inj props s c vq id? pd) :=
  createFWith_frame _ (setFT_frame ps hps false) _ _ _ _

/-- `Cls(x=<object 2>, a=1)` for the columns `[a, xID]` (`x` = name 2, the by-object setter of column 1), no fault: the
    translated constructor inserts `[1, 2]` -/
example :
    (viewObs (createFT (fun _ _ _ _ => .stuck) (fun _ => Option.none) (fun _ => false)
        [{ cols := [{}, { fk := some (0, .none) }] }] Option.none (fun k => if k = 2 then .fk 1 (some 2) else .unknown)
        { core := { tabs := [[]], links := [], insts := [], reg := [] }, seqs := [0], lastId := 0, n := 0, changes := 0, log := [] }
        0 (vqOf [(0, .ok (some 1))] ++ vqEx [.fk 1 (some 2)]) Option.none [(2, .ok Option.none), (0, .ok (some 1))])).map
          (fun r => (r.1.core.tabs, r.1.core.reg, r.1.n, r.2)) =
      some ([[⟨1, [some 1, some 2]⟩]], [(0, 1)], 2, Option.none) := by
  decide +kernel

/-- the same constructor call, a database error injected at statement 1 (the INSERT): nothing is left -/
example :
    (viewObs (createFT (fun _ _ _ _ => .stuck) (fun _ => Option.none) (fun _ => false)
        [{ cols := [{}, { fk := some (0, .none) }] }] (some ⟨1, .operational⟩) (fun k => if k = 2 then .fk 1 (some 2) else .unknown)
        { core := { tabs := [[]], links := [], insts := [], reg := [] }, seqs := [0], lastId := 0, n := 0, changes := 0, log := [] }
        0 (vqOf [(0, .ok (some 1))] ++ vqEx [.fk 1 (some 2)]) Option.none [(2, .ok Option.none), (0, .ok (some 1))])).map
          (fun r => (r.1.core.tabs, r.1.core.insts.length, r.1.core.reg, r.2)) =
      some ([[]], 0, [], some .operational) := by
  decide +kernel

/-- without the by-object keyword the required ForeignKey column is missing: `TypeError` before any statement -/
example :
    (viewObs (createFT (fun _ _ _ _ => .stuck) (fun _ => Option.none) (fun _ => false)
        [{ cols := [{}, { fk := some (0, .none) }] }] Option.none (fun k => if k = 2 then .fk 1 (some 2) else .unknown)
        { core := { tabs := [[]], links := [], insts := [], reg := [] }, seqs := [0], lastId := 0, n := 0, changes := 0, log := [] }
        0 (vqOf [(0, .ok (some 1))]) Option.none [(0, .ok (some 1))])).map
          (fun r => (r.1.core.tabs, r.1.n, r.2)) =
      some ([[]], 0, some .typeError) := by
  decide +kernel

/-- the hypotheses of `C06_translated_create_fkobj_eq_model` are satisfiable: that constructor call is an instance -/
example (inj : Option Inj) (s : Fail.St) :=
  C06_translated_create_fkobj_eq_model (fun _ _ _ _ => .stuck) (fun _ => Option.none) (fun _ => false)
    [{ cols := [{}, { fk := some (0, .none) }] }] inj (fun k => if k = 2 then .fk 1 (some 2) else .unknown) s 0 Option.none
    [(2, .ok Option.none), (0, .ok (some 1))] [(0, .ok (some 1))] [(2, .ok Option.none)] (by decide) rfl rfl
    (fun e he => by
      simp only [List.mem_singleton] at he
      subst he
      exact ⟨1, some 2, rfl, by decide, rfl⟩)
    (by decide) (by decide) _ _ rfl rfl

end SqlObjVerif.PyCreate
