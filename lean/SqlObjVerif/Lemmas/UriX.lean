import SqlObjVerif.Model.UriX
/-!
# C18 — the translated `DBConnection._parseURI` equals the hand model `Uri.parseURI`

One lemma per top-level statement of the translated function (`parseURI_s<k>_exec`: what the statement does to an
arbitrary environment whose relevant slots are known), the loop over `parse_qsl(query)` (`parseURI_loop`), and the
chain `parseURI_translated`.  The Windows branch (`parseURI_s7`) is dead under the hypothesis `os.name ≠ 'nt'`.
-/
namespace SqlObjVerif.UriX
open SqlObjVerif.Uri
open SqlObjVerif.PyUri hiding Str
open SqlObjVerif.PyUri.Extracted

theorem put_same (env : Env) (x : Nat) (v : Val) (h : env x = some v) : env.put x v = env := by
  funext y
  by_cases hy : y = x
  · subst hy; simp [h]
  · simp [hy]

@[simp] theorem put_put (env : Env) (x : Nat) (v w : Val) : (env.put x v).put x w = env.put x w := by
  funext y
  by_cases hy : y = x <;> simp [hy]

macro "pyu" : tactic => `(tactic| simp [Stmt.exec, Block.exec, Expr.eval, Exprs.eval, callFn, uriFn, attrOf, getattrD,
  uriGetAttr, uriGlob, parsedObj, quoteR, aget, Target.bind, bindAll, zipKw, iterOf, strMethod, pyMod, pyFormat, fmtArgs, Res.seq_norm, *])

theorem findFrom_single (c : Nat) (s : List Nat) (i : Nat) :
    (findFrom [c] s i).isSome = s.contains c := by
  induction s generalizing i with
  | nil => simp [findFrom]
  | cons x s ih =>
    simp only [findFrom]
    by_cases h : x = c
    · subst h; simp
    · have h' : ¬ (c = x) := fun e => h e.symm
      simp [h', ih]

theorem strIn_single (c : Nat) (s : List Nat) : strIn [c] s = s.contains c := findFrom_single c s 0

section
variable (os : List Nat) (cm : Val → String → List Val → R Val) (cv : Val → List Val → List (List Nat × Val) → R Val)

theorem parseURI_s0_exec (env : Env) (uri : List Nat) (h0 : env 0 = some (.str uri)) :
    Stmt.exec (uriIface os cm cv) env parseURI_s0 =
      match urlparse uri with
      | .ok sp => .norm (env.put 1 (parsedObj sp))
      | .valueError => .exc env .valueError
      | .unmodelled => .exc env .unmodelled := by
  unfold parseURI_s0
  cases hu : urlparse uri <;> pyu

theorem parseURI_s1_exec (env : Env) (sp : Split) (h1 : env 1 = some (parsedObj sp)) :
    Stmt.exec (uriIface os cm cv) env parseURI_s1 =
      .norm ((env.put 2 (optStr (hostname sp.netloc))).put 3 (.str sp.path)) := by
  unfold parseURI_s1
  pyu


theorem parseURI_s2_exec (env : Env) :
    Stmt.exec (uriIface os cm cv) env parseURI_s2 = .norm (((env.put 4 .none).put 5 .none).put 6 .none) := by
  unfold parseURI_s2
  pyu

theorem parseURI_s3_exec (env : Env) (sp : Split) (h1 : env 1 = some (parsedObj sp)) (h4 : env 4 = some .none) :
    Stmt.exec (uriIface os cm cv) env parseURI_s3 =
      .norm (env.put 4 (optStr ((nonEmpty? (userinfo sp.netloc).1).map unquote))) := by
  unfold parseURI_s3
  rcases hu : (userinfo sp.netloc).1 with _ | (_ | ⟨c, s⟩) <;> pyu <;> simp [nonEmpty?, truthyS, put_same, h4]

theorem parseURI_s4_exec (env : Env) (sp : Split) (h1 : env 1 = some (parsedObj sp)) (h5 : env 5 = some .none) :
    Stmt.exec (uriIface os cm cv) env parseURI_s4 =
      .norm (env.put 5 (optStr ((nonEmpty? (userinfo sp.netloc).2).map unquote))) := by
  unfold parseURI_s4
  rcases hu : (userinfo sp.netloc).2 with _ | (_ | ⟨c, s⟩) <;> pyu <;> simp [nonEmpty?, truthyS, put_same, h5]

/-- `if parsed.port:`: port 0 is "no port" -/
def portTruthy : Option Nat → Option Nat
  | some 0 => none
  | x => x

theorem parseURI_s5_exec (env : Env) (sp : Split) (h1 : env 1 = some (parsedObj sp)) (h6 : env 6 = some .none) :
    Stmt.exec (uriIface os cm cv) env parseURI_s5 =
      match portOf sp.netloc with
      | none => .exc env .valueError
      | some p => .norm (env.put 6 (optNat (portTruthy p))) := by
  unfold parseURI_s5
  rcases hp : portOf sp.netloc with _ | (_ | (_ | n))
  · pyu
  · pyu; simp [portTruthy, put_same, h6]
  · pyu; simp [portTruthy, put_same, h6]
  · have hn : (n : Int) + 1 ≠ 0 := by omega
    pyu; simp [portTruthy]


theorem parseURI_s6_exec (env : Env) (p : List Nat) (h3 : env 3 = some (.str p)) :
    Stmt.exec (uriIface os cm cv) env parseURI_s6 = .norm (env.put 3 (.str (unquote p))) := by
  unfold parseURI_s6
  pyu

/-- the Windows branch is dead when `os.name` is not `'nt'` -/
theorem parseURI_s7_exec (env : Env) (p : List Nat) (h3 : env 3 = some (.str p)) (hos : os ≠ [110, 116]) :
    Stmt.exec (uriIface os cm cv) env parseURI_s7 = .norm env := by
  unfold parseURI_s7
  pyu

theorem parseURI_s8_exec (env : Env) (sp : Split) (h1 : env 1 = some (parsedObj sp)) :
    Stmt.exec (uriIface os cm cv) env parseURI_s8 = .norm (env.put 7 (.str sp.query)) := by
  unfold parseURI_s8
  pyu

theorem parseURI_s9_exec (env : Env) :
    Stmt.exec (uriIface os cm cv) env parseURI_s9 = .norm (env.put 8 (.dict [])) := by
  unfold parseURI_s9
  pyu


theorem strDict_dictSet (d : List (List Nat × List Nat)) (k v : List Nat) :
    strDict (dictSet d k v) = dset (strDict d) k (.str v) := by
  unfold dictSet dset strDict
  have h1 : (List.map (fun kv => (kv.1, Val.str kv.2)) d).any (fun e => e.1 == k) = d.any (fun x => x.1 == k) := by
    simp [List.any_map, Function.comp_def]
  rw [h1]
  split
  · simp only [List.map_map]
    apply List.map_congr_left
    intro a _
    rcases a with ⟨a1, a2⟩
    by_cases h : a1 = k <;> simp [h]
  · simp

theorem parseURI_loop (l d : List (List Nat × List Nat)) (env : Env) (h8 : env 8 = some (.dict (strDict d))) :
    ∃ env', forLoop (loopStep (.tup [9, 10]) fun env' => Block.exec (uriIface os cm cv) env' parseURI_for0)
        (l.map fun kv => .tuple [.str kv.1, .str kv.2]) env = .norm env' ∧
      env' 8 = some (.dict (strDict (l.foldl (fun d kv => dictSet d kv.1 kv.2) d))) ∧
      ∀ x, x ≠ 8 → x ≠ 9 → x ≠ 10 → env' x = env x := by
  induction l generalizing d env with
  | nil => exact ⟨env, by simp [forLoop], by simpa using h8, fun _ _ _ _ => rfl⟩
  | cons kv l ih =>
    have hstep : loopStep (.tup [9, 10]) (fun env' => Block.exec (uriIface os cm cv) env' parseURI_for0) env
        (.tuple [.str kv.1, .str kv.2]) =
        .norm (((env.put 9 (.str kv.1)).put 10 (.str kv.2)).put 8 (.dict (strDict (dictSet d kv.1 kv.2)))) := by
      unfold parseURI_for0
      simp [loopStep, strDict_dictSet]
      pyu
      simp [setItemOf, h8, Res.seq_norm]
    obtain ⟨env', he, h8', hfr⟩ := ih (dictSet d kv.1 kv.2)
      (((env.put 9 (.str kv.1)).put 10 (.str kv.2)).put 8 (.dict (strDict (dictSet d kv.1 kv.2)))) (by simp)
    refine ⟨env', ?_, ?_, ?_⟩
    · simp only [List.map_cons, forLoop, hstep]
      exact he
    · simpa using h8'
    · intro x hx8 hx9 hx10
      rw [hfr x hx8 hx9 hx10]
      simp [hx8, hx9, hx10]

theorem parseURI_s10_exec (env : Env) (q : List Nat) (h7 : env 7 = some (.str q)) (h8 : env 8 = some (.dict [])) :
    ∃ env', Stmt.exec (uriIface os cm cv) env parseURI_s10 = .norm env' ∧
      env' 8 = some (.dict (strDict (dictOf (parseQsl q)))) ∧
      ∀ x, x ≠ 8 → x ≠ 9 → x ≠ 10 → env' x = env x := by
  unfold parseURI_s10
  cases q with
  | nil => exact ⟨env, by pyu, by simpa [parseQsl, dictOf, strDict] using h8, fun _ _ _ _ => rfl⟩
  | cons c q =>
    obtain ⟨env', he, h8', hfr⟩ := parseURI_loop os cm cv (parseQsl (c :: q)) [] env (by simpa [strDict] using h8)
    refine ⟨env', ?_, h8', hfr⟩
    pyu


theorem parseURI_s11_exec (env : Env) (u pw h po pa ar : Val) (h4 : env 4 = some u) (h5 : env 5 = some pw)
    (h2 : env 2 = some h) (h6 : env 6 = some po) (h3 : env 3 = some pa) (h8 : env 8 = some ar) :
    Stmt.exec (uriIface os cm cv) env parseURI_s11 = .ret env (.tuple [u, pw, h, po, pa, ar]) := by
  unfold parseURI_s11
  pyu

theorem parseURI_translated (uri : List Nat) (hos : os ≠ [110, 116]) :
    parseURIX (uriIface os cm cv) uri = ofParseOut (parseURI uri) := by
  unfold parseURIX run PyUri.Extracted.parseURI Uri.parseURI
  simp only [exec_cons]
  rw [parseURI_s0_exec os cm cv _ uri rfl]
  cases hu : urlparse uri with
  | valueError => simp [Res.out, ofParseOut]
  | unmodelled => simp [Res.out, ofParseOut]
  | ok sp =>
    simp only [Res.seq_norm]
    rw [parseURI_s1_exec os cm cv _ sp (by simp)]
    simp only [Res.seq_norm]
    rw [parseURI_s2_exec]
    simp only [Res.seq_norm]
    rw [parseURI_s3_exec os cm cv _ sp (by simp) (by simp)]
    simp only [Res.seq_norm]
    rw [parseURI_s4_exec os cm cv _ sp (by simp) (by simp)]
    simp only [Res.seq_norm]
    rw [parseURI_s5_exec os cm cv _ sp (by simp) (by simp)]
    cases hp : portOf sp.netloc with
    | none => simp [Res.out, ofParseOut]
    | some port =>
      simp only [Res.seq_norm]
      rw [parseURI_s6_exec os cm cv _ sp.path (by simp)]
      simp only [Res.seq_norm]
      rw [parseURI_s7_exec os cm cv _ (unquote sp.path) (by simp) hos]
      simp only [Res.seq_norm]
      rw [parseURI_s8_exec os cm cv _ sp (by simp)]
      simp only [Res.seq_norm]
      rw [parseURI_s9_exec]
      simp only [Res.seq_norm]
      generalize hE : Env.put _ 8 (Val.dict []) = E
      have e2 : E 2 = some (optStr (hostname sp.netloc)) := by rw [← hE]; simp
      have e3 : E 3 = some (.str (unquote sp.path)) := by rw [← hE]; simp
      have e4 : E 4 = some (optStr ((nonEmpty? (userinfo sp.netloc).1).map unquote)) := by rw [← hE]; simp
      have e5 : E 5 = some (optStr ((nonEmpty? (userinfo sp.netloc).2).map unquote)) := by rw [← hE]; simp
      have e6 : E 6 = some (optNat (portTruthy port)) := by rw [← hE]; simp
      have e7 : E 7 = some (.str sp.query) := by rw [← hE]; simp
      have e8 : E 8 = some (.dict []) := by rw [← hE]; simp
      obtain ⟨env', he, h8', hfr⟩ := parseURI_s10_exec os cm cv E sp.query e7 e8
      rw [he]
      simp only [Res.seq_norm]
      rw [parseURI_s11_exec os cm cv env' _ _ _ _ _ _ (by rw [hfr 4 (by decide) (by decide) (by decide)]; exact e4)
        (by rw [hfr 5 (by decide) (by decide) (by decide)]; exact e5)
        (by rw [hfr 2 (by decide) (by decide) (by decide)]; exact e2)
        (by rw [hfr 6 (by decide) (by decide) (by decide)]; exact e6)
        (by rw [hfr 3 (by decide) (by decide) (by decide)]; exact e3) h8']
      simp [Res.out, ofParseOut, parsedTuple, exec_nil]
      rcases userinfo sp.netloc with ⟨u, p⟩
      rfl

end
end SqlObjVerif.UriX
