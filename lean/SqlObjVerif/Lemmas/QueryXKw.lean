import SqlObjVerif.Lemmas.QueryXOps
import SqlObjVerif.Lemmas.Query
/-!
# C11 — the translated `_SO_columnClause` equals the hand model `Query.columnClause`

Stage A (`columnClause_run`): the interpreter on the translated function = a fold `stepV` over `sqlmeta.columnList`
written in Lean (the loop with its `pop`s, the `'id'` keyword first, the final comprehension and `' AND '.join`).
Stage B (`fold_eq_columnClause`): under `NoClash` (the Python names `id`, column names, foreign names are distinct) the
fold computes the hand model's static description: the same conditions in the same order with the same text, and the
keywords left over are exactly the ones `consumed` refuses.
-/
namespace SqlObjVerif.QueryX
open SqlObjVerif.PyQ
open SqlObjVerif.PyQ.Extracted

/-- a keyword value as a Python value: `None`, an int, an `SQLObject` instance with its `id` -/
def kwValV : Query.KwVal → Val
  | .none => .none
  | .int v => .int v
  | .obj id => .obj "SQLObject" [("id", .int id)]

/-- what the foreign-name branch stores: the `id` of an instance, any other value as it is -/
def idV : Query.KwVal → Val
  | .obj id => .int id
  | v => kwValV v

def kwV (kw : Query.Kw) : List (Str × Val) := kw.map fun e => (e.1, kwValV e.2)

def kdel (kw : Query.Kw) (k : Str) : Query.Kw := kw.filter fun e => !(e.1 == k)

theorem aget_kwV (kw : Query.Kw) (k : Str) : aget k (kwV kw) = (Query.kwLookup kw k).map kwValV := by
  induction kw with
  | nil => rfl
  | cons e kw ih =>
    obtain ⟨k', v⟩ := e
    by_cases h : k' = k <;> simp_all [kwV, aget, Query.kwLookup]

theorem adel_kwV (kw : Query.Kw) (k : Str) : adel (kwV kw) k = kwV (kdel kw k) := by
  simp [adel, kwV, kdel, List.filter_map, Function.comp_def]

/-- an entry of `data` -/
def dataPairV (p : Str × Val) : Val := .tuple [.str p.1, p.2]

/-- one round of the loop of `_SO_columnClause` on (remaining keywords, data) -/
def stepV (st : Query.Kw × List (Str × Val)) (c : Query.ColSpec) : Query.Kw × List (Str × Val) :=
  match Query.kwLookup st.1 c.name with
  | some v => (kdel st.1 c.name, st.2 ++ [(c.dbName, kwValV v)])
  | none =>
    match c.foreignName with
    | some f =>
      match Query.kwLookup st.1 f with
      | some v => (kdel st.1 f, st.2 ++ [(c.dbName, idV v)])
      | none => st
    | none => st

/-- `'%s %s %s' % (dbName, 'IS' if value is None else '=', self.sqlrepr(value))` -/
def pairText (sr : Val → Str) (p : Str × Val) : Str :=
  p.1 ++ [' '] ++ (if isNoneV p.2 = true then ['I', 'S'] else ['=']) ++ [' '] ++ sr p.2

/-- the outcome of `_SO_columnClause` for the final (remaining keywords, data) -/
def clauseOut (sr : Val → Str) (st : Query.Kw × List (Str × Val)) : Out :=
  match st.1, st.2 with
  | _ :: _, _ => .exc .typeError
  | [], [] => .ret .none
  | [], p :: ps => .ret (.str (joinS [' ', 'A', 'N', 'D', ' '] ((p :: ps).map (pairText sr))))

theorem joinStrs_map (sep : Str) : ∀ (l : List Str), joinStrs sep (l.map .str) = some (joinS sep l)
  | [] => rfl
  | [a] => rfl
  | a :: b :: l => by
    have := joinStrs_map sep (b :: l)
    simp only [List.map_cons] at this ⊢
    simp [joinStrs, joinS, this]

section
variable (sch : Schema) (P : Params) (fnRec : String → List Val → List (Str × Val) → R Val)
  (cm : Val → String → List Val → List (Str × Val) → R Val) (cv : Val → List Val → R Val)

theorem columnClause_step (env : Env) (kw : Query.Kw) (data : List (Str × Val)) (c : Query.ColSpec)
    (h2 : env 2 = some (.dict (kwV kw))) (h3 : env 3 = some (.list (data.map dataPairV))) :
    ∃ env', loopStep (.one 4) (fun e => Block.exec (qIface sch P fnRec cm cv) e columnClause_for0) env (colV c) = .norm env' ∧
      env' 2 = some (.dict (kwV (stepV (kw, data) c).1)) ∧ env' 3 = some (.list ((stepV (kw, data) c).2.map dataPairV)) ∧
      env' 0 = env 0 ∧ env' 1 = env 1 := by
  unfold columnClause_for0 stepV
  cases h1 : Query.kwLookup kw c.name with
  | some v =>
    pyqw [loopStep, aget_kwV, h1, popOf, rebind, mutateOf, adel_kwV, dataPairV]
  | none =>
    cases hf : c.foreignName with
    | none => pyqw [loopStep, aget_kwV, h1, hf]
    | some f =>
      cases hv : Query.kwLookup kw f with
      | none => pyqw [loopStep, aget_kwV, h1, hf, hv]
      | some v =>
        cases v <;> pyqw [loopStep, aget_kwV, h1, hf, hv, popOf, rebind, mutateOf, adel_kwV, dataPairV, kwValV, idV]

theorem columnClause_loop : ∀ (cs : List Query.ColSpec) (env : Env) (kw : Query.Kw) (data : List (Str × Val)),
    env 2 = some (.dict (kwV kw)) → env 3 = some (.list (data.map dataPairV)) →
    ∃ env', forLoop (loopStep (.one 4) fun e => Block.exec (qIface sch P fnRec cm cv) e columnClause_for0) (cs.map colV) env
        = .norm env' ∧
      env' 2 = some (.dict (kwV (cs.foldl stepV (kw, data)).1)) ∧ env' 3 = some (.list ((cs.foldl stepV (kw, data)).2.map dataPairV)) ∧
      env' 0 = env 0 ∧ env' 1 = env 1
  | [], env, kw, data, h2, h3 => ⟨env, rfl, h2, h3, rfl, rfl⟩
  | c :: cs, env, kw, data, h2, h3 => by
    obtain ⟨e1, s1, s2, s3, s0, s01⟩ := columnClause_step sch P fnRec cm cv env kw data c h2 h3
    obtain ⟨env', l1, l2, l3, l0, l01⟩ := columnClause_loop cs e1 _ _ s2 s3
    refine ⟨env', ?_, l2, l3, by rw [l0, s0], by rw [l01, s01]⟩
    simp only [List.map_cons, forLoop, s1]
    exact l1

/-- the list comprehension of the last statement -/
theorem columnClause_comp (conn : Val) (hsr : ∀ a, methodOf (qIface sch P fnRec cm cv) conn "sqlrepr" [a] [] = .ok (.str (P.sqlrepr a)))
    (env : Env) (h0 : env 0 = some conn) : ∀ (ps : List (Str × Val)),
    filterMapR (compStep (.tup [8, 9]) env (fun e => columnClause_comp0_c.eval (qIface sch P fnRec cm cv) e)
      (fun e => columnClause_comp0_e.eval (qIface sch P fnRec cm cv) e)) (ps.map dataPairV) =
      .ok (ps.map fun p => .str (pairText P.sqlrepr p))
  | [] => rfl
  | p :: ps => by
    have ih := columnClause_comp conn hsr env h0 ps
    simp only [List.map_cons, filterMapR, ih]
    unfold columnClause_comp0_c columnClause_comp0_e dataPairV pairText
    by_cases hn : isNoneV p.2 = true <;>
      pyqw [compStep, h0, hsr, hn]

/-- the `'id'` keyword, taken first -/
def idStep (kw : Query.Kw) : Query.Kw × List (Str × Val) :=
  match Query.kwLookup kw Query.idKey with
  | some v => (kdel kw Query.idKey, [(idName, kwValV v)])
  | none => (kw, [])

/-- **`_SO_columnClause` as a fold** over `sqlmeta.columnList` (stage A: the interpreter against the loop written in Lean) -/
theorem columnClause_run (conn : Val)
    (hsr : ∀ a, methodOf (qIface sch P fnRec cm cv) conn "sqlrepr" [a] [] = .ok (.str (P.sqlrepr a))) (kw : Query.Kw) :
    columnClauseX (qIface sch P fnRec cm cv) conn clsV (kwV kw) = clauseOut P.sqlrepr (sch.cols.foldl stepV (idStep kw)) := by
  unfold columnClauseX run columnClause
  simp only [exec_cons, exec_nil]
  have e012 : ∃ e, ((Stmt.exec (qIface sch P fnRec cm cv) (Env.ofArgs [conn, clsV, .dict (kwV kw)]) columnClause_s0).seq fun e =>
      (Stmt.exec (qIface sch P fnRec cm cv) e columnClause_s1).seq fun e => Stmt.exec (qIface sch P fnRec cm cv) e columnClause_s2)
        = .norm e ∧ e 0 = some conn ∧ e 1 = some clsV ∧ e 2 = some (.dict (kwV (idStep kw).1)) ∧
          e 3 = some (.list ((idStep kw).2.map dataPairV)) := by
    unfold columnClause_s0 columnClause_s1 columnClause_s2 idStep
    cases h : Query.kwLookup kw Query.idKey with
    | none =>
      simp only [Query.idKey] at h
      pyqw [aget_kwV, h]
    | some v =>
      simp only [Query.idKey] at h
      pyqw [aget_kwV, h, popOf, rebind, mutateOf, adel_kwV, dataPairV, Query.idKey, idName]
  obtain ⟨e, x, h0, h1, h2, h3⟩ := e012
  obtain ⟨env', l1, l2, l3, l0, l01⟩ := columnClause_loop sch P fnRec cm cv sch.cols e _ _ h2 h3
  have e3 : Stmt.exec (qIface sch P fnRec cm cv) e columnClause_s3 = .norm env' := by
    unfold columnClause_s3
    rw [Stmt.exec]
    simp only [Expr.eval, h1, ofOpt_some, R.bind_ok, attr_cls_sqlmeta, attr_sqlmeta_columnList, withR_ok, seqOf_list]
    exact l1
  have x' := congrArg (fun r => Res.seq r fun e => (Stmt.exec (qIface sch P fnRec cm cv) e columnClause_s3).seq fun e =>
    (Stmt.exec (qIface sch P fnRec cm cv) e columnClause_s4).seq fun e =>
    (Stmt.exec (qIface sch P fnRec cm cv) e columnClause_s5).seq fun e =>
    (Stmt.exec (qIface sch P fnRec cm cv) e columnClause_s6).seq fun e => Res.norm e) x
  simp only [Res.seq_assoc, Res.seq_norm, e3] at x'
  rw [x']
  rw [h0] at l0
  generalize sch.cols.foldl stepV (idStep kw) = st at l2 l3
  obtain ⟨kw', ps⟩ := st
  unfold columnClause_s4 columnClause_s5 columnClause_s6 clauseOut
  have hc := columnClause_comp sch P fnRec cm cv conn hsr env' l0 ps
  cases kw' with
  | cons a t => pyqw [l2, kwV]
  | nil =>
    cases ps with
    | nil => pyqw [l2, l3, kwV]
    | cons p ps =>
      simp only [List.map_cons] at hc l3
      pyqw [l2, l3, kwV, hc]
      have := joinStrs_map [' ', 'A', 'N', 'D', ' '] ((p :: ps).map (pairText P.sqlrepr))
      simp only [List.map_cons, List.map_map] at this
      simp [Function.comp_def] at this ⊢
      simp [this]
end

/-! ### stage B: the fold against `Query.columnClause` -/

def filterKeys (kw : Query.Kw) (S : List Str) : Query.Kw := kw.filter fun e => !(S.contains e.1)

theorem kdel_filterKeys (kw : Query.Kw) (S : List Str) (k : Str) : kdel (filterKeys kw S) k = filterKeys kw (k :: S) := by
  unfold kdel filterKeys
  rw [List.filter_filter]
  congr 1
  funext e
  by_cases h : e.1 = k
  · simp [h]
  · have h' : ¬ k = e.1 := fun x => h x.symm
    simp [h, h']

theorem lookup_filterKeys (kw : Query.Kw) (S : List Str) (k : Str) :
    Query.kwLookup (filterKeys kw S) k = if S.contains k = true then none else Query.kwLookup kw k := by
  induction kw with
  | nil => simp [filterKeys, Query.kwLookup]
  | cons e kw ih =>
    obtain ⟨k', v⟩ := e
    unfold filterKeys at ih ⊢
    by_cases hk : k' = k
    · subst hk
      by_cases hs : S.contains k' = true <;> simp_all [List.filter_cons, Query.kwLookup]
    · by_cases hs : S.contains k' = true <;> simp_all [List.filter_cons, Query.kwLookup]

theorem filterKeys_nil (kw : Query.Kw) : filterKeys kw [] = kw := by simp [filterKeys]

theorem filterKeys_absent (kw : Query.Kw) (k : Str) (h : Query.kwLookup kw k = none) : filterKeys kw [k] = kw := by
  induction kw with
  | nil => rfl
  | cons e kw ih =>
    obtain ⟨k', v⟩ := e
    by_cases hk : k' = k
    · simp [Query.kwLookup, hk] at h
    · simp only [Query.kwLookup, hk, if_false] at h
      have := ih h
      unfold filterKeys at this ⊢
      rw [List.filter_cons]
      simp only [List.contains_cons, List.contains_nil, Bool.or_false] at this ⊢
      rw [this]
      have : (k' == k) = false := by simpa using hk
      simp [this]

/-- the keys a column can pop -/
def colKeys (cs : List Query.ColSpec) : List Str := cs.flatMap fun c => c.name :: c.foreignName.toList

/-- Python attribute names are distinct: `id`, the column names and the foreign names -/
def NoClash (sch : Schema) : Prop := (Query.idKey :: colKeys sch.cols).Nodup

/-- what column `c` appends to `data`, as a function of the ORIGINAL keywords -/
def valOf (kw : Query.Kw) (c : Query.ColSpec) : Option (Str × Val) :=
  match Query.kwLookup kw c.name with
  | some v => some (c.dbName, kwValV v)
  | none =>
    match c.foreignName with
    | some f => (Query.kwLookup kw f).map fun v => (c.dbName, idV v)
    | none => none

/-- the key column `c` pops -/
def popKey (kw : Query.Kw) (c : Query.ColSpec) : Option Str :=
  match Query.kwLookup kw c.name with
  | some _ => some c.name
  | none =>
    match c.foreignName with
    | some f => (Query.kwLookup kw f).map fun _ => f
    | none => none

theorem fold_stepV (kw : Query.Kw) : ∀ (cs : List Query.ColSpec) (S : List Str) (data : List (Str × Val)),
    (colKeys cs).Nodup → (∀ k ∈ colKeys cs, k ∉ S) →
    ∃ S', cs.foldl stepV (filterKeys kw S, data) = (filterKeys kw S', data ++ cs.filterMap (valOf kw)) ∧
      ∀ k, k ∈ S' ↔ k ∈ S ∨ ∃ c ∈ cs, popKey kw c = some k
  | [], S, data, _, _ => ⟨S, by simp, by simp⟩
  | c :: cs, S, data, hnd, hS => by
    have hck : colKeys (c :: cs) = c.name :: (c.foreignName.toList ++ colKeys cs) := by simp [colKeys]
    rw [hck] at hnd hS
    have hn : c.name ∉ S := hS _ (by simp)
    have hnd' : (colKeys cs).Nodup := by
      have := (List.nodup_cons.mp hnd).2
      exact (List.nodup_append.mp this).2.1
    have l1 : Query.kwLookup (filterKeys kw S) c.name = Query.kwLookup kw c.name := by
      rw [lookup_filterKeys]; simp [hn]
    simp only [List.foldl_cons, List.filterMap_cons]
    cases h1 : Query.kwLookup kw c.name with
    | some v =>
      have hst : stepV (filterKeys kw S, data) c = (filterKeys kw (c.name :: S), data ++ [(c.dbName, kwValV v)]) := by
        simp [stepV, l1, h1, kdel_filterKeys]
      obtain ⟨S', e1, e2⟩ := fold_stepV kw cs (c.name :: S) (data ++ [(c.dbName, kwValV v)]) hnd' (by
        intro k hk
        have hk1 : k ≠ c.name := by
          intro e; subst e
          exact (List.nodup_cons.mp hnd).1 (by simp [hk])
        simp [hk1]; exact hS k (by simp [hk]))
      refine ⟨S', by rw [hst, e1]; simp [valOf, h1], ?_⟩
      intro k; rw [e2]
      simp [popKey, h1]
      constructor
      · rintro ((rfl | h) | h)
        · right; left; rfl
        · left; exact h
        · right; right; exact h
      · rintro (h | rfl | h)
        · left; right; exact h
        · left; left; rfl
        · right; exact h
    | none =>
      cases hf : c.foreignName with
      | none =>
        have hst : stepV (filterKeys kw S, data) c = (filterKeys kw S, data) := by simp [stepV, l1, h1, hf]
        obtain ⟨S', e1, e2⟩ := fold_stepV kw cs S data hnd' (fun k hk => hS k (by simp [hk]))
        refine ⟨S', by rw [hst, e1]; simp [valOf, h1, hf], ?_⟩
        intro k; rw [e2]; simp [popKey, h1, hf]
      | some f =>
        rw [hf] at hnd hS
        have hfS : f ∉ S := hS _ (by simp)
        have l2 : Query.kwLookup (filterKeys kw S) f = Query.kwLookup kw f := by
          rw [lookup_filterKeys]; simp [hfS]
        cases h2 : Query.kwLookup kw f with
        | none =>
          have hst : stepV (filterKeys kw S, data) c = (filterKeys kw S, data) := by simp [stepV, l1, h1, hf, l2, h2]
          obtain ⟨S', e1, e2⟩ := fold_stepV kw cs S data hnd' (fun k hk => hS k (by simp [hk]))
          refine ⟨S', by rw [hst, e1]; simp [valOf, h1, hf, h2], ?_⟩
          intro k; rw [e2]; simp [popKey, h1, hf, h2]
        | some v =>
          have hst : stepV (filterKeys kw S, data) c = (filterKeys kw (f :: S), data ++ [(c.dbName, idV v)]) := by
            simp [stepV, l1, h1, hf, l2, h2, kdel_filterKeys]
          obtain ⟨S', e1, e2⟩ := fold_stepV kw cs (f :: S) (data ++ [(c.dbName, idV v)]) hnd' (by
            intro k hk
            have hk1 : k ≠ f := by
              intro e; subst e
              have := (List.nodup_cons.mp hnd).2
              simp at this
              first | exact this.1.1 hk | exact this.1 hk | exact this hk
            simp [hk1]; exact hS k (by simp [hk]))
          refine ⟨S', by rw [hst, e1]; simp [valOf, h1, hf, h2], ?_⟩
          intro k; rw [e2]
          simp [popKey, h1, hf, h2]
          constructor
          · rintro ((rfl | h) | h)
            · right; left; rfl
            · left; exact h
            · right; right; exact h
          · rintro (h | rfl | h)
            · left; right; exact h
            · left; left; rfl
            · right; exact h

theorem lookup_mem (kw : Query.Kw) (e : Str × Query.KwVal) (h : e ∈ kw) : (Query.kwLookup kw e.1).isSome = true := by
  induction kw with
  | nil => cases h
  | cons a kw ih =>
    obtain ⟨k', v⟩ := a
    by_cases hk : k' = e.1
    · simp [Query.kwLookup, hk]
    · simp only [Query.kwLookup, hk, if_false]
      rcases List.mem_cons.mp h with rfl | h'
      · exact absurd rfl hk
      · exact ih h'

theorem popKey_iff (kw : Query.Kw) (c : Query.ColSpec) (k : Str) (hk : (Query.kwLookup kw k).isSome = true) :
    popKey kw c = some k ↔ (c.name = k ∨ (c.foreignName = some k ∧ Query.kwLookup kw c.name = none)) := by
  unfold popKey
  cases h1 : Query.kwLookup kw c.name with
  | some v =>
    constructor
    · intro h; left; simpa using h
    · rintro (h | h)
      · simpa using h
      · exact absurd h.2 (by simp)
  | none =>
    have hne : c.name ≠ k := by intro e; rw [e] at h1; rw [h1] at hk; cases hk
    cases hf : c.foreignName with
    | none => simp [hne]
    | some f =>
      cases h2 : Query.kwLookup kw f with
      | none =>
        have hne2 : f ≠ k := by intro e; rw [e] at h2; rw [h2] at hk; cases hk
        simp [hne, hne2]
      | some v => simp [hne, h2]

/-- the text of one entry of `data` is the text of the hand model's condition -/
theorem pairText_mkCond (sr : Val → Str) (sch : Schema) (hobj : ∀ id, sr (kwValV (.obj id)) = sr (.int id))
    (col : ColRef) (v : Query.KwVal) :
    pairText sr (dbNameOf sch col, kwValV v) = condText sr sch (Query.mkCond col v)
    ∧ pairText sr (dbNameOf sch col, idV v) = condText sr sch (Query.mkCond col v) := by
  have e1 : Query.Extracted.clauseOpNone = .is := rfl
  have e2 : Query.Extracted.clauseOpValue = .eq := rfl
  have hobj' : ∀ id, sr (.obj "SQLObject" [("id", .int id)]) = sr (.int id) := hobj
  cases v <;> simp [pairText, condText, Query.mkCond, Query.KwVal.toVal, kwValV, idV, e1, e2, condOpText, litV, hobj']

theorem colConds_text (sr : Val → Str) (sch : Schema) (hobj : ∀ id, sr (kwValV (.obj id)) = sr (.int id)) (kw : Query.Kw) :
    ∀ (cs : List Query.ColSpec) (i : Nat), sch.cols.drop i = cs →
      (cs.filterMap (valOf kw)).map (pairText sr) = (Query.colConds kw cs i).map (condText sr sch)
  | [], _, _ => rfl
  | c :: cs, i, h => by
    have hi : sch.cols[i]? = some c := by
      have := congrArg List.head? h
      simpa [List.head?_drop] using this
    have hd : sch.cols.drop (i + 1) = cs := by
      have := congrArg List.tail h
      simpa [List.tail_drop] using this
    have ih := colConds_text sr sch hobj kw cs (i + 1) hd
    have hdb : dbNameOf sch (.col i) = c.dbName := by simp [dbNameOf, hi]
    have pt := pairText_mkCond sr sch hobj (.col i)
    rw [hdb] at pt
    simp only [List.filterMap_cons, Query.colConds, valOf, Query.colVal]
    cases h1 : Query.kwLookup kw c.name with
    | some v => simp [ih, (pt v).1]
    | none =>
      cases hf : c.foreignName with
      | none => simp [ih]
      | some f =>
        cases h2 : Query.kwLookup kw f with
        | none => simp [ih, h2]
        | some v => simp [ih, h2, (pt v).2]

/-- the hand model's answer as an outcome: TypeError / `None` / the clause text -/
def ccOut (sr : Val → Str) (sch : Schema) : Option (Option Query.Expr) → Out
  | none => .exc .typeError
  | some none => .ret .none
  | some (some (.kw data)) => .ret (.str (condsText sr sch data))
  | some (some _) => .stuck

/-- **stage B**: the fold over the columns is the hand model's `columnClause` -/
theorem fold_eq_columnClause (sr : Val → Str) (sch : Schema) (hnc : NoClash sch)
    (hobj : ∀ id, sr (kwValV (.obj id)) = sr (.int id)) (kw : Query.Kw) :
    clauseOut sr (sch.cols.foldl stepV (idStep kw)) = ccOut sr sch (Query.columnClause sch kw) := by
  have hid : idStep kw = (filterKeys kw [Query.idKey],
      (match Query.kwLookup kw Query.idKey with
       | some v => [(idName, kwValV v)]
       | none => [])) := by
    unfold idStep
    cases h : Query.kwLookup kw Query.idKey with
    | none => simp [filterKeys_absent kw _ h]
    | some v =>
      have := kdel_filterKeys kw [] Query.idKey
      rw [filterKeys_nil] at this
      simp [this]
  unfold NoClash at hnc
  obtain ⟨S', e1, e2⟩ := fold_stepV kw sch.cols [Query.idKey] (match Query.kwLookup kw Query.idKey with
       | some v => [(idName, kwValV v)]
       | none => []) (List.nodup_cons.mp hnc).2 (by
    intro k hk hk'
    simp at hk'
    subst hk'
    exact (List.nodup_cons.mp hnc).1 hk)
  rw [hid, e1]
  -- the remaining keywords
  have hkw : filterKeys kw S' = [] ↔ (kw.all fun x => Query.consumed kw sch.cols x.1) = true := by
    unfold filterKeys
    rw [List.filter_eq_nil_iff, List.all_eq_true]
    constructor
    · intro h e he
      have := h e he
      simp at this
      have hk := lookup_mem kw e he
      rcases (e2 e.1).mp this with h0 | ⟨c, hc, hp⟩
      · simp at h0; simp [Query.consumed, h0]
      · have := (popKey_iff kw c e.1 hk).mp hp
        simp only [Query.consumed, Bool.or_eq_true, decide_eq_true_eq, List.any_eq_true, Bool.and_eq_true,
          Option.isNone_iff_eq_none]
        right
        exact ⟨c, hc, this⟩
    · intro h e he
      have hc := h e he
      have hk := lookup_mem kw e he
      simp only [Query.consumed, Bool.or_eq_true, decide_eq_true_eq, List.any_eq_true, Bool.and_eq_true,
        Option.isNone_iff_eq_none] at hc
      simp
      apply (e2 e.1).mpr
      rcases hc with h0 | ⟨c, hc, hp⟩
      · left; simp [h0]
      · right; exact ⟨c, hc, (popKey_iff kw c e.1 hk).mpr hp⟩
  -- the data
  have hdata : ((match Query.kwLookup kw Query.idKey with
       | some v => [(idName, kwValV v)]
       | none => []) ++ sch.cols.filterMap (valOf kw)).map (pairText sr) = (Query.kwData sch kw).map (condText sr sch) := by
    unfold Query.kwData
    rw [List.map_append, List.map_append, colConds_text sr sch hobj kw sch.cols 0 (by simp)]
    congr 1
    cases Query.kwLookup kw Query.idKey with
    | none => rfl
    | some v =>
      have := (pairText_mkCond sr sch hobj .id v).1
      simpa [dbNameOf] using this
  unfold Query.columnClause
  generalize hD : ((match Query.kwLookup kw Query.idKey with
       | some v => [(idName, kwValV v)]
       | none => []) ++ sch.cols.filterMap (valOf kw)) = D at hdata
  cases hK : filterKeys kw S' with
  | cons a t =>
    have : ¬ (kw.all fun x => Query.consumed kw sch.cols x.1) = true := fun h => by
      have := hkw.mpr h; rw [hK] at this; cases this
    have this' : (kw.all fun x => Query.consumed kw sch.cols x.1) = false := by simpa using this
    simp [clauseOut, ccOut, this']
  | nil =>
    have hall := hkw.mp hK
    simp only [hall, if_true]
    cases D with
    | nil =>
      have : Query.kwData sch kw = [] := by
        have := congrArg List.length hdata; simp at this; exact List.eq_nil_of_length_eq_zero this.symm
      simp [clauseOut, ccOut, this]
    | cons p ps =>
      have hne : Query.kwData sch kw ≠ [] := by
        intro h; rw [h] at hdata; simp at hdata
      have : (Query.kwData sch kw).isEmpty = false := by
        cases h : Query.kwData sch kw with
        | nil => exact absurd h hne
        | cons _ _ => rfl
      simp only [clauseOut, ccOut, this, Bool.false_eq_true, if_false, condsText]
      rw [hdata]

/-- **`_SO_columnClause` = `Query.columnClause`** for every keyword dict: TypeError / `None` / the clause text -/
theorem columnClause_translated (sch : Schema) (P : Params) (fnRec : String → List Val → List (Str × Val) → R Val)
    (cm : Val → String → List Val → List (Str × Val) → R Val) (cv : Val → List Val → R Val) (hnc : NoClash sch)
    (hobj : ∀ id, P.sqlrepr (kwValV (.obj id)) = P.sqlrepr (.int id)) (conn : Val)
    (hsr : ∀ a, methodOf (qIface sch P fnRec cm cv) conn "sqlrepr" [a] [] = .ok (.str (P.sqlrepr a))) (kw : Query.Kw) :
    columnClauseX (qIface sch P fnRec cm cv) conn clsV (kwV kw) = ccOut P.sqlrepr sch (Query.columnClause sch kw) := by
  rw [columnClause_run sch P fnRec cm cv conn hsr kw, fold_eq_columnClause P.sqlrepr sch hnc hobj kw]

end SqlObjVerif.QueryX
