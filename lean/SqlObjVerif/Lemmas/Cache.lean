import SqlObjVerif.Model.Cache
namespace SqlObjVerif.Cache

theorem mem_aerase (k : Id) (l : AList) (e : Id × Handle) :
    e ∈ aerase k l ↔ e ∈ l ∧ e.1 ≠ k := by
  simp [aerase]

theorem ahasKey_iff (k : Id) (l : AList) : ahasKey k l = true ↔ ∃ v, (k, v) ∈ l := by
  induction l with
  | nil => simp [ahasKey]
  | cons x xs ih =>
    obtain ⟨a, b⟩ := x
    simp only [ahasKey, List.any_cons, Bool.or_eq_true, decide_eq_true_eq, List.mem_cons, Prod.mk.injEq] at ih ⊢
    constructor
    · rintro (h | h)
      · exact ⟨b, Or.inl ⟨h.symm, rfl⟩⟩
      · obtain ⟨v, hv⟩ := ih.1 h; exact ⟨v, Or.inr hv⟩
    · rintro ⟨v, (⟨h1, _⟩ | h)⟩
      · exact Or.inl h1.symm
      · exact Or.inr (ih.2 ⟨v, h⟩)

theorem mem_aset (k : Id) (v : Handle) (l : AList) (e : Id × Handle) :
    e ∈ aset k v l ↔ (e ∈ l ∧ e.1 ≠ k) ∨ e = (k, v) := by
  unfold aset
  split
  · rename_i hk
    obtain ⟨w, hw⟩ := (ahasKey_iff k l).1 hk
    simp only [List.mem_map]
    constructor
    · rintro ⟨x, hx, rfl⟩
      by_cases h : x.1 = k
      · simp [h]
      · simp [h, hx]
    · rintro (⟨h1, h2⟩ | rfl)
      · exact ⟨e, h1, by simp [h2]⟩
      · exact ⟨(k, w), hw, by simp⟩
  · rename_i hk
    have : ∀ v, (k, v) ∉ l := by
      intro v hv; exact hk ((ahasKey_iff k l).2 ⟨v, hv⟩)
    simp only [List.mem_append, List.mem_singleton]
    constructor
    · rintro (h | h)
      · left; refine ⟨h, ?_⟩; intro hek; obtain ⟨a, b⟩ := e; simp at hek; subst hek; exact this b h
      · right; exact h
    · rintro (⟨h, _⟩ | h)
      · left; exact h
      · right; exact h

theorem aget_some_mem {k : Id} {l : AList} {v : Handle} (h : aget k l = some v) : (k, v) ∈ l := by
  induction l with
  | nil => simp [aget] at h
  | cons x xs ih =>
    obtain ⟨a, b⟩ := x
    simp only [aget] at h
    split at h
    · rename_i hk; (try simp at hk); simp at h; subst hk; subst h; simp
    · exact List.mem_cons_of_mem _ (ih h)

theorem aget_none_iff {k : Id} {l : AList} : aget k l = none ↔ ∀ v, (k, v) ∉ l := by
  induction l with
  | nil => simp [aget]
  | cons x xs ih =>
    obtain ⟨a, b⟩ := x
    simp only [aget]
    split
    · rename_i hk; (try simp at hk); subst hk
      simp only [reduceCtorEq, false_iff]
      intro h; exact h b (by simp)
    · rename_i hk; (try simp at hk)
      rw [ih]
      constructor
      · intro h v hv
        simp only [List.mem_cons, Prod.mk.injEq] at hv
        rcases hv with ⟨h1, _⟩ | hv
        · exact hk h1.symm
        · exact h v hv
      · intro h v hv; exact h v (List.mem_cons_of_mem _ hv)

theorem ahas_iff (h : Handle) (l : AList) : ahas h l = true ↔ ∃ k, (k, h) ∈ l := by
  induction l with
  | nil => simp [ahas]
  | cons x xs ih =>
    obtain ⟨a, b⟩ := x
    simp only [ahas, List.any_cons, Bool.or_eq_true, decide_eq_true_eq, List.mem_cons, Prod.mk.injEq] at ih ⊢
    constructor
    · rintro (h1 | h1)
      · exact ⟨a, Or.inl ⟨rfl, h1.symm⟩⟩
      · obtain ⟨k, hk⟩ := ih.1 h1; exact ⟨k, Or.inr hk⟩
    · rintro ⟨k, (⟨_, h1⟩ | h1)⟩
      · exact Or.inl h1.symm
      · exact Or.inr (ih.2 ⟨k, h1⟩)

/-- unique values per key -/
def Fun (l : AList) : Prop := ∀ k v1 v2, (k, v1) ∈ l → (k, v2) ∈ l → v1 = v2

theorem fun_aset {k v l} (h : Fun l) : Fun (aset k v l) := by
  intro a v1 v2 h1 h2
  rw [mem_aset] at h1 h2
  rcases h1 with ⟨h1, n1⟩ | h1 <;> rcases h2 with ⟨h2, n2⟩ | h2
  · exact h a v1 v2 h1 h2
  · simp at h2; simp at n1; exact absurd h2.1 n1
  · simp at h1; simp at n2; exact absurd h1.1 n2
  · simp at h1 h2; rw [h1.2, h2.2]

theorem fun_filter {p l} (h : Fun l) : Fun (l.filter p) := by
  intro a v1 v2 h1 h2
  exact h a v1 v2 (List.mem_filter.1 h1).1 (List.mem_filter.1 h2).1

theorem aget_eq_some_of_fun {k v l} (hf : Fun l) (h : (k, v) ∈ l) : aget k l = some v := by
  cases hg : aget k l with
  | none => exact absurd h (aget_none_iff.1 hg v)
  | some w => rw [hf k w v (aget_some_mem hg) h]

theorem mem_asetAll_sound (es l : AList) (e : Id × Handle) (h : e ∈ asetAll es l) : e ∈ l ∨ e ∈ es := by
  induction es generalizing l with
  | nil => exact Or.inl h
  | cons x xs ih =>
    simp only [asetAll, List.foldl_cons] at h
    rcases ih _ h with h1 | h1
    · rw [mem_aset] at h1
      rcases h1 with ⟨h1, _⟩ | h1
      · exact Or.inl h1
      · right; rw [h1]; simp
    · exact Or.inr (List.mem_cons_of_mem _ h1)

theorem mem_asetAll_old (es l : AList) (e : Id × Handle) (h : e ∈ l) (hk : ∀ v, (e.1, v) ∉ es) :
    e ∈ asetAll es l := by
  induction es generalizing l with
  | nil => exact h
  | cons x xs ih =>
    simp only [asetAll, List.foldl_cons]
    apply ih
    · rw [mem_aset]; left; refine ⟨h, ?_⟩
      intro hx; apply hk x.2; rw [hx]; simp
    · intro v hv; exact hk v (List.mem_cons_of_mem _ hv)

theorem mem_asetAll_new (es l : AList) (e : Id × Handle) (hf : Fun es) (h : e ∈ es) :
    e ∈ asetAll es l := by
  induction es generalizing l with
  | nil => simp at h
  | cons x xs ih =>
    simp only [asetAll, List.foldl_cons]
    have hfx : Fun xs := fun k v1 v2 h1 h2 => hf k v1 v2 (List.mem_cons_of_mem _ h1) (List.mem_cons_of_mem _ h2)
    by_cases hx : e ∈ xs
    · exact ih _ hfx hx
    · have : e = x := by
        simp only [List.mem_cons] at h; rcases h with h | h
        · exact h
        · exact absurd h hx
      subst this
      apply mem_asetAll_old
      · rw [mem_aset]; right; rfl
      · intro v hv
        have := hf e.1 e.2 v (by simp) (List.mem_cons_of_mem _ hv)
        apply hx; rw [← this] at hv; exact hv

theorem fun_asetAll (es l : AList) (h : Fun l) : Fun (asetAll es l) := by
  induction es generalizing l with
  | nil => exact h
  | cons x xs ih => simp only [asetAll, List.foldl_cons]; exact ih _ (fun_aset h)


/-! ## The invariant -/

/-- `e` is an entry of class `c`'s cache (strong or weak map) -/
def Ent (s : State) (c : Cls) (e : Id × Handle) : Prop := e ∈ (s.fac c).strong ∨ e ∈ (s.fac c).weak

/-- the invariant; `x` = a freshly allocated handle that is not registered in the cache yet -/
structure CInvX (s : State) (x : Option Handle) : Prop where
  /-- every entry is filed under its object's own class and id, for a row that exists, and is not obsolete -/
  ent : ∀ c e, Ent s c e → e.2 < s.n ∧ (s.obj e.2).cls = c ∧ (s.obj e.2).id = e.1 ∧ e.1 ∈ s.rows c ∧
    (s.obj e.2).obsolete = false ∧ some e.2 ≠ x
  funS : ∀ c, Fun (s.fac c).strong
  funW : ∀ c, Fun (s.fac c).weak
  /-- a key of the strong map is in the weak map at most as a dead leftover -/
  disj : ∀ c k v1 v2, (k, v1) ∈ (s.fac c).strong → (k, v2) ∈ (s.fac c).weak → (s.obj v2).dead = true
  /-- the strong cache keeps its objects alive -/
  salive : ∀ c e, e ∈ (s.fac c).strong → (s.obj e.2).dead = false
  nocache : s.cfg.doCache = false → ∀ c, (s.fac c).strong = []
  /-- every instance the application holds (and did not destroy) is in its class's cache under its id -/
  hcached : ∀ h, h < s.n → some h ≠ x → (s.obj h).held = true → (s.obj h).obsolete = false →
    Ent s (s.obj h).cls ((s.obj h).id, h)
  hlive : ∀ h, h < s.n → (s.obj h).held = true → (s.obj h).dead = false

abbrev CInv (s : State) : Prop := CInvX s none


theorem inv_init (cfg : Cfg) : CInv (init cfg) := by
  constructor <;> simp [init, emptyFactory, Ent, Fun]

/-- a state that differs only in fields the invariant does not read -/
theorem inv_congr {s s' : State} {x} (h : CInvX s x) (h1 : s'.cfg = s.cfg) (h2 : s'.rows = s.rows)
    (h3 : s'.fac = s.fac) (h4 : s'.obj = s.obj) (h5 : s'.n = s.n) : CInvX s' x := by
  obtain ⟨a1, a2, a3, a4, a5, a6, a7, a8⟩ := h
  constructor <;> simp only [Ent, h1, h2, h3, h4, h5] <;> assumption

/-- only the counters of one factory change -/
theorem inv_counters (s : State) (c : Cls) (a b : Nat) {x} (h : CInvX s x) :
    CInvX (setFac s c { s.fac c with cullCount := a, cullOffset := b }) x := by
  obtain ⟨h1, h2, h3, h4, h5, h6, h7, h8⟩ := h
  constructor
  · intro c' e he
    have := h1 c' e
    simp only [Ent, setFac, upd] at he this ⊢
    split at he <;> simp_all
  · intro c'; have := h2 c'; simp only [setFac, upd]; split <;> simp_all
  · intro c'; have := h3 c'; simp only [setFac, upd]; split <;> simp_all
  · intro c' k v1 v2; have := h4 c' k v1 v2; simp only [setFac, upd]; split <;> simp_all
  · intro c' e; have := h5 c' e; simp only [setFac, upd]; split <;> simp_all
  · intro hd c'; have := h6 hd c'; simp only [setFac, upd]; split <;> simp_all
  · intro h hn hx hh ho; have := h7 h hn hx hh ho; simp only [Ent, setFac, upd] at this ⊢; split <;> simp_all
  · exact h8

theorem purge_eq (s : State) (c : Cls) (k : Id) :
    purge s c k = setFac s c { s.fac c with strong := aerase k (s.fac c).strong, weak := aerase k (s.fac c).weak } := by
  simp [purge, Extracted.Cache.expireDropsWeakAlways]

theorem inv_purge (s : State) (c : Cls) (k : Id) (h : CInv s)
    (hk : ∀ h', h' < s.n → (s.obj h').held = true → (s.obj h').obsolete = false →
      ¬ ((s.obj h').cls = c ∧ (s.obj h').id = k)) : CInv (purge s c k) := by
  rw [purge_eq]
  obtain ⟨h1, h2, h3, h4, h5, h6, h7, h8⟩ := h
  constructor
  · intro c' e he
    have := h1 c' e
    simp only [Ent, setFac, upd] at he this ⊢
    split at he <;> simp_all [mem_aerase]
    grind
  · intro c'; have := h2 c'; simp only [setFac, upd]; split
    · subst_vars; exact fun_filter this
    · exact this
  · intro c'; have := h3 c'; simp only [setFac, upd]; split
    · subst_vars; exact fun_filter this
    · exact this
  · intro c' k' v1 v2; have := h4 c' k' v1 v2; simp only [setFac, upd]; split <;> simp_all [mem_aerase]
  · intro c' e; have := h5 c' e; simp only [setFac, upd]; split <;> simp_all [mem_aerase]
  · intro hd c'; have := h6 hd c'; simp only [setFac, upd]; split <;> simp_all [aerase]
  · intro h hn hx hh ho
    have := h7 h hn hx hh ho
    have hk' := hk h hn hh ho
    simp only [Ent, setFac, upd] at this ⊢
    split <;> simp_all [mem_aerase]
  · exact h8

/-- flags of one object change: class, id, dead, obsolete stay; `held` may only be switched on for
    an object that is alive and registered -/
theorem inv_setObj (s : State) (h : Handle) (o : Obj) (hi : CInv s)
    (e1 : o.cls = (s.obj h).cls) (e2 : o.id = (s.obj h).id) (e3 : o.dead = (s.obj h).dead)
    (e4 : o.obsolete = (s.obj h).obsolete)
    (e5 : o.held = true → (s.obj h).held = true ∨
      ((s.obj h).dead = false ∧ Ent s (s.obj h).cls ((s.obj h).id, h))) : CInv (setObj s h o) := by
  obtain ⟨h1, h2, h3, h4, h5, h6, h7, h8⟩ := hi
  constructor
  · intro c e he
    have := h1 c e he
    simp only [setObj, upd]
    split <;> simp_all
  · exact h2
  · exact h3
  · intro c k v1 v2 a b
    have := h4 c k v1 v2 a b
    simp only [setObj, upd]; split
    · subst_vars; rw [e3]; exact this
    · exact this
  · intro c e he; have := h5 c e he; simp only [setObj, upd]; split <;> simp_all
  · exact h6
  · intro h' hn hx hh ho
    have a := h7 h' hn hx
    simp only [setObj, upd, Ent] at hh ho a ⊢
    split at hh <;> simp_all
    rcases e5 with e5 | e5
    · exact a e5
    · exact e5.2
  · intro h' hn hh
    have a := h8 h' hn
    simp only [setObj, upd] at hh ⊢
    split at hh <;> simp_all
    rcases e5 with e5 | e5
    · exact a e5
    · exact e5.1

/-- what `cull` does to the maps of its class, by membership -/
theorem cull_fac_other (s : State) (c c' : Cls) (h : c' ≠ c) : (cull s c).fac c' = s.fac c' := by
  simp [cull, upd, h]

theorem cull_strong_mem (s : State) (c : Cls) (e : Id × Handle) :
    e ∈ ((cull s c).fac c).strong → e ∈ (s.fac c).strong := by
  simp only [cull, upd, if_true]
  intro h; exact (List.mem_filter.1 h).1

theorem cull_weak_mem (s : State) (c : Cls) (e : Id × Handle) :
    e ∈ ((cull s c).fac c).weak → (e ∈ (s.fac c).weak ∧ (s.obj e.2).dead = false) ∨
      (e ∈ (s.fac c).strong ∧ e ∉ ((cull s c).fac c).strong ∧ ((s.obj e.2).held = true ∨ s.cfg.refcount = false)) := by
  simp only [cull, upd, if_true]
  intro h
  rcases mem_asetAll_sound _ _ _ h with h | h
  · left; simpa using h
  · right
    simp only [List.mem_filter] at h ⊢
    obtain ⟨⟨h1, h2⟩, h3⟩ := h
    refine ⟨h1, ?_, by simpa using h3⟩
    intro hh; have := hh.2; rw [h2] at this; simp at this

theorem cull_obj (s : State) (c : Cls) (h : Handle) :
    ((cull s c).obj h).cls = (s.obj h).cls ∧ ((cull s c).obj h).id = (s.obj h).id ∧
    ((cull s c).obj h).held = (s.obj h).held ∧ ((cull s c).obj h).obsolete = (s.obj h).obsolete ∧
    ((cull s c).obj h).expired = (s.obj h).expired ∧
    (((cull s c).obj h).dead = true → (s.obj h).dead = true ∨
      ((s.obj h).held = false ∧ s.cfg.refcount = true ∧ ∃ k, (k, h) ∈ (s.fac c).strong ∧ (k, h) ∉ ((cull s c).fac c).strong)) ∧
    ((s.obj h).dead = true → ((cull s c).obj h).dead = true) := by
  simp only [cull, upd, if_true]
  split
  · rename_i hc
    simp only [Bool.and_eq_true, Bool.not_eq_true', ahas_iff] at hc
    obtain ⟨⟨h1, ⟨k, hk⟩⟩, h3⟩ := hc
    refine ⟨rfl, rfl, rfl, rfl, rfl, ?_, fun _ => rfl⟩
    intro _; right
    refine ⟨h3, h1, k, ?_⟩
    simp only [List.mem_filter] at hk ⊢
    exact ⟨hk.1, fun hh => by have := hh.2; rw [hk.2] at this; simp at this⟩
  · exact ⟨rfl, rfl, rfl, rfl, rfl, fun hd => Or.inl hd, fun hd => hd⟩


theorem cull_n (s : State) (c : Cls) : (cull s c).n = s.n ∧ (cull s c).rows = s.rows ∧ (cull s c).cfg = s.cfg := by
  simp [cull]

theorem cull_complete (s : State) (c : Cls) (e : Id × Handle) {x} (hi : CInvX s x)
    (he : Ent s c e) (hh : (s.obj e.2).held = true) (hd : (s.obj e.2).dead = false) : Ent (cull s c) c e := by
  rcases he with he | he
  · by_cases hk : e ∈ ((cull s c).fac c).strong
    · exact Or.inl hk
    · right
      simp only [cull, upd, if_true] at hk ⊢
      apply mem_asetAll_new
      · exact fun_filter (fun_filter (hi.funS c))
      · simp only [List.mem_filter] at hk ⊢
        refine ⟨⟨he, ?_⟩, by simp [hh]⟩
        by_cases hc : (pick (s.fac c).cullOffset s.cfg.cullFraction 0 (List.map (fun x => x.fst) (s.fac c).strong)).contains e.fst = true
        · exact hc
        · exact absurd ⟨he, by simpa using hc⟩ hk
  · right
    simp only [cull, upd, if_true]
    apply mem_asetAll_old
    · simp [he, hd]
    · intro v hv
      simp only [List.mem_filter] at hv
      have := hi.disj c e.1 v e.2 hv.1.1 he
      rw [hd] at this; cases this

theorem inv_cull (s : State) (c : Cls) {x} (hi : CInvX s x) : CInvX (cull s c) x := by
  obtain ⟨hn, hr, hc⟩ := cull_n s c
  constructor
  · intro c' e he
    obtain ⟨o1, o2, o3, o4, o5, o6, o7⟩ := cull_obj s c e.2
    rw [hn, hr, o1, o2, o4]
    by_cases hcc : c' = c
    · subst hcc
      rcases he with he | he
      · exact hi.ent c' e (Or.inl (cull_strong_mem s c' e he))
      · rcases cull_weak_mem s c' e he with h | h
        · exact hi.ent c' e (Or.inr h.1)
        · exact hi.ent c' e (Or.inl h.1)
    · simp only [Ent, cull_fac_other s c c' hcc] at he
      exact hi.ent c' e he
  · intro c'
    by_cases hcc : c' = c
    · subst hcc; simp only [cull, upd, if_true]; exact fun_filter (hi.funS c')
    · rw [cull_fac_other s c c' hcc]; exact hi.funS c'
  · intro c'
    by_cases hcc : c' = c
    · subst hcc; simp only [cull, upd, if_true]; exact fun_asetAll _ _ (fun_filter (hi.funW c'))
    · rw [cull_fac_other s c c' hcc]; exact hi.funW c'
  · intro c' k v1 v2 h1 h2
    by_cases hcc : c' = c
    · subst hcc
      rcases cull_weak_mem s c' _ h2 with h | h
      · have := hi.disj c' k v1 v2 (cull_strong_mem s c' _ h1) h.1
        rw [h.2] at this; cases this
      · have := hi.funS c' k v1 v2 (cull_strong_mem s c' _ h1) h.1
        subst this
        exact absurd h1 h.2.1
    · rw [cull_fac_other s c c' hcc] at h1 h2
      exact (cull_obj s c v2).2.2.2.2.2.2 (hi.disj c' k v1 v2 h1 h2)
  · intro c' e he
    obtain ⟨o1, o2, o3, o4, o5, o6, o7⟩ := cull_obj s c e.2
    by_cases hcc : c' = c
    · subst hcc
      have he0 := cull_strong_mem s c' e he
      cases hd : ((cull s c').obj e.2).dead with
      | false => rfl
      | true =>
        rcases o6 hd with h | ⟨_, _, k, hk1, hk2⟩
        · rw [hi.salive c' e he0] at h; cases h
        · have a := (hi.ent c' e (Or.inl he0)).2.2.1
          have b := (hi.ent c' (k, e.2) (Or.inl hk1)).2.2.1
          simp only at b
          have : e = (k, e.2) := by rw [← b, a]
          rw [← this] at hk2
          exact absurd he hk2
    · rw [cull_fac_other s c c' hcc] at he
      have he0 := hi.salive c' e he
      cases hd : ((cull s c).obj e.2).dead with
      | false => rfl
      | true =>
        rcases o6 hd with h | ⟨_, _, k, hk1, hk2⟩
        · rw [he0] at h; cases h
        · have a := (hi.ent c' e (Or.inl he)).2.1
          have b := (hi.ent c (k, e.2) (Or.inl hk1)).2.1
          simp only at b
          exact absurd (a.symm.trans b) hcc
  · intro hd c'
    rw [hc] at hd
    by_cases hcc : c' = c
    · subst hcc; simp only [cull, upd, if_true]; rw [hi.nocache hd c']; rfl
    · rw [cull_fac_other s c c' hcc]; exact hi.nocache hd c'
  · intro h hlt hx hh ho
    obtain ⟨o1, o2, o3, o4, o5, o6, o7⟩ := cull_obj s c h
    rw [hn] at hlt
    rw [o3] at hh; rw [o4] at ho; rw [o1, o2]
    have a := hi.hcached h hlt hx hh ho
    by_cases hcc : (s.obj h).cls = c
    · rw [hcc] at a ⊢
      exact cull_complete s c _ hi a hh (hi.hlive h hlt hh)
    · simp only [Ent, cull_fac_other s c _ hcc]; exact a
  · intro h hlt hh
    obtain ⟨o1, o2, o3, o4, o5, o6, o7⟩ := cull_obj s c h
    rw [hn] at hlt
    rw [o3] at hh
    cases hd : ((cull s c).obj h).dead with
    | false => rfl
    | true =>
      rcases o6 hd with h' | ⟨h', _⟩
      · rw [hi.hlive h hlt hh] at h'; cases h'
      · rw [hh] at h'; cases h'



theorem tick_cases (s : State) (c : Cls) :
    tick s c = s ∨
    tick s c = setFac s c { s.fac c with cullCount := (s.fac c).cullCount + 1, cullOffset := (s.fac c).cullOffset } ∨
    tick s c = cull (setFac s c { s.fac c with cullCount := 0, cullOffset := (s.fac c).cullOffset }) c := by
  unfold tick
  by_cases h1 : s.cfg.doCache = true
  · simp only [h1, if_true]
    by_cases h2 : (if Extracted.Cache.cullTriggerStrict = true then decide ((s.fac c).cullCount > s.cfg.cullFrequency)
        else decide ((s.fac c).cullCount ≥ s.cfg.cullFrequency)) = true
    · right; right; rw [if_pos h2]
    · right; left; rw [if_neg h2]
  · left; simp [h1]

theorem inv_tick (s : State) (c : Cls) {x} (hi : CInvX s x) : CInvX (tick s c) x := by
  rcases tick_cases s c with h | h | h <;> rw [h]
  · exact hi
  · exact inv_counters s c _ _ hi
  · exact inv_cull _ c (inv_counters s c 0 _ hi)

theorem setFac_counters_ent (s : State) (c : Cls) (a b : Nat) (c' : Cls) (e : Id × Handle) :
    Ent (setFac s c { s.fac c with cullCount := a, cullOffset := b }) c' e ↔ Ent s c' e := by
  simp only [Ent, setFac, upd]; split <;> simp_all

/-- `tick` creates no entries, changes no identity, never revives, never touches held objects -/
theorem tick_facts (s : State) (c : Cls) :
    (tick s c).n = s.n ∧ (tick s c).rows = s.rows ∧ (tick s c).cfg = s.cfg ∧ (tick s c).pickles = s.pickles ∧
    (tick s c).maxId = s.maxId ∧
    (∀ c' e, Ent (tick s c) c' e → Ent s c' e) ∧
    (∀ h, ((tick s c).obj h).cls = (s.obj h).cls ∧ ((tick s c).obj h).id = (s.obj h).id ∧
      ((tick s c).obj h).held = (s.obj h).held ∧ ((tick s c).obj h).obsolete = (s.obj h).obsolete ∧
      ((tick s c).obj h).expired = (s.obj h).expired ∧
      ((s.obj h).dead = true → ((tick s c).obj h).dead = true)) := by
  rcases tick_cases s c with h | h | h <;> rw [h]
  · exact ⟨rfl, rfl, rfl, rfl, rfl, fun _ _ he => he, fun h => ⟨rfl, rfl, rfl, rfl, rfl, fun hd => hd⟩⟩
  · refine ⟨rfl, rfl, rfl, rfl, rfl, ?_, fun h => ⟨rfl, rfl, rfl, rfl, rfl, fun hd => hd⟩⟩
    intro c' e he
    exact (setFac_counters_ent s c _ _ c' e).1 he
  · refine ⟨rfl, rfl, rfl, rfl, rfl, ?_, ?_⟩
    · intro c' e he
      rw [← setFac_counters_ent s c 0 (s.fac c).cullOffset]
      by_cases hcc : c' = c
      · subst hcc
        rcases he with he | he
        · exact Or.inl (cull_strong_mem _ _ _ he)
        · rcases cull_weak_mem _ _ _ he with h | h
          · exact Or.inr h.1
          · exact Or.inl h.1
      · simpa only [Ent, cull_fac_other _ c c' hcc] using he
    · intro h
      obtain ⟨o1, o2, o3, o4, o5, o6, o7⟩ := cull_obj (setFac s c { s.fac c with cullCount := 0, cullOffset := (s.fac c).cullOffset }) c h
      exact ⟨o1, o2, o3, o4, o5, o7⟩



theorem inv_weakErase (s : State) (c : Cls) (k : Id) (hi : CInv s)
    (hd : ∀ v, (k, v) ∈ (s.fac c).weak → (s.obj v).dead = true) :
    CInv (setFac s c { s.fac c with weak := aerase k (s.fac c).weak }) := by
  obtain ⟨h1, h2, h3, h4, h5, h6, h7, h8⟩ := hi
  constructor
  · intro c' e he
    have := h1 c' e
    simp only [Ent, setFac, upd] at he this ⊢
    split at he <;> simp_all [mem_aerase]
    grind
  · intro c'; have := h2 c'; simp only [setFac, upd]; split <;> simp_all
  · intro c'; have := h3 c'; simp only [setFac, upd]; split
    · subst_vars; exact fun_filter this
    · exact this
  · intro c' k' v1 v2; have := h4 c' k' v1 v2; simp only [setFac, upd]; split <;> simp_all [mem_aerase]
  · intro c' e; have := h5 c' e; simp only [setFac, upd]; split <;> simp_all
  · intro hd c'; have := h6 hd c'; simp only [setFac, upd]; split <;> simp_all
  · intro h hn hx hh ho
    have a := h7 h hn hx hh ho
    have b := h8 h hn hh
    simp only [Ent, setFac, upd] at a ⊢
    split
    · rename_i hc
      simp only [mem_aerase]
      rcases a with a | a
      · left; rw [hc] at a; exact a
      · right; rw [hc] at a; refine ⟨a, ?_⟩
        intro hk
        rw [hk] at a
        rw [hd h a] at b; cases b
    · exact a
  · exact h8

theorem inv_promote (s : State) (c : Cls) (k : Id) (h : Handle) (hi : CInv s)
    (hw : (k, h) ∈ (s.fac c).weak) (hd : (s.obj h).dead = false) (hdc : s.cfg.doCache = true) :
    CInv (setFac s c { s.fac c with weak := aerase k (s.fac c).weak, strong := aset k h (s.fac c).strong }) := by
  have hns : ∀ v, (k, v) ∉ (s.fac c).strong := fun v hv => by
    have := hi.disj c k v h hv hw; rw [hd] at this; cases this
  obtain ⟨h1, h2, h3, h4, h5, h6, h7, h8⟩ := hi
  constructor
  · intro c' e he
    have := h1 c' e
    have hw' := h1 c (k, h) (Or.inr hw)
    simp only [Ent, setFac, upd] at he this hw' ⊢
    split at he
    · subst_vars
      simp only [mem_aset, mem_aerase] at he
      rcases he with (he | he) | he
      · exact this (Or.inl he.1)
      · rw [he]; exact hw'
      · exact this (Or.inr he.1)
    · exact this he
  · intro c'; have := h2 c'; simp only [setFac, upd]; split
    · subst_vars; exact fun_aset this
    · exact this
  · intro c'; have := h3 c'; simp only [setFac, upd]; split
    · subst_vars; exact fun_filter this
    · exact this
  · intro c' k' v1 v2; have := h4 c' k' v1 v2; simp only [setFac, upd]; split
    · subst_vars
      simp only [mem_aset, mem_aerase]
      rintro (a | a) b
      · exact this a.1 b.1
      · simp only [Prod.mk.injEq] at a; exact absurd a.1 b.2
    · exact this
  · intro c' e; have := h5 c' e; simp only [setFac, upd]; split
    · subst_vars
      simp only [mem_aset]
      rintro (a | a)
      · exact this a.1
      · rw [a]; exact hd
    · exact this
  · intro hd'; simp only [setFac] at hd'; rw [hdc] at hd'; cases hd'
  · intro h' hn hx hh ho
    have a := h7 h' hn hx hh ho
    simp only [Ent, setFac, upd] at a ⊢
    split
    · rename_i hc
      rw [hc] at a
      simp only [mem_aset, mem_aerase]
      rcases a with a | a
      · left; left; exact ⟨a, fun hk => hns h' (by rw [← hk]; exact a)⟩
      · by_cases hk : (s.obj h').id = k
        · left; right
          rw [hk] at a
          rw [hk, h3 c k h' h a hw]
        · right; exact ⟨a, hk⟩
    · exact a
  · exact h8



local macro "tr" : term => `(by first | rfl | trivial)

theorem lookup_spec (s : State) (c : Cls) (k : Id) (hi : CInv s) :
    CInv (lookupCache s c k).1 ∧ (lookupCache s c k).1.n = s.n ∧ (lookupCache s c k).1.rows = s.rows ∧
    (lookupCache s c k).1.obj = s.obj ∧ (lookupCache s c k).1.cfg = s.cfg ∧
    (lookupCache s c k).1.pickles = s.pickles ∧ (lookupCache s c k).1.maxId = s.maxId ∧
    (∀ c' e, Ent (lookupCache s c k).1 c' e → Ent s c' e) ∧
    (∀ h, (lookupCache s c k).2 = some h → Ent (lookupCache s c k).1 c (k, h) ∧ (s.obj h).dead = false) ∧
    ((lookupCache s c k).2 = none → ∀ v, ¬ Ent (lookupCache s c k).1 c (k, v)) := by
  unfold lookupCache
  by_cases hdc : s.cfg.doCache = true
  · simp only [hdc, if_true]
    cases hS : aget k (s.fac c).strong with
    | some h =>
      simp only
      refine ⟨hi, tr, tr, tr, tr, tr, tr, fun _ _ he => he, ?_, by simp⟩
      intro h' hh; simp only [Option.some.injEq] at hh; subst hh
      exact ⟨Or.inl (aget_some_mem hS), hi.salive c _ (aget_some_mem hS)⟩
    | none =>
      simp only
      have hns := aget_none_iff.1 hS
      cases hW : aget k (s.fac c).weak with
      | none =>
        simp only
        have hnw := aget_none_iff.1 hW
        refine ⟨hi, tr, tr, tr, tr, tr, tr, fun _ _ he => he, by simp, ?_⟩
        intro _ v hv
        rcases hv with hv | hv
        · exact hns v hv
        · exact hnw v hv
      | some h =>
        simp only
        have hw := aget_some_mem hW
        by_cases hd : (s.obj h).dead = true
        · simp only [hd, if_true]
          refine ⟨inv_weakErase s c k hi ?_, tr, tr, tr, tr, tr, tr, ?_, by simp, ?_⟩
          · intro v hv; rw [hi.funW c k v h hv hw]; exact hd
          · intro c' e he
            simp only [Ent, setFac, upd] at he ⊢
            split at he
            · subst_vars; simp only [mem_aerase] at he
              rcases he with he | he
              · exact Or.inl he
              · exact Or.inr he.1
            · exact he
          · intro _ v hv
            simp only [Ent, setFac, upd, if_true, mem_aerase] at hv
            rcases hv with hv | hv
            · exact hns v hv
            · exact hv.2 rfl
        · have hd' : (s.obj h).dead = false := by cases h' : (s.obj h).dead <;> simp_all
          simp only [hd', Bool.false_eq_true, if_false]
          refine ⟨inv_promote s c k h hi hw hd' hdc, tr, tr, tr, tr, tr, tr, ?_, ?_, by simp⟩
          · intro c' e he
            simp only [Ent, setFac, upd] at he ⊢
            split at he
            · subst_vars; simp only [mem_aerase, mem_aset] at he
              rcases he with (he | he) | he
              · exact Or.inl he.1
              · rw [he]; exact Or.inr hw
              · exact Or.inr he.1
            · exact he
          · intro h' hh; simp only [Option.some.injEq] at hh; subst hh
            refine ⟨?_, hd'⟩
            left
            simp only [setFac, upd, if_true, mem_aset]
            right; trivial
  · have hdc' : s.cfg.doCache = false := by cases h' : s.cfg.doCache <;> simp_all
    simp only [hdc', Bool.false_eq_true, if_false]
    have hs0 := hi.nocache hdc' c
    cases hW : aget k (s.fac c).weak with
    | none =>
      simp only
      have hnw := aget_none_iff.1 hW
      refine ⟨hi, tr, tr, tr, tr, tr, tr, fun _ _ he => he, by simp, ?_⟩
      intro _ v hv
      rcases hv with hv | hv
      · rw [hs0] at hv; cases hv
      · exact hnw v hv
    | some h =>
      simp only
      have hw := aget_some_mem hW
      by_cases hd : (s.obj h).dead = true
      · simp only [hd, if_true]
        refine ⟨inv_weakErase s c k hi ?_, tr, tr, tr, tr, tr, tr, ?_, by simp, ?_⟩
        · intro v hv; rw [hi.funW c k v h hv hw]; exact hd
        · intro c' e he
          simp only [Ent, setFac, upd] at he ⊢
          split at he
          · subst_vars; simp only [mem_aerase] at he
            rcases he with he | he
            · exact Or.inl he
            · exact Or.inr he.1
          · exact he
        · intro _ v hv
          simp only [Ent, setFac, upd, if_true, mem_aerase] at hv
          rcases hv with hv | hv
          · rw [hs0] at hv; cases hv
          · exact hv.2 rfl
      · have hd' : (s.obj h).dead = false := by cases h' : (s.obj h).dead <;> simp_all
        simp only [hd', Bool.false_eq_true, if_false]
        refine ⟨hi, tr, tr, tr, tr, tr, tr, fun _ _ he => he, ?_, by simp⟩
        intro h' hh; simp only [Option.some.injEq] at hh; subst hh
        exact ⟨Or.inr hw, hd'⟩

theorem lookup_hit (s : State) (c : Cls) (k : Id) (h : Handle) (hi : CInv s)
    (he : Ent s c (k, h)) (hd : (s.obj h).dead = false) : (lookupCache s c k).2 = some h := by
  unfold lookupCache
  rcases he with he | he
  · have hdc : s.cfg.doCache = true := by
      cases h' : s.cfg.doCache with
      | true => rfl
      | false => rw [hi.nocache h' c] at he; cases he
    simp only [hdc, if_true, aget_eq_some_of_fun (hi.funS c) he]
  · have hW := aget_eq_some_of_fun (hi.funW c) he
    by_cases hdc : s.cfg.doCache = true
    · have hS : aget k (s.fac c).strong = none := aget_none_iff.2 (fun v hv => by
        have := hi.disj c k v h hv he; rw [hd] at this; cases this)
      simp only [hdc, if_true, hS, hW, hd, Bool.false_eq_true, if_false]
    · have hdc' : s.cfg.doCache = false := by cases h' : s.cfg.doCache <;> simp_all
      simp only [hdc', Bool.false_eq_true, if_false, hW, hd]



theorem inv_alloc (s : State) (c : Cls) (k : Id) (ex : Bool) (hi : CInv s) :
    CInvX (alloc s c k ex) (some s.n) := by
  obtain ⟨h1, h2, h3, h4, h5, h6, h7, h8⟩ := hi
  constructor
  · intro c' e he
    have := h1 c' e he
    simp only [alloc, upd]
    have hlt := this.1
    have hne : e.2 ≠ s.n := Nat.ne_of_lt hlt
    simp only [hne, if_false]
    refine ⟨Nat.lt_succ_of_lt hlt, this.2.1, this.2.2.1, this.2.2.2.1, this.2.2.2.2.1, ?_⟩
    simp only [ne_eq, Option.some.injEq]; exact hne
  · exact h2
  · exact h3
  · intro c' k' v1 v2 a b
    have hlt := (h1 c' (k', v2) (Or.inr b)).1
    have hne : v2 ≠ s.n := Nat.ne_of_lt hlt
    simp only [alloc, upd, hne, if_false]; exact h4 c' k' v1 v2 a b
  · intro c' e he
    have := h1 c' e (Or.inl he)
    have hlt := this.1
    have hne : e.2 ≠ s.n := Nat.ne_of_lt hlt
    simp only [alloc, upd, hne, if_false]; exact h5 c' e he
  · exact h6
  · intro h hn hx hh ho
    simp only [alloc] at hn
    have hne : h ≠ s.n := by simpa using hx
    simp only [alloc, upd, hne, if_false] at hh ho ⊢
    exact h7 h (by omega) (by simp) hh ho
  · intro h hn hh
    simp only [alloc, upd] at hn hh ⊢
    split
    · rfl
    · rename_i hne; simp only [hne, if_false] at hh; exact h8 h (by omega) hh

/-- registering the fresh handle `h` (put / created) -/
theorem inv_insert_new (s : State) (c : Cls) (k : Id) (h : Handle) (hi : CInvX s (some h))
    (hn : h < s.n) (oc : (s.obj h).cls = c) (ok : (s.obj h).id = k) (od : (s.obj h).dead = false)
    (oo : (s.obj h).obsolete = false) (hr : k ∈ s.rows c)
    (hs : ∀ v, (k, v) ∉ (s.fac c).strong)
    (hw : ∀ v, (k, v) ∈ (s.fac c).weak → (s.obj v).dead = true) :
    CInv (insertEntry s c k h) := by
  obtain ⟨h1, h2, h3, h4, h5, h6, h7, h8⟩ := hi
  unfold insertEntry
  by_cases hdc : s.cfg.doCache = true
  · simp only [hdc, if_true]
    constructor
    · intro c' e he
      have := h1 c' e
      simp only [Ent, setFac, upd] at he this ⊢
      split at he
      · subst_vars
        simp only [mem_aset] at he
        rcases he with (he | he) | he
        · have := this (Or.inl he.1); simp_all
        · rw [he]; simp_all
        · have := this (Or.inr he); simp_all
      · have := this he; simp_all
    · intro c'; have := h2 c'; simp only [setFac, upd]; split
      · subst_vars; exact fun_aset this
      · exact this
    · intro c'; have := h3 c'; simp only [setFac, upd]; split <;> simp_all
    · intro c' k' v1 v2; have := h4 c' k' v1 v2; simp only [setFac, upd]; split
      · subst_vars
        simp only [mem_aset]
        rintro (a | a) b
        · exact this a.1 b
        · simp only [Prod.mk.injEq] at a; rw [a.1] at b; exact hw v2 b
      · exact this
    · intro c' e; have := h5 c' e; simp only [setFac, upd]; split
      · subst_vars
        simp only [mem_aset]
        rintro (a | a)
        · exact this a.1
        · rw [a]; exact od
      · exact this
    · intro hd'; simp only [setFac] at hd'; rw [hdc] at hd'; cases hd'
    · intro h' hn' _ hh ho
      simp only [setFac] at hn'
      simp only [Ent, setFac, upd] at hh ho ⊢
      by_cases hx : h' = h
      · subst hx; rw [oc, ok]; simp only [if_true, mem_aset]; left; right; trivial
      · have a := h7 h' hn' (by simpa using hx) hh ho
        simp only [Ent] at a
        split
        · rename_i hc; rw [hc] at a
          simp only [mem_aset]
          rcases a with a | a
          · left; left; exact ⟨a, fun hk => hs h' (by rw [← hk]; exact a)⟩
          · right; exact a
        · exact a
    · exact h8
  · have hdc' : s.cfg.doCache = false := by cases h' : s.cfg.doCache <;> simp_all
    simp only [hdc', Bool.false_eq_true, if_false]
    constructor
    · intro c' e he
      have := h1 c' e
      simp only [Ent, setFac, upd] at he this ⊢
      split at he
      · subst_vars
        simp only [mem_aset] at he
        rcases he with he | he | he
        · have := this (Or.inl he); simp_all
        · have := this (Or.inr he.1); simp_all
        · rw [he]; simp_all
      · have := this he; simp_all
    · intro c'; have := h2 c'; simp only [setFac, upd]; split <;> simp_all
    · intro c'; have := h3 c'; simp only [setFac, upd]; split
      · subst_vars; exact fun_aset this
      · exact this
    · intro c' k' v1 v2 a
      have := h6 hdc' c'
      simp only [setFac, upd] at a
      split at a <;> simp_all
    · intro c' e a
      have := h6 hdc' c'
      simp only [setFac, upd] at a
      split at a <;> simp_all
    · intro _ c'; have := h6 hdc' c'; simp only [setFac, upd]; split <;> simp_all
    · intro h' hn' _ hh ho
      simp only [setFac] at hn'
      simp only [Ent, setFac, upd] at hh ho ⊢
      by_cases hx : h' = h
      · subst hx; rw [oc, ok]; simp only [if_true, mem_aset]; right; right; trivial
      · have a := h7 h' hn' (by simpa using hx) hh ho
        simp only [Ent] at a
        split
        · rename_i hc; rw [hc] at a
          simp only [mem_aset]
          rcases a with a | a
          · left; exact a
          · right; left; refine ⟨a, fun hk => ?_⟩
            rw [hk] at a
            have := hw h' a
            rw [h8 h' hn' hh] at this; cases this
        · exact a
    · exact h8



/-- what every step leaves alone: rows (unless it is create/destroy), identities of existing objects,
    and the application's references -/
structure Frame (s s' : State) : Prop where
  rows : s'.rows = s.rows
  cfg : s'.cfg = s.cfg
  n : s.n ≤ s'.n
  obj : ∀ h, h < s.n → (s'.obj h).cls = (s.obj h).cls ∧ (s'.obj h).id = (s.obj h).id ∧
    (s'.obj h).obsolete = (s.obj h).obsolete ∧ ((s.obj h).held = true → (s'.obj h).held = true)

theorem Frame.refl (s : State) : Frame s s := ⟨rfl, rfl, Nat.le_refl _, fun _ _ => ⟨rfl, rfl, rfl, id⟩⟩

theorem Frame.trans {a b c : State} (h1 : Frame a b) (h2 : Frame b c) : Frame a c := by
  refine ⟨h2.rows.trans h1.rows, h2.cfg.trans h1.cfg, Nat.le_trans h1.n h2.n, ?_⟩
  intro h hn
  obtain ⟨a1, a2, a3, a4⟩ := h1.obj h hn
  obtain ⟨b1, b2, b3, b4⟩ := h2.obj h (Nat.lt_of_lt_of_le hn h1.n)
  exact ⟨b1.trans a1, b2.trans a2, b3.trans a3, fun x => b4 (a4 x)⟩

/-- a handle an access path may hand to the application -/
def Good (s : State) (c : Cls) (k : Id) (h : Handle) : Prop :=
  h < s.n ∧ (s.obj h).cls = c ∧ (s.obj h).id = k ∧ (s.obj h).held = true ∧ (s.obj h).obsolete = false ∧
  k ∈ s.rows c

theorem Good.frame {s s' : State} {c k h} (g : Good s c k h) (f : Frame s s') : Good s' c k h := by
  obtain ⟨g1, g2, g3, g4, g5, g6⟩ := g
  obtain ⟨a1, a2, a3, a4⟩ := f.obj h g1
  exact ⟨Nat.lt_of_lt_of_le g1 f.n, a1.trans g2, a2.trans g3, a4 g4, a3.trans g5, by rw [f.rows]; exact g6⟩

theorem insertEntry_fields (s : State) (c : Cls) (k : Id) (h : Handle) :
    (insertEntry s c k h).rows = s.rows ∧ (insertEntry s c k h).cfg = s.cfg ∧ (insertEntry s c k h).n = s.n ∧
    (insertEntry s c k h).obj = s.obj ∧ (insertEntry s c k h).pickles = s.pickles ∧
    (insertEntry s c k h).maxId = s.maxId := by
  unfold insertEntry; split <;> simp [setFac]

theorem getObj_spec (s : State) (c : Cls) (k : Id) (sel : Bool) (hi : CInv s) :
    CInv (getObj s c k sel).1 ∧ Frame s (getObj s c k sel).1 ∧
    (getObj s c k sel).1.pickles = s.pickles ∧
    (∀ h, (getObj s c k sel).2 = some h → Good (getObj s c k sel).1 c k h) ∧
    ((getObj s c k sel).2 = none → k ∉ s.rows c) := by
  obtain ⟨t1, t2, t3, t4, t5, t6, t7⟩ := tick_facts s c
  have hi0 := inv_tick s c hi
  obtain ⟨l1, l2, l3, l4, l5, l6, l7, l8, l9, l10⟩ := lookup_spec (tick s c) c k hi0
  unfold getObj
  generalize hr : lookupCache (tick s c) c k = r at l1 l2 l3 l4 l5 l6 l7 l8 l9 l10
  obtain ⟨s1, res⟩ := r
  simp only at l1 l2 l3 l4 l5 l6 l7 l8 l9 l10
  have fr1 : Frame s s1 := by
    refine ⟨l3.trans t2, l5.trans t3, by rw [l2, t1]; exact Nat.le_refl _, ?_⟩
    intro h _
    rw [l4]
    obtain ⟨a1, a2, a3, a4, _, _⟩ := t7 h
    exact ⟨a1, a2, a4, fun x => a3.trans x⟩
  cases res with
  | some h =>
    simp only
    obtain ⟨e1, e2⟩ := l9 h rfl
    obtain ⟨b1, b2, b3, b4, b5, _⟩ := l1.ent c (k, h) e1
    simp only at b1 b2 b3 b4 b5
    have hi2 : CInv (setObj s1 h { s1.obj h with held := true, expired := if sel = true then false else (s1.obj h).expired }) := by
      refine inv_setObj s1 h { s1.obj h with held := true, expired := if sel = true then false else (s1.obj h).expired } l1 rfl rfl rfl rfl ?_
      intro _; right
      rw [l4]
      refine ⟨e2, ?_⟩
      rw [← l4, b2, b3]; exact e1
    refine ⟨hi2, ?_, l6.trans t4, ?_, by simp⟩
    · refine Frame.trans fr1 ⟨rfl, rfl, Nat.le_refl _, ?_⟩
      intro h' _
      simp only [setObj, upd]
      split
      · subst_vars; exact ⟨rfl, rfl, rfl, fun _ => rfl⟩
      · exact ⟨rfl, rfl, rfl, id⟩
    · intro h' hh; simp only [Option.some.injEq] at hh; subst hh
      simp only [Good, setObj, upd, if_true]
      exact ⟨b1, b2, b3, trivial, b5, b4⟩
  | none =>
    simp only
    have hno := l10 rfl
    by_cases hrow : (s1.rows c).contains k = true
    · simp only [hrow, if_true]
      have hrow' : k ∈ s1.rows c := by simpa using hrow
      have hi2 : CInv (insertEntry (alloc s1 c k false) c k s1.n) := by
        apply inv_insert_new (alloc s1 c k false) c k s1.n (inv_alloc s1 c k false l1)
        · simp [alloc]
        · simp [alloc, upd]
        · simp [alloc, upd]
        · simp [alloc, upd]
        · simp [alloc, upd]
        · simpa [alloc] using hrow'
        · intro v hv; exact hno v (Or.inl hv)
        · intro v hv; exact absurd (Or.inr hv) (hno v)
      obtain ⟨i1, i2, i3, i4, i5, i6⟩ := insertEntry_fields (alloc s1 c k false) c k s1.n
      refine ⟨hi2, ?_, ?_, ?_, by simp⟩
      · refine Frame.trans fr1 ⟨?_, ?_, ?_, ?_⟩
        · rw [i1]; rfl
        · rw [i2]; rfl
        · rw [i3]; simp [alloc]
        · intro h' hn'
          have hne : h' ≠ s1.n := Nat.ne_of_lt hn'
          rw [i4]; simp [alloc, upd, hne]
      · rw [i5]; exact l6.trans t4
      · intro h' hh; simp only [Option.some.injEq] at hh; subst hh
        simp only [Good]
        rw [i1, i3, i4]
        simp [alloc, upd, hrow']
    · simp only [hrow, Bool.false_eq_true, if_false]
      refine ⟨l1, fr1, l6.trans t4, by simp, ?_⟩
      intro _ hk
      apply hrow
      rw [fr1.rows]; simpa using hk



theorem selectLoop_spec (c : Cls) (ids : List Id) (s : State) (acc : List Handle) (hi : CInv s)
    (ha : ∀ h ∈ acc, ∃ k, Good s c k h) :
    CInv (selectLoop c ids s acc).1 ∧ Frame s (selectLoop c ids s acc).1 ∧
    (selectLoop c ids s acc).1.pickles = s.pickles ∧
    (∀ h ∈ (selectLoop c ids s acc).2, ∃ k, Good (selectLoop c ids s acc).1 c k h) := by
  induction ids generalizing s acc with
  | nil =>
    simp only [selectLoop]
    exact ⟨hi, Frame.refl s, trivial, fun h hh => ha h (List.mem_reverse.1 hh)⟩
  | cons k ks ih =>
    simp only [selectLoop]
    split
    · obtain ⟨g1, g2, g3, g4, _⟩ := getObj_spec s c k true hi
      generalize getObj s c k true = r at g1 g2 g3 g4
      obtain ⟨s1, res⟩ := r
      cases res with
      | some h =>
        simp only at g1 g2 g3 g4 ⊢
        have := ih s1 (h :: acc) g1 (by
          intro h' hh'
          simp only [List.mem_cons] at hh'
          rcases hh' with rfl | hh'
          · exact ⟨k, g4 _ rfl⟩
          · obtain ⟨k', gk⟩ := ha h' hh'; exact ⟨k', gk.frame g2⟩)
        exact ⟨this.1, g2.trans this.2.1, this.2.2.1.trans g3, this.2.2.2⟩
      | none =>
        simp only at g1 g2 g3 g4 ⊢
        have := ih s1 acc g1 (by
          intro h' hh'
          obtain ⟨k', gk⟩ := ha h' hh'; exact ⟨k', gk.frame g2⟩)
        exact ⟨this.1, g2.trans this.2.1, this.2.2.1.trans g3, this.2.2.2⟩
    · exact ih s acc hi ha

theorem joinLoop_spec (c : Cls) (ids : List Id) (s : State) (acc : List Handle) (hi : CInv s)
    (ha : ∀ h ∈ acc, ∃ k, Good s c k h) :
    CInv (joinLoop c ids s acc).1 ∧ Frame s (joinLoop c ids s acc).1 ∧
    (joinLoop c ids s acc).1.pickles = s.pickles ∧
    (∀ l, (joinLoop c ids s acc).2 = some l → ∀ h ∈ l, ∃ k, Good (joinLoop c ids s acc).1 c k h) := by
  induction ids generalizing s acc with
  | nil =>
    simp only [joinLoop]
    refine ⟨hi, Frame.refl s, trivial, ?_⟩
    intro l hl h hh
    simp only [Option.some.injEq] at hl; subst hl
    exact ha h (List.mem_reverse.1 hh)
  | cons k ks ih =>
    simp only [joinLoop]
    obtain ⟨g1, g2, g3, g4, _⟩ := getObj_spec s c k false hi
    generalize getObj s c k false = r at g1 g2 g3 g4
    obtain ⟨s1, res⟩ := r
    cases res with
    | some h =>
      simp only at g1 g2 g3 g4 ⊢
      have := ih s1 (h :: acc) g1 (by
        intro h' hh'
        simp only [List.mem_cons] at hh'
        rcases hh' with rfl | hh'
        · exact ⟨k, g4 _ rfl⟩
        · obtain ⟨k', gk⟩ := ha h' hh'; exact ⟨k', gk.frame g2⟩)
      exact ⟨this.1, g2.trans this.2.1, this.2.2.1.trans g3, this.2.2.2⟩
    | none =>
      simp only at g1 g2 g3 g4 ⊢
      exact ⟨g1, g2, g3, by simp⟩

theorem inv_gc (s : State) (hs : List Handle) (hi : CInv s) : CInv (gcStep s hs) := by
  obtain ⟨h1, h2, h3, h4, h5, h6, h7, h8⟩ := hi
  have hobj : ∀ h, ((gcStep s hs).obj h).cls = (s.obj h).cls ∧ ((gcStep s hs).obj h).id = (s.obj h).id ∧
      ((gcStep s hs).obj h).held = (s.obj h).held ∧ ((gcStep s hs).obj h).obsolete = (s.obj h).obsolete := by
    intro h; simp only [gcStep]; split <;> simp
  constructor
  · intro c e he
    obtain ⟨a1, a2, a3, a4⟩ := hobj e.2
    rw [a1, a2, a4]; exact h1 c e he
  · exact h2
  · exact h3
  · intro c k v1 v2 a b
    have := h4 c k v1 v2 a b
    simp only [gcStep]; split
    · rfl
    · exact this
  · intro c e he
    simp only [gcStep]
    split
    · rename_i hk
      simp only [killable, Bool.and_eq_true, Bool.not_eq_true', decide_eq_true_eq] at hk
      have := (h1 c e (Or.inl he)).2.1
      rw [this] at hk
      have hh : ahas e.2 (s.fac c).strong = true := (ahas_iff _ _).2 ⟨e.1, he⟩
      rw [hh] at hk; simp at hk
    · exact h5 c e he
  · exact h6
  · intro h hn hx hh ho
    obtain ⟨a1, a2, a3, a4⟩ := hobj h
    rw [a3] at hh; rw [a4] at ho; rw [a1, a2]
    exact h7 h hn hx hh ho
  · intro h hn hh
    obtain ⟨a1, a2, a3, a4⟩ := hobj h
    rw [a3] at hh
    simp only [gcStep]
    split
    · rename_i hk
      simp only [killable, Bool.and_eq_true, Bool.not_eq_true', decide_eq_true_eq] at hk
      rw [hh] at hk; simp at hk
    · exact h8 h hn hh

theorem inv_weakrefAll (s : State) (hi : CInv s) : CInv (weakrefAll s) := by
  unfold weakrefAll
  split
  · obtain ⟨h1, h2, h3, h4, h5, h6, h7, h8⟩ := hi
    constructor
    · intro c e he
      simp only [Ent] at he
      rcases he with he | he
      · cases he
      · rcases mem_asetAll_sound _ _ _ he with a | a
        · exact h1 c e (Or.inr a)
        · exact h1 c e (Or.inl a)
    · intro c; simp [Fun]
    · intro c; exact fun_asetAll _ _ (h3 c)
    · intro c k v1 v2 a; cases a
    · intro c e a; cases a
    · intro _ c; rfl
    · intro h hn hx hh ho
      have a := h7 h hn hx hh ho
      right
      simp only
      rcases a with a | a
      · exact mem_asetAll_new _ _ _ (h2 _) a
      · exact mem_asetAll_old _ _ _ a (fun v hv => by
          have := h4 _ _ v h hv a; rw [h8 h hn hh] at this; cases this)
    · exact h8
  · exact hi



/-- some instance the application holds is registered under `(c, k)` -/
def heldAt (s : State) (c : Cls) (k : Id) : Bool :=
  (match aget k (s.fac c).strong with | some h => (s.obj h).held | none => false) ||
  (match aget k (s.fac c).weak with | some h => (s.obj h).held | none => false)

/-- the histories the partial theorems are about: an op is *excluded* when it
    (E1) detaches an instance the application holds: `obj.expire()` while a held instance is registered
         for that row, `connection.expireAll()` while the application holds any live instance;
    (E2) unpickles a row that does not exist (any more);
    (E4) calls `destroySelf()` on an instance that was already destroyed. -/
def guard (s : State) : Op → Bool
  | .expire h => !heldAt s (s.obj h).cls (s.obj h).id
  | .expireAll => (List.range s.n).all (fun h => !(s.obj h).held || (s.obj h).obsolete)
  | .destroy h => !(s.obj h).obsolete
  | .unpickle p =>
    match s.pickles[p]? with
    | some (c, k, _) => (s.rows c).contains k
    | none => true
  | _ => true

def Safe (s : State) : List Op → Bool
  | [] => true
  | op :: ops => guard s op && Safe (step s op).1 ops

def Out.handles : Out → List Handle
  | .obj h => [h]
  | .objs l => l
  | _ => []

def Op.isAccess : Op → Bool
  | .get .. | .select .. | .look .. | .fk .. | .join .. => true
  | _ => false

theorem inv_expireOne_free (s : State) (h : Handle) (hi : CInv s)
    (hf : ∀ h', h' < s.n → (s.obj h').held = true → (s.obj h').obsolete = true) :
    CInv (expireOne s h) ∧ (expireOne s h).n = s.n ∧
    (∀ h', h' < (expireOne s h).n → ((expireOne s h).obj h').held = true → ((expireOne s h).obj h').obsolete = true) := by
  unfold expireOne
  have a : CInv (setObj s h { s.obj h with expired := true }) :=
    inv_setObj s h _ hi rfl rfl rfl rfl (fun x => Or.inl x)
  have hf' : ∀ h', h' < s.n → ((setObj s h { s.obj h with expired := true }).obj h').held = true →
      ((setObj s h { s.obj h with expired := true }).obj h').obsolete = true := by
    intro h' hn hh
    simp only [setObj, upd] at hh ⊢
    split at hh <;> simp_all
  refine ⟨?_, ?_, ?_⟩
  · apply inv_purge _ _ _ a
    intro h' hn hh ho
    rw [hf' h' hn hh] at ho; cases ho
  · rw [purge_eq]; rfl
  · rw [purge_eq]; exact hf'

theorem inv_expireFold (items : List Handle) (s : State) (hi : CInv s)
    (hf : ∀ h', h' < s.n → (s.obj h').held = true → (s.obj h').obsolete = true) :
    CInv (items.foldl expireOne s) := by
  induction items generalizing s with
  | nil => exact hi
  | cons x xs ih =>
    simp only [List.foldl_cons]
    obtain ⟨a, b, c⟩ := inv_expireOne_free s x hi hf
    exact ih _ a c



theorem tick_strong_mem (s : State) (c c' : Cls) (e : Id × Handle)
    (he : e ∈ ((tick s c).fac c').strong) : e ∈ (s.fac c').strong := by
  rcases tick_cases s c with h | h | h <;> rw [h] at he
  · exact he
  · simp only [setFac, upd] at he; split at he
    · subst_vars; exact he
    · exact he
  · by_cases hcc : c' = c
    · subst hcc
      have := cull_strong_mem _ _ _ he
      simpa [setFac, upd] using this
    · rw [cull_fac_other _ c c' hcc] at he
      simpa [setFac, upd, hcc] using he

theorem tick_dead (s : State) (c : Cls) (h : Handle) (hd : ((tick s c).obj h).dead = true) :
    (s.obj h).dead = true ∨ ∃ c' k, Ent s c' (k, h) := by
  rcases tick_cases s c with e | e | e <;> rw [e] at hd
  · exact Or.inl hd
  · exact Or.inl hd
  · obtain ⟨_, _, _, _, _, o6, _⟩ := cull_obj (setFac s c { s.fac c with cullCount := 0, cullOffset := (s.fac c).cullOffset }) c h
    rcases o6 hd with a | ⟨_, _, k, hk, _⟩
    · exact Or.inl a
    · right; refine ⟨c, k, Or.inl ?_⟩
      simpa [setFac, upd] using hk

/-- `created` for a freshly built instance (after INSERT, or in `__setstate__`) -/
theorem inv_register (s : State) (c : Cls) (k : Id) (ex : Bool) (hi : CInv s) (hr : k ∈ s.rows c)
    (hs : ∀ v, (k, v) ∉ (s.fac c).strong)
    (hw : ∀ v, (k, v) ∈ (s.fac c).weak → (s.obj v).dead = true) :
    CInv (insertEntry (tick (alloc s c k ex) c) c k s.n) ∧
    Good (insertEntry (tick (alloc s c k ex) c) c k s.n) c k s.n := by
  have ha := inv_alloc s c k ex hi
  have ht := inv_tick _ c ha
  obtain ⟨t1, t2, t3, t4, t5, t6, t7⟩ := tick_facts (alloc s c k ex) c
  obtain ⟨a1, a2, a3, a4, a5, a6⟩ := t7 s.n
  have hdead : ((tick (alloc s c k ex) c).obj s.n).dead = false := by
    cases hd : ((tick (alloc s c k ex) c).obj s.n).dead with
    | false => rfl
    | true =>
      rcases tick_dead _ c s.n hd with x | ⟨c', k', x⟩
      · simp [alloc, upd] at x
      · have := (ha.ent c' (k', s.n) x).2.2.2.2.2
        simp at this
  have hn : s.n < (tick (alloc s c k ex) c).n := by rw [t1]; simp [alloc]
  have oc : ((tick (alloc s c k ex) c).obj s.n).cls = c := by rw [a1]; simp [alloc, upd]
  have ok : ((tick (alloc s c k ex) c).obj s.n).id = k := by rw [a2]; simp [alloc, upd]
  have oo : ((tick (alloc s c k ex) c).obj s.n).obsolete = false := by rw [a4]; simp [alloc, upd]
  have oh : ((tick (alloc s c k ex) c).obj s.n).held = true := by rw [a3]; simp [alloc, upd]
  have hr' : k ∈ (tick (alloc s c k ex) c).rows c := by rw [t2]; exact hr
  refine ⟨inv_insert_new _ c k s.n ht hn oc ok hdead oo hr' ?_ ?_, ?_⟩
  · intro v hv
    exact hs v (by simpa [alloc] using tick_strong_mem _ c c _ hv)
  · intro v hv
    rcases t6 c (k, v) (Or.inr hv) with x | x
    · exact absurd x (hs v)
    · have x2 := hw v x
      have hne : v ≠ s.n := Nat.ne_of_lt (hi.ent c (k, v) (Or.inr x)).1
      have := (t7 v).2.2.2.2.2
      apply this
      simpa [alloc, upd, hne] using x2
  · obtain ⟨i1, i2, i3, i4, i5, i6⟩ := insertEntry_fields (tick (alloc s c k ex) c) c k s.n
    simp only [Good]
    rw [i1, i3, i4]
    exact ⟨hn, oc, ok, oh, oo, hr'⟩

theorem inv_rows_add (s : State) (c : Cls) (k : Id) (m : Cls → Nat) (hi : CInv s) :
    CInv { s with rows := upd s.rows c (s.rows c ++ [k]), maxId := m } := by
  obtain ⟨h1, h2, h3, h4, h5, h6, h7, h8⟩ := hi
  constructor
  · intro c' e he
    have := h1 c' e he
    simp only [upd]
    refine ⟨this.1, this.2.1, this.2.2.1, ?_, this.2.2.2.2⟩
    split
    · subst_vars; simp [this.2.2.2.1]
    · exact this.2.2.2.1
  all_goals assumption



theorem heldAt_false {s : State} {c : Cls} {k : Id} (hi : CInv s) (hg : heldAt s c k = false)
    (v : Handle) (he : Ent s c (k, v)) : (s.obj v).held = false := by
  simp only [heldAt, Bool.or_eq_false_iff] at hg
  rcases he with he | he
  · have := aget_eq_some_of_fun (hi.funS c) he
    rw [this] at hg; exact hg.1
  · have := aget_eq_some_of_fun (hi.funW c) he
    rw [this] at hg; exact hg.2

theorem step_spec (s : State) (op : Op) (hi : CInv s) (hg : guard s op = true) :
    CInv (step s op).1 ∧ (∀ h ∈ (step s op).2.handles, ∃ c k, Good (step s op).1 c k h) ∧
    (op.isAccess = true → Frame s (step s op).1) := by
  cases op with
  | create c idopt =>
    simp only [step]
    split
    · exact ⟨hi, by simp [Out.handles], by simp [Op.isAccess]⟩
    · rename_i hnk
      have hnk' : idopt.getD (s.maxId c + 1) ∉ s.rows c := by simpa using hnk
      have h1 := inv_rows_add s c (idopt.getD (s.maxId c + 1)) (upd s.maxId c (max (s.maxId c) (idopt.getD (s.maxId c + 1)))) hi
      have := inv_register _ c (idopt.getD (s.maxId c + 1)) false h1 (by simp [upd])
        (fun v hv => hnk' (hi.ent c _ (Or.inl hv)).2.2.2.1)
        (fun v hv => absurd (hi.ent c _ (Or.inr hv)).2.2.2.1 hnk')
      refine ⟨this.1, ?_, by simp [Op.isAccess]⟩
      intro h hh
      simp only [Out.handles, List.mem_singleton] at hh
      subst hh
      exact ⟨c, _, this.2⟩
  | get c k =>
    simp only [step]
    obtain ⟨g1, g2, g3, g4, g5⟩ := getObj_spec s c k false hi
    generalize getObj s c k false = r at g1 g2 g3 g4 g5
    obtain ⟨s1, res⟩ := r
    cases res with
    | some h => exact ⟨g1, by intro h' hh; simp only [Out.handles, List.mem_singleton] at hh; subst hh; exact ⟨c, k, g4 _ rfl⟩, fun _ => g2⟩
    | none => exact ⟨g1, by simp [Out.handles], fun _ => g2⟩
  | select c ids =>
    simp only [step]
    obtain ⟨g1, g2, g3, g4⟩ := selectLoop_spec c ids s [] hi (by simp)
    exact ⟨g1, fun h hh => by obtain ⟨k, gk⟩ := g4 h hh; exact ⟨c, k, gk⟩, fun _ => g2⟩
  | look c k =>
    simp only [step]
    split
    · obtain ⟨g1, g2, g3, g4, g5⟩ := getObj_spec s c k true hi
      generalize getObj s c k true = r at g1 g2 g3 g4 g5
      obtain ⟨s1, res⟩ := r
      cases res with
      | some h => exact ⟨g1, by intro h' hh; simp only [Out.handles, List.mem_singleton] at hh; subst hh; exact ⟨c, k, g4 _ rfl⟩, fun _ => g2⟩
      | none => exact ⟨g1, by simp [Out.handles], fun _ => g2⟩
    · exact ⟨hi, by simp [Out.handles], fun _ => Frame.refl s⟩
  | fk h tc tid =>
    simp only [step]
    split
    · split
      · exact ⟨hi, by simp [Out.handles], fun _ => Frame.refl s⟩
      · have h0 : CInv (setObj s h { s.obj h with expired := false }) :=
          inv_setObj s h _ hi rfl rfl rfl rfl (fun x => Or.inl x)
        have f0 : Frame s (setObj s h { s.obj h with expired := false }) := by
          refine ⟨rfl, rfl, Nat.le_refl _, ?_⟩
          intro h' _; simp only [setObj, upd]; split
          · subst_vars; exact ⟨rfl, rfl, rfl, id⟩
          · exact ⟨rfl, rfl, rfl, id⟩
        cases tid with
        | none => exact ⟨h0, by simp [Out.handles], fun _ => f0⟩
        | some t =>
          simp only
          obtain ⟨g1, g2, g3, g4, g5⟩ := getObj_spec _ tc t false h0
          generalize getObj (setObj s h { s.obj h with expired := false }) tc t false = r at g1 g2 g3 g4 g5
          obtain ⟨s1, res⟩ := r
          cases res with
          | some h' => exact ⟨g1, by intro x hh; simp only [Out.handles, List.mem_singleton] at hh; subst hh; exact ⟨tc, t, g4 _ rfl⟩, fun _ => f0.trans g2⟩
          | none => exact ⟨g1, by simp [Out.handles], fun _ => f0.trans g2⟩
    · exact ⟨hi, by simp [Out.handles], fun _ => Frame.refl s⟩
  | join h tc ids =>
    simp only [step]
    split
    · obtain ⟨g1, g2, g3, g4⟩ := joinLoop_spec tc ids s [] hi (by simp)
      generalize joinLoop tc ids s [] = r at g1 g2 g3 g4
      obtain ⟨s1, res⟩ := r
      cases res with
      | some l => exact ⟨g1, fun x hx => by obtain ⟨k, gk⟩ := g4 l rfl x hx; exact ⟨tc, k, gk⟩, fun _ => g2⟩
      | none => exact ⟨g1, by simp [Out.handles], fun _ => g2⟩
    · exact ⟨hi, by simp [Out.handles], fun _ => Frame.refl s⟩
  | drop h =>
    simp only [step]
    split
    · exact ⟨inv_setObj s h _ hi rfl rfl rfl rfl (by simp), by simp [Out.handles], by simp [Op.isAccess]⟩
    · exact ⟨hi, by simp [Out.handles], by simp [Op.isAccess]⟩
  | gc hs => exact ⟨inv_gc s hs hi, by simp [step, Out.handles], by simp [Op.isAccess]⟩
  | expire h =>
    simp only [step]
    split
    · refine ⟨?_, by simp [Out.handles], by simp [Op.isAccess]⟩
      unfold expireOne
      have a : CInv (setObj s h { s.obj h with expired := true }) :=
        inv_setObj s h _ hi rfl rfl rfl rfl (fun x => Or.inl x)
      apply inv_purge _ _ _ a
      intro h' hn hh ho hck
      simp only [guard, Bool.not_eq_true'] at hg
      have hh' : (s.obj h').held = true := by
        simp only [setObj, upd] at hh; split at hh <;> simp_all
      have ho' : (s.obj h').obsolete = false := by
        simp only [setObj, upd] at ho; split at ho <;> simp_all
      have hc' : (s.obj h').cls = (s.obj h).cls ∧ (s.obj h').id = (s.obj h).id := by
        simp only [setObj, upd] at hck; split at hck <;> simp_all
      have e := hi.hcached h' hn (by simp) hh' ho'
      rw [hc'.1, hc'.2] at e
      have := heldAt_false hi hg h' e
      rw [hh'] at this; cases this
    · exact ⟨hi, by simp [Out.handles], by simp [Op.isAccess]⟩
  | expireAll =>
    simp only [step]
    refine ⟨?_, by simp [Out.handles], by simp [Op.isAccess]⟩
    apply inv_expireFold _ _ (inv_weakrefAll s hi)
    simp only [guard, List.all_eq_true, List.mem_range, Bool.or_eq_true, Bool.not_eq_true'] at hg
    have hn : (weakrefAll s).n = s.n := by unfold weakrefAll; split <;> rfl
    have ho : (weakrefAll s).obj = s.obj := by unfold weakrefAll; split <;> rfl
    intro h' hlt hh
    rw [hn] at hlt; rw [ho] at hh ⊢
    rcases hg h' hlt with x | x
    · rw [hh] at x; cases x
    · exact x
  | destroy h =>
    simp only [step]
    split
    · rename_i hu
      simp only [usable, Bool.and_eq_true, decide_eq_true_eq] at hu
      simp only [guard, Bool.not_eq_true'] at hg
      refine ⟨?_, by simp [Out.handles], by simp [Op.isAccess]⟩
      have hent := hi.hcached h hu.1 (by simp) hu.2 hg
      -- rows shrink, the object becomes obsolete, its entry goes
      have key : ∀ c e, Ent s c e → ¬ (c = (s.obj h).cls ∧ e.1 = (s.obj h).id) → e.2 ≠ h := by
        intro c e he hne hx
        obtain ⟨_, b2, b3, _⟩ := hi.ent c e he
        rw [hx] at b2 b3
        exact hne ⟨b2.symm, b3.symm⟩
      rw [purge_eq]
      obtain ⟨h1, h2, h3, h4, h5, h6, h7, h8⟩ := hi
      constructor
      · intro c e he
        simp only [Ent, setFac, setObj, upd] at he ⊢
        split at he
        · rename_i hc; subst hc
          simp only [mem_aerase] at he
          have he' : Ent s (s.obj h).cls e := by rcases he with x | x; exact Or.inl x.1; exact Or.inr x.1
          have hk : e.1 ≠ (s.obj h).id := by rcases he with x | x; exact x.2; exact x.2
          have := h1 _ e he'
          have hne := key _ e he' (fun x => hk x.2)
          simp only [hne, if_false, if_true]
          refine ⟨this.1, this.2.1, this.2.2.1, ?_, this.2.2.2.2⟩
          simp only [List.mem_filter, decide_eq_true_eq]; exact ⟨this.2.2.2.1, hk⟩
        · rename_i hc
          have := h1 c e he
          have hne := key c e he (fun x => hc x.1)
          simp only [hne, if_false, hc]
          exact this
      · intro c; have := h2 c; simp only [setFac, setObj, upd]; split
        · subst_vars; exact fun_filter this
        · exact this
      · intro c; have := h3 c; simp only [setFac, setObj, upd]; split
        · subst_vars; exact fun_filter this
        · exact this
      · intro c k v1 v2 a b
        have a0 : (k, v1) ∈ (s.fac c).strong := by
          simp only [setFac, setObj, upd] at a; split at a
          · subst_vars; simp only [mem_aerase] at a; exact a.1
          · exact a
        have b0 : (k, v2) ∈ (s.fac c).weak := by
          simp only [setFac, setObj, upd] at b; split at b
          · subst_vars; simp only [mem_aerase] at b; exact b.1
          · exact b
        have := h4 c k v1 v2 a0 b0
        simp only [setFac, setObj, upd]; split
        · subst_vars; exact this
        · exact this
      · intro c e he
        have he0 : e ∈ (s.fac c).strong := by
          simp only [setFac, setObj, upd] at he; split at he
          · subst_vars; simp only [mem_aerase] at he; exact he.1
          · exact he
        have := h5 c e he0
        simp only [setFac, setObj, upd]; split <;> simp_all
      · intro hd c; have := h6 hd c; simp only [setFac, setObj, upd]; split <;> simp_all [aerase]
      · intro h' hn _ hh ho
        simp only [setFac, setObj, upd] at hn hh ho ⊢
        by_cases hx : h' = h
        · subst hx; simp at ho
        · simp only [hx, if_false] at hh ho ⊢
          have a := h7 h' hn (by simp) hh ho
          simp only [Ent] at a ⊢
          by_cases hc : (s.obj h').cls = (s.obj h).cls
          · simp only [upd, hc, if_true, mem_aerase]
            rw [hc] at a
            have hk : (s.obj h').id ≠ (s.obj h).id := by
              intro hk
              rw [hk] at a
              rcases a with a | a <;> rcases hent with b | b
              · exact hx (h2 _ _ _ _ a b)
              · have := h4 _ _ _ _ a b; rw [h8 h hu.1 hu.2] at this; cases this
              · have := h4 _ _ _ _ b a; rw [h8 h' hn hh] at this; cases this
              · exact hx (h3 _ _ _ _ a b)
            rcases a with a | a
            · exact Or.inl ⟨a, hk⟩
            · exact Or.inr ⟨a, hk⟩
          · simp only [upd, hc, if_false]; exact a
      · intro h' hn hh
        simp only [setFac, setObj, upd] at hn hh ⊢
        split
        · subst_vars; simp only [if_true] at hh; exact h8 _ hn hh
        · rename_i hx; simp only [hx, if_false] at hh; exact h8 _ hn hh
    · exact ⟨hi, by simp [Out.handles], by simp [Op.isAccess]⟩
  | pickle h =>
    simp only [step]
    split
    · exact ⟨inv_congr hi rfl rfl rfl rfl rfl, by simp [Out.handles], by simp [Op.isAccess]⟩
    · exact ⟨hi, by simp [Out.handles], by simp [Op.isAccess]⟩
  | unpickle p =>
    simp only [step]
    cases hp : s.pickles[p]? with
    | none => exact ⟨hi, by simp [Out.handles], by simp [Op.isAccess]⟩
    | some x =>
      obtain ⟨c, k, ex⟩ := x
      simp only
      simp only [guard, hp] at hg
      have hrow' : k ∈ s.rows c := by simpa using hg
      cases ht : tryGet s c k with
      | some _ => exact ⟨hi, by simp [Out.handles], by simp [Op.isAccess]⟩
      | none =>
        simp only
        have hft : Extracted.Cache.tryGetFallsThrough = true := rfl
        have hw : ∀ v, (k, v) ∈ (s.fac c).weak → (s.obj v).dead = true := by
          intro v hv
          have hg' := aget_eq_some_of_fun (hi.funW c) hv
          cases h' : (s.obj v).dead with
          | true => rfl
          | false => simp [tryGet, hg', h'] at ht
        have hs : ∀ v, (k, v) ∉ (s.fac c).strong := by
          intro v hv
          have hdc : s.cfg.doCache = true := by
            cases h' : s.cfg.doCache with
            | true => rfl
            | false => rw [hi.nocache h' c] at hv; cases hv
          have hsg := aget_eq_some_of_fun (hi.funS c) hv
          cases hg' : aget k (s.fac c).weak with
          | none => simp [tryGet, hg', hdc, hsg] at ht
          | some w =>
            have hd := hw w (aget_some_mem hg')
            simp [tryGet, hg', hd, hft, hdc, hsg] at ht
        have := inv_register s c k ex hi hrow' hs hw
        refine ⟨this.1, ?_, by simp [Op.isAccess]⟩
        intro h hh
        simp only [Out.handles, List.mem_singleton] at hh
        subst hh
        exact ⟨c, k, this.2⟩


end SqlObjVerif.Cache
