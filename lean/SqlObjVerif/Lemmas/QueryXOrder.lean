import SqlObjVerif.Lemmas.QueryXRepr
import SqlObjVerif.Lemmas.QueryXSelect
import SqlObjVerif.Lemmas.QueryXKw
/-!
# C11 — the full rendering of order expressions (`sqlrepr_full`: `DESC.__sqlrepr__` iterated = `OExpr.key`) and the
ORDER BY statement of `Select.__sqlrepr__` (`orderByRepr_translated` = `orderKeys`)
-/
namespace SqlObjVerif.QueryX
open SqlObjVerif.PyQ
open SqlObjVerif.PyQ.Extracted

def termV (sch : Schema) : Query.Term → Val
  | .field c => fieldV (colName sch c)
  | .const s => constV (.str s)

def descRep : Nat → Str
  | 0 => []
  | n + 1 => descS ++ descRep n

/-- the text of a rendered ORDER BY key: the term through `sqlrepr`, then the DESC format `suffixes` times -/
def keyText (P : Params) (sch : Schema) (k : Query.SqlKey) : Str := P.sqlrepr (termV sch k.term) ++ descRep k.suffixes

def OExpr.depth : OExpr → Nat
  | .field _ => 0
  | .const _ => 0
  | .desc e => OExpr.depth e + 1

section
variable (sch : Schema) (P : Params)
  (cm : Val → String → List Val → List (Str × Val) → R Val) (cv : Val → List Val → R Val)

/-- `sqlrepr(v, db)` and `_str_or_sqlrepr(v, db)` with the `__sqlrepr__` of a `DESC` object resolved `n` levels deep by
    the translated `DESC.__sqlrepr__` (every other value: the parameter `P.sqlrepr`) -/
def sqlreprFn : Nat → String → List Val → List (Str × Val) → R Val
  | 0 => fun _ _ _ => .stuck
  | n + 1 => fun f args kw =>
    match kw with
    | [] =>
      if f = "sqlrepr" then
        match args with
        | [v, db] =>
          if hasCls "DESC" v = true then toR (descSqlreprX (qIface sch P (sqlreprFn n) cm cv) v db)
          else .ok (.str (P.sqlrepr v))
        | _ => .stuck
      else if f = "_str_or_sqlrepr" then
        match args with
        | [v, db] => toR (strOrSqlreprX (qIface sch P (sqlreprFn n) cm cv) v db)
        | _ => .stuck
      else .stuck
    | _ :: _ => .stuck

theorem toVal_notStr (e : OExpr) : isStrV (OExpr.toVal sch e) = false := by
  cases e <;> simp [OExpr.toVal, fieldV, constV, descV]

theorem sqlreprFn_str (n : Nat) (v db w : Val) (hv : hasCls "DESC" v = false)
    (h : sqlreprFn sch P cm cv n "sqlrepr" [v, db] [] = .ok w) : ∃ s, w = .str s := by
  cases n with
  | zero => simp [sqlreprFn] at h
  | succ n => simp [sqlreprFn, hv] at h; exact ⟨_, h.symm⟩

/-- **the full rendering of an order expression** (`OExpr.key`): nested `DESC`s cancel in pairs -/
theorem sqlrepr_full (db : Val) : ∀ (e : OExpr) (n : Nat), OExpr.depth e < n →
    sqlreprFn sch P cm cv n "sqlrepr" [OExpr.toVal sch e, db] [] = .ok (.str (keyText P sch e.key))
  | .field c, n + 1, _ => by
    simp [sqlreprFn, OExpr.toVal, fieldV, Query.OExpr.key, keyText, termV, descRep]
  | .const s, n + 1, _ => by
    simp [sqlreprFn, OExpr.toVal, constV, Query.OExpr.key, keyText, termV, descRep]
  | .desc (.field c), n + 2, _ => by
    have hs := descSqlrepr_step sch P (sqlreprFn sch P cm cv (n + 1)) cm cv (fieldV (colName sch c)) db
      (fun _ w h => sqlreprFn_str sch P cm cv _ _ _ _ (by simp [fieldV]) h)
    simp only [sqlreprFn, OExpr.toVal, descV, hasCls_obj, beq_self_eq_true, if_true] at hs ⊢
    rw [hs]
    simp [fieldV, sqlreprFn, addDesc, addDescV, toR, ofR, Query.OExpr.key, keyText, termV, descRep]
  | .desc (.const s), n + 2, _ => by
    have hs := descSqlrepr_step sch P (sqlreprFn sch P cm cv (n + 1)) cm cv (constV (.str s)) db
      (fun _ w h => sqlreprFn_str sch P cm cv _ _ _ _ (by simp [constV]) h)
    simp only [sqlreprFn, OExpr.toVal, descV, hasCls_obj, beq_self_eq_true, if_true] at hs ⊢
    rw [hs]
    simp [constV, sqlreprFn, addDesc, addDescV, toR, ofR, Query.OExpr.key, keyText, termV, descRep]
  | .desc (.desc e), n + 1, h => by
    have ih := sqlrepr_full db e n (by simp [OExpr.depth] at h ⊢; omega)
    have hs := descSqlrepr_step sch P (sqlreprFn sch P cm cv n) cm cv (descV (OExpr.toVal sch e)) db
      (fun hd => by simp [descV] at hd)
    have ek : (Query.OExpr.desc (.desc e)).key = e.key := by
      simp [Query.OExpr.key, Query.Extracted.descOfDescCancels]
    simp only [sqlreprFn, OExpr.toVal] at hs ⊢
    simp only [descV, hasCls_obj, beq_self_eq_true, if_true] at hs ⊢
    rw [hs, ek]
    simp only [attrOf, aget, beq_self_eq_true, if_true, R.bind_ok, ih, ofR, toR]

theorem sos_full (db : Val) (e : OExpr) (n : Nat) (h : OExpr.depth e + 1 < n) :
    sqlreprFn sch P cm cv n "_str_or_sqlrepr" [OExpr.toVal sch e, db] [] = .ok (.str (keyText P sch e.key)) := by
  obtain ⟨m, rfl⟩ : ∃ m, n = m + 1 := ⟨n - 1, by omega⟩
  simp only [sqlreprFn]
  rw [strOrSqlrepr_translated, toVal_notStr, sqlrepr_full sch P cm cv db e m (by omega)]
  simp [toR, ofR]

/-- the value of the local `reverser` -/
def reverserV (r : Bool) : Val := if r = true then .glob "DESC" else .ident

theorem applyReverser_toVal (r : Bool) (e : OExpr) :
    OExpr.toVal sch (Query.applyReverser r e) = if r = true then descV (OExpr.toVal sch e) else OExpr.toVal sch e := by
  cases r <;> simp [Query.applyReverser, Query.Extracted.reverserWhenReversed, Query.Extracted.reverserWhenNot, OExpr.toVal]

theorem depth_applyReverser (r : Bool) (e : OExpr) : OExpr.depth (Query.applyReverser r e) ≤ OExpr.depth e + 1 := by
  cases r <;> simp [Query.applyReverser, Query.Extracted.reverserWhenReversed, Query.Extracted.reverserWhenNot, OExpr.depth]

/-- one key of the ORDER BY clause: `_str_or_sqlrepr(reverser(x), db)` -/
theorem orderKey_text (hcv : ∀ v, cv (.glob "DESC") [v] = .ok (descV v)) (db : Val) (r : Bool) (e : OExpr) (n : Nat)
    (h : OExpr.depth e + 2 < n) (env : Env) (h1 : env 1 = some db) (h4 : env 4 = some (reverserV r))
    (h5 : env 5 = some (OExpr.toVal sch e)) :
    selOrderByRepr_comp0_e.eval (qIface sch P (sqlreprFn sch P cm cv n) cm cv) env =
      .ok (.str (keyText P sch (Query.applyReverser r e).key)) := by
  have hd := depth_applyReverser r e
  have := sos_full sch P cm cv db (Query.applyReverser r e) n (by omega)
  rw [applyReverser_toVal] at this
  unfold selOrderByRepr_comp0_e
  cases r <;> simp only [Bool.false_eq_true, if_false, if_true] at this <;>
    pyqw [reverserV, hcv, this]

theorem orderKeys_comp (hcv : ∀ v, cv (.glob "DESC") [v] = .ok (descV v)) (db : Val) (r : Bool) (n : Nat) (env : Env)
    (h1 : env 1 = some db) (h4 : env 4 = some (reverserV r)) : ∀ (l : List OExpr), (∀ e ∈ l, OExpr.depth e + 2 < n) →
    filterMapR (compStep (.one 5) env (fun e => selOrderByRepr_comp0_c.eval (qIface sch P (sqlreprFn sch P cm cv n) cm cv) e)
      (fun e => selOrderByRepr_comp0_e.eval (qIface sch P (sqlreprFn sch P cm cv n) cm cv) e)) (l.map (OExpr.toVal sch)) =
      .ok (l.map fun e => .str (keyText P sch (Query.applyReverser r e).key))
  | [], _ => rfl
  | e :: l, h => by
    have ih := orderKeys_comp hcv db r n env h1 h4 l (fun e he => h e (by simp [he]))
    have hk := orderKey_text sch P cm cv hcv db r e n (h e (by simp)) (env.put 5 (OExpr.toVal sch e))
      (by simp [h1]) (by simp [h4]) (by simp)
    simp only [List.map_cons, filterMapR, ih, compStep, Target.bind, hk]
    simp [selOrderByRepr_comp0_c, Expr.eval]

/-- the text the ORDER BY statement appends -/
def orderText (P : Params) (sch : Schema) : Option (List Query.SqlKey) → Str
  | none => []
  | some ks => [' ', 'O', 'R', 'D', 'E', 'R', ' ', 'B', 'Y', ' '] ++ joinS [',', ' '] (ks.map (keyText P sch))

def DbOrder.depthOk (n : Nat) : Query.DbOrder → Prop
  | .none => True
  | .one e => OExpr.depth e + 2 < n
  | .many l => ∀ e ∈ l, OExpr.depth e + 2 < n

/-- **the ORDER BY statement of `Select.__sqlrepr__`** renders `orderKeys`: the reverser wraps EVERY key, `DESC` of
    `DESC` cancels, the keys are joined by `, `; no order: nothing is appended -/
theorem orderByRepr_translated (hcv : ∀ v, cv (.glob "DESC") [v] = .ok (descV v)) (db : Val) (select : Str)
    (d : List (Str × Val)) (o : Query.DbOrder) (r : Bool) (n : Nat) (hn : DbOrder.depthOk n o)
    (ho : aget kOrderBy d = some (DbOrder.toVal sch o)) (hr : aget kReversed d = some (.bool r)) :
    orderByReprX (qIface sch P (sqlreprFn sch P cm cv n) cm cv) (selObj d) db select =
      .ret (.str (select ++ orderText P sch (Query.orderKeys { clause := .tt, order := o, reversed := r }))) := by
  unfold orderByReprX run selOrderByRepr selOrderByRepr_s0 selOrderByRepr_s1 selObj
  simp only [kOrderBy, kReversed] at ho hr
  cases o with
  | none =>
    pyqw [ho, hr, DbOrder.toVal, Query.orderKeys, orderText]
  | one e =>
    have hns : isNoneV (OExpr.toVal sch e) = false ∧ isGlobV "NoDefault" (OExpr.toVal sch e) = false ∧
        isListV (OExpr.toVal sch e) = false ∧ isTupleV (OExpr.toVal sch e) = false := by
      cases e <;> simp [OExpr.toVal, fieldV, constV, descV]
    simp only [DbOrder.depthOk] at hn
    cases r
    · have l2 := sos_full sch P cm cv db e n (by omega)
      pyqw [ho, hr, DbOrder.toVal, Query.orderKeys, orderText, hns, l2, Query.applyReverser,
        Query.Extracted.reverserWhenNot, joinS]
    · have l2 := sos_full sch P cm cv db (.desc e) n (by simp [OExpr.depth]; omega)
      simp only [OExpr.toVal] at l2
      pyqw [ho, hr, DbOrder.toVal, Query.orderKeys, orderText, hns, l2, hcv, Query.applyReverser,
        Query.Extracted.reverserWhenReversed, joinS]
  | many l =>
    simp only [DbOrder.depthOk] at hn
    have hj : ∀ (f : OExpr → Str), joinStrs [',', ' '] (l.map fun e => .str (f e)) = some (joinS [',', ' '] (l.map f)) := by
      intro f
      have := joinStrs_map [',', ' '] (l.map f)
      simpa [List.map_map, Function.comp_def] using this
    cases r
    · have hc := fun env h1 h4 => orderKeys_comp sch P cm cv hcv db false n env h1 h4 l hn
      simp only [reverserV, Bool.false_eq_true, if_false] at hc
      pyqw [ho, hr, DbOrder.toVal, Query.orderKeys, orderText, hc, hj]
      rfl
    · have hc := fun env h1 h4 => orderKeys_comp sch P cm cv hcv db true n env h1 h4 l hn
      simp only [reverserV, if_true] at hc
      pyqw [ho, hr, DbOrder.toVal, Query.orderKeys, orderText, hc, hj]
      rfl
end
end SqlObjVerif.QueryX
