import SqlObjVerif.Lemmas.QueryXOps
import SqlObjVerif.Lemmas.Query
/-!
# C11 — the translated `AND(*ops)` / `OR(*ops)` equal `Query.nary`

`and_step` / `or_step`: one level, the recursive call being the interface's function; `naryFn n`: the recursive call
resolved `n` levels deep by the translated functions; `and_translated` / `or_translated`: for every operand list.
-/
namespace SqlObjVerif.QueryX
open SqlObjVerif.PyQ
open SqlObjVerif.PyQ.Extracted

section
variable (sch : Schema) (P : Params) (fnRec : String → List Val → List (Str × Val) → R Val)
  (cm : Val → String → List Val → List (Str × Val) → R Val) (cv : Val → List Val → R Val)

/-- one level of `AND(*ops)`: the recursive call is the interface's `AND` -/
theorem and_step (ops : List Val) :
    andX (qIface sch P fnRec cm cv) ops = match ops with
      | [] => .ret .none
      | [a] => .ret a
      | a :: b :: rest => ofR ((fnRec "AND" (b :: rest) []).bind fun t => .ok (sqlOpV ['A', 'N', 'D'] a t)) := by
  unfold andX run andFn andFn_s0 andFn_s1 andFn_s2 andFn_s3
  match ops with
  | [] => pyq
  | [a] => pyqw [normIdx, pySlice, sliceL, sliceBound, clampIdx]
  | a :: b :: rest =>
    cases h : fnRec "AND" (b :: rest) [] <;> pyqw [normIdx, pySlice, sliceL, sliceBound, clampIdx, h, ofR]

theorem or_step (ops : List Val) :
    orX (qIface sch P fnRec cm cv) ops = match ops with
      | [] => .ret .none
      | [a] => .ret a
      | a :: b :: rest => ofR ((fnRec "OR" (b :: rest) []).bind fun t => .ok (sqlOpV ['O', 'R'] a t)) := by
  unfold orX run orFn orFn_s0 orFn_s1 orFn_s2 orFn_s3
  match ops with
  | [] => pyq
  | [a] => pyqw [normIdx, pySlice, sliceL, sliceBound, clampIdx]
  | a :: b :: rest =>
    cases h : fnRec "OR" (b :: rest) [] <;> pyqw [normIdx, pySlice, sliceL, sliceBound, clampIdx, h, ofR]

/-- `AND` / `OR` with the recursive call resolved `n` levels deep by the translated functions themselves -/
def naryFn : Nat → String → List Val → List (Str × Val) → R Val
  | 0 => fun _ _ _ => .stuck
  | n + 1 => fun f args kw =>
    match kw with
    | [] =>
      if f = "AND" then toR (andX (qIface sch P (naryFn n) cm cv) args)
      else if f = "OR" then toR (orX (qIface sch P (naryFn n) cm cv) args)
      else .stuck
    | _ :: _ => .stuck

def optV (sr : Val → Str) (o : Option Query.Expr) : Val :=
  match o with
  | none => .none
  | some x => clauseV sr sch x

/-- **`AND(*ops)` = `Query.nary .and`**, for every number of operands (the recursion depth `n` only has to cover them) -/
theorem and_translated (sr : Val → Str) : ∀ (l : List Query.Expr) (n : Nat), l.length ≤ n + 1 →
    andX (qIface sch P (naryFn sch P cm cv n) cm cv) (l.map (clauseV sr sch)) = .ret (optV sch sr (Query.nary .and l))
  | [], n, _ => by rw [and_step]; rfl
  | [a], n, _ => by rw [and_step]; rfl
  | a :: b :: rest, n, h => by
    obtain ⟨m, rfl⟩ : ∃ m, n = m + 1 := ⟨n - 1, by simp at h; omega⟩
    rw [and_step]
    simp only [List.map_cons, naryFn]
    have ih := and_translated sr (b :: rest) m (by simp at h ⊢; omega)
    simp only [List.map_cons] at ih
    simp only [if_true, ih, toR, R.bind_ok, ofR]
    have e : Query.fnSpec .and = (.and, .and) := rfl
    simp only [Query.nary, e]
    cases hn : Query.nary .and (b :: rest) with
    | none => have := Query.nary_isSome .and (b :: rest) (by simp); rw [hn] at this; cases this
    | some t => simp [optV, Query.mkBool, clauseV]

theorem or_translated (sr : Val → Str) : ∀ (l : List Query.Expr) (n : Nat), l.length ≤ n + 1 →
    orX (qIface sch P (naryFn sch P cm cv n) cm cv) (l.map (clauseV sr sch)) = .ret (optV sch sr (Query.nary .or l))
  | [], n, _ => by rw [or_step]; rfl
  | [a], n, _ => by rw [or_step]; rfl
  | a :: b :: rest, n, h => by
    obtain ⟨m, rfl⟩ : ∃ m, n = m + 1 := ⟨n - 1, by simp at h; omega⟩
    rw [or_step]
    simp only [List.map_cons, naryFn]
    have ih := or_translated sr (b :: rest) m (by simp at h ⊢; omega)
    simp only [List.map_cons] at ih
    simp only [if_true, ih, toR, R.bind_ok, ofR]
    have e : Query.fnSpec .or = (.or, .or) := rfl
    simp only [Query.nary, e]
    cases hn : Query.nary .or (b :: rest) with
    | none => have := Query.nary_isSome .or (b :: rest) (by simp); rw [hn] at this; cases this
    | some t => simp [optV, Query.mkBool, clauseV]
end
end SqlObjVerif.QueryX
