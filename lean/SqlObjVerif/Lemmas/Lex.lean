import SqlObjVerif.Model.Lex
/-!
# Lemmas about the literal pipeline (`Model/Lex.lean`)
-/
namespace SqlObjVerif.Lex
open Extracted

theorem replace1_append (o : Nat) (r a b : Str) : replace1 o r (a ++ b) = replace1 o r a ++ replace1 o r b := by
  simp [replace1]

theorem escapeSeq_append (tbl : List (Nat × Str)) (a b : Str) :
    escapeSeq tbl (a ++ b) = escapeSeq tbl a ++ escapeSeq tbl b := by
  induction tbl generalizing a b with
  | nil => rfl
  | cons p tbl ih => simp only [escapeSeq, List.foldl_cons, replace1_append] at ih ⊢; exact ih _ _

theorem escapeSeq_nil (tbl : List (Nat × Str)) : escapeSeq tbl [] = [] := by
  induction tbl with
  | nil => rfl
  | cons p tbl ih => simpa [escapeSeq, replace1] using ih

theorem escapeSeq_eq_flatMap (tbl : List (Nat × Str)) (s : Str) :
    escapeSeq tbl s = s.flatMap (fun c => escapeSeq tbl [c]) := by
  induction s with
  | nil => simp [escapeSeq_nil]
  | cons c s ih =>
    have : c :: s = [c] ++ s := rfl
    rw [this, escapeSeq_append, ih]; simp

/-- the per-character map the sequential table amounts to (specification) -/
def escChar (d : Dialect) (c : Nat) : Str :=
  if c = 39 then [39, 39]
  else if d = .mysql ∨ d = .postgres then
    if c = 92 then [92, 92] else if c = 0 then [92, 48] else if c = 8 then [92, 98]
    else if c = 10 then [92, 110] else if c = 13 then [92, 114] else if c = 9 then [92, 116] else [c]
  else [c]

theorem table_char (c : Nat) : escapeSeq sqlStringReplace [c] = escChar .mysql c := by
  simp only [escChar, sqlStringReplace, escapeSeq, List.foldl_cons, List.foldl_nil, replace1]
  by_cases h1 : c = 39
  · subst h1; simp
  by_cases h2 : c = 92
  · subst h2; simp
  by_cases h3 : c = 0
  · subst h3; simp
  by_cases h4 : c = 8
  · subst h4; simp
  by_cases h5 : c = 10
  · subst h5; simp
  by_cases h6 : c = 13
  · subst h6; simp
  by_cases h7 : c = 9
  · subst h7; simp
  simp [*]

def fullEsc (d : Dialect) : Bool := d = .mysql || d = .postgres

theorem escAction_full (d : Dialect) (h : fullEsc d = true) : escAction d = some .table := by
  cases d <;> first | rfl | (simp [fullEsc] at h)

theorem escAction_quote (d : Dialect) (h : fullEsc d = false) : escAction d = some (.single 39 [39, 39]) := by
  cases d <;> first | rfl | (simp [fullEsc] at h)

theorem escape_onepass (d : Dialect) (s : Str) : escape d s = s.flatMap (escChar d) := by
  unfold escape
  cases h : fullEsc d
  · rw [escAction_quote d h]
    have hd : ¬ (d = .mysql ∨ d = .postgres) := by cases d <;> simp [fullEsc] at h ⊢
    simp only [replace1]
    congr 1; funext c; simp [escChar, hd]
  · rw [escAction_full d h]
    have hd : (d = .mysql ∨ d = .postgres) := by cases d <;> simp [fullEsc] at h ⊢
    rw [escapeSeq_eq_flatMap]; dsimp only; congr 1; funext c; rw [table_char]; simp [escChar, hd]

/-! ### unfolding the reference string lexer -/

@[simp] theorem push_some (p s r : Str) : push p (some (s, r)) = some (p ++ s, r) := rfl
@[simp] theorem push_none (p : Str) : push p none = none := rfl

theorem lexBody_quote2 (m : Mode) (cs : Str) : lexBody m (39 :: 39 :: cs) = push [39] (lexBody m cs) := by
  rw [lexBody.eq_def]; simp

theorem lexBody_close (m : Mode) (rest : Str) (h : rest.head? ≠ some 39) :
    lexBody m (39 :: rest) = some ([], rest) := by
  rw [lexBody.eq_def]
  cases rest with
  | nil => simp
  | cons c cs => simp at h; simp [h]

theorem lexBody_plain (m : Mode) (c : Nat) (cs : Str) (h1 : c ≠ 39) (h0 : c ≠ 0) (h2 : c ≠ 92 ∨ m = .ansi) :
    lexBody m (c :: cs) = push [c] (lexBody m cs) := by
  rw [lexBody.eq_def]
  rcases h2 with h2 | h2 <;> simp [h1, h0, h2]

theorem lexBody_nul (m : Mode) (cs : Str) : lexBody m (0 :: cs) = none := by
  rw [lexBody.eq_def]; simp

theorem lexBody_mysql_esc (e : Nat) (cs : Str) :
    lexBody .mysql (92 :: e :: cs) = push (mysqlEsc e) (lexBody .mysql cs) := by
  rw [lexBody.eq_def]; simp

theorem lexBody_pg_esc (e x : Nat) (cs : Str) (h : isOct e = false) (hx : pgEsc e = some x) :
    lexBody .pgE (92 :: e :: cs) = push [x] (lexBody .pgE cs) := by
  rw [lexBody.eq_def]; simp [h, hx]

theorem lexBody_pg_oct1 (e : Nat) (cs : Str) (h : isOct e = true) (h2 : isOctHead cs = false) :
    lexBody .pgE (92 :: e :: cs) = octPush (e - 48) (lexBody .pgE cs) := by
  rw [lexBody.eq_def]; simp [h, h2]

/-- the generic step: if each character's escape is read back as that character, the whole
    escaped body followed by the closing quote is read back as the string -/
theorem lexBody_flatMap (m : Mode) (f : Nat → Str) (good : Nat → Prop)
    (hf : ∀ c, good c → ∀ cs, lexBody m (f c ++ cs) = push [c] (lexBody m cs))
    (s rest : Str) (hs : ∀ c ∈ s, good c) (hrest : rest.head? ≠ some 39) :
    lexBody m (s.flatMap f ++ 39 :: rest) = some (s, rest) := by
  induction s with
  | nil => simpa using lexBody_close m rest hrest
  | cons c s ih =>
    simp only [List.flatMap_cons, List.append_assoc]
    rw [hf c (hs c (by simp)), ih (fun x hx => hs x (by simp [hx]))]
    rfl

/-- … and if some character's escape is refused while the ones before it are read back, the literal is refused -/
theorem lexBody_flatMap_none (m : Mode) (f : Nat → Str) (good : Nat → Prop) [DecidablePred good]
    (hf : ∀ c, good c → ∀ cs, lexBody m (f c ++ cs) = push [c] (lexBody m cs))
    (hbad : ∀ c, ¬ good c → ∀ cs, lexBody m (f c ++ cs) = none)
    (s tail : Str) (hs : ∃ c ∈ s, ¬ good c) :
    lexBody m (s.flatMap f ++ tail) = none := by
  induction s with
  | nil => simp at hs
  | cons c s ih =>
    simp only [List.flatMap_cons, List.append_assoc]
    by_cases hc : good c
    · rw [hf c hc, ih]
      · rfl
      · obtain ⟨x, hx, hbx⟩ := hs
        simp at hx
        rcases hx with rfl | hx
        · exact absurd hc hbx
        · exact ⟨x, hx, hbx⟩
    · exact hbad c hc _

theorem ansi_char (d : Dialect) (hd : fullEsc d = false) (c : Nat) (hc : c ≠ 0) (cs : Str) :
    lexBody .ansi (escChar d c ++ cs) = push [c] (lexBody .ansi cs) := by
  have hd' : ¬ (d = .mysql ∨ d = .postgres) := by cases d <;> simp [fullEsc] at hd ⊢
  by_cases h : c = 39
  · subst h; simp [escChar, lexBody_quote2]
  · simp only [escChar, h, hd', if_false]
    exact lexBody_plain _ _ _ h hc (Or.inr rfl)

theorem mysql_char (c : Nat) (cs : Str) :
    lexBody .mysql (escChar .mysql c ++ cs) = push [c] (lexBody .mysql cs) := by
  simp only [escChar, true_or, if_true]
  by_cases h1 : c = 39
  · subst h1; simp [lexBody_quote2]
  by_cases h2 : c = 92
  · subst h2; simp [lexBody_mysql_esc, mysqlEsc]
  by_cases h3 : c = 0
  · subst h3; simp [lexBody_mysql_esc, mysqlEsc]
  by_cases h4 : c = 8
  · subst h4; simp [lexBody_mysql_esc, mysqlEsc]
  by_cases h5 : c = 10
  · subst h5; simp [lexBody_mysql_esc, mysqlEsc]
  by_cases h6 : c = 13
  · subst h6; simp [lexBody_mysql_esc, mysqlEsc]
  by_cases h7 : c = 9
  · subst h7; simp [lexBody_mysql_esc, mysqlEsc]
  simp only [h1, h2, h3, h4, h5, h6, h7, if_false]
  exact lexBody_plain _ _ _ h1 h3 (Or.inl h2)

theorem pgE_char (c : Nat) (hc : c ≠ 0) (cs : Str) :
    lexBody .pgE (escChar .postgres c ++ cs) = push [c] (lexBody .pgE cs) := by
  simp only [escChar, or_true, if_true]
  by_cases h1 : c = 39
  · subst h1; simp [lexBody_quote2]
  by_cases h2 : c = 92
  · subst h2; simp [lexBody_pg_esc 92 92 cs (by decide) (by decide)]
  by_cases h4 : c = 8
  · subst h4; simp [lexBody_pg_esc 98 8 cs (by decide) (by decide)]
  by_cases h5 : c = 10
  · subst h5; simp [lexBody_pg_esc 110 10 cs (by decide) (by decide)]
  by_cases h6 : c = 13
  · subst h6; simp [lexBody_pg_esc 114 13 cs (by decide) (by decide)]
  by_cases h7 : c = 9
  · subst h7; simp [lexBody_pg_esc 116 9 cs (by decide) (by decide)]
  simp only [h1, h2, hc, h4, h5, h6, h7, if_false]
  exact lexBody_plain _ _ _ h1 hc (Or.inl h2)

/-! ### the rendered literal -/

def usesE (d : Dialect) (s : Str) : Bool := d = .postgres && (escape d s).contains 92

theorem renderString_eq (d : Dialect) (s : Str) :
    renderString d s = if usesE d s then 69 :: 39 :: (escape d s ++ [39]) else 39 :: (escape d s ++ [39]) := by
  cases d <;> simp [renderString, quoteWith, usesE, ePrefixDialects, ePrefixTrigger, eOpen, eClose, plainOpen, plainClose]

theorem lexString_plain (d : Dialect) (cs : Str) : lexString d (39 :: cs) = lexBody (plainMode d) cs := by
  simp [lexString]

theorem lexString_E (cs : Str) : lexString .postgres (69 :: 39 :: cs) = lexBody .pgE cs := by
  simp [lexString]

theorem pg_plain_char (c : Nat) (h : 92 ∉ escChar .postgres c) (cs : Str) :
    lexBody .ansi (escChar .postgres c ++ cs) = push [c] (lexBody .ansi cs) := by
  simp only [escChar, or_true, if_true] at h ⊢
  by_cases h1 : c = 39
  · subst h1; simp [lexBody_quote2]
  by_cases h2 : c = 92
  · subst h2; simp at h
  by_cases h3 : c = 0
  · subst h3; simp at h
  by_cases h4 : c = 8
  · subst h4; simp at h
  by_cases h5 : c = 10
  · subst h5; simp at h
  by_cases h6 : c = 13
  · subst h6; simp at h
  by_cases h7 : c = 9
  · subst h7; simp at h
  simp only [h1, h2, h3, h4, h5, h6, h7, if_false]
  exact lexBody_plain _ _ _ h1 h3 (Or.inr rfl)

/-- strings the backend can hold: MySQL takes every code point, the others everything but NUL -/
def admissible (d : Dialect) (s : Str) : Prop := d = .mysql ∨ 0 ∉ s

instance (d : Dialect) (s : Str) : Decidable (admissible d s) := by unfold admissible; infer_instance

theorem lex_render_string (d : Dialect) (s rest : Str) (ha : admissible d s) (hr : rest.head? ≠ some 39) :
    lexString d (renderString d s ++ rest) = some (s, rest) := by
  rw [renderString_eq]
  by_cases hm : d = .mysql
  · subst hm
    have : usesE .mysql s = false := by simp [usesE]
    simp only [this, Bool.false_eq_true, if_false, List.cons_append, List.append_assoc, lexString_plain, plainMode,
      escape_onepass]
    exact lexBody_flatMap .mysql _ (fun _ => True) (fun c _ cs => mysql_char c cs) s rest (fun _ _ => trivial) hr
  · have h0 : ∀ c ∈ s, c ≠ 0 := by
      rcases ha with h | h
      · exact absurd h hm
      · intro c hc h0; subst h0; exact h hc
    by_cases hp : d = .postgres
    · subst hp
      cases hE : usesE .postgres s
      · simp only [Bool.false_eq_true, if_false, List.cons_append, List.append_assoc, lexString_plain, plainMode,
          escape_onepass]
        have hno : ∀ c ∈ s, 92 ∉ escChar .postgres c := by
          intro c hc h92
          have : (escape .postgres s).contains 92 = true := by
            rw [escape_onepass]; simp only [List.contains_iff_mem, List.mem_flatMap]; exact ⟨c, hc, h92⟩
          simp only [usesE, decide_true, Bool.true_and] at hE
          rw [this] at hE; exact absurd hE (by simp)
        exact lexBody_flatMap .ansi _ (fun c => 92 ∉ escChar .postgres c) (fun c h cs => pg_plain_char c h cs) s rest hno hr
      · simp only [if_true, List.cons_append, List.append_assoc, lexString_E, escape_onepass]
        exact lexBody_flatMap .pgE _ (fun c => c ≠ 0) (fun c h cs => pgE_char c h cs) s rest h0 hr
    · have hf : fullEsc d = false := by cases d <;> simp [fullEsc] at hm hp ⊢
      have hE : usesE d s = false := by simp [usesE, hp]
      have hpm : plainMode d = .ansi := by cases d <;> simp [plainMode] at hm ⊢
      simp only [hE, Bool.false_eq_true, if_false, List.cons_append, List.append_assoc, lexString_plain, hpm,
        escape_onepass]
      exact lexBody_flatMap .ansi _ (fun c => c ≠ 0) (fun c h cs => ansi_char d hf c h cs) s rest h0 hr

/-! ### NUL -/

def nulThenOct : Str → Bool
  | [] => false
  | c :: cs => (c = 0 && isOctHead cs) || nulThenOct cs

theorem isOctHead_escaped (s tail : Str) (hq : isOctHead tail = false) :
    isOctHead (s.flatMap (escChar .postgres) ++ tail) = isOctHead s := by
  cases s with
  | nil => simp only [List.flatMap_nil, List.nil_append, hq]; rfl
  | cons c s =>
    simp only [List.flatMap_cons, List.append_assoc]
    simp only [escChar, or_true, if_true]
    by_cases h1 : c = 39
    · subst h1; simp [isOctHead, isOct]
    by_cases h2 : c = 92
    · subst h2; simp [isOctHead, isOct]
    by_cases h3 : c = 0
    · subst h3; simp [isOctHead, isOct]
    by_cases h4 : c = 8
    · subst h4; simp [isOctHead, isOct]
    by_cases h5 : c = 10
    · subst h5; simp [isOctHead, isOct]
    by_cases h6 : c = 13
    · subst h6; simp [isOctHead, isOct]
    by_cases h7 : c = 9
    · subst h7; simp [isOctHead, isOct]
    simp [h1, h2, h3, h4, h5, h6, h7, isOctHead]

theorem pg_nul_none (s tail : Str) (h0 : 0 ∈ s) (hno : nulThenOct s = false) :
    lexBody .pgE (s.flatMap (escChar .postgres) ++ 39 :: tail) = none := by
  induction s with
  | nil => simp at h0
  | cons c s ih =>
    simp only [List.flatMap_cons, List.append_assoc]
    simp only [nulThenOct, Bool.or_eq_false_iff, Bool.and_eq_false_iff] at hno
    by_cases hc : c = 0
    · subst hc
      have hh : isOctHead s = false := by simpa using hno.1
      have : escChar .postgres 0 = [92, 48] := by simp [escChar]
      rw [this]
      simp only [List.cons_append, List.nil_append]
      rw [lexBody_pg_oct1 48 _ (by decide)]
      · simp [octPush]
      · rw [isOctHead_escaped s (39 :: tail) (by simp [isOctHead, isOct])]
        exact hh
    · rw [pgE_char c hc, ih]
      · rfl
      · simpa [Ne.symm hc] using h0
      · exact hno.2

theorem nul_rejected (d : Dialect) (s rest : Str) (hd : d ≠ .mysql) (h0 : 0 ∈ s)
    (hpg : d = .postgres → nulThenOct s = false) :
    lexString d (renderString d s ++ rest) = none := by
  rw [renderString_eq]
  by_cases hp : d = .postgres
  · subst hp
    have hE : usesE .postgres s = true := by
      simp only [usesE, decide_true, Bool.true_and, escape_onepass, List.contains_iff_mem, List.mem_flatMap]
      exact ⟨0, h0, by simp [escChar]⟩
    simp only [hE, if_true, List.cons_append, List.append_assoc, lexString_E, escape_onepass]
    exact pg_nul_none s rest h0 (hpg rfl)
  · have hf : fullEsc d = false := by cases d <;> simp [fullEsc] at hd hp ⊢
    have hE : usesE d s = false := by simp [usesE, hp]
    have hpm : plainMode d = .ansi := by cases d <;> simp [plainMode] at hd ⊢
    simp only [hE, Bool.false_eq_true, if_false, List.cons_append, List.append_assoc, lexString_plain, hpm,
      escape_onepass]
    refine lexBody_flatMap_none .ansi _ (fun c => c ≠ 0) (fun c h cs => ansi_char d hf c h cs) ?_ s _ ⟨0, h0, by simp⟩
    intro c hc cs
    have : c = 0 := by simpa using hc
    subst this
    have hd' : ¬ (d = .mysql ∨ d = .postgres) := by simp [hd, hp]
    simp [escChar, hd', lexBody_nul]

/-! ### the statement lexer -/

def okAfter (rest : Str) : Bool :=
  match rest with
  | [] => true
  | c :: _ => c != 39 && !isWordChar c

theorem tokens_space (d : Dialect) (c : Nat) (cs : Str) (h : isSpace c = true) :
    tokens d (c :: cs) = tokens d cs := by
  rw [tokens]; simp [h]

/-- punctuation that never opens anything: `(` `)` `,` `=` `+` `;` `*` … -/
def plainPunct (c : Nat) : Bool :=
  !isSpace c && c != 39 && !isWordChar c && !isRefused c && c != 45 && c != 47

theorem tokens_punct (d : Dialect) (c : Nat) (cs : Str) (h : plainPunct c = true) :
    tokens d (c :: cs) = (tokens d cs).map (Tok.punct c :: ·) := by
  simp only [plainPunct, Bool.and_eq_true, Bool.not_eq_true', bne_iff_ne, ne_eq] at h
  obtain ⟨⟨⟨⟨⟨h1, h2⟩, h3⟩, h4⟩, h5⟩, h6⟩ := h
  have hE : ¬ (c = 69 ∨ c = 101) := by
    rintro (rfl | rfl) <;> simp [isWordChar] at h3
  rw [tokens]; simp [h1, h2, h3, h4, h5, h6, hE]

theorem tokens_minus (d : Dialect) (cs : Str) (h : cs.head? ≠ some 45) :
    tokens d (45 :: cs) = (tokens d cs).map (Tok.punct 45 :: ·) := by
  rw [tokens]; simp [isSpace, isWordChar, isRefused, h]

theorem takeWhile_append_of_all (p : Nat → Bool) (w rest : Str) (hw : ∀ c ∈ w, p c = true)
    (hr : ∀ c, rest.head? = some c → p c = false) :
    (w ++ rest).takeWhile p = w ∧ (w ++ rest).dropWhile p = rest := by
  induction w with
  | nil =>
    cases rest with
    | nil => simp
    | cons c cs => have := hr c rfl; simp [List.takeWhile, List.dropWhile, this]
  | cons a w ih =>
    have ha := hw a (by simp)
    have := ih (fun c hc => hw c (by simp [hc]))
    simp [List.takeWhile, List.dropWhile, ha, this]

theorem tokens_word (d : Dialect) (w rest : Str) (hne : w ≠ []) (hw : ∀ c ∈ w, isWordChar c = true)
    (hr : okAfter rest = true) :
    tokens d (w ++ rest) = (tokens d rest).map (Tok.word w :: ·) := by
  cases w with
  | nil => exact absurd rfl hne
  | cons c w =>
    have hc := hw c (by simp)
    have hr' : ∀ x, rest.head? = some x → isWordChar x = false := by
      intro x hx; cases rest with
      | nil => simp at hx
      | cons y ys => simp at hx; subst hx; simp [okAfter] at hr; exact hr.2
    have hr39 : rest.head? ≠ some 39 := by
      cases rest with
      | nil => simp
      | cons y ys => simp [okAfter] at hr; simp [hr.1]
    obtain ⟨ht, hd⟩ := takeWhile_append_of_all isWordChar w rest (fun x hx => hw x (by simp [hx])) hr'
    have hsp : isSpace c = false := by
      cases h : isSpace c
      · rfl
      · simp [isSpace] at h; rcases h with (((rfl | rfl) | rfl) | rfl) | rfl <;> simp [isWordChar] at hc
    have h39 : c ≠ 39 := by rintro rfl; simp [isWordChar] at hc
    have hhead : (w ++ rest).head? ≠ some 39 := by
      cases w with
      | nil => simpa using hr39
      | cons a w =>
        have := hw a (by simp)
        simp only [List.cons_append, List.head?_cons, ne_eq, Option.some.injEq]
        rintro rfl; simp [isWordChar] at this
    have hwh : w.head? ≠ some 39 := by
      cases w with
      | nil => simp
      | cons a w =>
        have := hw a (by simp)
        simp only [List.head?_cons, ne_eq, Option.some.injEq]
        rintro rfl; simp [isWordChar] at this
    rw [List.cons_append, tokens]
    simp [hsp, h39, hwh, hc, ht, hd, hr39]

theorem tokens_of_lex (d : Dialect) (c : Nat) (cs s r : Str)
    (hstart : c = 39 ∨ (d = .postgres ∧ (c = 69 ∨ c = 101) ∧ cs.head? = some 39))
    (hlex : lexString d (c :: cs) = some (s, r)) (hlen : r.length < (c :: cs).length) :
    tokens d (c :: cs) = (tokens d r).map (Tok.str s :: ·) := by
  have hsp : isSpace c = false := by
    rcases hstart with rfl | ⟨_, rfl | rfl, _⟩ <;> simp [isSpace]
  rw [tokens]
  simp only [hsp, Bool.false_eq_true, if_false, hstart, if_true, hlex]
  simp only [List.length_cons] at hlen
  simp [hlen]

theorem renderString_head (d : Dialect) (s : Str) :
    ∃ c cs, renderString d s = c :: cs ∧ (c = 39 ∨ (d = .postgres ∧ (c = 69 ∨ c = 101) ∧ cs.head? = some 39)) := by
  rw [renderString_eq]
  cases h : usesE d s
  · exact ⟨39, escape d s ++ [39], by simp, Or.inl rfl⟩
  · refine ⟨69, 39 :: (escape d s ++ [39]), by simp, Or.inr ⟨?_, Or.inl rfl, by simp⟩⟩
    simp [usesE] at h; exact h.1

theorem tokens_string (d : Dialect) (s rest : Str) (ha : admissible d s) (hr : rest.head? ≠ some 39) :
    tokens d (renderString d s ++ rest) = (tokens d rest).map (Tok.str s :: ·) := by
  obtain ⟨c, cs, he, hst⟩ := renderString_head d s
  have hl := lex_render_string d s rest ha hr
  rw [he] at hl ⊢
  rw [List.cons_append] at hl ⊢
  apply tokens_of_lex d c (cs ++ rest) s rest _ hl (by simp; omega)
  rcases hst with h | ⟨h1, h2, h3⟩
  · exact Or.inl h
  · refine Or.inr ⟨h1, h2, ?_⟩
    cases cs with
    | nil => simp at h3
    | cons a as => simpa using h3

/-! ### numbers -/

def isDigit (c : Nat) : Bool := 48 ≤ c && c ≤ 57

theorem digits_spec (n : Nat) : digits n ≠ [] ∧ ∀ c ∈ digits n, isDigit c = true := by
  induction n using Nat.strongRecOn with
  | ind n ih =>
    rw [digits]
    split
    · simp [isDigit]; omega
    · have := ih (n / 10) (by omega)
      refine ⟨by simp, ?_⟩
      intro c hc
      simp only [List.mem_append, List.mem_singleton] at hc
      rcases hc with hc | rfl
      · exact this.2 c hc
      · simp [isDigit]; omega

def parseNat (s : Str) : Nat := s.foldl (fun a c => a * 10 + (c - 48)) 0

theorem parseNat_digits (n : Nat) : parseNat (digits n) = n := by
  induction n using Nat.strongRecOn with
  | ind n ih =>
    rw [digits]
    split
    · simp [parseNat]
    · have := ih (n / 10) (by omega)
      simp only [parseNat, List.foldl_append, List.foldl_cons, List.foldl_nil] at this ⊢
      rw [this]; omega

def parseInt (s : Str) : Int :=
  match s with
  | 45 :: t => - (parseNat t : Int)
  | _ => (parseNat s : Int)

theorem parseInt_renderInt (i : Int) : parseInt (renderInt i) = i := by
  unfold renderInt
  split
  · simp only [parseInt, parseNat_digits]; omega
  · have h := digits_spec i.toNat
    have : ∀ t, digits i.toNat = 45 :: t → False := by
      intro t ht
      have := h.2 45 (by rw [ht]; simp)
      simp [isDigit] at this
    unfold parseInt
    split
    · rename_i t heq; exact absurd heq (this t)
    · rw [parseNat_digits]; omega

theorem isDigit_word (c : Nat) (h : isDigit c = true) : isWordChar c = true := by
  simp [isDigit] at h; simp [isWordChar, h]

theorem padZero_digits (w n : Nat) : ∀ c ∈ padZero w (digits n), isDigit c = true := by
  intro c hc
  simp only [padZero, List.mem_append, List.mem_replicate] at hc
  rcases hc with ⟨_, rfl⟩ | hc
  · decide
  · exact (digits_spec n).2 c hc

/-! ### quoted literals with a harmless body (dates, times, `'t'`/`'f'`) -/

def safeChar (c : Nat) : Bool := c != 39 && c != 92 && c != 0

theorem lexBody_safe (m : Mode) (body rest : Str) (hb : ∀ c ∈ body, safeChar c = true) (hr : rest.head? ≠ some 39) :
    lexBody m (body ++ 39 :: rest) = some (body, rest) := by
  have := lexBody_flatMap m (fun c => [c]) (fun c => safeChar c = true) ?_ body rest hb hr
  · simpa using this
  · intro c hc cs
    simp only [safeChar, Bool.and_eq_true, bne_iff_ne, ne_eq] at hc
    exact lexBody_plain m c cs hc.1.1 hc.2 (Or.inl hc.1.2)

theorem tokens_quoted_safe (d : Dialect) (body rest : Str) (hb : ∀ c ∈ body, safeChar c = true)
    (hr : rest.head? ≠ some 39) :
    tokens d (39 :: (body ++ 39 :: rest)) = (tokens d rest).map (Tok.str body :: ·) := by
  apply tokens_of_lex d 39 _ body rest (Or.inl rfl)
  · rw [lexString_plain]; exact lexBody_safe _ body rest hb hr
  · simp; omega

def fmtSafe : List FmtPiece → Bool
  | [] => true
  | .lit t :: ps => t.all safeChar && fmtSafe ps
  | .num _ _ :: ps => fmtSafe ps
  | .arg :: _ => false

theorem fmt_safe (ps : List FmtPiece) (ns : List Nat) (h : fmtSafe ps = true) :
    ∀ c ∈ fmt ps ns [], safeChar c = true := by
  induction ps with
  | nil => simp [fmt]
  | cons p ps ih =>
    cases p with
    | lit t =>
      simp only [fmtSafe, Bool.and_eq_true, List.all_eq_true] at h
      intro c hc
      simp only [fmt, List.mem_append] at hc
      rcases hc with hc | hc
      · exact h.1 c hc
      · exact ih h.2 c hc
    | num w k =>
      simp only [fmtSafe] at h
      intro c hc
      simp only [fmt, List.mem_append] at hc
      rcases hc with hc | hc
      · have := padZero_digits w (ns.getD k 0) c hc
        simp [isDigit] at this; simp [safeChar]; omega
      · exact ih h c hc
    | arg => simp [fmtSafe] at h

theorem fmt_append_noarg (a b : List FmtPiece) (ns : List Nat) :
    fmt (a ++ b) ns [] = fmt a ns [] ++ fmt b ns [] := by
  induction a with
  | nil => simp [fmt]
  | cons p a ih => cases p <;> simp [fmt, ih]

/-- the pieces between the opening and the closing quote of a format such as `'%04d-%02d-%02d'` -/
def fmtMid (f : List FmtPiece) : List FmtPiece := (f.drop 1).dropLast

theorem tokens_fmt_quoted (d : Dialect) (f : List FmtPiece) (ns : List Nat) (rest : Str)
    (hf : f = .lit [39] :: fmtMid f ++ [.lit [39]]) (hs : fmtSafe (fmtMid f) = true) (hr : rest.head? ≠ some 39) :
    tokens d (fmt f ns [] ++ rest) = (tokens d rest).map (Tok.str (fmt (fmtMid f) ns []) :: ·) := by
  rw [hf]
  have : fmt (FmtPiece.lit [39] :: fmtMid f ++ [FmtPiece.lit [39]]) ns [] = 39 :: (fmt (fmtMid f) ns [] ++ [39]) := by
    rw [List.cons_append, fmt, fmt_append_noarg]; simp [fmt]
  have hm : fmtMid (FmtPiece.lit [39] :: fmtMid f ++ [FmtPiece.lit [39]]) = fmtMid f := by rw [← hf]
  rw [this, hm]
  simp only [List.cons_append, List.append_assoc, List.singleton_append]
  exact tokens_quoted_safe d _ rest (fmt_safe _ ns hs) hr

/-! ### one value = one token group -/

def identLike (w : Str) : Bool := !w.isEmpty && w.all isWordChar

def intToks (i : Int) : List Tok :=
  if i < 0 then [.punct 45, .word (digits (-i).toNat)] else [.word (digits i.toNat)]

def boolToks (d : Dialect) (b : Bool) : List Tok :=
  if boolSpecialDialects.contains d then [.str (((renderBool d b).drop 1).dropLast)] else [.word (renderBool d b)]

def expToks : Option (Nat × Str) → List Tok
  | some (sg, e) => [Tok.punct sg, Tok.word e]
  | none => []

def numToks (neg : Bool) (mant : Str) (exp : Option (Nat × Str)) : List Tok :=
  (if neg then [Tok.punct 45] else []) ++ [Tok.word mant] ++ expToks exp

mutual
/-- the tokens a value must contribute to a statement: they depend on the value only -/
def valToks (d : Dialect) : Val → List Tok
  | .str s => [.str s]
  | .int i => intToks i
  | .bool b => boolToks d b
  | .null => [.word noneLit]
  | .date y m dd => [.str (fmt (fmtMid dateFmt) [y, m, dd] [])]
  | .time h mi s us => [.str (fmt (fmtMid timeFmt) [h, mi, s, us] [])]
  | .datetime y m dd h mi s us => [.str (fmt (fmtMid dateTimeFmt) [y, m, dd, h, mi, s, us] [])]
  | .num neg mant exp => numToks neg mant exp
  | .instInt i => intToks i
  | .instStr s => [.str s]
  | .seq l => .punct 40 :: (seqToks d l ++ [.punct 41])
def seqToks (d : Dialect) : List Val → List Tok
  | [] => []
  | v :: vs => valToks d v ++ tailToks d vs
def tailToks (d : Dialect) : List Val → List Tok
  | [] => []
  | v :: vs => .punct 44 :: (valToks d v ++ tailToks d vs)
end

mutual
/-- values the property speaks about: admissible strings everywhere inside, numeric texts of the
    `[-]run[(+|-)run]` shape (what `repr(float)` and `Decimal.to_eng_string` produce) -/
def Adm (d : Dialect) : Val → Bool
  | .str s => decide (admissible d s)
  | .num _ mant exp => identLike mant &&
      (match exp with | some (sg, e) => (sg = 43 || sg = 45) && identLike e | none => true)
  | .seq l => AdmList d l
  | .instStr s => decide (admissible d s)
  | _ => true
def AdmList (d : Dialect) : List Val → Bool
  | [] => true
  | v :: vs => Adm d v && AdmList d vs
end

theorem okAfter_head39 (rest : Str) (h : okAfter rest = true) : rest.head? ≠ some 39 := by
  cases rest with
  | nil => simp
  | cons y ys => simp [okAfter] at h; simp [h.1]

theorem identLike_spec (w : Str) (h : identLike w = true) : w ≠ [] ∧ ∀ c ∈ w, isWordChar c = true := by
  simp only [identLike, Bool.and_eq_true, Bool.not_eq_true', List.all_eq_true] at h
  refine ⟨?_, h.2⟩
  intro hw; subst hw; simp at h

theorem okAfter_cons (c : Nat) (cs : Str) (h1 : c ≠ 39) (h2 : isWordChar c = false) : okAfter (c :: cs) = true := by
  simp [okAfter, h1, h2]

theorem tokens_int (d : Dialect) (i : Int) (rest : Str) (hr : okAfter rest = true) :
    tokens d (renderInt i ++ rest) = (tokens d rest).map (intToks i ++ ·) := by
  unfold renderInt intToks
  split
  · have hd := digits_spec (-i).toNat
    rw [List.cons_append, tokens_minus, tokens_word d _ rest hd.1 (fun c hc => isDigit_word c (hd.2 c hc)) hr]
    · cases tokens d rest <;> simp
    · cases hdg : digits (-i).toNat with
      | nil => exact absurd hdg hd.1
      | cons a as =>
        have := hd.2 a (by rw [hdg]; simp)
        simp only [List.cons_append, List.head?_cons, ne_eq, Option.some.injEq]
        rintro rfl; simp [isDigit] at this
  · have hd := digits_spec i.toNat
    rw [tokens_word d _ rest hd.1 (fun c hc => isDigit_word c (hd.2 c hc)) hr]
    cases tokens d rest <;> simp

theorem tokens_bool (d : Dialect) (b : Bool) (rest : Str) (hr : okAfter rest = true) :
    tokens d (renderBool d b ++ rest) = (tokens d rest).map (boolToks d b ++ ·) := by
  have h39 := okAfter_head39 rest hr
  cases d <;> cases b <;>
    first
    | (have := tokens_quoted_safe .postgres [116] rest (by decide) h39
       simpa [renderBool, boolToks, boolSpecialDialects, boolSpecialTrue, boolSpecialFalse] using this)
    | (have := tokens_quoted_safe .postgres [102] rest (by decide) h39
       simpa [renderBool, boolToks, boolSpecialDialects, boolSpecialTrue, boolSpecialFalse] using this)
    | (simp only [renderBool, boolToks, boolSpecialDialects, boolTrue, boolFalse, List.contains, List.elem]
       rw [tokens_word _ _ rest (by decide) (by decide) hr]
       cases tokens _ rest <;> simp; try rfl)

theorem tokens_num (d : Dialect) (neg : Bool) (mant : Str) (exp : Option (Nat × Str)) (rest : Str)
    (ha : Adm d (.num neg mant exp) = true) (hr : okAfter rest = true) :
    tokens d (renderNum neg mant exp ++ rest) = (tokens d rest).map (numToks neg mant exp ++ ·) := by
  simp only [Adm, Bool.and_eq_true] at ha
  obtain ⟨hm, he⟩ := ha
  obtain ⟨hm1, hm2⟩ := identLike_spec mant hm
  have hmh : ∀ t : Str, (mant ++ t).head? ≠ some 45 := by
    intro t
    cases mant with
    | nil => exact absurd rfl hm1
    | cons a as =>
      have := hm2 a (by simp)
      simp only [List.cons_append, List.head?_cons, ne_eq, Option.some.injEq]
      rintro rfl; simp [isWordChar] at this
  -- the part after the optional sign
  have core : tokens d (mant ++ (expText exp ++ rest)) =
      (tokens d rest).map (([Tok.word mant] ++ expToks exp) ++ ·) := by
    cases exp with
    | none =>
      simp only [expText, expToks, List.nil_append]
      rw [tokens_word d mant rest hm1 hm2 hr]
      cases tokens d rest <;> simp
    | some p =>
      obtain ⟨sg, e⟩ := p
      simp only [Bool.and_eq_true, Bool.or_eq_true, decide_eq_true_eq] at he
      obtain ⟨hsg, he⟩ := he
      obtain ⟨he1, he2⟩ := identLike_spec e he
      have hok : okAfter (sg :: (e ++ rest)) = true := by
        rcases hsg with rfl | rfl <;> simp [okAfter, isWordChar]
      simp only [expText, expToks, List.cons_append]
      rw [tokens_word d mant _ hm1 hm2 hok]
      have hsgtok : tokens d (sg :: (e ++ rest)) = (tokens d (e ++ rest)).map (Tok.punct sg :: ·) := by
        rcases hsg with rfl | rfl
        · exact tokens_punct d 43 _ (by decide)
        · apply tokens_minus
          cases e with
          | nil => exact absurd rfl he1
          | cons a as =>
            have := he2 a (by simp)
            simp only [List.cons_append, List.head?_cons, ne_eq, Option.some.injEq]
            rintro rfl; simp [isWordChar] at this
      rw [hsgtok, tokens_word d e rest he1 he2 hr]
      cases tokens d rest <;> simp
  unfold renderNum numToks
  cases neg
  · simp only [Bool.false_eq_true, if_false, List.nil_append, List.append_assoc]
    rw [core]
    cases tokens d rest <;> simp
  · simp only [if_true, List.cons_append, List.nil_append, List.append_assoc]
    rw [tokens_minus d _ (hmh _), core]
    cases tokens d rest <;> simp

theorem fmt_date_shape : dateFmt = .lit [39] :: fmtMid dateFmt ++ [.lit [39]] ∧ fmtSafe (fmtMid dateFmt) = true := by
  decide
theorem fmt_time_shape : timeFmt = .lit [39] :: fmtMid timeFmt ++ [.lit [39]] ∧ fmtSafe (fmtMid timeFmt) = true := by
  decide
theorem fmt_dateTime_shape :
    dateTimeFmt = .lit [39] :: fmtMid dateTimeFmt ++ [.lit [39]] ∧ fmtSafe (fmtMid dateTimeFmt) = true := by
  decide

theorem seq_consts : seqOpen = [40] ∧ seqClose = [41] ∧ seqSep = [44, 32] := by decide

mutual
theorem tokens_render (d : Dialect) (v : Val) (rest : Str) (ha : Adm d v = true) (hr : okAfter rest = true) :
    tokens d (render d v ++ rest) = (tokens d rest).map (valToks d v ++ ·) := by
  cases v with
  | str s =>
    simp only [Adm, decide_eq_true_eq] at ha
    simp only [render, valToks]
    rw [tokens_string d s rest ha (okAfter_head39 rest hr)]
    cases tokens d rest <;> simp
  | int i => simpa [render, valToks] using tokens_int d i rest hr
  | bool b => simpa [render, valToks] using tokens_bool d b rest hr
  | null =>
    simp only [render, valToks]
    rw [tokens_word d noneLit rest (by decide) (by decide) hr]
    cases tokens d rest <;> simp
  | date y m dd =>
    simp only [render, valToks]
    rw [tokens_fmt_quoted d dateFmt _ rest fmt_date_shape.1 fmt_date_shape.2 (okAfter_head39 rest hr)]
    cases tokens d rest <;> simp
  | time h mi s us =>
    simp only [render, valToks]
    rw [tokens_fmt_quoted d timeFmt _ rest fmt_time_shape.1 fmt_time_shape.2 (okAfter_head39 rest hr)]
    cases tokens d rest <;> simp
  | datetime y m dd h mi s us =>
    simp only [render, valToks]
    rw [tokens_fmt_quoted d dateTimeFmt _ rest fmt_dateTime_shape.1 fmt_dateTime_shape.2 (okAfter_head39 rest hr)]
    cases tokens d rest <;> simp
  | num neg mant exp => simpa [render, valToks] using tokens_num d neg mant exp rest ha hr
  | instInt i => simpa [render, valToks] using tokens_int d i rest hr
  | instStr s =>
    simp only [Adm, decide_eq_true_eq] at ha
    simp only [render, valToks]
    rw [tokens_string d s rest ha (okAfter_head39 rest hr)]
    cases tokens d rest <;> simp
  | seq l =>
    simp only [Adm] at ha
    simp only [render, valToks, seq_consts.1, seq_consts.2.1, List.cons_append, List.nil_append, List.append_assoc]
    rw [tokens_punct d 40 _ (by decide), tokens_renderSeq d l _ ha, tokens_punct d 41 _ (by decide)]
    cases tokens d rest <;> simp

theorem tokens_renderSeq (d : Dialect) (l : List Val) (rest : Str) (ha : AdmList d l = true) :
    tokens d (renderSeq d l ++ 41 :: rest) = (tokens d (41 :: rest)).map (seqToks d l ++ ·) := by
  cases l with
  | nil => simp [renderSeq, seqToks]
  | cons v vs =>
    simp only [AdmList, Bool.and_eq_true] at ha
    simp only [renderSeq, seqToks, List.append_assoc]
    have hok : okAfter (renderTail d vs ++ 41 :: rest) = true := by
      cases vs with
      | nil => simp [renderTail, okAfter, isWordChar]
      | cons w ws => simp [renderTail, seq_consts.2.2, okAfter, isWordChar]
    rw [tokens_render d v _ ha.1 hok, tokens_renderTail d vs rest ha.2]
    cases tokens d (41 :: rest) <;> simp

theorem tokens_renderTail (d : Dialect) (l : List Val) (rest : Str) (ha : AdmList d l = true) :
    tokens d (renderTail d l ++ 41 :: rest) = (tokens d (41 :: rest)).map (tailToks d l ++ ·) := by
  cases l with
  | nil => simp [renderTail, tailToks]
  | cons v vs =>
    simp only [AdmList, Bool.and_eq_true] at ha
    simp only [renderTail, tailToks, seq_consts.2.2, List.cons_append, List.nil_append, List.append_assoc]
    have hok : okAfter (renderTail d vs ++ 41 :: rest) = true := by
      cases vs with
      | nil => simp [renderTail, okAfter, isWordChar]
      | cons w ws => simp [renderTail, seq_consts.2.2, okAfter, isWordChar]
    rw [tokens_punct d 44 _ (by decide), tokens_space d 32 _ (by decide), tokens_render d v _ ha.1 hok,
      tokens_renderTail d vs rest ha.2]
    cases tokens d (41 :: rest) <;> simp
end

/-! ### skeleton text (keywords, identifiers, punctuation) and joins -/

def pend (acc : Str) : List Tok := if acc.isEmpty then [] else [.word acc]

/-- tokens of literal-free skeleton text, computed structurally (`acc` = word being read) -/
def skelToks : Str → Str → List Tok
  | [], acc => pend acc
  | c :: cs, acc =>
    if isWordChar c then skelToks cs (acc ++ [c])
    else pend acc ++ (if isSpace c then [] else [.punct c]) ++ skelToks cs []

def skelOk (p : Str) : Bool := p.all fun c => isSpace c || isWordChar c || plainPunct c

def skelEndsClean : Str → Str → Bool
  | [], acc => acc.isEmpty
  | c :: cs, acc => if isWordChar c then skelEndsClean cs (acc ++ [c]) else skelEndsClean cs []

theorem tokens_skel_acc (d : Dialect) (p acc X : Str) (hp : skelOk p = true)
    (hacc : ∀ c ∈ acc, isWordChar c = true) (hend : skelEndsClean p acc = true ∨ okAfter X = true) :
    tokens d (acc ++ (p ++ X)) = (tokens d X).map (skelToks p acc ++ ·) := by
  induction p generalizing acc with
  | nil =>
    simp only [List.nil_append, skelToks, pend]
    by_cases he : acc = []
    · subst he; simp
    · have hok : okAfter X = true := by
        rcases hend with h | h
        · simp [skelEndsClean] at h; exact absurd h he
        · exact h
      rw [tokens_word d acc X he hacc hok]
      simp [he]
  | cons c cs ih =>
    simp only [skelOk, List.all_cons, Bool.and_eq_true] at hp
    obtain ⟨hc, hcs⟩ := hp
    by_cases hw : isWordChar c = true
    · simp only [skelToks, hw, if_true]
      simp only [skelEndsClean, hw, if_true] at hend
      have := ih (acc ++ [c]) hcs (by intro x hx; simp at hx; rcases hx with hx | rfl; exact hacc x hx; exact hw) hend
      simpa using this
    · have hw' : isWordChar c = false := by simpa using hw
      simp only [skelToks, hw', Bool.false_eq_true, if_false]
      simp only [skelEndsClean, hw', Bool.false_eq_true, if_false] at hend
      have hih := ih [] hcs (by simp) hend
      simp only [List.nil_append] at hih
      have hc39 : c ≠ 39 := by
        rintro rfl; simp [isSpace, isWordChar, plainPunct] at hc
      have hstep : tokens d (c :: (cs ++ X)) =
          (tokens d X).map (((if isSpace c then [] else [Tok.punct c]) ++ skelToks cs []) ++ ·) := by
        by_cases hs : isSpace c = true
        · rw [tokens_space d c _ hs, hih]; simp [hs]
        · have hs' : isSpace c = false := by simpa using hs
          have hpp : plainPunct c = true := by simpa [hs', hw'] using hc
          rw [tokens_punct d c _ hpp, hih]
          cases tokens d X <;> simp [hs']
      by_cases he : acc = []
      · subst he
        simp only [List.nil_append, List.cons_append, pend, List.isEmpty_nil, if_true]
        exact hstep
      · rw [List.cons_append, tokens_word d acc _ he hacc (okAfter_cons c _ hc39 hw'), hstep]
        cases tokens d X <;> simp [pend, he]

theorem tokens_skel (d : Dialect) (p X : Str) (hp : skelOk p = true)
    (hend : skelEndsClean p [] = true ∨ okAfter X = true) :
    tokens d (p ++ X) = (tokens d X).map (skelToks p [] ++ ·) := by
  simpa using tokens_skel_acc d p [] X hp (by simp) hend

/-- tokens of `sep.join(...)`: the items' tokens with the separator's tokens in between -/
def sepToks (sepT : List Tok) (f : α → List Tok) : List α → List Tok
  | [] => []
  | a :: t => f a ++ (t.map fun x => sepT ++ f x).flatten

theorem tokens_join (d : Dialect) (sep : Str) (sepT : List Tok) (rend : α → Str) (toks : α → List Tok)
    (hsep : ∀ X, tokens d (sep ++ X) = (tokens d X).map (sepT ++ ·))
    (hsepOk : ∀ X, okAfter (sep ++ X) = true)
    (l : List α) (rest : Str)
    (h : ∀ a ∈ l, ∀ X, okAfter X = true → tokens d (rend a ++ X) = (tokens d X).map (toks a ++ ·))
    (hr : okAfter rest = true) :
    tokens d (joinSep sep (l.map rend) ++ rest) = (tokens d rest).map (sepToks sepT toks l ++ ·) := by
  have tail : ∀ t : List α, (∀ a ∈ t, ∀ X, okAfter X = true → tokens d (rend a ++ X) = (tokens d X).map (toks a ++ ·)) →
      okAfter (((t.map rend).map (sep ++ ·)).flatten ++ rest) = true ∧
      tokens d (((t.map rend).map (sep ++ ·)).flatten ++ rest) =
        (tokens d rest).map ((t.map fun x => sepT ++ toks x).flatten ++ ·) := by
    intro t
    induction t with
    | nil => intro _; simp [hr]
    | cons b t ih =>
      intro hb
      obtain ⟨ok, eq⟩ := ih (fun a ha => hb a (by simp [ha]))
      refine ⟨by simpa using hsepOk _, ?_⟩
      simp only [List.map_cons, List.flatten_cons, List.append_assoc]
      rw [hsep, hb b (by simp) _ ok, eq]
      cases tokens d rest <;> simp
  cases l with
  | nil => simp [joinSep, sepToks]
  | cons a t =>
    obtain ⟨ok, eq⟩ := tail t (fun x hx => h x (by simp [hx]))
    simp only [List.map_cons, joinSep, sepToks, List.append_assoc]
    rw [h a (by simp) _ ok, eq]
    cases tokens d rest <;> simp

theorem comma_sep (d : Dialect) (X : Str) : tokens d ([44, 32] ++ X) = (tokens d X).map ([Tok.punct 44] ++ ·) := by
  have h := tokens_skel d [44, 32] X (by decide) (Or.inl (by decide))
  have e : skelToks [44, 32] [] = [Tok.punct 44] := by decide
  rw [e] at h; exact h

theorem tokens_ident (d : Dialect) (n : Str) (hn : identLike n = true) (X : Str) (hX : okAfter X = true) :
    tokens d (n ++ X) = (tokens d X).map ([Tok.word n] ++ ·) := by
  obtain ⟨h1, h2⟩ := identLike_spec n hn
  simpa using tokens_word d n X h1 h2 hX

/-! ### the statements -/

def insertToks (table : Str) (names : List Str) (lits : List (List Tok)) : List Tok :=
  [.word [73, 78, 83, 69, 82, 84], .word [73, 78, 84, 79], .word table, .punct 40] ++
    sepToks [.punct 44] (fun n => [Tok.word n]) names ++
    [.punct 41, .word [86, 65, 76, 85, 69, 83], .punct 40] ++
    sepToks [.punct 44] id lits ++ [.punct 41]

theorem sepToks_map (sepT : List Tok) (f : β → List Tok) (g : α → β) (l : List α) :
    sepToks sepT f (l.map g) = sepToks sepT (f ∘ g) l := by
  cases l with
  | nil => rfl
  | cons a t => simp [sepToks, Function.comp_def]

theorem tokens_insertSQL (d : Dialect) (table : Str) (names : List Str) (vs : List Val)
    (ht : identLike table = true) (hn : ∀ n ∈ names, identLike n = true) (hv : ∀ v ∈ vs, Adm d v = true) :
    tokens d (insertSQL d table names vs) = some (insertToks table names (vs.map (valToks d))) := by
  simp only [insertSQL, insertFmt, insertNameSep, insertValueSep, fmt, List.append_nil]
  rw [tokens_skel d _ _ (by decide) (Or.inl (by decide)),
    tokens_ident d table ht _ (by simp [okAfter, isWordChar]),
    tokens_skel d _ _ (by decide) (Or.inl (by decide))]
  have hnames := tokens_join d [44, 32] [Tok.punct 44] (fun n : Str => n) (fun n => [Tok.word n]) (comma_sep d)
    (fun X => by simp [okAfter, isWordChar]) names
  simp only [List.map_id'] at hnames
  rw [hnames _ (fun n hn' X hX => tokens_ident d n (hn n hn') X hX) (by simp [okAfter, isWordChar]),
    tokens_skel d _ _ (by decide) (Or.inl (by decide)),
    tokens_join d [44, 32] [Tok.punct 44] (render d) (valToks d) (comma_sep d)
      (fun X => by simp [okAfter, isWordChar]) vs [41] (fun v hv' X hX => tokens_render d v X (hv v hv') hX)
      (by simp [okAfter, isWordChar])]
  have : tokens d [41] = some [Tok.punct 41] := by
    have := tokens_punct d 41 [] (by decide)
    rw [this, tokens]; rfl
  rw [this]
  simp [insertToks, skelToks, pend, isWordChar, isSpace, sepToks_map, Function.comp_def]

theorem tokens_nil (d : Dialect) : tokens d [] = some [] := by rw [tokens]

theorem tokens_close (d : Dialect) : tokens d [41] = some [Tok.punct 41] := by
  rw [tokens_punct d 41 [] (by decide), tokens_nil]; rfl

def setToks (p : Str × List Tok) : List Tok := [Tok.word p.1, .punct 61, .punct 40] ++ p.2 ++ [.punct 41]

def updateToks (table : Str) (sets : List (Str × List Tok)) (idName : Str) (idLit : List Tok) : List Tok :=
  [.word [85, 80, 68, 65, 84, 69], .word table, .word [83, 69, 84]] ++
    sepToks [.punct 44] setToks sets ++
    [.word [87, 72, 69, 82, 69], .word idName, .punct 61, .punct 40] ++ idLit ++ [.punct 41]

theorem tokens_setItem (d : Dialect) (p : Str × Val) (hn : identLike p.1 = true) (hv : Adm d p.2 = true) (X : Str) :
    tokens d (fmt updateSetFmt [] [p.1, render d p.2] ++ X) =
      (tokens d X).map (setToks (p.1, valToks d p.2) ++ ·) := by
  simp only [updateSetFmt, fmt, List.append_nil, List.append_assoc]
  rw [tokens_ident d p.1 hn _ (by simp [okAfter, isWordChar]),
    tokens_skel d _ _ (by decide) (Or.inl (by decide)),
    tokens_render d p.2 _ hv (by simp [okAfter, isWordChar]),
    List.singleton_append, tokens_punct d 41 X (by decide)]
  have e : skelToks [32, 61, 32, 40] [] = [Tok.punct 61, Tok.punct 40] := by decide
  rw [e]
  cases tokens d X <;> simp [setToks]

theorem tokens_updateSQL (d : Dialect) (table : Str) (sets : List (Str × Val)) (idName : Str) (idv : Val)
    (ht : identLike table = true) (hi : identLike idName = true)
    (hs : ∀ p ∈ sets, identLike p.1 = true ∧ Adm d p.2 = true) (hidv : Adm d idv = true) :
    tokens d (updateSQL d table sets idName idv) =
      some (updateToks table (sets.map fun p => (p.1, valToks d p.2)) idName (valToks d idv)) := by
  simp only [updateSQL, updateFmt, updateSetSep, fmt, List.append_nil]
  rw [tokens_skel d _ _ (by decide) (Or.inl (by decide)),
    tokens_ident d table ht _ (by simp [okAfter, isWordChar]),
    tokens_skel d _ _ (by decide) (Or.inl (by decide)),
    tokens_join d [44, 32] [Tok.punct 44] (fun p : Str × Val => fmt updateSetFmt [] [p.1, render d p.2])
      (fun p => setToks (p.1, valToks d p.2)) (comma_sep d) (fun X => by simp [okAfter, isWordChar]) sets _
      (fun p hp X _ => tokens_setItem d p (hs p hp).1 (hs p hp).2 X) (by simp [okAfter, isWordChar]),
    tokens_skel d _ _ (by decide) (Or.inl (by decide)),
    tokens_ident d idName hi _ (by simp [okAfter, isWordChar]),
    tokens_skel d _ _ (by decide) (Or.inl (by decide)),
    tokens_render d idv _ hidv (by simp [okAfter, isWordChar]), tokens_close]
  have e1 : skelToks [85, 80, 68, 65, 84, 69, 32] [] = [Tok.word [85, 80, 68, 65, 84, 69]] := by decide
  have e2 : skelToks [32, 83, 69, 84, 32] [] = [Tok.word [83, 69, 84]] := by decide
  have e3 : skelToks [32, 87, 72, 69, 82, 69, 32] [] = [Tok.word [87, 72, 69, 82, 69]] := by decide
  have e4 : skelToks [32, 61, 32, 40] [] = [Tok.punct 61, Tok.punct 40] := by decide
  simp [e1, e2, e3, e4, updateToks, sepToks_map, Function.comp_def]

def clauseItemToks (p : Str × Bool × List Tok) : List Tok :=
  [Tok.word p.1, if p.2.1 then Tok.word clauseIsOp else Tok.punct 61] ++ p.2.2

def clauseToks (items : List (Str × Bool × List Tok)) : List Tok :=
  sepToks [.word [65, 78, 68]] clauseItemToks items

theorem tokens_clauseItem (d : Dialect) (p : Str × Val) (hn : identLike p.1 = true) (hv : Adm d p.2 = true)
    (X : Str) (hX : okAfter X = true) :
    tokens d (fmt clauseFmt [] [p.1, if p.2.isNull then clauseIsOp else clauseEqOp, render d p.2] ++ X) =
      (tokens d X).map (clauseItemToks (p.1, p.2.isNull, valToks d p.2) ++ ·) := by
  simp only [clauseFmt, fmt, List.append_nil, List.append_assoc]
  rw [tokens_ident d p.1 hn _ (by simp [okAfter, isWordChar]), List.singleton_append, tokens_space d 32 _ (by decide)]
  cases hnull : p.2.isNull
  · simp only [Bool.false_eq_true, if_false, clauseEqOp, List.singleton_append]
    rw [tokens_punct d 61 _ (by decide), tokens_space d 32 _ (by decide), tokens_render d p.2 X hv hX]
    cases tokens d X <;> simp [clauseItemToks]
  · simp only [if_true]
    rw [tokens_ident d clauseIsOp (by decide) _ (by simp [okAfter, isWordChar]), List.singleton_append,
      tokens_space d 32 _ (by decide),
      tokens_render d p.2 X hv hX]
    cases tokens d X <;> simp [clauseItemToks]

theorem and_sep (d : Dialect) (X : Str) :
    tokens d (clauseSep ++ X) = (tokens d X).map ([Tok.word [65, 78, 68]] ++ ·) := by
  have h := tokens_skel d clauseSep X (by decide) (Or.inl (by decide))
  have e : skelToks clauseSep [] = [Tok.word [65, 78, 68]] := by decide
  rw [e] at h; exact h

theorem tokens_columnClause (d : Dialect) (data : List (Str × Val))
    (hs : ∀ p ∈ data, identLike p.1 = true ∧ Adm d p.2 = true) :
    tokens d (columnClause d data) =
      some (clauseToks (data.map fun p => (p.1, p.2.isNull, valToks d p.2))) := by
  have h := tokens_join d clauseSep [Tok.word [65, 78, 68]]
    (fun p : Str × Val => fmt clauseFmt [] [p.1, if p.2.isNull then clauseIsOp else clauseEqOp, render d p.2])
    (fun p => clauseItemToks (p.1, p.2.isNull, valToks d p.2)) (and_sep d)
    (fun X => by simp [clauseSep, okAfter, isWordChar]) data []
    (fun p hp X hX => tokens_clauseItem d p (hs p hp).1 (hs p hp).2 X hX) (by simp [okAfter])
  simp only [List.append_nil] at h
  simp only [columnClause]
  rw [h, tokens_nil]
  simp [clauseToks, sepToks_map, Function.comp_def]

end SqlObjVerif.Lex
