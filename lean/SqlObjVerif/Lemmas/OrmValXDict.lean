import SqlObjVerif.Lemmas.OrmValXRead
/-!
Python dict operations on `_SO_createValues` (insertion order) against the hand model's sorted pending list:
`sortByKey (dset c x cv) = passign c x (sortByKey cv)` for a dict with pairwise distinct keys
(two sorted lists with the same lookups are equal).
-/
namespace SqlObjVerif.OrmVal
open SqlObjVerif.PyMain

theorem plookup_none_of_lt (k : Col) (p : Pend) (h : ∀ e ∈ p, k < e.1) : plookup k p = none := by
  induction p with
  | nil => rfl
  | cons a r ih =>
    obtain ⟨c, v⟩ := a
    have h1 : k ≠ c := Nat.ne_of_lt (h (c, v) (by simp))
    simp only [plookup, h1, if_false]
    exact ih (fun e he => h e (by simp [he]))

theorem plookup_some_mem (k : Col) (v : Val) (p : Pend) (h : plookup k p = some v) : (k, v) ∈ p := by
  induction p with
  | nil => simp [plookup] at h
  | cons a r ih =>
    obtain ⟨c, w⟩ := a
    simp only [plookup] at h
    split at h
    · subst_vars; simp at h; simp [h]
    · simp [ih h]

/-- two sorted pending lists with the same lookups are equal -/
theorem psorted_ext (p q : Pend) (hp : PSorted p) (hq : PSorted q) (h : ∀ k, plookup k p = plookup k q) : p = q := by
  induction p generalizing q with
  | nil =>
    cases q with
    | nil => rfl
    | cons b q' =>
      have := h b.1
      simp [plookup] at this
  | cons a p' ih =>
    unfold PSorted at hp hq ih
    rw [List.pairwise_cons] at hp
    cases q with
    | nil =>
      have := h a.1
      simp [plookup] at this
    | cons b q' =>
      rw [List.pairwise_cons] at hq
      obtain ⟨ak, av⟩ := a
      obtain ⟨bk, bv⟩ := b
      have hk : ak = bk := by
        rcases Nat.lt_trichotomy ak bk with hlt | heq | hgt
        · have h1 := h ak
          have h2 : plookup ak ((ak, av) :: p') = some av := by simp [plookup]
          rw [h2] at h1
          have : plookup ak ((bk, bv) :: q') = none :=
            plookup_none_of_lt ak _ (fun e he => by
              simp only [List.mem_cons] at he
              rcases he with rfl | he
              · exact hlt
              · exact Nat.lt_trans hlt (hq.1 e he))
          rw [this] at h1; simp at h1
        · exact heq
        · have h1 := h bk
          have h2 : plookup bk ((bk, bv) :: q') = some bv := by simp [plookup]
          have : plookup bk ((ak, av) :: p') = none :=
            plookup_none_of_lt bk _ (fun e he => by
              simp only [List.mem_cons] at he
              rcases he with rfl | he
              · exact hgt
              · exact Nat.lt_trans hgt (hp.1 e he))
          rw [this, h2] at h1; simp at h1
      subst hk
      have hv : av = bv := by
        have h1 := h ak
        simpa [plookup] using h1
      subst hv
      congr 1
      apply ih q' hp.2 hq.2
      intro k
      by_cases hka : k = ak
      · subst hka
        rw [plookup_none_of_lt k p' (fun e he => hp.1 e he), plookup_none_of_lt k q' (fun e he => hq.1 e he)]
      · have h1 := h k
        simpa [plookup, hka] using h1

theorem insByKey_sorted (x : Col × Val) (p : Pend) (hp : PSorted p) (hx : ∀ e ∈ p, e.1 ≠ x.1) : PSorted (insByKey x p) := by
  induction p with
  | nil => simp [insByKey, PSorted]
  | cons y r ih =>
    unfold PSorted at hp ih ⊢
    rw [List.pairwise_cons] at hp
    simp only [insByKey]
    split
    · rename_i hlt
      rw [List.pairwise_cons]
      refine ⟨?_, List.pairwise_cons.mpr hp⟩
      intro e he
      simp only [List.mem_cons] at he
      rcases he with rfl | he
      · exact hlt
      · exact Nat.lt_trans hlt (hp.1 e he)
    · rename_i hnlt
      rw [List.pairwise_cons]
      refine ⟨?_, ih hp.2 (fun e he => hx e (by simp [he]))⟩
      intro e he
      rw [mem_insByKey] at he
      rcases he with rfl | he
      · exact Nat.lt_of_le_of_ne (Nat.le_of_not_gt hnlt) (hx y (by simp))
      · exact hp.1 e he

theorem sortByKey_psorted (cv : Pend) (hnd : (cv.map (·.1)).Nodup) : PSorted (sortByKey cv) := by
  induction cv with
  | nil => simp [PSorted]
  | cons x l ih =>
    simp only [List.map_cons, List.nodup_cons] at hnd
    have : sortByKey (x :: l) = insByKey x (sortByKey l) := rfl
    rw [this]
    apply insByKey_sorted _ _ (ih hnd.2)
    intro e he heq
    rw [mem_sortByKey] at he
    exact hnd.1 (by rw [← heq]; exact List.mem_map_of_mem he)

theorem dhas_iff {α : Type} (k : Nat) (l : List (Nat × α)) : dhas k l = true ↔ k ∈ l.map (·.1) := by
  simp [dhas]

theorem dset_keys {α : Type} (k : Nat) (v : α) (l : List (Nat × α)) :
    (dset k v l).map (·.1) = if dhas k l then l.map (·.1) else l.map (·.1) ++ [k] := by
  unfold dset
  split
  · simp only [List.map_map]
    apply List.map_congr_left
    intro e _
    by_cases he : e.1 = k <;> simp [he]
  · simp

theorem dset_nodup {α : Type} (k : Nat) (v : α) (l : List (Nat × α)) (h : (l.map (·.1)).Nodup) :
    ((dset k v l).map (·.1)).Nodup := by
  rw [dset_keys]
  split
  · exact h
  · rename_i hk
    rw [List.nodup_append]
    refine ⟨h, by simp, ?_⟩
    intro a ha b hb
    simp at hb
    subst hb
    intro hab
    subst hab
    exact hk ((dhas_iff _ _).mpr ha)

theorem dget_dset {α : Type} (c k : Nat) (v : α) (l : List (Nat × α)) :
    dget c (dset k v l) = if c = k then some v else dget c l := by
  unfold dset
  split
  · rename_i hk
    induction l with
    | nil => simp [dhas] at hk
    | cons y r ih =>
      simp only [List.map_cons, dget]
      by_cases hy : y.1 = k
      · simp only [hy, if_true]
        by_cases hc : c = k
        · simp [hc]
        · have : ¬ k = c := fun e => hc e.symm
          simp only [this, if_false, hc]
          -- the rest of the list is searched the same way
          clear ih hk
          induction r with
          | nil => simp [dget]
          | cons z r ih2 =>
            simp only [List.map_cons, dget]
            by_cases hz : z.1 = k
            · have hzc : ¬ z.1 = c := fun e => hc (by rw [← e, hz])
              simp [hz, this, hzc, ih2]
            · simp [hz, ih2]
      · simp only [hy, if_false]
        have hk' : dhas k r = true := by
          simp only [dhas, List.any_cons, Bool.or_eq_true, decide_eq_true_eq] at hk
          rcases hk with h1 | h1
          · exact absurd h1 hy
          · simpa [dhas] using h1
        by_cases hyc : y.1 = c
        · have : ¬ c = k := fun e => hy (by rw [hyc, e])
          simp [hyc, this]
        · simp only [hyc, if_false]
          exact ih hk'
  · rw [show l ++ [(k, v)] = l ++ [(k, v)] from rfl, dget_append_single]
    by_cases hc : c = k
    · subst hc
      rename_i hk
      have : dget c l = Option.none := dget_none_of_not_mem c l (fun hm => hk ((dhas_iff _ _).mpr hm))
      simp [this]
    · have : ¬ k = c := fun e => hc e.symm
      cases dget c l <;> simp [hc, this]

/-- `_SO_createValues[c] = x` on a dict with distinct keys is `passign` on the sorted pending list -/
theorem sortByKey_dset (c : Col) (x : Val) (cv : Pend) (hnd : (cv.map (·.1)).Nodup) :
    sortByKey (dset c x cv) = passign c x (sortByKey cv) := by
  apply psorted_ext _ _ (sortByKey_psorted _ (dset_nodup c x cv hnd)) (passign_sorted _ _ _ (sortByKey_psorted _ hnd))
  intro k
  rw [plookup_sortByKey k _ (dset_nodup c x cv hnd), dget_dset]
  by_cases hk : k = c
  · subst hk; simp [plookup_passign_same]
  · simp [hk, plookup_passign_ne _ _ _ _ hk, plookup_sortByKey k cv hnd]

theorem dset_map {α β : Type} (g : α → β) (k : Nat) (v : α) (l : List (Nat × α)) :
    dset k (g v) (l.map fun e => (e.1, g e.2)) = (dset k v l).map fun e => (e.1, g e.2) := by
  unfold dset
  have : dhas k (l.map fun e => (e.1, g e.2)) = dhas k l := by simp [dhas, Function.comp_def]
  rw [this]
  split
  · simp only [List.map_map]
    apply List.map_congr_left
    intro e _
    by_cases he : e.1 = k <;> simp [he]
  · simp

@[simp] theorem cvOf_map_ofVal (l : Pend) : cvOf (l.map fun e => (e.1, ofVal e.2)) = some l := by
  induction l with
  | nil => rfl
  | cons a l ih => simp [cvOf, ih]

end SqlObjVerif.OrmVal
