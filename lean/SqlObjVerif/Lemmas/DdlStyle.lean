import SqlObjVerif.Model.DdlStyle
/-!
# Lemmas about the name mapping of `sqlobject/styles.py` (model: `Model/DdlStyle.lean`)

1. `style_roundtrip`               `Camel s → underToMixed (mixedToUnder s) = s`
2. `style_mixedToUnder_injective`  `mixedToUnder` is injective on `Camel` names
3. `style_fk_name`                 `mixedToUnder (s ++ "ID") = mixedToUnder s ++ "_id"`
4. `style_under_identchars`        identifier in, lower-case identifier out
5. `style_collision_*`, `style_roundtrip_fails`: concrete inputs showing that every clause of
   `Camel` is needed.

All statements are for strings of arbitrary length (induction), `List Nat` of code points.
-/
namespace SqlObjVerif.Ddl

/-! ## the precondition -/

/-- no three consecutive capitals: every maximal run of `[A-Z]` has length at most 2 -/
def noTripleUpper : List Nat → Bool
  | a :: b :: c :: rest => !(isUpperC a && isUpperC b && isUpperC c) && noTripleUpper (b :: c :: rest)
  | _ => true

/-- `s[:1]` is an ASCII capital -/
def startsUpper : List Nat → Bool
  | [] => false
  | c :: _ => isUpperC c

/-- The names on which `mixedToUnder` can be undone by `underToMixed`:
* no underscore (`"a_b"` collides with `"aB"`);
* no leading capital (`"Ab"` collides with `"ab"` and `"_ab"`);
* does not end in `"Id"` (`"fooId"` collides with `"fooID"`);
* once a final `"ID"` is removed, no run of three or more capitals (`"aBCDe"` collides with
  `"aBcDe"`; `"aBCID"` is fine).

No restriction on the other characters (digits, non-ASCII, ... are passed through).  Among
underscore-free names each clause is necessary (`style_roundtrip_fails`; an exhaustive Python run
over all names of length <= 7 on the alphabet `aIDdB1_` found no underscore-free name outside
`Camel` that survives the round trip).  Known slack: a single trailing `'_'` (`"a_"`) and `"_\n"`
do survive the round trip but are rejected here. -/
def Camel (s : List Nat) : Bool :=
  !s.contains 95 && !startsUpper s && !endsWith s [73, 100] /- "Id" -/ &&
  noTripleUpper (if endsWith s [73, 68] /- "ID" -/ then dropEnd 2 s else s)

/-- `[A-Za-z0-9_]` -/
def isIdentC (c : Nat) : Bool := isUpperC c || isLowerC c || isDigitC c || c == 95

/-- `[a-z0-9_]` -/
def isLowIdentC (c : Nat) : Bool := isLowerC c || isDigitC c || c == 95

/-! ## Python string primitives -/

theorem endsWith_iff (s suf : List Nat) : endsWith s suf = true ↔ ∃ p, s = p ++ suf := by
  unfold endsWith
  rw [List.isSuffixOf_iff_suffix]
  constructor
  · rintro ⟨p, rfl⟩; exact ⟨p, rfl⟩
  · rintro ⟨p, rfl⟩; exact ⟨p, rfl⟩

theorem endsWith_iff_suffix (s suf : List Nat) : endsWith s suf = true ↔ suf <:+ s := by
  unfold endsWith; exact List.isSuffixOf_iff_suffix

theorem dropEnd_append (p suf : List Nat) (n : Nat) (h : suf.length = n) : dropEnd n (p ++ suf) = p := by
  subst h; simp [dropEnd]

/-! ## characters -/
theorem isUpperC_iff {u : Nat} : isUpperC u = true ↔ 65 ≤ u ∧ u ≤ 90 := by
  simp [isUpperC]

theorem lowerC_of_upper {u : Nat} (h : isUpperC u = true) : lowerC u = u + 32 := by
  simp [lowerC, h]

theorem upper_lower {u : Nat} (h : isUpperC u = true) : upperC (lowerC u) = u := by
  rw [lowerC_of_upper h]
  have hb := isUpperC_iff.1 h
  have : isLowerC (u + 32) = true := by simp [isLowerC]; omega
  simp [upperC, this]

theorem lower_ne_under {u : Nat} (h : isUpperC u = true) : lowerC u ≠ 95 := by
  rw [lowerC_of_upper h]; have hb := isUpperC_iff.1 h; omega
theorem lower_ne_nl {u : Nat} (h : isUpperC u = true) : lowerC u ≠ 10 := by
  rw [lowerC_of_upper h]; omega

/-! ## unfolding `subUpper` / `subUnder` on the shapes a `Camel` name is made of -/
theorem subUpper_nil_lower {c : Nat} (cs : List Nat) (h : isUpperC c = false) :
    subUpper [] (c :: cs) = c :: subUpper [] cs := by
  simp [subUpper, h, flushRun]

theorem subUpper_one_end {u : Nat} (hu : isUpperC u = true) :
    subUpper [] [u] = [95, lowerC u] := by
  simp [subUpper, hu, flushRun, mixedToUnderSub]

theorem subUpper_one {u c : Nat} (cs : List Nat) (hu : isUpperC u = true) (hc : isUpperC c = false) :
    subUpper [] (u :: c :: cs) = 95 :: lowerC u :: c :: subUpper [] cs := by
  simp [subUpper, hu, hc, flushRun, mixedToUnderSub]

theorem subUpper_two_end {u v : Nat} (hu : isUpperC u = true) (hv : isUpperC v = true) :
    subUpper [] [u, v] = [95, lowerC u, 95, lowerC v] := by
  simp [subUpper, hu, hv, flushRun, mixedToUnderSub, dropEnd, lastStr]

theorem subUpper_two {u v c : Nat} (cs : List Nat) (hu : isUpperC u = true) (hv : isUpperC v = true)
    (hc : isUpperC c = false) :
    subUpper [] (u :: v :: c :: cs) = 95 :: lowerC u :: 95 :: lowerC v :: c :: subUpper [] cs := by
  simp [subUpper, hu, hv, hc, flushRun, mixedToUnderSub, dropEnd, lastStr]

theorem subUnder_cons_ne {c : Nat} (l : List Nat) (h : c ≠ 95) : subUnder (c :: l) = c :: subUnder l := by
  cases l with
  | nil => simp [subUnder]
  | cons d ds => simp [subUnder, h]

theorem subUnder_under {d : Nat} (l : List Nat) (h : d ≠ 10) : subUnder (95 :: d :: l) = upperC d :: subUnder l := by
  simp [subUnder, h]


/-! ## the two inductions behind the round trip -/

theorem noTripleUpper_tail {a : Nat} {l : List Nat} (h : noTripleUpper (a :: l) = true) :
    noTripleUpper l = true := by
  match l with
  | [] => simp [noTripleUpper]
  | [_] => simp [noTripleUpper]
  | b :: c :: rest => simp [noTripleUpper] at h; exact h.2

theorem bool_not_true {b : Bool} (h : ¬ b = true) : b = false := by simpa using h

theorem subUnder_subUpper (n : Nat) : ∀ p : List Nat, p.length ≤ n → 95 ∉ p → noTripleUpper p = true →
    ∀ q, subUnder (subUpper [] p ++ q) = p ++ subUnder q := by
  induction n with
  | zero =>
    intro p hp _ _ q
    have : p = [] := List.eq_nil_of_length_eq_zero (by omega)
    subst this; simp [subUpper, flushRun]
  | succ n ih =>
    intro p hp hu ht q
    match p with
    | [] => simp [subUpper, flushRun]
    | c :: cs =>
      have hc95 : c ≠ 95 := fun h => hu (by simp [h])
      have hu1 : 95 ∉ cs := fun h => hu (by simp [h])
      have ht1 := noTripleUpper_tail ht
      by_cases hc : isUpperC c = true
      · match cs with
        | [] => 
          rw [subUpper_one_end hc]
          simp [subUnder_under _ (lower_ne_nl hc), upper_lower hc]
        | d :: ds =>
          have hu2 : 95 ∉ ds := fun h => hu1 (by simp [h])
          have ht2 := noTripleUpper_tail ht1
          by_cases hd : isUpperC d = true
          · match ds with
            | [] =>
              rw [subUpper_two_end hc hd]
              simp [subUnder_under _ (lower_ne_nl hc), subUnder_under _ (lower_ne_nl hd), upper_lower hc, upper_lower hd]
            | e :: es =>
              by_cases he : isUpperC e = true
              · simp [noTripleUpper, hc, hd, he] at ht
              · have he := bool_not_true he
                rw [subUpper_two es hc hd he, ← subUpper_nil_lower es he]
                simp only [List.cons_append]
                rw [subUnder_under _ (lower_ne_nl hc), subUnder_under _ (lower_ne_nl hd), upper_lower hc, upper_lower hd,
                  ih (e :: es) (by simp at hp ⊢; omega) hu2 ht2]
                simp
          · have hd := bool_not_true hd
            rw [subUpper_one ds hc hd, ← subUpper_nil_lower ds hd]
            simp only [List.cons_append]
            rw [subUnder_under _ (lower_ne_nl hc), upper_lower hc, ih (d :: ds) (by simp at hp ⊢; omega) hu1 ht1]
            simp
      · have hc := bool_not_true hc
        rw [subUpper_nil_lower cs hc]
        simp only [List.cons_append]
        rw [subUnder_cons_ne _ hc95, ih cs (by simp at hp; omega) hu1 ht1]


theorem mixedToUnderSub_ne_nil (run : List Nat) : mixedToUnderSub run ≠ [] := by
  unfold mixedToUnderSub; simp only; split <;> simp

theorem subUpper_eq_nil : ∀ (s rrun : List Nat), subUpper rrun s = [] → rrun = [] ∧ s = [] := by
  intro s
  induction s with
  | nil =>
    intro rrun h
    cases rrun with
    | nil => simp
    | cons a r => simp [subUpper, flushRun, mixedToUnderSub_ne_nil] at h
  | cons c cs ih =>
    intro rrun h
    unfold subUpper at h
    split at h
    · have := (ih _ h).1; simp at this
    · simp at h

theorem lower_eq_i {u : Nat} (h : isUpperC u = true) (h2 : lowerC u = 105) : u = 73 := by
  rw [lowerC_of_upper h] at h2; omega

theorem suffix_cons_of {l s : List Nat} (a : Nat) (h : l <:+ s) : l <:+ a :: s :=
  List.suffix_cons_iff.2 (Or.inr h)

theorem no_under_id (n : Nat) : ∀ s : List Nat, s.length ≤ n → 95 ∉ s → noTripleUpper s = true →
    [95, 105, 100] <:+ subUpper [] s → [73, 100] <:+ s := by
  induction n with
  | zero =>
    intro s hs _ _ h
    have : s = [] := List.eq_nil_of_length_eq_zero (by omega)
    subst this; simp [subUpper, flushRun] at h
  | succ n ih =>
    intro s hs hu ht h
    match s with
    | [] => simp [subUpper, flushRun] at h
    | c :: cs =>
      have hc95 : c ≠ 95 := fun h => hu (by simp [h])
      have hu1 : 95 ∉ cs := fun h => hu (by simp [h])
      have ht1 := noTripleUpper_tail ht
      by_cases hc : isUpperC c = true
      · have l1 := lower_ne_under hc
        match cs with
        | [] =>
          rw [subUpper_one_end hc] at h
          have := h.length_le; simp at this
        | d :: ds =>
          have hu2 : 95 ∉ ds := fun h => hu1 (by simp [h])
          have ht2 := noTripleUpper_tail ht1
          by_cases hd : isUpperC d = true
          · have l2 := lower_ne_under hd
            match ds with
            | [] =>
              rw [subUpper_two_end hc hd] at h
              simp [List.suffix_cons_iff] at h
            | e :: es =>
              by_cases he : isUpperC e = true
              · simp [noTripleUpper, hc, hd, he] at ht
              · have he := bool_not_true he
                rw [subUpper_two es hc hd he] at h
                rcases List.suffix_cons_iff.1 h with h | h
                · simp at h
                rcases List.suffix_cons_iff.1 h with h | h
                · simp at h <;> omega
                rcases List.suffix_cons_iff.1 h with h | h
                · simp only [List.cons.injEq, true_and] at h
                  obtain ⟨h1, h2, h3⟩ := h
                  have := (subUpper_eq_nil _ _ h3.symm).2
                  have := lower_eq_i hd h1.symm
                  subst_vars
                  exact suffix_cons_of _ (List.suffix_refl _)
                rcases List.suffix_cons_iff.1 h with h | h
                · simp at h <;> omega
                rw [← subUpper_nil_lower es he] at h
                exact suffix_cons_of _ (suffix_cons_of _ (ih (e :: es) (by simp at hs ⊢; omega) hu2 ht2 h))
          · have hd := bool_not_true hd
            rw [subUpper_one ds hc hd] at h
            rcases List.suffix_cons_iff.1 h with h | h
            · simp only [List.cons.injEq, true_and] at h
              obtain ⟨h1, h2, h3⟩ := h
              have := (subUpper_eq_nil _ _ h3.symm).2
              have := lower_eq_i hc h1.symm
              subst_vars
              exact List.suffix_refl _
            rcases List.suffix_cons_iff.1 h with h | h
            · simp at h <;> omega
            rw [← subUpper_nil_lower ds hd] at h
            exact suffix_cons_of _ (ih (d :: ds) (by simp at hs ⊢; omega) hu1 ht1 h)
      · have hc := bool_not_true hc
        rw [subUpper_nil_lower cs hc] at h
        rcases List.suffix_cons_iff.1 h with h | h
        · simp at h <;> omega
        · exact suffix_cons_of _ (ih cs (by simp at hs; omega) hu1 ht1 h)


/-! ## the `ID` / `_id` suffix handling -/

theorem subUpper_append_lower {c : Nat} (hc : isUpperC c = false) (q : List Nat) :
    ∀ (p rrun : List Nat), subUpper rrun (p ++ c :: q) = subUpper rrun p ++ c :: subUpper [] q := by
  intro p
  induction p with
  | nil => intro rrun; simp [subUpper, hc]
  | cons a p ih =>
    intro rrun
    simp only [List.cons_append, subUpper]
    split
    · exact ih _
    · rw [ih]; simp

theorem subUpper_append_under_id (p : List Nat) :
    subUpper [] (p ++ [95, 105, 100]) = subUpper [] p ++ [95, 105, 100] := by
  rw [subUpper_append_lower (by decide)]
  rfl

theorem stripUnder_subUpper {s : List Nat} (q : List Nat) (hu : 95 ∉ s) (hs : startsUpper s = false) (hne : s ≠ []) :
    stripUnder (subUpper [] s ++ q) = subUpper [] s ++ q := by
  match s with
  | [] => exact absurd rfl hne
  | c :: cs =>
    have hc95 : c ≠ 95 := fun h => hu (by simp [h])
    rw [subUpper_nil_lower cs hs]
    simp [stripUnder, hc95]

/-! ## 1, 2: round trip and injectivity -/

/-- `dbColumnToPythonAttr (pythonAttrToDBColumn attr) = attr` in the default style, for `Camel` names -/
theorem style_roundtrip {s : List Nat} (h : Camel s = true) : underToMixed (mixedToUnder s) = s := by
  simp only [Camel, Bool.and_eq_true, Bool.not_eq_true', List.contains_eq_mem, decide_eq_false_iff_not] at h
  obtain ⟨⟨⟨h1, h2⟩, h3⟩, h4⟩ := h
  by_cases hID : endsWith s [73, 68] = true
  · obtain ⟨p, rfl⟩ := (endsWith_iff _ _).1 hID
    rw [if_pos hID, dropEnd_append p _ 2 rfl] at h4
    have hp1 : 95 ∉ p := fun h => h1 (by simp [h])
    have hpne : p ≠ [] := by rintro rfl; simp [startsUpper, isUpperC] at h2
    have hp2 : startsUpper p = false := by
      match p with
      | [] => exact absurd rfl hpne
      | c :: cs => simpa [startsUpper] using h2
    unfold mixedToUnder
    rw [if_pos hID, dropEnd_append p _ 2 rfl]
    unfold mixedToUnderCore
    rw [subUpper_append_under_id, stripUnder_subUpper _ hp1 hp2 hpne]
    unfold underToMixed
    rw [if_pos ((endsWith_iff _ _).2 ⟨_, rfl⟩), dropEnd_append _ _ 3 rfl]
    rw [subUnder_subUpper _ p (Nat.le_refl _) hp1 h4]
    rfl
  · rw [if_neg hID] at h4
    unfold mixedToUnder
    rw [if_neg hID]
    unfold mixedToUnderCore
    by_cases hne : s = []
    · subst hne; rfl
    have := stripUnder_subUpper [] h1 h2 hne
    simp only [List.append_nil] at this
    rw [this]
    unfold underToMixed
    have hno : ¬ endsWith (subUpper [] s) [95, 105, 100] = true := by
      intro hc
      have := no_under_id _ s (Nat.le_refl _) h1 h4 ((endsWith_iff_suffix _ _).1 hc)
      rw [(endsWith_iff_suffix _ _).2 this] at h3
      exact absurd h3 (by simp)
    rw [if_neg hno]
    have := subUnder_subUpper _ s (Nat.le_refl _) h1 h4 []
    simpa [subUnder] using this

/-- distinct `Camel` attribute names get distinct column names -/
theorem style_mixedToUnder_injective {a b : List Nat} (ha : Camel a = true) (hb : Camel b = true)
    (h : mixedToUnder a = mixedToUnder b) : a = b := by
  rw [← style_roundtrip ha, ← style_roundtrip hb, h]


/-! ## 3: foreign-key column naming -/

theorem stripUnder_append {x : List Nat} (q : List Nat) (hx : x ≠ []) :
    stripUnder (x ++ q) = stripUnder x ++ q := by
  match x with
  | [] => exact absurd rfl hx
  | c :: cs => simp only [List.cons_append, stripUnder]; split <;> rfl

/-- The attribute `foo` of a `ForeignKey` is stored under the attribute name `fooID`, whose column is
`foo_id`.  Needs no `Camel`; both hypotheses are necessary (`style_fk_name_empty`,
`style_fk_name_ID`). -/
theorem style_fk_name {s : List Nat} (hne : s ≠ []) (hID : endsWith s [73, 68] = false) :
    mixedToUnder (s ++ [73, 68]) = mixedToUnder s ++ [95, 105, 100] := by
  have hx : subUpper [] s ≠ [] := fun h => hne (subUpper_eq_nil _ _ h).2
  have e : endsWith (s ++ [73, 68]) [73, 68] = true := (endsWith_iff _ _).2 ⟨_, rfl⟩
  have hID' : ¬ endsWith s [73, 68] = true := by simp [hID]
  unfold mixedToUnder
  rw [if_pos e, if_neg hID', dropEnd_append s [73, 68] 2 rfl]
  unfold mixedToUnderCore
  rw [subUpper_append_under_id, stripUnder_append _ hx]

/-- the same, phrased with the style methods: `instanceAttrToIDAttr` then `pythonAttrToDBColumn`
equals `pythonAttrToDBColumn` then `tableReference` -/
theorem style_fk_name_style {attr : List Nat} (hne : attr ≠ []) (hID : endsWith attr [73, 68] = false) :
    Style.under.attrToCol (Style.attrToIDAttr attr) = Style.under.tableReference (Style.under.attrToCol attr) :=
  style_fk_name hne hID

/-- `mixedToUnder ("" ++ "ID") = "id"`, not `"_id"` -/
theorem style_fk_name_empty :
    mixedToUnder ([] ++ [73, 68]) ≠ mixedToUnder [] ++ [95, 105, 100] := by decide

/-- `mixedToUnder "aIDID" = "a_i_d_id"`, but `mixedToUnder "aID" ++ "_id" = "a_id_id"` -/
theorem style_fk_name_ID :
    mixedToUnder ([97, 73, 68] ++ [73, 68]) ≠ mixedToUnder [97, 73, 68] ++ [95, 105, 100] := by decide

/-! ## 4: the column name is a lower-case identifier -/

theorem lowIdent_lower {u : Nat} (h : isUpperC u = true) : isLowIdentC (lowerC u) = true := by
  rw [lowerC_of_upper h]
  have := isUpperC_iff.1 h
  simp [isLowIdentC, isLowerC]; omega

theorem lowIdent_of_ident {c : Nat} (h : isIdentC c = true) (hu : isUpperC c = false) : isLowIdentC c = true := by
  simpa [isIdentC, isLowIdentC, hu] using h

theorem mixedToUnderSub_lowIdent {run : List Nat} (hr : ∀ c ∈ run, isUpperC c = true) :
    ∀ c ∈ mixedToUnderSub run, isLowIdentC c = true := by
  have hm : ∀ c ∈ run.map lowerC, isLowIdentC c = true := by
    intro c hc
    obtain ⟨u, hu, rfl⟩ := List.mem_map.1 hc
    exact lowIdent_lower (hr u hu)
  intro c hc
  unfold mixedToUnderSub at hc
  simp only at hc
  split at hc
  · simp only [List.mem_cons, List.mem_append] at hc
    rcases hc with (rfl | hc) | rfl | hc
    · rfl
    · exact hm c (List.mem_of_mem_take hc)
    · rfl
    · exact hm c (List.mem_of_mem_drop hc)
  · rcases List.mem_cons.1 hc with rfl | hc
    · rfl
    · exact hm c hc

theorem flushRun_lowIdent {rrun : List Nat} (hr : ∀ c ∈ rrun, isUpperC c = true) :
    ∀ c ∈ flushRun rrun, isLowIdentC c = true := by
  intro c hc
  unfold flushRun at hc
  split at hc
  · simp at hc
  · exact mixedToUnderSub_lowIdent (fun c h => hr c (List.mem_reverse.1 h)) c hc

theorem subUpper_lowIdent : ∀ (s rrun : List Nat), (∀ c ∈ rrun, isUpperC c = true) →
    (∀ c ∈ s, isIdentC c = true) → ∀ c ∈ subUpper rrun s, isLowIdentC c = true := by
  intro s
  induction s with
  | nil => intro rrun hr _ c hc; exact flushRun_lowIdent hr c hc
  | cons a s ih =>
    intro rrun hr hs c hc
    have hs' : ∀ c ∈ s, isIdentC c = true := fun c h => hs c (List.mem_cons_of_mem _ h)
    unfold subUpper at hc
    split at hc
    · rename_i ha
      refine ih (a :: rrun) ?_ hs' c hc
      intro x hx
      rcases List.mem_cons.1 hx with rfl | hx
      · exact ha
      · exact hr x hx
    · rename_i ha
      simp only [List.mem_append, List.mem_cons] at hc
      rcases hc with hc | rfl | hc
      · exact flushRun_lowIdent hr c hc
      · exact lowIdent_of_ident (hs _ (List.mem_cons_self ..)) (bool_not_true ha)
      · exact ih [] (by simp) hs' c hc

theorem mem_stripUnder {c : Nat} : ∀ {l : List Nat}, c ∈ stripUnder l → c ∈ l
  | [], h => by simp [stripUnder] at h
  | a :: l, h => by
    simp only [stripUnder] at h
    split at h
    · exact List.mem_cons_of_mem _ h
    · exact h

theorem style_under_identchars {s : List Nat} (hs : ∀ c ∈ s, isIdentC c = true) :
    ∀ c ∈ mixedToUnder s, isLowIdentC c = true := by
  intro c hc
  unfold mixedToUnder at hc
  split at hc
  · refine subUpper_lowIdent _ [] (by simp) ?_ c (mem_stripUnder hc)
    intro x hx
    rcases List.mem_append.1 hx with hx | hx
    · exact hs x (List.mem_of_mem_take hx)
    · simp only [List.mem_cons, List.not_mem_nil, or_false] at hx
      rcases hx with rfl | rfl | rfl <;> rfl
  · exact subUpper_lowIdent _ [] (by simp) hs c (mem_stripUnder hc)

/-! ## 5: why each clause of `Camel` is there -/

/-- "fooId" and "fooID" collide (both `"foo_id"`) -/
theorem style_collision_Id :
    mixedToUnder [102, 111, 111, 73, 100] = mixedToUnder [102, 111, 111, 73, 68] := by decide

/-- "aBCDe" and "aBcDe" collide (both `"a_bc_de"`) -/
theorem style_collision_run3 :
    mixedToUnder [97, 66, 67, 68, 101] = mixedToUnder [97, 66, 99, 68, 101] := by decide

/-- "a_b" and "aB" collide (both `"a_b"`) -/
theorem style_collision_underscore :
    mixedToUnder [97, 95, 98] = mixedToUnder [97, 66] := by decide

/-- "Ab", "_ab" and "ab" collide (all `"ab"`) -/
theorem style_collision_leading :
    mixedToUnder [65, 98] = mixedToUnder [97, 98] ∧ mixedToUnder [95, 97, 98] = mixedToUnder [97, 98] := by
  decide

/-- the round trip really fails on one representative per clause: "a_b", "Ab", "fooId", "aBCDe" -/
theorem style_roundtrip_fails :
    underToMixed (mixedToUnder [97, 95, 98]) ≠ [97, 95, 98] ∧
    underToMixed (mixedToUnder [65, 98]) ≠ [65, 98] ∧
    underToMixed (mixedToUnder [102, 111, 111, 73, 100]) ≠ [102, 111, 111, 73, 100] ∧
    underToMixed (mixedToUnder [97, 66, 67, 68, 101]) ≠ [97, 66, 67, 68, 101] := by decide

/-- `Camel` accepts "fooBarID", "aBCID" (a run of 4 capitals, the last two being the `ID` suffix),
"a1B2", "" -/
theorem style_camel_examples :
    Camel [102, 111, 111, 66, 97, 114, 73, 68] = true ∧ Camel [97, 66, 67, 73, 68] = true ∧
    Camel [97, 49, 66, 50] = true ∧ Camel [] = true := by decide

end SqlObjVerif.Ddl
