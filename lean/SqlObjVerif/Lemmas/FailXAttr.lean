import SqlObjVerif.Lemmas.PyFail
/-!
C06, attribute assignment `obj.col = v`: the translated `_SO_setValue` under the schedule σ = (`inj`, validator
oracle) = the hand-compiled tree `setProg sch c id [(col, v)] [] .done` under σ — outcome, statement log, post-state;
eager class (UPDATE, then the cached value) and lazy class (pending value, dirty).
-/
namespace SqlObjVerif.PyFail
open SqlObjVerif.PyMain (PV FnKind ofVal)
open SqlObjVerif.PyMain.Extracted
open SqlObjVerif.Fail (Err Schema Inj Extra clsOf applyMem In)

theorem setValueF_eq (sch : Schema) (inj : Option Inj) (props : Nat → Extra) (s : Fail.St) (c id col : Nat) (v : In)
    (hcol : col < (clsOf sch c).cols.length) :
    viewObs (setValueF (mkW sch inj props s c id (vqOf [(col, v)])) col v) =
      some (runObs (Fail.run sch inj (Fail.setProg sch c id [(col, v)] [] .done) s)) := by
  unfold setValueF setValueProg setValue_nlocals setValue_nlists setValue_ndicts
  have hb : Nat.blt col (clsOf sch c).cols.length = true := by simpa [Nat.blt_eq] using hcol
  cases hl : (clsOf sch c).lazy
  · cases v
    · pfwith [vqOf, In.fromOk, In.toOk, In.val]
      simp [viewObs, Outcome.view, runObs, Fail.run, Fail.setProg, Fail.validates, Fail.asgOf, Fail.extras, hl, In.fromOk]
    · pfwith [vqOf, In.fromOk, In.toOk, In.val]
      simp [viewObs, Outcome.view, runObs, Fail.run, Fail.setProg, Fail.validates, Fail.asgOf, Fail.extras, hl, In.fromOk, In.toOk]
    · rename_i v
      simp only [Fail.setProg, hl, Fail.validates, Fail.asgOf, Fail.extras, List.foldr, List.map, In.fromOk, In.toOk, In.val,
        Fail.sortAsg, Fail.insertAsg, List.isEmpty, Bool.false_eq_true, if_false]
      cases hs : sendStmt sch inj (Fail.Stmt.update c id [(col, v)]) s with
      | mk s1 r =>
      cases r
      · pfwith [vqOf, In.fromOk, In.toOk, In.val, hl, hb, hcol, hs]
        frun [hs]
        simp [viewObs, Outcome.view, runObs, FW.setS, FW.setVal, FW.mem, obs]
      · pfwith [vqOf, In.fromOk, In.toOk, In.val, hl, hb, hcol, hs]
        frun [hs]
        simp [viewObs, Outcome.view, runObs, FW.setS, obs]
  · cases v
    · pfwith [vqOf, In.fromOk, In.toOk, In.val]
      simp [viewObs, Outcome.view, runObs, Fail.run, Fail.setProg, Fail.validates, Fail.asgOf, Fail.extras, hl, In.fromOk]
    · pfwith [vqOf, In.fromOk, In.toOk, In.val]
      simp [viewObs, Outcome.view, runObs, Fail.run, Fail.setProg, Fail.validates, Fail.asgOf, Fail.extras, hl, In.fromOk, In.toOk]
    · rename_i v
      simp only [Fail.setProg, hl, Fail.validates, Fail.asgOf, Fail.extras, List.foldr, List.map, In.fromOk, In.toOk, In.val,
        Fail.precheck, Fail.hasUnknown, List.any, List.isEmpty, Bool.false_eq_true, if_false, if_true]
      pfwith [vqOf, In.fromOk, In.toOk, In.val, hl, hb, hcol]
      frun []
      simp [viewObs, Outcome.view, runObs, FW.setVal, FW.mem, FW.setDirty, FW.updCV, obs]
      simp only [applyMem, mapInst_mapInst']

end SqlObjVerif.PyFail
