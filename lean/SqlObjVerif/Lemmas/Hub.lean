import SqlObjVerif.Model.Hub
/-! # Lemmas about the `Hub` model -/
namespace SqlObjVerif.Hub

theorem Hub.ext' {a b : Hub} (h1 : a.thread = b.thread) (h2 : a.proc = b.proc) : a = b := by
  cases a; cases b; simp_all

/-- binding at the level a binding was read from makes the thread resolve to the new binding at that level -/
theorem resolve_bind (h : Hub) (tid : Nat) (lvl : Level) (old new : CRef)
    (hr : h.resolve tid = some (lvl, old)) : (h.bind lvl tid new).resolve tid = some (lvl, new) := by
  unfold Hub.resolve at hr ⊢
  cases lvl with
  | thread => simp [Hub.bind]
  | process =>
    cases ht : h.thread tid with
    | some c => simp [ht] at hr
    | none => simp [Hub.bind, ht]

/-- writing the old binding back at the same level restores the hub exactly -/
theorem bind_bind_restore (h : Hub) (tid : Nat) (lvl : Level) (old new : CRef)
    (hr : h.resolve tid = some (lvl, old)) : (h.bind lvl tid new).bind lvl tid old = h := by
  unfold Hub.resolve at hr
  cases lvl with
  | thread =>
    cases ht : h.thread tid with
    | none =>
      rw [ht] at hr
      cases hp : h.proc <;> simp [hp] at hr
    | some c0 =>
      simp [ht] at hr
      apply Hub.ext'
      · funext x
        simp only [Hub.bind, upd_apply]
        split
        · rename_i hx; rw [hx, ht, hr]
        · rfl
      · rfl
  | process =>
    cases ht : h.thread tid with
    | some c0 => simp [ht] at hr
    | none =>
      simp only [ht] at hr
      cases hp : h.proc with
      | none => simp [hp] at hr
      | some c1 =>
        simp [hp] at hr
        apply Hub.ext'
        · rfl
        · simp [Hub.bind, hp, hr]

/-- inside the transaction binding every step of the body works on the transaction's view only -/
theorem runSteps_tx (h : Hub) (tid : Nat) (lvl : Level) (c : Nat)
    (hr : h.resolve tid = some (lvl, .tx c)) (r : Run) (steps : List Step) :
    (runSteps h tid r steps).1.db = r.db ∧
    (match applySteps r.txv steps with
     | .ok v => runSteps h tid r steps = ({ r with txv := v }, none)
     | .error e => (runSteps h tid r steps).2 = some e) := by
  induction steps generalizing r with
  | nil => simp [runSteps, applySteps]
  | cons st rest ih =>
    simp only [runSteps, runStep, hr, applySteps]
    cases hs : applyStep r.txv st with
    | error e => simp
    | ok v =>
      simp only
      have := ih { r with txv := v }
      exact this

theorem upd_upd_restore (f : Nat → Nat) (c : Nat) : upd (upd f c (f c + 1)) c ((upd f c (f c + 1)) c - 1) = f := by
  funext x
  simp only [upd_apply]
  split
  · rename_i hx; subst hx; simp
  · rfl

end SqlObjVerif.Hub
