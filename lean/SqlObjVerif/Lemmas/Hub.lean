import SqlObjVerif.Model.Hub
/-! # Lemmas about the `Hub` model -/
namespace SqlObjVerif.Hub

theorem Hub.ext' {a b : Hub} (h1 : a.thread = b.thread) (h2 : a.proc = b.proc) : a = b := by
  cases a; cases b; simp_all

/-- binding at the level a binding was read from makes the thread resolve to the new binding at that level -/
theorem resolve_bind (h : Hub) (tid : Nat) (lvl : Level) (old new : CRef)
    (hr : h.resolve tid = some (lvl, old)) : (h.bind lvl tid new).resolve tid = some (lvl, new) := by
  unfold Hub.resolve at hr ⊢
  cases lvl with
  | thread => simp [Hub.bind]
  | process =>
    cases ht : h.thread tid with
    | some c => simp [ht] at hr
    | none => simp [Hub.bind, ht]

/-- writing the old binding back at the same level restores the hub exactly -/
theorem bind_bind_restore (h : Hub) (tid : Nat) (lvl : Level) (old new : CRef)
    (hr : h.resolve tid = some (lvl, old)) : (h.bind lvl tid new).bind lvl tid old = h := by
  unfold Hub.resolve at hr
  cases lvl with
  | thread =>
    cases ht : h.thread tid with
    | none =>
      rw [ht] at hr
      cases hp : h.proc <;> simp [hp] at hr
    | some c0 =>
      simp [ht] at hr
      apply Hub.ext'
      · funext x
        simp only [Hub.bind, upd_apply]
        split
        · rename_i hx; rw [hx, ht, hr]
        · rfl
      · rfl
  | process =>
    cases ht : h.thread tid with
    | some c0 => simp [ht] at hr
    | none =>
      simp only [ht] at hr
      cases hp : h.proc with
      | none => simp [hp] at hr
      | some c1 =>
        simp [hp] at hr
        apply Hub.ext'
        · rfl
        · simp [Hub.bind, hp, hr]

/-- inside the transaction binding every step of the body works on the transaction's view only -/
theorem runSteps_tx (h : Hub) (tid : Nat) (lvl : Level) (c : Nat)
    (hr : h.resolve tid = some (lvl, .tx c)) (r : Run) (steps : List Step) :
    (runSteps h tid r steps).1.db = r.db ∧
    (match applySteps r.txv steps with
     | .ok v => runSteps h tid r steps = ({ r with txv := v }, none)
     | .error e => (runSteps h tid r steps).2 = some e) := by
  induction steps generalizing r with
  | nil => simp [runSteps, applySteps]
  | cons st rest ih =>
    simp only [runSteps, runStep, hr, applySteps]
    cases hs : applyStep r.txv st with
    | error e => simp
    | ok v =>
      simp only
      have := ih { r with txv := v }
      exact this

theorem upd_upd_restore (f : Nat → Nat) (c : Nat) : upd (upd f c (f c + 1)) c ((upd f c (f c + 1)) c - 1) = f := by
  funext x
  simp only [upd_apply]
  split
  · rename_i hx; subst hx; simp
  · rfl

/-! ### overlapping calls -/

/-- invariant of every interleaving, relative to the hub `h0` before any call: a thread outside a call has its
    original binding; a thread inside a call is bound (thread level) to its own transaction and its frame remembers its
    original binding; the process binding is never touched -/
structure OvInv (h0 : Hub) (s : HS) : Prop where
  idle : ∀ t, s.frames t = none → s.hub.thread t = h0.thread t
  busy : ∀ t f, s.frames t = some f →
    f.lvl = .thread ∧ s.hub.thread t = some (.tx f.c) ∧ f.old = .base f.c ∧ h0.thread t = some (.base f.c)
  proc : s.hub.proc = h0.proc

theorem OvInv.step {h0 : Hub} {s : HS} (hi : OvInv h0 s) (ev : Ev)
    (hown : ∃ c, h0.thread ev.tid = some (.base c)) : OvInv h0 (s.step ev) := by
  obtain ⟨c0, hc0⟩ := hown
  cases ev with
  | enter tid =>
    simp only [Ev.tid] at hc0
    simp only [HS.step, HS.enter]
    cases hf : s.frames tid with
    | some f => simp only; exact hi
    | none =>
      have hth := hi.idle tid hf
      have hres : s.hub.resolve tid = some (.thread, .base c0) := by simp [Hub.resolve, hth, hc0]
      simp only [hres]
      refine ⟨?_, ?_, ?_⟩
      · intro t ht
        simp only [upd_apply] at ht
        by_cases htt : t = tid
        · simp [htt] at ht
        · simp only [htt, if_false] at ht
          simp only [Hub.bind, upd_apply, htt, if_false]
          exact hi.idle t ht
      · intro t f ht
        simp only [upd_apply] at ht
        by_cases htt : t = tid
        · subst htt
          simp only [if_true, Option.some.injEq] at ht
          subst ht
          simp [Hub.bind, hc0]
        · simp only [htt, if_false] at ht
          simp only [Hub.bind, upd_apply, htt, if_false]
          exact hi.busy t f ht
      · simp [Hub.bind]; exact hi.proc
  | leave tid =>
    simp only [HS.step, HS.leave]
    cases hf : s.frames tid with
    | none => simp only; exact hi
    | some f =>
      obtain ⟨hl, hth, hold, h0t⟩ := hi.busy tid f hf
      simp only [hl, hold]
      refine ⟨?_, ?_, ?_⟩
      · intro t ht
        simp only [upd_apply] at ht
        by_cases htt : t = tid
        · subst htt; simp [Hub.bind, h0t]
        · simp only [htt, if_false] at ht
          simp only [Hub.bind, upd_apply, htt, if_false]
          exact hi.idle t ht
      · intro t f' ht
        simp only [upd_apply] at ht
        by_cases htt : t = tid
        · simp [htt] at ht
        · simp only [htt, if_false] at ht
          simp only [Hub.bind, upd_apply, htt, if_false]
          exact hi.busy t f' ht
      · simp [Hub.bind]; exact hi.proc

theorem OvInv.run {h0 : Hub} {s : HS} (hi : OvInv h0 s) (evs : List Ev)
    (hown : ∀ ev ∈ evs, ∃ c, h0.thread ev.tid = some (.base c)) : OvInv h0 (s.run evs) := by
  induction evs generalizing s with
  | nil => exact hi
  | cons ev evs ih =>
    simp only [HS.run, List.foldl_cons]
    exact ih (hi.step ev (hown ev (by simp))) (fun e he => hown e (by simp [he]))

end SqlObjVerif.Hub
