import SqlObjVerif.Lemmas.CodecXBase
import SqlObjVerif.Lemmas.Codec
/-!
# CodecX — the translated Decimal and Binary validators = the hand model
-/
namespace SqlObjVerif.PyCodec

open SqlObjVerif.Codec (Str PyVal FTok)
open Extracted

/-! ### DecimalValidator -/

theorem decToPython_eq (v : PyVal) : runV Cfg.base decToPython v = some (Codec.toPy .decimal v) := by
  cases v <;> rfl

theorem decFromPython_eq (v : PyVal) : runV Cfg.base decFromPython v = some (Codec.toDb .decimal v) := by
  cases v <;> rfl

/-! ### BinaryValidator (sqlite) -/

theorem b64chr_lt (i : Nat) : Codec.b64chr i < 128 := by
  unfold Codec.b64chr
  split
  · omega
  · split
    · omega
    · split
      · omega
      · split <;> omega

theorem isAscii_b64enc : ∀ b : Str, Codec.isAscii (Codec.b64enc b) = true
  | [] => by simp [Codec.b64enc, Codec.isAscii]
  | [a] => by simp [Codec.b64enc, Codec.isAscii, b64chr_lt]
  | [a, b] => by simp [Codec.b64enc, Codec.isAscii, b64chr_lt]
  | a :: b :: c :: rest => by
    have ih := isAscii_b64enc rest
    simp only [Codec.isAscii] at ih
    simp [Codec.b64enc, Codec.isAscii, b64chr_lt, ih]

theorem binFrom_bytes (b : Str) : runV Cfg.base binFromPython (.bytes b) = some (Codec.binFromPython (.bytes b)) := by
  pyxw [binFromPython, binFromPython_s0, binFromPython_s1, binFromPython_s2, binFromPython_s3, binFromPython_s4,
    binFromPython_s5, Codec.binFromPython, isAscii_b64enc]

theorem binFromPython_eq (v : PyVal) : runV Cfg.base binFromPython v = some (Codec.binFromPython v) := by
  cases v with
  | bytes b => exact binFrom_bytes b
  | _ => rfl

theorem binTo_str (s : Str) : runV Cfg.base binToPython (.str s) = some (Codec.binToPython (.str s)) := by
  by_cases ha : Codec.isAscii s = true
  · cases hd : Codec.b64dec s <;>
    pyxw [binToPython, binToPython_s0, binToPython_s1, binToPython_s2, binToPython_s3, binToPython_s4, binToPython_s5,
      Codec.binToPython, ha, hd]
  · pyxw [binToPython, binToPython_s0, binToPython_s1, binToPython_s2, binToPython_s3, binToPython_s4, binToPython_s5,
      Codec.binToPython, ha]

theorem binToPython_eq (v : PyVal) : runV Cfg.base binToPython v = some (Codec.binToPython v) := by
  cases v with
  | str s => exact binTo_str s
  | _ => rfl

end SqlObjVerif.PyCodec
