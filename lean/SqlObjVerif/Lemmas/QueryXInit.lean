import SqlObjVerif.Lemmas.QueryX
/-!
# C11 — the translated `SelectResults.__init__` (`init_translated`)

One lemma per statement (or group of statements) of the translated constructor, in invariant style (`InitSt`: `self`
with the shared `ops` dict, `sourceClass`, `clause`, `clauseTables`, `ops` stay in step), and the chain.
-/
namespace SqlObjVerif.QueryX
open SqlObjVerif.PyQ
open SqlObjVerif.PyQ.Extracted

def optClauseV (sr : Val → Str) (sch : Schema) : Option Query.Expr → Val
  | none => .none
  | some e => clauseV sr sch e

@[simp] theorem clauseV_isSql (sr : Val → Str) (sch : Schema) (e : Query.Expr) : isSqlV (clauseV sr sch e) = true := by
  cases e <;> simp [clauseV, sqlOpV, constV, isSqlExprCls]

@[simp] theorem clauseV_notNone (sr : Val → Str) (sch : Schema) (e : Query.Expr) : isNoneV (clauseV sr sch e) = false := by
  cases e <;> simp [clauseV, sqlOpV, constV]

@[simp] theorem clauseV_notStr (sr : Val → Str) (sch : Schema) (e : Query.Expr) : isStrV (clauseV sr sch e) = false := by
  cases e <;> simp [clauseV, sqlOpV, constV]

def Block.app : Block → Block → Block
  | .nil, b => b
  | .cons s r, b => .cons s (Block.app r b)

theorem Res.seq_assoc (r : Res) (k1 k2 : Env → Res) : (r.seq k1).seq k2 = r.seq (fun e => (k1 e).seq k2) := by
  cases r <;> simp [Res.seq]

theorem exec_app (I : Iface) : ∀ (b1 b2 : Block) (env : Env),
    Block.exec I env (Block.app b1 b2) = (Block.exec I env b1).seq fun e => Block.exec I e b2
  | .nil, b2, env => by simp [Block.app, exec_nil, Res.seq_norm]
  | .cons s r, b2, env => by
    simp only [Block.app, exec_cons, Res.seq_assoc]
    congr 1
    funext e
    exact exec_app I r b2 e

/-- the locals of `__init__` that stay in step: `self` (with `ops` shared), `sourceClass`, `clause`, `clauseTables`, `ops` -/
structure InitSt (env : Env) (sc cv ct : Val) (d : List (Str × Val)) : Prop where
  h0 : env 0 = some (.obj "SelectResults" [("sourceClass", sc), ("clause", cv), ("ops", .dict d)])
  h1 : env 1 = some sc
  h2 : env 2 = some cv
  h3 : env 3 = some ct
  h4 : env 4 = some (.dict d)

section
variable (sr : Val → Str) (sch : Schema) (P : Params) (fnRec : String → List Val → List (Str × Val) → R Val)
  (cm : Val → String → List Val → List (Str × Val) → R Val) (cv : Val → List Val → R Val)

/-- the clause argument `cin` of `__init__` and the clause `e` it stands for: `None` (all rows), an expression object,
    or the TEXT of a keyword clause (what `selectBy` passes; any text other than the word `all`) -/
inductive ClauseIn : Val → Query.Expr → Prop where
  | none : ClauseIn .none .tt
  | expr (e : Query.Expr) : ClauseIn (clauseV sr sch e) e
  | text (conds : List Query.Cond) (h : condsText sr sch conds ≠ ['a', 'l', 'l']) :
      ClauseIn (.str (condsText sr sch conds)) (.kw conds)

theorem ClauseIn.ofOpt (cl : Option Query.Expr) : ClauseIn sr sch (optClauseV sr sch cl) (cl.getD .tt) := by
  cases cl with
  | none => exact .none
  | some e => exact .expr e

/-- statements 0–4: the clause is normalised (a text is grouped: `SQLConstant('(%s)' % text)`), `sourceClass`, `clause`,
    `ops` are stored -/
theorem init_s0_4 (cin : Val) (e : Query.Expr) (hin : ClauseIn sr sch cin e) (ct : Val) (d : List (Str × Val)) (k : Env → Res) :
    ∃ env, InitSt env clsV (clauseV sr sch e) ct d ∧
    (Block.exec (qIface sch P fnRec cm cv) (Env.ofArgs [.obj "SelectResults" [], clsV, cin, ct, .dict d])
      (.cons srInit_s0 (.cons srInit_s1 (.cons srInit_s2 (.cons srInit_s3 (.cons srInit_s4 .nil)))))).seq k = k env := by
  unfold srInit_s0 srInit_s1 srInit_s2 srInit_s3 srInit_s4
  cases hin with
  | none =>
    pyqw [setAttrOf, fset]
    refine ⟨_, ?_, rfl⟩
    constructor <;> simp [clauseV]
  | expr e =>
    pyqw [setAttrOf, fset]
    refine ⟨_, ?_, rfl⟩
    constructor <;> simp
  | text conds h =>
    have h' : (condsText sr sch conds == ['a', 'l', 'l']) = false := by simpa using h
    pyqw [setAttrOf, fset, h', constV]
    refine ⟨_, ?_, rfl⟩
    constructor <;> simp [clauseV, constV]

/-- `ops` after the default order was filled in -/
def opsDefault (d : List (Str × Val)) : List (Str × Val) :=
  if isGlobV "NoDefault" ((aget kOrderBy d).getD (.glob "NoDefault")) = true
  then aset d kOrderBy (OrderBy.toVal sch sch.defaultOrder) else d

theorem init_s5 (env : Env) (cl ct : Val) (d : List (Str × Val)) (h : InitSt env clsV cl ct d) :
    ∃ env', Stmt.exec (qIface sch P fnRec cm cv) env srInit_s5 = .norm env' ∧ InitSt env' clsV cl ct (opsDefault sch d) := by
  obtain ⟨h0, h1, h2, h3, h4⟩ := h
  unfold srInit_s5 opsDefault
  by_cases hc : isGlobV "NoDefault" ((aget kOrderBy d).getD (.glob "NoDefault")) = true
  · simp only [kOrderBy] at hc
    pyqw [setItemOf, rebind, syncLink, fset, hc, kOrderBy]
    constructor <;> simp [*]
  · simp only [kOrderBy] at hc
    pyqw [hc, kOrderBy]
    exact ⟨h0, h1, h2, h3, h4⟩

theorem init_s6 (env : Env) (cl ct v : Val) (d : List (Str × Val)) (h : InitSt env clsV cl ct d)
    (hv : aget kOrderBy d = some v) :
    ∃ env', Stmt.exec (qIface sch P fnRec cm cv) env srInit_s6 = .norm env' ∧ InitSt env' clsV cl ct d ∧ env' 5 = some v := by
  obtain ⟨h0, h1, h2, h3, h4⟩ := h
  unfold srInit_s6
  simp only [kOrderBy] at hv
  pyqw [hv]
  constructor <;> simp [*]

/-- the method `_mungeOrderBy` (of an object of the class) is the translated one -/
def MungeIs : Prop :=
  ∀ (c : String) (fs : List (String × Val)) (a : Val), aget "sourceClass" fs = some clsV →
    cm (.obj c fs) "_mungeOrderBy" [a] [] = toR (mungeX (qIface sch P fnRec cm cv) (.obj c fs) a)

theorem mapR_munge (hm : MungeIs sch P fnRec cm cv) (c : String) (fs : List (String × Val))
    (hsc : aget "sourceClass" fs = some clsV) (l : List Query.OrderArg) :
    mapR (fun x => cm (.obj c fs) "_mungeOrderBy" [x] []) (l.map (OrderArg.toVal sch))
      = .ok (l.map fun a => OExpr.toVal sch (Query.mungeOrderBy sch a)) := by
  have hm' : ∀ (c : String) (fs : List (String × Val)) (a : Val), aget "sourceClass" fs = some clsV →
    cm (.obj c fs) "_mungeOrderBy" [a] [] = toR (mungeX (qIface sch P fnRec cm cv) (.obj c fs) a) := hm
  induction l with
  | nil => rfl
  | cons a l ih =>
    simp only [List.map_cons, mapR, ih]
    rw [hm' _ _ _ hsc, munge_translated sch P fnRec cm cv c fs hsc a]
    simp [toR]

theorem mungeAll_many (k : Query.SeqKind) (l : List Query.OrderArg) :
    Query.mungeAll sch (.many k l) = .many (l.map (Query.mungeOrderBy sch)) := by
  cases k <;> simp [Query.mungeAll, Query.mungeSeq, Query.Extracted.mungedSeqKinds]

theorem init_s7 (hm : MungeIs sch P fnRec cm cv) (env : Env) (cl ct : Val) (d : List (Str × Val))
    (h : InitSt env clsV cl ct d) (o : Query.OrderBy) (h5 : env 5 = some (OrderBy.toVal sch o)) :
    Stmt.exec (qIface sch P fnRec cm cv) env srInit_s7 = .norm (env.put 5 (DbOrder.toVal sch (Query.mungeAll sch o))) := by
  obtain ⟨h0, h1, h2, h3, h4⟩ := h
  unfold srInit_s7
  have hsc : aget "sourceClass" [("sourceClass", clsV), ("clause", cl), ("ops", Val.dict d)] = some clsV := rfl
  cases o with
  | none =>
    pyqw [OrderBy.toVal, Query.mungeAll, DbOrder.toVal]
    rw [show cm _ "_mungeOrderBy" [Val.none] [] = _ from hm _ _ _ hsc]
    unfold mungeX run mungeOrderBy mungeOrderBy_s0 mungeOrderBy_s1
    pyqw [toR]
  | one a =>
    pyqw [OrderBy.toVal, Query.mungeAll, DbOrder.toVal]
    cases a with
    | str s =>
      simp only [OrderArg.toVal, isStrV_str, isTupleV_str, isListV_str, Bool.or_false, Bool.false_eq_true, if_false]
      rw [show cm _ "_mungeOrderBy" [Val.str s] [] = _ from hm _ _ _ hsc, munge_str sch P fnRec cm cv _ _ hsc s]
      simp [toR, Res.seq_norm]
    | expr e =>
      have : isTupleV (OExpr.toVal sch e) = false ∧ isListV (OExpr.toVal sch e) = false := by
        cases e <;> simp [OExpr.toVal, fieldV, constV, descV]
      simp only [OrderArg.toVal, this, Bool.or_false, Bool.false_eq_true, if_false]
      rw [show cm _ "_mungeOrderBy" [OExpr.toVal sch e] [] = _ from hm _ _ _ hsc, munge_expr sch P fnRec cm cv _ e]
      simp [toR, Res.seq_norm, Query.mungeOrderBy]
  | many k l =>
    rw [mungeAll_many]
    cases k <;> pyqw [OrderBy.toVal, DbOrder.toVal, mapR_munge sch P fnRec cm cv hm _ _ hsc l] <;> rfl

theorem init_s8 (env : Env) (cl ct v : Val) (d : List (Str × Val)) (h : InitSt env clsV cl ct d) (h5 : env 5 = some v) :
    ∃ env', Stmt.exec (qIface sch P fnRec cm cv) env srInit_s8 = .norm env' ∧ InitSt env' clsV cl ct (aset d kDbOrderBy v) := by
  obtain ⟨h0, h1, h2, h3, h4⟩ := h
  unfold srInit_s8
  pyqw [setItemOf, rebind, syncLink, fset, kDbOrderBy]
  constructor <;> simp [*]

/-- `ops` after a `connection=None` was dropped -/
def opsConn (d : List (Str × Val)) : List (Str × Val) :=
  match aget kConnection d with
  | some .none => adel d kConnection
  | _ => d

theorem init_s9 (env : Env) (cl ct : Val) (d : List (Str × Val)) (h : InitSt env clsV cl ct d) :
    ∃ env', Stmt.exec (qIface sch P fnRec cm cv) env srInit_s9 = .norm env' ∧ InitSt env' clsV cl ct (opsConn d) := by
  obtain ⟨h0, h1, h2, h3, h4⟩ := h
  unfold srInit_s9 opsConn
  cases hc : aget kConnection d with
  | none =>
    simp only [kConnection] at hc
    pyqw [hc]
    exact ⟨h0, h1, h2, h3, h4⟩
  | some v =>
    simp only [kConnection] at hc
    cases v <;> first
      | (pyqw [hc]; exact ⟨h0, h1, h2, h3, h4⟩)
      | (pyqw [hc, delItemOf, rebind, syncLink, fset, kConnection]; constructor <;> simp [*])

theorem init_s10 (env : Env) (cl ct : Val) (d : List (Str × Val)) (h : InitSt env clsV cl ct d)
    (hl : truthy ((aget kLimit d).getD .none) = false) :
    Stmt.exec (qIface sch P fnRec cm cv) env srInit_s10 = .norm env := by
  obtain ⟨h0, h1, h2, h3, h4⟩ := h
  unfold srInit_s10
  simp only [kLimit] at hl
  pyqw [hl]

theorem init_s11 (env : Env) (cl ct conn dbn : Val) (d : List (Str × Val)) (h : InitSt env clsV cl ct d)
    (hgc : cm (.obj "SelectResults" [("sourceClass", clsV), ("clause", cl), ("ops", .dict d)]) "_getConnection" [] [] = .ok conn)
    (hdb : attrOf (qIface sch P fnRec cm cv) conn "dbName" = .ok dbn) :
    Stmt.exec (qIface sch P fnRec cm cv) env srInit_s11 = .norm (env.put 6 (.obj "set" (P.tablesUsed cl dbn))) := by
  obtain ⟨h0, h1, h2, h3, h4⟩ := h
  unfold srInit_s11
  pyqw [hgc, hdb]

theorem init_s12 (env : Env) (ct : Val) (h3 : env 3 = some ct) (hct : truthy ct = false) :
    Stmt.exec (qIface sch P fnRec cm cv) env srInit_s12 = .norm env := by
  unfold srInit_s12
  pyqw [hct]

theorem init_s13_14 (env : Env) (cl ct : Val) (ts : List (String × Val)) (d : List (Str × Val)) (h : InitSt env clsV cl ct d)
    (h6 : env 6 = some (.obj "set" ts)) :
    (Block.exec (qIface sch P fnRec cm cv) env (.cons srInit_s13 (.cons srInit_s14 .nil))).view =
      (.ret .none, some (srObj clsV cl (.dict d) ct (.list (P.listOf (.obj "set" ts) ++ [.str sch.table])))) := by
  obtain ⟨h0, h1, h2, h3, h4⟩ := h
  unfold srInit_s13 srInit_s14
  pyqw [setAttrOf, fset, Res.view, Res.self, srObj]

/-- the `ops` dict `__init__` leaves behind -/
def initOps (d : List (Str × Val)) (o : Query.OrderBy) : List (Str × Val) :=
  opsConn (aset (opsDefault sch d) kDbOrderBy (DbOrder.toVal sch (Query.mungeAll sch o)))

/-- **`SelectResults.__init__`** (window keywords left out: C10; `clauseTables` empty), for every kind of clause
    argument: `None`, an expression, a keyword-clause text -/
theorem init_translated_gen (hm : MungeIs sch P fnRec cm cv) (cin : Val) (e : Query.Expr) (hin : ClauseIn sr sch cin e)
    (ct : Val) (hct : truthy ct = false)
    (d : List (Str × Val)) (o : Query.OrderBy) (conn dbn : Val)
    (ho : aget kOrderBy (opsDefault sch d) = some (OrderBy.toVal sch o))
    (hl : truthy ((aget kLimit (initOps sch d o)).getD .none) = false)
    (hgc : cm (.obj "SelectResults" [("sourceClass", clsV), ("clause", clauseV sr sch e),
      ("ops", .dict (initOps sch d o))]) "_getConnection" [] [] = .ok conn)
    (hdb : attrOf (qIface sch P fnRec cm cv) conn "dbName" = .ok dbn) :
    initX (qIface sch P fnRec cm cv) clsV cin ct d =
      (.ret .none, some (srObj clsV (clauseV sr sch e) (.dict (initOps sch d o)) ct
        (.list (P.listOf (.obj "set" (P.tablesUsed (clauseV sr sch e) dbn)) ++ [.str sch.table])))) := by
  unfold initX runSelf srInit
  obtain ⟨e4, i4, h04⟩ := init_s0_4 sr sch P fnRec cm cv cin e hin ct d (fun env' => Block.exec (qIface sch P fnRec cm cv) env'
    (.cons srInit_s5 (.cons srInit_s6 (.cons srInit_s7 (.cons srInit_s8 (.cons srInit_s9 (.cons srInit_s10
      (.cons srInit_s11 (.cons srInit_s12 (.cons srInit_s13 (.cons srInit_s14 .nil)))))))))))
  obtain ⟨e5, x5, i5⟩ := init_s5 sch P fnRec cm cv e4 _ ct d i4
  obtain ⟨e6, x6, i6, v6⟩ := init_s6 sch P fnRec cm cv e5 _ ct _ _ i5 ho
  have x7 := init_s7 sch P fnRec cm cv hm e6 _ ct _ i6 o v6
  have i7 : InitSt (e6.put 5 (DbOrder.toVal sch (Query.mungeAll sch o))) clsV (clauseV sr sch e) ct
      (opsDefault sch d) := by
    obtain ⟨h0, h1, h2, h3, h4⟩ := i6
    constructor <;> simp [*]
  obtain ⟨e8, x8, i8⟩ := init_s8 sch P fnRec cm cv _ _ ct _ _ i7 rfl
  obtain ⟨e9, x9, i9⟩ := init_s9 sch P fnRec cm cv e8 _ ct _ i8
  have x10 := init_s10 sch P fnRec cm cv e9 _ ct _ i9 hl
  have x11 := init_s11 sch P fnRec cm cv e9 _ ct conn dbn _ i9 hgc hdb
  have x12 := init_s12 sch P fnRec cm cv (e9.put 6 (.obj "set" (P.tablesUsed (clauseV sr sch e) dbn))) ct
    (by simp [i9.h3]) hct
  have i12 : InitSt (e9.put 6 (.obj "set" (P.tablesUsed (clauseV sr sch e) dbn))) clsV
      (clauseV sr sch e) ct (initOps sch d o) := by
    obtain ⟨h0, h1, h2, h3, h4⟩ := i9
    constructor <;> simp [*, initOps]
  have x13 := init_s13_14 sch P fnRec cm cv _ _ ct _ _ i12 rfl
  show (Block.exec (qIface sch P fnRec cm cv) _ (Block.app
    (.cons srInit_s0 (.cons srInit_s1 (.cons srInit_s2 (.cons srInit_s3 (.cons srInit_s4 .nil)))))
    (.cons srInit_s5 (.cons srInit_s6 (.cons srInit_s7 (.cons srInit_s8 (.cons srInit_s9 (.cons srInit_s10
      (.cons srInit_s11 (.cons srInit_s12 (.cons srInit_s13 (.cons srInit_s14 .nil)))))))))))).view = _
  rw [exec_app, h04]
  simp only [exec_cons] at x13 ⊢
  rw [x5, Res.seq_norm, x6, Res.seq_norm, x7, Res.seq_norm, x8, Res.seq_norm, x9, Res.seq_norm, x10, Res.seq_norm,
    x11, Res.seq_norm, x12, Res.seq_norm]
  exact x13

/-- the same with the clause given as `None` / an expression object -/
theorem init_translated (hm : MungeIs sch P fnRec cm cv) (cl : Option Query.Expr) (ct : Val) (hct : truthy ct = false)
    (d : List (Str × Val)) (o : Query.OrderBy) (conn dbn : Val)
    (ho : aget kOrderBy (opsDefault sch d) = some (OrderBy.toVal sch o))
    (hl : truthy ((aget kLimit (initOps sch d o)).getD .none) = false)
    (hgc : cm (.obj "SelectResults" [("sourceClass", clsV), ("clause", clauseV sr sch (cl.getD .tt)),
      ("ops", .dict (initOps sch d o))]) "_getConnection" [] [] = .ok conn)
    (hdb : attrOf (qIface sch P fnRec cm cv) conn "dbName" = .ok dbn) :
    initX (qIface sch P fnRec cm cv) clsV (optClauseV sr sch cl) ct d =
      (.ret .none, some (srObj clsV (clauseV sr sch (cl.getD .tt)) (.dict (initOps sch d o)) ct
        (.list (P.listOf (.obj "set" (P.tablesUsed (clauseV sr sch (cl.getD .tt)) dbn)) ++ [.str sch.table])))) :=
  init_translated_gen sr sch P fnRec cm cv hm _ _ (ClauseIn.ofOpt sr sch cl) ct hct d o conn dbn ho hl hgc hdb
end
end SqlObjVerif.QueryX
