import SqlObjVerif.Lemmas.ConcXBase
/-!
# C09 — `CacheFactory.get / put / finishPut` (translated) simulate the `Conc` actions of a get, pc kind by pc kind
-/
namespace SqlObjVerif.ConcX
open SqlObjVerif.PyCache (Val Block Stmt Dict DictAttr Expr Cond dget dset ddel dhasKey)
open SqlObjVerif.PyCache.Extracted
open SqlObjVerif.PyCacheSS
open SqlObjVerif.Conc (Id Obj Op Out K Pc State AInv holds aget aset adel goto finish)

/-! ## cullCount bookkeeping (shared by `get` and `created`) -/
theorem good_ccTest (s : State) (t : Tid) (k : K) (ha : AInv s)
    (hpc : (s.th t).pc = .ccTest k) (x : XTh) (hx : ThSim s.dc (s.th t) x) : Good s t x := by
  have hnl : s.lock ≠ some t := nonholder s t ha (by rw [hpc]; rfl)
  xintro
  obtain ⟨hk, rfl, rfl⟩ := hp
  cases k <;> simp only [ccOK] at hk <;> by_cases hc : s.cc > s.freq <;> simp only [hc, if_true, if_false] <;>
    xstep [ccB, ccCK, ccVs, hnl, hk, hc] <;> xclose [hpc]

theorem good_ccRead (s : State) (t : Tid) (k : K) (ha : AInv s)
    (hpc : (s.th t).pc = .ccRead k) (x : XTh) (hx : ThSim s.dc (s.th t) x) : Good s t x := by
  have hnl : s.lock ≠ some t := nonholder s t ha (by rw [hpc]; rfl)
  xintro
  obtain ⟨hk, rfl, rfl⟩ := hp
  cases k <;> simp only [ccOK] at hk <;> xstep [ccB, ccCK, ccVs, hnl, hk] <;> xclose [hpc]

theorem good_ccWrite (s : State) (t : Tid) (k : K) (v : Nat) (ha : AInv s)
    (hpc : (s.th t).pc = .ccWrite k v) (x : XTh) (hx : ThSim s.dc (s.th t) x) : Good s t x := by
  have hnl : s.lock ≠ some t := nonholder s t ha (by rw [hpc]; rfl)
  xintro
  obtain ⟨hk, rfl, hv, rfl⟩ := hp
  have hv' : v - 1 + 1 = v := by omega
  cases k <;> simp only [ccOK] at hk <;> xstep [Conc.afterCC, ccB, ccCK, ccVs, hnl, hk, hv'] <;> xclose [hpc]

theorem good_ccReset (s : State) (t : Tid) (k : K) (ha : AInv s)
    (hpc : (s.th t).pc = .ccReset k) (x : XTh) (hx : ThSim s.dc (s.th t) x) : Good s t x := by
  have hnl : s.lock ≠ some t := nonholder s t ha (by rw [hpc]; rfl)
  xintro
  obtain ⟨hk, rfl, rfl⟩ := hp
  cases k <;> simp only [ccOK] at hk <;> xstep [ccB, ccCK, ccVs, hnl, hk] <;> xclose [hpc]

/-! ## the unlocked probe -/
theorem good_probeL (s : State) (t : Tid) (i : Id) (ha : AInv s)
    (hpc : (s.th t).pc = .probeL i) (x : XTh) (hx : ThSim s.dc (s.th t) x) : Good s t x := by
  have hnl : s.lock ≠ some t := nonholder s t ha (by rw [hpc]; rfl)
  xintro
  obtain ⟨hdc, rfl, rfl⟩ := hp
  xstep [hnl, hdc]
  xclose [hpc]

theorem good_probe (s : State) (t : Tid) (i : Id) (g : Nat) (ha : AInv s)
    (hpc : (s.th t).pc = .probe i g) (x : XTh) (hx : ThSim s.dc (s.th t) x) : Good s t x := by
  have hnl : s.lock ≠ some t := nonholder s t ha (by rw [hpc]; rfl)
  xintro
  obtain ⟨hdc, rfl, rfl⟩ := hp
  by_cases hg : g = s.gen
  · simp only [hg, if_true]
    cases h : aget s.strong i with
    | some o => dsimp only; xstep [hnl, hdc, hg, h]; xfin [hpc]
    | none => dsimp only; xstep [hnl, hdc, hg, h]; xclose [hpc]
  · simp only [hg, if_false]
    cases hm : Conc.oget s.olds g with
    | some m =>
      dsimp only
      cases h : aget m i with
      | some o => dsimp only; xstep [hnl, hdc, hg, hm, h]; xfin [hpc]
      | none => dsimp only; xstep [hnl, hdc, hg, hm, h]; xclose [hpc]
    | none =>
      dsimp only
      have hr := orelease_none _ _ hm
      xstep [hnl, hdc, hg, hm, hr, aget]
      xclose [hpc]

theorem good_acq (s : State) (t : Tid) (i : Id) (ha : AInv s)
    (hpc : (s.th t).pc = .acq i) (x : XTh) (hx : ThSim s.dc (s.th t) x) : Good s t x := by
  xintro
  obtain ⟨hdc, rfl, rfl⟩ := hp
  cases hl : s.lock with
  | none => dsimp only; xstep [hl, hdc]; xclose [hpc]
  | some u => dsimp only; xstep [hl, hdc]

/-! ## under the lock -/
theorem good_relook (s : State) (t : Tid) (i : Id) (ha : AInv s)
    (hpc : (s.th t).pc = .relook i) (x : XTh) (hx : ThSim s.dc (s.th t) x) : Good s t x := by
  have hl : s.lock = some t := (ha.holder t).1 (by rw [hpc]; rfl)
  xintro
  obtain ⟨hdc, rfl, rfl⟩ := hp
  cases h : aget s.strong i with
  | none => dsimp only; xstep [hl, hdc, h]; xclose [hpc]
  | some o => dsimp only; xstep [hl, hdc, h]; xclose [hpc]

theorem good_relRel (s : State) (t : Tid) (i : Id) (o : Obj) (ha : AInv s)
    (hpc : (s.th t).pc = .relRel i o) (x : XTh) (hx : ThSim s.dc (s.th t) x) : Good s t x := by
  have hl : s.lock = some t := (ha.holder t).1 (by rw [hpc]; rfl)
  xintro
  obtain ⟨rfl, hm⟩ := hp
  cases hdc : s.dc <;> simp only [hdc] at hm <;> subst hm <;> xstep [hl, hdc] <;> xfin [hpc]

theorem good_weakGet (s : State) (t : Tid) (i : Id) (ha : AInv s)
    (hpc : (s.th t).pc = .weakGet i) (x : XTh) (hx : ThSim s.dc (s.th t) x) : Good s t x := by
  have hl : s.lock = some t := (ha.holder t).1 (by rw [hpc]; rfl)
  xintro
  obtain ⟨hdc, rfl, rfl⟩ := hp
  cases h : aget s.weak i with
  | none => dsimp only; xstep [hl, hdc, h]; xclose [hpc]
  | some o =>
    dsimp only
    cases hal : Conc.alive s o
    · have hal' : Conc.aliveIn s.refs (s.pins ++ Conc.ovals s.olds) s.strong o = false := hal
      simp only [Bool.false_eq_true, if_false]; xstep [hl, hdc, h, hal']; xclose [hpc]
    · have hal' : Conc.aliveIn s.refs (s.pins ++ Conc.ovals s.olds) s.strong o = true := hal
      simp only [if_true]; xstep [hl, hdc, h, hal']; xclose [hpc]

theorem good_weakDel (s : State) (t : Tid) (i : Id) (o : Obj) (ha : AInv s)
    (hpc : (s.th t).pc = .weakDel i o) (x : XTh) (hx : ThSim s.dc (s.th t) x) : Good s t x := by
  have hl : s.lock = some t := (ha.holder t).1 (by rw [hpc]; rfl)
  have hn := (ha.needW t).2 i (by rw [hpc]; simp [Conc.needW])
  xintro
  obtain ⟨hdc, rfl, rfl⟩ := hp
  cases h : aget s.weak i with
  | none => exact absurd h hn
  | some p => dsimp only; xstep [hl, hdc, h]; xclose [hpc]

theorem good_weakDelDead (s : State) (t : Tid) (i : Id) (o : Obj) (ha : AInv s)
    (hpc : (s.th t).pc = .weakDelDead i o) (x : XTh) (hx : ThSim s.dc (s.th t) x) : Good s t x := by
  have hl : s.lock = some t := (ha.holder t).1 (by rw [hpc]; rfl)
  have hn := (ha.needW t).2 i (by rw [hpc]; simp [Conc.needW])
  xintro
  obtain ⟨rfl, hm⟩ := hp
  cases h : aget s.weak i with
  | none => exact absurd h hn
  | some p =>
    dsimp only
    cases hdc : s.dc <;> simp only [hdc] at hm <;> subst hm <;> xstep [hl, hdc, h] <;> xclose [hpc]

theorem good_strongSet (s : State) (t : Tid) (i : Id) (o : Obj) (ha : AInv s)
    (hpc : (s.th t).pc = .strongSet i o) (x : XTh) (hx : ThSim s.dc (s.th t) x) : Good s t x := by
  have hl : s.lock = some t := (ha.holder t).1 (by rw [hpc]; rfl)
  have hds := dset_eq_aset i o s.strong ha.skeys
  xintro
  obtain ⟨hdc, rfl, rfl⟩ := hp
  xstep [hl, hdc, hds]
  xclose [hpc]

theorem good_relSet (s : State) (t : Tid) (i : Id) (o : Obj) (ha : AInv s)
    (hpc : (s.th t).pc = .relSet i o) (x : XTh) (hx : ThSim s.dc (s.th t) x) : Good s t x := by
  have hl : s.lock = some t := (ha.holder t).1 (by rw [hpc]; rfl)
  xintro
  obtain ⟨hdc, rfl, rfl⟩ := hp
  xstep [hl, hdc]
  xfin [hpc]

/-! ## the caller's miss path: SELECT, `put`, `finishPut` -/
theorem good_select (s : State) (t : Tid) (i : Id) (ha : AInv s)
    (hpc : (s.th t).pc = .select i) (x : XTh) (hx : ThSim s.dc (s.th t) x) : Good s t x := by
  have hl : s.lock = some t := (ha.holder t).1 (by rw [hpc]; rfl)
  xintro
  obtain ⟨rfl, rfl⟩ := hp
  by_cases hi : i ∈ s.db
  · simp only [hi, if_true]
    cases hdc : s.dc <;> xstep [hl, hdc, hi] <;> xclose [hpc, hdc]
  · simp only [hi, if_false]
    xstep [hl, hi]; xclose [hpc]

theorem good_put (s : State) (t : Tid) (i : Id) (o : Obj) (ha : AInv s)
    (hpc : (s.th t).pc = .put i o) (x : XTh) (hx : ThSim s.dc (s.th t) x) : Good s t x := by
  have hl : s.lock = some t := (ha.holder t).1 (by rw [hpc]; rfl)
  have hds := dset_eq_aset i o s.strong ha.skeys
  have hdw := dset_eq_aset i o s.weak ha.wkeys
  xintro
  obtain ⟨rfl, rfl⟩ := hp
  cases hdc : s.dc
  · simp only [Bool.false_eq_true, if_false]; xstep [hl, hdc, hdw]; xclose [hpc]
  · simp only [if_true]; xstep [hl, hdc, hds]; xclose [hpc]

theorem good_finRel (s : State) (t : Tid) (i : Id) (o : Obj) (ha : AInv s)
    (hpc : (s.th t).pc = .finRel i o) (x : XTh) (hx : ThSim s.dc (s.th t) x) : Good s t x := by
  have hl : s.lock = some t := (ha.holder t).1 (by rw [hpc]; rfl)
  xintro
  obtain ⟨rfl, rfl⟩ := hp
  xstep [hl]
  xfin [hpc]

theorem good_finRelNF (s : State) (t : Tid) (i : Id) (ha : AInv s)
    (hpc : (s.th t).pc = .finRelNF i) (x : XTh) (hx : ThSim s.dc (s.th t) x) : Good s t x := by
  have hl : s.lock = some t := (ha.holder t).1 (by rw [hpc]; rfl)
  xintro
  obtain ⟨rfl, rfl⟩ := hp
  xstep [hl]
  xfin [hpc]

/-! ## doCache = False -/
theorem good_nProbe (s : State) (t : Tid) (i : Id) (ha : AInv s)
    (hpc : (s.th t).pc = .nProbe i) (x : XTh) (hx : ThSim s.dc (s.th t) x) : Good s t x := by
  have hnl : s.lock ≠ some t := nonholder s t ha (by rw [hpc]; rfl)
  xintro
  obtain ⟨hdc, rfl, rfl⟩ := hp
  cases h : aget s.weak i with
  | none => dsimp only; xstep [hnl, hdc, h]; xclose [hpc]
  | some o =>
    dsimp only
    cases hal : Conc.alive s o
    · have hal' : Conc.aliveIn s.refs (s.pins ++ Conc.ovals s.olds) s.strong o = false := hal
      simp only [Bool.false_eq_true, if_false]; xstep [hnl, hdc, h, hal']; xclose [hpc]
    · have hal' : Conc.aliveIn s.refs (s.pins ++ Conc.ovals s.olds) s.strong o = true := hal
      simp only [if_true]; xstep [hnl, hdc, h, hal']; xfin [hpc]

theorem good_nAcq (s : State) (t : Tid) (i : Id) (ha : AInv s)
    (hpc : (s.th t).pc = .nAcq i) (x : XTh) (hx : ThSim s.dc (s.th t) x) : Good s t x := by
  xintro
  obtain ⟨hdc, rfl, v1, rfl⟩ := hp
  cases hl : s.lock with
  | none => dsimp only; xstep [hl, hdc]; xclose [hpc]
  | some u => dsimp only; xstep [hl, hdc]

theorem good_nRelook (s : State) (t : Tid) (i : Id) (ha : AInv s)
    (hpc : (s.th t).pc = .nRelook i) (x : XTh) (hx : ThSim s.dc (s.th t) x) : Good s t x := by
  have hl : s.lock = some t := (ha.holder t).1 (by rw [hpc]; rfl)
  xintro
  obtain ⟨hdc, rfl, v1, rfl⟩ := hp
  cases h : aget s.weak i with
  | none => dsimp only; xstep [hl, hdc, h]; xclose [hpc]
  | some o =>
    dsimp only
    cases hal : Conc.alive s o
    · have hal' : Conc.aliveIn s.refs (s.pins ++ Conc.ovals s.olds) s.strong o = false := hal
      simp only [Bool.false_eq_true, if_false]; xstep [hl, hdc, h, hal']; xclose [hpc, hdc]
    · have hal' : Conc.aliveIn s.refs (s.pins ++ Conc.ovals s.olds) s.strong o = true := hal
      simp only [if_true]; xstep [hl, hdc, h, hal']; xclose [hpc, hdc]

end SqlObjVerif.ConcX
