import SqlObjVerif.Model.GraphX
import SqlObjVerif.Lemmas.Graph
/-!
Pure lemmas (no interpreter) for the translated `destroySelf` (C12): the UPDATE `row.set(**clear)` issues is the model's
`nullRow` (`clearRow_eq_nullRow`), the set-null pass row by row is `nullRefs` (`foldl_nullOne_eq`), and the hand model
keeps ids unique per class (`destroy_wf`) — the one fact about the recursive call the symbolic execution needs.
-/
namespace SqlObjVerif.Graph

theorem Row.ext_val {r s : Row} (h1 : r.cls = s.cls) (h2 : r.id = s.id) (h3 : r.vals.length = s.vals.length)
    (h4 : ∀ f, r.val f = s.val f) : r = s := by
  cases r with | mk c1 i1 v1 => cases s with | mk c2 i2 v2 =>
  simp only at h1 h2 h3
  subst h1 h2
  congr
  apply List.ext_getElem h3
  intro n hn1 hn2
  have := h4 n
  simp only [Row.val, List.getD_eq_getElem?_getD, List.getElem?_eq_getElem hn1, List.getElem?_eq_getElem hn2,
    Option.getD_some] at this
  exact this

theorem clearRow_cls (fs : List Nat) (r : Row) : (clearRow fs r).cls = r.cls := rfl
theorem clearRow_id (fs : List Nat) (r : Row) : (clearRow fs r).id = r.id := rfl
theorem clearRow_len (fs : List Nat) (r : Row) : (clearRow fs r).vals.length = r.vals.length := by simp [clearRow]

theorem clearRow_val (fs : List Nat) (r : Row) (f : Nat) : (clearRow fs r).val f = if f ∈ fs then none else r.val f := by
  unfold clearRow Row.val
  simp only [List.getD_eq_getElem?_getD, List.getElem?_mapIdx]
  cases hv : r.vals[f]? with
  | none => simp
  | some v => by_cases h : f ∈ fs <;> simp [h]

/-- the UPDATE `row.set(**clear)` issues is the model's `nullRow`, when `clear` holds the right columns -/
theorem clearRow_eq_nullRow (S : Schema) (k : Nat) (cols : List Nat) (i : Nat) (fs : List Nat) (r : Row) (hk : r.cls = k)
    (hfs : ∀ f, f ∈ fs ↔ f ∈ cols ∧ (S.fk k f).policy = .setNull ∧ r.val f = some i) :
    clearRow fs r = nullRow S k cols i r := by
  apply Row.ext_val
  · rw [nullRow_cls]; rfl
  · rw [nullRow_id]; rfl
  · rw [nullRow_len, clearRow_len]
  · intro f
    rw [clearRow_val, nullRow_val]
    by_cases h : f ∈ fs
    · have := (hfs f).1 h; simp [h, hk, this]
    · have : ¬ (r.cls = k ∧ f ∈ cols ∧ (S.fk k f).policy = .setNull ∧ r.val f = some i) := fun ⟨_, a⟩ => h ((hfs f).2 a)
      simp [h, this]

theorem nullRow_noop (S : Schema) (k : Nat) (cols : List Nat) (i : Nat) (r : Row)
    (h : ∀ f ∈ cols, (S.fk k f).policy = .setNull → r.val f ≠ some i) : nullRow S k cols i r = r := by
  apply Row.ext_val (nullRow_cls ..) (nullRow_id ..) (nullRow_len ..)
  intro f
  rw [nullRow_val]
  split
  · next hc => exact absurd hc.2.2.2 (h f hc.2.1 hc.2.2.1)
  · rfl

theorem nullRow_idem (S : Schema) (k : Nat) (cols : List Nat) (i : Nat) (r : Row) :
    nullRow S k cols i (nullRow S k cols i r) = nullRow S k cols i r := by
  apply Row.ext_val (nullRow_cls ..) (nullRow_id ..) (nullRow_len ..)
  intro f
  rw [nullRow_val, nullRow_cls]
  split
  · next hc =>
    rw [nullRow_val] at hc
    split at hc
    · rw [nullRow_val]; simp [*]
    · next hn => exact absurd hc hn
  · rfl

/-- NULL the references of the row(s) `(k, j)` -/
def nullOne (S : Schema) (k : Nat) (cols : List Nat) (i : Nat) (db : DB) (j : Nat) : DB :=
  { db with rows := db.rows.map fun r => if r.cls == k && r.id == j then nullRow S k cols i r else r }

theorem wf_map_key {db : DB} (g : Row → Row) (hg : ∀ r, (g r).key = r.key) (h : db.WF) :
    DB.WF { db with rows := db.rows.map g } := by
  unfold DB.WF at h ⊢
  simp only [List.pairwise_map, hg]
  exact h

theorem nullRow_key (S : Schema) (k : Nat) (cols : List Nat) (i : Nat) (r : Row) : (nullRow S k cols i r).key = r.key := by
  simp [Row.key, nullRow_cls, nullRow_id]

theorem nullOne_wf {S : Schema} {k : Nat} {cols : List Nat} {i : Nat} {db : DB} (j : Nat) (h : db.WF) :
    (nullOne S k cols i db j).WF := by
  apply wf_map_key _ _ h
  intro r; split
  · exact nullRow_key ..
  · rfl

theorem nullRefs_wf {S : Schema} {k : Nat} {cols : List Nat} {i : Nat} {db : DB} (h : db.WF) : (nullRefs S db k cols i).WF :=
  wf_map_key _ (nullRow_key S k cols i) h

theorem foldl_nullOne_rows (S : Schema) (k : Nat) (cols : List Nat) (i : Nat) (ids : List Nat) : ∀ db : DB,
    (ids.foldl (nullOne S k cols i) db) =
      { db with rows := db.rows.map fun r => if r.cls == k && ids.contains r.id then nullRow S k cols i r else r } := by
  induction ids with
  | nil => intro db; simp
  | cons j ids ih =>
    intro db
    rw [List.foldl_cons, ih]
    simp only [nullOne, List.map_map]
    congr 1
    apply List.map_congr_left
    intro r _
    simp only [Function.comp]
    by_cases hk : r.cls = k <;> by_cases hj : r.id = j <;> by_cases hm : ids.contains r.id = true <;>
      simp_all [nullRow_cls, nullRow_id, nullRow_idem]

/-- the set-null pass, row by row over the ids the select returned, is the model's `nullRefs` -/
theorem foldl_nullOne_eq (S : Schema) (k : Nat) (cols : List Nat) (i : Nat) (db : DB) :
    ((matching db k cols i).map (·.id)).foldl (nullOne S k cols i) db = nullRefs S db k cols i := by
  rw [foldl_nullOne_rows]
  unfold nullRefs
  congr 1
  apply List.map_congr_left
  intro r hr
  by_cases hk : r.cls = k
  · by_cases hm : ((matching db k cols i).map (·.id)).contains r.id = true
    · rw [if_pos (by rw [hm]; simp [hk])]
    · simp only [hk, beq_self_eq_true, hm, Bool.and_false, Bool.false_eq_true, if_false]
      symm
      apply nullRow_noop
      intro f hf _ hv
      apply hm
      simp only [List.contains_eq_mem, List.mem_map, decide_eq_true_eq]
      exact ⟨r, mem_matching.mpr ⟨hr, hk, f, hf, hv⟩, rfl⟩
  · have : (r.cls == k) = false := by simp [hk]
    simp [this, nullRow]


/-- the recursive call keeps ids unique per class -/
def RecWF (rec : DB → Nat → Nat → Res) : Prop := ∀ db k j db', db.WF → rec db k j = .ok db' → db'.WF

theorem destroyRows_wf {rec : DB → Nat → Nat → Res} (h : RecWF rec) (k : Nat) :
    ∀ (ids : List Nat) (db db' : DB), db.WF → destroyRows rec k ids db = .ok db' → db'.WF := by
  intro ids
  induction ids with
  | nil => intro db db' hw he; simp only [destroyRows, Res.ok.injEq] at he; exact he ▸ hw
  | cons j ids ih =>
    intro db db' hw he
    unfold destroyRows at he
    split at he
    · cases hr : rec db k j with
      | ok d => rw [hr] at he; exact ih d db' (h db k j d hw hr) he
      | refused d => rw [hr] at he; cases he
      | fuel d => rw [hr] at he; cases he
    · exact ih db db' hw he

theorem wf_links {db : DB} (ls : List Link) (h : db.WF) : DB.WF { db with links := ls } := h

theorem procDep_wf {S : Schema} {rec : DB → Nat → Nat → Res} (h : RecWF rec) (c i : Nat) (db : DB) (k : Nat) (db' : DB)
    (hw : db.WF) (he : procDep S rec c i db k = .ok db') : db'.WF := by
  unfold procDep at he
  simp only at he
  split at he
  · cases he; exact hw
  · split at he
    · cases he
    · split at he
      · exact destroyRows_wf h k _ _ _ (nullRefs_wf (wf_links _ hw)) he
      · cases he; exact nullRefs_wf (wf_links _ hw)

theorem procDeps_wf {S : Schema} {rec : DB → Nat → Nat → Res} (h : RecWF rec) (c i : Nat) :
    ∀ (ks : List Nat) (db db' : DB), db.WF → procDeps S rec c i ks db = .ok db' → db'.WF := by
  intro ks
  induction ks with
  | nil => intro db db' hw he; simp only [procDeps, Res.ok.injEq] at he; exact he ▸ hw
  | cons k ks ih =>
    intro db db' hw he
    unfold procDeps at he
    cases hr : procDep S rec c i db k with
    | ok d => rw [hr] at he; exact ih d db' (procDep_wf h c i db k d hw hr) he
    | refused d => rw [hr] at he; cases he
    | fuel d => rw [hr] at he; cases he

theorem delRow_wf {db : DB} (c i : Nat) (h : db.WF) : (delRow db c i).WF := by
  unfold DB.WF delRow at *
  exact h.filter _

theorem destroyStep_wf {S : Schema} {rec : DB → Nat → Nat → Res} (h : RecWF rec) : RecWF (destroyStep S rec) := by
  intro db c i db' hw he
  unfold destroyStep at he
  simp only at he
  cases hr : procDeps S rec c i (dependents S c) { db with links := delOwnLinks S c i db.links } with
  | ok d => rw [hr] at he; cases he; exact delRow_wf c i (procDeps_wf h c i _ _ d (wf_links _ hw) hr)
  | refused d => rw [hr] at he; cases he
  | fuel d => rw [hr] at he; cases he

theorem destroy_wf (S : Schema) : ∀ n, RecWF (destroy S n)
  | 0 => fun _ _ _ _ _ he => by cases he
  | n + 1 => destroyStep_wf (destroy_wf S n)

end SqlObjVerif.Graph
