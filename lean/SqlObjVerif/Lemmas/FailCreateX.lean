import SqlObjVerif.Model.FailCreateX
import SqlObjVerif.Lemmas.FailXSetLazy
/-!
C06, operation CREATE: symbolic execution of the translated `SQLObject._SO_finishCreate` (`Extracted/PyCreate.lean`)
under the exception-injecting semantics of `Model/PyCreate.lean`: constructor-only simp lemmas of the helpers,
the evaluation macro `pcwith`, one lemma per list-valued statement (`s0_exec` … `s2_exec`), and
`finishCreate_good`: from ANY world in which the object is under construction, the translated method ends as
the tail of the hand-compiled tree `Fail.createProg` from the INSERT on (`insertTail`) ends under the same
schedule (`Good`: same state, same error, and the thread-local list holds exactly the closure to be run).
-/
namespace SqlObjVerif.PyCreate
open SqlObjVerif.PyMain (PV R mapR ofOpt PDict dget dhas dset dupdate sortByKey ofVal toVal? pvIdx pyBool)
open SqlObjVerif.PyCreate.Extracted
open SqlObjVerif.Fail (Err Schema Inj Extra In clsOf colOf Mem valsOf allOk updPending asgOf)
open SqlObjVerif.PyFail (FW sendStmt memStep excErr mkW kwPV vqOf viewObs runObs obs)
open SqlObjVerif.PyPure (mapR_map mapR_ok mapR_ok_of sortByKey_map)

section
variable {α : Type}
@[simp] theorem withR_ok (st : St) (a : α) (f : α → Res) : withR st (.ok a) f = f a := rfl
@[simp] theorem withR_exc (st : St) (e : PyMain.Exc) (f : α → Res) : withR st (.exc e : R α) f = raisePy st e := rfl
@[simp] theorem withR_stuck (st : St) (f : α → Res) : withR st (.stuck : R α) f = .stuck := rfl
@[simp] theorem ofOptRes_some (a : α) (f : α → Res) : ofOptRes (some a) f = f a := rfl
@[simp] theorem ofOptRes_none (f : α → Res) : ofOptRes (Option.none : Option α) f = .stuck := rfl
end
@[simp] theorem afterCall_ret (xw : XW) (v : Val) (st : St) : afterCall (.ret xw v) st = .norm (st.setXW xw) := rfl
@[simp] theorem afterCall_exc (xw : XW) (e : Err) (st : St) : afterCall (.exc xw e) st = .exc (st.setXW xw) e := rfl
@[simp] theorem afterCall_deadlock (xw : XW) (st : St) : afterCall (.deadlock xw) st = .deadlock (st.setXW xw) := rfl
@[simp] theorem afterCall_stuck (st : St) : afterCall .stuck st = .stuck := rfl
@[simp] theorem raisePy_attr (st : St) : raisePy st .attributeError = .exc st .attrError := rfl
@[simp] theorem raisePy_type (st : St) : raisePy st .typeError = .exc st .typeError := rfl
@[simp] theorem raisePy_key (st : St) : raisePy st .keyError = .stuck := rfl
@[simp] theorem seq_norm (st : St) (k : St → Res) : (Res.norm st).seq k = k st := by simp only [Res.seq]
@[simp] theorem seq_ret (st : St) (v : Val) (k : St → Res) : (Res.ret st v).seq k = .ret st v := by simp only [Res.seq]
@[simp] theorem seq_exc (st : St) (e : Err) (k : St → Res) : (Res.exc st e).seq k = .exc st e := by simp only [Res.seq]
@[simp] theorem seq_cont (st : St) (k : St → Res) : (Res.cont st).seq k = .cont st := by simp only [Res.seq]
@[simp] theorem seq_deadlock (st : St) (k : St → Res) : (Res.deadlock st).seq k = .deadlock st := by simp only [Res.seq]
@[simp] theorem seq_stuck (k : St → Res) : Res.stuck.seq k = .stuck := by simp only [Res.seq]
@[simp] theorem afterSend_none (st : St) (s : Fail.St) (k : St → Res) :
    afterSend st (s, Option.none) k = k (st.setW (st.xw.w.setS s)) := rfl
@[simp] theorem afterSend_some (st : St) (s : Fail.St) (e : Err) (k : St → Res) :
    afterSend st (s, some e) k = .exc (st.setW (st.xw.w.setS s)) e := rfl
@[simp] theorem catch_norm (x : PyMain.Exc) (h : St → Res) (st : St) : catchRes x h (.norm st) = .norm st := rfl
@[simp] theorem catch_ret (x : PyMain.Exc) (h : St → Res) (st : St) (v : Val) : catchRes x h (.ret st v) = .ret st v := rfl
@[simp] theorem catch_exc (x : PyMain.Exc) (h : St → Res) (st : St) (e : Err) :
    catchRes x h (.exc st e) = if excErr x = some e then h st else .exc st e := rfl
@[simp] theorem catch_stuck (x : PyMain.Exc) (h : St → Res) : catchRes x h .stuck = .stuck := rfl
@[simp] theorem fin_norm (f : St → Res) (st : St) : finallyRes f (.norm st) = f st := rfl
@[simp] theorem fin_ret (f : St → Res) (st : St) (v : Val) : finallyRes f (.ret st v) = (f st).seq fun st'' => .ret st'' v := rfl
@[simp] theorem fin_exc (f : St → Res) (st : St) (e : Err) : finallyRes f (.exc st e) = (f st).seq fun st'' => .exc st'' e := rfl
@[simp] theorem fin_stuck (f : St → Res) : finallyRes f .stuck = .stuck := rfl
@[simp] theorem fin_deadlock (f : St → Res) (st : St) : finallyRes f (.deadlock st) = .deadlock st := rfl
@[simp] theorem colAttrOf_name (ctx : Ctx) (w : FW) (c : Nat) : colAttrOf ctx w (.pv (.col c)) .name = .ok (.pv (.name c)) := rfl
@[simp] theorem colAttrOf_dbName (ctx : Ctx) (w : FW) (c : Nat) : colAttrOf ctx w (.pv (.col c)) .dbName = .ok (.pv (.dbName c)) := rfl
@[simp] theorem colAttrOf_creationOrder (ctx : Ctx) (w : FW) (c : Nat) :
    colAttrOf ctx w (.pv (.col c)) .creationOrder = .ok (.pv (.nat c)) := rfl
@[simp] theorem colAttrOf_foreignName (ctx : Ctx) (w : FW) (c : Nat) : colAttrOf ctx w (.pv (.col c)) .foreignName =
    .ok (if (colOf (clsOf w.sch w.c).cols c).fk.isSome then .fname c else .pv .none) := rfl
@[simp] theorem colAttrOf_default (ctx : Ctx) (w : FW) (c : Nat) : colAttrOf ctx w (.pv (.col c)) .default =
    .ok (match ctx.dflt c with
      | some v => .pv (ofVal v.val)
      | Option.none => .noDefault) := rfl
@[simp] theorem colAttrOf_defaultSQL (ctx : Ctx) (w : FW) (c : Nat) : colAttrOf ctx w (.pv (.col c)) .defaultSQL =
    .ok (if ctx.dsql c then .opaque "defaultSQL" else .pv .none) := rfl
@[simp] theorem columnOf_name (w : FW) (c : Nat) :
    columnOf w (.pv (.name c)) = if Nat.blt c w.ncols then .ok (.pv (.col c)) else .exc .keyError := rfl
@[simp] theorem valIdx_pair0 (a b : PV) : valIdx (.pv (.pair a b)) 0 = .ok (.pv a) := rfl
@[simp] theorem valIdx_pair1 (a b : PV) : valIdx (.pv (.pair a b)) 1 = .ok (.pv b) := rfl
@[simp] theorem idTypeOf_nat (i : Nat) : idTypeOf (.pv (.nat i)) = .ok (.pv (.nat i)) := rfl
@[simp] theorem valBool_bool (b : Bool) : valBool (.pv (.bool b)) = some b := rfl
@[simp] theorem valIsNone_none : valIsNone (.pv .none) = true := rfl
@[simp] theorem valIsNone_opaque (t : String) : valIsNone (.opaque t) = false := rfl
@[simp] theorem valIsNoDefault_nd : valIsNoDefault .noDefault = true := rfl
@[simp] theorem valIsNoDefault_pv (v : PV) : valIsNoDefault (.pv v) = false := rfl
@[simp] theorem keyIn_name (w : FW) (D : Dict) (c : Nat) : keyIn w D (.pv (.name c)) = .ok (dhas c D.cols) := rfl
@[simp] theorem keyIn_none (w : FW) (D : Dict) : keyIn w D (.pv .none) = .ok false := rfl
@[simp] theorem keyIn_fname (w : FW) (D : Dict) (c : Nat) :
    keyIn w D (.fname c) = .ok (fkIn w c D.cols) := rfl
@[simp] theorem natOfVal_nat (n : Nat) : natOfVal (.pv (.nat n)) = some n := rfl
@[simp] theorem nameOfVal_name (n : Nat) : nameOfVal (.pv (.name n)) = some n := rfl
@[simp] theorem pvOfVal_pv (v : PV) : pvOfVal (.pv v) = some v := rfl
@[simp] theorem pvOfVal_nd : pvOfVal .noDefault = Option.none := rfl
@[simp] theorem dbNameOfVal_dbName (n : Nat) : dbNameOfVal (.pv (.dbName n)) = some n := rfl
@[simp] theorem cvalOfVal_pv (v : PV) : cvalOfVal (.pv v) = toVal? v := rfl
@[simp] theorem idArg_none : idArg (.pv .none) = some Option.none := rfl
@[simp] theorem idArg_nat (i : Nat) : idArg (.pv (.nat i)) = some (some i) := rfl
@[simp] theorem callClos_clos (ctx : Ctx) (st : St) (k : Nat) : callClos ctx st (.clos k) [] =
    (match st.xw.heap[k]? with
      | some (fid, fr) => if closOk fr (ctx.clos fid) then .norm st else .stuck
      | Option.none => .stuck) := rfl
@[simp] theorem liftSet_ret (xw : XW) (w : FW) (v : PV) : liftSet xw (.ret w v) = .ret { xw with w := w } (.pv .none) := rfl
@[simp] theorem liftSet_exc (xw : XW) (w : FW) (e : Err) : liftSet xw (.exc w e) = .exc { xw with w := w } e := rfl
@[simp] theorem dictArg_none (st : St) : dictArg st Option.none = some Dict.empty := rfl
@[simp] theorem dictArg_some (st : St) (d : Nat) : dictArg st (some d) = st.fr.dicts d := rfl

@[simp] theorem toOutcome_norm (st : St) : (Res.norm st).toOutcome = .ret st.xw (.pv .none) := rfl
@[simp] theorem toOutcome_ret (st : St) (v : Val) : (Res.ret st v).toOutcome = .ret st.xw v := rfl
@[simp] theorem toOutcome_exc (st : St) (e : Err) : (Res.exc st e).toOutcome = .exc st.xw e := rfl
@[simp] theorem toOutcome_stuck : Res.stuck.toOutcome = .stuck := rfl

theorem exec_cons (ctx : Ctx) (call : CallT) (st : St) (s : Stmt) (rest : Block) :
    Block.exec ctx call st (.cons s rest) = (Stmt.exec ctx call st s).seq fun st' => Block.exec ctx call st' rest := by
  rw [Block.exec]
theorem exec_nil (ctx : Ctx) (call : CallT) (st : St) : Block.exec ctx call st .nil = .norm st := by
  rw [Block.exec]

macro "pcwith" "[" args:Lean.Parser.Tactic.simpLemma,* "]" : tactic => `(tactic|
  simp [PyCreate.run, Block.exec, Stmt.exec, Cond.eval, Expr.eval, LExpr.eval, St.setVar, St.setList, St.setDict, St.setXW, St.setW,
        Frame.setVar, Frame.setList, Frame.setDict, mapR, PyMain.optMap, forLoop, bindVars, argsOk, $args,*])

/-! ### `_SO_finishCreate` -/

def Good (ctx : Ctx) (o : Outcome) (r : Fail.St × Option Err) : Prop :=
  match o with
  | .exc xw e => r = (xw.w.s, some e) ∧ xw.postponed = some [] ∧ xw.w.lock = false ∧ xw.w.sigSuppress = false
  | .ret xw _ => r = (xw.w.s, Option.none) ∧ xw.w.lock = false ∧ xw.w.sigSuppress = false ∧
      ∃ k fid fr, xw.postponed = some [.clos k] ∧ xw.heap[k]? = some (fid, fr) ∧ closOk fr (ctx.clos fid) = true
  | _ => False

theorem s0_exec (ctx : Ctx) (call : CallT) (st : St) (cv : List (Nat × Fail.Val)) (habs : st.xw.cvAbsent = false)
    (hcv : st.xw.w.cv = cv) (n : Nat) (hn : st.xw.w.ncols = n) (hlt : ∀ e ∈ cv, e.1 < n) :
    Stmt.exec ctx call st finishCreate_s0 = .norm (st.setList 0 (cvItemsOf (sortByKey cv))) := by
  have h : mapR (fun v => ((Expr.eval ctx (st.setVar 1 v) (.colAttr (.column (.idx (.var 1) 0)) .creationOrder)).bind fun kv =>
        ofOpt (natOfVal kv)).bind fun n => .ok (n, v)) (cvItemsOf cv) =
      .ok (cv.map fun e => (e.1, Val.pv (.pair (.name e.1) (ofVal e.2)))) := by
    unfold cvItemsOf
    rw [mapR_map]
    refine mapR_ok_of rfl _ ?_
    intro e he
    have hb : Nat.blt e.1 st.xw.w.ncols = true := by rw [hn]; simpa [Nat.blt_eq] using hlt e he
    simp [Expr.eval, St.setVar, Frame.setVar, hb]
  rw [finishCreate_s0, Stmt.exec, LExpr.eval, LExpr.eval, habs, hcv]
  simp only [Bool.false_eq_true, if_false, PyPure.R.bind_ok, h, withR_ok]
  rw [sortByKey_map (fun e => Val.pv (.pair (.name e.1) (ofVal e.2)))]
  simp only [cvItemsOf, List.map_map]
  rfl

theorem s1_exec (ctx : Ctx) (call : CallT) (st : St) (l : List (Nat × Fail.Val)) (h0 : st.fr.lists 0 = some (cvItemsOf l))
    (n : Nat) (hn : st.xw.w.ncols = n) (hlt : ∀ e ∈ l, e.1 < n) :
    Stmt.exec ctx call st finishCreate_s1 = .norm (st.setList 1 (l.map fun e => .pv (.dbName e.1))) := by
  have h : mapR (fun v => Expr.eval ctx (st.setVar 2 v) (.colAttr (.column (.idx (.var 2) 0)) .dbName)) (cvItemsOf l) =
      .ok (l.map fun e => Val.pv (.dbName e.1)) := by
    unfold cvItemsOf
    rw [mapR_map]
    refine mapR_ok_of rfl _ ?_
    intro e he
    have hb : Nat.blt e.1 st.xw.w.ncols = true := by rw [hn]; simpa [Nat.blt_eq] using hlt e he
    simp [Expr.eval, St.setVar, Frame.setVar, hb]
  rw [finishCreate_s1, Stmt.exec, LExpr.eval, LExpr.eval, h0]
  simp only [PyPure.ofOpt_some, PyPure.R.bind_ok, h, withR_ok]

theorem s2_exec (ctx : Ctx) (call : CallT) (st : St) (l : List (Nat × Fail.Val)) (h0 : st.fr.lists 0 = some (cvItemsOf l)) :
    Stmt.exec ctx call st finishCreate_s2 = .norm (st.setList 2 (l.map fun e => .pv (ofVal e.2))) := by
  have h : mapR (fun v => Expr.eval ctx (st.setVar 3 v) (.idx (.var 3) 1)) (cvItemsOf l) =
      .ok (l.map fun e => Val.pv (ofVal e.2)) := by
    unfold cvItemsOf
    rw [mapR_map]
    refine mapR_ok_of rfl _ ?_
    intro e he
    simp [Expr.eval, St.setVar, Frame.setVar]
  rw [finishCreate_s2, Stmt.exec, LExpr.eval, LExpr.eval, h0]
  simp only [PyPure.ofOpt_some, PyPure.R.bind_ok, h, withR_ok]

theorem zip_fst_snd {α β : Type} (l : List (α × β)) : List.zip (l.map (·.1)) (l.map (·.2)) = l := by
  induction l with
  | nil => rfl
  | cons a l ih => simp [ih]

theorem find_insByKey (x : Nat × Fail.Val) (j : Nat) (m : List (Nat × Fail.Val)) (h : ∀ y ∈ m, y.1 ≠ x.1) :
    (PyMain.insByKey x m).find? (fun a => a.1 == j) = (x :: m).find? (fun a => a.1 == j) := by
  induction m with
  | nil => rfl
  | cons y r ih =>
    simp only [PyMain.insByKey]
    split
    · rfl
    · have hr := ih (fun z hz => h z (by simp [hz]))
      have hy := h y (by simp)
      simp only [List.find?_cons] at hr ⊢
      by_cases h1 : (y.1 == j) = true
      · have h2 : (x.1 == j) = false := by
          simp only [beq_iff_eq] at h1
          simp only [beq_eq_false_iff_ne]
          intro h3; exact hy (h1.trans h3.symm)
        simp [h1, h2]
      · simp only [h1, hr]

theorem find_sortByKey (j : Nat) (l : List (Nat × Fail.Val)) (h : (l.map (·.1)).Nodup) :
    (sortByKey l).find? (fun a => a.1 == j) = l.find? (fun a => a.1 == j) := by
  induction l with
  | nil => rfl
  | cons x l ih =>
    simp only [List.map_cons, List.nodup_cons] at h
    have : sortByKey (x :: l) = PyMain.insByKey x (sortByKey l) := rfl
    rw [this, find_insByKey x j _ (fun y hy hxy => h.1 (by
      rw [PyPure.mem_sortByKey] at hy
      exact hxy ▸ List.mem_map_of_mem hy))]
    simp only [List.find?_cons, ih h.2]

theorem valsOf_sortByKey (n : Nat) (l : List (Nat × Fail.Val)) (h : (l.map (·.1)).Nodup) :
    valsOf n (sortByKey l) = valsOf n l := by
  unfold valsOf
  apply List.map_congr_left
  intro j _
  rw [find_sortByKey j l h]

theorem run_dyn (sch : Schema) (inj : Option Inj) (f : Fail.St → Fail.Prog) (s : Fail.St) :
    Fail.run sch inj (.dyn f) s = Fail.run sch inj (f s) s := by
  simp only [Fail.run]

/-- the tail of `Fail.createProg` from the INSERT on -/
def insertTail (c : Nat) (id? : Option Nat) (vals : List Fail.Val) : Fail.Prog :=
  .stmt (.insert c id? vals) <| .dyn fun s =>
     .mem (.addInst c s.lastId vals) <| .stmt (.select c) <| .mem (.reload c s.lastId) .done

theorem finishCreate_good (ctx : Ctx) (xw : XW) (idv : Val) (id? : Option Nat) (hid : idArg idv = some id?)
    (hclos : ctx.clos 0 = finishCreate_clos0)
    (hcr : xw.w.creating = true) (hborn : xw.born = false) (habs : xw.cvAbsent = false) (hpost : xw.postponed = some [])
    (hlock : xw.w.lock = false) (hsig : xw.w.sigSuppress = false)
    (hnd : (xw.w.nobj.cv.map (·.1)).Nodup) (hlt : ∀ e ∈ xw.w.nobj.cv, e.1 < xw.w.ncols)
    (vals : List Fail.Val) (hvals : valsOf xw.w.ncols xw.w.nobj.vals = vals) (hcv : valsOf xw.w.ncols xw.w.nobj.cv = vals) :
    Good ctx (run ctx finishCall finishCreateProg finishCreate_params finishCreate_hasKw [idv] Dict.empty xw)
      (Fail.run xw.w.sch xw.w.inj (insertTail xw.w.c id? vals) xw.w.s) := by
  obtain ⟨w, born, cvAbsent, postponed, heap⟩ := xw
  obtain ⟨sch, inj, props, s, c, id, creating, nobj, sig, lock, vq⟩ := w
  obtain ⟨nvals, ncv, ndirty⟩ := nobj
  simp only [PyFail.ncols_mk] at hcr hborn habs hpost hlock hsig hnd hlt hvals hcv
  subst hcr hborn habs hpost hlock hsig
  simp only [PyCreate.run, finishCreate_params, finishCreate_hasKw, argsOk, Dict.empty, finishCreateProg, exec_cons]
  simp only [List.length_cons, List.length_nil, Nat.ble, List.drop, List.all_nil, Bool.and_true, List.isEmpty_nil, Bool.or_true, if_true]
  rw [s0_exec ctx finishCall _ ncv rfl (by simp [FW.cv]) (clsOf sch c).cols.length rfl hlt, seq_norm]
  have hlt' : ∀ e ∈ sortByKey ncv, e.1 < (clsOf sch c).cols.length := fun e he => hlt e ((PyPure.mem_sortByKey e ncv).1 he)
  rw [s1_exec ctx finishCall _ (sortByKey ncv) (by simp [St.setList, Frame.setList]) (clsOf sch c).cols.length rfl hlt', seq_norm]
  rw [s2_exec ctx finishCall _ (sortByKey ncv) (by simp [St.setList, Frame.setList]), seq_norm]
  simp only [finishCreate_s3, finishCreate_s4, finishCreate_s5, finishCreate_s6]
  cases hl : (clsOf sch c).lazy
  all_goals
    pcwith [XW.setDirty, XW.cvDel, XW.cvNew, hl, hid, zip_fst_snd, valsOf_sortByKey _ _ hnd, hcv]
    unfold insertTail
    cases hs : sendStmt sch inj (Fail.Stmt.insert c id? vals) s with
    | mk s1 r =>
    cases r with
    | some e =>
      frun [hs]
      simp [Good, FW.setS, St.setW]
    | none =>
      simp only [finishCreate_s7, finishCreate_s8, finishCreate_s9]
      pcwith [XW.created, hvals, finishCall, initIface, FW.setS]
      frun [hs, run_dyn]
      cases hs2 : sendStmt sch inj (Fail.Stmt.select c) (memStep (Mem.addInst c s1.lastId vals) s1) with
      | mk s2 r2 =>
      cases r2 with
      | some e => simp [Good, Dict.empty, St.setXW]
      | none =>
        simp only [finishCreate_s10, finishCreate_s11, finishCreate_s12, finishCreate_s13]
        pcwith [Dict.empty]
        simp [Good]
        refine ⟨0, _, ⟨rfl, rfl⟩, ?_⟩
        simp [hclos, finishCreate_clos0, closOk]

end SqlObjVerif.PyCreate
