import SqlObjVerif.Lemmas.InhSelXLoops
/-!
Symbolic execution of the TRANSLATED `InheritableSelectResults.__init__`, part 2: the whole constructor, for ANY class
forest, ANY clause and ANY registry order: it hands `SelectResults.__init__` the clause AND-ed with the join conditions the
pure functions `step2` / `joinsOf` of `Model/InhSelX.lean` compute (`selInitX_run`).
-/
set_option linter.unusedSimpArgs false
namespace SqlObjVerif.InhSel
open SqlObjVerif.PyIS
open SqlObjVerif.PyIS.Extracted
open SqlObjVerif.Inherit hiding Val Res Cmp Out

/-- the `**ops` of the select at hand: `connection=<k>` or nothing -/
def opsOf : Option Nat → SVal
  | some k => .cons (.pair (.str "connection") (.conn k)) .nil
  | none => .nil


theorem selInitX_run (X : SCtx) (h : X.T.WF) (w : SW) (s : Nat) (g : Sql) (oc : Option Nat) :
    ∃ tabs : List Nat, (∀ b, b ∈ tabs ↔ (b ∈ sqlTables g ∨ b = s)) ∧
    selInitX X w s (.sql g) (opsOf oc) =
      .ret { w with made := some ⟨s,
        (joinsOf X.T (((X.reg.foldl (regStep tabs) []).map (·.1)).foldl
            (step2 X.T (X.reg.foldl (regStep tabs) [])) (X.reg.foldl (regStep tabs) []))).foldl Sql.and g,
        oc.getD X.dflt⟩ } .none := by
  obtain ⟨tabs, ht, hmem⟩ := vsAdd_tabSet s (sqlTables g)
  refine ⟨tabs, hmem, ?_⟩
  clear hmem
  unfold selInitX selInitProg
  cases oc
  all_goals
    isrunw [opsOf, vdGet, isListVal, ht]
    generalize hF : forLoop _ _ _ _ = r
    obtain ⟨st1, rfl, w1, r1, f1⟩ := loop1_run' hF tabs [] (by rfl) (by rfl)
    clear hF
    have a0 := f1 0 (by decide) (by decide)
    have a1 := f1 1 (by decide) (by decide)
    have a2 := f1 2 (by decide) (by decide)
    have a4 := f1 4 (by decide) (by decide)
    have a6 := f1 6 (by decide) (by decide)
    simp at a0 a1 a2 a4 a6 w1
    clear f1
    isrunw [r1, w1]
    generalize hF : forLoop _ _ _ _ = r
    obtain ⟨st2, rfl, w2, r2, f2⟩ := loop2_run' h hF (X.reg.foldl (regStep tabs) []) (X.reg.foldl (regStep tabs) [])
      (by simp) (by simp [r1])
    clear hF
    have b0 := f2 0 (by decide) (by decide) (by decide)
    have b1 := f2 1 (by decide) (by decide) (by decide)
    have b2 := f2 2 (by decide) (by decide) (by decide)
    have b4 := f2 4 (by decide) (by decide) (by decide)
    have b6 := f2 6 (by decide) (by decide) (by decide)
    simp [a0, a1, a2, a4, a6] at b0 b1 b2 b4 b6 w2
    clear f2
    isrunw [r2, w2]
    generalize hF : forLoop _ _ _ _ = r
    obtain ⟨st3, rfl, w3, r3, f3⟩ := loop4_run' h hF [] tabs (by simp) (by simp [b6])
    clear hF
    have c0 := f3 0 (by decide) (by decide) (by decide) (by decide) (by decide)
    have c1 := f3 1 (by decide) (by decide) (by decide) (by decide) (by decide)
    have c2 := f3 2 (by decide) (by decide) (by decide) (by decide) (by decide)
    have c4 := f3 4 (by decide) (by decide) (by decide) (by decide) (by decide)
    simp [b0, b1, b2, b4] at c0 c1 c2 c4 w3
    clear f3
    isrunw [r3, w3, c0, c1, c2, c4, foldAnd_sql, connArg, vdGet]
end SqlObjVerif.InhSel
