import SqlObjVerif.Lemmas.QueryXChain
/-!
# C11 — the translated `SelectResults.queryForSelect` (the `Select` handed to `sqlrepr` = the model's plan) and the
`orderBy(o')` chain (`orderBy_rep`)
-/
namespace SqlObjVerif.QueryX
open SqlObjVerif.PyQ
open SqlObjVerif.PyQ.Extracted

def kWhere : Str := ['w', 'h', 'e', 'r', 'e']
def kJoin : Str := ['j', 'o', 'i', 'n']
def kLazyColumns : Str := ['l', 'a', 'z', 'y', 'C', 'o', 'l', 'u', 'm', 'n', 's']
def kStaticTablesQ : Str := ['s', 't', 'a', 't', 'i', 'c', 'T', 'a', 'b', 'l', 'e', 's']
def kForUpdate : Str := ['f', 'o', 'r', 'U', 'p', 'd', 'a', 't', 'e']

/-- the keyword arguments `queryForSelect` hands to `Select(columns, …)`, read from the `ops` dict -/
def selectKw (cl ts : Val) (d : List (Str × Val)) : List (Str × Val) :=
  [(kWhere, cl), (kJoin, (aget kJoin d).getD (.glob "NoDefault")), (kDistinct, (aget kDistinct d).getD (.bool false)),
   (kLazyColumns, (aget kLazyColumns d).getD (.bool false)), (kStart, (aget kStart d).getD (.int 0)),
   (kEnd, (aget kEnd d).getD .none), (kOrderBy, (aget kDbOrderBy d).getD (.glob "NoDefault")),
   (kReversed, (aget kReversed d).getD (.bool false)), (kStaticTablesQ, ts), (kForUpdate, (aget kForUpdate d).getD (.bool false))]

/-- the items of the select: `T.q.id` and `T.q.<name>` for every column of `sqlmeta.columnList` -/
def columnsV (sch : Schema) : Val := .list (fieldV idName :: sch.cols.map fun c => fieldV c.name)

section
variable (sr : Val → Str) (sch : Schema) (P : Params) (fnRec : String → List Val → List (Str × Val) → R Val)
  (cm : Val → String → List Val → List (Str × Val) → R Val) (cv : Val → List Val → R Val)

theorem queryForSelect_comp (env : Env) (c : String) (fs : List (String × Val)) (h0 : env 0 = some (.obj c fs))
    (hsc : aget "sourceClass" fs = some clsV) : ∀ (cols : List Query.ColSpec),
    filterMapR (compStep (.one 3) env (fun e => srQueryForSelect_comp0_c.eval (qIface sch P fnRec cm cv) e)
      (fun e => srQueryForSelect_comp0_e.eval (qIface sch P fnRec cm cv) e)) (cols.map colV) =
      .ok (cols.map fun c => fieldV c.name)
  | [] => rfl
  | c0 :: cols => by
    have ih := queryForSelect_comp env c fs h0 hsc cols
    simp only [List.map_cons, filterMapR, ih]
    unfold srQueryForSelect_comp0_c srQueryForSelect_comp0_e
    pyqw [compStep, h0, hsc]

/-- **`queryForSelect`**: the `Select` built from the select's clause, tables and `ops` -/
theorem queryForSelect_translated (cl ct ts : Val) (d : List (Str × Val)) :
    queryForSelectX (qIface sch P fnRec cm cv) (srObj clsV cl (.dict d) ct ts) =
      ofR (fnRec "Select" [columnsV sch] (selectKw cl ts d)) := by
  unfold queryForSelectX run srQueryForSelect srQueryForSelect_s0 srQueryForSelect_s1 srQueryForSelect_s2 srObj
    columnsV selectKw
  have hc := fun env h0 => queryForSelect_comp sch P fnRec cm cv env "SelectResults"
    [("sourceClass", clsV), ("clause", cl), ("ops", .dict d), ("clauseTables", ct), ("tables", ts)] h0 rfl sch.cols
  cases h : fnRec "Select" [.list (fieldV idName :: sch.cols.map fun c => fieldV c.name)]
    [(kWhere, cl), (kJoin, (aget kJoin d).getD (.glob "NoDefault")), (kDistinct, (aget kDistinct d).getD (.bool false)),
     (kLazyColumns, (aget kLazyColumns d).getD (.bool false)), (kStart, (aget kStart d).getD (.int 0)),
     (kEnd, (aget kEnd d).getD .none), (kOrderBy, (aget kDbOrderBy d).getD (.glob "NoDefault")),
     (kReversed, (aget kReversed d).getD (.bool false)), (kStaticTablesQ, ts), (kForUpdate, (aget kForUpdate d).getD (.bool false))] <;>
  simp only [kWhere, kJoin, kDistinct, kLazyColumns, kStart, kEnd, kOrderBy, kDbOrderBy, kReversed, kStaticTablesQ, kForUpdate] at h <;>
  pyqw [hc, h, ofR, kWhere, kJoin, kDistinct, kLazyColumns, kStart, kEnd, kOrderBy, kDbOrderBy, kReversed, kStaticTablesQ, kForUpdate]

/-- the arguments of that `Select` are the hand model's plan `Query.queryForSelect s` of the represented select: the
    WHERE clause, the ORDER BY expressions (rendered by the translated ORDER BY statement as `orderKeys`), the flags -/
theorem queryForSelect_rep (cl ts : Val) (d : List (Str × Val)) (s : Query.Sel) (hrep : Rep sr sch cl d s) :
    aget kWhere (selectKw cl ts d) = some (clauseV sr sch (Query.queryForSelect s).where_)
    ∧ aget kOrderBy (selectKw cl ts d) = some (DbOrder.toVal sch s.order)
    ∧ truthyOpt (selectKw cl ts d) kReversed = s.reversed
    ∧ truthyOpt (selectKw cl ts d) kDistinct = (Query.queryForSelect s).distinct
    ∧ (Query.queryForSelect s).order = Query.orderKeys s ∧ (Query.queryForSelect s).items = .columns := by
  have h1 := hrep.reversed
  have h2 := hrep.distinct
  unfold truthyOpt at h1 h2
  refine ⟨?_, ?_, ?_, ?_, rfl, rfl⟩
  · simp [selectKw, aget, kWhere, hrep.clause, Query.queryForSelect]
  · simp [selectKw, aget, kWhere, kJoin, kDistinct, kLazyColumns, kStart, kEnd, kOrderBy, hrep.order]
  · rw [← h1]
    simp [selectKw, aget, truthyOpt, kWhere, kJoin, kDistinct, kLazyColumns, kStart, kEnd, kOrderBy, kReversed]
    generalize aget _ d = x; cases x <;> rfl
  · rw [show (Query.queryForSelect s).distinct = s.distinct from rfl, ← h2]
    simp [selectKw, aget, truthyOpt, kWhere, kJoin, kDistinct]
    generalize aget _ d = x; cases x <;> rfl

/-- **`orderBy(o')` → `clone` → `__init__`** through the translated chain represents `Sel.orderBy` (last `orderBy` wins) -/
theorem orderBy_rep (cm0 : Val → String → List Val → List (Str × Val) → R Val) (dbn : Val)
    (hdb : ∀ cm, attrOf (qIface sch P fnRec cm cv) P.conn "dbName" = .ok dbn)
    (s : Query.Sel) (o o' : Query.OrderBy) (d : List (Str × Val)) (ct ts : Val) (hct : truthy ct = false)
    (g : Good sr sch d s o) :
    ∃ d' ts', orderByX (qIface sch P fnRec (cm3 sch P fnRec cm0 cv) cv) (srObj clsV (clauseV sr sch s.clause) (.dict d) ct ts)
        (OrderBy.toVal sch o') = .ret (srObj clsV (clauseV sr sch s.clause) (.dict d') ct ts') ∧
      Good sr sch d' (s.orderBy sch o') o' := by
  rw [orderBy_translated _ (srObj clsV (clauseV sr sch s.clause) (.dict d) ct ts) _ "SelectResults" _ rfl]
  have hk : ∀ k, kOrderBy ≠ k → aget k (aset d kOrderBy (OrderBy.toVal sch o')) = aget k d := fun k h => aget_aset_ne _ _ _ _ h
  have hob : aget kOrderBy (aset d kOrderBy (OrderBy.toVal sch o')) = some (OrderBy.toVal sch o') := aget_aset_self _ _ _
  rw [show (qIface sch P fnRec (cm3 sch P fnRec cm0 cv) cv).callMethod = cm3 sch P fnRec cm0 cv from rfl,
    clone1 sr sch P fnRec cm0 cv dbn hdb s.clause ct ts hct d kOrderBy _ o' hob
      (by unfold truthyOpt; rw [hk _ (by decide)]; exact g.lim)
      (by unfold truthyOpt; rw [hk _ (by decide)]; exact g.conn)]
  refine ⟨_, _, rfl, ?_, ?_, rfl, ?_, ?_⟩
  · have := initOps_rep sr sch (some s.clause) (aset d kOrderBy (OrderBy.toVal sch o')) o'
    simp only [Option.getD_some] at this
    have h1 := g.rep.reversed
    have h2 := g.rep.distinct
    unfold truthyOpt at h1 h2 this
    rw [hk _ (by decide), hk _ (by decide), h1, h2] at this
    exact this
  · unfold initOps
    rw [aget_opsConn _ _ (by decide), aget_aset_ne _ _ _ _ (by decide), opsDefault_present sch _ o' hob]; exact hob
  · unfold truthyOpt
    rw [aget_initOps sch _ _ _ (by decide) (by decide) (by decide), hk _ (by decide)]; exact g.lim
  · apply conn_initOps
    unfold truthyOpt; rw [hk _ (by decide)]; exact g.conn
end
end SqlObjVerif.QueryX
