import SqlObjVerif.Lemmas.PyEv
import SqlObjVerif.Model.EvMainX
import SqlObjVerif.Lemmas.EventsX
/-!
C19 translator tie, part 1: the interface instantiation (`evOps`: the translated `sqlmeta.send` is `deliver`), the
post-callback loops, the per-column reading of dicts, and `syncUpdate` as translated = `opSyncUpdate`.
-/
namespace SqlObjVerif.Events
open SqlObjVerif.PyEv
open SqlObjVerif.PyEv.Extracted
open SqlObjVerif.PyMain (R mapR ofOpt dget dhas dset dupdate dictOf sortByKey insByKey Exc FnKind)

theorem xsend_eq (sig : Sig) (id : Option Nat) (L : List Listener) (kw : Kw) (pf : List Nat) :
    xsend sig id L kw pf = some (deliver sig id 0 L kw pf) := by
  unfold xsend
  rw [sendX_eq]
  cases id <;> simp [dispSend, idOfArgs, selfArg]

@[simp] theorem evOps_send (fuel : Nat) : (evOps fuel).send = fun sig id L kw pf => some (deliver sig id 0 L kw pf) := by
  funext sig id L kw pf
  exact xsend_eq sig id L kw pf

@[simp] theorem evOps_update (fuel : Nat) (w : World) (p : List (Nat × Val)) : (evOps fuel).update w p = w.o.id.map fun i =>
    { w with rows := updRows w.rows i (vecOfPairs w.c.ncols p),
             log := w.log ++ [(w.lvl, Entry.upd i (vecOfPairs w.c.ncols p))] } := rfl

/-- the post-callback loops: every collected callback is called with `self` -/
theorem post_loop {ops : Ops} {call : Calls} {body : Block} (x : Nat) (hbody : body = .cons (.callPost (.var x)) .nil)
    (pf : List Nat) (st : St) (i : Nat) (hid : st.w.o.id = some i) :
    ∃ vs', forLoop (bindThen (.one x) fun st' => Block.exec ops call st' body) (pf.map PV.post) st =
        .norm { st with w := { st.w with log := st.w.log ++ tagLog st.w.lvl (pf.map fun p => Entry.post p i) }, vars := vs' }
      ∧ ∀ y, y ≠ x → vs' y = st.vars y := by
  subst hbody
  induction pf generalizing st with
  | nil => exact ⟨st.vars, by simp [forLoop, tagLog], fun _ _ => rfl⟩
  | cons p pf ih =>
    obtain ⟨vs', h1, h2⟩ := ih { st with w := { st.w with log := st.w.log ++ [(st.w.lvl, Entry.post p i)] }, vars := st.vars.put x (.post p) } hid
    refine ⟨vs', ?_, fun y hy => by rw [h2 y hy]; simp [hy]⟩
    have hstep : (bindThen (.one x) fun st' => Block.exec ops call st' (.cons (.callPost (.var x)) .nil)) st (.post p)
        = .norm { st with w := { st.w with log := st.w.log ++ [(st.w.lvl, Entry.post p i)] }, vars := st.vars.put x (.post p) } := by
      evwith [hid]
    simp only [List.map_cons, forLoop, hstep, h1]
    simp [tagLog]


theorem post_loop' {ops : Ops} {call : Calls} {body : Block} {x : Nat} {pf : List Nat} {st : St} {r : Res}
    (hF : forLoop (bindThen (.one x) fun st' => Block.exec ops call st' body) (pf.map PV.post) st = r)
    (hbody : body = .cons (.callPost (.var x)) .nil) (i : Nat) (hid : st.w.o.id = some i) :
    ∃ vs', r = .norm { st with w := { st.w with log := st.w.log ++ tagLog st.w.lvl (pf.map fun p => Entry.post p i) }, vars := vs' }
      ∧ ∀ y, y ≠ x → vs' y = st.vars y := by
  obtain ⟨vs', h1, h2⟩ := post_loop (ops := ops) (call := call) x hbody pf st i hid
  exact ⟨vs', by rw [← hF, h1], h2⟩

theorem vecOfPairs_eq (n : Nat) (p : Kw) : vecOfPairs n p = colVec n p := rfl

theorem colVec_sortByKey (n : Nat) (cv : Kw) (hnd : (cv.map (·.1)).Nodup) : colVec n (sortByKey cv) = colVec n cv := by
  unfold colVec Kw.get
  apply List.map_congr_left
  intro k _
  exact lookup_sortByKey k cv hnd

theorem colVec_nil (n : Nat) : colVec n [] = List.replicate n none := by
  unfold colVec Kw.get
  induction n with
  | zero => rfl
  | succ n ih => rw [List.range_succ, List.map_append, ih, List.replicate_succ']; rfl

theorem vecEmpty_colVec (n : Nat) (cv : Kw) (hcols : ∀ e ∈ cv, e.1 < n) (hnd : (cv.map (·.1)).Nodup) :
    vecEmpty (colVec n cv) = cv.isEmpty := by
  cases cv with
  | nil => rw [colVec_nil]; simp [vecEmpty]
  | cons e l =>
    have := hcols e (by simp)
    simp only [List.isEmpty_cons]
    unfold vecEmpty colVec Kw.get
    simp only [List.all_map, List.all_eq_false]
    refine ⟨e.1, by simpa using this, ?_⟩
    simp [List.lookup]

theorem state_set_self (s : State) (h : Nat) (o : Events.Obj) (ho : s.objs[h]? = some o) :
    ({ rows := s.rows, nextId := s.nextId, objs := s.objs.set h o } : State) = s := by
  obtain ⟨rows, nextId, objs⟩ := s
  simp only at ho
  simp only [State.mk.injEq, true_and]
  apply List.ext_getElem?
  intro i
  rw [List.getElem?_set]
  split
  · next hi => subst hi; split <;> simp_all
  · rfl

theorem syncUpdateX_eq (fuel : Nat) (c : Cfg) (s : State) (h : Nat) (o : Events.Obj) (cv : Kw)
    (ho : s.objs[h]? = some o) (hrep : Rep c.ncols cv o.pending) :
    absUnit s h (syncUpdateX fuel (absW c s (pyObj o cv))) = some (opSyncUpdate c s h o) := by
  obtain ⟨id, pending⟩ := o
  obtain ⟨hnd, hcols, hvec⟩ := hrep
  simp only at hvec
  subst hvec
  unfold syncUpdateX syncUpdateProg opSyncUpdate
  rw [vecEmpty_colVec _ _ hcols hnd]
  by_cases hcv : cv = []
  · subst hcv
    evwith [absW, pyObj]
    simp [absUnit, outOf, quiet, objOf, untag]
    exact state_set_self _ _ _ ho
  · have hn : (c.ncols = 0) = False := by
      obtain ⟨e, he⟩ := List.exists_mem_of_ne_nil _ hcv
      have := hcols e he
      simp; intro h0; rw [h0] at this; exact absurd this (Nat.not_lt_zero _)
    evwith [absW, pyObj, hn, hcv]
    generalize hM : mapR _ cv = m
    have hm := mapR_ok_of hM (fun e => (e.1, PV.pair (.name e.1) (ofVal e.2))) (by
      intro x hx
      have := hcols x hx
      simp [this])
    subst hm
    clear hM
    simp only [bind_ok, sortByKey_map, List.map_map]
    evwith []
    generalize hM : mapR _ (sortByKey cv) = m
    have hm := mapR_ok_of hM (fun e => PV.pair (.dbName e.1) (ofVal e.2)) (by
      intro x hx
      have := hcols x (by rw [← mem_sortByKey]; exact hx)
      simp [this])
    subst hm
    clear hM
    evwith []
    generalize hF : forLoop _ _ _ = r
    obtain ⟨vs', rfl, -⟩ := post_loop' hF rfl id rfl
    clear hF
    evwith []
    simp [absUnit, outOf, quiet, objOf, untag, vecOfPairs_eq, colVec_sortByKey _ _ hnd, colVec_nil, afterUpdate, Function.comp_def]

theorem objs_set_self {α : Type} (l : List α) (h : Nat) (o : α) (ho : l[h]? = some o) : l.set h o = l := by
  apply List.ext_getElem?
  intro i
  rw [List.getElem?_set]
  split
  · next hi => subst hi; split <;> simp_all
  · rfl

@[simp] theorem evOps_delete (fuel : Nat) (w : World) : (evOps fuel).delete w = w.o.id.map fun i =>
    { w with rows := delRows w.rows i, log := w.log ++ [(w.lvl, Entry.del i)] } := rfl
@[simp] theorem evOps_cascade (fuel : Nat) (w : World) : (evOps fuel).cascade w = some w := rfl

theorem destroySelfX_eq (fuel : Nat) (c : Cfg) (s : State) (h : Nat) (o : Events.Obj) (cv : Kw)
    (ho : s.objs[h]? = some o) (hrep : Rep c.ncols cv o.pending) :
    absUnit s h (destroySelfX fuel (absW c s (pyObj o cv))) = some (opDestroy c s o) := by
  obtain ⟨id, pending⟩ := o
  obtain ⟨hnd, hcols, hvec⟩ := hrep
  simp only at hvec
  subst hvec
  unfold destroySelfX destroySelfProg opDestroy
  evwith [absW, pyObj]
  generalize hF : forLoop _ _ _ = r
  obtain ⟨vs', rfl, -⟩ := post_loop' hF rfl id rfl
  clear hF
  evwith []
  generalize hF : forLoop _ _ _ = r
  obtain ⟨vs'', rfl, -⟩ := post_loop' hF rfl id rfl
  clear hF
  evwith []
  simp [absUnit, outOf, quiet, objOf, untag, Function.comp_def, objs_set_self _ _ _ ho]

end SqlObjVerif.Events
