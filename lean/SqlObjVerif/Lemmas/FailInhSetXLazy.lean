import SqlObjVerif.Lemmas.FailInhSetXLoop
/-!
C06, `SQLObject.set(self, _suppress_set_sig=b, **kw)` on a LAZY class with extra keywords whose setters are TRANSLATED
code (any call table satisfying `SimCall`): = the hand-compiled tree `Fail.setProg sch c id kw ex .done` under the
schedule (`inj`, `vqOf kw ++ vqEx ex`), for both values of the suppress flag.  Generalisation of `setF_extras_lazy_core`
(`Lemmas/FailXSetExLazy.lean`).
-/
namespace SqlObjVerif.PyFail
open SqlObjVerif.PyMain (PV FnKind Flag Expr Cond LExpr Target DRef ColAttr R mapR ofOpt PDict CVal
  dget dhas dset dupdate dictOf sortByKey ofVal toVal? pvIdx pyBool nameOf natOf itemsOf dbNameOf optMap
  updItemOf dictItemOf cvOf Block)
open SqlObjVerif.PyMain.Extracted
open SqlObjVerif.Fail (Err Schema Inj Extra clsOf hit exec bump applyMem Mem updPending rowVals In allOk)
open SqlObjVerif.PyPure (dset_not_mem dictOf_nodup filter_fst_none filter_fst_all mapR_ok_of filter_fst_map nodup_keys_filter)
open SqlObjVerif.FailInhSet (exOk)

theorem setT_extras_lazy_core (call : CallT) (hcall : SimCall call) (b : Bool)
    (sch : Schema) (inj : Option Inj) (props : Nat → Extra) (s : Fail.St) (c id : Nat)
    (pd kw exs : List (Nat × In))
    (hl : (clsOf sch c).lazy = true) (hnd : (pd.map (·.1)).Nodup)
    (hkwF : pd.filter (fun x => Nat.blt x.1 (clsOf sch c).cols.length) = kw)
    (hexF : pd.filter (fun x => !Nat.blt x.1 (clsOf sch c).cols.length) = exs)
    (hexok : ∀ e ∈ exs, exOk sch c (props e.1)) :
    viewObs (setFWith call b (mkW sch inj props s c id (vqOf kw ++ vqEx (exs.map fun e => props e.1))) (kwPV pd)) =
      some (runObs (Fail.run sch inj (Fail.setProg sch c id kw (exs.map fun e => props e.1) .done) s)) := by
  have hlt : ∀ e ∈ kw, e.1 < (clsOf sch c).cols.length := by
    intro e he; rw [← hkwF, List.mem_filter] at he; simpa [Nat.blt_eq] using he.2
  have hge : ∀ e ∈ exs, Nat.blt e.1 (clsOf sch c).cols.length = false := by
    intro e he; rw [← hexF, List.mem_filter] at he; simpa using he.2
  have hkwnd : (kw.map (·.1)).Nodup := hkwF ▸ nodup_keys_filter pd _ hnd
  have hexnd : (exs.map (·.1)).Nodup := hexF ▸ nodup_keys_filter pd _ hnd
  have hf1 := filter_fst_map pd (fun x => !Nat.blt x.fst (clsOf sch c).cols.length) (fun x => (PV.name x.fst).pair (ofVal x.snd.val))
  have hf2 := filter_fst_map pd (fun x => Nat.blt x.fst (clsOf sch c).cols.length) (fun x => (PV.name x.fst).pair (ofVal x.snd.val))
  rw [hexF] at hf1
  rw [hkwF] at hf2
  have hkw0 : dictOf (kw.map fun e => (e.1, ofVal e.2.val)) = kw.map fun e => (e.1, ofVal e.2.val) :=
    dictOf_nodup _ (by simpa [Function.comp_def] using hkwnd)
  have hex0 : dictOf (exs.map fun e => (e.1, ofVal e.2.val)) = exs.map fun e => (e.1, ofVal e.2.val) :=
    dictOf_nodup _ (by simpa [Function.comp_def] using hexnd)
  clear hkwF hexF hnd
  unfold setFWith setProg set_nlocals set_nlists set_ndicts
  pfonly [hl, kwPV, hf1, hf2, hkw0, hex0]
  simp only [Function.comp_def]
  generalize hF : forLoop _ _ _ = r
  obtain ⟨hOk, hBad⟩ := set_for0_loop call kw
    { sch := sch, inj := inj, props := props, s := s, c := c, id := id, creating := false,
      nobj := { vals := [], cv := [], dirty := false }, sigSuppress := false, lock := false,
      vq := vqOf kw ++ vqEx (exs.map fun e => props e.1) }
    (vqEx (exs.map fun e => props e.1)) (some (.bool b)) none none none none none none none none none none none [[], [], []] (kwPV kw) (kwPV exs) [] []
    rfl (fun e he => by simpa [Nat.blt_eq] using hlt e he) hkwnd (by simp)
    (fun e he => dset_same _ _ _ (by simpa [kwPV, Function.comp_def] using hkwnd)
      (List.mem_map.mpr ⟨e, he, by simp [pvOfIn]⟩))
  simp only [kwPV, pvOfIn] at hOk hBad
  cases hok : allOk kw
  · obtain ⟨st', q, hb, hw⟩ := hBad hok
    have hr : r = .exc st' .invalid := hF.symm.trans hb
    subst hr
    clear hF hOk hBad hb
    pfonly [hw]
    simp [viewObs, Outcome.view, runObs, Fail.setProg, hl, run_event, Fail.run_validates, hok]
  · obtain ⟨b3, b4, b5, b6, b7, hb⟩ := hOk hok
    have hr : r = _ := hF.symm.trans hb
    subst hr
    clear hF hOk hBad hb
    simp only [setSt]
    pfonly [kwPV]
    simp only [Function.comp_def]
    generalize hF : forLoop _ _ _ = r
    obtain ⟨p3, hp⟩ := set_for1_loop call (exs.map (·.1))
      { sch := sch, inj := inj, props := props, s := s, c := c, id := id, creating := false,
        nobj := { vals := [], cv := [], dirty := false }, sigSuppress := false, lock := false, vq := vqEx (exs.map fun e => props e.1) }
      (some (.bool b)) none none b3 b4 b5 b6 b7 none none none none [[], [], []]
      (List.map (fun e => (e.1, ofVal e.2.val)) kw) (List.map (fun e => (e.1, ofVal e.2.val)) exs)
      (List.map (fun e => (e.1, ofVal e.2.val)) kw) []
      (fun k hk => by
        obtain ⟨e, he, rfl⟩ := List.mem_map.mp hk
        exact hge e he)
    simp only [setSt, List.map_map, Function.comp_def] at hp
    have hr : r = _ := hF.symm.trans hp
    subst hr
    clear hF hp
    have hasg : (Fail.asgOf kw).isEmpty = kw.isEmpty := by cases kw <;> rfl
    cases hun : Fail.hasUnknown (exs.map fun e => props e.1)
    · pfonly []
      simp only [Function.comp_def]
      have hitems : kw.map (fun x => (PV.name x.1).pair (ofVal x.2.val)) =
          (Fail.asgOf kw).map fun e => PV.pair (.name e.1) (ofVal e.2) := by simp [Fail.asgOf]
      rw [hitems]
      generalize hF : forLoop _ _ _ = r
      obtain ⟨c3, c4, hcl⟩ := set_cache_loop call set_for2 rfl (Fail.asgOf kw)
        { sch := sch, inj := inj, props := props, s := s, c := c, id := id, creating := false,
          nobj := { vals := [], cv := [], dirty := false }, sigSuppress := false, lock := false, vq := vqEx (exs.map fun e => props e.1) }
        (some (.bool b)) none none p3 b4 b5 b6 b7 none none none none [[], [], []]
        (List.map (fun e => (e.1, ofVal e.2.val)) kw) (List.map (fun e => (e.1, ofVal e.2.val)) exs)
        (List.map (fun e => (e.1, ofVal e.2.val)) kw) []
      have hr : r = _ := hF.symm.trans hcl
      subst hr
      clear hF hcl
      rw [setVals_eq _ _ rfl]
      simp only [setSt]
      pfonly [cvOf_kwPV, FW.updCV]
      simp only [Function.comp_def]
      -- the state the Python side reached by several in-memory steps = the hand model's `.mem (.pend …)`, up to `changes`
      generalize hspy : bump _ _ = spy
      have hobs : obs spy = obs (memStep (.pend c id (Fail.asgOf kw)) s) := by
        rw [← hspy]
        simp [obs, cacheFold_core, cacheFold_rest]
        simp only [applyMem, mapInst_mapInst']
      clear hspy
      generalize hF : forLoop _ _ _ = r
      obtain ⟨e3, e4, s1, q, he, hobs1, _⟩ := set_extra_loopT call hcall set_for3 set_for3_eq exs
        { sch := sch, inj := inj, props := props, s := spy, c := c, id := id, creating := false,
          nobj := { vals := [], cv := [], dirty := false }, sigSuppress := false, lock := false,
          vq := vqEx (exs.map fun e => props e.1) } []
        (some (.bool b)) none none c3 c4 b5 b6 b7 none none none none [[], [], []]
        (List.map (fun e => (e.1, ofVal e.2.val)) kw) (List.map (fun e => (e.1, ofVal e.2.val)) exs)
        (List.map (fun e => (e.1, ofVal e.2.val)) kw) [] hge rfl (by simp) hexok
      simp only [setSt, pvOfIn] at he hobs1
      have hr : r = _ := hF.symm.trans he
      subst hr
      clear hF he
      -- the hand model: validation and pre-check passed, `.mem (.pend …)`, the extras loop, the dirty flag
      have hhand : Fail.run sch inj (Fail.setProg sch c id kw (exs.map fun e => props e.1) .done) s =
          Fail.run sch inj (Fail.extras sch c id (exs.map fun e => props e.1)
            (if (Fail.asgOf kw).isEmpty then .done else .mem (.dirty c id true) .done))
            (memStep (.pend c id (Fail.asgOf kw)) s) := by
        simp only [Fail.setProg, hl, if_true]
        frun [Fail.run_validates, hok, Fail.run_precheck, hun]
      have hsim := (run_sim sch inj _ (noDyn_extras sch c id (exs.map fun e => props e.1)
        (if (Fail.asgOf kw).isEmpty then .done else .mem (.dirty c id true) .done)
        (by split <;> simp [noDyn])) _ _ hobs).runObs_eq
      rw [hhand, ← hsim, run_extras_bind sch inj c id (exs.map fun e => props e.1)
        (if (Fail.asgOf kw).isEmpty then .done else .mem (.dirty c id true) .done) spy]
      generalize Fail.run sch inj (Fail.extras sch c id (exs.map fun e => props e.1) .done) spy = rx at hobs1
      obtain ⟨m1, x⟩ := rx
      cases x with
      | some e =>
        pfonly [FW.setS]
        simp [viewObs, Outcome.view, runObs, hobs1]
      | none =>
        simp only [thenRun_none]
        have hsim2 := (run_sim sch inj (if (Fail.asgOf kw).isEmpty then .done else .mem (.dirty c id true) .done)
          (by split <;> simp [noDyn]) s1 m1 hobs1).runObs_eq
        rw [← hsim2]
        clear hsim2 hobs1
        by_cases hP : kw = []
        · subst hP
          pfonly [FW.setS]
          simp [viewObs, Outcome.view, runObs, Fail.asgOf, run_done]
        · have hasg' : ¬ Fail.asgOf kw = [] := by simpa [Fail.asgOf] using hP
          pfonly [hP, FW.setS, FW.setDirty, FW.mem]
          simp [viewObs, Outcome.view, runObs, hasg', run_mem, run_done]
    · pfonly []
      simp [viewObs, Outcome.view, runObs, Fail.setProg, hl, run_event, Fail.run_validates, hok, Fail.run_precheck, hun]


end SqlObjVerif.PyFail
