import SqlObjVerif.Lemmas.DdlXExtra
/-!
# C14 translation — the connection classes: `createIDColumn`, `joinSQLType`, `_SO_createJoinTableSQL`
(and the image of the class being created)
-/
namespace SqlObjVerif.DdlX
open SqlObjVerif.Ddl
open SqlObjVerif.PyDdl hiding Str isUpperC
open SqlObjVerif.PyDdl.Extracted

variable {x : ClsX}

@[simp] theorem attrOf_soClassV (I : Iface) (decl : Decl) (c0 : Val) :
    attrOf I (soClassV decl c0 x) "sqlmeta" = .ok (metaV decl c0 x) := rfl

macro "ideval" : tactic =>
  `(tactic| pyxc [connCls, metaV, idTypeV, idSizeV, idText, anyEq, attrRes, keyOf, Ddl.Extracted.tables, Ddl.Extracted.idSuffix])

set_option maxHeartbeats 2000000 in
/-- `createIDColumn` of the seven connection classes = `idText` -/
theorem createIDColumn_eq (n : Nat) (d : Dialect) (c : Caps) (decl : Decl) (c0 : Val) :
    callN prog ddlI (n + 2) (.meth (connCls d) M_createIDColumn) [connV d c, soClassV decl c0 x] =
      resS (idText TX d decl) := by
  obtain ⟨cn, sty, lid, tbl, idn, ids, sz, cols, ixs, js⟩ := decl
  cases d <;> cases ids <;> cases sz <;> ideval

theorem joinSQLType_eq (n : Nat) (d : Dialect) (c : Caps) (j : Val) :
    callN prog ddlI (n + 1) (.meth (connCls d) M_joinSQLType) [connV d c, j] = .ok (.str (TX.joinType d)) := by
  cases d <;> pyxc [connCls, Ddl.Extracted.tables, Ddl.Extracted.joinType]

/-- a join object, as far as the DDL code reads it -/
def joinV (j : Join) : Val :=
  .obj C_SQLObject [("intermediateTable", .str j.table), ("joinColumn", .str j.joinColumn),
    ("otherColumn", .str j.otherColumn)]

/-- `_SO_createJoinTableSQL` = `joinTableSQL` -/
theorem createJoinTableSQL_eq (n : Nat) (d : Dialect) (c : Caps) (j : Join) :
    callN prog ddlI (n + 2) (.meth (connCls d) M__SO_createJoinTableSQL) [connV d c, joinV j] =
      .ok (.str (joinTableSQL TX d j)) := by
  have hj := fun jv => joinSQLType_eq n d c jv
  cases d <;>
    (rw [callX_succ _ _ _ _ (by rfl)]
     pyxwith [joinV, joinTableSQL, Ddl.Extracted.tables])

end SqlObjVerif.DdlX
