import SqlObjVerif.Model.JoinsX
import SqlObjVerif.Lemmas.Joins
/-!
Symbolic execution of the TRANSLATED join accessors (C13), part 1: generic lemmas about the PyJoins embedding, the
projections of the interface records `iface0` / `jIface` (the records stay FOLDED in proofs), one lemma per (handle,
attribute) of the interface functions, and the simp set `jrun`.
-/
namespace SqlObjVerif.PyJoins
variable {H W : Type}

@[simp] theorem toList_ofList (l : List (Val H)) : (Val.ofList l).toList = some l := by
  induction l with
  | nil => rfl
  | cons v l ih => simp [Val.ofList, Val.toList, ih]

theorem ofList_of_toList : ∀ (v : Val H) (l : List (Val H)), v.toList = some l → Val.ofList l = v
  | .nil, l, h => by simp [Val.toList] at h; subst h; rfl
  | .cons a t, l, h => by
    simp only [Val.toList] at h
    cases ht : t.toList with
    | none => simp [ht] at h
    | some l' =>
      simp [ht] at h; subst h
      simp [Val.ofList, ofList_of_toList t l' ht]
  | .none, _, h | .bool _, _, h | .int _, _, h | .str _, _, h | .obj _, _, h | .pair _ _, _, h | .tup _, _, h
  | .ref _, _, h | .clos _ _, _, h | .dict _, _, h | .app _ _, _, h => by simp [Val.toList] at h

@[simp] theorem pyBool_bool (b : Bool) : pyBool (.bool b : Val H) = b := rfl
@[simp] theorem pyBool_none : pyBool (.none : Val H) = false := rfl
@[simp] theorem pyBool_obj (h : H) : pyBool (.obj h : Val H) = true := rfl

@[simp] theorem Res.seq_norm (st : St H W) (k : St H W → Res H W) : (Res.norm st).seq k = k st := by rw [Res.seq]
@[simp] theorem Res.seq_ret (st : St H W) (v : Val H) (k : St H W → Res H W) : (Res.ret st v).seq k = .ret st v := by simp only [Res.seq]
@[simp] theorem Res.seq_exc (st : St H W) (e : Exc) (k : St H W → Res H W) : (Res.exc st e).seq k = .exc st e := by simp only [Res.seq]
@[simp] theorem Res.seq_stuck (k : St H W → Res H W) : (Res.stuck : Res H W).seq k = .stuck := by simp only [Res.seq]
@[simp] theorem Res.catch_norm (st : St H W) (c : String) (k : St H W → Res H W) : (Res.norm st).catch c k = .norm st := by simp only [Res.catch]
@[simp] theorem Res.catch_ret (st : St H W) (v : Val H) (c : String) (k : St H W → Res H W) : (Res.ret st v).catch c k = .ret st v := by simp only [Res.catch]
@[simp] theorem Res.catch_exc (st : St H W) (e : Exc) (c : String) (k : St H W → Res H W) :
    (Res.exc st e).catch c k = if e = c then k st else .exc st e := by simp only [Res.catch]
@[simp] theorem Res.catch_stuck (c : String) (k : St H W → Res H W) : (Res.stuck : Res H W).catch c k = .stuck := by simp only [Res.catch]

@[simp] theorem Heap.set_cells (h : Heap H) (r : Nat) (l : List (Val H)) (r' : Nat) :
    (h.set r l).cells r' = if r' = r then some l else h.cells r' := rfl
@[simp] theorem Heap.set_next (h : Heap H) (r : Nat) (l : List (Val H)) : (h.set r l).next = h.next := rfl
@[simp] theorem Heap.alloc_cells (h : Heap H) (l : List (Val H)) (r' : Nat) :
    (h.alloc l).cells r' = if r' = h.next then some l else h.cells r' := rfl
@[simp] theorem Heap.alloc_next (h : Heap H) (l : List (Val H)) : (h.alloc l).next = h.next + 1 := rfl

theorem Heap.set_set (h : Heap H) (r : Nat) (l l' : List (Val H)) : (h.set r l).set r l' = h.set r l' := by
  simp only [Heap.set]; congr 1; funext r'; by_cases hr : r' = r <;> simp [hr]

theorem mapR_ok_of {α β : Type} (f : α → R β) (g : α → β) (l : List α) (h : ∀ x ∈ l, f x = .ok (g x)) :
    mapR f l = .ok (l.map g) := by
  induction l with
  | nil => rfl
  | cons a l ih =>
    simp only [mapR, h a (by simp), ih (fun x hx => h x (by simp [hx])), List.map_cons]

end SqlObjVerif.PyJoins

namespace SqlObjVerif.Joins
open SqlObjVerif.Graph
open SqlObjVerif.PyJoins
open SqlObjVerif.PyJoins.Extracted

section iface
variable (P : Params) (self : PVal) (rec apply : DB → Heap Hnd → List PVal → CallRes Hnd DB)
@[simp] theorem jIface_self : (jIface P self rec apply).self = self := rfl
@[simp] theorem jIface_getAttr : (jIface P self rec apply).getAttr = jGetAttr P := rfl
@[simp] theorem jIface_getAttrDyn : (jIface P self rec apply).getAttrDyn = jGetAttrDyn P := rfl
@[simp] theorem jIface_glob : (jIface P self rec apply).glob = jGlob := rfl
@[simp] theorem jIface_isinstance : (jIface P self rec apply).isinstance = jIsinstance := rfl
@[simp] theorem jIface_eqOver : (jIface P self rec apply).eqOver = jEqOver := rfl
@[simp] theorem jIface_index : (jIface P self rec apply).index = jIndex P := rfl
@[simp] theorem jIface_query : (jIface P self rec apply).query = jQuery P := rfl
@[simp] theorem jIface_fn : (jIface P self rec apply).fn = jFn P := rfl
@[simp] theorem jIface_lt : (jIface P self rec apply).lt = jLt := rfl
@[simp] theorem jIface_sort : (jIface P self rec apply).sort = insSort := rfl
@[simp] theorem jIface_callG (db heap args) : (jIface P self rec apply).callG db heap "doSort" args = rec db heap args := rfl
@[simp] theorem jIface_call_apply (db heap args) :
    (jIface P self rec apply).call db heap self "_applyOrderBy" args [] = apply db heap args := by
  simp
@[simp] theorem iface0_self : (iface0 P self).self = self := rfl
@[simp] theorem iface0_getAttr : (iface0 P self).getAttr = jGetAttr P := rfl
@[simp] theorem iface0_fn_int (db : DB) (n : Int) : (iface0 P self).fn db "int" [.int n] = .ok (.int n) := rfl
end iface

section attrs
variable (P : Params) (db : DB)
@[simp] theorem ga_inst_id (k j) : jGetAttr P db (.obj (.inst k j)) "id" = .ok (.int j) := by simp [jGetAttr]
@[simp] theorem ga_inst_conn (k j) : jGetAttr P db (.obj (.inst k j)) "_connection" = .ok (.obj .conn) := by simp [jGetAttr]
@[simp] theorem ga_inst_meta (k j) : jGetAttr P db (.obj (.inst k j)) "sqlmeta" = .ok (.obj (.imeta k j)) := by simp [jGetAttr]
@[simp] theorem ga_imeta_pc (k j) : jGetAttr P db (.obj (.imeta k j)) "_perConnection" = .ok (.bool P.D.perConn) := by simp [jGetAttr]
@[simp] theorem ga_mjoin_oc : jGetAttr P db (.obj .mjoin) "otherClass" = .ok (.obj (.cls P.D.other)) := by simp [jGetAttr]
@[simp] theorem ga_mjoin_jc : jGetAttr P db (.obj .mjoin) "joinColumn" = .ok (.obj (.col P.D.fkcol)) := by simp [jGetAttr]
@[simp] theorem ga_mjoin_ob : jGetAttr P db (.obj .mjoin) "orderBy" = .ok P.D.orderBy := by simp [jGetAttr]
@[simp] theorem ga_mjoin_md : jGetAttr P db (.obj .mjoin) "makeDefault" = .ok (.bool P.D.makeDefault) := by simp [jGetAttr]
@[simp] theorem ga_rjoin_oc : jGetAttr P db (.obj .rjoin) "otherClass" = .ok (.obj (.cls P.D.other)) := by simp [jGetAttr]
@[simp] theorem ga_rjoin_it : jGetAttr P db (.obj .rjoin) "intermediateTable" = .ok (.obj (.tbl P.D.table)) := by simp [jGetAttr]
@[simp] theorem ga_rjoin_jc : jGetAttr P db (.obj .rjoin) "joinColumn" = .ok (.obj (.lcol P.D.ownFirst)) := by simp [jGetAttr]
@[simp] theorem ga_rjoin_otc : jGetAttr P db (.obj .rjoin) "otherColumn" = .ok (.obj (.lcol (!P.D.ownFirst))) := by simp [jGetAttr]
@[simp] theorem ga_rjoin_ob : jGetAttr P db (.obj .rjoin) "orderBy" = .ok P.D.orderBy := by simp [jGetAttr]
@[simp] theorem ga_cls_q (k) : jGetAttr P db (.obj (.cls k)) "q" = .ok (.obj (.qns k)) := by simp [jGetAttr]
@[simp] theorem ga_fld_orig (a) : jGetAttr P db (.obj (.fld a)) "original" = .ok (.str (P.nm a)) := by simp [jGetAttr]
@[simp] theorem ga_desc_expr (a) : jGetAttr P db (.obj (.desc a)) "expr" = .ok (.obj (.fld a)) := by simp [jGetAttr]
@[simp] theorem ga_int_id (n : Int) : jGetAttr P db (.int n) "id" = .exc "AttributeError" := by simp [jGetAttr]
@[simp] theorem gad_inst (k j) (s : List Char) : jGetAttrDyn P db (.obj (.inst k j)) (.str s) =
    .ok (match P.pval j s with | some z => .int z | none => .none) := rfl
@[simp] theorem gad_qns (k f) : jGetAttrDyn P db (.obj (.qns k)) (.obj (.pycol f)) = .ok (.obj (.field k f)) := rfl
end attrs

@[simp] theorem jGlob_Min : jGlob "Min" = some (.obj .min) := rfl

macro "jrun" : tactic => `(tactic|
  simp [Block.exec, Stmt.exec, Cond.eval, Expr.eval, Exprs.eval, St.setVar, St.setOpt, afterCall, zipKw,
        starKwOf, Const.val, isInstAny, builtinIs, jIsinstance, Env.ofArgs, Res.toCall, *])

end SqlObjVerif.Joins
