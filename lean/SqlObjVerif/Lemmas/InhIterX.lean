import SqlObjVerif.Model.InhIterX
import SqlObjVerif.Lemmas.InhSelXBase
/-!
Symbolic execution of the TRANSLATED `InheritableIteration.fetchChildren` (two cursors explicit, `Model/InhIterX.lean`):
its first loop groups the ids of the batch by `childName` (`loop0_run`), its innermost loop stores the prefetched rows by
id (`loop2_run`), for every batch.  The middle loop and the whole method are not proved for all inputs yet (closed runs
in `Props/C15.lean`).
-/
set_option linter.unusedSimpArgs false
namespace SqlObjVerif.InhIter
open SqlObjVerif.PyIS
open SqlObjVerif.PyIS.Extracted
open SqlObjVerif.InhSel (toList_ofList isListVal_ofList)

@[simp] theorem iIface_self (X : ICtx) : (iIface X).self = .ref 30 0 := rfl
@[simp] theorem iIface_attrOf (X : ICtx) : (iIface X).attrOf = iAttrOf X := rfl
@[simp] theorem iIface_setAttrOf (X : ICtx) : (iIface X).setAttrOf = iSetAttrOf := rfl
@[simp] theorem iIface_global (X : ICtx) (n : String) :
    (iIface X).global n = if n = "findClass" then some (.ref 9 2) else none := rfl
@[simp] theorem iIface_call (X : ICtx) : (iIface X).call = iCall X := rfl
@[simp] theorem iIface_callFn (X : ICtx) : (iIface X).callFn = iCallFn := rfl

theorem isListVal_vdSet (k v : Val) : ∀ d, isListVal d = true → isListVal (vdSet k v d) = true := by
  intro d
  fun_induction vdSet k v d <;> simp_all [isListVal]

theorem isListVal_vlAppend (v : Val) : ∀ d, isListVal (vlAppend v d) = true := by
  intro d
  fun_induction vlAppend v d <;> simp_all [isListVal]

theorem vdGet_vdSet (k v k' : Val) : ∀ d, vdGet k' (vdSet k v d) = if k' = k then some v else vdGet k' d := by
  intro d
  by_cases hk : k' = k
  · subst hk
    fun_induction vdSet k' v d <;> simp_all [vdGet]
  · have hk' : ¬ k = k' := fun e => hk e.symm
    fun_induction vdSet k v d <;> simp_all [vdGet]

macro "itrun" "[" ts:Lean.Parser.Tactic.simpLemma,* "]" : tactic => `(tactic|
  simp [PyIS.run, Block.exec, Stmt.exec, Cond.eval, Expr.eval, Expr.evalList, eval2, evalArgs, evalStar, St.setVar,
        St.setOpt, afterCall, Res.toCall, zipKw, withList, setAttrRes, orThen, listOnly, indexRes, Env.ofArgs, iAttrOf,
        iSetAttrOf, iCall, iCallFn, Val.isNone, natOf, eqVal, inVal, $ts,*])

/-- child rows as the second cursor returns them: id first, then a list -/
def crowV (r : Nat × Val) : Val := .cons (.nat r.1) r.2

/-- loop 2: the prefetched rows are stored by id -/
theorem loop2_run (X : ICtx) : ∀ (rs : List (Nat × Val)) (st : St IW), (∀ r, r ∈ rs → isListVal r.2 = true) →
    isListVal st.w.children = true →
    ∃ st', forLoop (fun st a => fetchChildren_loop2.exec (iIface X) none (st.setVar 2 a)) (fun st => .norm st)
        (rs.map crowV) st = .norm st' ∧ st'.w = { st.w with children := rs.foldl storeRow st.w.children } ∧
      ∀ y, y ≠ 2 → st'.env y = st.env y := by
  intro rs
  induction rs with
  | nil => intro st _ _; exact ⟨st, rfl, rfl, fun _ _ => rfl⟩
  | cons r rs ih =>
    intro st hl hc
    have hr := hl r List.mem_cons_self
    have hstep : fetchChildren_loop2.exec (iIface X) none (st.setVar 2 (crowV r)) =
        .norm { w := { st.w with children := storeRow st.w.children r }, env := st.env.put 2 (crowV r) } := by
      unfold fetchChildren_loop2 storeRow
      by_cases hb : pyBool r.2 = true <;>
        itrun [crowV, vlIdx, vlDrop, isListVal, hr, hc, hb]
    have hc' : isListVal (storeRow st.w.children r) = true := by
      unfold storeRow
      exact isListVal_vdSet _ _ _ hc
    obtain ⟨st', e2, w2, f2⟩ := ih { w := { st.w with children := storeRow st.w.children r }, env := st.env.put 2 (crowV r) }
      (fun r' hr' => hl r' (List.mem_cons_of_mem _ hr')) hc'
    refine ⟨st', ?_, by simpa using w2, fun y hy => by rw [f2 y hy]; simp [hy]⟩
    simp only [List.map_cons, forLoop, hstep, e2]

theorem pyBool_kn (d : Nat) : pyBool (Val.kindName d) = true := rfl

/-- every entry of the grouping dict is a list -/
def GoodG (g : Val) : Prop := isListVal g = true ∧ ∀ k, isListVal ((vdGet k g).getD .nil) = true

theorem goodG_step (g : Val) (r : Nat × List Val × Option Nat) (hg : GoodG g) : GoodG (groupStep g r) := by
  unfold groupStep
  cases r.2.2 with
  | none => exact hg
  | some d =>
    refine ⟨isListVal_vdSet _ _ _ hg.1, fun k => ?_⟩
    rw [vdGet_vdSet]
    by_cases hk : k = .kindName d
    · simp [hk, isListVal_vlAppend]
    · simp [hk, hg.2 k]

theorem rowV_isList (j : Nat) (cols : List Val) (tag : Option Nat) : isListVal (rowV j cols tag) = true := by
  simp [rowV, isListVal, isListVal_ofList]

theorem vlIdx_ofList_append (cols : List Val) (v : Val) : vlIdx cols.length (Val.ofList (cols ++ [v])) = some v := by
  induction cols with
  | nil => rfl
  | cons c cols ih => simpa [Val.ofList, vlIdx] using ih

theorem rowV_tag (j : Nat) (cols : List Val) (tag : Option Nat) :
    vlIdx (cols.length + 1) (rowV j cols tag) = some (tagV tag) := by
  simp [rowV, vlIdx, vlIdx_ofList_append]

/-- loop 0: the ids of the batch are grouped by `childName` -/
theorem loop0_run (X : ICtx) (n : Nat) : ∀ (rs : List (Nat × List Val × Option Nat)) (st : St IW) (g : Val),
    (∀ r, r ∈ rs → r.2.1.length = n) → GoodG g → st.env 0 = some g → st.env 1 = some (.nat n) →
    ∃ st', forLoop (fun st a => fetchChildren_loop0.exec (iIface X) none (st.setVar 2 a)) (fun st => .norm st)
        (rs.map fun r => rowV r.1 r.2.1 r.2.2) st = .norm st' ∧ st'.w = st.w ∧
      st'.env 0 = some (rs.foldl groupStep g) ∧ ∀ y, y ≠ 0 → y ≠ 2 → y ≠ 3 → st'.env y = st.env y := by
  intro rs
  induction rs with
  | nil => intro st g _ _ h0 _; exact ⟨st, rfl, rfl, h0, fun _ _ _ _ => rfl⟩
  | cons r rs ih =>
    intro st g hl hg h0 h1
    obtain ⟨j, cols, tag⟩ := r
    have hlen : cols.length = n := hl _ List.mem_cons_self
    have hstep : ∃ st1, fetchChildren_loop0.exec (iIface X) none (st.setVar 2 (rowV j cols tag)) = .norm st1 ∧
        st1.w = st.w ∧ st1.env 0 = some (groupStep g (j, cols, tag)) ∧
        ∀ y, y ≠ 0 → y ≠ 2 → y ≠ 3 → st1.env y = st.env y := by
      unfold fetchChildren_loop0 groupStep
      have ht := rowV_tag j cols tag
      rw [hlen] at ht
      have h00 : vlIdx 0 (rowV j cols tag) = some (.nat j) := rfl
      cases tag with
      | none =>
        itrun [h0, h1, rowV_isList, ht, tagV]
        intro y a b c; simp [b, c]
      | some d =>
        itrun [h0, h1, rowV_isList, ht, tagV, h00, hg.1, hg.2 (.kindName d), pyBool_kn]
        intro y a b c; simp [a, b, c]
    obtain ⟨st1, e1, w1, r1, f1⟩ := hstep
    obtain ⟨st', e2, w2, r2, f2⟩ := ih st1 _ (fun r' hr' => hl r' (List.mem_cons_of_mem _ hr')) (goodG_step g _ hg) r1
      (by rw [f1 1 (by decide) (by decide) (by decide)]; exact h1)
    refine ⟨st', ?_, w2.trans w1, by simpa using r2, fun y a b c => (f2 y a b c).trans (f1 y a b c)⟩
    simp only [List.map_cons, forLoop, e1, e2]

end SqlObjVerif.InhIter
