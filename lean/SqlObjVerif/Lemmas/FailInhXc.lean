import SqlObjVerif.Lemmas.FailInhXb
/-!
C06, the TRANSLATED `InheritableSQLObject._create` against the `Fail` machinery — part (c): the class chain read from
the schema (`ancs_chain`), the split of the keyword dict (`split_parent`, `split_own`), and ONE LEVEL of the translated
method: `createX_root` (a class without parent: `SQLObject._create` only, whatever it raises is re-raised unchanged) and
`createX_child` (the constructor of the parent class is the parameter `C`, assumed to end as `consRes p w1 oe`; then the
own creation under `try … except BaseException`, the clean-up `self._parent.destroySelf()`, the re-raise).
-/
set_option linter.unusedSimpArgs false
namespace SqlObjVerif.Fail.InhX
open SqlObjVerif.PyInh (Iface CallRes R Exc ExcCls vdGet vdHas vdSet forLoop pairBody isListVal pyBool)
open SqlObjVerif.PyInh.Extracted (create_loop0 create_loop1)

/-! ### the chain from the schema -/

theorem ancs_chain (sch : Schema) : ∀ (L : List Nat) (c : Nat) (n : Nat), Chain sch (c :: L) → (c :: L).length ≤ n →
    ancs sch n c = c :: L := by
  intro L
  induction L with
  | nil =>
    intro c n hch hn
    obtain ⟨m, rfl⟩ : ∃ m, n = m + 1 := ⟨n - 1, by simp at hn; omega⟩
    simp only [Chain] at hch
    simp [ancs, hch]
  | cons p L ih =>
    intro c n hch hn
    obtain ⟨m, rfl⟩ : ∃ m, n = m + 1 := ⟨n - 1, by simp at hn; omega⟩
    simp only [Chain] at hch
    simp only [ancs, hch.1]
    rw [ih p m hch.2 (by simp at hn ⊢; omega)]

/-! ### the split of the keyword dict -/

theorem toParent_eq (X : Ctx) (p : Nat) (L : List Nat) (h : ancs X.sch X.depth p = L) (k : PVal) :
    toParent X p k = keyIn L k := by
  cases k <;> simp [toParent, keyIn, h]

theorem tagEntry_keyIn (X : Ctx) (tag : Option Nat) (L : List Nat) :
    (tagEntry X tag).filter (fun e => keyIn L e.1) = [] := by
  cases tag <;> simp [tagEntry, keyIn]

theorem tagEntry_not_keyIn (X : Ctx) (tag : Option Nat) (L : List Nat) :
    (tagEntry X tag).filter (fun e => !keyIn L e.1) = tagEntry X tag := by
  cases tag <;> simp [tagEntry, keyIn]

theorem split_parent (X : Ctx) (c : Nat) (L : List Nat) (es : List (PVal × PVal)) (tag : Option Nat) :
    (es.filter (fun e => keyIn (c :: L) e.1) ++ tagEntry X tag).filter (fun e => keyIn L e.1) =
      es.filter (fun e => keyIn L e.1) := by
  rw [List.filter_append, tagEntry_keyIn, List.append_nil, List.filter_filter]
  apply List.filter_congr
  intro e _
  cases h : e.1 <;> simp [keyIn]
  intro h'; exact Or.inr h'

theorem split_own (X : Ctx) (c : Nat) (L : List Nat) (hc : c ∉ L) (es : List (PVal × PVal)) (tag : Option Nat) :
    (es.filter (fun e => keyIn (c :: L) e.1) ++ tagEntry X tag).filter (fun e => !keyIn L e.1) =
      es.filter (fun e => keyIn [c] e.1) ++ tagEntry X tag := by
  rw [List.filter_append, tagEntry_not_keyIn, List.filter_filter]
  congr 1
  apply List.filter_congr
  intro e _
  cases h : e.1 <;> simp [keyIn]
  rename_i a j
  by_cases hac : a = c
  · subst hac; simp [hc]
  · simp [hac]

theorem keyIn_name {L : List Nat} {k : PVal} (h : keyIn L k = true) : ∃ a j, k = PyInh.Val.name a j := by
  cases k <;> simp [keyIn] at h
  exact ⟨_, _, rfl⟩

/-- the keys of the dict a level receives: column names of the chain, then possibly `childName`; pairwise distinct -/
theorem dict_keys_ok (X : Ctx) (L : List Nat) (es : List (PVal × PVal)) (tag : Option Nat) :
    ∀ e, e ∈ es.filter (fun e => keyIn L e.1) ++ tagEntry X tag → KwKey e.1 := by
  intro e he
  rcases List.mem_append.mp he with h | h
  · exact Or.inl (keyIn_name (List.mem_filter.mp h).2)
  · cases tag with
    | none => simp [tagEntry] at h
    | some d =>
      simp only [tagEntry, List.mem_singleton] at h
      subst h; exact Or.inr rfl

theorem dict_keys_nodup (X : Ctx) (L : List Nat) (es : List (PVal × PVal)) (tag : Option Nat)
    (hnd : (es.map (·.1)).Nodup) : ((es.filter (fun e => keyIn L e.1) ++ tagEntry X tag).map (·.1)).Nodup := by
  rw [List.map_append, List.nodup_append]
  refine ⟨(List.filter_sublist.map _).nodup hnd, ?_, ?_⟩
  · cases tag <;> simp [tagEntry]
  · intro k1 hk1 k2 hk2 heq
    subst heq
    obtain ⟨e1, he1, rfl⟩ := List.mem_map.mp hk1
    obtain ⟨a, j, hk⟩ := keyIn_name (List.mem_filter.mp he1).2
    cases tag with
    | none => simp [tagEntry] at hk2
    | some d => simp [tagEntry, hk] at hk2

theorem dictOf_noKw (X : Ctx) (L : List Nat) (es : List (PVal × PVal)) (tag : Option Nat) :
    vdGet (.str "kw") (dictOf X L es tag) = none := by
  simp only [dictOf, vdGet_pairsOf, Option.map_eq_none_iff, List.find?_eq_none]
  intro e he
  rcases dict_keys_ok X L es tag e he with ⟨a, j, hk⟩ | hk <;> simp [hk]

/-- all keywords name columns of the chain: the dict is `es` itself -/
theorem dictOf_full (X : Ctx) (L : List Nat) (es : List (PVal × PVal)) (h : ∀ e, e ∈ es → keyIn L e.1 = true) :
    dictOf X L es none = PyInh.Val.ofList (pairsOf es) := by
  simp only [dictOf, tagEntry, List.append_nil]
  rw [List.filter_eq_self.mpr h]

/-- a required column (no default) of a non-root level has its keyword -/
def Required (X : Ctx) (L : List Nat) (es : List (PVal × PVal)) : Prop :=
  ∀ c, c ∈ L → (clsOf X.sch c).parent ≠ none → ∀ j, j < (clsOf X.sch c).cols.length → X.nodefault c j = true →
    ∃ v, (PyInh.Val.name c j, v) ∈ es

theorem vdHas_own (X : Ctx) (c : Nat) (es : List (PVal × PVal)) (tag : Option Nat) (j : Nat) (v : PVal)
    (h : (PyInh.Val.name c j, v) ∈ es) :
    vdHas (.name c j) (PyInh.Val.ofList (pairsOf (es.filter (fun e => keyIn [c] e.1) ++ tagEntry X tag))) = true := by
  simp only [vdHas, vdGet_pairsOf, Option.isSome_map, List.find?_isSome]
  refine ⟨(.name c j, v), List.mem_append_left _ (List.mem_filter.mpr ⟨h, by simp [keyIn]⟩), by simp⟩

theorem colList_cols (X : Ctx) (a : Nat) : ∀ col, col ∈ (List.range (clsOf X.sch a).cols.length).map (colObj a) →
    ∃ j, j < (clsOf X.sch a).cols.length ∧ col = colObj a j := by
  intro col hc
  simp only [List.mem_map, List.mem_range] at hc
  obtain ⟨j, hj, rfl⟩ := hc
  exact ⟨j, hj, rfl⟩

/-! ### one level -/

/-- how `_create` ends (it returns None) -/
def createCall (r : FW × Option Err) : CallRes FW :=
  match r.2 with
  | none => .ret r.1 .none
  | some e => .exc r.1 (excOf e)

/-- how the constructor of class `p` ends: the new instance, whose id is `lastrowid` -/
def consRes (p : Nat) (w1 : FW) (oe : Option Err) : CallRes FW :=
  match oe with
  | none => .ret w1 (.inst 0 p w1.st.lastId)
  | some e => .exc w1 (excOf e)

/-- the root level: `SQLObject._create` only; whatever it raises is re-raised -/
def rootSpec (X : Ctx) (c : Nat) (kw : List (Nat × In)) (w : FW) : FW × Option Err :=
  (w.setSt (run X.sch X.inj (Fail.createProg X.sch c none false kw [] fun _ => .done) w.st).1,
   (run X.sch X.inj (Fail.createProg X.sch c none false kw [] fun _ => .done) w.st).2)

/-- the clean-up in world `w2` after the own creation failed with `e` -/
def cleanupW (X : Ctx) (c p pid : Nat) (w2 : FW) (e : Err) : FW × Option Err :=
  match (run X.sch X.inj (destroyProg X.sch X.fuel p pid (dropsOf (ancs X.sch X.depth p) pid)) w2.st).2 with
  | none => ((w2.setSt (run X.sch X.inj (destroyProg X.sch X.fuel p pid (dropsOf (ancs X.sch X.depth p) pid)) w2.st).1).setPar c .none,
             some e)
  | some e2 => (w2.setSt (run X.sch X.inj (destroyProg X.sch X.fuel p pid (dropsOf (ancs X.sch X.depth p) pid)) w2.st).1, some e2)

/-- the own creation of a child level in world `w2` (the parent instance `p#pid` exists) -/
def ownW (X : Ctx) (c p pid : Nat) (kw : List (Nat × In)) (w2 : FW) : FW × Option Err :=
  match (run X.sch X.inj (ownTree X.sch c pid kw) w2.st).2 with
  | none => (w2.setSt (run X.sch X.inj (ownTree X.sch c pid kw) w2.st).1, none)
  | some e => cleanupW X c p pid (w2.setSt (run X.sch X.inj (ownTree X.sch c pid kw) w2.st).1) e

/-- `_create` of class `c` once the constructor of the parent class `p` has ended in `w1` with `oe` -/
def afterParent (X : Ctx) (c p : Nat) (kw : List (Nat × In)) (w1 : FW) (oe : Option Err) : FW × Option Err :=
  match oe with
  | some e => (w1, some e)
  | none => ownW X c p w1.st.lastId kw (w1.setPar c (.inst 0 p w1.st.lastId))

theorem createX_root (X : Ctx) (C : Construct) (w : FW) (c : Nat) (es : List (PVal × PVal)) (tag : Option Nat)
    (hp : (clsOf X.sch c).parent = none)
    (kwv : PVal) (hkw : kwv = dictOf X [c] es tag ∨ kwv = .cons (.pair (.str "kw") (dictOf X [c] es tag)) .nil) :
    createX X C w c .none kwv = createCall (rootSpec X c (levelKw X c es tag) w) := by
  have hk0 := dictOf_noKw X [c] es tag
  have hl : isListVal (dictOf X [c] es tag) = true := isListVal_ofList _
  have hent : entriesOf (dictOf X [c] es tag) = es.filter (fun e => keyIn [c] e.1) ++ tagEntry X tag :=
    entriesOf_ofList _
  unfold createX PyInh.Extracted.createProg PyInh.Extracted.create_nlocals rootSpec createCall levelKw
  rcases hkw with rfl | rfl
  all_goals
    fhrun
    simp [vdHas, vdGet, hk0, hl, superCreate, hent]
    generalize run X.sch X.inj _ w.st = r
    obtain ⟨s1, oe⟩ := r
    cases oe <;> simp [fromRun] <;> fhrun

theorem parentKw_eq (X : Ctx) (c : Nat) (L : List Nat) (es : List (PVal × PVal)) :
    vdSet (.str "childName") (.int (X.tagVal c)) (PyInh.Val.ofList (pairsOf (es.filter (fun e => keyIn L e.1)))) =
      dictOf X L es (some c) := by
  rw [vdSet_fresh]
  · rfl
  · intro e he
    obtain ⟨a, j, hk⟩ := keyIn_name (List.mem_filter.mp he).2
    simp [hk]

/-- the hypotheses of one child level -/
structure ChildHyp (X : Ctx) (C : Construct) (w : FW) (c p : Nat) (rest : List Nat) (es : List (PVal × PVal))
    (w1 : FW) (oe : Option Err) : Prop where
  hp : (clsOf X.sch c).parent = some p
  hanc : ancs X.sch X.depth p = p :: rest
  hc : c ∉ p :: rest
  hnd : (es.map (·.1)).Nodup
  hreq : ∀ j, j < (clsOf X.sch c).cols.length → X.nodefault c j = true → ∃ v, (PyInh.Val.name c j, v) ∈ es
  hcons : C w p (dictOf X (p :: rest) es (some c)) = consRes p w1 oe

set_option hygiene false in
macro "child_tac" H:ident : tactic => `(tactic| (
  obtain ⟨hp, hanc, hc, hnd, hreq, hcons⟩ := $H
  have hk0 := dictOf_noKw X (c :: p :: rest) es tag
  have hl : isListVal (dictOf X (c :: p :: rest) es tag) = true := isListVal_ofList _
  have htl : PyInh.Val.toList (dictOf X (c :: p :: rest) es tag) =
      some (pairsOf (es.filter (fun e => keyIn (c :: p :: rest) e.1) ++ tagEntry X tag)) := toList_ofList _
  have hkeys := dict_keys_ok X (c :: p :: rest) es tag
  have hnd' := dict_keys_nodup X (c :: p :: rest) es tag hnd
  have hso := split_own X c (p :: rest) hc es tag
  have hsp := split_parent X c (p :: rest) es tag
  have htp : (fun e : PVal × PVal => toParent X p e.1) = fun e => keyIn (p :: rest) e.1 := by
    funext e; exact toParent_eq X p _ hanc e.1
  have htn : (fun e : PVal × PVal => !toParent X p e.1) = fun e => !keyIn (p :: rest) e.1 := by
    funext e; rw [toParent_eq X p _ hanc e.1]
  have hent : entriesOf (PyInh.Val.ofList (pairsOf (es.filter (fun e => keyIn [c] e.1) ++ tagEntry X tag))) =
      es.filter (fun e => keyIn [c] e.1) ++ tagEntry X tag := entriesOf_ofList _
  unfold createX PyInh.Extracted.createProg PyInh.Extracted.create_nlocals
  fhrun
  simp [vdHas, vdGet, hk0, hl, htl]
  generalize hF : forLoop _ _ _ = r
  obtain ⟨v5', v6', rfl⟩ := create_loop0_run' X C _ p hF hkeys hnd'
  simp only [htp, htn, hso, hsp]
  clear hF
  fhrun
  simp [colList, toList_ofList]
  generalize hF : forLoop _ _ _ = r
  obtain ⟨v7', rfl⟩ := create_loop1_run' X C _ c (isListVal_ofList _)
    (fun j hj hd => by obtain ⟨v, hv⟩ := hreq j hj hd; exact vdHas_own X c es tag j v hv) hF (colList_cols X c)
  simp [isListVal_ofList, parentKw_eq, kwGet, PyInh.zipKw, hcons, consRes]
  clear hF
  cases oe with
  | some e => simp [afterParent, createCall]
  | none =>
    simp only [afterParent, ownW, createCall]
    fhrun
    simp only [superCreate, hent, levelKw, setPar_st]
    generalize run X.sch X.inj (ownTree _ _ _ _) _ = r
    obtain ⟨s2, oe2⟩ := r
    cases oe2 with
    | none => simp [fromRun]
    | some e =>
      simp [fromRun, cleanupW]
      fhrun
      simp [destroyCall, hanc]
      generalize run X.sch X.inj (destroyProg _ _ _ _ _) _ = r3
      obtain ⟨s3, oe3⟩ := r3
      cases oe3 <;> simp [fromRun] <;> fhrun))

/-- a child level entered with `**kw` (the application's call) -/
theorem createX_child_plain (X : Ctx) (C : Construct) (w : FW) (c p : Nat) (rest : List Nat) (es : List (PVal × PVal))
    (tag : Option Nat) (w1 : FW) (oe : Option Err) (H : ChildHyp X C w c p rest es w1 oe) :
    createX X C w c .none (dictOf X (c :: p :: rest) es tag) =
      createCall (afterParent X c p (levelKw X c es tag) w1 oe) := by
  child_tac H

/-- a child level entered with `kw=<dict>` (the constructor call of the level below) -/
theorem createX_child_wrapped (X : Ctx) (C : Construct) (w : FW) (c p : Nat) (rest : List Nat) (es : List (PVal × PVal))
    (tag : Option Nat) (w1 : FW) (oe : Option Err) (H : ChildHyp X C w c p rest es w1 oe) :
    createX X C w c .none (.cons (.pair (.str "kw") (dictOf X (c :: p :: rest) es tag)) .nil) =
      createCall (afterParent X c p (levelKw X c es tag) w1 oe) := by
  child_tac H

theorem createX_child (X : Ctx) (C : Construct) (w : FW) (c p : Nat) (rest : List Nat) (es : List (PVal × PVal))
    (tag : Option Nat) (w1 : FW) (oe : Option Err) (H : ChildHyp X C w c p rest es w1 oe)
    (kwv : PVal) (hkw : kwv = dictOf X (c :: p :: rest) es tag ∨
      kwv = .cons (.pair (.str "kw") (dictOf X (c :: p :: rest) es tag)) .nil) :
    createX X C w c .none kwv = createCall (afterParent X c p (levelKw X c es tag) w1 oe) := by
  rcases hkw with rfl | rfl
  · exact createX_child_plain X C w c p rest es tag w1 oe H
  · exact createX_child_wrapped X C w c p rest es tag w1 oe H
end SqlObjVerif.Fail.InhX
