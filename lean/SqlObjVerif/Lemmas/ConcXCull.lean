import SqlObjVerif.Lemmas.ConcXBase
/-!
# C09 — `CacheFactory.cull` (translated), called directly or embedded in `get` / `created`, simulates the `Conc`
# actions of a cull, pc kind by pc kind

`idx_stride`: the ids `Conc` visits (`strideKeys off frac (keys of cache)`) are `keys[i]` for `i` in Python's
`range(off, len(keys), frac)` (`pyRange`), in order.
-/
namespace SqlObjVerif.ConcX
open SqlObjVerif.PyCache (Val Block Stmt Dict DictAttr Expr Cond dget dset ddel dhasKey pyRange)
open SqlObjVerif.PyCache.Extracted
open SqlObjVerif.PyCacheSS
open SqlObjVerif.Conc (Id Obj Op Out K Pc State AInv AMap holds aget aset adel akeys stride strideKeys goto finish)

theorem mod_step (frac q : Nat) (hf : 0 < frac) :
    ((q + 1) % frac = 0) ↔ (frac - 1 ≤ q ∧ (q - (frac - 1)) % frac = 0) := by
  by_cases h : frac - 1 ≤ q
  · have e : q + 1 = (q - (frac - 1)) + frac := by omega
    rw [e, Nat.add_mod_right]
    simp [h]
  · have hlt : q + 1 < frac := by omega
    rw [Nat.mod_eq_of_lt hlt]
    simp [h]

theorem idx_stride_aux (frac : Nat) (hf : 0 < frac) (keys : List Val) :
    ∀ (m : AMap) (n d : Nat), (∀ p, p < m.length → keys[n + p]? = (m[p]?).map (fun e => Val.key e.1)) →
      Idx keys (((List.range m.length).filter (fun p => decide (d ≤ p) && decide ((p - d) % frac = 0))).map (fun p => Val.int (n + p)))
        (stride d frac (akeys m)) := by
  intro m
  induction m with
  | nil => intro n d _; simp [stride, akeys, Idx]
  | cons e m ih =>
    intro n d hk
    have hk' : ∀ p, p < m.length → keys[(n + 1) + p]? = (m[p]?).map (fun e => Val.key e.1) := by
      intro p hp
      have := hk (p + 1) (by simp; omega)
      simpa [Nat.add_assoc, Nat.add_comm 1 p] using this
    rw [List.length_cons, List.range_succ_eq_map]
    simp only [List.filter_cons, List.filter_map, List.map_map, akeys, List.map_cons]
    cases d with
    | zero =>
      have h0 := hk 0 (by simp)
      simp only [Nat.zero_le, decide_true, Nat.sub_zero, Nat.zero_mod, Bool.and_self, if_true, List.map_cons, stride, Idx]
      refine ⟨⟨n, by simp, by simpa using h0⟩, ?_⟩
      have := ih (n + 1) (frac - 1) hk'
      simp only [akeys] at this
      have hfun : ((fun p => true && decide (p % frac = 0)) ∘ Nat.succ)
          = (fun p => decide (frac - 1 ≤ p) && decide ((p - (frac - 1)) % frac = 0)) := by
        funext q
        have := mod_step frac q hf
        simp only [Function.comp, Bool.true_and, Nat.succ_eq_add_one]
        by_cases h1 : (q + 1) % frac = 0
        · have h2 := this.1 h1; simp [h1, h2.1, h2.2]
        · have h2 : ¬ (frac - 1 ≤ q ∧ (q - (frac - 1)) % frac = 0) := fun h => h1 (this.2 h)
          simp only [h1, decide_false]
          by_cases h3 : frac - 1 ≤ q
          · have : ¬ (q - (frac - 1)) % frac = 0 := fun h => h2 ⟨h3, h⟩
            simp [this]
          · simp [h3]
      rw [hfun]
      have hm : ((fun p => Val.int (n + p)) ∘ Nat.succ) = (fun p => Val.int (n + 1 + p)) := by
        funext q; simp [Function.comp]; omega
      rw [List.map_map, hm]
      exact this
    | succ d' =>
      have := ih (n + 1) d' hk'
      simp only [akeys] at this
      have hfun : ((fun p => decide (d' + 1 ≤ p) && decide ((p - (d' + 1)) % frac = 0)) ∘ Nat.succ)
          = (fun p => decide (d' ≤ p) && decide ((p - d') % frac = 0)) := by
        funext q
        simp [Function.comp]
      have hm : ((fun p => Val.int (n + p)) ∘ Nat.succ) = (fun p => Val.int (n + 1 + p)) := by
        funext q; simp [Function.comp]; omega
      simp only [Nat.le_zero_eq, Nat.add_one_ne_zero, decide_false, Bool.false_and, Bool.false_eq_true, if_false, stride]
      rw [List.map_map, hm, hfun]
      exact this

theorem idx_stride (off frac : Nat) (hf : 0 < frac) (m : AMap) :
    Idx (m.map (fun e => Val.key e.1)) ((pyRange off m.length frac).map Val.int) (strideKeys off frac (akeys m)) := by
  have := idx_stride_aux frac hf (m.map (fun e => Val.key e.1)) m 0 off (by intro p _; simp)
  simp only [Nat.zero_add] at this
  unfold strideKeys pyRange
  rw [if_neg (by omega)]
  exact this

theorem idx_nil_right (keys ivs) (h : Idx keys ivs []) : ivs = [] := by
  cases ivs with
  | nil => rfl
  | cons a l => exact h.elim

theorem idx_cons_right (keys ivs) (r : Id) (rs : List Id) (h : Idx keys ivs (r :: rs)) :
    ∃ j ivs', ivs = Val.int j :: ivs' ∧ keys[j]? = some (Val.key r) ∧ Idx keys ivs' rs := by
  cases ivs with
  | nil => exact h.elim
  | cons a l =>
    obtain ⟨⟨j, rfl, hj⟩, hr⟩ := h
    exact ⟨j, l, rfl, hj, hr⟩

theorem good_cuEntry (s : State) (t : Tid) (ha : AInv s)
    (hpc : (s.th t).pc = .cuEntry) (x : XTh) (hx : ThSim s.dc (s.th t) x) : Good s t x := by
  have hnl : s.lock ≠ some t := nonholder s t ha (by rw [hpc]; rfl)
  xintro
  obtain ⟨rfl, rfl⟩ := hp
  cases hc : s.caches <;> cases hdc : s.dc <;> simp only [Bool.and_self, Bool.and_true, Bool.and_false, Bool.false_eq_true, if_true, if_false]
  case true.true => xstep [hnl, hc, hdc]; xclose [hpc, hdc]
  all_goals (xstep [hnl, hc, hdc]; xfin [hpc])

theorem good_cuAcq (s : State) (t : Tid) (k : K) (ha : AInv s)
    (hpc : (s.th t).pc = .cuAcq k) (x : XTh) (hx : ThSim s.dc (s.th t) x) : Good s t x := by
  xintro
  obtain ⟨hk, rfl, rfl⟩ := hp
  cases hl : s.lock with
  | none => dsimp only; cases k <;> simp only [outerOK] at hk <;> (xstep [outerFs, ccCK, hl, hk]; xclose [hpc, hk])
  | some u => dsimp only; cases k <;> simp only [outerOK] at hk <;> xstep [outerFs, ccCK, hl, hk]


/-! ## loop 0: dead weak references -/
theorem good_cuWeakKeys (s : State) (t : Tid) (k : K) (ha : AInv s)
    (hpc : (s.th t).pc = .cuWeakKeys k) (x : XTh) (hx : ThSim s.dc (s.th t) x) : Good s t x := by
  have hl : s.lock = some t := (ha.holder t).1 (by rw [hpc]; rfl)
  xintro
  obtain ⟨hk, rfl, rfl⟩ := hp
  cases hw : s.weak with
  | nil =>
    cases k <;> simp only [outerOK] at hk <;>
      (xstep [Conc.cuWeakNext, akeys, outerFs, ccCK, hl, hk, hw]; xclose [hpc, hk])
  | cons e w =>
    obtain ⟨a, b⟩ := e
    cases k <;> simp only [outerOK] at hk <;>
      (xstep [Conc.cuWeakNext, akeys, outerFs, ccCK, hl, hk, hw]; xclose [hpc, hk, akeys])

theorem good_cuWeakChk (s : State) (t : Tid) (k : K) (ks : List Id) (ha : AInv s)
    (hpc : (s.th t).pc = .cuWeakChk k ks) (x : XTh) (hx : ThSim s.dc (s.th t) x) : Good s t x := by
  have hl : s.lock = some t := (ha.holder t).1 (by rw [hpc]; rfl)
  have hn := (ha.needW t).2
  rw [hpc] at hn
  cases ks with
  | nil => obtain ⟨_, _, hp⟩ := hx; rw [hpc] at hp; exact hp.elim
  | cons key rest =>
  xintro
  obtain ⟨hk, rfl, l0, rfl⟩ := hp
  have hn' := hn key (by simp [Conc.needW])
  cases h : aget s.weak key with
  | none => exact absurd h hn'
  | some o =>
    dsimp only
    cases hal : Conc.alive s o
    · have hal' : Conc.aliveIn s.refs (s.pins ++ Conc.ovals s.olds) s.strong o = false := hal
      simp only [Bool.false_eq_true, if_false]
      cases k <;> simp only [outerOK] at hk <;>
        (xstep [outerFs, ccCK, hl, hk, h, hal']; xclose [hpc, hk])
    · have hal' : Conc.aliveIn s.refs (s.pins ++ Conc.ovals s.olds) s.strong o = true := hal
      simp only [if_true]
      cases rest with
      | nil =>
        cases k <;> simp only [outerOK] at hk <;>
          (xstep [Conc.cuWeakNext, outerFs, ccCK, hl, hk, h, hal']; xclose [hpc, hk])
      | cons r rs =>
        cases k <;> simp only [outerOK] at hk <;>
          (xstep [Conc.cuWeakNext, outerFs, ccCK, hl, hk, h, hal']; xclose [hpc, hk])

theorem good_cuWeakPop (s : State) (t : Tid) (k : K) (key : Id) (o : Obj) (rest : List Id) (ha : AInv s)
    (hpc : (s.th t).pc = .cuWeakPop k key o rest) (x : XTh) (hx : ThSim s.dc (s.th t) x) : Good s t x := by
  have hl : s.lock = some t := (ha.holder t).1 (by rw [hpc]; rfl)
  xintro
  obtain ⟨hk, rfl, l0, rfl⟩ := hp
  cases rest with
  | nil =>
    cases k <;> simp only [outerOK] at hk <;>
      (xstep [Conc.cuWeakNext, outerFs, ccCK, hl, hk]; xclose [hpc, hk])
  | cons r rs =>
    cases k <;> simp only [outerOK] at hk <;>
      (xstep [Conc.cuWeakNext, outerFs, ccCK, hl, hk]; xclose [hpc, hk])


/-! ## loop 1: every `cullFraction`-th entry of `cache` moves to `expiredCache` -/
set_option hygiene false in
/-- the `PcSim` goal of a step that lands on `cuStrongGet`: witnesses from the index relation -/
macro "xget" : tactic =>
  `(tactic| (simp only [goto, Conc.setTh_self, Conc.cuStrongNext, PcSim]
             exact ⟨by simp [outerOK, hk], rfl, _, _, _, _, _, hI', rfl⟩))

theorem good_cuStrongKeys (s : State) (t : Tid) (k : K) (ha : AInv s) (hf : 0 < s.frac)
    (hpc : (s.th t).pc = .cuStrongKeys k) (x : XTh) (hx : ThSim s.dc (s.th t) x) : Good s t x := by
  have hl : s.lock = some t := (ha.holder t).1 (by rw [hpc]; rfl)
  have hf' : s.frac ≠ 0 := by omega
  have hI := idx_stride s.off s.frac hf s.strong
  xintro
  obtain ⟨hk, rfl, v0, l0, rfl⟩ := hp
  cases hsk : strideKeys s.off s.frac (akeys s.strong) with
  | nil =>
    rw [hsk] at hI
    have hiv := idx_nil_right _ _ hI
    cases k <;> simp only [outerOK] at hk <;>
      (xstep [Conc.cuStrongNext, outerFs, ccCK, offOf', hpc, hl, hk, hf', hiv]; xclose [hpc, hk])
  | cons i rest =>
    rw [hsk] at hI
    obtain ⟨j, ivs', hiv, hj, hI'⟩ := idx_cons_right _ _ _ _ hI
    cases k <;> simp only [outerOK] at hk <;>
      (xstep [Conc.cuStrongNext, outerFs, ccCK, offOf', hpc, hl, hk, hf', hiv, hj]; xclose0 [hpc, hk]; xget)

theorem good_cuStrongGet (s : State) (t : Tid) (k : K) (i : Id) (rest : List Id) (ha : AInv s)
    (hpc : (s.th t).pc = .cuStrongGet k i rest) (x : XTh) (hx : ThSim s.dc (s.th t) x) : Good s t x := by
  have hl : s.lock = some t := (ha.holder t).1 (by rw [hpc]; rfl)
  have hn := (ha.needS t).2 i (by rw [hpc]; simp [Conc.needS])
  xintro
  obtain ⟨hk, rfl, v0, j, v3, keys, ivs, hI', rfl⟩ := hp
  cases h : aget s.strong i with
  | none => exact absurd h hn
  | some o =>
    dsimp only
    cases k <;> simp only [outerOK] at hk <;>
      (xstep [outerFs, ccCK, hl, hk, h]; xclose0 [hpc, hk]
       simp only [goto, Conc.setTh_self, PcSim]
       exact ⟨by simp [outerOK, hk], rfl, _, _, _, _, hI', rfl⟩)

theorem good_cuStrongDel (s : State) (t : Tid) (k : K) (i : Id) (o : Obj) (rest : List Id) (ha : AInv s) (hf : 0 < s.frac)
    (hpc : (s.th t).pc = .cuStrongDel k i o rest) (x : XTh) (hx : ThSim s.dc (s.th t) x) : Good s t x := by
  have hl : s.lock = some t := (ha.holder t).1 (by rw [hpc]; rfl)
  have hf' : s.frac ≠ 0 := by omega
  have hn := (ha.needS t).2 i (by rw [hpc]; simp [Conc.needS])
  xintro
  obtain ⟨hk, rfl, v0, j, keys, ivs, hI, rfl⟩ := hp
  cases h : aget s.strong i with
  | none => exact absurd h hn
  | some p =>
    dsimp only
    cases hal : Conc.aliveIn s.refs (s.pins ++ Conc.ovals s.olds) (adel s.strong i) o
    · simp only [Bool.false_eq_true, if_false]
      cases rest with
      | nil =>
        have hiv := idx_nil_right _ _ hI
        subst hiv
        cases k <;> simp only [outerOK] at hk <;>
          (xstep [Conc.cuStrongNext, outerFs, ccCK, offOf', hpc, hl, hk, hf', h, hal]; xclose [hpc, hk])
      | cons i' rest' =>
        obtain ⟨j', ivs', rfl, hj, hI'⟩ := idx_cons_right _ _ _ _ hI
        cases k <;> simp only [outerOK] at hk <;>
          (xstep [Conc.cuStrongNext, outerFs, ccCK, offOf', hpc, hl, hk, hf', h, hal, hj]; xclose0 [hpc, hk]; xget)
    · simp only [if_true]
      cases k <;> simp only [outerOK] at hk <;>
        (xstep [outerFs, ccCK, hl, hk, h, hal]; xclose0 [hpc, hk]
         simp only [goto, Conc.setTh_self, PcSim]
         exact ⟨by simp [outerOK, hk], rfl, _, _, _, _, hI, rfl⟩)

theorem good_cuWeakSet (s : State) (t : Tid) (k : K) (i : Id) (o : Obj) (rest : List Id) (ha : AInv s) (hf : 0 < s.frac)
    (hpc : (s.th t).pc = .cuWeakSet k i o rest) (x : XTh) (hx : ThSim s.dc (s.th t) x) : Good s t x := by
  have hl : s.lock = some t := (ha.holder t).1 (by rw [hpc]; rfl)
  have hf' : s.frac ≠ 0 := by omega
  have hdw := dset_eq_aset i o s.weak ha.wkeys
  xintro
  obtain ⟨hk, rfl, v0, j, keys, ivs, hI, rfl⟩ := hp
  cases rest with
  | nil =>
    have hiv := idx_nil_right _ _ hI
    subst hiv
    cases k <;> simp only [outerOK] at hk <;>
      (xstep [Conc.cuStrongNext, outerFs, ccCK, offOf', hpc, hl, hk, hf', hdw]; xclose [hpc, hk])
  | cons i' rest' =>
    obtain ⟨j', ivs', rfl, hj, hI'⟩ := idx_cons_right _ _ _ _ hI
    cases k <;> simp only [outerOK] at hk <;>
      (xstep [Conc.cuStrongNext, outerFs, ccCK, offOf', hpc, hl, hk, hf', hdw, hj]; xclose0 [hpc, hk]; xget)

theorem good_cuRel (s : State) (t : Tid) (k : K) (ha : AInv s)
    (hpc : (s.th t).pc = .cuRel k) (x : XTh) (hx : ThSim s.dc (s.th t) x) : Good s t x := by
  have hl : s.lock = some t := (ha.holder t).1 (by rw [hpc]; rfl)
  xintro
  obtain ⟨hk, rfl, v0, v1, v2, v3, l0, rfl⟩ := hp
  rw [hl]
  dsimp only
  cases k <;> simp only [outerOK] at hk
  case get i => xstep [Conc.afterCC, outerFs, ccCK, offOf', hpc, hl, hk]; xclose [hpc, hk]
  case create i o => xstep [Conc.afterCC, outerFs, ccCK, offOf', hpc, hl, hk]; xclose [hpc, hk]
  case cull => xstep [Conc.afterCC, outerFs, ccCK, offOf', hpc, hl, hk]; xfin [hpc]

theorem good_cuRelErr (s : State) (t : Tid)
    (hpc : (s.th t).pc = .cuRelErr) (x : XTh) (hx : ThSim s.dc (s.th t) x) : Good s t x := by
  obtain ⟨_, _, hp⟩ := hx
  rw [hpc] at hp
  exact hp.elim

end SqlObjVerif.ConcX
