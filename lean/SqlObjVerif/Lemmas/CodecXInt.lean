import SqlObjVerif.Lemmas.CodecXBase
/-!
# CodecX — the translated IntValidator = the hand model
-/
namespace SqlObjVerif.PyCodec

open SqlObjVerif.Codec (Str PyVal FTok SPiece DT)
open Extracted

/-! ### IntValidator -/

theorem int_float (t : FTok) : runV cfgInt intToPython (.float t) = some (Codec.intV (.float t)) := by
  cases t with
  | lit t =>
    cases h : Codec.floatClass t <;>
    pyxw [intToPython, intToPython_s0, intToPython_s1, intToPython_s2, intToPython_s3, intToPython_s4, intToPython_for0,
      Codec.intV, floatFracM, intOfFloatM, Codec.intOfFloat, h]
  | ofInt i =>
    by_cases h : Codec.exactInt i = true <;>
    pyxw [intToPython, intToPython_s0, intToPython_s1, intToPython_s2, intToPython_s3, intToPython_s4, intToPython_for0,
      Codec.intV, floatFracM, intOfFloatM, Codec.intOfFloat, h]

theorem intToPython_eq (v : PyVal) : runV cfgInt intToPython v = some (Codec.intV v) := by
  cases v with
  | float t => exact int_float t
  | _ => rfl

end SqlObjVerif.PyCodec
