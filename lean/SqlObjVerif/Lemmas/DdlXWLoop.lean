import SqlObjVerif.Lemmas.DdlXW
/-!
# C14 translation (stateful part) — `createJoinTables`, `dropJoinTables`, `createIndexes` = `createLinks`,
`dropLinks`, `createIdx` of the catalogue model
-/
namespace SqlObjVerif.DdlX
open SqlObjVerif.Ddl
open SqlObjVerif.PyDdl hiding Str isUpperC
open SqlObjVerif.PyDdl.Extracted

variable {x : ClsX}

/-- `_getJoinsToCreate` on the class object -/
theorem getJoinsToCreate_cls (n : Nat) (decl : Decl) (c0 : Val) :
    callN prog ddlI (n + 1) (.meth C_SQLObject M__getJoinsToCreate) [soClassV decl c0 x] =
      .ok (.list ((joinsToCreateX x.joins).map jV)) := by
  rw [callX_succ _ _ _ _ res_SQLObject__getJoinsToCreate]
  obtain ⟨env', h1, h2⟩ := joins_loop (callN prog ddlI n) x.joins []
    ((Env.ofArgs [soClassV decl c0 x]).put 1 (.list [])) (by simp)
  simp [SQLObject___getJoinsToCreate_fn, SQLObject___getJoinsToCreate, SQLObject___getJoinsToCreate_s0,
    SQLObject___getJoinsToCreate_s1, SQLObject___getJoinsToCreate_s2, Fn.run, Fn.args, Block.exec, Stmt.exec, Expr.eval,
    Exprs.eval, Res.seq_norm, aget, metaV, h1, h2, joinsToCreateX]

/-- the loop of `createJoinTables` -/
theorem createLinks_loop (n : Nat) (d : Dialect) (c : Caps) (ine : Bool) (l : List JoinD)
    (hb : ∀ j ∈ l, 32 ∉ j.join.table) : ∀ (w : Cat) (env : Env),
      env 1 = some (.bool ine) → env 3 = some (connV d c) →
      match createLinks ine (l.map (·.join.table)) w with
      | .ok w' => ∃ env', forLoopW (loopStepW 4 fun w e => Block.execW (callNW prog ddlI EX (n + 3))
          (callN prog ddlI (n + 3)) IX EX w e SQLObject__createJoinTables_for0) (l.map jV) w env = .norm w' env'
      | .error _ => ∃ w' env', forLoopW (loopStepW 4 fun w e => Block.execW (callNW prog ddlI EX (n + 3))
          (callN prog ddlI (n + 3)) IX EX w e SQLObject__createJoinTables_for0) (l.map jV) w env =
            .exc w' env' .operationalError := by
  induction l with
  | nil => intro w env _ _; exact ⟨env, rfl⟩
  | cons j l ih =>
    intro w env h1 h3
    have hbj := hb j (by simp)
    have hc := connCreateJoinTable n d c j w hbj
    have ih' := ih (fun k hk => hb k (by simp [hk]))
    simp only [List.map_cons, createLinks]
    by_cases hm : j.join.table ∈ w.tables
    · cases ine
      · -- plain create of an existing table fails
        simp only [Bool.false_eq_true, false_and, if_false, hm, if_true]
        refine ⟨w, env.put 4 (jV j), ?_⟩
        pyw [forLoopW, loopStepW, SQLObject__createJoinTables_for0, createRes, hm]
      · simp only [hm, and_self, if_true]
        have := ih' w (env.put 4 (jV j)) (by simpa using h1) (by simpa using h3)
        revert this
        cases createLinks true (l.map (·.join.table)) w <;> intro this
        · obtain ⟨w', env', h⟩ := this
          refine ⟨w', env', ?_⟩
          rw [← h]; pyw [forLoopW, loopStepW, SQLObject__createJoinTables_for0, hm]
        · obtain ⟨env', h⟩ := this
          refine ⟨env', ?_⟩
          rw [← h]; pyw [forLoopW, loopStepW, SQLObject__createJoinTables_for0, hm]
    · simp only [hm, and_false, if_false]
      have := ih' (addTbl j.join.table w) (env.put 4 (jV j)) (by simpa using h1) (by simpa using h3)
      revert this
      cases createLinks ine (l.map (·.join.table)) (addTbl j.join.table w) <;> intro this
      · obtain ⟨w', env', h⟩ := this
        refine ⟨w', env', ?_⟩
        rw [← h]; cases ine <;> pyw [forLoopW, loopStepW, SQLObject__createJoinTables_for0, createRes, hm]
      · obtain ⟨env', h⟩ := this
        refine ⟨env', ?_⟩
        rw [← h]; cases ine <;> pyw [forLoopW, loopStepW, SQLObject__createJoinTables_for0, createRes, hm]

/-- the link tables this class owns, as the model's `Req.links` (before `linksOf`) -/
def linkNames (js : List (Option JoinD)) : List Name := ((js.filterMap id).filter eligible).map (·.join.table)

theorem joinsToCreate_names (js : List (Option JoinD)) :
    (joinsToCreateX js).map (·.join.table) = linksOf true (linkNames js) := joinsToCreate_tables js

/-- **`SQLObject.createJoinTables(ifNotExists, connection)` translated = `createLinks`** over the link tables that
    `_getJoinsToCreate` selects (= `linksOf true` of the owned ones) -/
theorem createJoinTables_eq (n : Nat) (d : Dialect) (c : Caps) (decl : Decl) (c0 : Val) (ine : Bool) (w : Cat)
    (hb : ∀ j ∈ joinsToCreateX x.joins, 32 ∉ j.join.table) :
    agreesW (callNW prog ddlI EX (n + 4) w (.meth C_SQLObject M_createJoinTables)
        [soClassV decl c0 x, .bool ine, connV d c])
      (createLinks ine (linksOf true (linkNames x.joins)) w) := by
  rw [callXW_succ _ _ _ _ _ res_SQLObject_createJoinTables, ← joinsToCreate_names]
  have hg := getJoinsToCreate_cls (x := x) (n + 2) decl c0
  have hl := createLinks_loop n d c ine (joinsToCreateX x.joins) hb w
    ((Env.ofArgs [soClassV decl c0 x, .bool ine, connV d c]).put 3 (connV d c)) (by simp) (by simp)
  have hr : recvCls (soClassV decl c0 x) = .ok C_SQLObject := rfl
  revert hl
  cases createLinks ine ((joinsToCreateX x.joins).map (·.join.table)) w <;> intro hl
  · obtain ⟨w', env', h⟩ := hl
    simp only [agreesW]
    pyw [SQLObject__createJoinTables_fn, SQLObject__createJoinTables, SQLObject__createJoinTables_s0,
      SQLObject__createJoinTables_s1, hr]
  · obtain ⟨env', h⟩ := hl
    simp only [agreesW]
    pyw [SQLObject__createJoinTables_fn, SQLObject__createJoinTables, SQLObject__createJoinTables_s0,
      SQLObject__createJoinTables_s1, hr]

/-- the loop of `dropJoinTables` -/
theorem dropLinks_loop (n : Nat) (d : Dialect) (c : Caps) (ie : Bool) (l : List JoinD)
    (hb : ∀ j ∈ l, 32 ∉ j.join.table) : ∀ (w : Cat) (env : Env),
      env 1 = some (.bool ie) → env 3 = some (connV d c) →
      match dropLinks ie (l.map (·.join.table)) w with
      | .ok w' => ∃ env', forLoopW (loopStepW 4 fun w e => Block.execW (callNW prog ddlI EX (n + 1))
          (callN prog ddlI (n + 1)) IX EX w e SQLObject__dropJoinTables_for0) (l.map jV) w env = .norm w' env'
      | .error _ => ∃ w' env', forLoopW (loopStepW 4 fun w e => Block.execW (callNW prog ddlI EX (n + 1))
          (callN prog ddlI (n + 1)) IX EX w e SQLObject__dropJoinTables_for0) (l.map jV) w env =
            .exc w' env' .operationalError := by
  induction l with
  | nil => intro w env _ _; exact ⟨env, rfl⟩
  | cons j l ih =>
    intro w env h1 h3
    have hbj := hb j (by simp)
    have hc := connDropJoinTable n d c j w hbj
    have ih' := ih (fun k hk => hb k (by simp [hk]))
    simp only [List.map_cons, dropLinks]
    by_cases hm : j.join.table ∈ w.tables
    · simp only [hm, not_true_eq_false, and_false, if_false]
      have := ih' (dropTbl j.join.table w) (env.put 4 (jV j)) (by simpa using h1) (by simpa using h3)
      revert this
      cases dropLinks ie (l.map (·.join.table)) (dropTbl j.join.table w) <;> intro this
      · obtain ⟨w', env', h⟩ := this
        refine ⟨w', env', ?_⟩
        rw [← h]; cases ie <;> pyw [forLoopW, loopStepW, SQLObject__dropJoinTables_for0, dropRes, hm]
      · obtain ⟨env', h⟩ := this
        refine ⟨env', ?_⟩
        rw [← h]; cases ie <;> pyw [forLoopW, loopStepW, SQLObject__dropJoinTables_for0, dropRes, hm]
    · cases ie
      · simp only [Bool.false_eq_true, false_and, if_false, hm, not_false_eq_true, if_true]
        refine ⟨w, env.put 4 (jV j), ?_⟩
        pyw [forLoopW, loopStepW, SQLObject__dropJoinTables_for0, dropRes, hm]
      · simp only [hm, not_false_eq_true, and_self, if_true]
        have := ih' w (env.put 4 (jV j)) (by simpa using h1) (by simpa using h3)
        revert this
        cases dropLinks true (l.map (·.join.table)) w <;> intro this
        · obtain ⟨w', env', h⟩ := this
          refine ⟨w', env', ?_⟩
          rw [← h]; pyw [forLoopW, loopStepW, SQLObject__dropJoinTables_for0, hm]
        · obtain ⟨env', h⟩ := this
          refine ⟨env', ?_⟩
          rw [← h]; pyw [forLoopW, loopStepW, SQLObject__dropJoinTables_for0, hm]

/-- **`SQLObject.dropJoinTables(ifExists, connection)` translated = `dropLinks`** (each link table once: the loop runs
    over `_getJoinsToCreate()`) -/
theorem dropJoinTables_eq (n : Nat) (d : Dialect) (c : Caps) (decl : Decl) (c0 : Val) (ie : Bool) (w : Cat)
    (hb : ∀ j ∈ joinsToCreateX x.joins, 32 ∉ j.join.table) :
    agreesW (callNW prog ddlI EX (n + 2) w (.meth C_SQLObject M_dropJoinTables)
        [soClassV decl c0 x, .bool ie, connV d c])
      (dropLinks ie (linksOf true (linkNames x.joins)) w) := by
  rw [callXW_succ _ _ _ _ _ res_SQLObject_dropJoinTables, ← joinsToCreate_names]
  have hg := getJoinsToCreate_cls (x := x) n decl c0
  have hl := dropLinks_loop n d c ie (joinsToCreateX x.joins) hb w
    ((Env.ofArgs [soClassV decl c0 x, .bool ie, connV d c]).put 3 (connV d c)) (by simp) (by simp)
  have hr : recvCls (soClassV decl c0 x) = .ok C_SQLObject := rfl
  revert hl
  cases dropLinks ie ((joinsToCreateX x.joins).map (·.join.table)) w <;> intro hl
  · obtain ⟨w', env', h⟩ := hl
    simp only [agreesW]
    pyw [SQLObject__dropJoinTables_fn, SQLObject__dropJoinTables, SQLObject__dropJoinTables_s0,
      SQLObject__dropJoinTables_s1, hr]
  · obtain ⟨env', h⟩ := hl
    simp only [agreesW]
    pyw [SQLObject__dropJoinTables_fn, SQLObject__dropJoinTables, SQLObject__dropJoinTables_s0,
      SQLObject__dropJoinTables_s1, hr]

end SqlObjVerif.DdlX
