import SqlObjVerif.Lemmas.ExprXBuild
/-!
# C03 translation — evaluating a whole source tree with the translated constructors

`buildX_eq`: Python's evaluation of the expression a source tree `e` stands for — every operator dispatched to the
translated overload Python would pick, every builder function run from its translated body — yields exactly
`toVal P (build e)`, the object graph of the hand model, provided the columns' `from_python` conversion leaves the
compared constants alone (`hfp`; the trees are the ones after `coerce`).
-/
namespace SqlObjVerif.ExprX
open SqlObjVerif.PyExpr SqlObjVerif.PyExpr.Extracted

set_option linter.unusedSimpArgs false

theorem cmpX_build (P : Params) (hfp : ∀ c v, P.fromPython c v = .ok v) (k : Nat) (o : Expr.CmpOp) (l r : E .num) :
    cmpX (ifaceF P (k + 3)) (cmpNames o).1 (cmpNames o).2.1 (cmpNames o).2.2
      (toVal P (Expr.build l)) (toVal P (Expr.build r)) = .ok (toVal P (Expr.build (Expr.E.cmp o l r))) := by
  unfold cmpX
  rw [prio_build, isExpr_build_num, isExpr_build_num]
  simp only [Expr.build, Expr.cmpReflected]
  by_cases hcl : Expr.isConst l = true
  · -- the left operand is a plain number
    have hpl : Expr.isPlainOp l = false := by
      cases h : Expr.isPlainOp l
      · rfl
      · rw [plain_not_const l h] at hcl; cases hcl
    simp only [hcl, hpl, Bool.not_true, Bool.false_eq_true, if_false, Bool.false_and, Bool.or_false, Bool.true_and]
    by_cases hcr : Expr.isConst r = true
    · simp only [hcr, Bool.not_true, Bool.false_eq_true, if_false, ifaceF_call]
      rw [cmp_const P _ (ifaceF_isSub P _)]
      have : Expr.isCol l = false := by
        have h := clsE_num l
        rw [h.2.1] at hcl
        rw [h.2.2.1]
        rcases h.1 with h1 | h1 | h1 | h1 | h1 | h1 <;> simp [h1] at hcl ⊢
      rw [this]
    · have hcr' : Expr.isConst r = false := by simpa using hcr
      simp only [hcr', Bool.not_false, if_true]
      rw [cmpNames_flip, cmp_direct P hfp (k + 2) o.flip _ _ (by rw [isObj_build_num, hcr']; rfl) (notNone_build_num l),
        isCol_eq]
  · have hcl' : Expr.isConst l = false := by simpa using hcl
    simp only [hcl', Bool.not_false, if_true, Bool.false_and, Bool.false_or]
    by_cases hp : (Expr.isPlainOp l && Expr.isModulo r) = true
    · simp only [hp, if_true]
      have hm : Expr.isModulo r = true := by
        cases h : Expr.isModulo r
        · rw [h, Bool.and_false] at hp; cases hp
        · rfl
      rw [cmpNames_flip, cmp_direct P hfp (k + 2) o.flip _ _ (modulo_obj r hm) (notNone_build_num l), isCol_eq]
    · have hp' : (Expr.isPlainOp l && Expr.isModulo r) = false := by simpa using hp
      simp only [hp', Bool.false_eq_true, if_false]
      rw [cmp_direct P hfp (k + 2) o _ _ (by rw [isObj_build_num, hcl']; rfl) (notNone_build_num r), isCol_eq]

theorem binopX_build (P : Params) (k : Nat) (o : Expr.ArOp) (ho : o ≠ .mod) (l r : E .num) :
    binopX (ifaceF P (k + 3)) (arNames o).1 (arNames o).2.1 (arNames o).2.2
      (toVal P (Expr.build l)) (toVal P (Expr.build r)) = .ok (toVal P (Expr.build (Expr.E.ar o l r))) := by
  unfold binopX
  rw [isExpr_build_num, isExpr_build_num]
  simp only [Expr.build, ho, if_false]
  by_cases hcl : Expr.isConst l = true
  · simp only [hcl, Bool.not_true, Bool.false_eq_true, if_false, Bool.true_and]
    by_cases hcr : Expr.isConst r = true
    · simp only [hcr, Bool.not_true, Bool.false_eq_true, if_false, ifaceF_call]
      rw [ar_const P _ (ifaceF_isSub P _) o ho]
    · have hcr' : Expr.isConst r = false := by simpa using hcr
      simp only [hcr', Bool.not_false, if_true]
      rw [ar_refl P (k + 2) o ho _ _ (by rw [isObj_build_num, hcr']; rfl)]
  · have hcl' : Expr.isConst l = false := by simpa using hcl
    simp only [hcl', Bool.not_false, if_true, Bool.false_and, Bool.false_eq_true, if_false]
    rw [ar_direct P (k + 2) o ho _ _ (by rw [isObj_build_num, hcl']; rfl)]

/-- MAIN: evaluating the Python expression of a source tree with the translated operator overloads and builder
    functions builds exactly the object graph of the hand model's `build` -/
theorem buildX_eq (P : Params) (hfp : ∀ c v, P.fromPython c v = .ok v) (k : Nat) :
    ∀ {s : Expr.Srt} (e : E s), buildX P (ifaceF P (k + 3)) e = .ok (toVal P (Expr.build e)) := by
  intro s e
  induction e with
  | col c => rfl
  | rcol c => rfl
  | const i => rfl
  | fconst n i => rfl
  | wconst n i m => rfl
  | ar o l r ihl ihr =>
    simp only [buildX, ihl, ihr, R.bind_ok]
    by_cases ho : o = .mod
    · subst ho
      simp only [if_true, Expr.build, isExpr_build_num]
      by_cases hcl : Expr.isConst l = true
      · simp only [hcl, Bool.not_true, Bool.false_eq_true, if_false, ifaceF_call]
        rw [call_SQLModulo P (k + 1) _ _ (notSub_toVal P _)]; rfl
      · have hcl' : Expr.isConst l = false := by simpa using hcl
        simp only [hcl', Bool.not_false, if_true]
        rw [callM_mod P (k + 1) _ _ (by rw [isObj_build_num, hcl']; rfl)]
    · simp only [ho, if_false]
      exact binopX_build P k o ho l r
  | neg x ih =>
    simp only [buildX, ih, R.bind_ok, Expr.build, isExpr_build_num]
    by_cases hc : Expr.isConst x = true
    · simp only [hc, Bool.not_true, Bool.false_eq_true, if_false, ifaceF_call, call_SQLPrefix]; rfl
    · have hc' : Expr.isConst x = false := by simpa using hc
      simp only [hc', Bool.not_false, if_true]
      rw [callM_pre P (k + 2) _ (by rw [isObj_build_num, hc']; rfl) _ _ Expr.Extracted.negOp rs_neg neg_spec]
  | pos x ih =>
    simp only [buildX, ih, R.bind_ok, Expr.build, isExpr_build_num]
    by_cases hc : Expr.isConst x = true
    · simp only [hc, Bool.not_true, Bool.false_eq_true, if_false, ifaceF_call, call_SQLPrefix]; rfl
    · have hc' : Expr.isConst x = false := by simpa using hc
      simp only [hc', Bool.not_false, if_true]
      rw [callM_pre P (k + 2) _ (by rw [isObj_build_num, hc']; rfl) _ _ Expr.Extracted.posOp rs_pos pos_spec]
  | b2i b ih => simp only [buildX, ih, Expr.build]
  | cmp o l r ihl ihr =>
    simp only [buildX, ihl, ihr, R.bind_ok]
    exact cmpX_build P hfp k o l r
  | andOp l r ihl ihr =>
    simp only [buildX, ihl, ihr, R.bind_ok, Expr.build]
    exact callM_ov P (k + 2) _ _ (isObj_build_bool l) _ _ _ rs_and and_spec
  | orOp l r ihl ihr =>
    simp only [buildX, ihl, ihr, R.bind_ok, Expr.build]
    exact callM_ov P (k + 2) _ _ (isObj_build_bool l) _ _ _ rs_or or_spec
  | andFn l r ihl ihr =>
    simp only [buildX, ihl, ihr, R.bind_ok, Expr.build, ifaceF_call]
    exact call_AND P [Expr.build r] (Expr.build l) k
  | orFn l r ihl ihr =>
    simp only [buildX, ihl, ihr, R.bind_ok, Expr.build, ifaceF_call]
    exact call_OR P [Expr.build r] (Expr.build l) k
  | notOp x ih =>
    simp only [buildX, ih, R.bind_ok, Expr.build]
    exact callM_pre P (k + 2) _ (isObj_build_bool x) _ _ _ rs_invert invert_spec
  | notFn x ih =>
    simp only [buildX, ih, R.bind_ok, Expr.build, ifaceF_call]
    exact call_NOT P (k + 1) _
  | isin x l ihx ihl =>
    simp only [buildX, ihx, ihl, R.bind_ok, Expr.build, ifaceF_call]
    exact call_IN P k _ _ (by rw [nodeCls_build, clsE_items])
  | notin x l ihx ihl =>
    simp only [buildX, ihx, ihl, R.bind_ok, Expr.build, ifaceF_call, Expr.Extracted.notinNegates, if_true]
    exact call_NOTIN P k _ _ (by rw [nodeCls_build, clsE_items])
  | isnull x ih =>
    simp only [buildX, ih, R.bind_ok, Expr.build, ifaceF_call]
    exact call_ISNULL P (k + 1) _
  | isnotnull x ih =>
    simp only [buildX, ih, R.bind_ok, Expr.build, ifaceF_call]
    exact call_ISNOTNULL P (k + 1) _
  | eqNone x ih =>
    simp only [buildX, ih, R.bind_ok, Expr.build, isExpr_build_num, isCol_eq]
    by_cases hc : Expr.isConst x = true
    · have hnf : (nodeCls (Expr.build x) == "SQLObjectField") = false := by
        rw [← isCol_eq]
        have h := clsE_num x
        rw [h.2.1] at hc
        rw [h.2.2.1]
        rcases h.1 with h1 | h1 | h1 | h1 | h1 | h1 <;> simp [h1] at hc ⊢
      simp only [hc, Bool.not_true, Bool.false_eq_true, if_false, ifaceF_call, call_ISNULL, hnf,
        Expr.Extracted.exprEqNone, Expr.noneRule]
    · have hc' : Expr.isConst x = false := by simpa using hc
      simp only [hc', Bool.not_false, if_true]
      exact (eq_none P (k + 1) _ (by rw [isObj_build_num, hc']; rfl)).1
  | neNone x ih =>
    simp only [buildX, ih, R.bind_ok, Expr.build, isExpr_build_num, isCol_eq]
    by_cases hc : Expr.isConst x = true
    · have hnf : (nodeCls (Expr.build x) == "SQLObjectField") = false := by
        rw [← isCol_eq]
        have h := clsE_num x
        rw [h.2.1] at hc
        rw [h.2.2.1]
        rcases h.1 with h1 | h1 | h1 | h1 | h1 | h1 <;> simp [h1] at hc ⊢
      simp only [hc, Bool.not_true, Bool.false_eq_true, if_false, ifaceF_call, call_ISNOTNULL, hnf,
        Expr.Extracted.exprNeNone, Expr.noneRule]
    · have hc' : Expr.isConst x = false := by simpa using hc
      simp only [hc', Bool.not_false, if_true]
      exact (eq_none P (k + 1) _ (by rw [isObj_build_num, hc']; rfl)).2
  | inil => rfl
  | inull t ih => simp only [buildX, ih, R.bind_ok, Expr.build, toVal]
  | icons h t ihh iht => simp only [buildX, ihh, iht, R.bind_ok, Expr.build, toVal]
end SqlObjVerif.ExprX
