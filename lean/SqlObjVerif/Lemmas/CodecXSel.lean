import SqlObjVerif.Lemmas.CodecXChain
import SqlObjVerif.Lemmas.CodecXSelLoop
/-!
# CodecXSel — the translated `SQLObject._SO_selectInit` = the hand model of the read path (`selectInitM`), with
`col.to_python` = the translated validator chain of the column's kind
-/
namespace SqlObjVerif.PyCodec
open SqlObjVerif.Codec (Str PyVal ColT)
open Extracted

theorem ofArgs2 (a b : Val) : Env.ofArgs [a, b] = (Env.empty.put 1 b).put 0 a := by
  funext y
  match y with
  | 0 => rfl
  | 1 => rfl
  | y + 2 => simp [Env.ofArgs, Env.put, Env.empty]

theorem selView_seq_nil (r : Res) : (r.seq fun e => Res.norm e).selView = r.selView := by
  cases r <;> simp [Res.seq]

theorem chainOf_ne_nil (T : ColT) : (chainOf T).isEmpty = false := by
  cases T <;> rfl

/-- the interface's column functions of `cfgSel cols` at the indices of a suffix `cs` of `cols` starting at `k` -/
theorem selM_eq (cols : List (Str × ColT)) :
    ∀ (cs : List (Str × ColT)) (k : Nat) (vs : List PyVal) (acc : List (Str × PyVal)),
      (∀ j, cols[k + j]? = cs[j]?) →
      selM (cfgSel cols) (List.range' k cs.length) vs acc = selectInitM cs vs acc := by
  intro cs
  induction cs with
  | nil => intro k vs acc _; simp [selM, selectInitM]
  | cons c cs ih =>
    intro k vs acc hc
    cases vs with
    | nil => simp [List.range'_succ, selM, selectInitM]
    | cons v vs =>
      have hk : cols[k]? = some c := by simpa using hc 0
      have hto : (cfgSel cols).colToPy k v = resToR (some (Codec.toPy c.2 v)) := by
        simp [cfgSel, hk, chainToPy_eq c.2 rfl v]
      have hn : (cfgSel cols).colName k = c.1 := by simp [cfgSel, hk]
      simp only [List.length_cons, List.range'_succ, selM, selectInitM, hto, hn]
      have ih' := fun acc' => ih (k + 1) vs acc' (fun j => by
        have := hc (j + 1); simpa [Nat.add_assoc, Nat.add_comm 1 j] using this)
      cases Codec.toPy c.2 v <;> simp [resToR, ih']

/-- THE translated `_SO_selectInit` on a class with columns `cols` and a fetched `row` = the model's read path -/
theorem runSel_eq (cols : List (Str × ColT)) (row : List PyVal) : runSel cols row = some (selectInitM cols row []) := by
  have hcols : ∀ i ∈ List.range cols.length, (cfgSel cols).colHasTo i = true := by
    intro i hi
    have hi' : i < cols.length := List.mem_range.mp hi
    simp [cfgSel, List.getElem?_eq_getElem hi', chainOf_ne_nil]
  have hstuck : ∀ i ∈ List.range cols.length, ∀ v, (cfgSel cols).colToPy i v ≠ .stuck := by
    intro i hi v
    have hi' : i < cols.length := List.mem_range.mp hi
    simp only [cfgSel, List.getElem?_eq_getElem hi', chainToPy_eq _ rfl v]
    cases Codec.toPy (cols[i]).2 v <;> simp [resToR]
  have hloop := sel_loop (cfgSel cols) (List.range cols.length) row
    ((Env.empty.put 1 (.tuple (row.map .py))).put 0 selfV) [] hcols hstuck (by simp [Env.put]) (by
      rw [logOf_put_ne _ _ _ (by decide), logOf_put_ne _ _ _ (by decide)]; rfl)
  have hm := selM_eq cols cols 0 row [] (fun j => by simp)
  rw [List.range_eq_range'] at hloop
  rw [hm] at hloop
  rw [← hloop, runSel, ofArgs2]
  have hn : (cfgSel cols).ncols = cols.length := rfl
  simp [Block.exec, Stmt.exec, selectInit, selectInit_s0, Expr.eval, Exprs.eval, iface, xGetAttr, xGetAttrObj, selfV, xCall,
    callVal, globOf, xGlob, Extracted.py3Names, List.lookup, iterOf, zipKw, hn, selView_seq_nil, List.range_eq_range']

end SqlObjVerif.PyCodec
