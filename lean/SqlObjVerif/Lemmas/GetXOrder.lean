import SqlObjVerif.Lemmas.GetXExpireAll
import SqlObjVerif.Lemmas.GetXInv
set_option linter.unusedSimpArgs false
namespace SqlObjVerif.Cache

theorem expireOne_obj (s : State) (h x : Handle) :
    (expireOne s h).obj x = if x = h then { s.obj h with expired := true } else s.obj x := by
  unfold expireOne
  rw [purge_eq]
  simp only [setFac, setObj, upd]

theorem expireOne_rest (s : State) (h : Handle) :
    (expireOne s h).cfg = s.cfg ∧ (expireOne s h).rows = s.rows ∧ (expireOne s h).maxId = s.maxId ∧
    (expireOne s h).n = s.n ∧ (expireOne s h).pickles = s.pickles := by
  unfold expireOne
  rw [purge_eq]
  exact ⟨rfl, rfl, rfl, rfl, rfl⟩

/-- the entry filed under key `k` of class `c` belongs to one of the instances `hs` -/
def hit (s : State) (hs : List Handle) (c : Cls) (k : Id) : Bool :=
  hs.any (fun h => decide ((s.obj h).cls = c) && decide ((s.obj h).id = k))

/-- `expire()` of a SET of instances, described without an order -/
def expSet (s : State) (hs : List Handle) : State :=
  { s with
    obj := fun x => if x ∈ hs then { s.obj x with expired := true } else s.obj x
    fac := fun c => { s.fac c with strong := (s.fac c).strong.filter (fun e => !hit s hs c e.1),
                                   weak := (s.fac c).weak.filter (fun e => !hit s hs c e.1) } }

theorem expSet_nil (s : State) : expSet s [] = s := by
  have : ∀ l : AList, l.filter (fun _ => true) = l := by intro l; simp
  simp [expSet, hit, this]

theorem hit_cons (s : State) (h : Handle) (hs : List Handle) (c : Cls) (k : Id) :
    hit s (h :: hs) c k = ((decide ((s.obj h).cls = c) && decide ((s.obj h).id = k)) || hit s hs c k) := by
  simp [hit]

theorem hit_expireOne (s : State) (h : Handle) (hs : List Handle) (c : Cls) (k : Id) :
    hit (expireOne s h) hs c k = hit s hs c k := by
  unfold hit
  congr 1
  funext x
  rw [expireOne_obj]
  split <;> simp_all

theorem expSet_expireOne (s : State) (h : Handle) (hs : List Handle) :
    expSet (expireOne s h) hs = expSet s (h :: hs) := by
  obtain ⟨r1, r2, r3, r4, r5⟩ := expireOne_rest s h
  unfold expSet
  have hobj : (fun x => if x ∈ hs then { (expireOne s h).obj x with expired := true } else (expireOne s h).obj x) =
      (fun x => if x ∈ h :: hs then { s.obj x with expired := true } else s.obj x) := by
    funext x
    rw [expireOne_obj]
    by_cases hx : x = h
    · subst hx; simp
    · simp [hx]
  have hfac : (fun c => ({ (expireOne s h).fac c with
        strong := ((expireOne s h).fac c).strong.filter (fun e => !hit (expireOne s h) hs c e.1),
        weak := ((expireOne s h).fac c).weak.filter (fun e => !hit (expireOne s h) hs c e.1) } : Factory)) =
      (fun c => { s.fac c with strong := (s.fac c).strong.filter (fun e => !hit s (h :: hs) c e.1),
                               weak := (s.fac c).weak.filter (fun e => !hit s (h :: hs) c e.1) }) := by
    funext c
    simp only [hit_expireOne, hit_cons, expireOne_fac]
    by_cases hc : c = (s.obj h).cls
    · subst hc
      simp only [if_true, aerase, List.filter_filter]
      congr 1 <;> (apply List.filter_congr; intro e _; by_cases hk : e.1 = (s.obj h).id <;> simp [hk, eq_comm])
    · have hc' : ¬ (s.obj h).cls = c := fun e => hc e.symm
      simp [hc, hc']
  rw [hobj, hfac, r1, r2, r3, r4, r5]

theorem foldl_expireOne_eq (hs : List Handle) (s : State) : hs.foldl expireOne s = expSet s hs := by
  induction hs generalizing s with
  | nil => simp [expSet_nil]
  | cons h hs ih => simp only [List.foldl_cons]; rw [ih, expSet_expireOne]

/-- `expire()` of the same instances in any order, any number of times, ends in the same state -/
theorem expSet_congr (s : State) (l1 l2 : List Handle) (h : ∀ x, x ∈ l1 ↔ x ∈ l2) : expSet s l1 = expSet s l2 := by
  have hh : ∀ c k, hit s l1 c k = hit s l2 c k := by
    intro c k
    unfold hit
    rw [Bool.eq_iff_iff]
    simp only [List.any_eq_true]
    constructor
    · rintro ⟨x, hx, hp⟩; exact ⟨x, (h x).1 hx, hp⟩
    · rintro ⟨x, hx, hp⟩; exact ⟨x, (h x).2 hx, hp⟩
  unfold expSet
  have e1 : (fun x => if x ∈ l1 then ({ s.obj x with expired := true } : Obj) else s.obj x) =
      (fun x => if x ∈ l2 then { s.obj x with expired := true } else s.obj x) := by
    funext x; simp only [h x]
  simp only [e1, hh]

theorem foldl_upd_false (hs : List Handle) (d : Handle → Bool) (hd : ∀ h, d h = false) :
    hs.foldl (fun d h => upd d h false) d = d := by
  induction hs with
  | nil => rfl
  | cons h hs ih =>
    simp only [List.foldl_cons]
    have : upd d h false = d := by rw [← hd h, upd_self]
    rw [this]; exact ih

/-- what `cache.getAll()` lists after `weakrefAll()` is, as a set, what the model's `expireAll` step expires -/
theorem getAll_mem_iff (w : GW) (hg : GInv w) (hf : ∀ h, w.falsy h = false) (x : Handle) :
    x ∈ w.made.flatMap (facObjs { w with s := weakrefAll w.s }) ↔
      x ∈ (List.range (weakrefAll w.s).n).filter (cachedAlive (weakrefAll w.s)) := by
  have i1 := inv_weakrefAll w.s hg.inv
  have hns : ∀ c, ((weakrefAll w.s).fac c).strong = [] := by
    intro c
    unfold weakrefAll
    cases hd : w.s.cfg.doCache with
    | true => simp
    | false => simpa using hg.inv.nocache hd c
  have hwf : ∀ c, c ∉ w.made → (weakrefAll w.s).fac c = emptyFactory := by
    intro c hc
    unfold weakrefAll
    split
    · simp [(hg.wf c hc).1, emptyFactory, asetAll]
    · exact (hg.wf c hc).1
  have hobjs : ∀ c, x ∈ facObjs { w with s := weakrefAll w.s } c ↔
      (∃ k, (k, x) ∈ ((weakrefAll w.s).fac c).weak) ∧ ((weakrefAll w.s).obj x).dead = false := by
    intro c
    simp only [facObjs, hns c, List.map_nil, ite_self, List.nil_append, List.mem_map, List.mem_filter, listed, hf,
      Bool.not_false, Bool.and_true, Bool.not_eq_eq_eq_not, Bool.not_true]
    constructor
    · rintro ⟨e, ⟨he, hd⟩, rfl⟩; exact ⟨⟨e.1, he⟩, hd⟩
    · rintro ⟨⟨k, hk⟩, hd⟩; exact ⟨(k, x), ⟨hk, hd⟩, rfl⟩
  simp only [List.mem_flatMap, List.mem_filter, List.mem_range, hobjs]
  constructor
  · rintro ⟨c, _, ⟨k, hk⟩, hd⟩
    obtain ⟨a1, a2, _⟩ := i1.ent c (k, x) (Or.inr hk)
    refine ⟨a1, ?_⟩
    simp only [cachedAlive, hd, Bool.not_false, Bool.true_and, Bool.or_eq_true]
    right
    simp only at a2
    rw [a2]
    exact (ahas_iff x _).2 ⟨k, hk⟩
  · rintro ⟨_, hca⟩
    simp only [cachedAlive, Bool.and_eq_true, Bool.not_eq_eq_eq_not, Bool.not_true, Bool.or_eq_true] at hca
    obtain ⟨hd, hs | hw⟩ := hca
    · rw [hns] at hs; simp [ahas] at hs
    · obtain ⟨k, hk⟩ := (ahas_iff x _).1 hw
      refine ⟨((weakrefAll w.s).obj x).cls, ?_, ⟨k, hk⟩, hd⟩
      apply Classical.byContradiction
      intro hc
      rw [hwf _ hc] at hk
      simp [emptyFactory] at hk

/-- `connection.expireAll()` = the hand model's `expireAll` step itself -/
theorem connExpireAllG_model (w : GW) (hg : GInv w) (hr : NoRel w.s) (hf : ∀ h, w.falsy h = false) :
    connExpireAllG w = .ret { w with s := (step w.s .expireAll).1 } .none := by
  rw [connExpireAllG_eq w hg.wf hg.lock hg.wlock hr (fun hd => hg.inv.nocache hd)]
  simp only [step]
  rw [foldl_upd_false _ _ hg.clean, foldl_expireOne_eq, foldl_expireOne_eq,
    expSet_congr _ _ _ (getAll_mem_iff w hg hf)]

end SqlObjVerif.Cache
