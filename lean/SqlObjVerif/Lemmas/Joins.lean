import SqlObjVerif.Model.Joins
/-! # Lemmas for C13: the stable insertion sort -/
namespace SqlObjVerif.Joins

theorem ins_perm (le : α → α → Bool) (x : α) (l : List α) : (ins le x l).Perm (x :: l) := by
  induction l with
  | nil => exact List.Perm.refl _
  | cons y ys ih =>
    unfold ins
    split
    · exact List.Perm.refl _
    · exact (List.Perm.cons y ih).trans (List.Perm.swap x y ys)

theorem insSort_perm (le : α → α → Bool) (l : List α) : (insSort le l).Perm l := by
  induction l with
  | nil => exact List.Perm.refl _
  | cons x xs ih => exact (ins_perm le x _).trans (List.Perm.cons x ih)

theorem mem_ins {le : α → α → Bool} {x z : α} {l : List α} : z ∈ ins le x l ↔ z = x ∨ z ∈ l := by
  rw [(ins_perm le x l).mem_iff]; simp

/-- the order a stable sort by `le` establishes on a list that was ordered by `R` -/
def Stab (le : α → α → Bool) (R : α → α → Prop) (x y : α) : Prop := le x y = true ∧ (le y x = true → R x y)

theorem ins_pairwise {le : α → α → Bool} {R : α → α → Prop} (tot : ∀ a b, le a b = true ∨ le b a = true)
    (tr : ∀ a b c, le a b = true → le b c = true → le a c = true) (x : α) :
    ∀ l : List α, (∀ w ∈ l, R x w) → l.Pairwise (Stab le R) → (ins le x l).Pairwise (Stab le R) := by
  intro l
  induction l with
  | nil => intro _ _; simp [ins]
  | cons y ys ih =>
    intro hR hp
    rw [List.pairwise_cons] at hp
    unfold ins
    split
    · next hxy =>
      rw [List.pairwise_cons]
      refine ⟨?_, List.pairwise_cons.mpr hp⟩
      intro w hw
      rcases List.mem_cons.mp hw with rfl | hw'
      · exact ⟨hxy, fun _ => hR _ (by simp)⟩
      · exact ⟨tr _ _ _ hxy (hp.1 w hw').1, fun _ => hR w (by simp [hw'])⟩
    · next hxy =>
      rw [List.pairwise_cons]
      refine ⟨?_, ih (fun w hw => hR w (by simp [hw])) hp.2⟩
      intro w hw
      rcases mem_ins.mp hw with rfl | hw'
      · have : le y w = true := by
          rcases tot w y with h | h
          · exact absurd h hxy
          · exact h
        exact ⟨this, fun h => absurd h hxy⟩
      · exact hp.1 w hw'

theorem insSort_pairwise {le : α → α → Bool} {R : α → α → Prop} (tot : ∀ a b, le a b = true ∨ le b a = true)
    (tr : ∀ a b c, le a b = true → le b c = true → le a c = true) :
    ∀ l : List α, l.Pairwise R → (insSort le l).Pairwise (Stab le R) := by
  intro l
  induction l with
  | nil => intro _; simp [insSort]
  | cons x xs ih =>
    intro hp
    rw [List.pairwise_cons] at hp
    apply ins_pairwise tot tr x _ _ (ih hp.2)
    intro w hw
    exact hp.1 w ((insSort_perm le xs).mem_iff.mp hw)

theorem leOpt_total (a b : Option Int) : leOpt a b = true ∨ leOpt b a = true := by
  cases a <;> cases b <;> simp [leOpt]; omega

theorem leOpt_trans (a b c : Option Int) : leOpt a b = true → leOpt b c = true → leOpt a c = true := by
  cases a <;> cases b <;> cases c <;> simp [leOpt]; omega

theorem leKey_total (val : α → Nat → Option Int) (k : SortKey) (x y : α) :
    leKey val k x y = true ∨ leKey val k y x = true := by
  unfold leKey; split <;> exact leOpt_total _ _

theorem leKey_trans (val : α → Nat → Option Int) (k : SortKey) (x y z : α) :
    leKey val k x y = true → leKey val k y z = true → leKey val k x z = true := by
  unfold leKey; split
  · exact fun h1 h2 => leOpt_trans _ _ _ h2 h1
  · exact leOpt_trans _ _ _

theorem doSort_perm (val : α → Nat → Option Int) (ks : List SortKey) (l : List α) : (doSort val ks l).Perm l := by
  induction ks with
  | nil => exact List.Perm.refl _
  | cons k ks ih => exact (insSort_perm _ _).trans ih

/-! ## what the extracted link-table statements denote

`rfl` / `simp` evaluate the **extracted** constants: if the source swaps columns or values these lemmas (and with
them every C13 theorem about `related` / `addLink` / `removeLink`) stop checking. -/
open SqlObjVerif.Graph

/-- `SELECT otherColumn FROM t WHERE joinColumn = owner` -/
theorem related_def (db : DB) (t : Nat) (ownFirst : Bool) (owner : Nat) :
    related db t ownFirst owner =
      (db.links.filter fun l => l.table == t && l.col ownFirst == owner).map (·.col (!ownFirst)) := rfl

/-- `INSERT (joinColumn, otherColumn) VALUES (owner, other)` -/
theorem addLink_def (db : DB) (t : Nat) (ownFirst : Bool) (owner other : Nat) :
    addLink db t ownFirst owner other =
      { db with links := db.links ++ [if ownFirst then ⟨t, owner, other⟩ else ⟨t, other, owner⟩] } := by
  cases ownFirst <;> rfl

/-- `DELETE WHERE joinColumn = owner AND otherColumn = other` -/
theorem removeLink_def (db : DB) (t : Nat) (ownFirst : Bool) (owner other : Nat) :
    removeLink db t ownFirst owner other =
      { db with links := db.links.filter fun l =>
          !(l.table == t && l.col ownFirst == owner && l.col (!ownFirst) == other) } := by
  unfold removeLink removeLinkBy
  congr 1
  apply List.filter_congr
  intro l _
  simp [Extracted.Graph.removeConds, Extracted.Graph.JCol.first, Extracted.Graph.JVal.get, Bool.and_assoc]

end SqlObjVerif.Joins
