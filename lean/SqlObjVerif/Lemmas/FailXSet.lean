import SqlObjVerif.Lemmas.FailXSetLoops
/-!
C06, `obj.set(**kw)` on an EAGER class, any number of keywords (all plain columns, distinct): the translated `set`
under the schedule σ = (`inj`, `vqOf kw`) = the hand-compiled tree `setProg sch c id kw [] .done` under σ —
validation of every value before anything is sent, ONE `UPDATE` listing the columns in creation order
(`sorted(…, key=creationOrder)` = `sortAsg`), then the cached values; outcome, statement log, post-state.
-/
namespace SqlObjVerif.PyFail
open SqlObjVerif.PyMain (PV FnKind Flag Expr Cond LExpr Target DRef ColAttr R mapR ofOpt PDict CVal
  dget dhas dset dupdate dictOf sortByKey ofVal toVal? pvIdx pyBool nameOf natOf itemsOf dbNameOf optMap
  updItemOf dictItemOf cvOf Block)
open SqlObjVerif.PyMain.Extracted
open SqlObjVerif.Fail (Err Schema Inj Extra clsOf hit exec bump applyMem Mem updPending rowVals In allOk)
open SqlObjVerif.PyPure (dset_not_mem dictOf_nodup filter_fst_none filter_fst_all mapR_ok_of)

theorem insByKey_eq_insertAsg (x : Nat × Fail.Val) (m : List (Nat × Fail.Val)) (h : ∀ y ∈ m, y.1 ≠ x.1) :
    PyMain.insByKey x m = Fail.insertAsg x m := by
  induction m with
  | nil => rfl
  | cons y r ih =>
    have hy : y.1 ≠ x.1 := h y (by simp)
    simp only [PyMain.insByKey, Fail.insertAsg]
    by_cases hlt : x.1 < y.1
    · simp [hlt, Nat.le_of_lt hlt]
    · have : ¬ x.1 ≤ y.1 := fun hle => hlt (Nat.lt_of_le_of_ne hle (fun e => hy e.symm))
      simp [hlt, this, ih (fun z hz => h z (by simp [hz]))]

theorem sortByKey_eq_sortAsg (l : List (Nat × Fail.Val)) (h : (l.map (·.1)).Nodup) : sortByKey l = Fail.sortAsg l := by
  induction l with
  | nil => rfl
  | cons x l ih =>
    simp only [List.map_cons, List.nodup_cons] at h
    have h1 : sortByKey (x :: l) = PyMain.insByKey x (sortByKey l) := rfl
    have h2 : Fail.sortAsg (x :: l) = Fail.insertAsg x (Fail.sortAsg l) := rfl
    rw [h1, h2, ← ih h.2]
    apply insByKey_eq_insertAsg
    intro y hy
    rw [PyPure.mem_sortByKey] at hy
    exact fun e => h.1 (e ▸ List.mem_map_of_mem (f := (·.1)) hy)

theorem mapInst_self (k : Fail.Core) (c id : Nat) :
    Fail.mapInst k c id (fun i => ⟨i.cls, i.id, i.vals, i.pending, i.dirty, i.obsolete⟩) = k := by
  unfold Fail.mapInst
  have : (k.insts.map fun i => if i.is c id = true then (⟨i.cls, i.id, i.vals, i.pending, i.dirty, i.obsolete⟩ : Fail.Inst) else i) = k.insts := by
    conv => rhs; rw [← List.map_id k.insts]
    apply List.map_congr_left
    intro i _
    cases i; simp
  rw [this]

/-- the per-column `setattr`s of the caching loop, on the hand model's state -/
def cacheFold (c id : Nat) (xs : List (Nat × Fail.Val)) (s : Fail.St) : Fail.St :=
  xs.foldl (fun s e => memStep (.cache c id [(e.1, e.2)]) s) s

theorem setVals_eq (xs : List (Nat × Fail.Val)) : ∀ (w : FW), w.creating = false →
    setVals w xs = { w with s := cacheFold w.c w.id xs w.s } := by
  induction xs with
  | nil => intro w _; rfl
  | cons e xs ih =>
    intro w hw
    have h1 : w.setVal e.1 e.2 = { w with s := memStep (.cache w.c w.id [(e.1, e.2)]) w.s } := by
      simp [FW.setVal, hw, FW.mem]
    simp only [setVals, List.foldl_cons] at ih ⊢
    rw [h1, ih { w with s := memStep (.cache w.c w.id [(e.1, e.2)]) w.s } hw]
    rfl

theorem cacheFold_core (c id : Nat) (xs : List (Nat × Fail.Val)) : ∀ s : Fail.St,
    (cacheFold c id xs s).core = applyMem (.cache c id xs) s.core := by
  induction xs with
  | nil => intro s; simp only [cacheFold, List.foldl_nil, applyMem, Fail.assign]; exact (mapInst_self _ _ _).symm
  | cons e xs ih =>
    intro s
    simp only [cacheFold, List.foldl_cons] at ih ⊢
    rw [ih]
    simp only [memStep_core, applyMem, mapInst_mapInst']
    rfl

theorem cacheFold_rest (c id : Nat) (xs : List (Nat × Fail.Val)) : ∀ s : Fail.St,
    (cacheFold c id xs s).seqs = s.seqs ∧ (cacheFold c id xs s).lastId = s.lastId ∧ (cacheFold c id xs s).n = s.n ∧
    (cacheFold c id xs s).log = s.log := by
  induction xs with
  | nil => intro s; simp [cacheFold]
  | cons e xs ih =>
    intro s
    simp only [cacheFold, List.foldl_cons] at ih ⊢
    have := ih (memStep (.cache c id [(e.1, e.2)]) s)
    simpa using this

theorem obs_cacheFold (c id : Nat) (xs : List (Nat × Fail.Val)) (s : Fail.St) :
    obs (cacheFold c id xs s) = obs (memStep (.cache c id xs) s) := by
  obtain ⟨h1, h2, h3, h4⟩ := cacheFold_rest c id xs s
  simp [obs, cacheFold_core, h1, h2, h3, h4]

theorem setF_eager_eq (sch : Schema) (inj : Option Inj) (props : Nat → Extra) (s : Fail.St) (c id : Nat) (kw : List (Nat × In))
    (hl : (clsOf sch c).lazy = false) (hlt : ∀ e ∈ kw, e.1 < (clsOf sch c).cols.length) (hnd : (kw.map (·.1)).Nodup) :
    viewObs (setF (mkW sch inj props s c id (vqOf kw)) (kwPV kw)) =
      some (runObs (Fail.run sch inj (Fail.setProg sch c id kw [] .done) s)) := by
  have hkw0 : dictOf (kw.map fun e => (e.1, ofVal e.2.val)) = kw.map fun e => (e.1, ofVal e.2.val) :=
    dictOf_nodup _ (by simpa [Function.comp_def] using hnd)
  have hf1 := filter_fst_none kw (fun x => !Nat.blt x.fst (clsOf sch c).cols.length) (fun x => (PV.name x.fst).pair (ofVal x.snd.val))
    (fun x hx => by simp [Nat.blt_eq, hlt x hx])
  have hf2 := filter_fst_all kw (fun x => Nat.blt x.fst (clsOf sch c).cols.length) (fun x => (PV.name x.fst).pair (ofVal x.snd.val))
    (fun x hx => by simp [Nat.blt_eq, hlt x hx])
  unfold setF setFWith setProg set_nlocals set_nlists set_ndicts
  pfwith [hl, kwPV, hf1, hf2, hkw0]
  simp only [Function.comp_def]
  generalize hF : forLoop _ _ _ = r
  obtain ⟨hOk, hBad⟩ := set_for4_loop propCall kw
    { sch := sch, inj := inj, props := props, s := s, c := c, id := id, creating := false,
      nobj := { vals := [], cv := [], dirty := false }, sigSuppress := false, lock := true, vq := vqOf kw }
    [] (some (.bool false)) none none none none none none none none none none none [[], [], []] (kwPV kw) [] [] []
    (by simp) (fun e he => by simpa [Nat.blt_eq] using hlt e he) hnd (by simp)
  cases hok : allOk kw
  · obtain ⟨st', q, hb, hw⟩ := hBad hok
    have hr : r = .exc st' .invalid := hF.symm.trans hb
    subst hr
    clear hF hOk hBad hb
    simp only at hw
    pfwith [hw]
    simp [viewObs, Outcome.view, runObs, Fail.setProg, hl, run_event, Fail.run_validates, hok]
  · obtain ⟨b3, b4, b5, b6, b7, hb⟩ := hOk hok
    have hr : r = _ := hF.symm.trans hb
    subst hr
    clear hF hOk hBad hb
    simp only [setSt]
    pfwith [kwPV]
    have hasg : (Fail.asgOf kw).isEmpty = kw.isEmpty := by cases kw <;> rfl
    by_cases hP : kw = []
    · subst hP
      pfwith []
      simp [viewObs, Outcome.view, runObs, Fail.setProg, hl, Fail.validates, Fail.asgOf, Fail.extras, run_event, run_mem, run_done,
        obs, applyMem, Fail.assign]
      exact (mapInst_self _ _ _).symm
    · pfwith [hP]
      generalize hM : mapR _ kw = m
      have hm := mapR_ok_of hM (fun e => (e.1, PV.pair (.name e.1) (ofVal e.2.val))) (by
        intro x hx
        simp [hlt x hx])
      subst hm
      clear hM
      simp only [PyPure.R.bind_ok, PyPure.sortByKey_map, List.map_map]
      pfwith [hP]
      generalize hM : mapR _ (sortByKey kw) = m
      have hm := mapR_ok_of hM (fun e => PV.pair (.dbName e.1) (ofVal e.2.val)) (by
        intro x hx
        simp [hlt x ((PyPure.mem_sortByKey _ _).mp hx)])
      subst hm
      clear hM
      have hsort : (sortByKey kw).map (fun x => (x.1, x.2.val)) = Fail.sortAsg (Fail.asgOf kw) := by
        rw [← sortByKey_eq_sortAsg _ (by simpa [Fail.asgOf, Function.comp_def] using hnd)]
        exact (PyPure.sortByKey_map (fun e => e.2.val) kw).symm
      cases hs : sendStmt sch inj (Fail.Stmt.update c id (Fail.sortAsg (Fail.asgOf kw))) s with
      | mk s1 r =>
      cases r
      · pfwith [hP, hsort, hs, FW.setS]
        simp only [Function.comp_def]
        have hitems : kw.map (fun x => (PV.name x.1).pair (ofVal x.2.val)) =
            (Fail.asgOf kw).map fun e => PV.pair (.name e.1) (ofVal e.2) := by simp [Fail.asgOf]
        rw [hitems]
        generalize hF : forLoop _ _ _ = r
        obtain ⟨c3, c4, hc⟩ := set_cache_loop propCall set_for6 rfl (Fail.asgOf kw)
          { sch := sch, inj := inj, props := props, s := s1, c := c, id := id, creating := false,
            nobj := { vals := [], cv := [], dirty := false }, sigSuppress := false, lock := true, vq := [] }
          (some (.bool false)) none none b3 b4 b5 b6 b7 none none none none
          [List.map (fun x => (PV.name x.1).pair (ofVal x.2.val)) (sortByKey kw),
            List.map (fun e => (PV.dbName e.1).pair (ofVal e.2.val)) (sortByKey kw), []]
          (List.map (fun e => (e.1, ofVal e.2.val)) kw) [] (List.map (fun e => (e.1, ofVal e.2.val)) kw)
          (List.map (fun e => (e.1, ofVal e.2.val)) kw)
        have hr : r = _ := hF.symm.trans hc
        subst hr
        clear hF hc
        rw [setVals_eq _ _ rfl]
        simp only [setSt]
        pfwith []
        simp only [Fail.setProg, hl, Bool.false_eq_true, if_false, hasg, List.isEmpty_iff, hP, Fail.extras, List.foldr]
        frun [hs, Fail.run_validates, hok]
        simp [viewObs, Outcome.view, runObs, obs_cacheFold]
      · pfwith [hP, hsort, hs, FW.setS]
        simp only [Fail.setProg, hl, Bool.false_eq_true, if_false, hasg, List.isEmpty_iff, hP, Fail.extras, List.foldr]
        frun [hs, Fail.run_validates, hok]
        simp [viewObs, Outcome.view, runObs]
end SqlObjVerif.PyFail
