import SqlObjVerif.Lemmas.InhSelXBase
/-!
The TRANSLATED nested functions `_get_patched` / `_patch_id_clause` of `InheritableSQLObject.select`, one level at a time:
what `_get_patched` returns on a field / a constant / a clause (given `_patch_id_clause` one level below), and the body of
`_patch_id_clause` on an `SQLOp` given what `_get_patched` returns for its two operands (`patch_op`).  The induction over
the clause that would make them `patchSql` for every clause is not done yet.
-/
set_option linter.unusedSimpArgs false
namespace SqlObjVerif.InhSel
open SqlObjVerif.PyIS
open SqlObjVerif.PyIS.Extracted
open SqlObjVerif.Inherit hiding Val Res Cmp Out

@[simp] theorem pIface_attrOf (pr) (u : Unit) : (pIface pr).attrOf u = vAttrOf := rfl
@[simp] theorem pIface_isinstance (pr) (u : Unit) : (pIface pr).isinstance u = vIsinstance := rfl
@[simp] theorem pIface_proc (pr) : (pIface pr).proc = pr := rfl
@[simp] theorem pIface_updVal (pr) : (pIface pr).updVal = vUpd := rfl

macro "pprun" "[" ts:Lean.Parser.Tactic.simpLemma,* "]" : tactic => `(tactic|
  simp [PyIS.runProc, Block.exec, Stmt.exec, Cond.eval, Expr.eval, Expr.evalList, eval2, St.setVar, St.setOpt,
        Place.read, Place.write, Env.ofArgs, vAttrOf, vIsinstance, vUpd, sIsinstance, isStr, Val.isNone, $ts,*])

/-- `_get_patched` on something that is neither an `SQLOp` nor the id field of the class -/
theorem getPatched_other (c p : Nat) (n : Nat) (v : SVal) (h1 : vIsinstance v "sqlbuilder.SQLOp" = some false)
    (h2 : vIsinstance v "sqlbuilder.Field" = some false) :
    cProc (n + 1) "_get_patched" [v, .fldId c, .fldId p] = .ok (v, .none) := by
  simp only [cProc, if_true]
  unfold select_get_patched
  simp [PyIS.runProc, Block.exec, Stmt.exec, Cond.eval, Expr.eval, St.setVar, Env.ofArgs, h1, h2]

theorem getPatched_fldId (c p n a : Nat) :
    cProc (n + 1) "_get_patched" [.fldId a, .fldId c, .fldId p] = .ok (.fldId a, if a = c then .fldId p else .none) := by
  simp only [cProc, if_true]
  unfold select_get_patched
  by_cases h : a = c <;> pprun [h]

theorem getPatched_fldCol (c p n a k : Nat) :
    cProc (n + 1) "_get_patched" [.fldCol a k, .fldId c, .fldId p] = .ok (.fldCol a k, .none) := by
  simp only [cProc, if_true]
  unfold select_get_patched
  pprun []

theorem getPatched_fldKind (c p n a : Nat) :
    cProc (n + 1) "_get_patched" [.fldKind a, .fldId c, .fldId p] = .ok (.fldKind a, .none) := by
  simp only [cProc, if_true]
  unfold select_get_patched
  pprun []


theorem patchSql_depth0 (c p : Nat) (e : Sql) : sqlDepth (patchSql c p e) = sqlDepth e := by
  induction e <;> simp [patchSql, sqlDepth, *]

/-- `_get_patched` on a clause, from `_patch_id_clause` one level below -/
theorem getPatched_sql (c p L : Nat) (e : Sql)
    (hP : cProc L "_patch_id_clause" [.sql e, .fldId c, .fldId p] = .ok (.sql (patchSql c p e), .none)) :
    cProc (L + 1) "_get_patched" [.sql e, .fldId c, .fldId p] = .ok (.sql (patchSql c p e), .none) := by
  simp only [cProc, if_true]
  unfold select_get_patched
  cases hop : (sqlExpr1 e).isSome
  · have hpe : patchSql c p e = e := by cases e <;> first | rfl | (simp [sqlExpr1] at hop)
    pprun [hop, hpe]
  · pprun [hop, hP]

/-- the body of `_patch_id_clause` on an `SQLOp`, given what `_get_patched` returns for its two operands -/
theorem patch_op (c p L : Nat) (e : Sql) (x1 x2 y1 y2 r1 r2 : SVal) (e1 e2 : Sql)
    (h1 : sqlExpr1 e = some x1) (hg1 : cProc L "_get_patched" [x1, .fldId c, .fldId p] = .ok (y1, r1))
    (hw1 : sqlSet1 e y1 = some e1) (hs1 : (if pyBool r1 then sqlSet1 e1 r1 else some e1) = some e2)
    (h2 : sqlExpr2 e2 = some x2) (hg2 : cProc L "_get_patched" [x2, .fldId c, .fldId p] = .ok (y2, r2))
    (hw2 : sqlSet2 e2 y2 = some e2) (hr2 : pyBool r2 = false) :
    cProc (L + 1) "_patch_id_clause" [.sql e, .fldId c, .fldId p] = .ok (.sql e2, .none) := by
  have hne : "_patch_id_clause" ≠ "_get_patched" := by decide
  simp only [cProc, hne, if_false, if_true]
  unfold select_patch_id_clause
  by_cases hb : pyBool r1 = true
  · simp only [hb, if_true] at hs1
    pprun [h1, hg1, hw1, hb, hs1, h2, hg2, hw2, hr2]
  · have hb' : pyBool r1 = false := by simpa using hb
    simp [hb'] at hs1
    subst hs1
    pprun [h1, hg1, hw1, hb', h2, hg2, hw2, hr2]


end SqlObjVerif.InhSel
