import SqlObjVerif.Lemmas.GetXCreate
set_option linter.unusedSimpArgs false
namespace SqlObjVerif.Cache
open SqlObjVerif.PyGet
open SqlObjVerif.PyGet.Extracted

theorem getCall_conn_sr (w : GW) (c : Cls) (k : Id) (conn sr : Val) :
    getCall w c [.key k] [("connection", conn), ("selectResults", sr)] = getG w c k conn sr := by
  simp [getCall, getG, bindArgs, bindFrom, kwGet, get_params, get_defaults]

theorem getCall_sr_conn (w : GW) (c : Cls) (k : Id) (conn sr : Val) :
    getCall w c [.key k] [("selectResults", sr), ("connection", conn)] = getG w c k conn sr := by
  simp [getCall, getG, bindArgs, bindFrom, kwGet, get_params, get_defaults]

theorem getCall_sr (w : GW) (c : Cls) (k : Id) (sr : Val) :
    getCall w c [.key k] [("selectResults", sr)] = getG w c k .none sr := by
  simp [getCall, getG, bindArgs, bindFrom, kwGet, get_params, get_defaults]

theorem getCall_conn (w : GW) (c : Cls) (k : Id) (conn : Val) :
    getCall w c [.key k] [("connection", conn)] = getG w c k conn .none := by
  simp [getCall, getG, bindArgs, bindFrom, kwGet, get_params, get_defaults]

macro "arun" : tactic => `(tactic|
  simp [PyGet.run, Block.exec, Stmt.exec, Cond.eval, Expr.eval, evalList, evalOpt, eval2, afterCall, St.setVar, St.setOpt,
        St.setAll, Env.get, Res.toCall, pyBool, zipKw, Val.isNone, ExcPat.catches, PyGet.forLoop, Val.toList, Val.ofList,
        soIface, soAttr, soSetAttr, soCall, connCall, knownOpaque, noExt, ext2, VcacheSet, Vconn, VnewLock, Vcols, Vrow,
        Vpickle, optV, Vsr, getCall_conn_sr, getCall_sr_conn, getCall_sr, getCall_conn, *])

/-- an optional string argument (`idxName`) -/
def strArg : Option String → Val
  | none => .none
  | some s => .str s

/-- `cls._SO_fetchAlternateID(name, dbName, value, connection, idxName)` where `value` designates row `k`:
    SQLObjectNotFound when the row does not exist, else `cls.get(k, connection, selectResults=<the row>)` -/
theorem fetchAlternateIDG_eq (w : GW) (c : Cls) (k : Id) (conn : Val) (idx : Option String)
    (hconn : conn = .none ∨ conn = Vconn) :
    fetchAlternateIDG w c k conn (strArg idx) =
      if k ∈ w.s.rows c then getG w c k conn Vcols else .exc w .notFound := by
  unfold fetchAlternateIDG fetchAlternateIDProg fetchAlternateID_nlocals
  by_cases hr : k ∈ w.s.rows c <;> rcases hconn with rfl | rfl <;> cases idx <;> simp only [strArg] <;> arun
  all_goals (generalize getG _ _ _ _ _ = r; cases r <;> rfl)

/-- `inst._SO_foreignKey(value, joinClass, None)`: `None` for a NULL reference, else `joinClass.get(value)` on the
    class's connection -/
theorem foreignKeyG_eq (w : GW) (h : Handle) (tc : Cls) (t : Option Id) :
    foreignKeyG w h (idArg t) tc .none =
      match t with
      | none => .ret w .none
      | some k => getG w tc k .none .none := by
  unfold foreignKeyG foreignKeyProg foreignKey_nlocals
  cases t with
  | none => simp only [idArg]; arun
  | some k =>
    simp only [idArg]; arun
    generalize getG _ _ _ _ _ = r; cases r <;> rfl

/-- `Iteration.next()`: StopIteration at the end of the cursor, else `sourceClass.get(id, selectResults=<the columns>,
    connection=dbconn)` for the next row (`get(id, connection=dbconn)` for a lazyColumns select) -/
theorem iterNextG_eq (w : GW) (c : Cls) :
    iterNextG w c =
      match fetch (w.s.rows c) w.cursor with
      | (none, rest) => .exc { w with cursor := rest } .stopIteration
      | (some k, rest) => getG { w with cursor := rest } c k Vconn (Vsr (!w.lazyCols)) := by
  unfold iterNextG iterNextProg iterNext_nlocals
  generalize hf : fetch (w.s.rows c) w.cursor = f
  obtain ⟨o, rest⟩ := f
  cases o with
  | none => arun
  | some k =>
    cases hz : w.lazyCols <;> arun
    all_goals (generalize getG _ _ _ _ _ = r; cases r <;> rfl)

/-- what `fetch` produces is a row that exists -/
theorem fetch_some_mem (rows ids : List Id) (k : Id) (rest : List Id) (h : fetch rows ids = (some k, rest)) : k ∈ rows := by
  induction ids with
  | nil => simp [fetch] at h
  | cons x xs ih =>
    simp only [fetch] at h
    split at h
    · rename_i hx
      simp only [Prod.mk.injEq, Option.some.injEq] at h
      rw [← h.1]; simpa using hx
    · exact ih h

end SqlObjVerif.Cache
