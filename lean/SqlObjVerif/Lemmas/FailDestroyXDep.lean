import SqlObjVerif.Lemmas.FailDestroyXRows
/-!
C06, translated `destroySelf`, part 4: ONE iteration of the loop over the dependent classes is the hand model's
`Fail.depEntry` (`for1_step`, segments (c)–(f) composed): freeing the other side's link rows, `findDependantColumns`,
the `continue`, building the OR query and the `restrict` list, the restriction test — its `count()` SENDS A STATEMENT
inside the `if` condition (`restrict_step` = `Fail.restrictSeg`, segment (d)) —, the set-null pass (`null_step` =
`Fail.nullSeg`, segment (e)), the `assert` (never raised: `assert_ok`) and the cascade pass (`cascade_step` =
`Fail.cascadeSeg`, segment (f)).  The block is run statement by statement (`fhead`), the rest staying folded.
-/
namespace SqlObjVerif.FailDX
open SqlObjVerif.PyDestroy (Val Const Exc R CallRes Expr Exprs Cond Stmt Block Env St Res forLoop zipKw pyBool
  lenOf keysOf pairsOf vlSnoc isListVal vdSet starKwOf afterCall)
open SqlObjVerif.PyDestroyF
open SqlObjVerif.PyDestroy.Extracted
open SqlObjVerif.Fail (Err Schema Inj Pol Col Join Cls clsOf colOf fkCols Mem In Prog)
open SqlObjVerif.PyFail (sendStmt memStep)

/-! ### pure facts about `fkCols` -/

theorem fkCols_pol {cols : List Col} {t : Nat} {a : Nat × Pol} (h : a ∈ fkCols cols t) : a.2 ≠ .none := by
  unfold fkCols at h
  rw [List.mem_filterMap] at h
  obtain ⟨jc, _, hg⟩ := h
  split at hg
  · split at hg
    · next hc => cases hg; simp only [Bool.and_eq_true, bne_iff_ne] at hc; exact hc.2
    · cases hg
  · cases hg

theorem filterMap_fst_sublist {α : Type} (g : Nat × α → Option (Nat × Pol)) (hg : ∀ x y, g x = some y → y.1 = x.1)
    (l : List (Nat × α)) : ((l.filterMap g).map (·.1)).Sublist (l.map (·.1)) := by
  induction l with
  | nil => simp
  | cons a l ih =>
    simp only [List.filterMap_cons, List.map_cons]
    cases h : g a with
    | none => exact ih.cons _
    | some y =>
      simp only [List.map_cons]
      rw [hg a y h]
      exact ih.cons_cons _

theorem fkCols_nodup (cols : List Col) (t : Nat) : ((fkCols cols t).map (·.1)).Nodup := by
  unfold fkCols
  apply List.Nodup.sublist (filterMap_fst_sublist _ _ _)
  · unfold fkCols.enumFrom
    rw [List.map_fst_zip (by simp)]
    exact List.nodup_range
  · intro x y h
    split at h
    · split at h
      · cases h; rfl
      · cases h
    · cases h

theorem nullCols_nodup (cols : List Col) (t : Nat) : (Fail.nullCols (fkCols cols t)).Nodup := by
  unfold Fail.nullCols
  exact List.Nodup.sublist ((List.filter_sublist).map _) (fkCols_nodup cols t)

theorem addKeys_nullCols (cols : List Col) (t : Nat) : addKeys [] (Fail.nullCols (fkCols cols t)) = Fail.nullCols (fkCols cols t) := by
  rw [addKeys_nodup _ [] (nullCols_nodup cols t) (fun _ _ => by simp)]; simp

/-- the `assert delete or setnull or restrict` never fails -/
theorem assert_ok (fk : List (Nat × Pol)) (hne : fk ≠ []) (hp : ∀ a ∈ fk, a.2 ≠ Pol.none) :
    Fail.hasCascade fk = true ∨ Fail.nullCols fk ≠ [] ∨ Fail.restrictCols fk ≠ [] := by
  cases fk with
  | nil => exact absurd rfl hne
  | cons a fk =>
    have := hp a (by simp)
    cases hpa : a.2 with
    | none => exact absurd hpa this
    | cascade => left; simp [Fail.hasCascade, hpa]
    | null => right; left; simp [Fail.nullCols, hpa]
    | restrict => right; right; simp [Fail.restrictCols, hpa]

theorem count_ne_zero {α : Type} (l : List α) (p : α → Bool) : ((l.filter p).length != 0) = l.any p := by
  induction l with
  | nil => rfl
  | cons a l ih => by_cases h : p a = true <;> simp [h, ih]

variable (sch : Schema) (inj : Option Inj) (recC : Nat → Nat → Fail.St → CallRes Hnd Fail.St) (c id : Nat)

@[simp] theorem orV_fold (k i : Nat) (fk : List (Nat × Pol)) :
    (.app "OR" (Val.ofList (fk.map fun a => atomV k i a.1)) : PVal) = orV k i fk := rfl

@[simp] theorem pyBool_dict_dbody (ns : List Nat) : pyBool (.dict (dbody ns) : PVal) = !ns.isEmpty := by
  cases ns <;> rfl

/-- **segment (d)**: `if restrict and k.select(OR(*restrict)).count(): raise …` is `Fail.restrictSeg` -/
theorem restrict_step (k : Nat) (fk : List (Nat × Pol)) (s : Fail.St) (env : Env Hnd)
    (h5 : env 5 = some (.obj (.cls k)))
    (h8 : env 8 = some (Val.ofList ((Fail.restrictCols fk).map fun a => atomV k id a.1))) :
    execS (dIface sch inj recC c id) ⟨s, env⟩
      (.ite (.and (.truthy (.var 8)) (.truthy (.query (.query (.var 5) "select" (.cons (.fnStar "sqlbuilder.OR" (.var 8)) .nil) ["connection"] (.cons (.attr .self "_connection") .nil)) "count" .nil [] .nil))) (.cons (.raise "SQLObjectIntegrityError")
    .nil) .nil) =
      resSt env (Fail.run sch inj (Fail.restrictSeg fk k id .done) s) := by
  unfold Fail.restrictSeg
  by_cases hr : (Fail.restrictCols fk).isEmpty = true
  · simp [execS, evalC, evalE, h8, hr, run_done]
  · simp only [hr, if_false, Bool.false_eq_true, run_stmt]
    simp [execS, evalC, evalE, evalEs, h8, h5, hr, fFn_or, fQuery_select, fQuery_count, zipKw]
    rcases sendStmt sch inj (.select k) s with ⟨s1, _ | e⟩
    · simp only [sendE, bind_ok, run_dyn]
      have hc : (((s1.tab k).filter fun r => Fail.rowRefs (Fail.restrictCols fk) id r.vals).length != 0) =
          Fail.restrictingRows s1 fk k id := count_ne_zero _ _
      by_cases hb : Fail.restrictingRows s1 fk k id = true
      · rw [hb] at hc
        simp [pyBool_int, hc, hb, run_fail, errName]
        rw [execB_cons]; simp [execS]
      · have hb' : Fail.restrictingRows s1 fk k id = false := by simpa using hb
        rw [hb'] at hc
        simp [pyBool_int, hc, hb', run_done]
    · simp [sendE]

theorem seq_resSt_nil (I : IfaceF Hnd Fail.St) (env' : Env Hnd) (r : Fail.St × Option Err) :
    ((resSt env' r).seq fun st' => execB I st' .nil) = resSt env' r := by
  rcases r with ⟨s1, _ | e⟩ <;> simp

/-- **segment (e)**: `if setnull: for row in results: …` is `Fail.nullSeg` -/
theorem null_step (k : Nat) (fk : List (Nat × Pol)) (hnd : (Fail.nullCols fk).Nodup) (s : Fail.St) (env : Env Hnd)
    (h10 : env 10 = some (selV k (orV k id fk))) (h11 : env 11 = some (.dict (dbody (Fail.nullCols fk)))) : ∃ env',
    execS (dIface sch inj recC c id) ⟨s, env⟩
      (.ite (.truthy (.var 11)) (.cons (.for 12 (.var 10) destroySelf_for5) .nil) .nil) =
      resSt env' (Fail.run sch inj (Fail.nullSeg sch fk k id .done) s) ∧
    ∀ x, x ≠ 12 → x ≠ 13 → x ≠ 14 → env' x = env x := by
  rw [nullSeg_eq]
  by_cases hn : (Fail.nullCols fk).isEmpty = true
  · exact ⟨env, by simp [execS, evalC, evalE, h11, hn, run_done], fun _ _ _ _ => rfl⟩
  · obtain ⟨env', h, f⟩ := for_select sch inj recC c id k fk 12 destroySelf_for5 (nullRowSeg sch fk k id)
      (fun e' => ∀ x, x ≠ 12 → x ≠ 13 → x ≠ 14 → e' x = env x) env (fun _ _ _ _ => rfl)
      (fun rows s' => for5_loop sch inj recC c id k fk hnd rows s' env h11) s h10
    refine ⟨env', ?_, f⟩
    simp only [hn, if_false, Bool.false_eq_true]
    simp [execS, evalC, evalE, h11, hn]
    rw [execB_cons, h, seq_resSt_nil]

/-- **segment (f)**: `if delete: for row in results: row.destroySelf()` is `Fail.cascadeSeg` -/
theorem cascade_step (recP : Nat → Nat → Prog → Prog) (hnat : ∀ k j, Natural sch inj (recP k j))
    (hrec : ∀ k j s, recC k j s = outCall (Fail.run sch inj (recP k j .done) s))
    (k : Nat) (fk : List (Nat × Pol)) (s : Fail.St) (env : Env Hnd)
    (h10 : env 10 = some (selV k (orV k id fk))) (h15 : env 15 = some (.bool (Fail.hasCascade fk))) : ∃ env',
    execS (dIface sch inj recC c id) ⟨s, env⟩
      (.ite (.truthy (.var 15)) (.cons (.for 12 (.var 10) destroySelf_for8) .nil) .nil) =
      resSt env' (Fail.run sch inj (Fail.cascadeSeg recP fk k id .done) s) ∧
    ∀ x, x ≠ 12 → env' x = env x := by
  unfold Fail.cascadeSeg
  by_cases hn : Fail.hasCascade fk = true
  · obtain ⟨env', h, f⟩ := for_select sch inj recC c id k fk 12 destroySelf_for8 (fun r acc => recP k r.id acc)
      (fun e' => ∀ x, x ≠ 12 → e' x = env x) env (fun _ _ => rfl)
      (fun rows s' => for8_loop sch inj recC c id recP hnat hrec k rows s' env) s h10
    refine ⟨env', ?_, f⟩
    simp only [hn, if_true]
    simp [execS, evalC, evalE, h15, hn]
    rw [execB_cons, h, seq_resSt_nil]
  · exact ⟨env, by simp [execS, evalC, evalE, h15, hn, run_done], fun _ _ => rfl⟩

/-- the image of the model's outcome of one dependent class: the loop goes on (`norm` / `continue`) or an exception -/
def StepOK (env : Env Hnd) (r : Res Hnd Fail.St) (m : Fail.St × Option Err) : Prop :=
  ∃ env', (∀ x, x < 2 → env' x = env x) ∧
    match m with
    | (s', none) => r = .norm ⟨s', env'⟩ ∨ r = .cont ⟨s', env'⟩
    | (s', some e) => r = .exc ⟨s', env'⟩ (errName e)

theorem depEntry_run (recP : Nat → Nat → Prog → Prog) (k : Nat) (s : Fail.St) :
    Fail.run sch inj (Fail.depEntry recP sch c id k .done) s =
      bindRun sch inj (Fail.run sch inj (Fail.freeLinksSeg (clsOf sch k) c id .done) s)
        (if (fkCols (clsOf sch k).cols c).isEmpty then .done else
          Fail.restrictSeg (fkCols (clsOf sch k).cols c) k id <| Fail.nullSeg sch (fkCols (clsOf sch k).cols c) k id <|
            Fail.cascadeSeg recP (fkCols (clsOf sch k).cols c) k id .done) := by
  unfold Fail.depEntry
  by_cases h : (fkCols (clsOf sch k).cols c).isEmpty = true
  · simp only [h, if_true, bindRun_done]
  · simp only [h, if_false, Bool.false_eq_true]
    exact nat_freeLinks sch inj _ c id _ s

/-- **one iteration of the loop over the dependent classes is `Fail.depEntry`** -/
theorem for1_step (recP : Nat → Nat → Prog → Prog) (hnat : ∀ k j, Natural sch inj (recP k j))
    (hrec : ∀ k j s, recC k j s = outCall (Fail.run sch inj (recP k j .done) s))
    (k : Nat) (s : Fail.St) (env : Env Hnd) (h1 : env 1 = some (.obj (.cls c))) :
    StepOK env (execB (dIface sch inj recC c id) (St.setVar ⟨s, env⟩ 5 (.obj (.cls k))) destroySelf_for1)
      (Fail.run sch inj (Fail.depEntry recP sch c id k .done) s) := by
  rw [depEntry_run sch inj c id recP k s]
  have hpol : ∀ a ∈ fkCols (clsOf sch k).cols c, a.2 ≠ Pol.none := fun a h => fkCols_pol h
  have hnd := nullCols_nodup (clsOf sch k).cols c
  have hfdc : fdcModel sch c k = .ok (Val.ofList ((fkCols (clsOf sch k).cols c).map (colV c k))) := rfl
  generalize fkCols (clsOf sch k).cols c = fk at hpol hnd hfdc ⊢
  obtain ⟨env2, h2, f2⟩ := for2_loop sch inj recC c id (clsOf sch k).joins s (env.put 5 (.obj (.cls k))) (by simp [h1])
  change _ = resSt env2 (Fail.run sch inj (Fail.freeLinksSeg (clsOf sch k) c id .done) s) at h2
  simp only [St.setVar] at h2
  have e1 : env2 1 = some (.obj (.cls c)) := by rw [f2 1 (by decide) (by decide)]; simp [h1]
  have e5 : env2 5 = some (.obj (.cls k)) := by rw [f2 5 (by decide) (by decide)]; simp
  have e01 : ∀ x, x < 2 → env2 x = env x := fun x hx => by
    rw [f2 x (by omega) (by omega)]; simp; omega
  clear f2
  unfold destroySelf_for1
  fhead
  clear h2
  rcases Fail.run sch inj (Fail.freeLinksSeg (clsOf sch k) c id .done) s with ⟨s1, _ | e⟩
  case some => exact ⟨env2, e01, by simp⟩
  simp only [resSt_ok, seq_norm, bindRun_ok]
  fhead
  simp [fFn_fdc, hfdc]
  fhead
  by_cases hc : fk = []
  · subst hc
    simp [Val.ofList, run_done]
    exact ⟨env2.put 6 .nil, fun x hx => by rw [← e01 x hx]; simp; omega, .inr rfl⟩
  have hne : fk.isEmpty = false := by cases fk <;> simp_all
  have hlen : ¬ fk.length = 0 := by cases fk <;> simp_all
  simp [hc]
  fhead
  fhead
  obtain ⟨env3, h3, e37, e38, f3⟩ := for3_loop sch inj recC c id k fk s1
    (((env2.put 6 (Val.ofList (fk.map (colV c k)))).put 7 .nil).put 8 .nil) [] []
    (by simp [e5]) (by simp [Val.ofList]) (by simp [Val.ofList])
  simp only [St.setVar, List.nil_append] at h3 e37 e38
  have e35 : env3 5 = some (.obj (.cls k)) := by rw [f3 5 (by decide) (by decide) (by decide)]; simp [e5]
  have e301 : ∀ x, x < 2 → env3 x = env x := fun x hx => by
    rw [f3 x (by omega) (by omega) (by omega), ← e01 x hx]
    simp [show x ≠ 6 by omega, show x ≠ 7 by omega, show x ≠ 8 by omega]
  have e36 : env3 6 = some (Val.ofList (fk.map (colV c k))) := by
    rw [f3 6 (by decide) (by decide) (by decide)]; simp
  clear f3
  fhead
  fhead
  simp [fFn_or]
  fhead
  simp [fQuery_select]
  -- the restriction test
  rw [execB_cons, restrict_step sch inj recC c id k fk s1 _ (by simp [e35]) (by simpa using e38),
    nat_restrict sch inj fk k id (Fail.nullSeg sch fk k id (Fail.cascadeSeg recP fk k id .done)) s1]
  rcases Fail.run sch inj (Fail.restrictSeg fk k id .done) s1 with ⟨s2, _ | e⟩
  case some =>
    refine ⟨(env3.put 7 (orV k id fk)).put 10 (selV k (orV k id fk)), fun x hx => ?_, by simp⟩
    rw [← e301 x hx]
    simp [show x ≠ 7 by omega, show x ≠ 10 by omega]
  simp only [resSt_ok, seq_norm, bindRun_ok]
  fhead
  obtain ⟨env4, h4, e411, f4⟩ := for4_loop sch inj recC c id k fk s2
    (((env3.put 7 (orV k id fk)).put 10 (selV k (orV k id fk))).put 11 (.dict .nil)) []
    (by simp [dbody, Val.ofList])
  simp only [St.setVar] at h4
  rw [addKeys_nodup _ [] hnd (fun _ _ => by simp), List.nil_append] at e411
  have e401 : ∀ x, x < 2 → env4 x = env x := fun x hx => by
    rw [f4 x (by omega) (by omega), ← e301 x hx]
    simp [show x ≠ 7 by omega, show x ≠ 10 by omega, show x ≠ 11 by omega]
  have e46 : env4 6 = some (Val.ofList (fk.map (colV c k))) := by
    rw [f4 6 (by decide) (by decide)]; simp [e36]
  have e48 : env4 8 = some (Val.ofList ((Fail.restrictCols fk).map fun a => atomV k id a.1)) := by
    rw [f4 8 (by decide) (by decide)]; simpa using e38
  have e410 : env4 10 = some (selV k (orV k id fk)) := by
    rw [f4 10 (by decide) (by decide)]; simp
  clear f4
  fhead
  -- the set-null pass
  obtain ⟨env5, h5, f5⟩ := null_step sch inj recC c id k fk hnd s2 env4 e410 e411
  rw [execB_cons, h5, nat_null sch inj fk k id (Fail.cascadeSeg recP fk k id .done) s2]
  have e501 : ∀ x, x < 2 → env5 x = env x := fun x hx => by
    rw [f5 x (by omega) (by omega) (by omega), e401 x hx]
  have e56 : env5 6 = some (Val.ofList (fk.map (colV c k))) := by
    rw [f5 6 (by decide) (by decide) (by decide)]; exact e46
  have e58 : env5 8 = some (Val.ofList ((Fail.restrictCols fk).map fun a => atomV k id a.1)) := by
    rw [f5 8 (by decide) (by decide) (by decide)]; exact e48
  have e510 : env5 10 = some (selV k (orV k id fk)) := by
    rw [f5 10 (by decide) (by decide) (by decide)]; exact e410
  have e511 : env5 11 = some (.dict (dbody (Fail.nullCols fk))) := by
    rw [f5 11 (by decide) (by decide) (by decide)]; exact e411
  clear f5 h5 h4 h3
  rcases Fail.run sch inj (Fail.nullSeg sch fk k id .done) s2 with ⟨s3, _ | e⟩
  case some => exact ⟨env5, e501, by simp⟩
  simp only [resSt_ok, seq_norm, bindRun_ok]
  fhead
  obtain ⟨env7, h7, e715, f7⟩ := for7_loop sch inj recC c id k fk s3 (env5.put 15 (.bool false)) false (by simp)
  simp only [St.setVar, Bool.false_or] at h7 e715
  have e701 : ∀ x, x < 2 → env7 x = env x := fun x hx => by
    rw [f7 x (by omega) (by omega), ← e501 x hx]; simp; omega
  have e78 : env7 8 = some (Val.ofList ((Fail.restrictCols fk).map fun a => atomV k id a.1)) := by
    rw [f7 8 (by decide) (by decide)]; simpa using e58
  have e710 : env7 10 = some (selV k (orV k id fk)) := by
    rw [f7 10 (by decide) (by decide)]; simpa using e510
  have e711 : env7 11 = some (.dict (dbody (Fail.nullCols fk))) := by
    rw [f7 11 (by decide) (by decide)]; simpa using e511
  clear f7
  fhead
  rw [execB_cons]
  have hass : execS (dIface sch inj recC c id) ⟨s3, env7⟩
      (.assert (.or (.truthy (.var 15)) (.or (.truthy (.var 11)) (.truthy (.var 8))))) = .norm ⟨s3, env7⟩ := by
    simp [execS, evalC, evalE, e715, e711, e78]
    rcases assert_ok fk hc hpol with h | h | h
    · simp [h]
    · by_cases a : Fail.hasCascade fk = true <;> simp [a, h]
    · by_cases a : Fail.hasCascade fk = true <;> by_cases b : Fail.nullCols fk = [] <;> simp [a, b, h]
  rw [hass]
  simp only [seq_norm]
  -- the cascade pass
  obtain ⟨env8, h8, f8⟩ := cascade_step sch inj recC c id recP hnat hrec k fk s3 env7 e710 e715
  rw [execB_cons, h8, seq_resSt_nil]
  refine ⟨env8, fun x hx => by rw [f8 x (by omega), e701 x hx], ?_⟩
  rcases Fail.run sch inj (Fail.cascadeSeg recP fk k id .done) s3 with ⟨s4, _ | e⟩ <;> simp

end SqlObjVerif.FailDX
