import SqlObjVerif.Lemmas.LexXVal
/-!
# C02 — the translated `DBAPI.sqlrepr`, `DBAPI._insertSQL`, `DBAPI._SO_update` equal the hand model
(`Lex.insertSQL`, `Lex.updateSQL`), for any number of values
-/
namespace SqlObjVerif.LexX
open SqlObjVerif.PyLex
open SqlObjVerif.PyLex.Extracted

variable (P : Ext)

@[simp] theorem xCm_conn_sqlrepr (I : Iface) (fs : List (String × Val)) (args : List Val) :
    xCm P I (.obj "DBAPI" fs) "sqlrepr" args = (run I conn_sqlrepr (.obj "DBAPI" fs :: args)).toR := by
  simp [xCm, methOf]

theorem xCm_conn_query (I : Iface) (fs : List (String × Val)) (args : List Val) :
    xCm P I (.obj "DBAPI" fs) "query" args = P.cm (.obj "DBAPI" fs) "query" args := by
  simp [xCm, methOf]

/-- `DBAPI.sqlrepr(self, v)` = `sqlrepr(v, self.dbName)` -/
theorem conn_sqlrepr_of (m : Nat) (d : Lex.Dialect) (v : Val) (o : Out)
    (h : run (world P m) Extracted.sqlrepr [v, .str (dbName d)] = o) :
    run (world P (m + 1)) conn_sqlrepr [connObj d, v] = o := by
  unfold run conn_sqlrepr conn_sqlrepr_s0 connObj
  pylw [callFn_ext, h]
  cases o <;> simp

theorem conn_sqlrepr_run (m : Nat) (d : Lex.Dialect) (v : Val) :
    run (world P (m + 1)) conn_sqlrepr [connObj d, v] = run (world P m) Extracted.sqlrepr [v, .str (dbName d)] :=
  conn_sqlrepr_of P m d v _ rfl

theorem insert_step (m : Nat) (d : Lex.Dialect) (env : Env) (v : Val) (out : Lex.Str) (h0 : env 0 = some (connObj d))
    (hv : run (world P m) Extracted.sqlrepr [v, .str (dbName d)] = ret out) :
    compStep (.one 4) (fun env' => insertSQL_comp0.eval (world P (m + 2)) env') env v = .ok (.str out) := by
  have := conn_sqlrepr_run P m d v
  simp only [connObj] at this h0
  simp [compStep, Target.bind, insertSQL_comp0, Expr.eval, Exprs.eval, h0, this, hv]

theorem insert_comp (m : Nat) (d : Lex.Dialect) (env : Env) (l : List Lex.Val) (h0 : env 0 = some (connObj d))
    (hall : ∀ v ∈ l, run (world P m) Extracted.sqlrepr [ofVal v, .str (dbName d)] = ret (Lex.render d v)) :
    mapR (compStep (.one 4) (fun env' => insertSQL_comp0.eval (world P (m + 2)) env') env) (l.map ofVal) =
      .ok ((l.map (Lex.render d)).map Val.str) := by
  induction l with
  | nil => simp [mapR]
  | cons v vs ih =>
    have hv := hall v (by simp)
    have := ih (fun w hw => hall w (by simp [hw]))
    simp only [List.map_cons, mapR, insert_step P m d env _ _ h0 hv, this, R.bind_ok]

/-- `DBAPI._insertSQL(table, names, values)` -/
theorem insertSQL_run (hrepr : ∀ t, P.reprOf (floatObj t) = .ok t) (d : Lex.Dialect) (table : Lex.Str)
    (names : List Lex.Str) (vs : List Lex.Val) (m : Nat) (hm : depthL vs ≤ m) :
    run (world P (m + 2)) Extracted.insertSQL [connObj d, .str table, .list (names.map .str), .list (ofVals vs)] =
      ret (Lex.insertSQL d table names vs) := by
  rw [ofVals_eq]
  have hall := sqlrepr_vals P hrepr d vs m hm
  unfold run Extracted.insertSQL insertSQL_s0
  have hc := insert_comp P m d (Env.ofArgs [connObj d, .str table, .list (names.map .str), .list (vs.map ofVal)]) vs rfl hall
  simp only [Env.ofArgs] at hc
  pylw [hc, strsOf_map_str, strsOf_map_comp, pyJoin_eq, ret, Lex.insertSQL, Lex.fmt, Lex.Extracted.insertFmt,
    Lex.Extracted.insertNameSep, Lex.Extracted.insertValueSep]


/-- an SQLObject instance as `_SO_update` sees it: `so.sqlmeta.table`, `so.sqlmeta.idName`, `so.id` -/
def soObj (table idName : Lex.Str) (id : Val) : Val :=
  .obj "SQLObject" [("sqlmeta", .obj "sqlmeta" [("table", .str table), ("idName", .str idName)]), ("id", id)]

/-- the `(dbName, value)` pairs -/
def setsVal (sets : List (Lex.Str × Lex.Val)) : List Val := sets.map fun p => .tuple [.str p.1, ofVal p.2]

theorem update_step (m : Nat) (d : Lex.Dialect) (env : Env) (name : Lex.Str) (v : Val) (out : Lex.Str)
    (h0 : env 0 = some (connObj d))
    (hv : run (world P m) Extracted.sqlrepr [v, .str (dbName d)] = ret out) :
    compStep (.tup [3, 4]) (fun env' => SO_update_comp0.eval (world P (m + 2)) env') env (.tuple [.str name, v]) =
      .ok (.str (Lex.fmt Lex.Extracted.updateSetFmt [] [name, out])) := by
  have := conn_sqlrepr_run P m d v
  simp only [connObj] at this h0
  simp [compStep, Target.bind, bindAll, SO_update_comp0, Expr.eval, Exprs.eval, h0, this, hv, pyMod, pyFormat, fmtGo,
    fmtArgs, Lex.fmt, Lex.Extracted.updateSetFmt]

theorem update_comp (m : Nat) (d : Lex.Dialect) (env : Env) (sets : List (Lex.Str × Lex.Val))
    (h0 : env 0 = some (connObj d))
    (hall : ∀ p ∈ sets, run (world P m) Extracted.sqlrepr [ofVal p.2, .str (dbName d)] = ret (Lex.render d p.2)) :
    mapR (compStep (.tup [3, 4]) (fun env' => SO_update_comp0.eval (world P (m + 2)) env') env) (setsVal sets) =
      .ok ((sets.map fun p => Lex.fmt Lex.Extracted.updateSetFmt [] [p.1, Lex.render d p.2]).map Val.str) := by
  induction sets with
  | nil => simp [mapR, setsVal]
  | cons p ps ih =>
    have hv := hall p (by simp)
    have := ih (fun w hw => hall w (by simp [hw]))
    simp only [setsVal] at this
    simp only [setsVal, List.map_cons, mapR, update_step P m d env _ _ _ h0 hv, this, R.bind_ok]

/-- `DBAPI._SO_update(so, values)`: the statement text handed to `self.query` -/
theorem SO_update_run (hrepr : ∀ t, P.reprOf (floatObj t) = .ok t) (d : Lex.Dialect) (table idName : Lex.Str)
    (sets : List (Lex.Str × Lex.Val)) (idv : Lex.Val) (m : Nat)
    (hm : ∀ p ∈ sets, depth p.2 ≤ m) (hid : depth idv ≤ m) :
    run (world P (m + 2)) SO_update [connObj d, soObj table idName (ofVal idv), .list (setsVal sets)] =
      match P.cm (connObj d) "query" [.str (Lex.updateSQL d table sets idName idv)] with
      | .ok _ => .ret .none
      | .exc e => .exc e
      | .stuck => .stuck := by
  have hall : ∀ p ∈ sets, run (world P m) Extracted.sqlrepr [ofVal p.2, .str (dbName d)] = ret (Lex.render d p.2) :=
    fun p hp => sqlrepr_val P hrepr d p.2 m (hm p hp)
  have hidr := conn_sqlrepr_of P m d _ _ (sqlrepr_val P hrepr d idv m hid)
  unfold run SO_update SO_update_s0
  have hc := update_comp P m d (Env.ofArgs [connObj d, soObj table idName (ofVal idv), .list (setsVal sets)]) sets rfl hall
  simp only [Env.ofArgs] at hc
  simp only [connObj] at hidr
  unfold soObj connObj at *
  pylw [hc, hidr, strsOf_map_str, strsOf_map_comp, pyJoin_eq, xCm_conn_query, Lex.updateSQL, Lex.fmt,
    Lex.Extracted.updateFmt, Lex.Extracted.updateSetSep, Lex.Extracted.updateSetFmt]
  generalize P.cm _ _ _ = r
  cases r <;> simp [Res.seq_norm]
end SqlObjVerif.LexX
