import SqlObjVerif.Lemmas.GraphXRows
/-!
Symbolic execution of the TRANSLATED `destroySelf` (C12), part 4: ONE iteration of the loop over the dependent classes
is the model's per-class step `procDep` (`for1_step`): freeing the other side's link rows, `findDependantColumns`, the
`continue`, building the OR query and the `restrict` list, the restriction test (→ `SQLObjectIntegrityError`), the
set-null pass (`ifnull_step`), the `assert` (never raised: `assert_ok`) and the cascade pass.  The block is run
statement by statement (`dhead`), the rest of the block staying folded.
-/
namespace SqlObjVerif.Graph
open SqlObjVerif.PyDestroy
open SqlObjVerif.PyDestroy.Extracted
variable (S : Schema) (lz : Nat → Bool) (rec : DB → Nat → Nat → Res) (c i : Nat)

theorem atomsOf_map (k i : Nat) (fs : List Nat) : atomsOf k (Val.ofList (fs.map (atomV k i))) = some (fs.map fun f => (f, i)) := by
  induction fs with
  | nil => rfl
  | cons f fs ih => simp [Val.ofList, atomsOf, ih, atomV, atomOf]

/-- `sqlbuilder.OR(k.q.f1 == i, k.q.f2 == i, …)` -/
def orV (k i : Nat) (fs : List Nat) : PVal := .app "OR" (Val.ofList (fs.map (atomV k i)))

@[simp] theorem orV_fold (k i : Nat) (fs : List Nat) : (.app "OR" (Val.ofList (fs.map (atomV k i))) : PVal) = orV k i fs := rfl

@[simp] theorem whereOf_or (k i : Nat) (fs : List Nat) : whereOf k (orV k i fs) = some (fs.map fun f => (f, i)) := by
  unfold orV
  simp only [whereOf, atomsOf_map, if_true]

theorem selRows_eq_matching (db : DB) (k i : Nat) (fs : List Nat) :
    selRows db k (fs.map fun f => (f, i)) = matching db k fs i := by
  unfold selRows matching rowSat refsVia
  simp [List.any_map, Function.comp_def]

@[simp] theorem gFn_or (fdc) (as : List PVal) : gFn fdc "sqlbuilder.OR" as = .ok (.app "OR" (Val.ofList as)) := by
  simp [gFn]

@[simp] theorem gFn_fdc (fdc) (c' k : Nat) : gFn fdc "findDependantColumns" [.obj (.cname c'), .obj (.cls k)] = fdc c' k := by
  simp [gFn]

@[simp] theorem gQuery_select (w : XW) (k i : Nat) (fs : List Nat) :
    gQuery S w (.obj (.cls k)) "select" [orV k i fs] [(.str "connection", .obj .conn)] = .ok (selV k (orV k i fs)) := by
  simp [gQuery]

@[simp] theorem selOf_selV (k i : Nat) (fs : List Nat) :
    selOf (selV k (orV k i fs)) = some (k, fs.map fun f => (f, i)) := by
  simp [selOf, selV]

@[simp] theorem gQuery_count (w : XW) (k i : Nat) (fs : List Nat) :
    gQuery S w (selV k (orV k i fs)) "count" [] [] = .ok (.int (matching w.db k fs i).length) := by
  have := selOf_selV k i fs
  unfold selV at this ⊢
  simp [gQuery, this, selRows_eq_matching]

@[simp] theorem gIter_sel (w : XW) (k i : Nat) (fs : List Nat) :
    gIter w (selV k (orV k i fs)) = some (((matching w.db k fs i).map (·.id)).map fun j => .obj (.inst k j)) := by
  simp [gIter, selRows_eq_matching, Function.comp_def]

theorem iterOf_sel (fdc self) (w : XW) (k : Nat) (q : PVal) :
    iterOf (gIface S lz fdc rec self) w (selV k q) = gIter w (selV k q) := rfl

theorem delDepLinks_eq (k : Nat) (ls : List Link) : delDepLinks S k c i ls = depFold c i (S.cls k).joins ls := by
  simp [delDepLinks, depFold, depDeleteCol_first]

@[simp] theorem gQuery_depends (w : XW) (k j : Nat) :
    gQuery S w (.obj (.inst k j)) "_SO_depends" [] [] = .ok (Val.ofList ((dependents S k).map fun d => .obj (.cls d))) := by
  simp [gQuery]

/-- the image of the model's outcome of one dependent class: the loop goes on (`norm` / `continue`) or an exception -/
def StepOK (env : Env Hnd) (r : PyDestroy.Res Hnd XW) (m : Res) : Prop :=
  ∃ env', (∀ x, x < 2 → env' x = env x) ∧
    match m with
    | .ok db' => r = .norm ⟨⟨db', []⟩, env'⟩ ∨ r = .cont ⟨⟨db', []⟩, env'⟩
    | .refused db' => r = .exc ⟨⟨db', []⟩, env'⟩ "SQLObjectIntegrityError"
    | .fuel db' => r = .exc ⟨⟨db', []⟩, env'⟩ "RecursionError"

/-- run the first statement of the block at the head of the goal; the rest of the block stays folded -/
macro "dhead" : tactic => `(tactic|
  (rw [exec_cons];
   simp [Stmt.exec, Cond.eval, Expr.eval, Exprs.eval, St.setVar, St.setOpt, afterCall, zipKw, starKwOf, Const.val,
         gIsinstance, gGlob, loopStep_ofList, loopStep_dict, *]))

@[simp] theorem pyBool_dict_dbody (ns : List Nat) : pyBool (.dict (dbody ns) : PVal) = !ns.isEmpty := by
  cases ns <;> rfl

theorem nullRefs_noop (k : Nat) (cols : List Nat) (db : DB) (h : nullCols S k cols = []) : nullRefs S db k cols i = db := by
  unfold nullRefs
  have : db.rows.map (nullRow S k cols i) = db.rows := by
    rw [List.map_congr_left (g := id)]
    · simp
    · intro r _
      apply nullRow_noop
      intro f hf hp
      have : f ∈ nullCols S k cols := by simp [nullCols, hf, hp]
      rw [h] at this; cases this
  rw [this]

theorem procDep_of_empty (db : DB) (k : Nat) (h : depCols S c k = []) :
    procDep S rec c i db k = .ok { db with links := delDepLinks S k c i db.links } := by
  unfold procDep
  simp only [h, List.isEmpty_nil, if_true]

theorem procDep_of_restricted (db : DB) (k : Nat) (h1 : depCols S c k ≠ [])
    (h2 : matching { db with links := delDepLinks S k c i db.links } k (restrictCols S k (depCols S c k)) i ≠ []) :
    procDep S rec c i db k = .refused { db with links := delDepLinks S k c i db.links } := by
  unfold procDep
  have e1 : (depCols S c k).isEmpty = false := by cases h : depCols S c k <;> simp_all
  have e2 : (matching { db with links := delDepLinks S k c i db.links } k (restrictCols S k (depCols S c k)) i).isEmpty = false := by
    cases h : matching { db with links := delDepLinks S k c i db.links } k (restrictCols S k (depCols S c k)) i <;> simp_all
  simp only [e1, e2, Bool.false_eq_true, if_false, Bool.not_false, if_true]

theorem procDep_of_pass (db : DB) (k : Nat) (h1 : depCols S c k ≠ [])
    (h2 : matching { db with links := delDepLinks S k c i db.links } k (restrictCols S k (depCols S c k)) i = []) :
    procDep S rec c i db k =
      if hasPolicy S k (depCols S c k) .cascade then
        destroyRows rec k ((matching (nullRefs S { db with links := delDepLinks S k c i db.links } k (depCols S c k) i) k (depCols S c k) i).map (·.id))
          (nullRefs S { db with links := delDepLinks S k c i db.links } k (depCols S c k) i)
      else .ok (nullRefs S { db with links := delDepLinks S k c i db.links } k (depCols S c k) i) := by
  unfold procDep
  have e1 : (depCols S c k).isEmpty = false := by cases h : depCols S c k <;> simp_all
  simp only [e1, h2, List.isEmpty_nil, Bool.false_eq_true, if_false, Bool.not_true]

theorem addKeys_ne_nil {ns fs : List Nat} (h : fs ≠ []) : addKeys ns fs ≠ [] := by
  cases fs with
  | nil => exact absurd rfl h
  | cons f fs =>
    intro he
    have : f ∈ addKeys ns (f :: fs) := mem_addKeys.mpr (.inr (by simp))
    rw [he] at this; cases this

/-- `if setnull: for row in results: …` is the model's `nullRefs` -/
theorem ifnull_step (k : Nat) (db1 : DB) (env4 : Env Hnd) (hwf1 : db1.WF)
    (e410 : env4 10 = some (selV k (orV k i (depCols S c k))))
    (e411 : env4 11 = some (.dict (dbody (addKeys [] (nullCols S k (depCols S c k)))))) : ∃ env5,
    Stmt.exec (dIface S lz rec c i) ⟨⟨db1, []⟩, env4⟩
      (.ite (.truthy (.var 11)) (.cons (.for 12 (.var 10) destroySelf_for5) .nil) .nil) =
      .norm ⟨⟨nullRefs S db1 k (depCols S c k) i, []⟩, env5⟩ ∧
    ∀ x, x ≠ 12 → x ≠ 13 → x ≠ 14 → env5 x = env4 x := by
  by_cases hns : nullCols S k (depCols S c k) = []
  · refine ⟨env4, ?_, fun _ _ _ _ => rfl⟩
    simp [Stmt.exec, Cond.eval, Expr.eval, e411, hns, addKeys, nullRefs_noop S i k _ db1 hns]
  · obtain ⟨env5, h5, f5⟩ := for5_loop S lz rec c i k (depCols S c k) (orV k i (depCols S c k))
      ((matching db1 k (depCols S c k) i).map (·.id)) ⟨db1, []⟩ env4 rfl hwf1 e411
    refine ⟨env5, ?_, f5⟩
    have hne : (addKeys [] (nullCols S k (depCols S c k))).isEmpty = false := by
      cases h : addKeys [] (nullCols S k (depCols S c k)) with
      | nil => exact absurd h (addKeys_ne_nil hns)
      | cons a l => rfl
    rw [foldl_nullOne_eq] at h5
    simp only [List.map_map] at h5
    simp [Stmt.exec, Cond.eval, Expr.eval, e411, e410, hne, iterOf_sel, exec_cons, h5]

theorem assert_ok (k : Nat) (h : depCols S c k ≠ []) :
    (hasPolicy S k (depCols S c k) .cascade = true ∨ addKeys [] (nullCols S k (depCols S c k)) ≠ []) ∨
      restrictCols S k (depCols S c k) ≠ [] := by
  cases hcols : depCols S c k with
  | nil => exact absurd hcols h
  | cons f fs =>
    have hf : f ∈ depCols S c k := by rw [hcols]; simp
    have hk := (mem_depCols.mp hf).2
    cases hp : (S.fk k f).policy with
    | keep => exact absurd hp hk
    | cascade => exact .inl (.inl (hasPolicy_iff.mpr ⟨f, by simp, hp⟩))
    | setNull =>
      refine .inl (.inr (addKeys_ne_nil ?_))
      intro he
      have : f ∈ nullCols S k (f :: fs) := by simp [nullCols, hp]
      rw [he] at this; cases this
    | restrict =>
      refine .inr ?_
      intro he
      have : f ∈ restrictCols S k (f :: fs) := by simp [restrictCols, hp]
      rw [he] at this; cases this

theorem for1_step (k : Nat) (w : XW) (env : Env Hnd) (hp : w.pend = []) (hwf : w.db.WF)
    (h1 : env 1 = some (.obj (.cls c))) :
    StepOK env (destroySelf_for1.exec (dIface S lz rec c i) (St.setVar ⟨w, env⟩ 5 (.obj (.cls k)))) (procDep S rec c i w.db k) := by
  cases w with | mk db pend =>
  simp only at hp hwf; subst hp
  obtain ⟨env2, h2, f2⟩ := for2_loop S lz rec c i (S.cls k).joins ⟨db, []⟩ (env.put 5 (.obj (.cls k))) (by simp [h1])
  simp only [St.setVar, ← delDepLinks_eq] at h2
  have e1 : env2 1 = some (.obj (.cls c)) := by rw [f2 1 (by decide) (by decide)]; simp [h1]
  have e5 : env2 5 = some (.obj (.cls k)) := by rw [f2 5 (by decide) (by decide)]; simp
  have e01 : ∀ x, x < 2 → env2 x = env x := fun x hx => by
    rw [f2 x (by omega) (by omega)]; simp; omega
  clear f2
  have P1 := procDep_of_empty S rec c i db k
  have P2 := procDep_of_restricted S rec c i db k
  have P3 := procDep_of_pass S rec c i db k
  simp only
  generalize procDep S rec c i db k = m at P1 P2 P3 ⊢
  generalize hdb1 : ({ db with links := delDepLinks S k c i db.links } : DB) = db1 at h2 P1 P2 P3
  have hwf1 : db1.WF := by subst hdb1; exact hwf
  clear hdb1
  unfold destroySelf_for1
  dhead
  dhead
  by_cases hc : depCols S c k = []
  · simp [fdcModel, hc, Val.ofList]
    rw [P1 hc]
    refine ⟨env2.put 6 .nil, fun x hx => ?_, .inr rfl⟩
    rw [← e01 x hx]; simp; omega
  · simp [fdcModel]
    dhead
    dhead
    dhead
    obtain ⟨env3, h3, e37, e38, f3⟩ := for3_loop S lz rec c i k (depCols S c k) ⟨db1, []⟩
      (((env2.put 6 (Val.ofList ((depCols S c k).map fun f => .obj (.col k f)))).put 7 .nil).put 8 .nil) [] []
      (by simp [e5]) (by simp [Val.ofList]) (by simp [Val.ofList])
    simp only [St.setVar, List.nil_append] at h3 e37 e38
    have e35 : env3 5 = some (.obj (.cls k)) := by rw [f3 5 (by decide) (by decide) (by decide)]; simp [e5]
    have e301 : ∀ x, x < 2 → env3 x = env x := fun x hx => by
      rw [f3 x (by omega) (by omega) (by omega), ← e01 x hx]
      simp [show x ≠ 6 by omega, show x ≠ 7 by omega, show x ≠ 8 by omega]
    have e36 : env3 6 = some (Val.ofList ((depCols S c k).map fun f => .obj (.col k f))) := by
      rw [f3 6 (by decide) (by decide) (by decide)]; simp
    clear f3
    dhead
    dhead
    dhead
    dhead
    by_cases hM : matching db1 k (restrictCols S k (depCols S c k)) i = []
    · simp [hM]
      dhead
      obtain ⟨env4, h4, e411, f4⟩ := for4_loop S lz rec c i k (depCols S c k) ⟨db1, []⟩
        (((env3.put 7 (orV k i (depCols S c k))).put 10 (selV k (orV k i (depCols S c k)))).put 11 (.dict .nil)) []
        (by simp [dbody, Val.ofList])
      simp only [St.setVar] at h4
      have e401 : ∀ x, x < 2 → env4 x = env x := fun x hx => by
        rw [f4 x (by omega) (by omega), ← e301 x hx]
        simp [show x ≠ 7 by omega, show x ≠ 10 by omega, show x ≠ 11 by omega]
      have e46 : env4 6 = some (Val.ofList ((depCols S c k).map fun f => .obj (.col k f))) := by
        rw [f4 6 (by decide) (by decide)]; simp [e36]
      have e48 : env4 8 = some (Val.ofList ((restrictCols S k (depCols S c k)).map (atomV k i))) := by
        rw [f4 8 (by decide) (by decide)]; simpa using e38
      have e410 : env4 10 = some (selV k (orV k i (depCols S c k))) := by
        rw [f4 10 (by decide) (by decide)]; simp
      clear f4
      dhead
      obtain ⟨env5, h5, f5⟩ := ifnull_step S lz rec c i k db1 env4 hwf1 e410 e411
      rw [exec_cons, h5]
      simp only [Res.seq_norm]
      have e501 : ∀ x, x < 2 → env5 x = env x := fun x hx => by
        rw [f5 x (by omega) (by omega) (by omega), e401 x hx]
      have e56 : env5 6 = some (Val.ofList ((depCols S c k).map fun f => .obj (.col k f))) := by
        rw [f5 6 (by decide) (by decide) (by decide)]; exact e46
      have e58 : env5 8 = some (Val.ofList ((restrictCols S k (depCols S c k)).map (atomV k i))) := by
        rw [f5 8 (by decide) (by decide) (by decide)]; exact e48
      have e510 : env5 10 = some (selV k (orV k i (depCols S c k))) := by
        rw [f5 10 (by decide) (by decide) (by decide)]; exact e410
      have e511 : env5 11 = some (.dict (dbody (addKeys [] (nullCols S k (depCols S c k))))) := by
        rw [f5 11 (by decide) (by decide) (by decide)]; exact e411
      clear f5 h5 h4 h3 h2
      generalize nullRefs S db1 k (depCols S c k) i = db2
      dhead
      obtain ⟨env7, h7, e715, f7⟩ := for7_loop S lz rec c i k (depCols S c k) ⟨db2, []⟩ (env5.put 15 (.bool false)) false (by simp)
      simp only [St.setVar, Bool.false_or] at h7 e715
      have e701 : ∀ x, x < 2 → env7 x = env x := fun x hx => by
        rw [f7 x (by omega) (by omega), ← e501 x hx]; simp; omega
      have e78 : env7 8 = some (Val.ofList ((restrictCols S k (depCols S c k)).map (atomV k i))) := by
        rw [f7 8 (by decide) (by decide)]; simpa using e58
      have e710 : env7 10 = some (selV k (orV k i (depCols S c k))) := by
        rw [f7 10 (by decide) (by decide)]; simpa using e510
      have e711 : env7 11 = some (.dict (dbody (addKeys [] (nullCols S k (depCols S c k))))) := by
        rw [f7 11 (by decide) (by decide)]; simpa using e511
      clear f7
      dhead
      rw [exec_cons]
      have hass : Stmt.exec (dIface S lz rec c i) ⟨⟨db2, []⟩, env7⟩
          (.assert (.or (.truthy (.var 15)) (.or (.truthy (.var 11)) (.truthy (.var 8))))) = .norm ⟨⟨db2, []⟩, env7⟩ := by
        simp [Stmt.exec, Cond.eval, Expr.eval, e715, e711, e78]
        by_cases a : hasPolicy S k (depCols S c k) .cascade = true
        · simp [a]
        · by_cases b : addKeys [] (nullCols S k (depCols S c k)) = []
          · have : restrictCols S k (depCols S c k) ≠ [] := by
              rcases assert_ok S c k hc with (h | h) | h
              · exact absurd h a
              · exact absurd b h
              · exact h
            have he : (restrictCols S k (depCols S c k)).isEmpty = false := by
              cases h : restrictCols S k (depCols S c k) <;> simp_all
            simp [a, b, he]
          · simp [a, b]
      rw [hass]
      simp only [Res.seq_norm]
      by_cases hd : hasPolicy S k (depCols S c k) .cascade = true
      · obtain ⟨env8, h8, f8⟩ := for8_loop S lz rec c i k (orV k i (depCols S c k))
          ((matching db2 k (depCols S c k) i).map (·.id)) ⟨db2, []⟩ env7
        simp only [List.map_map] at h8
        rw [exec_cons]
        simp [Stmt.exec, Cond.eval, Expr.eval, e715, e710, hd, iterOf_sel, exec_cons, h8]
        refine ⟨env8, fun x hx => by rw [f8 x (by omega), e701 x hx], ?_⟩
        cases hr : destroyRows rec k ((matching db2 k (depCols S c k) i).map (·.id)) db2 <;> simp [resSt]
      · rw [exec_cons]
        simp [Stmt.exec, Cond.eval, Expr.eval, e715, hd]
        exact ⟨env7, e701, .inl rfl⟩
    · have hrc : restrictCols S k (depCols S c k) ≠ [] := by
        intro h; rw [h] at hM; simp [matching, refsVia] at hM
      have hlen : ((matching db1 k (restrictCols S k (depCols S c k)) i).length != 0) = true := by
        cases h : matching db1 k (restrictCols S k (depCols S c k)) i <;> simp_all
      simp [hrc, hlen]
      rw [exec_cons]
      simp [Stmt.exec]
      rw [P2 hc hM]
      refine ⟨_, fun x hx => ?_, rfl⟩
      rw [← e301 x hx]
      simp [show x ≠ 7 by omega, show x ≠ 10 by omega]

end SqlObjVerif.Graph
