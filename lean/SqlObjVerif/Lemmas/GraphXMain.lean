import SqlObjVerif.Lemmas.GraphXDep
/-!
Symbolic execution of the TRANSLATED `destroySelf` (C12), part 5: the loop over the dependent classes is the model's
`procDeps` (`for1_loop`, induction over `dependents S c` with `for1_step`), the whole method is ONE activation of the
model (`destroySelfX_eq_step`: own joins, dependents, `_SO_delete`, `_obsolete`, `cache.expire`, the two signals and the
empty post-function loops), hence with the recursive call bound to `destroy S n` it is `destroy S (n + 1)`
(`destroySelfX_eq_model`).  Last: the TRANSLATED `findDependantColumns` computes `depCols` (`fdcX_eq`).
-/
namespace SqlObjVerif.Graph
open SqlObjVerif.PyDestroy
open SqlObjVerif.PyDestroy.Extracted
variable (S : Schema) (lz : Nat → Bool) (rec : DB → Nat → Nat → Res) (c i : Nat)

/-- the loop over the dependent classes is the model's `procDeps` -/
theorem for1_loop (hrec : RecWF rec) (ks : List Nat) :
    ∀ (db : DB) (env : Env Hnd), db.WF → env 1 = some (.obj (.cls c)) → ∃ env',
      forLoop (fun st a => destroySelf_for1.exec (dIface S lz rec c i) (st.setVar 5 a)) (ks.map fun k => .obj (.cls k)) ⟨⟨db, []⟩, env⟩ =
        resSt ⟨db, []⟩ env' (procDeps S rec c i ks db) ∧
      ∀ x, x < 2 → env' x = env x := by
  induction ks with
  | nil => intro db env _ _; exact ⟨env, rfl, fun _ _ => rfl⟩
  | cons k ks ih =>
    intro db env hwf h1
    obtain ⟨envA, fA, hA⟩ := for1_step S lz rec c i k ⟨db, []⟩ env rfl hwf h1
    simp only [List.map_cons, forLoop]
    unfold procDeps
    cases hr : procDep S rec c i db k with
    | ok db' =>
      rw [hr] at hA
      simp only at hA
      obtain ⟨env', e1, ef⟩ := ih db' envA (procDep_wf hrec c i db k db' hwf hr) (by rw [fA 1 (by decide)]; exact h1)
      refine ⟨env', ?_, fun x hx => by rw [ef x hx, fA x hx]⟩
      rcases hA with hA | hA <;> rw [hA] <;> exact e1
    | refused db' =>
      rw [hr] at hA
      simp only at hA
      exact ⟨envA, by rw [hA]; rfl, fA⟩
    | fuel db' =>
      rw [hr] at hA
      simp only at hA
      exact ⟨envA, by rw [hA]; rfl, fA⟩

theorem gCall_send (w : XW) (k j : Nat) (a b d : PVal) :
    gCall lz rec w (.obj (.imeta k j)) "send" [a, b, d] [] = .ret w .none := by simp [gCall]

theorem gCall_soDelete (w : XW) (k j : Nat) :
    gCall lz rec w (.obj .conn) "_SO_delete" [.obj (.inst k j)] [] =
      .ret { w with db := { w.db with rows := w.db.rows.filter fun r => !(r.cls == k && r.id == j) } } .none := by
  simp [gCall]

theorem gCall_expire (w : XW) (k j : Nat) :
    gCall lz rec w (.obj .cache) "expire" [.int j, .obj (.cls k)] [] =
      .ret { w with db := { w.db with cache := w.db.cache.filter fun x => !(x.1 == k && x.2 == j) } } .none := by
  simp [gCall]

theorem gSetAttr_obsolete (w : XW) (k j : Nat) : gSetAttr w (.obj (.imeta k j)) "_obsolete" (.bool true) = some w := by
  simp [gSetAttr]

theorem delOwnLinks_eq (ls : List Link) :
    delOwnLinks S c i ls = (S.cls c).joins.foldl (fun ls j => delLinks j.table j.ownFirst i ls) ls := by
  simp [delOwnLinks, ownDeleteCol_first]

@[simp] theorem iterOf_nil (I : Iface Hnd XW) (w : XW) : iterOf I w .nil = some [] := rfl

/-- **the translated `destroySelf` is one activation of the model's `destroySelf`** (`destroyStep`), whatever the
    recursive call is, as long as it keeps ids unique per class -/
theorem destroySelfX_eq_step (hrec : RecWF rec) (db : DB) (hwf : db.WF) :
    destroySelfX S lz rec ⟨db, []⟩ c i = resImg (destroyStep S rec db c i) := by
  unfold destroySelfX PyDestroy.run destroySelfProg destroyStep
  generalize (Env.ofArgs [] : Env Hnd) = env0
  simp only
  dhead
  dhead
  simp [gCall_send]
  dhead
  obtain ⟨env1, h0, f0⟩ := for0_loop S lz rec c i (S.cls c).joins ⟨db, []⟩ ((env0.put 0 .nil).put 1 (.obj (.cls c)))
  simp only [St.setVar, ← delOwnLinks_eq] at h0
  dhead
  dhead
  have e11 : env1 1 = some (.obj (.cls c)) := by rw [f0 1 (by decide) (by decide)]; simp
  have e10 : env1 0 = some .nil := by rw [f0 0 (by decide) (by decide)]; simp
  clear h0 f0
  generalize hdb1 : ({ db with links := delOwnLinks S c i db.links } : DB) = db1
  have hwf1 : db1.WF := by subst hdb1; exact hwf
  obtain ⟨env2, h1, f1⟩ := for1_loop S lz rec c i hrec (dependents S c) db1
    (env1.put 4 (Val.ofList ((dependents S c).map fun d => .obj (.cls d)))) hwf1 (by simp [e11])
  simp only [St.setVar] at h1
  have e20 : env2 0 = some .nil := by rw [f1 0 (by decide)]; simp [e10]
  clear f1
  dhead
  cases hr : procDeps S rec c i (dependents S c) db1 with
  | ok db2 =>
    simp [resSt]
    -- the tail: `_SO_delete`, `_obsolete`, `cache.expire` (in whatever order), the post-function loops, the signal
    iterate 7 (dhead; try simp [gCall_soDelete, gSetAttr_obsolete, gCall_expire, gCall_send, forLoop])
    simp [Res.toCall, resImg, delRow]
  | refused db2 => simp [resSt, Res.toCall, resImg]
  | fuel db2 => simp [resSt, Res.toCall, resImg]


/-- **C12, translator tie.**  For every schema, database with ids unique per class, victim and recursion budget:
    running the TRANSLATED `destroySelf` with the recursive call bound to the model's `destroy` at budget `n` gives
    exactly the model's `destroy` at budget `n + 1`. -/
theorem destroySelfX_eq_model (n : Nat) (db : DB) (hwf : db.WF) :
    destroySelfX S lz (destroy S n) ⟨db, []⟩ c i = resImg (destroy S (n + 1) db c i) :=
  destroySelfX_eq_step S lz (destroy S n) c i (destroy_wf S n) db hwf

/-! ### `findDependantColumns` -/

def fdcP (S : Schema) (c k : Nat) (f : Nat) : Bool := (S.fk k f).target == c && (S.fk k f).policy != .keep

theorem fdc_step (I : Iface Hnd XW) (hI : I = gIface S (fun _ => false) (fun _ _ => .stuck) (fun db _ _ => .ok db) .none)
    (k f : Nat) (w : XW) (env : Env Hnd) (acc : List PVal) (h0 : env 0 = some (.obj (.cname c)))
    (h2 : env 2 = some (Val.ofList acc)) : ∃ envA,
    findDependantColumns_for0.exec I (St.setVar ⟨w, env⟩ 3 (.obj (.col k f))) = .norm ⟨w, envA⟩ ∧
    envA 2 = some (Val.ofList (acc ++ if fdcP S c k f then [.obj (.col k f)] else [])) ∧
    ∀ x, x ≠ 2 → x ≠ 3 → envA x = env x := by
  subst hI
  by_cases hp : fdcP S c k f = true
  · refine ⟨(env.put 3 (.obj (.col k f))).put 2 (Val.ofList (acc ++ [.obj (.col k f)])), ?_, ?_, ?_⟩
    · simp only [fdcP, Bool.and_eq_true, beq_iff_eq, bne_iff_ne] at hp
      unfold findDependantColumns_for0
      drun
    · simp [hp]
    · intro x h2 h3; simp [h2, h3]
  · refine ⟨env.put 3 (.obj (.col k f)), ?_, ?_, ?_⟩
    · simp only [fdcP, Bool.and_eq_true, beq_iff_eq, bne_iff_ne, not_and, Decidable.not_not] at hp
      unfold findDependantColumns_for0
      drun
      by_cases ht : (S.fk k f).target = c
      · simp [ht, hp ht]
      · simp [ht]
    · simp [hp, h2]
    · intro x h2 h3; simp [h3]

theorem fdc_loop (I : Iface Hnd XW) (hI : I = gIface S (fun _ => false) (fun _ _ => .stuck) (fun db _ _ => .ok db) .none)
    (k : Nat) (w : XW) (fs : List Nat) :
    ∀ (env : Env Hnd) (acc : List PVal), env 0 = some (.obj (.cname c)) → env 2 = some (Val.ofList acc) → ∃ env',
      forLoop (fun st a => findDependantColumns_for0.exec I (st.setVar 3 a)) (fs.map fun f => .obj (.col k f)) ⟨w, env⟩ =
        .norm ⟨w, env'⟩ ∧
      env' 2 = some (Val.ofList (acc ++ (fs.filter (fdcP S c k)).map fun f => .obj (.col k f))) := by
  induction fs with
  | nil => intro env acc _ h2; exact ⟨env, rfl, by simpa using h2⟩
  | cons f fs ih =>
    intro env acc h0 h2
    obtain ⟨envA, hA, a2, af⟩ := fdc_step S c I hI k f w env acc h0 h2
    simp only [List.map_cons, forLoop, hA]
    obtain ⟨env', e1, e2⟩ := ih envA _ (by rw [af 0 (by decide) (by decide)]; exact h0) a2
    refine ⟨env', e1, ?_⟩
    rw [e2]
    by_cases hp : fdcP S c k f = true <;> simp [hp]

/-- the TRANSLATED `findDependantColumns(name of c, k)` returns the model's `depCols S c k` (as column objects) and
    changes nothing -/
theorem fdcX_eq (k : Nat) : fdcX S c k = .ret ⟨⟨[], [], []⟩, []⟩ (Val.ofList ((depCols S c k).map fun f => .obj (.col k f))) := by
  unfold fdcX PyDestroy.run findDependantColumnsProg
  have a0 : (Env.ofArgs [.obj (.cname c), .obj (.cls k)] : Env Hnd) 0 = some (.obj (.cname c)) := rfl
  have a1 : (Env.ofArgs [.obj (.cname c), .obj (.cls k)] : Env Hnd) 1 = some (.obj (.cls k)) := rfl
  generalize (Env.ofArgs [.obj (.cname c), .obj (.cls k)] : Env Hnd) = env0 at a0 a1
  obtain ⟨env', h1, h2⟩ := fdc_loop S c _ rfl k ⟨⟨[], [], []⟩, []⟩ (List.range (S.cls k).fks.length)
    (env0.put 2 .nil) [] (by simp [a0]) (by simp [Val.ofList])
  simp only [St.setVar] at h1
  simp [Block.exec, Stmt.exec, Expr.eval, St.setVar, a1, loopStep_ofList, h1, h2, Res.toCall, depCols]
  rfl

theorem fdcModel_eq_translated (k : Nat) : (match fdcModel S c k with
    | .ok v => CallRes.ret ⟨⟨[], [], []⟩, []⟩ v
    | _ => .stuck) = fdcX S c k := by
  rw [fdcX_eq]; rfl

end SqlObjVerif.Graph
