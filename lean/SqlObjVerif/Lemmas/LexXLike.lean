import SqlObjVerif.Lemmas.LexX
/-!
# C17 — the translated `_LikeQuoted.__sqlrepr__` (string branch = `Like.likePattern`, `SQLExpression` branch =
`likeConcat`), `_LikeQuoted.__init__ / __add__ / __radd__`, `LIKE.__init__ / __sqlrepr__` (= `Like.likeClause`) and
`STARTSWITH / ENDSWITH / CONTAINSSTRING` equal the hand model, for every argument, all 7 dialects
-/
namespace SqlObjVerif.LexX
open SqlObjVerif.PyLex
open SqlObjVerif.PyLex.Extracted

variable (P : Ext) (n : Nat)

/-- string branch of `_LikeQuoted.__sqlrepr__` -/
theorem likeQuoted_str (hup : UpperOK P.upper) (d : Lex.Dialect) (a pre post : Lex.Str) :
    likeQuotedReprX (world P (n + 3)) (likeQuotedObj (.str a) pre post) (.str (dbName d)) =
      ret (Lex.quoteStr d (pre ++ Like.likeSpecial d (Like.unquoteStr (Lex.renderString d a)) ++ post)) := by
  unfold likeQuotedReprX run LikeQuoted_sqlrepr LikeQuoted_sqlrepr_s0 LikeQuoted_sqlrepr_s1 likeQuotedObj
  pylw [callFn_ext, run_uq P _ hup, ret]

@[simp] theorem hasRepr_lq : hasRepr P "_LikeQuoted" = true := by simp [hasRepr]
@[simp] theorem hasRepr_like : hasRepr P "LIKE" = true := by simp [hasRepr]

@[simp] theorem xCm_lq_sqlrepr (I : Iface) (fs : List (String × Val)) (args : List Val) :
    xCm P I (.obj "_LikeQuoted" fs) "__sqlrepr__" args = (run I LikeQuoted_sqlrepr (.obj "_LikeQuoted" fs :: args)).toR := by
  simp [xCm, methOf]

/-- the pattern text `_LikeQuoted(a)` with prefix / postfix renders -/
def patText (d : Lex.Dialect) (pre post a : Lex.Str) : Lex.Str :=
  Lex.quoteStr d (pre ++ Like.likeSpecial d (Like.unquoteStr (Lex.renderString d a)) ++ post)

theorem run_lq_str (hup : UpperOK P.upper) (d : Lex.Dialect) (a pre post : Lex.Str) :
    run (world P (n + 3)) LikeQuoted_sqlrepr [.obj "_LikeQuoted" [("expr", .str a), ("prefix", .str pre), ("postfix", .str post)], .str (dbName d)] =
      ret (patText d pre post a) := likeQuoted_str P n hup d a pre post

/-- `sqlrepr(lq, db)` of a `_LikeQuoted`: its `__sqlrepr__` -/
theorem sqlrepr_likeQuoted (hup : UpperOK P.upper) (d : Lex.Dialect) (a pre post : Lex.Str) :
    sqlreprX (world P (n + 4)) (likeQuotedObj (.str a) pre post) (.str (dbName d)) = ret (patText d pre post a) := by
  unfold sqlreprX run Extracted.sqlrepr sqlrepr_s0 likeQuotedObj
  pylw [xGetAttr, callFn_ext, run_lq_str P _ hup, ret]

theorem like_sqlrepr (hup : UpperOK P.upper) (d : Lex.Dialect) (e : Val) (x a pre post esc : Lex.Str)
    (he : run (world P (n + 4)) Extracted.sqlrepr [e, .str (dbName d)] = ret x) :
    likeReprX (world P (n + 5)) (likeObj e (likeQuotedObj (.str a) pre post) (.str esc)) (.str (dbName d)) =
      ret (Like.likeClause d ⟨pre, post, esc⟩ x a) := by
  have h2 := sqlrepr_likeQuoted P n hup d a pre post
  unfold sqlreprX likeQuotedObj at h2
  unfold likeReprX run LIKE_sqlrepr LIKE_sqlrepr_s0 LIKE_sqlrepr_s1 LIKE_sqlrepr_s2 likeObj likeQuotedObj
  pylw [callFn_ext, he, h2, xGetAttr, LIKE_attrs, ret]
  simp [Like.likeClause, Like.likePattern, patText, Lex.fmt, Lex.Extracted.likeEscFmt, Lex.Extracted.likeFmt, Lex.Extracted.likeOpName]

/-! ### constructors, `__add__` / `__radd__`, the three wrappers -/

theorem construct_lq (I : Iface) (e : Val) :
    construct I "_LikeQuoted" LikeQuoted_init [e] = .ok (likeQuotedObj e [] []) := by
  unfold construct LikeQuoted_init LikeQuoted_init_s0 LikeQuoted_init_s1 LikeQuoted_init_s2 likeQuotedObj
  pylw [setAttrOf, fset, Res.selfOut]

theorem construct_like (I : Iface) (e s x : Val) :
    construct I "LIKE" LIKE_init [e, s, x] = .ok (likeObj e s x) := by
  unfold construct LIKE_init LIKE_init_s0 LIKE_init_s1 LIKE_init_s2 likeObj
  pylw [setAttrOf, fset, Res.selfOut]

theorem lq_add (I : Iface) (e : Val) (pre post s : Lex.Str) :
    run I LikeQuoted_add [likeQuotedObj e pre post, .str s] = .ret (likeQuotedObj e pre (post ++ s)) := by
  unfold run LikeQuoted_add LikeQuoted_add_s0 LikeQuoted_add_s1 likeQuotedObj
  pylw [setAttrOf, fset]

theorem lq_radd (I : Iface) (e : Val) (pre post s : Lex.Str) :
    run I LikeQuoted_radd [likeQuotedObj e pre post, .str s] = .ret (likeQuotedObj e (s ++ pre) post) := by
  unfold run LikeQuoted_radd LikeQuoted_radd_s0 LikeQuoted_radd_s1 likeQuotedObj
  pylw [setAttrOf, fset]

@[simp] theorem xFn_lq (I : Iface) (e : Val) : xFn I "_LikeQuoted" [e] [] = .ok (likeQuotedObj e [] []) := by
  simp [xFn, construct_lq]
@[simp] theorem xFn_like_esc (I : Iface) (e s x : Val) : xFn I "LIKE" [e, s] [("escape", x)] = .ok (likeObj e s x) := by
  simp [xFn, construct_like]
@[simp] theorem xFn_like2 (I : Iface) (e s : Val) : xFn I "LIKE" [e, s] [] = .ok (likeObj e s .none) := by
  simp [xFn, construct_like]

@[simp] theorem xCm_lq_add (I : Iface) (e : Val) (pre post s : Lex.Str) :
    xCm P I (likeQuotedObj e pre post) "__add__" [.str s] = .ok (likeQuotedObj e pre (post ++ s)) := by
  simp [xCm, methOf, likeQuotedObj]
  have := lq_add I e pre post s
  simp only [likeQuotedObj] at this
  simp [this]
@[simp] theorem xCm_lq_radd (I : Iface) (e : Val) (pre post s : Lex.Str) :
    xCm P I (likeQuotedObj e pre post) "__radd__" [.str s] = .ok (likeQuotedObj e (s ++ pre) post) := by
  simp [xCm, methOf, likeQuotedObj]
  have := lq_radd I e pre post s
  simp only [likeQuotedObj] at this
  simp [this]

@[simp] theorem pyAdd_lq (I : Iface) (e : Val) (pre post : Lex.Str) (b : Val) :
    pyAdd I (likeQuotedObj e pre post) b = I.callMethod (likeQuotedObj e pre post) "__add__" [b] := rfl
@[simp] theorem pyAdd_str_lq (I : Iface) (a : Lex.Str) (e : Val) (pre post : Lex.Str) :
    pyAdd I (.str a) (likeQuotedObj e pre post) = I.callMethod (likeQuotedObj e pre post) "__radd__" [.str a] := rfl

/-- the object `STARTSWITH / ENDSWITH / CONTAINSSTRING(e, a)` builds, by the hand model's `LikeOp` -/
def wrapperObj (op : Lex.LikeOp) (e : Val) (a : Lex.Str) : Val :=
  likeObj e (likeQuotedObj (.str a) op.pre op.post) (.str op.esc)

theorem startswith_run (e : Val) (a : Lex.Str) :
    run (world P (n + 2)) STARTSWITH [e, .str a] = .ret (wrapperObj Lex.Extracted.startswithOp e a) := by
  unfold run STARTSWITH STARTSWITH_s0
  pylw [callFn_ext, wrapperObj, Lex.Extracted.startswithOp]

theorem endswith_run (e : Val) (a : Lex.Str) :
    run (world P (n + 2)) ENDSWITH [e, .str a] = .ret (wrapperObj Lex.Extracted.endswithOp e a) := by
  unfold run ENDSWITH ENDSWITH_s0
  pylw [callFn_ext, wrapperObj, Lex.Extracted.endswithOp]

theorem contains_run (e : Val) (a : Lex.Str) :
    run (world P (n + 2)) CONTAINSSTRING [e, .str a] = .ret (wrapperObj Lex.Extracted.containsOp e a) := by
  unfold run CONTAINSSTRING CONTAINSSTRING_s0
  pylw [callFn_ext, wrapperObj, Lex.Extracted.containsOp]


@[simp] theorem xCm_like_sqlrepr (I : Iface) (fs : List (String × Val)) (args : List Val) :
    xCm P I (.obj "LIKE" fs) "__sqlrepr__" args = (run I LIKE_sqlrepr (.obj "LIKE" fs :: args)).toR := by
  simp [xCm, methOf]

/-- `sqlrepr(LIKE(e, prefix + _LikeQuoted(a) + postfix, escape=esc), db)` = the hand model's clause -/
theorem sqlrepr_like (hup : UpperOK P.upper) (d : Lex.Dialect) (e : Val) (x a pre post esc : Lex.Str)
    (he : run (world P (n + 4)) Extracted.sqlrepr [e, .str (dbName d)] = ret x) :
    sqlreprX (world P (n + 6)) (likeObj e (likeQuotedObj (.str a) pre post) (.str esc)) (.str (dbName d)) =
      ret (Like.likeClause d ⟨pre, post, esc⟩ x a) := by
  have h := like_sqlrepr P n hup d e x a pre post esc he
  unfold likeReprX likeObj likeQuotedObj at h
  unfold sqlreprX run Extracted.sqlrepr sqlrepr_s0 likeObj likeQuotedObj
  pylw [xGetAttr, callFn_ext, h, ret]

/-- the three wrappers, end to end: build the object with the translated wrapper, render it with the translated
    `sqlrepr` -/
theorem wrapper_sqlrepr (hup : UpperOK P.upper) (d : Lex.Dialect) (op : Lex.LikeOp) (prog : Block)
    (hw : wrapperOf op = some prog) (e : Val) (x a : Lex.Str)
    (he : run (world P (n + 4)) Extracted.sqlrepr [e, .str (dbName d)] = ret x) :
    ∃ v, run (world P (n + 2)) prog [e, .str a] = .ret v ∧
      sqlreprX (world P (n + 6)) v (.str (dbName d)) = ret (Like.likeClause d op x a) := by
  refine ⟨wrapperObj op e a, ?_, ?_⟩
  · unfold wrapperOf at hw
    split at hw
    · cases hw; rename_i h; subst h; exact startswith_run P n e a
    · split at hw
      · cases hw; rename_i h; subst h; exact endswith_run P n e a
      · split at hw
        · cases hw; rename_i h; subst h; exact contains_run P n e a
        · cases hw
  · exact sqlrepr_like P n hup d e x a op.pre op.post op.esc he


theorem dbName_eq_mysql (d : Lex.Dialect) : (dbName d == [109, 121, 115, 113, 108]) = decide (d = .mysql) := by
  cases d <;> rfl
theorem dbName_eq_mssql (d : Lex.Dialect) : (dbName d == [109, 115, 115, 113, 108]) = decide (d = .mssql) := by
  cases d <;> rfl
theorem dbName_eq_sybase (d : Lex.Dialect) : (dbName d == [115, 121, 98, 97, 115, 101]) = decide (d = .sybase) := by
  cases d <;> rfl

@[simp] theorem strsOf_nil : strsOf [] = some [] := rfl
@[simp] theorem strsOf_cons (s : Lex.Str) (l : List Val) : strsOf (.str s :: l) = (strsOf l).map (s :: ·) := rfl

theorem pyJoin_eq (sep : Lex.Str) (l : List Lex.Str) : pyJoin sep l = Lex.joinSep sep l := by
  induction l with
  | nil => rfl
  | cons a t ih =>
    cases t with
    | nil => simp [pyJoin, Lex.joinSep]
    | cons b t => 
      rw [pyJoin, ih]
      simp [Lex.joinSep]

/-- `SQLExpression` branch of `_LikeQuoted.__sqlrepr__` -/
theorem likeQuoted_expr (d : Lex.Dialect) (c : String) (fs : List (String × Val)) (pre post r : Lex.Str)
    (hx : xIsSub P c "SQLExpression" = true)
    (he : run (world P (n + 1)) Extracted.sqlrepr [.obj c fs, .str (dbName d)] = ret r) :
    likeQuotedReprX (world P (n + 2)) (likeQuotedObj (.obj c fs) pre post) (.str (dbName d)) =
      ret (likeConcat d pre post r) := by
  unfold likeQuotedReprX run LikeQuoted_sqlrepr LikeQuoted_sqlrepr_s0 LikeQuoted_sqlrepr_s1 likeQuotedObj
  rcases pre with _ | ⟨p, pre⟩ <;> rcases post with _ | ⟨q, post⟩ <;>
    pylw [callFn_ext, ret, hx, he, appendOf, dbName_eq_mysql, dbName_eq_mssql, dbName_eq_sybase, pyJoin_eq] <;>
    cases d <;> simp [likeConcat, Lex.joinSep]

end SqlObjVerif.LexX
