import SqlObjVerif.Lemmas.CacheXCull
/-!
`CacheFactory.clear`, `allIDs`, `getAll` as translated.  The hand model has no function for them
(it uses the predicate `cachedAlive` for what `getAll` lists), so the theorems state what the
translated methods compute: `clear` empties both dicts (dropping the strong references);
`allIDs` / `getAll` list the strong map, then the entries of the weak map whose referent is alive
AND truthy (`if value():`) — an alive object of a class with `__len__`/`__bool__` returning false is
skipped, which `cachedAlive` does not model.
-/
namespace SqlObjVerif.Cache
open SqlObjVerif.PyCache
open SqlObjVerif.PyCache.Extracted

theorem clearX_eq (s : State) (c : Cls) (rel falsy : Handle → Bool) (lock : Bool) :
    clearX (absW s c rel falsy lock) =
      .ret ((absD s c rel falsy lock (if s.cfg.doCache then [] else (s.fac c).strong) []).release
              (if s.cfg.doCache then (s.fac c).strong.map (·.2) else [])) .none := by
  unfold clearX clearProg clear_nlocals clear_nlists
  cases hd : s.cfg.doCache
  · pyrun
    simp [absD, absSelf, hd]
  · pyrun
    simp [absD, absSelf, hd, World.release]

/-- what `allIDs` / `getAll` list from the weak map: alive AND truthy -/
def listed (s : State) (falsy : Handle → Bool) : Id × Handle → Bool := fun e => !(s.obj e.2).dead && !falsy e.2

theorem allIDsX_eq (s : State) (c : Cls) (rel falsy : Handle → Bool) (lock : Bool) :
    allIDsX (absW s c rel falsy lock) =
      .retList (absW s c rel falsy lock)
        ((if s.cfg.doCache then (s.fac c).strong.map (fun e => Val.key e.1) else []) ++
         ((s.fac c).weak.filter (listed s falsy)).map (fun e => Val.key e.1)) := by
  unfold allIDsX allIDsProg allIDs_nlocals allIDs_nlists
  have key : ∀ (L0 : List Val) (v0 v1 : Option Val) r,
      forLoop (fun st e => Block.exec noCall
          { w := st.w, vars := (st.vars.set 0 (some (Val.key e.fst))).set 1 (some (Val.wref e.snd)), lists := st.lists }
          allIDs_for0) (s.fac c).weak
        { w := absW s c rel falsy lock, vars := [v0, v1], lists := [L0] } = r →
      ∃ a b, r = .norm { w := absW s c rel falsy lock, vars := [a, b], lists := [L0 ++ ((s.fac c).weak.filter (listed s falsy)).map (fun e => Val.key e.1)] } := by
    intro L0 v0 v1 r hF
    obtain ⟨st', rfl, L, a, b, rfl, hL⟩ := forLoop_inv hF
      (fun rest st => ∃ L a b, st = { w := absW s c rel falsy lock, vars := [a, b], lists := [L] } ∧
        L ++ (rest.filter (listed s falsy)).map (fun e => Val.key e.1) =
        L0 ++ ((s.fac c).weak.filter (listed s falsy)).map (fun e => Val.key e.1))
      ⟨L0, v0, v1, rfl, rfl⟩
      (by
        rintro ⟨k, h⟩ rest st ⟨L, a, b, rfl, hL⟩
        cases hd : (s.obj h).dead
        · cases hf : falsy h
          · refine ⟨{ w := absW s c rel falsy lock, vars := [some (.key k), some (.wref h)], lists := [L ++ [.key k]] }, ?_,
              ⟨_, _, _, rfl, ?_⟩⟩
            · simp [allIDs_for0]; pyrun
            · simpa [List.filter_cons, listed, hd, hf] using hL
          · refine ⟨{ w := absW s c rel falsy lock, vars := [some (.key k), some (.wref h)], lists := [L] }, ?_,
              ⟨_, _, _, rfl, ?_⟩⟩
            · simp [allIDs_for0]; pyrun
            · simpa [List.filter_cons, listed, hd, hf] using hL
        · refine ⟨{ w := absW s c rel falsy lock, vars := [some (.key k), some (.wref h)], lists := [L] }, ?_,
            ⟨_, _, _, rfl, ?_⟩⟩
          · simp [allIDs_for0]; pyrun
          · simpa [List.filter_cons, listed, hd] using hL)
    simp only [List.filter_nil, List.map_nil, List.append_nil] at hL
    exact ⟨a, b, by rw [hL]⟩
  cases hd : s.cfg.doCache
  · pyrun
    generalize hF : forLoop _ _ _ = r
    obtain ⟨a, b, rfl⟩ := key [] none none r (by rw [← hF]; simp [absW, absSelf, hd])
    pyrun
  · pyrun
    generalize hF : forLoop _ _ _ = r
    obtain ⟨a, b, rfl⟩ := key ((s.fac c).strong.map (fun e => Val.key e.1)) none none r (by rw [← hF]; simp [absW, absSelf, hd])
    pyrun
theorem getAllX_eq (s : State) (c : Cls) (rel falsy : Handle → Bool) (lock : Bool) :
    getAllX (absW s c rel falsy lock) =
      .retList (absW s c rel falsy lock)
        ((if s.cfg.doCache then (s.fac c).strong.map (fun e => Val.obj e.2) else []) ++
         ((s.fac c).weak.filter (listed s falsy)).map (fun e => Val.obj e.2)) := by
  unfold getAllX getAllProg getAll_nlocals getAll_nlists
  have key : ∀ (L0 : List Val) (v0 : Option Val) r,
      forLoop (fun st e => Block.exec noCall
          { w := st.w, vars := st.vars.set 0 (some (Val.wref e.snd)), lists := st.lists }
          getAll_for0) (s.fac c).weak
        { w := absW s c rel falsy lock, vars := [v0], lists := [L0] } = r →
      ∃ a, r = .norm { w := absW s c rel falsy lock, vars := [a], lists := [L0 ++ ((s.fac c).weak.filter (listed s falsy)).map (fun e => Val.obj e.2)] } := by
    intro L0 v0 r hF
    obtain ⟨st', rfl, L, a, rfl, hL⟩ := forLoop_inv hF
      (fun rest st => ∃ L a, st = { w := absW s c rel falsy lock, vars := [a], lists := [L] } ∧
        L ++ (rest.filter (listed s falsy)).map (fun e => Val.obj e.2) =
        L0 ++ ((s.fac c).weak.filter (listed s falsy)).map (fun e => Val.obj e.2))
      ⟨L0, v0, rfl, rfl⟩
      (by
        rintro ⟨k, h⟩ rest st ⟨L, a, rfl, hL⟩
        cases hd : (s.obj h).dead
        · cases hf : falsy h
          · refine ⟨{ w := absW s c rel falsy lock, vars := [some (.wref h)], lists := [L ++ [.obj h]] }, ?_,
              ⟨_, _, rfl, ?_⟩⟩
            · simp [getAll_for0]; pyrun
            · simpa [List.filter_cons, listed, hd, hf] using hL
          · refine ⟨{ w := absW s c rel falsy lock, vars := [some (.wref h)], lists := [L] }, ?_,
              ⟨_, _, rfl, ?_⟩⟩
            · simp [getAll_for0]; pyrun
            · simpa [List.filter_cons, listed, hd, hf] using hL
        · refine ⟨{ w := absW s c rel falsy lock, vars := [some (.wref h)], lists := [L] }, ?_,
            ⟨_, _, rfl, ?_⟩⟩
          · simp [getAll_for0]; pyrun
          · simpa [List.filter_cons, listed, hd] using hL)
    simp only [List.filter_nil, List.map_nil, List.append_nil] at hL
    exact ⟨a, by rw [hL]⟩
  cases hd : s.cfg.doCache
  · pyrun
    generalize hF : forLoop _ _ _ = r
    obtain ⟨a, rfl⟩ := key [] none r (by rw [← hF]; simp [absW, absSelf, hd])
    pyrun
  · pyrun
    generalize hF : forLoop _ _ _ = r
    obtain ⟨a, rfl⟩ := key ((s.fac c).strong.map (fun e => Val.obj e.2)) none r (by rw [← hF]; simp [absW, absSelf, hd])
    pyrun
end SqlObjVerif.Cache
