import SqlObjVerif.Lemmas.EvMainXSet
/-!
C19 translator tie, part 5: the lazy / creating branch of the translated `set` below its `RowUpdateSignal`.
-/
namespace SqlObjVerif.Events
open SqlObjVerif.PyEv
open SqlObjVerif.PyEv.Extracted
open SqlObjVerif.PyMain (R mapR ofOpt dget dhas dset dupdate dictOf sortByKey insByKey Exc FnKind)

/-- validation loop of the lazy / creating branch of `set` (loop 0): `kw[name] = dbValue` rewrites what is there -/
theorem for0_loop {ops : Ops} {call : Calls} (all : Kw) (hall : (all.map (·.1)).Nodup) : ∀ (rest done : Kw) (st : St),
    all = done ++ rest → st.dicts 0 = some (kwPV all) → st.dicts 2 = some (kwPV done) → (∀ e ∈ rest, e.1 < st.w.c.ncols) →
    (rest.any (fun e => decide (e.2 = .bad)) = false →
      ∃ st', forLoop (bindThen (.two 3 4) fun st' => Block.exec ops call st' set_for0) (itemsOf (kwPV rest)) st = .norm st'
        ∧ st'.w = st.w ∧ st'.lists = st.lists ∧ st'.dicts 2 = some (kwPV all)
        ∧ (∀ y, y ≠ 2 → st'.dicts y = st.dicts y) ∧ (∀ y, y < 3 ∨ 7 < y → st'.vars y = st.vars y))
    ∧ (rest.any (fun e => decide (e.2 = .bad)) = true →
      ∃ st', forLoop (bindThen (.two 3 4) fun st' => Block.exec ops call st' set_for0) (itemsOf (kwPV rest)) st = .exc st' .invalid
        ∧ st'.w = st.w) := by
  intro rest
  induction rest with
  | nil =>
    intro done st hd h0 h2 _
    simp only [List.append_nil] at hd; subst hd
    exact ⟨fun _ => ⟨st, by simp [itemsOf, forLoop], rfl, rfl, h2, fun _ _ => rfl, fun _ _ => rfl⟩, fun h => by simp at h⟩
  | cons e rest ih =>
    obtain ⟨k, v⟩ := e
    intro done st hd h0 h2 hcols
    have hk : k < st.w.c.ncols := hcols (k, v) (by simp)
    have hkd : k ∉ (kwPV done).map (·.1) := not_mem_keys_of_nodup (hd ▸ hall)
    have hmem : (k, ofVal v) ∈ kwPV all := by
      rw [hd, kwPV_append, kwPV_cons]; simp
    have hsame : dset k (ofVal v) (kwPV all) = kwPV all := dset_same _ _ _ (by rw [kwPV_keys]; exact hall) hmem
    by_cases hv : v = .bad
    · subst hv
      refine ⟨fun h => by simp at h, fun _ => ?_⟩
      have hstep : ∃ st1, (bindThen (.two 3 4) fun st' => Block.exec ops call st' set_for0) st (.pair (.name k) (ofVal .bad))
          = .exc st1 .invalid ∧ st1.w = st.w := by
        evwith [set_for0, hk]
      obtain ⟨st1, h1, hw⟩ := hstep
      exact ⟨st1, by simp only [kwPV_cons, itemsOf, List.map_cons, forLoop] at h1 ⊢; rw [h1], hw⟩
    · have hstep : ∃ st1, (bindThen (.two 3 4) fun st' => Block.exec ops call st' set_for0) st (.pair (.name k) (ofVal v))
          = .norm st1 ∧ st1.w = st.w ∧ st1.lists = st.lists ∧ st1.dicts 0 = some (kwPV all)
            ∧ st1.dicts 2 = some (kwPV (done ++ [(k, v)])) ∧ (∀ y, y ≠ 2 → st1.dicts y = st.dicts y)
            ∧ (∀ y, y < 3 ∨ 7 < y → st1.vars y = st.vars y) := by
        evwith [set_for0, hk, hv, h0, h2, hsame, dset_not_mem _ _ _ hkd, kwPV_append, kwPV_cons]
        refine ⟨?_, ?_⟩
        · intro y hy2
          by_cases hy0 : y = 0
          · subst hy0; simp [h0]
          · simp [hy2, hy0]
        · intro y hy
          have : y ≠ 3 ∧ y ≠ 4 ∧ y ≠ 5 ∧ y ≠ 6 ∧ y ≠ 7 := by omega
          simp [this]
      obtain ⟨st1, h1, hw, hl, h0', h2', hdd, hvv⟩ := hstep
      have hih := ih (done ++ [(k, v)]) st1 (by simp [hd]) h0' h2' (by rw [hw]; exact fun e he => hcols e (by simp [he]))
      have hstart : forLoop (bindThen (.two 3 4) fun st' => Block.exec ops call st' set_for0) (itemsOf (kwPV ((k, v) :: rest))) st
          = forLoop (bindThen (.two 3 4) fun st' => Block.exec ops call st' set_for0) (itemsOf (kwPV rest)) st1 := by
        simp only [kwPV_cons, itemsOf, List.map_cons, forLoop] at h1 ⊢; rw [h1]
      rw [hstart]
      have hany : ((k, v) :: rest).any (fun e => decide (e.2 = .bad)) = rest.any (fun e => decide (e.2 = .bad)) := by
        simp [hv]
      rw [hany]
      refine ⟨fun h => ?_, fun h => ?_⟩
      · obtain ⟨st', hf, hw', hl', h2'', hd', hv'⟩ := hih.1 h
        exact ⟨st', hf, hw'.trans hw, hl'.trans hl, h2'', fun y a => (hd' y a).trans (hdd y a),
          fun y a => (hv' y a).trans (hvv y a)⟩
      · obtain ⟨st', hf, hw'⟩ := hih.2 h
        exact ⟨st', hf, hw'.trans hw⟩


theorem for0_loop' {ops : Ops} {call : Calls} {all : Kw} {st : St} {r : Res}
    (hF : forLoop (bindThen (.two 3 4) fun st' => Block.exec ops call st' set_for0)
      (all.map fun e => PV.pair (.name e.1) (ofVal e.2)) st = r)
    (hall : (all.map (·.1)).Nodup) (h0 : st.dicts 0 = some (kwPV all)) (h2 : st.dicts 2 = some (kwPV []))
    (hc : ∀ e ∈ all, e.1 < st.w.c.ncols) :
    (all.any (fun e => decide (e.2 = .bad)) = false →
      ∃ st', r = .norm st'
        ∧ st'.w = st.w ∧ st'.lists = st.lists ∧ st'.dicts 2 = some (kwPV all)
        ∧ (∀ y, y ≠ 2 → st'.dicts y = st.dicts y) ∧ (∀ y, y < 3 ∨ 7 < y → st'.vars y = st.vars y))
    ∧ (all.any (fun e => decide (e.2 = .bad)) = true → ∃ st', r = .exc st' .invalid ∧ st'.w = st.w) := by
  rw [← itemsOf_kwPV] at hF
  subst hF
  exact for0_loop all hall all [] st rfl h0 h2 hc

@[simp] theorem dupdate_nil {α : Type} (d : List (Nat × α)) : dupdate [] d = d := rfl

theorem dset_kwPV (k : Nat) (v : Val) (d : Kw) : dset k (ofVal v) (kwPV d) = kwPV (dset k v d) := by
  unfold dset
  have : dhas k (kwPV d) = dhas k d := by simp [dhas, kwPV, List.any_map, Function.comp_def]
  rw [this]
  cases dhas k d
  · simp [kwPV]
  · simp only [if_true, kwPV, List.map_map]
    apply List.map_congr_left
    intro e _
    by_cases h : e.1 = k <;> simp [h]

theorem dupdate_kwPV (a : Kw) : ∀ b : Kw, dupdate (kwPV a) (kwPV b) = kwPV (dupdate a b) := by
  induction a with
  | nil => intro b; rfl
  | cons e a ih =>
    intro b
    rw [kwPV_cons, dupdate_cons, dupdate_cons]
    simp only
    rw [dset_kwPV, ih]

/-- what the lazy / creating branch of `set` (below its `RowUpdateSignal`) leaves -/
def lazyOut (w : World) (cv0 kw : Kw) (vals' : Nat → Option Val) : Outcome :=
  if (colsOf w.c.ncols kw).any (fun e => decide (e.2 = .bad)) then .exc w .invalid
  else if !(extraOf w.c.ncols kw).isEmpty then .exc w .typeError
  else .ret { w with o := { w.o with vals := vals', dirty := if (colsOf w.c.ncols kw).isEmpty then w.o.dirty else true,
                                     cv := some (dupdate (colsOf w.c.ncols kw) cv0) } } .none

theorem set_tail_lazy (fuel : Nat) (st : St) (kw cv0 : Kw) (h0 : st.dicts 0 = some (kwPV kw))
    (hnd : (kw.map (·.1)).Nodup) (hlz : (st.w.o.creating || st.w.c.lazy) = true) (hcv : st.w.o.cv = some cv0) :
    ∃ vals', (Block.exec (evOps fuel) noCalls st (tailOf setProg)).toOutcome = lazyOut st.w cv0 kw vals' := by
  obtain ⟨⟨c, lvl, rows, nextId, ⟨id, vals, cv, creating, dirty, obsolete, sup, lock⟩, postponed, log⟩, vars, lists, dicts⟩ := st
  simp only at h0 hlz hcv
  subst hcv
  simp only [setProg, tailOf, Block.exec]
  rw [filter_stmt_extra _ _ kw h0 hnd]
  simp only [seq_norm]
  rw [filter_stmt_cols _ _ kw (by simpa using h0) hnd]
  simp only [seq_norm]
  have hcond : (if creating = true then (R.ok true : R Bool) else R.ok c.lazy) = R.ok true := by
    cases creating <;> simp_all
  evwith [hcond]
  generalize hF : forLoop _ _ _ = r
  obtain ⟨hok, hbad⟩ := for0_loop' hF (keys_filter_nodup _ _ hnd) (by simp) (by simp) (colsOf_lt _ _)
  clear hF
  cases hany : (colsOf c.ncols kw).any (fun e => decide (e.2 = .bad))
  · obtain ⟨st', rfl, hw, hl, h2, hd, hv⟩ := hok hany
    simp only at hw hl hd hv
    have e1 : st'.dicts 1 = some (kwPV (extraOf c.ncols kw)) := by rw [hd 1 (by decide)]; simp
    have e0 : st'.dicts 0 = some (kwPV (colsOf c.ncols kw)) := by rw [hd 0 (by decide)]; simp
    evwith [e1, hcond]
    by_cases hex : extraOf c.ncols kw = []
    · evwith [hex, h2, hcond]
      generalize hF : forLoop _ _ _ = r
      obtain ⟨st3, vals3, rfl, hw3, hl3, hd3, -⟩ := cache_loop' hF rfl
      clear hF
      rw [hw] at hw3
      by_cases hce : colsOf c.ncols kw = []
      · refine ⟨vals3, ?_⟩
        evwith [hw3, hd3, e0, e1, hex, dupdate_kwPV, hcond, hce]
        simp [lazyOut, hex, hce]
      · refine ⟨vals3, ?_⟩
        evwith [hw3, hd3, e0, e1, hex, dupdate_kwPV, hcond, hce]
        simp [lazyOut, hany, hex, hce]
    · obtain ⟨⟨k, v⟩, l, hl'⟩ : ∃ e l, extraOf c.ncols kw = e :: l := by
        cases hq : extraOf c.ncols kw with
        | nil => exact absurd hq hex
        | cons e l => exact ⟨e, l, rfl⟩
      have hk : ¬ k < c.ncols := extraOf_ge c.ncols kw (k, v) (by rw [hl']; simp)
      refine ⟨vals, ?_⟩
      evwith [hl', set_for1, hw, hk, blt_false hk, hcond]
      simp [lazyOut, hany, hl']
  · obtain ⟨st', rfl, hw⟩ := hbad hany
    refine ⟨vals, ?_⟩
    evwith [hw, hcond]
    simp [lazyOut, hany]

end SqlObjVerif.Events
