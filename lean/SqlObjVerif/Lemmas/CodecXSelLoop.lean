import SqlObjVerif.Lemmas.CodecXBase
import SqlObjVerif.Model.CodecXChain
/-!
# CodecXSel — the translated `SQLObject._SO_selectInit` = the hand model of the read path (`selectInitM`): for every
column list and every fetched row, the `to_python` loop assigns `toPy` of each column's kind on the fetched value, in
order, and stops at the first conversion that fails
-/
namespace SqlObjVerif.PyCodec
open SqlObjVerif.Codec (Str PyVal ColT)
open Extracted

theorem logOf_put_ne (env : Env) (x : Nat) (v : Val) (h : x ≠ LOG) : logOf (env.put x v) = logOf env := by
  simp [logOf, Env.put, Ne.symm h]

theorem logOf_put_LOG (env : Env) (l : List Val) : logOf (env.put LOG (.tuple l)) = l := by
  simp [logOf, Env.put]

/-- one iteration of the loop on the pair (column `i`, fetched value `v`) -/
def stepRes (cfg : Cfg) (env : Env) (i : Nat) (v : PyVal) : Res :=
  match cfg.colToPy i v with
  | .ok y => .norm (((((env.put 2 (.col i)).put 3 (.py v)).put 3 (.py y)).put LOG
      (.tuple (logOf env ++ [encAttr (sValPrefix ++ cfg.colName i, y)]))))
  | .exc e => .exc ((env.put 2 (.col i)).put 3 (.py v)) e
  | .unmodelled => .unmodelled
  | .stuck => .stuck

theorem sel_step (cfg : Cfg) (env : Env) (i : Nat) (v : PyVal) (h0 : env 0 = some selfV) (hto : cfg.colHasTo i = true) :
    loopStep (.tup [2, 3]) (fun e => Block.exec (iface cfg) e selectInit_for0) env (.tuple [.col i, .py v]) =
      stepRes cfg env i v := by
  have l2 : ∀ (e : Env) (x : Val), logOf (e.put 2 x) = logOf e := fun e x => logOf_put_ne e 2 x (by decide)
  have l3 : ∀ (e : Env) (x : Val), logOf (e.put 3 x) = logOf e := fun e x => logOf_put_ne e 3 x (by decide)
  unfold stepRes
  cases h : cfg.colToPy i v <;>
  pyxw [selectInit_for0, h0, hto, h, setattrOf, encAttr, l2, l3]

/-- the model of the loop over column INDICES, with the interface's column functions -/
def selM (cfg : Cfg) : List Nat → List PyVal → List (Str × PyVal) → SelOut
  | i :: is, v :: vs, acc =>
    match cfg.colToPy i v with
    | .ok y => selM cfg is vs (acc ++ [(sValPrefix ++ cfg.colName i, y)])
    | .exc .invalid => .invalid acc
    | .exc _ => .reject acc
    | .unmodelled => .unmodelled
    | .stuck => .unmodelled
  | [], _, acc => .ok acc
  | _ :: _, [], acc => .ok acc

theorem decLog_enc (acc : List (Str × PyVal)) : decLog (acc.map encAttr) = some acc := by
  induction acc with
  | nil => rfl
  | cons a l ih => simp [decLog, decAttr, encAttr, ih]

theorem sel_loop (cfg : Cfg) :
    ∀ (is : List Nat) (vs : List PyVal) (env : Env) (acc : List (Str × PyVal)),
      (∀ i ∈ is, cfg.colHasTo i = true) → (∀ i ∈ is, ∀ v, cfg.colToPy i v ≠ .stuck) → env 0 = some selfV → logOf env = acc.map encAttr →
      (forLoop (loopStep (.tup [2, 3]) (fun e => Block.exec (iface cfg) e selectInit_for0))
        (((is.map Val.col).zip (vs.map Val.py)).map fun p => Val.tuple [p.1, p.2]) env).selView = some (selM cfg is vs acc) := by
  intro is
  induction is with
  | nil => intro vs env acc _ _ _ hl; simp [forLoop, selM, Res.selView, hl, decLog_enc]
  | cons i is ih =>
    intro vs env acc hto hs h0 hl
    cases vs with
    | nil => simp [forLoop, selM, Res.selView, hl, decLog_enc]
    | cons v vs =>
      simp only [List.map_cons, List.zip_cons_cons, forLoop]
      rw [sel_step cfg env i v h0 (hto i (by simp))]
      unfold stepRes
      rw [selM]
      cases h : cfg.colToPy i v with
      | ok y =>
        simp only []
        apply ih vs _ _ (fun j hj => hto j (by simp [hj])) (fun j hj => hs j (by simp [hj]))
        · simp [Env.put, LOG, h0]
        · rw [logOf_put_LOG, hl]; simp
      | exc e =>
        have hl' : logOf ((env.put 2 (.col i)).put 3 (.py v)) = acc.map encAttr := by
          rw [logOf_put_ne _ _ _ (by decide), logOf_put_ne _ _ _ (by decide), hl]
        cases e <;> simp [Res.selView, hl', decLog_enc]
      | unmodelled => simp [Res.selView]
      | stuck => exact absurd h (hs i (by simp) v)

end SqlObjVerif.PyCodec
