import SqlObjVerif.Lemmas.EvMainXSetValue
/-!
C19 translator tie, part 9: `_init`, the postponed `_send_RowCreatedSignal` thunk and `_SO_finishCreate` as translated, in any world.
-/
namespace SqlObjVerif.Events
open SqlObjVerif.PyEv
open SqlObjVerif.PyEv.Extracted
open SqlObjVerif.PyMain (R mapR ofOpt dget dhas dset dupdate dictOf sortByKey insByKey Exc FnKind)

@[simp] theorem initRowCalls_selectInit (args : List PV) (kw : PDict) (w : World) :
    initRowCalls.meth "_SO_selectInit" args kw w = selectInitCall w args := by simp [initRowCalls]

@[simp] theorem evOps_selectOne (fuel : Nat) (w : World) (cols : List Nat) : (evOps fuel).selectOne w cols =
    match w.o.id with
    | some i => if cols = List.range w.c.ncols then some (rowOf? w.rows i) else none
    | none => none := rfl

/-- `self._init(id)` right after the INSERT: the row is there -/
theorem initRowX_run (fuel : Nat) (w : World) (i : Nat) (row : List Val) (hrow : rowOf? w.rows i = some row) (hne : row ≠ []) :
    initRowX fuel w [.nat i] = .ret { w with o := { w.o with id := some i, lock := false, vals := fun c => row[c]?,
                                                             cv := some [], dirty := false } } .none := by
  obtain ⟨c, lvl, rows, nextId, ⟨id, vals, cv, creating, dirty, obsolete, sup, lock⟩, postponed, log⟩ := w
  simp only at hrow
  have hr : (!row.isEmpty) = true := by cases row <;> simp_all
  unfold initRowX initRowProg
  evwith [fillArgs, initRow_nargs, initRow_defaults, hrow, hr, selectInitCall]


/-- what a postponed `_send_RowCreatedSignal` thunk adds to the log: RowCreatedSignal to every listener, then the callbacks -/
def createdLog (c : Cfg) (i : Nat) : List Entry :=
  (deliver .created (some i) 0 c.listeners [] []).2.2 ++ (deliver .created (some i) 0 c.listeners [] []).2.1.map (fun p => Entry.post p i)

/-- the frame `_SO_finishCreate` leaves for its nested def: `post_funcs = []`, `kw` a record -/
def GoodThunk (t : Thunk) (i : Nat) : Prop :=
  t.fid = 0 ∧ t.selfId = some i ∧ t.frame.lists 3 = some [] ∧ ∃ x, t.frame.vars 4 = some x

theorem thunkCall_run (fuel : Nat) (t : Thunk) (i : Nat) (w : World) (ht : GoodThunk t i) :
    thunkCall fuel t w = .ret { w with log := w.log ++ tagLog t.lvl (createdLog t.cfg i) } .none := by
  obtain ⟨fid, cfg, lvl, selfId, ⟨tv, tl, td⟩⟩ := t
  obtain ⟨h0, h1, h2, x, h3⟩ := ht
  simp only at h0 h1 h2 h3
  subst h0 h1
  unfold thunkCall
  simp only [thunkProg, finishCreate_thunk0]
  evwith [h2, h3]
  generalize hF : forLoop _ _ _ = r
  obtain ⟨vs', rfl, -⟩ := post_loop' hF rfl i rfl
  clear hF
  obtain ⟨c, lvl0, rows, nextId, o, postponed, log⟩ := w
  simp [createdLog, tagLog, Function.comp_def]


@[simp] theorem finishCalls_init (fuel : Nat) (args : List PV) (kw : PDict) (w : World) :
    (finishCalls fuel).meth "_init" args kw w = initRowX fuel w args := by simp [finishCalls]

theorem zip_fst_snd {α β : Type} (l : List (α × β)) : (l.map (·.1)).zip (l.map (·.2)) = l := by
  induction l with
  | nil => rfl
  | cons e l ih => simp [ih]

/-- the row `queryInsertID` stores for the collected `_SO_createValues` -/
def insRow (n : Nat) (cv : Kw) : List Val := (colVec n cv).map fun v => v.getD .null

theorem insRow_ne_nil (n : Nat) (cv : Kw) (hn : 0 < n) : insRow n cv ≠ [] := by
  unfold insRow colVec
  intro h
  have := congrArg List.length h
  simp at this
  omega

/-- `self._SO_finishCreate(None)`: INSERT under the next id, `_init`, the RowCreatedSignal thunk appended -/
theorem finishCreateX_run (fuel : Nat) (w : World) (cv1 : Kw) (l : List Thunk)
    (hcv : w.o.cv = some cv1) (hcr : w.o.creating = true) (hpp : w.postponed = some l)
    (hnd : (cv1.map (·.1)).Nodup) (hcols : ∀ e ∈ cv1, e.1 < w.c.ncols) (hn : 0 < w.c.ncols)
    (hfresh : rowOf? w.rows w.nextId = none) :
    ∃ t, GoodThunk t w.nextId ∧ t.cfg = w.c ∧ t.lvl = w.lvl ∧
      finishCreateX fuel w [.none] = .ret { w with
        rows := w.rows ++ [(w.nextId, insRow w.c.ncols cv1)], nextId := w.nextId + 1,
        log := w.log ++ [(w.lvl, Entry.ins w.nextId (insRow w.c.ncols cv1))],
        o := { w.o with id := some w.nextId, vals := fun c => (insRow w.c.ncols cv1)[c]?, cv := some [], creating := false,
                        dirty := false, lock := false },
        postponed := some (l ++ [t]) } .none := by
  obtain ⟨c, lvl, rows, nextId, ⟨id, vals, cv, creating, dirty, obsolete, sup, lock⟩, postponed, log⟩ := w
  simp only at hcv hcr hpp hcols hn hfresh
  subst hcv hcr hpp
  unfold finishCreateX finishCreateProg
  evwith [fillArgs, finishCreate_nargs, finishCreate_defaults]
  generalize hM : mapR _ cv1 = m
  have hm := mapR_ok_of hM (fun e => (e.1, PV.pair (.name e.1) (ofVal e.2))) (by
    intro x hx
    have := hcols x hx
    simp [this])
  subst hm
  clear hM
  simp only [bind_ok, sortByKey_map, List.map_map]
  evwith []
  generalize hM : mapR _ (sortByKey cv1) = m
  have hm := mapR_ok_of hM (fun e => PV.dbName e.1) (by
    intro x hx
    have := hcols x (by rw [← mem_sortByKey]; exact hx)
    simp [this])
  subst hm
  clear hM
  have hins : ∀ w' : World, (evOps fuel).insert w' .none ((sortByKey cv1).map (·.1)) ((sortByKey cv1).map (·.2)) =
      some ({ w' with rows := w'.rows ++ [(w'.nextId, insRow w'.c.ncols cv1)], nextId := w'.nextId + 1,
                      log := w'.log ++ [(w'.lvl, Entry.ins w'.nextId (insRow w'.c.ncols cv1))] }, w'.nextId) := by
    intro w'
    simp [evOps, zip_fst_snd, vecOfPairs_eq, colVec_sortByKey _ _ hnd, insRow]
  have hrow : rowOf? (rows ++ [(nextId, insRow c.ncols cv1)]) nextId = some (insRow c.ncols cv1) := by
    unfold rowOf? at hfresh ⊢
    rw [List.lookup_append, hfresh]; simp [List.lookup]
  cases hlz : c.lazy <;>
  · evwith [Function.comp_def, hins, hlz]
    rw [initRowX_run fuel _ nextId (insRow c.ncols cv1) hrow (insRow_ne_nil _ _ hn)]
    evwith []
    exact ⟨_, ⟨rfl, rfl, by simp, ⟨_, by simp; rfl⟩⟩, rfl, rfl, rfl⟩



end SqlObjVerif.Events
