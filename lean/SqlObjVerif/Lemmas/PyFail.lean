import SqlObjVerif.Model.FailX
import SqlObjVerif.Lemmas.Fail
import SqlObjVerif.Lemmas.PyMainPure
/-!
Symbolic execution of the translated `SQLObject` write methods under the exception-injecting semantics
`Model/PyFail.lean`: constructor-only simp lemmas of the helpers, the bridge between the interpreter's
primitives (`sendStmt`, `memStep`) and the cases of `Fail.run`, the evaluation macros.
(The dict / sorting lemmas about the pure helper functions of `Model/PyMain.lean` that both semantics share are in
`Lemmas/PyMainPure.lean`: copies of the generic lemmas of C05's `Lemmas/OrmValX*.lean`, so that C06's closure does not
contain C05's proofs about other translated methods.)
-/
namespace SqlObjVerif.PyFail
open SqlObjVerif.PyMain (PV FnKind Flag Expr Cond LExpr Target DRef ColAttr R mapR ofOpt PDict CVal
  dget dhas dset dupdate dictOf sortByKey ofVal toVal? pvIdx pyBool nameOf natOf itemsOf dbNameOf optMap
  updItemOf dictItemOf cvOf Block)
open SqlObjVerif.Fail (Err Schema Inj Extra clsOf hit exec bump applyMem Mem updPending rowVals In)

section
variable {α β : Type}
@[simp] theorem withR_ok (st : St) (a : α) (f : α → Res) : withR st (.ok a) f = f a := rfl
@[simp] theorem withR_exc (st : St) (e : PyMain.Exc) (f : α → Res) : withR st (.exc e : R α) f = raisePy st e := rfl
@[simp] theorem withR_stuck (st : St) (f : α → Res) : withR st (.stuck : R α) f = .stuck := rfl
@[simp] theorem ofOptRes_some (a : α) (f : α → Res) : ofOptRes (some a) f = f a := rfl
@[simp] theorem ofOptRes_none (f : α → Res) : ofOptRes (Option.none : Option α) f = .stuck := rfl
@[simp] theorem afterCall_ret (w : FW) (v : PV) (st : St) : afterCall (.ret w v) st = .norm { st with w := w } := rfl
@[simp] theorem afterCall_exc (w : FW) (e : Err) (st : St) : afterCall (.exc w e) st = .exc { st with w := w } e := rfl
@[simp] theorem afterCall_deadlock (w : FW) (st : St) : afterCall (.deadlock w) st = .deadlock { st with w := w } := rfl
@[simp] theorem afterCall_stuck (st : St) : afterCall .stuck st = .stuck := rfl
@[simp] theorem tbind_one (st : St) (x : Nat) (v : PV) : tbind st (.one x) v = some (st.setVar x v) := rfl
@[simp] theorem tbind_two (st : St) (x y : Nat) (a b : PV) : tbind st (.two x y) (.pair a b) = some ((st.setVar x a).setVar y b) := rfl
@[simp] theorem bind_one (k : St → Res) (st : St) (x : Nat) (v : PV) : bindThen (.one x) k st v = k (st.setVar x v) := rfl
@[simp] theorem bind_two (k : St → Res) (st : St) (x y : Nat) (a b : PV) :
    bindThen (.two x y) k st (.pair a b) = k ((st.setVar x a).setVar y b) := rfl
end
@[simp] theorem raisePy_attr (st : St) : raisePy st .attributeError = .exc st .attrError := rfl
@[simp] theorem raisePy_type (st : St) : raisePy st .typeError = .exc st .typeError := rfl
@[simp] theorem raisePy_invalid (st : St) : raisePy st .invalid = .exc st .invalid := rfl
@[simp] theorem raisePy_key (st : St) : raisePy st .keyError = .stuck := rfl
@[simp] theorem colAttrOf_name (c : Nat) : colAttrOf (.col c) .name = .ok (.name c) := rfl
@[simp] theorem colAttrOf_dbName (c : Nat) : colAttrOf (.col c) .dbName = .ok (.dbName c) := rfl
@[simp] theorem colAttrOf_toPython (c : Nat) : colAttrOf (.col c) .toPython = .ok (.fn .toPy c) := rfl
@[simp] theorem colAttrOf_fromPython (c : Nat) : colAttrOf (.col c) .fromPython = .ok (.fn .fromPy c) := rfl
@[simp] theorem colAttrOf_creationOrder (c : Nat) : colAttrOf (.col c) .creationOrder = .ok (.nat c) := rfl
@[simp] theorem instNameOf_name (c : Nat) : instNameOf (.name c) = .ok (.valName c) := rfl
@[simp] theorem afterSend_none (st : St) (s : Fail.St) (k : St → Res) :
    afterSend st (s, Option.none) k = k (st.setW (st.w.setS s)) := rfl
@[simp] theorem afterSend_some (st : St) (s : Fail.St) (e : Err) (k : St → Res) :
    afterSend st (s, some e) k = .exc (st.setW (st.w.setS s)) e := rfl
@[simp] theorem callValidator_fn (st : St) (x : Nat) (kd : FnKind) (c : Nat) (v : Fail.Val) :
    callValidator st x (.fn kd c) (ofVal v) =
      if st.w.vq.headD true then .norm ((st.setW { st.w with vq := st.w.vq.tail }).setVar x (ofVal v))
      else .exc (st.setW { st.w with vq := st.w.vq.tail }) .invalid := by
  cases v <;> rfl
@[simp] theorem propOutcome_none (w : FW) (s : Fail.St) : propOutcome w (s, Option.none) = .ret (w.setS s) .none := rfl
@[simp] theorem propOutcome_some (w : FW) (s : Fail.St) (e : Err) : propOutcome w (s, some e) = .exc (w.setS s) e := rfl
theorem propCall_setattr (w : FW) (k : Nat) (pv : PV) :
    propCall "__setattr__" [PV.name k, pv] [] w = propOutcome w (setProp w k) := by
  simp [propCall]
@[simp] theorem excErr_attr : excErr .attributeError = some Err.attrError := rfl
@[simp] theorem excErr_type : excErr .typeError = some Err.typeError := rfl
@[simp] theorem getFlag_creating (w : FW) : w.getFlag .creating = w.creating := rfl
@[simp] theorem getFlag_lazy (w : FW) : w.getFlag .lazyUpdate = (clsOf w.sch w.c).lazy := rfl
@[simp] theorem getFlag_cacheValues (w : FW) : w.getFlag .cacheValues = true := rfl
@[simp] theorem ncols_mk (sch inj props s c id cr no sg lk vq) :
    (FW.mk sch inj props s c id cr no sg lk vq).ncols = (clsOf sch c).cols.length := rfl

/-! ### the interpreter's primitives are the cases of `Fail.run` -/

theorem run_stmt (sch : Schema) (inj : Option Inj) (q : Fail.Stmt) (k : Fail.Prog) (s : Fail.St) :
    Fail.run sch inj (.stmt q k) s =
      match sendStmt sch inj q s with
      | (s1, some e) => (s1, some e)
      | (s1, Option.none) => Fail.run sch inj k s1 := by
  simp only [Fail.run, sendStmt]
  split <;> simp_all
  split <;> simp_all

theorem run_mem (sch : Schema) (inj : Option Inj) (m : Mem) (k : Fail.Prog) (s : Fail.St) :
    Fail.run sch inj (.mem m k) s = Fail.run sch inj k (memStep m s) := by
  simp only [Fail.run, memStep]

theorem run_done (sch : Schema) (inj : Option Inj) (s : Fail.St) : Fail.run sch inj .done s = (s, Option.none) := by
  simp only [Fail.run]
theorem run_fail (sch : Schema) (inj : Option Inj) (e : Err) (s : Fail.St) : Fail.run sch inj (.fail e) s = (s, some e) := by
  simp only [Fail.run]
theorem run_event (sch : Schema) (inj : Option Inj) (g : Nat) (k : Fail.Prog) (s : Fail.St) :
    Fail.run sch inj (.event g k) s = Fail.run sch inj k s := by
  simp only [Fail.run]
theorem run_validate (sch : Schema) (inj : Option Inj) (b : Bool) (k : Fail.Prog) (s : Fail.St) :
    Fail.run sch inj (.validate b k) s = if b then Fail.run sch inj k s else (s, some .invalid) := by
  simp only [Fail.run]

@[simp] theorem bump_core (s0 s1 : Fail.St) : (bump s0 s1).core = s1.core := by unfold bump; split <;> rfl
@[simp] theorem bump_seqs (s0 s1 : Fail.St) : (bump s0 s1).seqs = s1.seqs := by unfold bump; split <;> rfl
@[simp] theorem bump_lastId (s0 s1 : Fail.St) : (bump s0 s1).lastId = s1.lastId := by unfold bump; split <;> rfl
@[simp] theorem bump_n (s0 s1 : Fail.St) : (bump s0 s1).n = s1.n := by unfold bump; split <;> rfl
@[simp] theorem bump_log (s0 s1 : Fail.St) : (bump s0 s1).log = s1.log := by unfold bump; split <;> rfl
@[simp] theorem memStep_core (m : Mem) (s : Fail.St) : (memStep m s).core = applyMem m s.core := by simp [memStep]
@[simp] theorem memStep_seqs (m : Mem) (s : Fail.St) : (memStep m s).seqs = s.seqs := by simp [memStep]
@[simp] theorem memStep_lastId (m : Mem) (s : Fail.St) : (memStep m s).lastId = s.lastId := by simp [memStep]
@[simp] theorem memStep_n (m : Mem) (s : Fail.St) : (memStep m s).n = s.n := by simp [memStep]
@[simp] theorem memStep_log (m : Mem) (s : Fail.St) : (memStep m s).log = s.log := by simp [memStep]

/-- two updates of the same instance in a row -/
theorem mapInst_mapInst (k : Fail.Core) (c id : Nat) (f g : Fail.Inst → Fail.Inst) (hf : ∀ i, (f i).is c id = i.is c id) :
    Fail.mapInst (Fail.mapInst k c id f) c id g = Fail.mapInst k c id fun i => g (f i) := by
  simp only [Fail.mapInst, List.map_map]
  congr 1
  apply List.map_congr_left
  intro i _
  by_cases h : i.is c id = true
  · simp [h, hf]
  · simp [h]

theorem mapInst_mapInst' (k : Fail.Core) (c id : Nat) (fv : Fail.Inst → List Fail.Val) (fp : Fail.Inst → List (Nat × Fail.Val))
    (fd fo : Fail.Inst → Bool) (g : Fail.Inst → Fail.Inst) :
    Fail.mapInst (Fail.mapInst k c id fun i => ⟨i.cls, i.id, fv i, fp i, fd i, fo i⟩) c id g =
      Fail.mapInst k c id fun i => g ⟨i.cls, i.id, fv i, fp i, fd i, fo i⟩ :=
  mapInst_mapInst k c id _ g (fun _ => rfl)

/-- evaluate the interpreter on a concrete program under the context's facts and the named ones -/
macro "pfwith" "[" args:Lean.Parser.Tactic.simpLemma,* "]" : tactic => `(tactic|
  simp [PyFail.run, Block.exec, Stmt.exec, Cond.eval, Expr.eval, LExpr.eval, St.getVar, St.setVar, St.getList, St.setList,
        St.setW, St.getDict, setDictLoc, itemsOf, Res.toOutcome, mapR, optMap, cvOf, forLoop, mkW, pvOfIn, $args,*])

/-- … under the named facts only (equations between lists in the context must not be used) -/
macro "pfonly" "[" args:Lean.Parser.Tactic.simpLemma,* "]" : tactic => `(tactic|
  simp [PyFail.run, Block.exec, Stmt.exec, Cond.eval, Expr.eval, LExpr.eval, St.getVar, St.setVar, St.getList, St.setList,
        St.setW, St.getDict, setDictLoc, itemsOf, Res.toOutcome, mapR, optMap, cvOf, forLoop, mkW, pvOfIn, $args,*])

/-- evaluate `Fail.run` on the head constructors of a tree -/
macro "frun" "[" args:Lean.Parser.Tactic.simpLemma,* "]" : tactic => `(tactic|
  simp only [run_done, run_fail, run_event, run_validate, run_stmt, run_mem, if_true, if_false, Bool.false_eq_true, $args,*])

end SqlObjVerif.PyFail
