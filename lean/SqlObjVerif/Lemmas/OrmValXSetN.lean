import SqlObjVerif.Lemmas.OrmValXSet
/-!
`set(**kw)` for ANY number of keywords: the loop rules and loop lemmas for the validation loops (0 and 4) and
the caching loops (2 and 6) of the translated `set`, and the facts that tie Python's dict operations on
`kw` / `_SO_createValues` to the hand model's `validate` / `pmerge` / `cacheAll`.
`Lemmas/OrmValXSetAll.lean` assembles them into `setX_eq`.
-/
namespace SqlObjVerif.OrmVal
open SqlObjVerif.PyMain

theorem passign_eq_insByKey (c : Col) (x : Val) (p : Pend) (h : ∀ e ∈ p, e.1 ≠ c) : passign c x p = insByKey (c, x) p := by
  induction p with
  | nil => rfl
  | cons y r ih =>
    obtain ⟨c', v'⟩ := y
    have hc : c ≠ c' := fun e => h (c', v') (by simp) e.symm
    simp only [passign, insByKey, hc, if_false]
    split
    · rfl
    · rw [ih (fun e he => h e (by simp [he]))]

/-- the database-side values of a keyword list (as column values) -/
def dbC (enc : Col → Val → Val) (kvs : List (Col × Inp)) : Pend :=
  kvs.map fun e => (e.1, match e.2 with | .ok v => enc e.1 v | .bad => none)

theorem dbC_keys (enc : Col → Val → Val) (kvs : List (Col × Inp)) : (dbC enc kvs).map (·.1) = kvs.map (·.1) := by
  simp [dbC, Function.comp_def]

/-- `validate` of valid keywords with distinct names: the sorted database-side values -/
theorem validate_ok (enc : Col → Val → Val) (kvs : List (Col × Inp)) (hok : ∀ e ∈ kvs, e.2 ≠ .bad)
    (hnd : (kvs.map (·.1)).Nodup) : validate enc kvs = some (sortByKey (dbC enc kvs)) := by
  induction kvs with
  | nil => rfl
  | cons a r ih =>
    obtain ⟨c, inp⟩ := a
    simp only [List.map_cons, List.nodup_cons] at hnd
    cases inp with
    | bad => exact absurd rfl (hok (c, .bad) (by simp))
    | ok v =>
      simp only [validate, ih (fun e he => hok e (by simp [he])) hnd.2, Option.map_some]
      congr 1
      have : sortByKey (dbC enc ((c, Inp.ok v) :: r)) = insByKey (c, enc c v) (sortByKey (dbC enc r)) := rfl
      rw [this]
      apply passign_eq_insByKey
      intro e he heq
      rw [mem_sortByKey] at he
      have := List.mem_map_of_mem (f := (·.1)) he
      rw [dbC_keys, heq] at this
      exact hnd.1 this

theorem validate_bad (enc : Col → Val → Val) (kvs : List (Col × Inp)) (hb : ∃ e ∈ kvs, e.2 = .bad) :
    validate enc kvs = none := by
  induction kvs with
  | nil => obtain ⟨e, he, _⟩ := hb; simp at he
  | cons a r ih =>
    obtain ⟨c, inp⟩ := a
    cases inp with
    | bad => rfl
    | ok v =>
      obtain ⟨e, he, hbe⟩ := hb
      simp only [List.mem_cons] at he
      rcases he with rfl | he
      · simp at hbe
      · simp [validate, ih ⟨e, he, hbe⟩]

theorem dupdate_cons {α : Type} (x : Nat × α) (l d : List (Nat × α)) : dupdate (x :: l) d = dupdate l (dset x.1 x.2 d) := rfl

theorem dupdate_nodup {α : Type} (new d : List (Nat × α)) (h : (d.map (·.1)).Nodup) : ((dupdate new d).map (·.1)).Nodup := by
  induction new generalizing d with
  | nil => exact h
  | cons x l ih => rw [dupdate_cons]; exact ih _ (dset_nodup _ _ _ h)

theorem dget_dupdate {α : Type} (c : Nat) (new d : List (Nat × α)) (hnd : (new.map (·.1)).Nodup) :
    dget c (dupdate new d) = match dget c new with
      | some v => some v
      | Option.none => dget c d := by
  induction new generalizing d with
  | nil => rfl
  | cons x l ih =>
    simp only [List.map_cons, List.nodup_cons] at hnd
    rw [dupdate_cons, ih _ hnd.2, dget_dset]
    simp only [dget]
    by_cases hx : x.1 = c
    · subst hx
      rw [dget_none_of_not_mem _ _ hnd.1]
      simp
    · have : ¬ c = x.1 := fun e => hx e.symm
      simp [hx, this]

/-- `_SO_createValues.update(kw)` on dicts with distinct keys is `pmerge` on the sorted pending lists -/
theorem sortByKey_dupdate (new cv : Pend) (hn : (new.map (·.1)).Nodup) (hc : (cv.map (·.1)).Nodup) :
    sortByKey (dupdate new cv) = pmerge (sortByKey new) (sortByKey cv) := by
  apply psorted_ext _ _ (sortByKey_psorted _ (dupdate_nodup new cv hc))
    (pmerge_sorted _ _ (sortByKey_psorted _ hc))
  intro k
  rw [plookup_sortByKey k _ (dupdate_nodup new cv hc), dget_dupdate k new cv hn,
    plookup_pmerge _ _ (sortByKey_psorted _ hn), plookup_sortByKey k new hn, plookup_sortByKey k cv hc]
  cases dget k new <;> rfl

theorem dupdate_map_ofVal (l d : Pend) :
    dupdate (l.map fun e => (e.1, ofVal e.2)) (d.map fun e => (e.1, ofVal e.2)) = (dupdate l d).map fun e => (e.1, ofVal e.2) := by
  induction l generalizing d with
  | nil => rfl
  | cons x l ih =>
    simp only [List.map_cons, dupdate_cons]
    rw [dset_map_ofVal, ih]

theorem dget_map_val {α β : Type} (f : Nat → α → β) (c : Nat) (l : List (Nat × α)) :
    dget c (l.map fun e => (e.1, f e.1 e.2)) = (dget c l).map (f c) := by
  induction l with
  | nil => rfl
  | cons x l ih =>
    simp only [List.map_cons, dget]
    by_cases hx : x.1 = c
    · subst hx; simp
    · simp [hx, ih]

open SqlObjVerif.PyMain.Extracted

/-- `pymrun` with the named facts only (no `*`: equations between lists in the context must not be used) -/
macro "pymwith" "[" args:Lean.Parser.Tactic.simpLemma,* "]" : tactic => `(tactic|
  simp [PyMain.run, Block.exec, Stmt.exec, Cond.eval, Expr.eval, LExpr.eval, St.getVar, St.setVar, St.getList, St.setList,
        St.setObj, St.setG, St.getDict, St.setDict, Obj.getFlag, Obj.setFlag, Obj.setVal, itemsOf,
        Res.toOutcome, mapR, optMap, cvOf, forLoop,
        absW, pyObj, klassOf, ormConn_selectOne, ormConn_update, ormConn_cacheExpire, callTable_syncUpdate,
        callTable_selectInit, $args,*])

/-- Hoare rule for a loop over `cs.map g` whose body may raise: either it runs to its end (`I cs`) or the
    first raising item ends it (`Q`) -/
theorem forLoop_map_inv_exc {G α β : Type} {f : St G → α → Res G} {g : β → α} {cs : List β} {st : St G} {r : Res G}
    (hr : forLoop f (cs.map g) st = r) (I : List β → St G → Prop) (Q : St G → Exc → Prop) (hI : I [] st)
    (step : ∀ done c rest st, cs = done ++ c :: rest → I done st →
      (∃ st', f st (g c) = .norm st' ∧ I (done ++ [c]) st') ∨ (∃ st' e, f st (g c) = .exc st' e ∧ Q st' e)) :
    (∃ st', r = .norm st' ∧ I cs st') ∨ (∃ st' e, r = .exc st' e ∧ Q st' e) := by
  suffices h : ∀ (rest done : List β) (st : St G), cs = done ++ rest → I done st → forLoop f (rest.map g) st = r →
      (∃ st', r = .norm st' ∧ I cs st') ∨ (∃ st' e, r = .exc st' e ∧ Q st' e) from h cs [] st rfl hI hr
  intro rest
  induction rest with
  | nil =>
    intro done st hcs hI hr
    simp at hcs; subst hcs
    exact Or.inl ⟨st, by rw [← hr]; rfl, hI⟩
  | cons c rest ih =>
    intro done st hcs hI hr
    rcases step done c rest st hcs hI with ⟨st1, h1, h2⟩ | ⟨st1, e, h1, h2⟩
    · simp only [List.map_cons, forLoop, h1] at hr
      exact ih (done ++ [c]) st1 (by simp [hcs]) h2 hr
    · simp only [List.map_cons, forLoop, h1] at hr
      exact Or.inr ⟨st1, e, hr.symm, h2⟩

/-- the database-side value `set` computes for a keyword (`bad` survives only where no validator looks at it) -/
def dbPV (K : Klass) (e : Nat × Inp) : PV :=
  match e.2 with
  | .ok v => ofVal (encE K e.1 v)
  | .bad => .bad

/-- the value `set` will show for a keyword -/
def shownPV (K : Klass) (e : Nat × Inp) : PV :=
  match e.2 with
  | .ok v => ofVal (decE K e.1 (encE K e.1 v))
  | .bad => .bad

/-- `kw` while the validation loop of the lazy branch runs: the entries of `done` hold database-side values -/
def kwA (K : Klass) (done kvs : List (Nat × Inp)) : PDict :=
  kvs.map fun e => if e.1 ∈ done.map (·.1) then (e.1, dbPV K e) else (e.1, pvOfInp e.2)

theorem eq_of_key_eq {α : Type} {l : List (Nat × α)} (hnd : (l.map (·.1)).Nodup) {a b : Nat × α} (ha : a ∈ l) (hb : b ∈ l)
    (h : a.1 = b.1) : a = b := by
  induction l with
  | nil => simp at ha
  | cons x l ih =>
    simp only [List.map_cons, List.nodup_cons] at hnd
    simp only [List.mem_cons] at ha hb
    rcases ha with rfl | ha <;> rcases hb with rfl | hb
    · rfl
    · exact absurd (List.mem_map_of_mem (f := (·.1)) hb) (by rw [← h]; exact hnd.1)
    · exact absurd (List.mem_map_of_mem (f := (·.1)) ha) (by rw [h]; exact hnd.1)
    · exact ih hnd.2 ha hb

theorem dset_not_mem {α : Type} (k : Nat) (v : α) (l : List (Nat × α)) (h : k ∉ l.map (·.1)) : dset k v l = l ++ [(k, v)] := by
  unfold dset
  have : dhas k l = false := by
    cases hd : dhas k l
    · rfl
    · exact absurd ((dhas_iff k l).mp hd) h
  simp [this]

theorem dset_mem {α : Type} (k : Nat) (v : α) (l : List (Nat × α)) (h : k ∈ l.map (·.1)) :
    dset k v l = l.map (fun e => if e.1 = k then (k, v) else e) := by
  unfold dset
  simp [(dhas_iff k l).mpr h]

theorem kwA_nil (K : Klass) (kvs : List (Nat × Inp)) : kwA K [] kvs = kvs.map fun e => (e.1, pvOfInp e.2) := by
  simp [kwA]

theorem kwA_keys (K : Klass) (done kvs : List (Nat × Inp)) : (kwA K done kvs).map (·.1) = kvs.map (·.1) := by
  unfold kwA
  rw [List.map_map]
  apply List.map_congr_left
  intro e _
  by_cases h : e.1 ∈ done.map (·.1) <;> simp [h]

/-- `kw[k] = dbValue` for the next keyword -/
theorem kwA_step_set (K : Klass) (done kvs : List (Nat × Inp)) (k : Nat) (inp : Inp) (hnd : (kvs.map (·.1)).Nodup)
    (hmem : (k, inp) ∈ kvs) :
    dset k (dbPV K (k, inp)) (kwA K done kvs) = kwA K (done ++ [(k, inp)]) kvs := by
  rw [dset_mem _ _ _ (by rw [kwA_keys]; exact List.mem_map_of_mem (f := (·.1)) hmem)]
  unfold kwA
  rw [List.map_map]
  apply List.map_congr_left
  intro e he
  by_cases hk : e.1 = k
  · have : e = (k, inp) := eq_of_key_eq hnd he hmem hk
    subst this
    by_cases h : k ∈ done.map (·.1) <;> simp [h]
  · by_cases h : e.1 ∈ done.map (·.1) <;> simp [h, hk]

/-- a keyword whose value is stored as it is: `kw` is not written -/
theorem kwA_step_same (K : Klass) (done kvs : List (Nat × Inp)) (k : Nat) (inp : Inp) (hnd : (kvs.map (·.1)).Nodup)
    (hmem : (k, inp) ∈ kvs) (hkd : k ∉ done.map (·.1)) (hsame : dbPV K (k, inp) = pvOfInp inp) :
    kwA K done kvs = kwA K (done ++ [(k, inp)]) kvs := by
  unfold kwA
  apply List.map_congr_left
  intro e he
  by_cases hk : e.1 = k
  · have : e = (k, inp) := eq_of_key_eq hnd he hmem hk
    subst this
    simp [hkd, hsame]
  · by_cases h : e.1 ∈ done.map (·.1) <;> simp [h, hk]

theorem kwA_all (K : Klass) (kvs : List (Nat × Inp)) : kwA K kvs kvs = kvs.map fun e => (e.1, dbPV K e) := by
  unfold kwA
  apply List.map_congr_left
  intro e he
  simp [List.mem_map_of_mem (f := (·.1)) he]

/-- a state of `set`: twelve value locals of which the loops write 3..7, four dicts -/
def setSt (w : World State) (v0 v1 v2 b3 b4 b5 b6 b7 v8 v9 v10 v11 : Option PV) (ls : List (List PV))
    (d0 d1 d2 d3 : PDict) : St State :=
  { w := w, vars := [v0, v1, v2, b3, b4, b5, b6, b7, v8, v9, v10, v11], lists := ls, dicts := [d0, d1, d2, d3] }

/-- validation loop of the lazy branch of `set` (loop 0): all values valid: `kw` holds the database-side values,
    `toCache` the shown ones; or the first rejected value raises `Invalid` with the object untouched -/
theorem set_for0_loop {conn : ConnOps State} {call : CallT State} {w : World State} {kvs : List (Nat × Inp)}
    {v0 v1 v2 a3 a4 a5 a6 a7 v8 v9 v10 v11 : Option PV} {ls : List (List PV)} {ex d3 : PDict} {r : Res State}
    (hF : forLoop (bindThen (.two 3 4) fun st' => Block.exec conn call st' set_for0)
        (kvs.map fun e => PV.pair (.name e.1) (pvOfInp e.2))
        (setSt w v0 v1 v2 a3 a4 a5 a6 a7 v8 v9 v10 v11 ls (kvs.map fun e => (e.1, pvOfInp e.2)) ex [] d3) = r)
    (hnd : (kvs.map (·.1)).Nodup) (hsame : ∀ c, w.k.hasFrom c = w.k.hasTo c)
    (hbad : ∀ e ∈ kvs, e.2 = .bad → w.k.hasFrom e.1 = true) :
    (∃ b3 b4 b5 b6 b7, (∀ e ∈ kvs, e.2 ≠ .bad) ∧ r = .norm
        (setSt w v0 v1 v2 b3 b4 b5 b6 b7 v8 v9 v10 v11 ls (kvs.map fun e => (e.1, dbPV w.k e)) ex
          (kvs.map fun e => (e.1, shownPV w.k e)) d3)) ∨
    (∃ st', r = .exc st' .invalid ∧ st'.w = w ∧ ∃ e ∈ kvs, e.2 = .bad) := by
  rcases forLoop_map_inv_exc hF
    (fun done st => (∀ e ∈ done, e.2 ≠ .bad) ∧ ∃ b3 b4 b5 b6 b7, st =
      setSt w v0 v1 v2 b3 b4 b5 b6 b7 v8 v9 v10 v11 ls (kwA w.k done kvs) ex (done.map fun e => (e.1, shownPV w.k e)) d3)
    (fun st' e => e = .invalid ∧ st'.w = w ∧ ∃ e ∈ kvs, e.2 = .bad)
    ⟨by simp, a3, a4, a5, a6, a7, by simp [kwA_nil]⟩
    (by
      rintro done ⟨k, inp⟩ rest st hcs ⟨hok, b3, b4, b5, b6, b7, rfl⟩
      have hmem : (k, inp) ∈ kvs := by rw [hcs]; simp
      have hkd : k ∉ done.map (·.1) := by
        rw [hcs] at hnd
        simp only [List.map_append, List.map_cons] at hnd
        have := (List.nodup_append.mp hnd).2.2
        intro hm
        exact this k hm k (by simp) rfl
      have hto : w.k.hasTo k = w.k.hasFrom k := (hsame k).symm
      cases hf : w.k.hasFrom k
      · -- no validator: the value is stored and shown as it is
        rw [hf] at hto
        cases inp with
        | bad => exact absurd (hbad _ hmem rfl) (by simp [hf])
        | ok v =>
          refine Or.inl ⟨setSt w v0 v1 v2 (some (.name k)) (some (ofVal v)) (some .none) (some (ofVal v)) (some .none) v8 v9 v10 v11 ls
              (kwA w.k (done ++ [(k, Inp.ok v)]) kvs) ex ((done ++ [(k, Inp.ok v)]).map fun e => (e.1, shownPV w.k e)) d3,
            ?_, ?_, ⟨_, _, _, _, _, rfl⟩⟩
          · simp only [bind_two, set_for0, setSt]
            pymwith [hf, hto]
            refine ⟨kwA_step_same _ _ _ _ _ hnd hmem hkd (by simp [dbPV, encE, hf]), ?_⟩
            rw [dset_not_mem _ _ _ (by simpa using hkd)]
            simp [shownPV, decE, encE, hf, hto]
          · intro e he
            simp only [List.mem_append, List.mem_singleton] at he
            rcases he with he | rfl
            · exact hok e he
            · simp
      · -- the column has a validator
        rw [hf] at hto
        cases inp with
        | bad =>
          refine Or.inr ⟨setSt w v0 v1 v2 (some (.name k)) (some .bad) (some (.fn .fromPy k)) b6 b7 v8 v9 v10 v11 ls
              (kwA w.k done kvs) ex (done.map fun e => (e.1, shownPV w.k e)) d3, .invalid, ?_, rfl, rfl, ⟨_, hmem, rfl⟩⟩
          simp only [bind_two, set_for0, setSt]
          pymwith [hf, hto]
        | ok v =>
          refine Or.inl ⟨setSt w v0 v1 v2 (some (.name k)) (some (ofVal (w.k.dec k (w.k.enc k v)))) (some (.fn .fromPy k))
              (some (ofVal (w.k.enc k v))) (some (.fn .toPy k)) v8 v9 v10 v11 ls
              (kwA w.k (done ++ [(k, Inp.ok v)]) kvs) ex ((done ++ [(k, Inp.ok v)]).map fun e => (e.1, shownPV w.k e)) d3,
            ?_, ?_, ⟨_, _, _, _, _, rfl⟩⟩
          · simp only [bind_two, set_for0, setSt]
            have hkk : k ∈ (kwA w.k done kvs).map (·.1) := by
              rw [kwA_keys]; exact List.mem_map_of_mem (f := (·.1)) hmem
            pymwith [hf, hto]
            refine ⟨?_, ?_⟩
            · have := kwA_step_set w.k done kvs k (Inp.ok v) hnd hmem
              simpa [dbPV, encE, hf] using this
            · rw [dset_not_mem _ _ _ (by simpa using hkd)]
              simp [shownPV, decE, encE, hf, hto]
          · intro e he
            simp only [List.mem_append, List.mem_singleton] at he
            rcases he with he | rfl
            · exact hok e he
            · simp) with ⟨st', rfl, hok, b3, b4, b5, b6, b7, rfl⟩ | ⟨st', e, rfl, rfl, hw, hb⟩
  · refine Or.inl ⟨b3, b4, b5, b6, b7, hok, ?_⟩
    rw [kwA_all]
  · exact Or.inr ⟨st', rfl, hw, hb⟩

/-- the attributes after the shown values `xs` were cached over `base` -/
def putVals (xs : List (Nat × CVal)) (base : Nat → Option CVal) : Nat → Option CVal := fun c =>
  match dget c xs with
  | some v => some v
  | Option.none => base c

theorem putVals_nil (base : Nat → Option CVal) : putVals [] base = base := rfl

/-- the caching loops of `set` (loops 2 and 6): `setattr(self, instanceName(name), value)` for every item -/
theorem set_cache_loop {conn : ConnOps State} {call : CallT State} {body : Block} {w : World State} {xs : List (Nat × CVal)}
    {v0 v1 v2 a3 a4 a5 a6 a7 v8 v9 v10 v11 : Option PV} {ls : List (List PV)} {d0 d1 d2 d3 : PDict} {r : Res State}
    (hF : forLoop (bindThen (.two 3 4) fun st' => Block.exec conn call st' body)
        (xs.map fun e => PV.pair (.name e.1) (ofVal e.2))
        (setSt w v0 v1 v2 a3 a4 a5 a6 a7 v8 v9 v10 v11 ls d0 d1 d2 d3) = r)
    (hbody : body = .cons (.setattrSelf (.instName (.var 3)) (.var 4)) .nil)
    (hnd : (xs.map (·.1)).Nodup) :
    ∃ b3 b4, r = .norm (setSt (withVals w (putVals xs w.o.vals)) v0 v1 v2 b3 b4 a5 a6 a7 v8 v9 v10 v11 ls d0 d1 d2 d3) := by
  subst hbody
  obtain ⟨st', rfl, b3, b4, rfl⟩ := forLoop_map_inv hF
    (fun done st => ∃ b3 b4, st = setSt (withVals w (putVals done w.o.vals)) v0 v1 v2 b3 b4 a5 a6 a7 v8 v9 v10 v11 ls d0 d1 d2 d3)
    ⟨a3, a4, by simp [withVals, putVals_nil]⟩
    (by
      rintro done ⟨k, v⟩ rest st hcs ⟨b3, b4, rfl⟩
      have hk : dget k done = Option.none := by
        apply dget_none_of_not_mem
        rw [hcs] at hnd
        simp only [List.map_append, List.map_cons] at hnd
        have := (List.nodup_append.mp hnd).2.2
        intro hmem
        exact this k hmem k (by simp) rfl
      refine ⟨setSt (withVals w (putVals (done ++ [(k, v)]) w.o.vals)) v0 v1 v2 (some (.name k)) (some (ofVal v)) a5 a6 a7 v8 v9 v10 v11 ls d0 d1 d2 d3,
        ?_, ⟨_, _, rfl⟩⟩
      simp only [bind_two, setSt, withVals]
      pymwith []
      funext c
      simp only [putVals, dget_append_single]
      by_cases hc : c = k
      · subst hc; simp [hk]
      · have hc' : ¬ k = c := fun e => hc e.symm
        cases hd : dget c done <;> simp [hc, hc'])
  exact ⟨b3, b4, rfl⟩

/-- validation loop of the eager branch of `set` (loop 4): `toCache` gets the shown values, `toUpdate` the
    database-side ones; or the first rejected value raises `Invalid` -/
theorem set_for4_loop {conn : ConnOps State} {call : CallT State} {w : World State} {kvs : List (Nat × Inp)}
    {v0 v1 v2 a3 a4 a5 a6 a7 v8 v9 v10 v11 : Option PV} {ls : List (List PV)} {kw ex : PDict} {r : Res State}
    (hF : forLoop (bindThen (.two 3 4) fun st' => Block.exec conn call st' set_for4)
        (kvs.map fun e => PV.pair (.name e.1) (pvOfInp e.2))
        (setSt w v0 v1 v2 a3 a4 a5 a6 a7 v8 v9 v10 v11 ls kw ex [] []) = r)
    (hnd : (kvs.map (·.1)).Nodup) (hsame : ∀ c, w.k.hasFrom c = w.k.hasTo c)
    (hbad : ∀ e ∈ kvs, e.2 = .bad → w.k.hasFrom e.1 = true) :
    (∃ b3 b4 b5 b6 b7, (∀ e ∈ kvs, e.2 ≠ .bad) ∧ r = .norm
        (setSt w v0 v1 v2 b3 b4 b5 b6 b7 v8 v9 v10 v11 ls kw ex
          (kvs.map fun e => (e.1, shownPV w.k e)) (kvs.map fun e => (e.1, dbPV w.k e)))) ∨
    (∃ st', r = .exc st' .invalid ∧ st'.w = w ∧ ∃ e ∈ kvs, e.2 = .bad) := by
  rcases forLoop_map_inv_exc hF
    (fun done st => (∀ e ∈ done, e.2 ≠ .bad) ∧ ∃ b3 b4 b5 b6 b7, st =
      setSt w v0 v1 v2 b3 b4 b5 b6 b7 v8 v9 v10 v11 ls kw ex (done.map fun e => (e.1, shownPV w.k e))
        (done.map fun e => (e.1, dbPV w.k e)))
    (fun st' e => e = .invalid ∧ st'.w = w ∧ ∃ e ∈ kvs, e.2 = .bad)
    ⟨by simp, a3, a4, a5, a6, a7, by simp⟩
    (by
      rintro done ⟨k, inp⟩ rest st hcs ⟨hok, b3, b4, b5, b6, b7, rfl⟩
      have hmem : (k, inp) ∈ kvs := by rw [hcs]; simp
      have hkd : k ∉ done.map (·.1) := by
        rw [hcs] at hnd
        simp only [List.map_append, List.map_cons] at hnd
        have := (List.nodup_append.mp hnd).2.2
        intro hm
        exact this k hm k (by simp) rfl
      have hok' : ∀ v, ∀ e ∈ done ++ [(k, Inp.ok v)], e.2 ≠ .bad := by
        intro v e he
        simp only [List.mem_append, List.mem_singleton] at he
        rcases he with he | rfl
        · exact hok e he
        · simp
      have hto : w.k.hasTo k = w.k.hasFrom k := (hsame k).symm
      cases hf : w.k.hasFrom k
      · rw [hf] at hto
        cases inp with
        | bad => exact absurd (hbad _ hmem rfl) (by simp [hf])
        | ok v =>
          refine Or.inl ⟨setSt w v0 v1 v2 (some (.name k)) (some (ofVal v)) (some .none) (some (ofVal v)) (some .none) v8 v9 v10 v11 ls
              kw ex ((done ++ [(k, Inp.ok v)]).map fun e => (e.1, shownPV w.k e))
              ((done ++ [(k, Inp.ok v)]).map fun e => (e.1, dbPV w.k e)), ?_, hok' v, ⟨_, _, _, _, _, rfl⟩⟩
          simp only [bind_two, set_for4, setSt]
          pymwith [hf, hto]
          rw [dset_not_mem _ _ _ (by simpa using hkd), dset_not_mem _ _ _ (by simpa using hkd)]
          simp [shownPV, dbPV, decE, encE, hf, hto]
      · rw [hf] at hto
        cases inp with
        | bad =>
          refine Or.inr ⟨setSt w v0 v1 v2 (some (.name k)) (some .bad) (some (.fn .fromPy k)) b6 b7 v8 v9 v10 v11 ls
              kw ex (done.map fun e => (e.1, shownPV w.k e)) (done.map fun e => (e.1, dbPV w.k e)),
              .invalid, ?_, rfl, rfl, ⟨_, hmem, rfl⟩⟩
          simp only [bind_two, set_for4, setSt]
          pymwith [hf, hto]
        | ok v =>
          refine Or.inl ⟨setSt w v0 v1 v2 (some (.name k)) (some (ofVal (w.k.dec k (w.k.enc k v)))) (some (.fn .fromPy k))
              (some (ofVal (w.k.enc k v))) (some (.fn .toPy k)) v8 v9 v10 v11 ls
              kw ex ((done ++ [(k, Inp.ok v)]).map fun e => (e.1, shownPV w.k e))
              ((done ++ [(k, Inp.ok v)]).map fun e => (e.1, dbPV w.k e)), ?_, hok' v, ⟨_, _, _, _, _, rfl⟩⟩
          simp only [bind_two, set_for4, setSt]
          pymwith [hf, hto]
          rw [dset_not_mem _ _ _ (by simpa using hkd), dset_not_mem _ _ _ (by simpa using hkd)]
          simp [shownPV, dbPV, decE, encE, hf, hto]) with ⟨st', rfl, hok, b3, b4, b5, b6, b7, rfl⟩ | ⟨st', e, rfl, rfl, hw, hb⟩
  · exact Or.inl ⟨b3, b4, b5, b6, b7, hok, rfl⟩
  · exact Or.inr ⟨st', rfl, hw, hb⟩

end SqlObjVerif.OrmVal
