import SqlObjVerif.Lemmas.GetXBase
set_option linter.unusedSimpArgs false
namespace SqlObjVerif.Cache
open SqlObjVerif.PyGet
open SqlObjVerif.PyGet.Extracted

/-- a `selectResults` argument: the columns of a fetched row, or `None` -/
def Vsr (b : Bool) : Val := if b then Vcols else .none

macro "srun" : tactic => `(tactic|
  simp [PyGet.run, Block.exec, Stmt.exec, Cond.eval, Expr.eval, evalList, evalOpt, eval2, afterCall, St.setVar, St.setOpt,
        St.setAll, Env.get, Res.toCall, pyBool, zipKw, Val.isNone, ExcPat.catches, PyGet.forLoop, Val.toList, Val.ofList,
        bindArgs, bindFrom, kwGet,
        soIface, soAttr, soSetAttr, soCall, connCall, knownOpaque, noExt, ext1, ext2, VcacheSet, Vconn, VnewLock, Vcols, Vrow,
        Vpickle, optV, Vsr, GW.construct, *])

@[simp] theorem setObj_obj_self (s : State) (h : Handle) (o : Obj) : (setObj s h o).obj h = o := by simp [setObj, upd]
@[simp] theorem setObj_rows (s : State) (h : Handle) (o : Obj) : (setObj s h o).rows = s.rows := rfl
@[simp] theorem setObj_fac (s : State) (h : Handle) (o : Obj) : (setObj s h o).fac = s.fac := rfl
@[simp] theorem setObj_n (s : State) (h : Handle) (o : Obj) : (setObj s h o).n = s.n := rfl
@[simp] theorem setObj_cfg (s : State) (h : Handle) (o : Obj) : (setObj s h o).cfg = s.cfg := rfl
@[simp] theorem setObj_maxId (s : State) (h : Handle) (o : Obj) : (setObj s h o).maxId = s.maxId := rfl


theorem initRowG_eq (w : GW) (h : Handle) (k : Id) (conn : Val) (hconn : conn = .none ∨ conn = Vconn) (srb : Bool) :
    initRowG w h (.key k) conn (Vsr srb) =
      if srb || (w.s.rows (w.s.obj h).cls).contains k then
        .ret { w with s := setObj w.s h { w.s.obj h with id := k }, wlock := upd w.wlock h false,
                      dirty := upd w.dirty h false } .none
      else .exc { w with s := setObj w.s h { w.s.obj h with id := k }, wlock := upd w.wlock h false } .notFound := by
  unfold initRowG initRowProg initRow_nlocals Vsr
  by_cases hr : k ∈ w.s.rows (w.s.obj h).cls <;> rcases hconn with rfl | rfl <;> cases srb <;> srun

theorem pyBool_Vsr {I : Iface GW} (w : GW) (b : Bool) : pyBool I w (Vsr b) = some b := by
  cases b <;> simp [Vsr, Vcols, pyBool]

theorem Vsr_isNone (b : Bool) : (Vsr b).isNone = !b := by cases b <;> rfl

theorem initCall_eq (w : GW) (h : Handle) (k : Id) (conn : Val) (hconn : conn = .none ∨ conn = Vconn) (srb : Bool) :
    initCall w h [.key k, conn, Vsr srb] [] =
      if srb || (w.s.rows (w.s.obj h).cls).contains k then
        .ret { w with s := setObj w.s h { w.s.obj h with id := k }, wlock := upd w.wlock h false,
                      dirty := upd w.dirty h false } .none
      else .exc { w with s := setObj w.s h { w.s.obj h with id := k }, wlock := upd w.wlock h false } .notFound := by
  rw [← initRowG_eq w h k conn hconn srb]
  simp [initCall, bindArgs, bindFrom, initRow_params, initRow_defaults, initRowG]

theorem initCall_none (w : GW) (h : Handle) (k : Id) (conn : Val) (hconn : conn = .none ∨ conn = .ref "conn" 0) :
    initCall w h [.key k, conn, .none] [] =
      if k ∈ w.s.rows (w.s.obj h).cls then
        .ret { w with s := setObj w.s h { w.s.obj h with id := k }, wlock := upd w.wlock h false,
                      dirty := upd w.dirty h false } .none
      else .exc { w with s := setObj w.s h { w.s.obj h with id := k }, wlock := upd w.wlock h false } .notFound := by
  have := initCall_eq w h k conn hconn false
  simpa [Vsr] using this

theorem initCall_cols (w : GW) (h : Handle) (k : Id) (conn : Val) (hconn : conn = .none ∨ conn = .ref "conn" 0) :
    initCall w h [.key k, conn, .cons .opq .nil] [] =
        .ret { w with s := setObj w.s h { w.s.obj h with id := k }, wlock := upd w.wlock h false,
                      dirty := upd w.dirty h false } .none := by
  have := initCall_eq w h k conn hconn true
  simpa [Vsr, Vcols] using this

theorem csPut_fresh (w : GW) (c : Cls) (k : Id) (h : Handle) (hc : c ∈ w.made)
    (hk : ahasKey k (w.s.fac c).strong = false) :
    csCall w "put" [.key k, .cls c, .obj h] = .ret { w with s := insertEntry w.s c k h } .none := by
  apply csPut_eq w c k h hc
  intro e he hek
  have : ahasKey k (w.s.fac c).strong = true := (ahasKey_iff k _).2 ⟨e.2, by rw [← hek]; exact he⟩
  rw [hk] at this; cases this

theorem tick_nocache (s : State) (c : Cls) (h : s.cfg.doCache = false) : tick s c = s := by
  unfold tick; simp [h]

theorem lookup_none_nokey (s : State) (c : Cls) (k : Id) (hnc : s.cfg.doCache = false → (s.fac c).strong = [])
    (h : (lookupCache s c k).2 = none) : ahasKey k ((lookupCache s c k).1.fac c).strong = false := by
  have key : ∀ l : AList, aget k l = none → ahasKey k l = false := by
    intro l hl
    cases hh : ahasKey k l with
    | false => rfl
    | true =>
      obtain ⟨v, hv⟩ := (ahasKey_iff k l).1 hh
      exact absurd hv ((aget_none_iff).1 hl v)
  unfold lookupCache at h ⊢
  simp only at h ⊢
  cases hd : s.cfg.doCache with
  | false =>
    have hs := hnc hd
    simp only [hd, Bool.false_eq_true, if_false] at h ⊢
    cases hw : aget k (s.fac c).weak with
    | none => simp [hs, ahasKey]
    | some x =>
      simp only [hw] at h ⊢
      cases hdd : (s.obj x).dead with
      | false => simp [hdd] at h
      | true => simp [hdd, setFac, upd, hs, ahasKey]
  | true =>
    simp only [hd, if_true] at h ⊢
    cases hs : aget k (s.fac c).strong with
    | some v => simp [hs] at h
    | none =>
      simp only [hs] at h ⊢
      cases hw : aget k (s.fac c).weak with
      | none => simp [key _ hs]
      | some x =>
        simp only [hw] at h ⊢
        cases hdd : (s.obj x).dead with
        | false => simp [hdd] at h
        | true => simp [hdd, setFac, upd, key _ hs]

theorem mem_addMade (m : List Cls) (c : Cls) : c ∈ addMade m c := by
  unfold addMade; split <;> simp_all

theorem upd_upd {β : Type} (f : Nat → β) (a : Nat) (x y : β) : upd (upd f a x) a y = upd f a y := by
  funext z; simp only [upd]; split <;> rfl

@[simp] theorem upd_same {β : Type} (f : Nat → β) (a : Nat) (x : β) : upd f a x a = x := by simp [upd]

theorem getG_eq (w : GW) (c : Cls) (k : Id) (conn : Val) (hconn : conn = .none ∨ conn = Vconn) (srb : Bool)
    (hwf : w.WF) (hl : w.lock c = false) (hwl : ∀ h, w.wlock h = false)
    (hfr : w.s.cfg.cullFraction ≠ 0) (hrep : Rep w.s c)
    (hnc : w.s.cfg.doCache = false → (w.s.fac c).strong = [])
    (hrow : srb = true → k ∈ w.s.rows c) :
    getG w c k conn (Vsr srb) =
      match lookupCache (tick w.s c) c k with
      | (s1, some h) =>
        .ret { w with s := if srb && !w.dirty h then setObj s1 h { s1.obj h with expired := false } else s1,
                      made := addMade w.made c } (.obj h)
      | (s1, none) =>
        if k ∈ s1.rows c then
          .ret { w with s := insertEntry (alloc s1 c k false) c k s1.n, made := addMade w.made c,
                        wlock := upd w.wlock s1.n false, dirty := upd w.dirty s1.n false } (.obj s1.n)
        else
          .exc { w with s := alloc s1 c k false, made := addMade w.made c,
                        wlock := upd w.wlock s1.n false, dirty := upd w.dirty s1.n false } .notFound := by
  unfold getG getProg get_nlocals
  have h1 := csGet_eq w c k hwf hl hfr hrep
  have hloc := (local_tick w.s c).trans (local_lookup _ c k)
  generalize hL : lookupCache (tick w.s c) c k = L at h1 hloc
  obtain ⟨s1, r⟩ := L
  have e1 : upd w.lock c false = w.lock := by rw [← hl, upd_self]
  have e2 : ∀ h, upd (upd w.wlock h true) h false = w.wlock := by intro h; rw [upd_upd, ← hwl h, upd_self]
  cases r with
  | some h =>
    simp only at h1 hloc ⊢
    rcases hconn with rfl | rfl <;> cases srb <;> cases hd : w.dirty h <;> srun
  | none =>
    simp only at h1 hloc ⊢
    have hrows : s1.rows = w.s.rows := hloc.rows
    have hne : ahasKey k (s1.fac c).strong = false := by
      have := lookup_none_nokey (tick w.s c) c k
        (fun hd => by rw [tick_nocache _ _ ((tick_facts w.s c).2.2.1 ▸ hd)]; exact hnc ((tick_facts w.s c).2.2.1 ▸ hd))
        (by rw [hL])
      rw [hL] at this; exact this
    have hm := mem_addMade w.made c
    have e3 : upd (upd w.lock c true) c false = w.lock := by rw [upd_upd, e1]
    clear hrows
    by_cases hr : k ∈ s1.rows c
    · rcases hconn with rfl | rfl <;> cases srb <;>
        simp [PyGet.run, Block.exec, Stmt.exec, Cond.eval, Expr.eval, evalList, evalOpt, eval2, afterCall, St.setVar, St.setOpt,
        St.setAll, Env.get, Res.toCall, pyBool, zipKw, Val.isNone, ExcPat.catches, PyGet.forLoop, Val.toList, Val.ofList,
        bindArgs, bindFrom, kwGet,
        soIface, soAttr, soSetAttr, soCall, connCall, knownOpaque, noExt, ext1, ext2, VcacheSet, Vconn, VnewLock, Vcols, Vrow,
        Vpickle, optV, Vsr, GW.construct, initCall_none, initCall_cols, csPut_fresh, csFinishPut_eq, upd_upd, *]
      all_goals simp [setObj, alloc, upd_upd]
    · have hrow' : srb = false := by
        cases srb with
        | false => rfl
        | true => exact absurd (hloc.rows ▸ hrow rfl) hr
      subst hrow'
      rcases hconn with rfl | rfl <;>
        simp [PyGet.run, Block.exec, Stmt.exec, Cond.eval, Expr.eval, evalList, evalOpt, eval2, afterCall, St.setVar, St.setOpt,
        St.setAll, Env.get, Res.toCall, pyBool, zipKw, Val.isNone, ExcPat.catches, PyGet.forLoop, Val.toList, Val.ofList,
        bindArgs, bindFrom, kwGet,
        soIface, soAttr, soSetAttr, soCall, connCall, knownOpaque, noExt, ext1, ext2, VcacheSet, Vconn, VnewLock, Vcols, Vrow,
        Vpickle, optV, Vsr, GW.construct, initCall_none, initCall_cols, csPut_fresh, csFinishPut_eq, upd_upd, *]
      all_goals simp [setObj, alloc, upd_upd]

end SqlObjVerif.Cache
