import SqlObjVerif.Lemmas.FailInhSetXBase
/-!
C06, setters of the extra keywords of `set()` as TRANSLATED code, part 2: the loop of the translated `SQLObject.set` over
its extra keywords (`set_for5` eager / `set_for3` lazy) for ANY call table whose `__setattr__` simulates the hand
model's tree of the keyword up to the ghost counter (`SimCall`) = `Fail.extras`, keyword by keyword, consuming `vqEx`
from the oracle queue (`set_extra_stepT`, `set_extra_loopT`: generalise `set_extra_step` / `set_extra_loop`; the states
of the two sides are only `obs`-equal, which `extras` — a tree without `dyn` — cannot tell apart: `run_sim`).
-/
namespace SqlObjVerif.PyFail
open SqlObjVerif.PyMain (PV FnKind Flag Expr Cond LExpr Target DRef ColAttr R mapR ofOpt PDict CVal
  dget dhas dset dupdate dictOf sortByKey ofVal toVal? pvIdx pyBool nameOf natOf itemsOf dbNameOf optMap
  updItemOf dictItemOf cvOf Block)
open SqlObjVerif.PyMain.Extracted
open SqlObjVerif.Fail (Err Schema Inj Extra clsOf hit exec bump applyMem Mem updPending rowVals In allOk)
open SqlObjVerif.FailInhSet (exOk)

/-- what the loops over the extra keywords need of the call table: `setattr(self, <extra keyword>, value)` ends like the
    hand model's tree for that kind of keyword, up to the ghost counter, and consumes that keyword's oracle entries -/
def SimCall (call : CallT) : Prop :=
  ∀ (w : FW) (k : Nat) (pv : PV) (rest : List Bool), w.creating = false → w.vq = vqEx [w.props k] ++ rest →
    exOk w.sch w.c (w.props k) →
    ∃ s' q, call "__setattr__" [.name k, pv] [] w = propOutcome { w with vq := q } (s', (setProp w k).2) ∧
      obs s' = obs (setProp w k).1 ∧ ((setProp w k).2 = none → q = rest)

theorem vqEx_cons (e : Extra) (es : List Extra) : vqEx (e :: es) = vqEx [e] ++ vqEx es := by
  cases e <;> simp [vqEx]

theorem set_extra_stepT (call : CallT) (hcall : SimCall call)
    (body : Block) (hbody : body = set_for5) (w : FW) (k : Nat) (pv : PV) (rest : List Bool)
    (hk : Nat.blt k (clsOf w.sch w.c).cols.length = false)
    (hcr : w.creating = false) (hvq : w.vq = vqEx [w.props k] ++ rest) (hok : exOk w.sch w.c (w.props k))
    (v0 v1 v2 a3 a4 a5 a6 a7 v8 v9 v10 v11 : Option PV) (ls : List (List PV)) (d0 d1 d2 d3 : PDict) :
    ∃ s' q,
      bindThen (.two 3 4) (fun st' => Block.exec call st' body)
          (setSt w v0 v1 v2 a3 a4 a5 a6 a7 v8 v9 v10 v11 ls d0 d1 d2 d3) (PV.pair (.name k) pv) =
        extraRes (s', (setProp w k).2) (fun s1 =>
          setSt ({ w with vq := q }.setS s1) v0 v1 v2 (some (.name k)) (some pv) a5 a6 a7 v8 v9 v10 v11 ls d0 d1 d2 d3) ∧
      obs s' = obs (setProp w k).1 ∧ ((setProp w k).2 = none → q = rest) := by
  subst hbody
  have hk' : ¬ k < (clsOf w.sch w.c).cols.length := by
    intro h; rw [← Nat.blt_eq, hk] at h; exact absurd h (by simp)
  by_cases hu : w.props k = .unknown
  · have hr : setProp w k = (w.s, some .typeError) := by
      simp [setProp, hu, Fail.extras, run_fail]
    rw [hr]
    refine ⟨w.s, w.vq, ?_, rfl, fun h => by simp at h⟩
    show _ = Res.exc (setSt w v0 v1 v2 (some (.name k)) (some pv) a5 a6 a7 v8 v9 v10 v11 ls d0 d1 d2 d3) Err.typeError
    simp only [bind_two, set_for5, setSt]
    pfonly [hk, hk', FW.hasAttr, hu, FW.ncols]
  · have hu' : (w.props k != Extra.unknown) = true := by simpa using hu
    obtain ⟨s', q, hc, hobs, hq⟩ := hcall w k pv rest hcr hvq hok
    refine ⟨s', q, ?_, hobs, hq⟩
    generalize setProp w k = r at hc
    obtain ⟨s1, e⟩ := r
    simp only [bind_two, set_for5, setSt]
    cases e with
    | none => pfonly [hk, hk', FW.hasAttr, hu, hu', FW.ncols, hc, FW.setS]
    | some e =>
      pfonly [hk, hk', FW.hasAttr, hu, hu', FW.ncols, hc, FW.setS]
      by_cases he : Err.attrError = e
      · subst he; simp
      · simp [he]

theorem set_extra_loopT (call : CallT) (hcall : SimCall call) (body : Block) (hbody : body = set_for5)
    (exs : List (Nat × In)) :
    ∀ (w : FW) (tail : List Bool) (v0 v1 v2 a3 a4 a5 a6 a7 v8 v9 v10 v11 : Option PV) (ls : List (List PV))
      (d0 d1 d2 d3 : PDict),
      (∀ e ∈ exs, Nat.blt e.1 (clsOf w.sch w.c).cols.length = false) →
      w.creating = false → w.vq = vqEx (exs.map fun e => w.props e.1) ++ tail →
      (∀ e ∈ exs, exOk w.sch w.c (w.props e.1)) →
      ∃ b3 b4 s' q,
        forLoop (bindThen (.two 3 4) fun st' => Block.exec call st' body)
            (exs.map fun e => PV.pair (.name e.1) (pvOfIn e.2))
            (setSt w v0 v1 v2 a3 a4 a5 a6 a7 v8 v9 v10 v11 ls d0 d1 d2 d3) =
          extraRes (s', (Fail.run w.sch w.inj (Fail.extras w.sch w.c w.id (exs.map fun e => w.props e.1) .done) w.s).2)
            (fun s1 => setSt ({ w with vq := q }.setS s1) v0 v1 v2 b3 b4 a5 a6 a7 v8 v9 v10 v11 ls d0 d1 d2 d3) ∧
        obs s' = obs (Fail.run w.sch w.inj (Fail.extras w.sch w.c w.id (exs.map fun e => w.props e.1) .done) w.s).1 ∧
        ((Fail.run w.sch w.inj (Fail.extras w.sch w.c w.id (exs.map fun e => w.props e.1) .done) w.s).2 = none → q = tail) := by
  induction exs with
  | nil =>
    intro w tail v0 v1 v2 a3 a4 a5 a6 a7 v8 v9 v10 v11 ls d0 d1 d2 d3 _ _ hvq _
    refine ⟨a3, a4, w.s, w.vq, ?_, ?_, ?_⟩
    · simp only [List.map_nil, forLoop, Fail.extras, List.foldr, run_done, extraRes_none]
      rfl
    · simp [Fail.extras, run_done]
    · intro _; simpa [vqEx] using hvq
  | cons x exs ih =>
    intro w tail v0 v1 v2 a3 a4 a5 a6 a7 v8 v9 v10 v11 ls d0 d1 d2 d3 hge hcr hvq hok
    obtain ⟨k, inp⟩ := x
    simp only [List.map_cons] at hvq
    rw [vqEx_cons, List.append_assoc] at hvq
    obtain ⟨s1', q1, hstep, hobs1, hq1⟩ := set_extra_stepT call hcall body hbody w k (pvOfIn inp) _
      (hge (k, inp) (by simp)) hcr hvq (hok (k, inp) (by simp))
      v0 v1 v2 a3 a4 a5 a6 a7 v8 v9 v10 v11 ls d0 d1 d2 d3
    simp only [List.map_cons, forLoop, hstep]
    rw [run_extras_cons]
    have hsp : setProp w k = Fail.run w.sch w.inj (Fail.extras w.sch w.c w.id [w.props k] .done) w.s := rfl
    rw [← hsp]
    generalize setProp w k = r at hobs1 hq1
    obtain ⟨s1, e⟩ := r
    cases e with
    | some e => exact ⟨some (.name k), some (pvOfIn inp), s1', q1, by simp, by simpa using hobs1, by simp⟩
    | none =>
      have hq := hq1 rfl
      subst hq
      obtain ⟨b3, b4, s2', q2, hb, hobs2, hq2⟩ := ih ({ w with vq := vqEx (exs.map fun (e : Nat × In) => w.props e.1) ++ tail }.setS s1') tail
        v0 v1 v2 (some (.name k)) (some (pvOfIn inp)) a5 a6 a7 v8 v9 v10 v11 ls d0 d1 d2 d3
        (fun e he => hge e (by simp [he])) hcr rfl (fun e he => hok e (by simp [he]))
      have hsim := run_sim w.sch w.inj _ (noDyn_extras w.sch w.c w.id (exs.map fun e => w.props e.1) .done (by simp [noDyn]))
        s1' s1 hobs1
      obtain ⟨hs1, hs2⟩ := hsim
      simp only [FW.setS] at hb hobs2 hq2
      refine ⟨b3, b4, s2', q2, ?_, ?_, ?_⟩
      · simp only [extraRes_none, thenRun_none, FW.setS]
        rw [hb, hs2]
      · simp only [thenRun_none]; rw [hobs2, hs1]
      · simp only [thenRun_none]; rw [← hs2]; exact hq2

end SqlObjVerif.PyFail
