import SqlObjVerif.Model.FailOpX
import SqlObjVerif.Lemmas.FailXAttr
import SqlObjVerif.Lemmas.FailXSetLazy
import SqlObjVerif.Lemmas.FailXSetExLazy
import SqlObjVerif.Lemmas.PyFailFrame
import SqlObjVerif.Lemmas.FailCreateXMain
import SqlObjVerif.Lemmas.PyCreateFrame
import SqlObjVerif.Lemmas.FailDestroyXInh
import SqlObjVerif.Lemmas.FailXSync
import SqlObjVerif.Lemmas.FailOpXInh
import SqlObjVerif.Lemmas.FailInhSetX
import SqlObjVerif.Lemmas.FailInhSetXFrame
/-!
C06: `stepX` (the translated program of a tied operation under a schedule) = `Fail.step` (the hand-compiled tree under
the same schedule), for every schema, state, tied operation and schedule.
-/
namespace SqlObjVerif.PyFail
open SqlObjVerif.Fail (Err Schema Inj Extra In Op clsOf)

theorem map_getD_range {α : Type} (l : List α) (d : α) : (List.range l.length).map (fun i => l.getD i d) = l := by
  apply List.ext_getElem
  · simp
  · intro i h1 h2
    simp at h1
    simp [List.getD, h1]

theorem exKw_props (n : Nat) (ex : List Extra) : (exKw n ex).map (fun e => propsOf n ex e.1) = ex := by
  simp only [exKw, List.map_map, propsOf, Function.comp_def, Nat.add_sub_cancel_left]
  exact map_getD_range ex _

theorem exKw_split (n : Nat) (kw : List (Nat × In)) (ex : List Extra) (hlt : ∀ e ∈ kw, e.1 < n) :
    (kw ++ exKw n ex).filter (fun x => Nat.blt x.1 n) = kw ∧
    (kw ++ exKw n ex).filter (fun x => !Nat.blt x.1 n) = exKw n ex := by
  have h1 : kw.filter (fun x => Nat.blt x.1 n) = kw := List.filter_eq_self.mpr (fun e he => by simpa [Nat.blt_eq] using hlt e he)
  have h2 : (exKw n ex).filter (fun x => Nat.blt x.1 n) = [] := by
    rw [List.filter_eq_nil_iff]; intro e he
    simp only [exKw, List.mem_map] at he
    obtain ⟨i, _, rfl⟩ := he
    simp [Nat.blt_eq]
  have h3 : kw.filter (fun x => !Nat.blt x.1 n) = [] := by
    rw [List.filter_eq_nil_iff]; intro e he
    simp [Nat.blt_eq, hlt e he]
  have h4 : (exKw n ex).filter (fun x => !Nat.blt x.1 n) = exKw n ex := by
    apply List.filter_eq_self.mpr; intro e he
    simp only [exKw, List.mem_map] at he
    obtain ⟨i, _, rfl⟩ := he
    have : ¬ (n + i < n) := by omega
    cases hb : Nat.blt (n + i) n
    · rfl
    · exact absurd (by simpa [Nat.blt_eq] using hb) this
  simp [List.filter_append, h1, h2, h3, h4]

theorem exKw_split' (n : Nat) (kw : List (Nat × In)) (ex : List Extra) (hlt : ∀ e ∈ kw, e.1 < n) :
    (kw ++ exKw n ex).filter (fun e => e.1 < n) = kw ∧
    (kw ++ exKw n ex).filter (fun e => ¬ e.1 < n) = exKw n ex := by
  obtain ⟨h1, h2⟩ := exKw_split n kw ex hlt
  constructor
  · refine Eq.trans (List.filter_congr ?_) h1
    intro x _
    cases hb : Nat.blt x.1 n
    · have : ¬ x.1 < n := by rw [← Nat.blt_eq, hb]; simp
      simp [this]
    · have : x.1 < n := by rw [← Nat.blt_eq, hb]
      simp [this]
  · refine Eq.trans (List.filter_congr ?_) h2
    intro x _
    cases hb : Nat.blt x.1 n
    · have : ¬ x.1 < n := by rw [← Nat.blt_eq, hb]; simp
      simp [this]
    · have : x.1 < n := by rw [← Nat.blt_eq, hb]
      simp [this]

theorem exKw_nodup (n : Nat) (kw : List (Nat × In)) (ex : List Extra) (hlt : ∀ e ∈ kw, e.1 < n)
    (hnd : (kw.map (·.1)).Nodup) : ((kw ++ exKw n ex).map (·.1)).Nodup := by
  rw [List.map_append, List.nodup_append]
  refine ⟨hnd, ?_, ?_⟩
  · simp only [exKw, List.map_map, Function.comp_def]
    rw [List.Nodup, List.pairwise_map]
    exact (List.nodup_range (n := ex.length)).imp (fun h e => h (by omega))
  · intro a ha b hb
    simp only [List.mem_map] at ha hb
    obtain ⟨e, he, rfl⟩ := ha
    obtain ⟨e', he', rfl⟩ := hb
    simp only [exKw, List.mem_map] at he'
    obtain ⟨i, _, rfl⟩ := he'
    have := hlt e he
    simp only
    omega

theorem kwFullOf_nodefault (n : Nat) (kw : List (Nat × In)) : PyCreate.kwFullOf (fun _ => none) n kw = kw := by
  simp [PyCreate.kwFullOf, PyCreate.defaulted]

theorem missingOf_flag (n : Nat) (kw : List (Nat × In)) (missing : Bool)
    (h : missing = true → (List.range n).any (fun j => !PyCreate.hasKey kw j) = true) :
    PyCreate.missingOf (fun _ => none) (fun _ => !missing) n kw = missing := by
  cases missing with
  | false => simp [PyCreate.missingOf]
  | true => simpa [PyCreate.missingOf] using h rfl

theorem view_of_viewObs (o : Outcome) (r : Fail.St × Option Err) (h : viewObs o = some (runObs r)) :
    o.view.map runObs = some (runObs r) := by
  simpa [viewObs, runObs] using h

theorem stepX_eq_model (sch : Schema) (props : Nat → Extra) (s : Fail.St) (op : Op) (inj : Option Inj)
    (hT : Tied sch s op) : stepX sch props s op inj = some (runObs (Fail.step sch s op inj)) := by
  cases op with
  | setattr c id col v => exact view_of_viewObs _ _ (setValueF_eq sch inj props _ c id col v hT)
  | set c id kw ex =>
    obtain ⟨hlt, hnd, hex⟩ := hT
    obtain ⟨hk, he⟩ := exKw_split' (clsOf sch c).cols.length kw ex hlt
    have hN := exKw_nodup (clsOf sch c).cols.length kw ex hlt hnd
    have hp := exKw_props (clsOf sch c).cols.length ex
    have := FailInhSet.C06_translated_inheritable_set_eq_model sch inj (propsOf (clsOf sch c).cols.length ex)
      { s with n := 0, log := [] } c id (kw ++ exKw (clsOf sch c).cols.length ex) hN (by
        intro e he' hn
        have hmem : e ∈ exKw (clsOf sch c).cols.length ex := by
          rcases List.mem_append.mp he' with h | h
          · exact absurd (hlt e h) hn
          · exact h
        simp only [exKw, List.mem_map, List.mem_range] at hmem
        obtain ⟨i, hi, rfl⟩ := hmem
        have : propsOf (clsOf sch c).cols.length ex ((clsOf sch c).cols.length + i) = ex[i] := by
          simp [propsOf, List.getD, hi]
        rw [this]
        exact hex _ (List.getElem_mem hi))
    rw [hk, he, hp] at this
    exact view_of_viewObs _ _ this
  | sync c id => exact view_of_viewObs _ _ (syncUpdateF_eq sch inj props _ c id hT)
  | create c m kw ex =>
    obtain ⟨hex, hlt, hnd, hm⟩ := hT
    subst hex
    have := PyCreate.C06_translated_create_eq_model (fun _ => none) (fun _ => !m) sch inj props { s with n := 0, log := [] } c none kw
      hnd hlt
    rw [kwFullOf_nodefault, missingOf_flag _ _ _ hm] at this
    exact view_of_viewObs _ _ this
  | createChild c pkw ckw =>
    have hT' : Fail.InhX.TiedInh sch s (.createChild c pkw ckw) := hT
    show (if _ then _ else _ : Option _).map runObs = _
    rw [if_pos hT', Fail.stepXInh_eq_model sch s _ inj hT']; rfl
  | createChain l =>
    have hT' : Fail.InhX.TiedInh sch s (.createChain l) := hT
    show (if _ then _ else _ : Option _).map runObs = _
    rw [if_pos hT', Fail.stepXInh_eq_model sch s _ inj hT']; rfl
  | destroy c id =>
    show (FailDX.destroyI sch inj _ _ c id _).map runObs = _
    rw [FailDX.C06_translated_inhdestroy_eq_model sch inj _ (fun c h => by
      cases hp : (clsOf sch c).parent with
      | none => exact absurd hp h
      | some p => rfl)]
    rfl

/-- the frame of the translated program of EVERY operation `stepXO` runs: the ghost counter of the interpreter
    (`memStep`, `sendStmt` count a completed step iff it changed the core) is exact -/
theorem stepXO_frame (sch : Schema) (props : Nat → Extra) (s : Fail.St) (op : Op) (inj : Option Inj) :
    OutFr (mkW sch inj props { s with n := 0, log := [] } 0 0 []) (stepXO sch props s op inj) := by
  cases op with
  | setattr c id col v => exact run_frameX noCall noCall_frame _ _ _ _ _ _ (mkW sch inj props _ c id _)
  | set c id kw ex => exact FailInhSet.inhSetF_frame (mkW sch inj _ _ c id _) _
  | sync c id => exact run_frameX noCall noCall_frame _ _ _ _ _ _ (mkW sch inj props _ c id _)
  | create c m kw ex => exact PyCreate.createF_frame _ _ sch inj props _ c _ none kw
  | createChild c pkw ckw => trivial
  | createChain l => trivial
  | destroy c id => trivial

/-- the state a translated run ends in is a frame successor of the state it started from -/
theorem stepXS_frame (sch : Schema) (props : Nat → Extra) (s : Fail.St) (op : Op) (inj : Option Inj)
    (s' : Fail.St) (r : Option Err) (h : stepXS sch props s op inj = some (s', r)) :
    Fr { s with n := 0, log := [] } s' := by
  by_cases hd : ∃ c id, op = .destroy c id
  · obtain ⟨c, id, rfl⟩ := hd
    have heq := FailDX.C06_translated_inhdestroy_eq_model sch inj (fun c => (clsOf sch c).parent.isSome) (fun c h => by
      cases hp : (clsOf sch c).parent with
      | none => exact absurd hp h
      | some p => rfl) (Fail.fuelOf { s with n := 0, log := [] }) c id { s with n := 0, log := [] }
    simp only [stepXS] at h
    rw [heq] at h
    simp only [Option.some.injEq] at h
    exact Fail.run_frame sch inj _ _ s' r h
  · by_cases hi : (∃ c pkw ckw, op = .createChild c pkw ckw) ∨ (∃ l, op = .createChain l)
    · rcases hi with ⟨c, pkw, ckw, rfl⟩ | ⟨l, rfl⟩
      · simp only [stepXS] at h
        split at h
        · rename_i hT; exact Fail.stepXInh_frame sch s _ inj hT s' r h
        · cases h
      · simp only [stepXS] at h
        split at h
        · rename_i hT; exact Fail.stepXInh_frame sch s _ inj hT s' r h
        · cases h
    have hf := stepXO_frame sch props s op inj
    have hv : (stepXO sch props s op inj).view = some (s', r) := by
      cases op <;> first | exact h | exact absurd ⟨_, _, rfl⟩ hd | exact absurd (.inl ⟨_, _, _, rfl⟩) hi | exact absurd (.inr ⟨_, rfl⟩) hi
    cases ho : stepXO sch props s op inj with
    | ret w v =>
      rw [ho] at hv hf
      simp only [Outcome.view] at hv
      split at hv
      · cases hv
      · simp only [Option.some.injEq, Prod.mk.injEq] at hv
        rw [← hv.1]; exact hf
    | exc w e =>
      rw [ho] at hv hf
      simp only [Outcome.view] at hv
      split at hv
      · cases hv
      · simp only [Option.some.injEq, Prod.mk.injEq] at hv
        rw [← hv.1]; exact hf
    | deadlock w => rw [ho] at hv; cases hv
    | stuck => rw [ho] at hv; cases hv

/-- a call of the translated program during which no completed step changed anything is a no-op -/
theorem stepX_quiet_noop (sch : Schema) (props : Nat → Extra) (s : Fail.St) (op : Op) (inj : Option Inj)
    (o : Obs) (r : Option Err) (h : stepX sch props s op inj = some (o, r)) (hq : QuietX sch props s op inj) :
    o.core = s.core := by
  unfold stepX at h
  unfold QuietX at hq
  cases hs : stepXS sch props s op inj with
  | none => rw [hs] at h; cases h
  | some p =>
    obtain ⟨s', r'⟩ := p
    rw [hs] at h hq
    simp only [Option.map_some, runObs, Option.some.injEq, Prod.mk.injEq] at h hq
    have hf := stepXS_frame sch props s op inj s' r' hs
    rw [← h.1]
    exact hf.2 hq

end SqlObjVerif.PyFail
