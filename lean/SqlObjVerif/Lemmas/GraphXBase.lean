import SqlObjVerif.Model.GraphX
import SqlObjVerif.Lemmas.Graph
/-!
Symbolic execution of the TRANSLATED `destroySelf` (C12), part 1: generic lemmas about the PyDestroy embedding (list
values, loops over list values), the projections of the interface record `gIface` and of its `getAttr` (the record and
`gGetAttr` stay FOLDED in proofs), the simp set `drun`, and the first loop: the victim's own related joins
(`for0_loop`: it computes the fold of `delOwnLinks`).
-/
namespace SqlObjVerif.PyDestroy
variable {H W : Type}

@[simp] theorem toList_ofList (l : List (Val H)) : (Val.ofList l).toList = some l := by
  induction l with
  | nil => rfl
  | cons v l ih => simp [Val.ofList, Val.toList, ih]

@[simp] theorem isListVal_ofList (l : List (Val H)) : isListVal (Val.ofList l) = true := by
  induction l with
  | nil => rfl
  | cons v l ih => simpa [Val.ofList, isListVal] using ih

@[simp] theorem vlen_ofList (l : List (Val H)) : vlen (Val.ofList l) = l.length := by
  induction l with
  | nil => rfl
  | cons v l ih => simp [Val.ofList, vlen, ih]

@[simp] theorem lenOf_ofList (l : List (Val H)) : lenOf (Val.ofList l) = some l.length := by
  cases l with
  | nil => rfl
  | cons a l => simp [Val.ofList, lenOf, isListVal, vlen]

@[simp] theorem vlSnoc_ofList (v : Val H) (l : List (Val H)) : vlSnoc v (Val.ofList l) = Val.ofList (l ++ [v]) := by
  induction l with
  | nil => rfl
  | cons a l ih => simp [Val.ofList, vlSnoc, ih]

@[simp] theorem iterOf_ofList [DecidableEq H] (I : Iface H W) (w : W) (l : List (Val H)) : iterOf I w (Val.ofList l) = some l := by
  cases l with
  | nil => rfl
  | cons a l => simp [Val.ofList, iterOf, Val.toList]

@[simp] theorem liveAt_ofList [DecidableEq H] (I : Iface H W) (w : W) (l : List (Val H)) (a : Val H) : liveAt I w (Val.ofList l) a = true := by
  cases l <;> rfl

@[simp] theorem pyBool_bool (b : Bool) : pyBool (.bool b : Val H) = b := rfl
@[simp] theorem pyBool_int (n : Nat) : pyBool (.int n : Val H) = (n != 0) := rfl
@[simp] theorem pyBool_none : pyBool (.none : Val H) = false := rfl
@[simp] theorem pyBool_nil : pyBool (.nil : Val H) = false := rfl
@[simp] theorem pyBool_cons (a t : Val H) : pyBool (.cons a t) = true := rfl
@[simp] theorem pyBool_dict_nil : pyBool (.dict .nil : Val H) = false := rfl
@[simp] theorem pyBool_dict_cons (a t : Val H) : pyBool (.dict (.cons a t)) = true := rfl
@[simp] theorem pyBool_ofList (l : List (Val H)) : pyBool (Val.ofList l) = !l.isEmpty := by cases l <;> rfl

@[simp] theorem Res.seq_norm (st : St H W) (k : St H W → Res H W) : (Res.norm st).seq k = k st := by rw [Res.seq]
@[simp] theorem Res.seq_cont (st : St H W) (k : St H W → Res H W) : (Res.cont st).seq k = .cont st := by simp only [Res.seq]
@[simp] theorem Res.seq_brk (st : St H W) (k : St H W → Res H W) : (Res.brk st).seq k = .brk st := by simp only [Res.seq]
@[simp] theorem Res.seq_ret (st : St H W) (v : Val H) (k : St H W → Res H W) : (Res.ret st v).seq k = .ret st v := by simp only [Res.seq]
@[simp] theorem Res.seq_exc (st : St H W) (e : Exc) (k : St H W → Res H W) : (Res.exc st e).seq k = .exc st e := by simp only [Res.seq]
@[simp] theorem Res.seq_stuck (k : St H W → Res H W) : (Res.stuck : Res H W).seq k = .stuck := by simp only [Res.seq]

theorem exec_cons [DecidableEq H] (I : Iface H W) (st : St H W) (s : Stmt) (rest : Block) :
    Block.exec I st (.cons s rest) = (s.exec I st).seq fun st' => rest.exec I st' := by rw [Block.exec]

@[simp] theorem exec_nil [DecidableEq H] (I : Iface H W) (st : St H W) : Block.exec I st .nil = .norm st := by rw [Block.exec]

theorem loopStep_ofList [DecidableEq H] (I : Iface H W) (l : List (Val H)) (x : Nat) (body : St H W → Res H W) :
    loopStep I (Val.ofList l) x body = fun st a => body (st.setVar x a) := by
  funext st a
  simp [loopStep]

end SqlObjVerif.PyDestroy

namespace SqlObjVerif.Graph
open SqlObjVerif.PyDestroy
open SqlObjVerif.PyDestroy.Extracted

section iface
variable (S : Schema) (lz : Nat → Bool) (fdc : Nat → Nat → R PVal) (rec : DB → Nat → Nat → Res) (self : PVal)
@[simp] theorem gIface_self : (gIface S lz fdc rec self).self = self := rfl
@[simp] theorem gIface_getAttr : (gIface S lz fdc rec self).getAttr = gGetAttr S lz := rfl
@[simp] theorem gIface_setAttr : (gIface S lz fdc rec self).setAttr = gSetAttr := rfl
@[simp] theorem gIface_glob : (gIface S lz fdc rec self).glob = gGlob := rfl
@[simp] theorem gIface_isinstance : (gIface S lz fdc rec self).isinstance = gIsinstance := rfl
@[simp] theorem gIface_eqOver : (gIface S lz fdc rec self).eqOver = gEqOver := rfl
@[simp] theorem gIface_query : (gIface S lz fdc rec self).query = gQuery S := rfl
@[simp] theorem gIface_fn (w : XW) : (gIface S lz fdc rec self).fn w = gFn fdc := rfl
@[simp] theorem gIface_iter : (gIface S lz fdc rec self).iter = gIter := rfl
@[simp] theorem gIface_live : (gIface S lz fdc rec self).live = gLive := rfl
@[simp] theorem gIface_call : (gIface S lz fdc rec self).call = gCall lz rec := rfl
@[simp] theorem gIface_callFn : (gIface S lz fdc rec self).callFn = fun _ _ _ => .stuck := rfl
end iface

section attrs
variable (S : Schema) (lz : Nat → Bool) (w : XW)
@[simp] theorem ga_inst_id (k j) : gGetAttr S lz w (.obj (.inst k j)) (.str "id") = .ok (.int j) := by simp [gGetAttr]
@[simp] theorem ga_inst_class (k j) : gGetAttr S lz w (.obj (.inst k j)) (.str "__class__") = .ok (.obj (.cls k)) := by simp [gGetAttr]
@[simp] theorem ga_inst_conn (k j) : gGetAttr S lz w (.obj (.inst k j)) (.str "_connection") = .ok (.obj .conn) := by simp [gGetAttr]
@[simp] theorem ga_inst_meta (k j) : gGetAttr S lz w (.obj (.inst k j)) (.str "sqlmeta") = .ok (.obj (.imeta k j)) := by simp [gGetAttr]
@[simp] theorem ga_cls_meta (k) : gGetAttr S lz w (.obj (.cls k)) (.str "sqlmeta") = .ok (.obj (.cmeta k)) := by simp [gGetAttr]
@[simp] theorem ga_cls_name (k) : gGetAttr S lz w (.obj (.cls k)) (.str "__name__") = .ok (.obj (.cname k)) := by simp [gGetAttr]
@[simp] theorem ga_cls_q (k) : gGetAttr S lz w (.obj (.cls k)) (.str "q") = .ok (.obj (.qns k)) := by simp [gGetAttr]
@[simp] theorem ga_cmeta_joins (k) : gGetAttr S lz w (.obj (.cmeta k)) (.str "joins") =
    .ok (Val.ofList ((S.cls k).joins.map fun j => .obj (.join j))) := by simp [gGetAttr]
@[simp] theorem ga_cmeta_cols (k) : gGetAttr S lz w (.obj (.cmeta k)) (.str "columnList") =
    .ok (Val.ofList ((List.range (S.cls k).fks.length).map fun f => .obj (.col k f))) := by simp [gGetAttr]
@[simp] theorem ga_imeta_lazy (k j) : gGetAttr S lz w (.obj (.imeta k j)) (.str "lazyUpdate") = .ok (.bool (lz k)) := by simp [gGetAttr]
@[simp] theorem ga_join_tbl (j) : gGetAttr S lz w (.obj (.join j)) (.str "intermediateTable") = .ok (.obj (.tbl j.table)) := by simp [gGetAttr]
@[simp] theorem ga_join_jc (j) : gGetAttr S lz w (.obj (.join j)) (.str "joinColumn") = .ok (.obj (.lcol j.ownFirst)) := by simp [gGetAttr]
@[simp] theorem ga_join_oc (j) : gGetAttr S lz w (.obj (.join j)) (.str "otherColumn") = .ok (.obj (.lcol (!j.ownFirst))) := by simp [gGetAttr]
@[simp] theorem ga_join_ocn (j) : gGetAttr S lz w (.obj (.join j)) (.str "otherClassName") = .ok (.obj (.cname j.other)) := by simp [gGetAttr]
@[simp] theorem ga_col_name (k f) : gGetAttr S lz w (.obj (.col k f)) (.str "name") = .ok (.obj (.name f)) := by simp [gGetAttr]
@[simp] theorem ga_col_cascade (k f) : gGetAttr S lz w (.obj (.col k f)) (.str "cascade") = .ok (polVal (S.fk k f).policy) := by simp [gGetAttr]
@[simp] theorem ga_col_fk (k f) : gGetAttr S lz w (.obj (.col k f)) (.str "foreignKey") = .ok (.obj (.cname (S.fk k f).target)) := by simp [gGetAttr]
@[simp] theorem ga_qns (k f) : gGetAttr S lz w (.obj (.qns k)) (.obj (.name f)) = .ok (.obj (.field k f)) := by simp [gGetAttr]
@[simp] theorem ga_conn_cache : gGetAttr S lz w (.obj .conn) (.str "cache") = .ok (.obj .cache) := by simp [gGetAttr]
@[simp] theorem ga_inst_col (k j f) : gGetAttr S lz w (.obj (.inst k j)) (.obj (.name f)) =
    instCol w k j f := by simp [gGetAttr]
end attrs

@[simp] theorem gEqOver_field (k f : Nat) (v : PVal) :
    gEqOver (.obj (.field k f)) v = some (.app "==" (.cons (.obj (.field k f)) (.cons v .nil))) := rfl
@[simp] theorem gEqOver_cname (k : Nat) (v : PVal) : gEqOver (.obj (.cname k)) v = none := rfl
@[simp] theorem gEqOver_int (n : Nat) (v : PVal) : gEqOver (.int n) v = none := rfl
@[simp] theorem gEqOver_optVal (x : Option Nat) (v : PVal) : gEqOver (optVal x) v = none := by cases x <;> rfl
@[simp] theorem polVal_eq_true (p : Policy) : (polVal p = (.bool true : PVal)) ↔ p = .cascade := by cases p <;> simp [polVal]
@[simp] theorem polVal_eq_false (p : Policy) : (polVal p = (.bool false : PVal)) ↔ p = .restrict := by cases p <;> simp [polVal]
@[simp] theorem polVal_eq_null (p : Policy) : (polVal p = (.str "null" : PVal)) ↔ p = .setNull := by cases p <;> simp [polVal]
@[simp] theorem polVal_eq_none (p : Policy) : (polVal p = (.none : PVal)) ↔ p = .keep := by cases p <;> simp [polVal]
@[simp] theorem gEqOver_polVal (p : Policy) (v : PVal) : gEqOver (polVal p) v = none := by cases p <;> rfl
@[simp] theorem optVal_eq_int (x : Option Nat) (i : Nat) : (optVal x = (.int i : PVal)) ↔ x = some i := by
  cases x <;> simp [optVal]

macro "drun" : tactic => `(tactic|
  simp [Block.exec, Stmt.exec, Cond.eval, Expr.eval, Exprs.eval, St.setVar, St.setOpt, afterCall, zipKw,
        starKwOf, Const.val, gIsinstance, gGlob, *])

theorem gCall_delete (lz rec) (w : XW) (tb : Nat) (b : Bool) (i : Nat) :
    gCall lz rec w (.obj .conn) "query"
      [.app "%" (.cons (.str "DELETE FROM %s WHERE %s=%d") (.cons (.obj (.tbl tb)) (.cons (.obj (.lcol b)) (.cons (.int i) .nil))))] [] =
    .ret { w with db := { w.db with links := delLinks tb b i w.db.links } } .none := by
  simp [gCall, Extracted.Graph.destroyTemplate]

/-- the loop over the victim's own joins -/
theorem for0_loop (S : Schema) (lz rec) (c i : Nat) (js : List RJ) :
    ∀ (w : XW) (env : Env Hnd), ∃ env',
      forLoop (fun st a => destroySelf_for0.exec (dIface S lz rec c i) (st.setVar 2 a)) (js.map fun j => .obj (.join j)) ⟨w, env⟩ =
        .norm ⟨{ w with db := { w.db with links := js.foldl (fun ls j => delLinks j.table j.ownFirst i ls) w.db.links } }, env'⟩ ∧
      ∀ x, x ≠ 2 → x ≠ 3 → env' x = env x := by
  induction js with
  | nil => intro w env; exact ⟨env, rfl, fun _ _ _ => rfl⟩
  | cons j js ih =>
    intro w env
    simp only [List.map_cons, forLoop, List.foldl_cons]
    have : destroySelf_for0.exec (dIface S lz rec c i) (St.setVar ⟨w, env⟩ 2 (.obj (.join j))) =
        .norm ⟨{ w with db := { w.db with links := delLinks j.table j.ownFirst i w.db.links } },
               (env.put 2 (.obj (.join j))).put 3 (.app "%" (.cons (.str "DELETE FROM %s WHERE %s=%d") (.cons (.obj (.tbl j.table)) (.cons (.obj (.lcol j.ownFirst)) (.cons (.int i) .nil)))))⟩ := by
      unfold destroySelf_for0
      drun
      simp [gCall_delete, Val.ofList]
    rw [this]
    obtain ⟨env', h1, h2⟩ := ih { w with db := { w.db with links := delLinks j.table j.ownFirst i w.db.links } } _
    refine ⟨env', h1, ?_⟩
    intro x hx2 hx3
    rw [h2 x hx2 hx3]
    simp [hx2, hx3]

end SqlObjVerif.Graph
