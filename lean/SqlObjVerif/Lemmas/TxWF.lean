import SqlObjVerif.Lemmas.Tx
/-!
`ConnWF` of both connections (the representation invariant of the translated `commit` / `rollback` proofs,
`Lemmas/TxXLoop.lean`, `Lemmas/TxXCommit.lean`) is preserved by EVERY step of the hand model `Model/Tx.lean` —
unlike `Inv` (Lemmas/Tx.lean) this needs no `good` hypothesis.
-/
namespace SqlObjVerif.Tx

/-- the representation invariant the translated `commit` / `rollback` need: both connections well-formed -/
def WF2 (s : St) : Prop := ConnWF s.p ∧ ConnWF s.t

theorem WF2.conn {s : St} (h : WF2 s) (sd : Side) : ConnWF (s.conn sd) := by
  cases sd
  · exact h.1
  · exact h.2

theorem WF2.setConn {s : St} (h : WF2 s) (sd : Side) (c : Conn) (hc : ConnWF c) : WF2 (s.setConn sd c) := by
  cases sd
  · exact ⟨hc, h.2⟩
  · exact ⟨h.1, hc⟩

theorem WF2.init (dc : Bool) : WF2 (init dc) := ⟨ConnWF.empty, ConnWF.empty⟩

theorem opGet_wf {s : St} (hi : WF2 s) (sd : Side) (k : Key) (b : Bool) : WF2 (opGet s sd k b).1 := by
  unfold opGet
  have hwf := (hi.conn sd).cacheGet s.dc k
  split
  · exact hi
  · split
    · rename_i j c' heq
      have e2 : ((s.conn sd).cacheGet s.dc k).2 = c' := by rw [heq]
      rw [e2] at hwf
      exact hi.setConn sd _ (hwf.modify j _ rfl (fun h col => hwf.loaded j col h) (fun h => hwf.fresh j h))
    · rename_i c' heq
      have e2 : ((s.conn sd).cacheGet s.dc k).2 = c' := by rw [heq]
      rw [e2] at hwf
      split
      · exact hi.setConn sd _ hwf
      · split
        · exact hi.setConn sd _ hwf
        · rename_i row hv
          exact hi.setConn sd _ ((hwf.alloc k row).put s.dc k c'.n (by simp) (by simp))

theorem opRead_wf {s : St} (hi : WF2 s) (sd : Side) (j : Nat) (col : Col) : WF2 (opRead s sd j col).1 := by
  unfold opRead
  have hwf := hi.conn sd
  split
  · exact hi
  · split
    · exact hi
    · split
      · exact hi.setConn sd _ (hwf.modify j _ rfl (fun h c => hwf.loaded j c h) (fun h => hwf.fresh j h))
      · split
        · exact hi.setConn sd _ (hwf.modify j _ rfl (fun h c => hwf.loaded j c h) (fun h => hwf.fresh j h))
        · rename_i hlt _ _ _ row hv
          refine hi.setConn sd _ (hwf.modify j _ rfl ?_ ?_)
          · intro h; simp [Inst.load] at h
          · intro h; omega

theorem opExpire_wf {s : St} (hi : WF2 s) (sd : Side) (j : Nat) : WF2 (opExpire s sd j).1 := by
  unfold opExpire
  have hwf := hi.conn sd
  split
  · exact hi
  · refine hi.setConn sd _ ((hwf.modify j _ rfl ?_ ?_).evict _)
    · intro _ c; rfl
    · intro _; rfl

theorem opDrop_wf {s : St} (hi : WF2 s) (sd : Side) (j : Nat) : WF2 (opDrop s sd j).1 := by
  unfold opDrop
  have hwf := hi.conn sd
  split
  · exact hi
  · exact hi.setConn sd _ (hwf.modify j _ rfl (fun h c => hwf.loaded j c h) (fun h => hwf.fresh j h))

theorem selStep_wf (sd : Side) {acc : St × List (Nat × Key)} (hi : WF2 acc.1) (k : Key) : WF2 (selStep sd acc k).1 := by
  unfold selStep
  have hwf := (hi.conn sd).cacheGet acc.1.dc k
  have hhit := Conn.cacheGet_hit (hi.conn sd) acc.1.dc k
  split
  · exact hi
  · rename_i row hv
    split
    · rename_i j c' heq
      have e2 : ((acc.1.conn sd).cacheGet acc.1.dc k).2 = c' := by rw [heq]
      have e1 : ((acc.1.conn sd).cacheGet acc.1.dc k).1 = some j := by rw [heq]
      rw [e2] at hwf
      refine hi.setConn sd _ (hwf.modify j _ rfl ?_ ?_)
      · intro h; simp [Inst.load] at h
      · intro h; have := (hhit j e1).1; rw [← e2] at h; simp at h; omega
    · rename_i c' heq
      have e2 : ((acc.1.conn sd).cacheGet acc.1.dc k).2 = c' := by rw [heq]
      rw [e2] at hwf
      exact hi.setConn sd _ ((hwf.alloc k row).put acc.1.dc k c'.n (by simp) (by simp))

theorem selFold_wf (sd : Side) (l : List Key) {acc : St × List (Nat × Key)} (hi : WF2 acc.1) :
    WF2 (l.foldl (selStep sd) acc).1 := by
  induction l generalizing acc with
  | nil => exact hi
  | cons k l ih => simp only [List.foldl_cons]; exact ih (selStep_wf sd hi k)

theorem opSelect_wf {s : St} (hi : WF2 s) (sd : Side) (cls : Nat) : WF2 (opSelect s sd cls).1 := by
  unfold opSelect
  split
  · exact hi
  · exact selFold_wf sd _ hi

theorem opCreate_wf {s : St} (hi : WF2 s) (sd : Side) (k : Key) (row : Row) : WF2 (opCreate s sd k row).1 := by
  unfold opCreate
  cases sd with
  | P =>
    simp only
    split
    · exact hi
    · split
      · exact hi
      · exact ⟨(hi.1.alloc k row).put s.dc k s.p.n (by simp) (by simp), hi.2⟩
  | T =>
    simp only
    split
    · exact hi
    · split
      · exact ⟨hi.1, hi.2⟩
      · exact ⟨hi.1, (hi.2.alloc k row).put s.dc k s.t.n (by simp) (by simp)⟩

theorem opSet_wf {s : St} (hi : WF2 s) (sd : Side) (j : Nat) (col : Col) (v : Val) : WF2 (opSet s sd j col v).1 := by
  unfold opSet
  split
  · exact hi
  · rename_i hlt
    cases sd with
    | P =>
      simp only
      split
      · exact hi
      · refine ⟨?_, hi.2⟩
        show ConnWF (s.p.modify j fun i => { i with cached := upd i.cached col (some v), loaded := true })
        exact hi.1.modify j _ rfl (by intro h; simp at h) (by intro h; simp [St.conn] at hlt; omega)
    | T =>
      simp only
      split
      · exact hi
      · refine ⟨hi.1, ?_⟩
        show ConnWF (s.t.modify j fun i => { i with cached := upd i.cached col (some v), loaded := true })
        exact hi.2.modify j _ rfl (by intro h; simp at h) (by intro h; simp [St.conn] at hlt; omega)

theorem opDestroy_wf {s : St} (hi : WF2 s) (sd : Side) (j : Nat) : WF2 (opDestroy s sd j).1 := by
  unfold opDestroy
  split
  · exact hi
  · cases sd with
    | P =>
      simp only
      split
      · exact hi
      · exact ⟨(hi.1.modify j _ rfl (fun h c => hi.1.loaded j c h) (fun h => hi.1.fresh j h)).evict _, hi.2⟩
    | T =>
      simp only
      split
      · exact ⟨hi.1, hi.2⟩
      · exact ⟨hi.1, (hi.2.modify j _ rfl (fun h c => hi.2.loaded j c h) (fun h => hi.2.fresh j h)).evict _⟩

/-- `ConnWF` of both connections is preserved by EVERY step of the hand model (no `good` needed) -/
theorem step_wf {s : St} (hi : WF2 s) (op : Op) : WF2 (step s op).1 := by
  cases op with
  | create sd k row => exact opCreate_wf hi sd k row
  | get sd k b => exact opGet_wf hi sd k b
  | read sd j c => exact opRead_wf hi sd j c
  | set sd j c v => exact opSet_wf hi sd j c v
  | destroy sd j => exact opDestroy_wf hi sd j
  | expire sd j => exact opExpire_wf hi sd j
  | select sd cls => exact opSelect_wf hi sd cls
  | drop sd j => exact opDrop_wf hi sd j
  | weaken sd k => exact hi.setConn sd _ ((hi.conn sd).weaken k)
  | purge sd cls => exact hi.setConn sd _ ((hi.conn sd).purge cls)
  | commit close =>
    simp only [step, opCommit]
    split
    · exact hi
    · exact ⟨hi.1.expireWhere _ _, hi.2⟩
  | rollback =>
    simp only [step, opRollback]
    split
    · exact hi
    · exact ⟨hi.1, hi.2.expireWhere _ _⟩
  | begin =>
    simp only [step, opBegin]
    split
    · exact ⟨hi.1, hi.2⟩
    · exact hi

theorem run_wf {s : St} (hi : WF2 s) (ops : List Op) : WF2 (run s ops) := by
  induction ops generalizing s with
  | nil => exact hi
  | cons op ops ih => exact ih (step_wf hi op)

end SqlObjVerif.Tx
