import SqlObjVerif.Lemmas.VersionXCCols
/-!
The translated `Versioning.__init__ / createTable / createVersionTable / __addtoclass__` against their hand-written reading.
-/
namespace SqlObjVerif.VersionC
open SqlObjVerif.PyVer
open SqlObjVerif.PyVer.Extracted

/-- **`Versioning.__init__` as translated**: `extraCols` is the dict given, `{}` when none / an empty one was given -/
theorem initX_eq (X : CX) (w : CW) (e : Val) :
    initX X w e = .ret (w.setAttr vobj "extraCols" (if pyBool e then e else .dictv .nil)) .none [e] := by
  unfold initX
  simp only [initProg, init_nlocals, vobj]
  by_cases h : pyBool e = true <;> vcwith [vdMk]

/-- **`Versioning.createTable` as translated** (the CreateTableSignal listener): asserts it is called for its own class
    and appends the bound `createVersionTable` to `post_funcs`; the world does not change -/
theorem createTableX_eq (X : CX) (w : CW) (c : Nat) (conn extra post : Val) (hs : w.attrs vobj "soClass" = some (.cls c))
    (hp : isListVal post = true) :
    createTableX X w (.cls c) conn extra post
      = .ret w .none [.cls c, conn, extra, vAppend post (meth vobj "createVersionTable")] := by
  unfold createTableX
  simp only [createTableProg, createTable_nlocals, vobj] at *
  vcwith [appendRes, meth]

theorem createTableX_other (X : CX) (w : CW) (c c' : Nat) (conn extra post : Val)
    (hs : w.attrs vobj "soClass" = some (.cls c)) (hne : c' ≠ c) :
    createTableX X w (.cls c') conn extra post = .exc w ⟨.assertion, 0⟩ := by
  unfold createTableX
  simp only [createTableProg, createTable_nlocals, vobj] at *
  vcwith [hne]

/-- **`Versioning.createVersionTable` as translated**: `versionClass.createTable(ifNotExists=True, connection=conn)` -/
theorem createVersionTableX_eq (X : CX) (w : CW) (vc : Nat) (cls conn : Val)
    (hv : w.attrs vobj "versionClass" = some (.cls vc)) :
    createVersionTableX X w cls conn
      = .ret { w with created := w.created ++ [(.cls vc, conn)] } .none [cls, conn] := by
  unfold createVersionTableX
  simp only [createVersionTableProg, createVersionTable_nlocals, vobj] at *
  vcwith [hv]

/-- the attributes `__addtoclass__` starts the version class with -/
def baseAttrs (X : CX) (c : Nat) (e : Val) : Val :=
  kwBody [("dateArchived", newcol "DateTimeCol" [] (kwBody [("default", glob "datetime.now")])),
          ("master", newcol "ForeignKey" [.str (X.cname c)] .nil),
          ("masterClass", .cls c),
          ("extraCols", .dictv e)]

/-- the attributes of the version class: the base ones, a copy of every column definition of the master and of its
    ancestors without `alternateID` / `unique`, then the extra columns -/
def versionAttrs (X : CX) (w : CW) (n c : Nat) (e : Val) : Val :=
  vdUpdate (versionCols X w n c (baseAttrs X c e)) e

/-- the world after `__addtoclass__` -/
def addedWorld (X : CX) (w : CW) (n c : Nat) (name e : Val) : CW :=
  let vc : Val := .cls (100 + w.classes.length)
  let w1 := (w.setAttr vobj "name" name).setAttr vobj "soClass" (.cls c)
  let w2 : CW := { w1 with classes := w.classes ++ [(.str (X.cname c ++ "Versions"), .cons (glob "Version") .nil,
                                                    .dictv (versionAttrs X w n c e))] }
  let w3 := w2.setAttr vobj "versionClass" vc
  let w4 := match X.hasConn c with
    | some x => w3.setAttr vc "_connection" x
    | none => w3
  { w4 with listeners := w.listeners ++ [(meth vobj "createTable", .cls c, glob "events.CreateTableSignal"),
                                         (meth vobj "rowUpdate", .cls c, glob "events.RowUpdateSignal")] }

theorem versionCols_kw (X : CX) (w w' : CW) (h : w'.kw = w.kw) : ∀ (n c : Nat) (cols : Val),
    versionCols X w' n c cols = versionCols X w n c cols := by
  have hs : ∀ (c : Nat) (ds : List ColDef) (j : Nat) (cols : Val), colSteps w' c j ds cols = colSteps w c j ds cols := by
    intro c ds
    induction ds with
    | nil => intro j cols; rfl
    | cons d ds ih => intro j cols; simp [colSteps, colStep, h, ih]
  intro n
  induction n with
  | zero => intro c cols; rfl
  | succ n ih => intro c cols; simp only [versionCols, hs]; cases X.parent c <;> simp [ih]

@[simp] theorem setAttr_attrs (w : CW) (o : Val) (n : String) (v : Val) (o' : Val) (n' : String) :
    (w.setAttr o n v).attrs o' n' = if o' = o ∧ n' = n then some v else w.attrs o' n' := rfl
@[simp] theorem setAttr_kw (w : CW) (o : Val) (n : String) (v : Val) : (w.setAttr o n v).kw = w.kw := rfl
@[simp] theorem setAttr_listeners (w : CW) (o : Val) (n : String) (v : Val) : (w.setAttr o n v).listeners = w.listeners := rfl
@[simp] theorem setAttr_classes (w : CW) (o : Val) (n : String) (v : Val) : (w.setAttr o n v).classes = w.classes := rfl
@[simp] theorem setAttr_created (w : CW) (o : Val) (n : String) (v : Val) : (w.setAttr o n v).created = w.created := rfl

/-- **`Versioning.__addtoclass__` as translated** -/
theorem addtoclassX_eq (X : CX) (w : CW) (n c : Nat) (name e : Val) (hd : depthOK X n c)
    (he : w.attrs vobj "extraCols" = some (.dictv e)) :
    addtoclassX X n w (.cls c) name = .ret (addedWorld X w n c name e) .none [.cls c, name] := by
  have hg := getColumnsN_eq X ((w.setAttr vobj "name" name).setAttr vobj "soClass" (.cls c)) n c (baseAttrs X c e) hd
  rw [versionCols_kw X w ((w.setAttr vobj "name" name).setAttr vobj "soClass" (.cls c)) rfl] at hg
  unfold addtoclassX addedWorld versionAttrs
  simp only [addtoclassProg, addtoclass_nlocals, vobj, baseAttrs, kwBody, glob] at *
  cases hc : X.hasConn c with
  | none =>
    vcwith [knownGlobals, kwBody, vdMk, vdSet, glob, writeBack, concatVal, updateRes]
  | some x =>
    vcwith [knownGlobals, kwBody, vdMk, vdSet, glob, writeBack, concatVal, updateRes]

theorem vdKeys_vdDel_sub (k : Val) (b : Val) : ∀ x, x ∈ vdKeys (vdDel k b) → x ∈ vdKeys b := by
  fun_induction vdDel k b <;> simp_all [vdKeys]

theorem vdHas_iff_mem (k : Val) (b : Val) : vdHas k b = true ↔ k ∈ vdKeys b := by
  unfold vdHas
  fun_induction vdGet k b <;> simp_all [vdKeys]
  all_goals (intro h; simp_all)

theorem vdKeys_vdDel_nodup (k : Val) (b : Val) (h : (vdKeys b).Nodup) : (vdKeys (vdDel k b)).Nodup ∧ k ∉ vdKeys (vdDel k b) := by
  fun_induction vdDel k b <;> simp_all [vdKeys]
  rename_i k' v t hne ih
  exact ⟨fun hm => h.1 (vdKeys_vdDel_sub k t k' hm), fun e => hne e.symm⟩


theorem delIf_nodup (k : String) (b : Val) (h : (vdKeys b).Nodup) :
    (vdKeys (delIf k b)).Nodup ∧ vdHas (.str k) (delIf k b) = false ∧ ∀ x, x ∈ vdKeys (delIf k b) → x ∈ vdKeys b := by
  unfold delIf
  by_cases hh : vdHas (.str k) b = true
  · have := vdKeys_vdDel_nodup (.str k) b h
    simp only [hh, if_true]
    refine ⟨this.1, ?_, vdKeys_vdDel_sub _ _⟩
    cases hv : vdHas (Val.str k) (vdDel (Val.str k) b)
    · rfl
    · exact absurd ((vdHas_iff_mem _ _).mp hv) this.2
  · simp only [hh, if_false]
    exact ⟨h, by simpa using hh, fun _ hx => hx⟩

/-- the copy of a column definition carries neither `unique` nor `alternateID` -/
theorem stripKw_clean (b : Val) (h : (vdKeys b).Nodup) :
    vdHas (.str "unique") (stripKw b) = false ∧ vdHas (.str "alternateID") (stripKw b) = false := by
  have h1 := delIf_nodup "alternateID" b h
  have h2 := delIf_nodup "unique" (delIf "alternateID" b) h1.1
  refine ⟨h2.2.1, ?_⟩
  cases hv : vdHas (Val.str "alternateID") (stripKw b)
  · rfl
  · have := h2.2.2 _ ((vdHas_iff_mem _ _).mp hv)
    have h3 := h1.2.1
    rw [(vdHas_iff_mem _ _).mpr this] at h3
    exact absurd h3 (by simp)

end SqlObjVerif.VersionC
