import SqlObjVerif.Lemmas.FailInhSetXEager
import SqlObjVerif.Lemmas.FailInhSetXLazy
/-!
C06 — the TRANSLATED `SQLObject.set` with TRANSLATED setters of its extra keywords, and the TRANSLATED
`InheritableSQLObject.set` (+ `setfunc` + the parent's `_SO_setValue`) = the hand-compiled tree
`Fail.setProg sch c id kw ex .done` under the same schedule, for every schema, state, keyword dict, injection and
validator oracle; closed witnesses of `Props/C06.lean` replayed through the translated code by kernel evaluation.
-/
namespace SqlObjVerif.FailInhSet
open SqlObjVerif.PyInhSet.Extracted
open SqlObjVerif.PyMain (PDict PV ofVal)
open SqlObjVerif.PyFail (FW Outcome setFWith propCallT setValueF mkW vqOf vqEx kwPV viewObs runObs obs SimCall)
open SqlObjVerif.Fail (Err Schema Inj In clsOf Extra)

theorem simCall_propCallT : SimCall (propCallT parentSetT) :=
  fun w k pv rest hcr hvq hok => propCallT_sim w k pv rest hcr hvq hok

/-- **(b)** `SQLObject.set(self, _suppress_set_sig=b, **pd)` as translated, the setters of the extra keywords as
    translated (`propCallT parentSetT`: `_SO_setValue` for a ForeignKey given by object, `setfunc` + the ancestor's
    `_SO_setValue` for an inherited column), eager or lazy class, any mix of keywords, both values of the flag
    = the hand-compiled tree; `kw` = the column keywords, `ex` = the kinds of the others, in dict order -/
theorem C06_translated_set_translated_setters_eq_model (b : Bool) (sch : Schema) (inj : Option Inj) (props : Nat → Extra)
    (s : Fail.St) (c id : Nat) (pd : List (Nat × In)) (hnd : (pd.map (·.1)).Nodup)
    (hexok : ∀ e ∈ pd, ¬ e.1 < (clsOf sch c).cols.length → exOk sch c (props e.1)) :
    viewObs (setFWith (propCallT parentSetT) b
        (mkW sch inj props s c id
          (vqOf (pd.filter fun e => e.1 < (clsOf sch c).cols.length) ++
           vqEx ((pd.filter fun e => ¬ e.1 < (clsOf sch c).cols.length).map fun e => props e.1)))
        (kwPV pd)) =
      some (runObs (Fail.run sch inj
        (Fail.setProg sch c id (pd.filter fun e => e.1 < (clsOf sch c).cols.length)
          ((pd.filter fun e => ¬ e.1 < (clsOf sch c).cols.length).map fun e => props e.1) .done) s)) := by
  have hex : ∀ e ∈ pd.filter (fun e => ¬ e.1 < (clsOf sch c).cols.length), exOk sch c (props e.1) := by
    intro e he
    rw [List.mem_filter] at he
    exact hexok e he.1 (by simpa using he.2)
  cases hl : (clsOf sch c).lazy
  · exact PyFail.setT_extras_eager_core _ simCall_propCallT b sch inj props s c id pd _ _ hl hnd
      (PyFail.filter_cols_eq _ pd) (PyFail.filter_extras_eq _ pd) hex
  · exact PyFail.setT_extras_lazy_core _ simCall_propCallT b sch inj props s c id pd _ _ hl hnd
      (PyFail.filter_cols_eq _ pd) (PyFail.filter_extras_eq _ pd) hex

theorem viewObs_dropVal (o : Outcome) : viewObs (dropVal o) = viewObs o := by
  cases o <;> rfl

/-- the translated `InheritableSQLObject.set` hands everything to the translated `SQLObject.set`, suppressing the
    signal iff the instance has a parent -/
theorem inhSetF_eq (w : FW) (kw : PDict) :
    inhSetF w kw = dropVal (setFWith (propCallT parentSetT) (clsOf w.sch w.c).parent.isSome w kw) := by
  unfold inhSetF inhSetProg inhSet_nlocals
  cases hp : (clsOf w.sch w.c).parent with
  | none =>
    ihs [hp]
    generalize setFWith (propCallT parentSetT) false w kw = o
    cases o <;> simp [dropVal]
  | some p =>
    ihs [hp]
    generalize setFWith (propCallT parentSetT) true w kw = o
    cases o <;> simp [dropVal]

/-- **(c)** the translated `InheritableSQLObject.set(**pd)` on an instance of any class of an inheritable hierarchy
    (child: `_suppress_set_sig=True`; root: plain call) = the hand-compiled tree: the child's own columns `kw` by ONE
    UPDATE of the child's row, every inherited column (`.parentAttr p col v` among `ex`) by the translated `setfunc`
    chain and the declaring ancestor's translated `_SO_setValue` (validation, UPDATE of the ancestor's row, its cache) -/
theorem C06_translated_inheritable_set_eq_model (sch : Schema) (inj : Option Inj) (props : Nat → Extra)
    (s : Fail.St) (c id : Nat) (pd : List (Nat × In)) (hnd : (pd.map (·.1)).Nodup)
    (hexok : ∀ e ∈ pd, ¬ e.1 < (clsOf sch c).cols.length → exOk sch c (props e.1)) :
    viewObs (inhSetF
        (mkW sch inj props s c id
          (vqOf (pd.filter fun e => e.1 < (clsOf sch c).cols.length) ++
           vqEx ((pd.filter fun e => ¬ e.1 < (clsOf sch c).cols.length).map fun e => props e.1)))
        (kwPV pd)) =
      some (runObs (Fail.run sch inj
        (Fail.setProg sch c id (pd.filter fun e => e.1 < (clsOf sch c).cols.length)
          ((pd.filter fun e => ¬ e.1 < (clsOf sch c).cols.length).map fun e => props e.1) .done) s)) := by
  rw [inhSetF_eq, viewObs_dropVal]
  exact C06_translated_set_translated_setters_eq_model _ sch inj props s c id pd hnd hexok

/-! ### closed witnesses, by kernel evaluation of the interpreters on the translated programs -/

/-- inheritable pair `Par` (a, childName) / `Chi` (b, childName) of `Props/C06.lean` (W5) -/
def W5.sch : Schema := [{ cols := [{ unique := true }, {}] }, { cols := [{ unique := true }, {}], parent := some 0 }]
def W5.s : Fail.St :=
  { core := { tabs := [[⟨1, [some 1, some 1]⟩, ⟨2, [some 2, some 1]⟩], [⟨1, [some 1, none]⟩, ⟨2, [some 2, none]⟩]], links := [],
              insts := [⟨0, 1, [some 1, some 1], [], false, false⟩, ⟨1, 1, [some 1, none], [], false, false⟩],
              reg := [(0, 1), (1, 1)] },
    seqs := [2, 2], lastId := 0, n := 0, changes := 0, log := [] }
/-- name 2 of the child = column 0 of the parent class 0 -/
def W5.props (k : Nat) : Extra := if k = 2 then .parentAttr 0 0 (.ok (some 7)) else .unknown
/-- the Python dict of `child.set(a=7, b=2)`: the inherited column first -/
def W5.pd : List (Nat × In) := [(2, .ok (some 7)), (0, .ok (some 2))]

/-- `C06_inheritable_set_parent_column_full_FALSE` replayed through the TRANSLATED `InheritableSQLObject.set` →
    translated `SQLObject.set` → translated `setfunc` → the parent's translated `_SO_setValue`:
    `child.set(parentCol=7, ownCol=<duplicate>)` raises DuplicateEntryError and leaves the PARENT's row changed -/
theorem C06_translated_inheritable_set_parent_column_witness :
    viewObs (inhSetF (mkW W5.sch none W5.props W5.s 1 1 (vqOf [(0, .ok (some 2))] ++ vqEx [.parentAttr 0 0 (.ok (some 7))]))
        (kwPV W5.pd)) =
      some (runObs (Fail.step W5.sch W5.s (.set 1 1 [(0, .ok (some 2))] [.parentAttr 0 0 (.ok (some 7))]) none)) ∧
    (viewObs (inhSetF (mkW W5.sch none W5.props W5.s 1 1 (vqOf [(0, .ok (some 2))] ++ vqEx [.parentAttr 0 0 (.ok (some 7))]))
        (kwPV W5.pd))).map (fun r => (r.2, r.1.core.tabs, r.1.log)) =
      some (some .duplicate, [[⟨1, [some 7, some 1]⟩, ⟨2, [some 2, some 1]⟩], [⟨1, [some 1, none]⟩, ⟨2, [some 2, none]⟩]],
        [.update 1 1 [(0, some 2)], .update 0 1 [(0, some 7)]]) := by
  decide +kernel

/-- the general theorem at that witness (its hypotheses are satisfiable) -/
example := C06_translated_inheritable_set_eq_model W5.sch none W5.props W5.s 1 1 W5.pd (by decide) (by
  intro e he hn
  simp only [W5.pd, List.mem_cons, List.not_mem_nil, or_false] at he
  rcases he with h | h <;> subst h
  · exact ⟨by decide, by decide⟩
  · exact absurd (by decide) hn)

/-- W-fk: class with a plain column 0 and a unique column 1; name 2 = the ForeignKey behind column 0 given by object -/
def WFk.sch : Schema := [{ cols := [{}, { unique := true }] }]
def WFk.s : Fail.St :=
  { core := { tabs := [[⟨1, [some 1, some 1]⟩, ⟨2, [some 1, some 2]⟩]], links := [],
              insts := [⟨0, 1, [some 1, some 1], [], false, false⟩], reg := [(0, 1)] },
    seqs := [2], lastId := 0, n := 0, changes := 0, log := [] }
def WFk.props (k : Nat) : Extra := if k = 2 then .fk 0 (some 2) else .unknown
/-- the Python dict of `obj.set(fk=<object>, w=2)`: the extra keyword first -/
def WFk.pd : List (Nat × In) := [(2, .ok none), (1, .ok (some 2))]

/-- `C06_set_fk_by_object_full_FALSE` replayed through the translated `set` with the TRANSLATED setter of the ForeignKey
    given by object (`propCallT`: `_SO_setValue`): `set(fk=<object>, w=<duplicate>)` raises DuplicateEntryError and leaves
    the ForeignKey written; also through `InheritableSQLObject.set` on a class without parent -/
theorem C06_translated_set_fk_by_object_witness :
    viewObs (setFWith (propCallT parentSetT) false
        (mkW WFk.sch none WFk.props WFk.s 0 1 (vqOf [(1, .ok (some 2))] ++ vqEx [.fk 0 (some 2)]))
        (kwPV WFk.pd)) =
      some (runObs (Fail.step WFk.sch WFk.s (.set 0 1 [(1, .ok (some 2))] [.fk 0 (some 2)]) none)) ∧
    (viewObs (inhSetF
        (mkW WFk.sch none WFk.props WFk.s 0 1 (vqOf [(1, .ok (some 2))] ++ vqEx [.fk 0 (some 2)]))
        (kwPV WFk.pd))).map (fun r => (r.2, r.1.core.tabs, r.1.log)) =
      some (some .duplicate, [[⟨1, [some 2, some 1]⟩, ⟨2, [some 1, some 2]⟩]],
        [.update 0 1 [(1, some 2)], .update 0 1 [(0, some 2)]]) := by
  decide +kernel

end SqlObjVerif.FailInhSet
