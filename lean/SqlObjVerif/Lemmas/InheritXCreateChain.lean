import SqlObjVerif.Lemmas.InheritXCreate
import SqlObjVerif.Lemmas.InheritXBulk
/-!
The TRANSLATED `InheritableSQLObject._create` along the whole class chain: `createN_eq` — the translated method calling
ITSELF through the parent class's constructor (and the translated `destroySelf` for the clean-up) equals `createSpec`,
by induction over the depth of the class; `createSpec_success` / `createSpec_leaf_fails` — `createSpec` is the hand
model's `insertUp` (and `destroyInst` after a failed INSERT).
-/
namespace SqlObjVerif.Inherit
open SqlObjVerif.PyInh
open SqlObjVerif.PyInh.Extracted


theorem createSpec_cons {X : Ctx} (h : X.T.WF) (k a p : Nat) (tag : Option Nat) (w : XW) (hp : X.T.parent a = some p) :
    createSpec X k (X.T.anc a) tag w = createAfter X k a p tag (createSpec X k (X.T.anc p) (some a) w) := by
  rw [anc_cons h hp]
  simp only [createSpec, anc_head]

theorem createSpec_root {X : Ctx} (h : X.T.WF) (k a : Nat) (tag : Option Nat) (w : XW) (hp : X.T.parent a = none) :
    createSpec X k (X.T.anc a) tag w = createOwn X k a none tag w := by
  rw [anc_root h hp]; rfl

/-- a successful `_create` leaves the `_parent` chain of the new instance in place -/
theorem createSpec_par {X : Ctx} (h : X.T.WF) (k : Nat) (w : XW) : ∀ (c : Nat) (tag : Option Nat),
    (∀ a, a ∈ X.T.anc c → w.par k a X.nid = .none) → (createSpec X k (X.T.anc c) tag w).2 = none →
    ∀ a, a ∈ X.T.anc c → (createSpec X k (X.T.anc c) tag w).1.par k a X.nid = parVal X.T k a X.nid := by
  intro c
  induction c using h.induction with
  | root c hc =>
    intro tag hfresh hok a ha
    rw [createSpec_root h k c tag w hc] at hok ⊢
    rw [anc_root h hc] at ha hfresh
    simp only [List.mem_singleton] at ha
    subst ha
    simp only [createOwn] at hok ⊢
    cases hf : X.failAt a with
    | some e => simp [hf] at hok
    | none => simp [parVal, hc, hfresh a (by simp)]
  | step c p hp ih =>
    intro tag hfresh hok a ha
    rw [createSpec_cons h k c p tag w hp] at hok ⊢
    have hfp : ∀ a, a ∈ X.T.anc p → w.par k a X.nid = .none := by
      intro a' ha'; apply hfresh; rw [anc_cons h hp]; exact List.mem_cons_of_mem _ ha'
    have hnotin : c ∉ X.T.anc p := by
      intro hc
      have := mem_anc_le h p c hc
      have := (h.lt c p hp).1
      omega
    have ihp := ih (some c) hfp
    generalize hr : createSpec X k (X.T.anc p) (some c) w = r at *
    obtain ⟨w1, oe⟩ := r
    cases oe with
    | some e => simp [createAfter] at hok
    | none =>
      simp only [createAfter, createOwn] at hok ⊢
      cases hf : X.failAt c with
      | some e => cases hi : X.isTx k <;> cases hac : X.autoCommit k <;> simp [hf, hi, hac] at hok
      | none =>
        simp only [setCur_par]
        rw [anc_cons h hp, List.mem_cons] at ha
        rcases ha with rfl | ha
        · simp [parVal, hp]
        · have hne : a ≠ c := fun e => hnotin (e ▸ ha)
          rw [setPar_par_ne _ _ _ _ _ _ _ _ (by simp [hne])]
          exact ihp rfl a ha

theorem constructOf_createCall (X : Ctx) (k p : Nat) (r : XW × Option Exc) :
    (match createCall r with
     | .ret w' _ => CallRes.ret w' (PyInh.Val.inst k p X.nid)
     | r' => r') = constructRes X k p r := by
  obtain ⟨w1, oe⟩ := r
  cases oe <;> rfl

/-- the translated `_create` of class `c`, calling itself through the constructor of the parent class -/
def createC (X : Ctx) (w : XW) (k c : Nat) (idv kw : PVal) : CallRes XW := createN X (c + 1) w k c idv kw

/-- the whole chain: the translated `_create` calling itself (and the translated `destroySelf` for the clean-up) is
    the hand model's `createSpec` -/
theorem createN_eq {X : Ctx} (h : X.T.WF) (hb : ∀ a, X.blocked a = false)
    (hvals : ∀ a j, X.T.ncols a ≤ j → X.vals a j = 0) (k : Nat) (w : XW) : ∀ (n c : Nat), c < n →
    ∀ (tag : Option Nat) (kwv : PVal),
      (kwv = kwOf X (X.T.anc c) tag ∨ kwv = .cons (.pair (.str "kw") (kwOf X (X.T.anc c) tag)) .nil) →
      (∀ a, a ∈ X.T.anc c → w.par k a X.nid = .none) →
      createN X n w k c .none kwv = createCall (createSpec X k (X.T.anc c) tag w) := by
  intro n
  induction n with
  | zero => intro c hc; omega
  | succ n ih =>
    intro c hc tag kwv hkw hfresh
    unfold createN
    cases hp : X.T.parent c with
    | none => exact createX_root h _ w k c tag hp hvals kwv hkw
    | some p =>
      have hlt := (h.lt c p hp).1
      have hfp : ∀ a, a ∈ X.T.anc p → w.par k a X.nid = .none := by
        intro a' ha'; apply hfresh; rw [anc_cons h hp]; exact List.mem_cons_of_mem _ ha'
      have hnotin : c ∉ X.T.anc p := by
        intro hc'
        have := mem_anc_le h p c hc'
        omega
      apply createX_child h _ w k c p tag hp hvals kwv hkw
      · show constructOf X (createN X n) w k p _ = _
        unfold constructOf
        rw [ih p (by omega) (some c) _ (Or.inr rfl) hfp]
        exact constructOf_createCall X k p _
      · intro hok w1 hw1
        show destroySelfC X w1 k p X.nid = _
        apply bulk_hC_chain h hb k w1 w1 X.nid p rfl
        intro a ha
        have hne : a ≠ c := fun e => hnotin (e ▸ ha)
        rw [hw1, setPar_par_ne _ _ _ _ _ _ _ _ (by simp [hne])]
        exact createSpec_par h k w p (some c) hfp hok a ha

/-! ### `createSpec` in the hand model's terms -/

theorem createSpec_two (X : Ctx) (k a p : Nat) (rest : List Nat) (tag : Option Nat) (w : XW) :
    createSpec X k (a :: p :: rest) tag w = createAfter X k a p tag (createSpec X k (p :: rest) (some a) w) := rfl

theorem createSpec_one (X : Ctx) (k a : Nat) (tag : Option Nat) (w : XW) :
    createSpec X k [a] tag w = createOwn X k a none tag w := rfl

/-- no INSERT fails: the tables of the instance's connection are the hand model's `insertUp`, nothing else changes -/
theorem createSpec_success (X : Ctx) (k : Nat) : ∀ (l : List Nat) (tag : Option Nat) (w : XW),
    (∀ a, a ∈ l → X.failAt a = none) →
    (createSpec X k l tag w).2 = none ∧
    (createSpec X k l tag w).1.cur k = insertUp Extracted.createTagsParent X.nid X.vals l tag (w.cur k) ∧
    ∀ k', k' ≠ k → (createSpec X k l tag w).1.cur k' = w.cur k' := by
  have ht : Extracted.createTagsParent = true := rfl
  intro l
  induction l with
  | nil => intro tag w _; simp [createSpec, insertUp]
  | cons a rest ih =>
    intro tag w hf
    have hfa := hf a List.mem_cons_self
    cases rest with
    | nil =>
      rw [createSpec_one]
      simp only [createOwn, hfa, insertUp, setCur_cur, true_and]
      intro k' hk'
      exact setCur_cur_ne _ _ _ _ hk'
    | cons p rest' =>
      obtain ⟨h1, h2, h3⟩ := ih (some a) w (fun a' ha' => hf a' (List.mem_cons_of_mem _ ha'))
      rw [createSpec_two]
      simp only [createAfter, h1, createOwn, hfa, setCur_cur, setPar_cur, h2, true_and]
      refine ⟨by simp [insertUp, ht], ?_⟩
      intro k' hk'
      rw [setCur_cur_ne _ _ _ _ hk', setPar_cur, h3 k' hk']

/-- the own INSERT of the created class fails, outside a transaction with autocommit: the parent chain the constructor
    had inserted is destroyed again (hand model: `destroyInst` after `insertUp`) -/
theorem createSpec_leaf_fails {X : Ctx} (h : X.T.WF) (k c p : Nat) (tag : Option Nat) (w : XW) (e : Exc)
    (hp : X.T.parent c = some p) (hfc : X.failAt c = some e) (hfa : ∀ a, a ∈ X.T.anc p → X.failAt a = none)
    (hclean : (!X.isTx k && X.autoCommit k) = true) :
    (createSpec X k (X.T.anc c) tag w).2 = some e ∧
    (createSpec X k (X.T.anc c) tag w).1.cur k =
      destroyInst X.T (insertUp Extracted.createTagsParent X.nid X.vals (X.T.anc p) (some c) (w.cur k)) p X.nid := by
  obtain ⟨h1, h2, _⟩ := createSpec_success X k (X.T.anc p) (some c) w hfa
  rw [createSpec_cons h k c p tag w hp]
  simp [createAfter, h1, createOwn, hfc, hclean, h2]

/-! ### a concrete context for the non-vacuity examples of `Props/C15.lean` -/

def X0 : Ctx :=
  { T := T0, dflt := 0, blocked := fun _ => false, isTx := fun _ => false, autoCommit := fun _ => true, nid := 9,
    vals := fun a j => if j < T0.ncols a then 5 else 0, failAt := fun a => if a = 4 then some ⟨.baseOnly, 1⟩ else none,
    nodefault := fun _ _ => true, filt := .attr 0 0 .ge 0, kvs := [(3, 0, 30)], ids := [2, 1] }

def w0 : XW := { cur := fun k => if k = 1 then db0 else DB.empty, par := fun k c i => parVal T0 k c i }
def w1 : XW := { cur := fun k => if k = 1 then db0 else DB.empty, par := fun _ _ _ => .none }

end SqlObjVerif.Inherit
