import SqlObjVerif.Model.PyCacheSS
import SqlObjVerif.Extracted.PyCache
import SqlObjVerif.Model.CacheX
import SqlObjVerif.Model.ConcX
/-!
# PyCacheSSSeq — a thread running ALONE computes by micro-steps what the big-step semantics computes

`Model/PyCache.lean` (big-step `Block.exec` / `run`) and `Model/PyCacheSS.lean` (small-step `micro`, continuation
as an explicit frame stack) give the SAME translated programs a meaning.  This file instantiates the heap
parameter of the small-step machine with the big-step `World`'s heap (`worldOps`, mirroring `World.release`),
defines the abstraction `worldOf : Shared WH → World` (`lock := owner.isSome`), the `n`-fold iteration `iter` of
`micro`, and proves `smallstep_run_eq_bigstep` by structural induction over ALL constructors of `Stmt` / `Block`
(generic frame stack `K`), plus the corollaries `run_ret / run_retList / run_exc / run_deadlock` for a whole
method activation (`MTh.start`).

The known differences between the two semantics, and how they are handled:
* (prefetch) a statement that reads `cullCount` and has another shared access first buffers it (`ccSeen`), and a
  non-owner's access to `self.cache` first takes an alias of the dict object (`load`: `genSeen`, `hold + 1`) and
  drops it afterwards (`unload`).  Alone this is invisible: theorem `prefetch` runs the (0, 1 or 2) prefetch
  steps; every statement lemma (`SimpleOK`) is proved for ANY consistent buffer state (`Buf`), and `hold` is back
  to 0 / `olds` still empty after the statement (`Good`).
* (live dict iterators) `forItems` / `forValues` walk the live dict by position with CPython's size check, the
  big-step semantics walks a snapshot.  They agree when the body neither writes that dict nor calls a method:
  `noWriteB d body`, part of the decidable side condition `seqOKB`.
* (iterating `self.cache` without the lock is refused by `micro`) `seqOKB held` tracks syntactically whether the
  thread certainly owns the lock (`held`; after `acquire`: yes, after `release` / `self.m()` / a compound statement
  containing one of them: unknown) and demands `held` at a loop over `self.cache`.
`getProg_ok … expireAllProg_ok` prove `seqOKB false <prog>` for the eleven extracted programs by `decide`.
* (`self.m()`) `CallTable call meths`: the big-step `call` is the method table's program run with `noCall`
  (depth 1), as `CacheX.callTable` / `ConcX.meths` are (`callTable_meths`, `meths_ok`).

`stuck` big-step results carry no claim.  No defect of `PyCacheSS.lean` was found for a single thread.
-/

set_option linter.unusedSimpArgs false

namespace SqlObjVerif.PyCacheSS
open SqlObjVerif.PyCache

structure WH where
  dead : Nat → Bool
  rel : Nat → Bool
  falsy : Nat → Bool

def worldOps : HeapOps WH :=
  { dead := fun sh h => sh.heap.dead h
    falsy := fun h => h.falsy
    drop := fun h hs => { h with dead := fun x => h.dead x || (h.rel x && hs.contains x) }
    keep := fun h _ => h }

def selfOf (sh : Shared WH) : Self :=
  { cache := sh.cache, expiredCache := sh.expiredCache, cullCount := sh.cullCount, cullOffset := sh.cullOffset
    cullFrequency := sh.cullFrequency, cullFraction := sh.cullFraction, doCache := sh.doCache
    lock := sh.owner.isSome }

def worldOf (sh : Shared WH) : World :=
  { self := selfOf sh, dead := sh.heap.dead, rel := sh.heap.rel, falsy := sh.heap.falsy }

def stOf (sh : Shared WH) (vars : List (Option Val)) (lists : List (List Val)) : St :=
  { w := worldOf sh, vars := vars, lists := lists }

abbrev Cfg := MTh × Shared WH

def iter (meths : Meths) (t : Tid) : Nat → Cfg → Option Cfg
  | 0, c => some c
  | n + 1, c => match micro worldOps meths t c.2 c.1 with
    | some c' => iter meths t n c'
    | none => none

def Reach (meths : Meths) (t : Tid) (c c' : Cfg) : Prop := ∃ n, iter meths t n c = some c'

theorem Reach.refl {meths t} (c : Cfg) : Reach meths t c c := ⟨0, rfl⟩

theorem Reach.step {meths t} {c c' c'' : Cfg} (h : micro worldOps meths t c.2 c.1 = some c')
    (h2 : Reach meths t c' c'') : Reach meths t c c'' := by
  obtain ⟨n, hn⟩ := h2
  exact ⟨n + 1, by simp [iter, h, hn]⟩

theorem Reach.trans {meths t} {c c' c'' : Cfg} (h1 : Reach meths t c c') (h2 : Reach meths t c' c'') :
    Reach meths t c c'' := by
  obtain ⟨n, hn⟩ := h1
  induction n generalizing c with
  | zero => simp [iter] at hn; subst hn; exact h2
  | succ n ih =>
    simp only [iter] at hn
    split at hn
    · rename_i c1 h
      exact Reach.step h (ih hn)
    · cases hn

theorem Reach.one {meths t} {c c' : Cfg} (h : micro worldOps meths t c.2 c.1 = some c') : Reach meths t c c' :=
  Reach.step h (Reach.refl _)

/-- a thread between two statements: nothing prefetched -/
def mk (ctl : Ctl) (K : List Frame) (vars : List (Option Val)) (lists : List (List Val)) : MTh :=
  { ctl := ctl, stack := K, vars := vars, lists := lists, ccSeen := none, genSeen := none }

def Good (sh : Shared WH) : Prop := sh.hold = 0 ∧ sh.olds = []

/-! ## evaluation does not look at `rel` -/
def relErase (st : St) : St := { st with w := { st.w with rel := fun _ => false } }

@[simp] theorem relErase_getVar (st : St) (x : Nat) : (relErase st).getVar x = st.getVar x := rfl
@[simp] theorem relErase_getList (st : St) (x : Nat) : (relErase st).getList x = st.getList x := rfl
@[simp] theorem relErase_self (st : St) : (relErase st).w.self = st.w.self := rfl
@[simp] theorem relErase_dead (st : St) : (relErase st).w.dead = st.w.dead := rfl
@[simp] theorem relErase_falsy (st : St) : (relErase st).w.falsy = st.w.falsy := rfl
@[simp] theorem relErase_vars (st : St) : (relErase st).vars = st.vars := rfl
@[simp] theorem relErase_lists (st : St) : (relErase st).lists = st.lists := rfl

@[simp] theorem eval_relErase (st : St) (e : Expr) : e.eval (relErase st) = e.eval st := by
  induction e <;> simp [Expr.eval, *] <;> rfl

theorem pyBool_relErase (st : St) (v : Val) : pyBool (relErase st).w v = pyBool st.w v := by
  cases v <;> rfl

@[simp] theorem cond_relErase (st : St) (c : Cond) : c.eval (relErase st) = c.eval st := by
  induction c <;> simp [Cond.eval, pyBool_relErase, *]

@[simp] theorem condDict_relErase (st : St) (c : Cond) : condDict (relErase st) c = condDict st c := by
  induction c <;> simp [condDict, *]

@[simp] theorem stmtDict_relErase (st : St) (s : Stmt) : stmtDict (relErase st) s = stmtDict st s := by
  cases s <;> simp [stmtDict]

/-- the buffers of `m` hold what the shared state holds (always so for a thread running alone) -/
def Fresh (sh : Shared WH) (m : MTh) : Prop :=
  (m.ccSeen = none ∨ m.ccSeen = some sh.cullCount) ∧ (m.genSeen = none ∨ m.genSeen = some sh.gen)

theorem viewSelf_fresh {sh : Shared WH} {m : MTh} (h : Fresh sh m) : viewSelf sh m = selfOf sh := by
  obtain ⟨h1, h2⟩ := h
  rcases h1 with h1 | h1 <;> rcases h2 with h2 | h2 <;> simp [viewSelf, selfOf, h1, h2]

theorem viewSt_fresh {sh : Shared WH} {m : MTh} (h : Fresh sh m) :
    viewSt worldOps sh m = relErase (stOf sh m.vars m.lists) := by
  simp [viewSt, viewSelf_fresh h, relErase, stOf, worldOf, worldOps]


def lockAcc : Stmt → List Access
  | .acquire => [Access.acquire]
  | .release => [Access.release]
  | _ => []

def dictAcc (t : Tid) (sh : Shared WH) (g : Option Nat) : Option (DictAttr × AccKind) → List Access
  | some (.cache, k) =>
     (if (sh.owner != some t) && g.isNone && (k != .swap) then [Access.load] else []) ++ [Access.dict .cache k]
  | some (.expiredCache, k) => [Access.dict .expiredCache k]
  | none => []

theorem pendingOf_eq (t : Tid) (sh : Shared WH) (m : MTh) (s : Stmt) (hf : Fresh sh m) :
    pendingOf worldOps t sh m s =
      (if stmtReadsCC s && m.ccSeen.isNone then [Access.ccRead] else []) ++
      dictAcc t sh m.genSeen (stmtDict (stOf sh m.vars m.lists) s) ++
      (if stmtWritesCC s then [Access.ccWrite] else []) ++ lockAcc s := by
  unfold pendingOf
  rw [viewSt_fresh hf, stmtDict_relErase]
  cases s <;> rfl


theorem micro_exec_of {meths : Meths} {t : Tid} {sh : Shared WH} {m : MTh} {s : Stmt} {rest : Block}
    (hc : m.ctl = .run (.cons s rest)) (L : List Access) (hL : pendingOf worldOps t sh m s = L)
    (h1 : ∀ a l, L ≠ .ccRead :: a :: l) (h2 : ∀ a l, L ≠ .load :: a :: l) :
    micro worldOps meths t sh m = execStmt worldOps meths t sh m s rest := by
  unfold micro
  rw [hc]
  dsimp only
  rw [hL]
  split
  · exact absurd rfl (h1 _ _)
  · exact absurd rfl (h2 _ _)
  · rfl

theorem hold_zero {sh : Shared WH} (hg : Good sh) : { sh with hold := 0 } = sh := by
  cases sh; simp [Good] at hg; simp [hg.1]

theorem prefetch2 (meths : Meths) (t : Tid) (s : Stmt) (rest : Block) (K : List Frame) (vars : List (Option Val))
    (lists : List (List Val)) (sh : Shared WH) (hg : Good sh) (cc : Option Nat)
    (hcc : cc = none ∨ cc = some sh.cullCount) (hA : (stmtReadsCC s && cc.isNone) = false) :
    ∃ g h,
      Reach meths t (⟨.run (.cons s rest), K, vars, lists, cc, none⟩, sh)
        (⟨.run (.cons s rest), K, vars, lists, cc, g⟩, { sh with hold := h }) ∧
      micro worldOps meths t { sh with hold := h } ⟨.run (.cons s rest), K, vars, lists, cc, g⟩ =
        execStmt worldOps meths t { sh with hold := h } ⟨.run (.cons s rest), K, vars, lists, cc, g⟩ s rest ∧
      ((g = none ∧ h = 0) ∨
       (g = some sh.gen ∧ h = 1 ∧ ∃ k, stmtDict (stOf sh vars lists) s = some (.cache, k) ∧ k ≠ .swap)) := by
  have hf0 : Fresh sh ⟨.run (.cons s rest), K, vars, lists, cc, none⟩ := ⟨hcc, Or.inl rfl⟩
  have hp0 := pendingOf_eq t sh _ s hf0
  simp only [hA, Bool.false_eq_true, if_false, List.nil_append] at hp0
  by_cases hload : ∃ k, stmtDict (stOf sh vars lists) s = some (.cache, k) ∧ k ≠ .swap ∧ sh.owner ≠ some t
  · obtain ⟨k, hk, hsw, hown⟩ := hload
    refine ⟨some sh.gen, 1, ?_, ?_, Or.inr ⟨rfl, rfl, k, hk, hsw⟩⟩
    · apply Reach.one
      have : sh.hold = 0 := hg.1
      simp [micro, hp0, hk, dictAcc, hsw, hown, this]
    · have hf1 : Fresh { sh with hold := 1 } ⟨.run (.cons s rest), K, vars, lists, cc, some sh.gen⟩ :=
        ⟨hcc, Or.inr rfl⟩
      have hp1 := pendingOf_eq t { sh with hold := 1 } _ s hf1
      simp only [hA, Bool.false_eq_true, if_false, List.nil_append] at hp1
      have hk' : stmtDict (stOf { sh with hold := 1 } vars lists) s = some (.cache, k) := hk
      simp only [hk', dictAcc] at hp1
      exact micro_exec_of rfl _ hp1 (by simp) (by simp)
  · refine ⟨none, 0, ?_, ?_, Or.inl ⟨rfl, rfl⟩⟩
    · rw [hold_zero hg]; exact Reach.refl _
    · rw [hold_zero hg]
      refine micro_exec_of rfl _ hp0 ?_ ?_
      · intro a l
        cases hd : stmtDict (stOf sh vars lists) s with
        | none => cases s <;> simp [dictAcc, lockAcc, stmtWritesCC] <;> split <;> simp
        | some dk =>
          obtain ⟨d, k⟩ := dk
          cases d <;> simp [dictAcc] <;> split <;> simp
      · intro a l
        cases hd : stmtDict (stOf sh vars lists) s with
        | none => cases s <;> simp [dictAcc, lockAcc, stmtWritesCC] <;> split <;> simp
        | some dk =>
          obtain ⟨d, k⟩ := dk
          cases d
          · have hc : ((sh.owner != some t) && (none : Option Nat).isNone && (k != .swap)) = false := by
              cases hc : ((sh.owner != some t) && (none : Option Nat).isNone && (k != .swap))
              · rfl
              · exfalso
                apply hload
                simp at hc
                exact ⟨k, hd, hc.2, hc.1⟩
            simp only [dictAcc, hc]
            simp
          · simp [dictAcc]

theorem prefetch (meths : Meths) (t : Tid) (s : Stmt) (rest : Block) (K : List Frame) (vars : List (Option Val))
    (lists : List (List Val)) (sh : Shared WH) (hg : Good sh) :
    ∃ cc g h,
      Reach meths t (mk (.run (.cons s rest)) K vars lists, sh)
        (⟨.run (.cons s rest), K, vars, lists, cc, g⟩, { sh with hold := h }) ∧
      micro worldOps meths t { sh with hold := h } ⟨.run (.cons s rest), K, vars, lists, cc, g⟩ =
        execStmt worldOps meths t { sh with hold := h } ⟨.run (.cons s rest), K, vars, lists, cc, g⟩ s rest ∧
      (cc = none ∨ cc = some sh.cullCount) ∧
      ((g = none ∧ h = 0) ∨
       (g = some sh.gen ∧ h = 1 ∧ ∃ k, stmtDict (stOf sh vars lists) s = some (.cache, k) ∧ k ≠ .swap)) := by
  by_cases hA : stmtReadsCC s = true
  · have hf0 : Fresh sh (mk (.run (.cons s rest)) K vars lists) := ⟨Or.inl rfl, Or.inl rfl⟩
    have hp0 := pendingOf_eq t sh _ s hf0
    simp only [mk, hA, Option.isNone_none, Bool.and_self, if_true, List.append_assoc, List.cons_append,
      List.nil_append] at hp0
    generalize hX : dictAcc t sh none (stmtDict (stOf sh vars lists) s) ++
      ((if stmtWritesCC s = true then [Access.ccWrite] else []) ++ lockAcc s) = X at hp0
    cases X with
    | nil =>
      refine ⟨none, none, 0, ?_, ?_, Or.inl rfl, Or.inl ⟨rfl, rfl⟩⟩
      · rw [hold_zero hg]; exact Reach.refl _
      · rw [hold_zero hg]
        exact micro_exec_of rfl _ hp0 (by simp) (by simp)
    | cons a l =>
      obtain ⟨g, h, hr, hm, hgh⟩ := prefetch2 meths t s rest K vars lists sh hg (some sh.cullCount) (Or.inr rfl)
        (by simp)
      refine ⟨some sh.cullCount, g, h, Reach.step ?_ hr, hm, Or.inr rfl, hgh⟩
      simp [micro, mk, hp0]
  · obtain ⟨g, h, hr, hm, hgh⟩ := prefetch2 meths t s rest K vars lists sh hg none (Or.inl rfl) (by simp [hA])
    exact ⟨none, g, h, hr, hm, Or.inl rfl, hgh⟩


/-! ## the syntactic side conditions -/
mutual
/-- no lock operation and no call -/
def lockFreeS : Stmt → Bool
  | .acquire => false
  | .release => false
  | .callSelf _ => false
  | .ite _ tb eb => lockFreeB tb && lockFreeB eb
  | .forList _ _ b => lockFreeB b
  | .forRange _ _ _ _ b => lockFreeB b
  | .forItems _ _ _ b => lockFreeB b
  | .forValues _ _ b => lockFreeB b
  | .tryKey b h o => lockFreeB b && lockFreeB h && lockFreeB o
  | .tryFinally b f => lockFreeB b && lockFreeB f
  | _ => true
def lockFreeB : Block → Bool
  | .nil => true
  | .cons s r => lockFreeS s && lockFreeB r
end

mutual
/-- dict `d` is not written and no method is called -/
def noWriteS (d : DictAttr) : Stmt → Bool
  | .dictSet d' _ _ => d' != d
  | .dictDel d' _ => d' != d
  | .dictPop d' _ => d' != d
  | .dictClear d' => d' != d
  | .dictNew d' => d' != d
  | .callSelf _ => false
  | .ite _ tb eb => noWriteB d tb && noWriteB d eb
  | .forList _ _ b => noWriteB d b
  | .forRange _ _ _ _ b => noWriteB d b
  | .forItems _ _ _ b => noWriteB d b
  | .forValues _ _ b => noWriteB d b
  | .tryKey b h o => noWriteB d b && noWriteB d h && noWriteB d o
  | .tryFinally b f => noWriteB d b && noWriteB d f
  | _ => true
def noWriteB (d : DictAttr) : Block → Bool
  | .nil => true
  | .cons s r => noWriteS d s && noWriteB d r
end

/-- thread `t` certainly owns the lock after `s` completed normally, if `held` says it did before -/
def heldAfterS (held : Bool) : Stmt → Bool
  | .acquire => true
  | s => held && lockFreeS s

mutual
/-- `held`: thread `t` certainly owns the lock here.  A loop over a live dict must not write that dict or call
    a method, and `self.cache` is only iterated under the lock -/
def seqOKS (held : Bool) : Stmt → Bool
  | .ite _ tb eb => seqOKB held tb && seqOKB held eb
  | .forList _ _ b => seqOKB (held && lockFreeB b) b
  | .forRange _ _ _ _ b => seqOKB (held && lockFreeB b) b
  | .forItems _ _ d b => (d != .cache || held) && noWriteB d b && seqOKB (held && lockFreeB b) b
  | .forValues _ d b => (d != .cache || held) && noWriteB d b && seqOKB (held && lockFreeB b) b
  | .tryKey b h o => seqOKB held b && seqOKB (held && lockFreeB b) h && seqOKB (held && lockFreeB b) o
  | .tryFinally b f => seqOKB held b && seqOKB (held && lockFreeB b) f
  | _ => true
def seqOKB (held : Bool) : Block → Bool
  | .nil => true
  | .cons s r => seqOKS held s && seqOKB (heldAfterS held s) r
end

def dictOf (sh : Shared WH) (d : DictAttr) : Option Dict := (selfOf sh).getDict d

/-- what a piece of code leaves of the shared state `sh` it started from -/
structure Fr (t : Tid) (sh sh' : Shared WH) (lf : Bool) (nw : DictAttr → Bool) (ho : Bool) : Prop where
  good : Good sh'
  owner : lf = true → sh'.owner = sh.owner
  dict : ∀ d, nw d = true → dictOf sh' d = dictOf sh d
  held : ho = true → sh'.owner = some t

def Blocked (meths : Meths) (t : Tid) (c : Cfg) : Prop :=
  (∃ rest, c.1.ctl = .run (.cons .acquire rest)) ∧ micro worldOps meths t c.2 c.1 = none

/-- the machine started in `c` does what the big-step result says -/
def Post (meths : Meths) (t : Tid) (c : Cfg) (K : List Frame) (nctl : Ctl) (φ : Shared WH → Prop) : Res → Prop
  | .norm st' => ∃ sh', Reach meths t c (mk nctl K st'.vars st'.lists, sh') ∧ worldOf sh' = st'.w ∧ φ sh'
  | .ret st' v => ∃ sh', Reach meths t c (mk (.done (.ret v)) K st'.vars st'.lists, sh') ∧ worldOf sh' = st'.w ∧ φ sh'
  | .retList st' l =>
    ∃ sh', Reach meths t c (mk (.done (.retList l)) K st'.vars st'.lists, sh') ∧ worldOf sh' = st'.w ∧ φ sh'
  | .exc st' e => ∃ sh', Reach meths t c (mk (.done (.exc e)) K st'.vars st'.lists, sh') ∧ worldOf sh' = st'.w ∧ φ sh'
  | .deadlock st' => ∃ c', Reach meths t c c' ∧ Blocked meths t c' ∧ worldOf c'.2 = st'.w
  | .stuck => True

/-- one `execStmt` step `o` does what the big-step result says -/
def Post1 (s : Stmt) (sh : Shared WH) (o : Option Cfg) (K : List Frame) (rest : Block) (φ : Shared WH → Prop) :
    Res → Prop
  | .norm st' => ∃ sh', o = some (mk (.run rest) K st'.vars st'.lists, sh') ∧ worldOf sh' = st'.w ∧ φ sh'
  | .ret st' v => ∃ sh', o = some (mk (.done (.ret v)) K st'.vars st'.lists, sh') ∧ worldOf sh' = st'.w ∧ φ sh'
  | .retList st' l => ∃ sh', o = some (mk (.done (.retList l)) K st'.vars st'.lists, sh') ∧ worldOf sh' = st'.w ∧ φ sh'
  | .exc st' e => ∃ sh', o = some (mk (.done (.exc e)) K st'.vars st'.lists, sh') ∧ worldOf sh' = st'.w ∧ φ sh'
  | .deadlock st' => o = none ∧ s = .acquire ∧ worldOf sh = st'.w
  | .stuck => True

/-- the read buffers of a thread running alone, and the alias count that goes with them -/
def Buf (sh : Shared WH) (cc g : Option Nat) (h : Nat) : Prop :=
  (cc = none ∨ cc = some sh.cullCount) ∧ ((g = none ∧ h = 0) ∨ (g = some sh.gen ∧ h = 1))

theorem viewSt_buf {sh : Shared WH} {cc g : Option Nat} {h : Nat} (hb : Buf sh cc g h) (ctl : Ctl) (K : List Frame)
    (vars : List (Option Val)) (lists : List (List Val)) :
    viewSt worldOps { sh with hold := h } ⟨ctl, K, vars, lists, cc, g⟩ = relErase (stOf sh vars lists) := by
  have hf : Fresh { sh with hold := h } ⟨ctl, K, vars, lists, cc, g⟩ :=
    ⟨hb.1, hb.2.elim (fun h => Or.inl h.1) (fun h => Or.inr h.1)⟩
  rw [viewSt_fresh hf]
  rfl

def putS (sh : Shared WH) (d : DictAttr) (l' : Dict) (gone : Dict) : Shared WH :=
  match d with
  | .cache => { sh with cache := l', heap := worldOps.drop sh.heap (strongRefs .cache gone) }
  | .expiredCache => { sh with expiredCache := l', heap := worldOps.drop sh.heap (strongRefs .expiredCache gone) }

theorem putDict_buf {sh : Shared WH} {cc g : Option Nat} {h : Nat} (hb : Buf sh cc g h) (ctl : Ctl) (K : List Frame)
    (vars : List (Option Val)) (lists : List (List Val)) (d : DictAttr) (l' gone : Dict) :
    putDict worldOps { sh with hold := h } ⟨ctl, K, vars, lists, cc, g⟩ d l' gone =
      some (putS { sh with hold := h } d l' gone) := by
  rcases hb.2 with ⟨rfl, _⟩ | ⟨rfl, _⟩ <;> cases d <;> simp [putDict, putS]

section unload
variable {sh : Shared WH} {cc g : Option Nat} {h : Nat} (hg : Good sh) (hb : Buf sh cc g h) (ctl : Ctl)
  (K : List Frame) (vars : List (Option Val)) (lists : List (List Val))
include hg hb

theorem unload_id : unload { sh with hold := h } ⟨ctl, K, vars, lists, cc, g⟩ = sh := by
  cases sh; simp only [Good] at hg
  rcases hb.2 with ⟨rfl, rfl⟩ | ⟨rfl, rfl⟩ <;> simp [unload, hg.1]

theorem unload_setInt (a : IntAttr) (n : Nat) :
    unload (setIntS { sh with hold := h } a n) ⟨ctl, K, vars, lists, cc, g⟩ = setIntS sh a n := by
  cases sh; simp only [Good] at hg
  rcases hb.2 with ⟨rfl, rfl⟩ | ⟨rfl, rfl⟩ <;> cases a <;> simp [unload, setIntS, hg.1]

theorem unload_put (d : DictAttr) (l' gone : Dict) :
    unload (putS { sh with hold := h } d l' gone) ⟨ctl, K, vars, lists, cc, g⟩ = putS sh d l' gone := by
  cases sh; simp only [Good] at hg
  rcases hb.2 with ⟨rfl, rfl⟩ | ⟨rfl, rfl⟩ <;> cases d <;> simp [unload, putS, hg.1]

theorem unload_owner (o : Option Tid) :
    unload { sh with hold := h, owner := o } ⟨ctl, K, vars, lists, cc, g⟩ = { sh with owner := o } := by
  cases sh; simp only [Good] at hg
  rcases hb.2 with ⟨rfl, rfl⟩ | ⟨rfl, rfl⟩ <;> simp [unload, hg.1]

theorem unload_exp (l : Dict) :
    unload { sh with hold := h, expiredCache := l } ⟨ctl, K, vars, lists, cc, g⟩ = { sh with expiredCache := l } := by
  cases sh; simp only [Good] at hg
  rcases hb.2 with ⟨rfl, rfl⟩ | ⟨rfl, rfl⟩ <;> simp [unload, hg.1]
end unload


def SimpleOK (s : Stmt) : Prop :=
  ∀ (call : String → World → Outcome) (meths : Meths) (t : Tid) (held : Bool) (rest : Block) (K : List Frame)
    (vars : List (Option Val)) (lists : List (List Val)) (sh : Shared WH) (cc g : Option Nat) (h : Nat),
    Good sh → (held = true → sh.owner = some t) → Buf sh cc g h →
    (g ≠ none → ∃ k, stmtDict (stOf sh vars lists) s = some (.cache, k) ∧ k ≠ .swap) →
    Post1 s sh (execStmt worldOps meths t { sh with hold := h } ⟨.run (.cons s rest), K, vars, lists, cc, g⟩ s rest)
      K rest (fun sh' => Fr t sh sh' (lockFreeS s) (fun d => noWriteS d s) (heldAfterS held s))
      (s.exec call (stOf sh vars lists))

theorem Fr.of_eq {t : Tid} {sh sh' : Shared WH} {held : Bool} (lf : Bool) (nw : DictAttr → Bool) (ho : Bool)
    (hg : Good sh) (hh : held = true → sh.owner = some t)
    (h1 : sh'.hold = sh.hold) (h2 : sh'.olds = sh.olds) (h3 : sh'.owner = sh.owner)
    (h4 : ∀ d, nw d = true → dictOf sh' d = dictOf sh d) (h5 : ho = true → held = true) : Fr t sh sh' lf nw ho :=
  ⟨⟨h1.trans hg.1, h2.trans hg.2⟩, fun _ => h3, h4, fun h => h3.trans (hh (h5 h))⟩

@[simp] theorem keepV_world (sh : Shared WH) (e : Expr) (v : Val) : keepV worldOps sh e v = sh := by
  unfold keepV; split <;> rfl

theorem fin_eq (m0 m' : MTh) (sh' : Shared WH) : fin m0 m' sh' = some (m'.clr, unload sh' m0) := rfl

theorem heldAfterS_held {held : Bool} {s : Stmt} (hs : s ≠ .acquire) : heldAfterS held s = true → held = true := by
  cases s <;> simp_all [heldAfterS]

theorem heldAfterS_held2 {held : Bool} {s : Stmt} (h : heldAfterS held s = true) (hs : s ≠ .acquire) : held = true :=
  heldAfterS_held hs h

theorem assign_ok (x : Nat) (e : Expr) : SimpleOK (.assign x e) := by
  intro call meths t held rest K vars lists sh cc g h hg hh hb hk
  simp only [execStmt, Stmt.exec, viewSt_buf hb, eval_relErase, keepV_world]
  cases he : e.eval (stOf sh vars lists) <;> simp only [Post1, fin_eq, unload_id hg hb]
  · exact ⟨_, rfl, rfl, Fr.of_eq _ _ _ hg hh rfl rfl rfl (fun _ _ => rfl) (heldAfterS_held nofun)⟩
  · exact ⟨_, rfl, rfl, Fr.of_eq _ _ _ hg hh rfl rfl rfl (fun _ _ => rfl) (heldAfterS_held nofun)⟩


theorem worldOf_setInt (sh : Shared WH) (a : IntAttr) (n : Nat) :
    worldOf (setIntS sh a n) = { worldOf sh with self := (worldOf sh).self.setInt a n } := by
  cases a <;> rfl

theorem worldOf_putS (sh : Shared WH) (vars : List (Option Val)) (lists : List (List Val)) (d : DictAttr)
    (l' gone : Dict) : worldOf (putS sh d l' gone) = ((stOf sh vars lists).putDict d l' gone).w := by
  cases d <;> rfl

theorem Fr.setInt {t : Tid} {sh : Shared WH} {held : Bool} (lf : Bool) (nw : DictAttr → Bool) (ho : Bool)
    (hg : Good sh) (hh : held = true → sh.owner = some t) (a : IntAttr) (n : Nat) (h5 : ho = true → held = true) :
    Fr t sh (setIntS sh a n) lf nw ho := by
  apply Fr.of_eq lf nw ho hg hh _ _ _ _ h5 <;> cases a <;> intros <;> rfl

theorem Fr.putS {t : Tid} {sh : Shared WH} {held : Bool} (lf : Bool) (nw : DictAttr → Bool) (ho : Bool)
    (hg : Good sh) (hh : held = true → sh.owner = some t) (d : DictAttr) (l' gone : Dict)
    (h4 : ∀ d', nw d' = true → d ≠ d') (h5 : ho = true → held = true) :
    Fr t sh (putS sh d l' gone) lf nw ho := by
  apply Fr.of_eq lf nw ho hg hh _ _ _ _ h5
  · cases d <;> rfl
  · cases d <;> rfl
  · cases d <;> rfl
  · intro d' hd'
    have := h4 d' hd'
    cases d <;> cases d' <;> first | rfl | exact absurd rfl this

macro "simple_simp" hb:term : tactic => `(tactic|
  simp only [execStmt, Stmt.exec, viewSt_buf $hb, eval_relErase, keepV_world, relErase_getList, relErase_self,
     putDict_buf $hb])

macro "fr_id" : tactic => `(tactic|
  exact ⟨_, rfl, rfl, Fr.of_eq _ _ _ ‹Good _› ‹_ = true → _› rfl rfl rfl (fun _ _ => rfl) (heldAfterS_held nofun)⟩)

theorem pass_ok : SimpleOK .pass := by
  intro call meths t held rest K vars lists sh cc g h hg hh hb hk
  simple_simp hb
  simp only [Post1, fin_eq, unload_id hg hb]
  fr_id

theorem retNone_ok : SimpleOK .retNone := by
  intro call meths t held rest K vars lists sh cc g h hg hh hb hk
  simple_simp hb
  simp only [Post1, fin_eq, unload_id hg hb]
  fr_id

theorem listEmpty_ok (l : Nat) : SimpleOK (.listEmpty l) := by
  intro call meths t held rest K vars lists sh cc g h hg hh hb hk
  simple_simp hb
  simp only [Post1, fin_eq, unload_id hg hb]
  fr_id

theorem ret_ok (e : Expr) : SimpleOK (.ret e) := by
  intro call meths t held rest K vars lists sh cc g h hg hh hb hk
  simple_simp hb
  cases he : e.eval (stOf sh vars lists) <;> simp only [Post1, fin_eq, unload_id hg hb] <;> fr_id

theorem retList_ok (l : Nat) : SimpleOK (.retList l) := by
  intro call meths t held rest K vars lists sh cc g h hg hh hb hk
  simple_simp hb
  cases he : (stOf sh vars lists).getList l <;> simp only [Post1, fin_eq, unload_id hg hb]
  fr_id

theorem listKeys_ok (l : Nat) (d : DictAttr) : SimpleOK (.listKeys l d) := by
  intro call meths t held rest K vars lists sh cc g h hg hh hb hk
  simple_simp hb
  cases he : (stOf sh vars lists).w.self.getDict d <;> simp only [Post1, fin_eq, unload_id hg hb]
  fr_id

theorem listValues_ok (l : Nat) (d : DictAttr) : SimpleOK (.listValues l d) := by
  intro call meths t held rest K vars lists sh cc g h hg hh hb hk
  simple_simp hb
  cases he : (stOf sh vars lists).w.self.getDict d <;> simp only [Post1, fin_eq, unload_id hg hb]
  fr_id

theorem listAppend_ok (l : Nat) (e : Expr) : SimpleOK (.listAppend l e) := by
  intro call meths t held rest K vars lists sh cc g h hg hh hb hk
  simple_simp hb
  cases hl : (stOf sh vars lists).getList l <;> cases he : e.eval (stOf sh vars lists) <;>
    simp only [Post1, fin_eq, unload_id hg hb] <;> fr_id

theorem setAttr_ok (a : IntAttr) (e : Expr) : SimpleOK (.setAttr a e) := by
  intro call meths t held rest K vars lists sh cc g h hg hh hb hk
  simple_simp hb
  cases he : e.eval (stOf sh vars lists) with
  | ok v =>
    cases v <;> simp only [Post1, fin_eq, unload_setInt hg hb]
    exact ⟨_, rfl, worldOf_setInt _ _ _, Fr.setInt _ _ _ hg hh _ _ (heldAfterS_held nofun)⟩
  | exc x => simp only [Post1, fin_eq, unload_id hg hb]; fr_id
  | stuck => simp only [Post1]


theorem dictDel_ok (d : DictAttr) (k : Expr) : SimpleOK (.dictDel d k) := by
  intro call meths t held rest K vars lists sh cc g h hg hh hb hk
  simple_simp hb
  cases he : k.eval (stOf sh vars lists) with
  | ok v =>
    cases v <;> simp only [Post1]
    rename_i kk
    cases hd : (stOf sh vars lists).w.self.getDict d with
    | none => simp only [Post1]
    | some l =>
      dsimp only
      by_cases hdk : dhasKey kk l = true
      · simp only [hdk, if_true, Post1, fin_eq, unload_put hg hb]
        exact ⟨_, rfl, worldOf_putS _ _ _ _ _ _,
          Fr.putS _ _ _ hg hh _ _ _ (fun d' h => by simpa [noWriteS] using h) (heldAfterS_held nofun)⟩
      · simp only [hdk, if_false, Bool.false_eq_true, Post1, fin_eq, unload_id hg hb]; fr_id
  | exc x => simp only [Post1, fin_eq, unload_id hg hb]; fr_id
  | stuck => simp only [Post1]


theorem dictPop_ok (d : DictAttr) (k : Expr) : SimpleOK (.dictPop d k) := by
  intro call meths t held rest K vars lists sh cc g h hg hh hb hk
  simple_simp hb
  cases he : k.eval (stOf sh vars lists) with
  | ok v =>
    cases v <;> simp only [Post1]
    rename_i kk
    cases hd : (stOf sh vars lists).w.self.getDict d with
    | none => simp only [Post1]
    | some l =>
      simp only [Post1, fin_eq, unload_put hg hb]
      exact ⟨_, rfl, worldOf_putS _ _ _ _ _ _,
        Fr.putS _ _ _ hg hh _ _ _ (fun d' h => by simpa [noWriteS] using h) (heldAfterS_held nofun)⟩
  | exc x => simp only [Post1, fin_eq, unload_id hg hb]; fr_id
  | stuck => simp only [Post1]

theorem dictClear_ok (d : DictAttr) : SimpleOK (.dictClear d) := by
  intro call meths t held rest K vars lists sh cc g h hg hh hb hk
  simple_simp hb
  cases hd : (stOf sh vars lists).w.self.getDict d with
  | none => simp only [Post1]
  | some l =>
    simp only [Post1, fin_eq, unload_put hg hb]
    exact ⟨_, rfl, worldOf_putS _ _ _ _ _ _,
      Fr.putS _ _ _ hg hh _ _ _ (fun d' h => by simpa [noWriteS] using h) (heldAfterS_held nofun)⟩

theorem dictSet_ok (d : DictAttr) (k v : Expr) : SimpleOK (.dictSet d k v) := by
  intro call meths t held rest K vars lists sh cc g h hg hh hb hk
  simple_simp hb
  cases he : k.eval (stOf sh vars lists) with
  | ok kv =>
    cases kv <;> simp only [Post1]
    rename_i kk
    cases hv : v.eval (stOf sh vars lists) with
    | ok vv =>
      dsimp only
      cases hu : unwrap d vv with
      | none => simp only [Post1]
      | some hd =>
        cases hd : (stOf sh vars lists).w.self.getDict d with
        | none => simp only [Post1]
        | some l =>
          have hgo : ∀ d' : DictAttr, (fun d_1 => noWriteS d_1 (Stmt.dictSet d k v)) d' = true → d ≠ d' :=
            fun d' h => by simpa [noWriteS] using h
          rcases hb.2 with ⟨hg1, hg2⟩ | ⟨hg1, hg2⟩ <;> subst hg1 <;> subst hg2 <;> cases d <;>
            simp only [Post1, fin_eq, unload_put hg hb, if_true] <;>
            exact ⟨_, rfl, worldOf_putS _ _ _ _ _ _, Fr.putS _ _ _ hg hh _ _ _ hgo (heldAfterS_held nofun)⟩
    | exc x => simp only [Post1, fin_eq, unload_id hg hb]; fr_id
    | stuck => simp only [Post1]
  | exc x => simp only [Post1, fin_eq, unload_id hg hb]; fr_id
  | stuck => simp only [Post1]


theorem release_nil (w : World) : w.release [] = w := by
  cases w; simp [World.release]

theorem dictNew_ok (d : DictAttr) : SimpleOK (.dictNew d) := by
  intro call meths t held rest K vars lists sh cc g h hg hh hb hk
  cases d with
  | cache =>
    have hgn : g = none := by
      cases g with
      | none => rfl
      | some g' =>
        obtain ⟨k, hk1, hk2⟩ := hk nofun
        simp [stmtDict] at hk1
        exact absurd hk1.symm hk2
    subst hgn
    rcases hb.2 with ⟨_, hh0⟩ | ⟨hc, _⟩
    · subst hh0
      simp only [execStmt, Stmt.exec, Post1, fin_eq, unload, hg.1, hg.2, if_true]
      refine ⟨_, rfl, ?_, ⟨rfl, rfl⟩, fun _ => rfl, ?_, ?_⟩
      · cases hdc : sh.doCache <;>
          simp [worldOf, selfOf, stOf, St.putDict, Self.getDict, Self.setDict, World.release, worldOps, hdc]
      · intro d' hd'
        cases d'
        · simp [noWriteS] at hd'
        · rfl
      · exact fun h => hh (heldAfterS_held (s := .dictNew .cache) nofun h)
    · cases hc
  | expiredCache =>
    simp only [execStmt, Stmt.exec, Post1, fin_eq, unload_exp hg hb]
    refine ⟨_, rfl, ?_, Fr.of_eq _ _ _ hg hh rfl rfl rfl ?_ (heldAfterS_held nofun)⟩
    · simp only [St.putDict, strongRefs, release_nil]; rfl
    · intro d' hd'
      cases d'
      · rfl
      · simp [noWriteS] at hd'

theorem owner_cases (sh : Shared WH) : sh.owner = none ∨ ∃ o, sh.owner = some o := by
  cases sh.owner <;> simp

theorem acquire_ok : SimpleOK .acquire := by
  intro call meths t held rest K vars lists sh cc g h hg hh hb hk
  simp only [execStmt, Stmt.exec]
  rcases owner_cases sh with ho | ⟨o, ho⟩
  · have : (stOf sh vars lists).w.self.lock = false := by simp [stOf, worldOf, selfOf, ho]
    simp only [ho, this, Bool.false_eq_true, if_false, Post1, fin_eq, unload_owner hg hb]
    refine ⟨_, rfl, ?_, hg, nofun, fun _ _ => rfl, fun _ => rfl⟩
    simp [worldOf, selfOf, stOf]
  · have : (stOf sh vars lists).w.self.lock = true := by simp [stOf, worldOf, selfOf, ho]
    simp only [ho, this, if_true, Post1]
    refine ⟨?_, ?_, ?_⟩ <;> first | trivial | rfl

theorem release_ok : SimpleOK .release := by
  intro call meths t held rest K vars lists sh cc g h hg hh hb hk
  simp only [execStmt, Stmt.exec]
  rcases owner_cases sh with ho | ⟨o, ho⟩
  · have : (stOf sh vars lists).w.self.lock = false := by simp [stOf, worldOf, selfOf, ho]
    simp only [ho, this, Bool.false_eq_true, if_false, Post1, fin_eq, unload_owner hg hb]
    refine ⟨_, rfl, ?_, hg, fun _ => ho.symm, fun _ _ => rfl, by simp [heldAfterS, lockFreeS]⟩
    simp [worldOf, selfOf, stOf, ho]
  · have : (stOf sh vars lists).w.self.lock = true := by simp [stOf, worldOf, selfOf, ho]
    simp only [ho, this, if_true, Post1, fin_eq, unload_owner hg hb]
    refine ⟨_, rfl, ?_, hg, nofun, fun _ _ => rfl, by simp [heldAfterS, lockFreeS]⟩
    simp [worldOf, selfOf, stOf]


/-! ## composing -/
theorem Post.of_reach {meths : Meths} {t : Tid} {c0 c : Cfg} {K : List Frame} {n : Ctl} {φ : Shared WH → Prop}
    {r : Res} (h : Reach meths t c0 c) (hp : Post meths t c K n φ r) : Post meths t c0 K n φ r := by
  cases r <;> simp only [Post] at hp ⊢
  · obtain ⟨sh', h1, h2⟩ := hp; exact ⟨sh', h.trans h1, h2⟩
  · obtain ⟨sh', h1, h2⟩ := hp; exact ⟨sh', h.trans h1, h2⟩
  · obtain ⟨sh', h1, h2⟩ := hp; exact ⟨sh', h.trans h1, h2⟩
  · obtain ⟨sh', h1, h2⟩ := hp; exact ⟨sh', h.trans h1, h2⟩
  · obtain ⟨c', h1, h2⟩ := hp; exact ⟨c', h.trans h1, h2⟩

/-- change the continuation: what the frames on top of `K'` do with each way of completing -/
theorem Post.cont {meths : Meths} {t : Tid} {c : Cfg} {K K' : List Frame} {n n' : Ctl} {φ ψ : Shared WH → Prop}
    {r : Res} (hp : Post meths t c K n φ r)
    (hn : ∀ st, r = .norm st → ∀ v l sh', Reach meths t (mk n K v l, sh') (mk n' K' v l, sh'))
    (hd : ∀ p v l sh', p ≠ .norm → Reach meths t (mk (.done p) K v l, sh') (mk (.done p) K' v l, sh'))
    (hφ : ∀ sh', φ sh' → ψ sh') : Post meths t c K' n' ψ r := by
  cases r <;> simp only [Post] at hp ⊢
  · obtain ⟨sh', h1, h2, h3⟩ := hp; exact ⟨sh', h1.trans (hn _ rfl _ _ _), h2, hφ _ h3⟩
  · obtain ⟨sh', h1, h2, h3⟩ := hp; exact ⟨sh', h1.trans (hd _ _ _ _ nofun), h2, hφ _ h3⟩
  · obtain ⟨sh', h1, h2, h3⟩ := hp; exact ⟨sh', h1.trans (hd _ _ _ _ nofun), h2, hφ _ h3⟩
  · obtain ⟨sh', h1, h2, h3⟩ := hp; exact ⟨sh', h1.trans (hd _ _ _ _ nofun), h2, hφ _ h3⟩
  · exact hp

theorem Post.mono {meths : Meths} {t : Tid} {c : Cfg} {K : List Frame} {n : Ctl} {φ ψ : Shared WH → Prop}
    {r : Res} (hp : Post meths t c K n φ r) (hφ : ∀ sh', φ sh' → ψ sh') : Post meths t c K n ψ r :=
  hp.cont (fun _ _ _ _ _ => Reach.refl _) (fun _ _ _ _ _ => Reach.refl _) hφ

theorem Fr.trans {t : Tid} {sh sh1 sh2 : Shared WH} {lf1 lf2 ho1 ho2 : Bool} {nw1 nw2 : DictAttr → Bool}
    (h1 : Fr t sh sh1 lf1 nw1 ho1) (h2 : Fr t sh1 sh2 lf2 nw2 ho2) :
    Fr t sh sh2 (lf1 && lf2) (fun d => nw1 d && nw2 d) ho2 := by
  refine ⟨h2.good, fun h => ?_, fun d h => ?_, h2.held⟩
  · simp at h; exact (h2.owner h.2).trans (h1.owner h.1)
  · simp at h; exact (h2.dict d h.2).trans (h1.dict d h.1)

theorem Fr.weaken {t : Tid} {sh sh' : Shared WH} {lf lf' ho ho' held : Bool} {nw nw' : DictAttr → Bool}
    (h : Fr t sh sh' lf nw ho) (hh : held = true → sh.owner = some t) (h1 : lf' = true → lf = true)
    (h2 : ∀ d, nw' d = true → nw d = true) (h3 : ho' = true → (held = true ∧ lf = true) ∨ ho = true) :
    Fr t sh sh' lf' nw' ho' := by
  refine ⟨h.good, fun x => h.owner (h1 x), fun d x => h.dict d (h2 d x), fun x => ?_⟩
  rcases h3 x with ⟨a, b⟩ | a
  · exact (h.owner b).trans (hh a)
  · exact h.held a

theorem Fr.refl {t : Tid} {sh : Shared WH} (hg : Good sh) (lf : Bool) (nw : DictAttr → Bool) :
    Fr t sh sh lf nw false :=
  ⟨hg, fun _ => rfl, fun _ _ => rfl, nofun⟩

theorem stOf_eq {sh : Shared WH} {st : St} (h : worldOf sh = st.w) : stOf sh st.vars st.lists = st := by
  cases st; simp only [stOf] at h ⊢; rw [h]

def StmtOK (call : String → World → Outcome) (meths : Meths) (t : Tid) (s : Stmt) : Prop :=
  ∀ (held : Bool) (rest : Block) (K : List Frame) (vars : List (Option Val)) (lists : List (List Val))
    (sh : Shared WH), Good sh → (held = true → sh.owner = some t) → seqOKS held s = true →
    Post meths t (mk (.run (.cons s rest)) K vars lists, sh) K (.run rest)
      (fun sh' => Fr t sh sh' (lockFreeS s) (fun d => noWriteS d s) (heldAfterS held s))
      (s.exec call (stOf sh vars lists))

def BlockOK (call : String → World → Outcome) (meths : Meths) (t : Tid) (b : Block) : Prop :=
  ∀ (held : Bool) (K : List Frame) (vars : List (Option Val)) (lists : List (List Val))
    (sh : Shared WH), Good sh → (held = true → sh.owner = some t) → seqOKB held b = true →
    Post meths t (mk (.run b) K vars lists, sh) K (.done .norm)
      (fun sh' => Fr t sh sh' (lockFreeB b) (fun d => noWriteB d b) false)
      (b.exec call (stOf sh vars lists))

theorem stmtOK_of_simple {call : String → World → Outcome} {meths : Meths} {t : Tid} {s : Stmt}
    (hs : SimpleOK s) : StmtOK call meths t s := by
  intro held rest K vars lists sh hg hh _
  obtain ⟨cc, g, h, hr, hm, hcc, hgh⟩ := prefetch meths t s rest K vars lists sh hg
  have hb : Buf sh cc g h := ⟨hcc, hgh.elim (fun x => Or.inl x) (fun x => Or.inr ⟨x.1, x.2.1⟩)⟩
  have hk : g ≠ none → ∃ k, stmtDict (stOf sh vars lists) s = some (.cache, k) ∧ k ≠ .swap := by
    intro hne
    rcases hgh with ⟨x, _⟩ | ⟨_, _, x⟩
    · exact absurd x hne
    · exact x
  have := hs call meths t held rest K vars lists sh cc g h hg hh hb hk
  generalize s.exec call (stOf sh vars lists) = r at this ⊢
  cases r <;> simp only [Post1, Post] at this ⊢
  · obtain ⟨sh', ho, hw⟩ := this; exact ⟨sh', hr.trans (Reach.one (hm.trans ho)), hw⟩
  · obtain ⟨sh', ho, hw⟩ := this; exact ⟨sh', hr.trans (Reach.one (hm.trans ho)), hw⟩
  · obtain ⟨sh', ho, hw⟩ := this; exact ⟨sh', hr.trans (Reach.one (hm.trans ho)), hw⟩
  · obtain ⟨sh', ho, hw⟩ := this; exact ⟨sh', hr.trans (Reach.one (hm.trans ho)), hw⟩
  · obtain ⟨ho, hs, hw⟩ := this
    subst hs
    exact ⟨_, hr, ⟨⟨rest, rfl⟩, hm.trans ho⟩, hw⟩

theorem block_nil_ok {call : String → World → Outcome} {meths : Meths} {t : Tid} : BlockOK call meths t .nil := by
  intro held K vars lists sh hg hh _
  simp only [Block.exec, Post]
  exact ⟨sh, Reach.one rfl, rfl, Fr.refl hg _ _⟩

theorem block_cons_ok {call : String → World → Outcome} {meths : Meths} {t : Tid} {s : Stmt} {rest : Block}
    (h1 : StmtOK call meths t s) (h2 : BlockOK call meths t rest) : BlockOK call meths t (.cons s rest) := by
  intro held K vars lists sh hg hh hok
  simp only [seqOKB, Bool.and_eq_true] at hok
  have hp := h1 held rest K vars lists sh hg hh hok.1
  have hw : ∀ sh', Fr t sh sh' (lockFreeS s) (fun d => noWriteS d s) (heldAfterS held s) →
      Fr t sh sh' (lockFreeB (.cons s rest)) (fun d => noWriteB d (.cons s rest)) false := fun sh' hf =>
    hf.weaken hh (by simp [lockFreeB]; exact fun a _ => a) (by simp [noWriteB]; exact fun _ a _ => a) nofun
  rw [Block.exec]
  cases hr : s.exec call (stOf sh vars lists) with
  | norm st' =>
    rw [hr] at hp
    obtain ⟨sh1, hr1, hw1, hf1⟩ := hp
    dsimp only
    have hp2 := h2 (heldAfterS held s) K st'.vars st'.lists sh1 hf1.good hf1.held hok.2
    rw [stOf_eq hw1] at hp2
    refine (hp2.of_reach hr1).mono fun sh' hf2 => ?_
    exact (hf1.trans hf2).weaken hh (by simp [lockFreeB]) (by simp [noWriteB]) nofun
  | ret st' v => rw [hr] at hp; exact hp.cont (fun _ h => nomatch h) (fun _ _ _ _ _ => Reach.refl _) hw
  | retList st' l => rw [hr] at hp; exact hp.cont (fun _ h => nomatch h) (fun _ _ _ _ _ => Reach.refl _) hw
  | exc st' e => rw [hr] at hp; exact hp.cont (fun _ h => nomatch h) (fun _ _ _ _ _ => Reach.refl _) hw
  | deadlock st' => rw [hr] at hp; exact hp
  | stuck => trivial


/-! ## compound statements -/
section compound
variable {call : String → World → Outcome} {meths : Meths} {t : Tid}

theorem first_step {s : Stmt} {rest : Block} {K : List Frame} {vars : List (Option Val)} {lists : List (List Val)}
    {sh : Shared WH} (hg : Good sh) (m' : MTh)
    (hex : ∀ cc g h, Buf sh cc g h →
      execStmt worldOps meths t { sh with hold := h } ⟨.run (.cons s rest), K, vars, lists, cc, g⟩ s rest =
        some (m', sh)) :
    Reach meths t (mk (.run (.cons s rest)) K vars lists, sh) (m', sh) := by
  obtain ⟨cc, g, h, hr, hm, hcc, hgh⟩ := prefetch meths t s rest K vars lists sh hg
  have hb : Buf sh cc g h := ⟨hcc, hgh.elim (fun x => Or.inl x) (fun x => Or.inr ⟨x.1, x.2.1⟩)⟩
  exact hr.trans (Reach.one (hm.trans (hex cc g h hb)))

theorem pop_seq_norm (sh : Shared WH) (b : Block) (K : List Frame) (v : List (Option Val)) (l : List (List Val)) :
    Reach meths t (mk (.done .norm) (.seq b :: K) v l, sh) (mk (.run b) K v l, sh) := Reach.one rfl

theorem pop_seq_abn (sh : Shared WH) (b : Block) (K : List Frame) (v : List (Option Val)) (l : List (List Val))
    (p : Pending) (hp : p ≠ .norm) :
    Reach meths t (mk (.done p) (.seq b :: K) v l, sh) (mk (.done p) K v l, sh) := by
  cases p <;> first | exact Reach.one rfl | exact absurd rfl hp

theorem Post.seq_cont {c : Cfg} {K : List Frame} {rest : Block} {φ ψ : Shared WH → Prop} {r : Res}
    (hp : Post meths t c (.seq rest :: K) (.done .norm) φ r) (hφ : ∀ sh', φ sh' → ψ sh') :
    Post meths t c K (.run rest) ψ r :=
  hp.cont (fun _ _ _ _ _ => pop_seq_norm _ _ _ _ _) (fun _ _ _ _ h => pop_seq_abn _ _ _ _ _ _ h) hφ

theorem ite_ok {c : Cond} {tb eb : Block} (iht : BlockOK call meths t tb) (ihe : BlockOK call meths t eb) :
    StmtOK call meths t (.ite c tb eb) := by
  intro held rest K vars lists sh hg hh hok
  simp only [seqOKS, Bool.and_eq_true] at hok
  rw [Stmt.exec]
  cases hc : c.eval (stOf sh vars lists) with
  | ok b =>
    cases b with
    | true =>
      dsimp only
      have h1 : Reach meths t (mk (.run (.cons (.ite c tb eb) rest)) K vars lists, sh)
          (mk (.run tb) (.seq rest :: K) vars lists, sh) := first_step hg _ fun cc g h hb => by
        simp only [execStmt, viewSt_buf hb, cond_relErase, hc, fin_eq, unload_id hg hb]; rfl
      refine ((iht held _ vars lists sh hg hh hok.1).of_reach h1).seq_cont fun sh' hf => ?_
      exact hf.weaken hh (by simp [lockFreeS]; exact fun a _ => a) (by simp [noWriteS]; exact fun _ a _ => a)
        (by simp [heldAfterS, lockFreeS]; exact fun a b _ => ⟨a, b⟩)
    | false =>
      dsimp only
      have h1 : Reach meths t (mk (.run (.cons (.ite c tb eb) rest)) K vars lists, sh)
          (mk (.run eb) (.seq rest :: K) vars lists, sh) := first_step hg _ fun cc g h hb => by
        simp only [execStmt, viewSt_buf hb, cond_relErase, hc, fin_eq, unload_id hg hb]; rfl
      refine ((ihe held _ vars lists sh hg hh hok.2).of_reach h1).seq_cont fun sh' hf => ?_
      exact hf.weaken hh (by simp [lockFreeS]) (by simp [noWriteS])
        (by simp [heldAfterS, lockFreeS]; exact fun a _ b => ⟨a, b⟩)
  | exc e =>
    have h1 : Reach meths t (mk (.run (.cons (.ite c tb eb) rest)) K vars lists, sh)
        (mk (.done (.exc e)) K vars lists, sh) := first_step hg _ fun cc g h hb => by
      simp only [execStmt, viewSt_buf hb, cond_relErase, hc, fin_eq, unload_id hg hb]; rfl
    exact ⟨sh, h1, rfl, (Fr.refl hg true (fun _ => true)).weaken hh (fun _ => rfl) (fun _ _ => rfl)
      (fun h => Or.inl ⟨heldAfterS_held2 h nofun, rfl⟩)⟩
  | stuck => trivial


macro "flags" : tactic => `(tactic|
  (simp only [lockFreeS, noWriteS, heldAfterS, lockFreeB, noWriteB, Bool.and_eq_true, Bool.and_true, Bool.true_and]
   <;> grind))

/-- after a first part that went from `sh` to `sh1`: run block `b2`, then the rest of the enclosing block -/
theorem then_block {sh sh1 : Shared WH} {lf1 ho1 held2 : Bool} {nw1 : DictAttr → Bool} {st1 : St} {b2 rest : Block}
    {K : List Frame} (hf1 : Fr t sh sh1 lf1 nw1 ho1) (hw1 : worldOf sh1 = st1.w) (ih : BlockOK call meths t b2)
    (hh2 : held2 = true → sh1.owner = some t) (hok2 : seqOKB held2 b2 = true) :
    Post meths t (mk (.run b2) (.seq rest :: K) st1.vars st1.lists, sh1) K (.run rest)
      (fun sh' => Fr t sh sh' (lf1 && lockFreeB b2) (fun d => nw1 d && noWriteB d b2) false) (b2.exec call st1) := by
  have hp := ih held2 (.seq rest :: K) st1.vars st1.lists sh1 hf1.good hh2 hok2
  rw [stOf_eq hw1] at hp
  exact hp.seq_cont fun sh' hf2 => hf1.trans hf2

theorem tryKey_ok {body handler orelse : Block} (ihb : BlockOK call meths t body)
    (ihh : BlockOK call meths t handler) (iho : BlockOK call meths t orelse) :
    StmtOK call meths t (.tryKey body handler orelse) := by
  intro held rest K vars lists sh hg hh hok
  simp only [seqOKS, Bool.and_eq_true] at hok
  obtain ⟨⟨hok1, hok2⟩, hok3⟩ := hok
  have h1 : Reach meths t (mk (.run (.cons (.tryKey body handler orelse) rest)) K vars lists, sh)
      (mk (.run body) (.tryKey handler orelse :: .seq rest :: K) vars lists, sh) := first_step hg _ fun cc g h hb => by
    simp only [execStmt, fin_eq, unload_id hg hb]; rfl
  have hp := (ihb held (.tryKey handler orelse :: .seq rest :: K) vars lists sh hg hh hok1).of_reach h1
  rw [Stmt.exec]
  cases hr : body.exec call (stOf sh vars lists) with
  | norm st1 =>
    rw [hr] at hp
    obtain ⟨sh1, hr1, hw1, hf1⟩ := hp
    dsimp only
    have h2 : Reach meths t (mk (.done .norm) (.tryKey handler orelse :: .seq rest :: K) st1.vars st1.lists, sh1)
        (mk (.run orelse) (.seq rest :: K) st1.vars st1.lists, sh1) := Reach.one rfl
    refine ((then_block (rest := rest) (K := K) hf1 hw1 iho ?_ hok3).of_reach (hr1.trans h2)).mono fun sh' hf => ?_
    · intro h; simp at h; exact (hf1.owner h.2).trans (hh h.1)
    · exact hf.weaken hh (by flags) (by flags) (by flags)
  | exc st1 e =>
    rw [hr] at hp
    obtain ⟨sh1, hr1, hw1, hf1⟩ := hp
    cases e
    case keyError =>
      dsimp only
      have h2 : Reach meths t (mk (.done (.exc .keyError)) (.tryKey handler orelse :: .seq rest :: K) st1.vars st1.lists, sh1)
          (mk (.run handler) (.seq rest :: K) st1.vars st1.lists, sh1) := Reach.one rfl
      refine ((then_block (rest := rest) (K := K) hf1 hw1 ihh ?_ hok2).of_reach (hr1.trans h2)).mono fun sh' hf => ?_
      · intro h; simp at h; exact (hf1.owner h.2).trans (hh h.1)
      · exact hf.weaken hh (by flags) (by flags) (by flags)
    all_goals
      dsimp only
      refine ⟨sh1, hr1.trans (Reach.step (c' := (mk (.done (.exc _)) (.seq rest :: K) st1.vars st1.lists, sh1)) rfl
        (pop_seq_abn _ _ _ _ _ _ nofun)), hw1, hf1.weaken hh (by flags) (by flags) (by flags)⟩
  | ret st1 v =>
    rw [hr] at hp
    obtain ⟨sh1, hr1, hw1, hf1⟩ := hp
    exact ⟨sh1, hr1.trans (Reach.step (c' := (mk (.done (.ret v)) (.seq rest :: K) st1.vars st1.lists, sh1)) rfl
      (pop_seq_abn _ _ _ _ _ _ nofun)), hw1, hf1.weaken hh (by flags) (by flags) (by flags)⟩
  | retList st1 v =>
    rw [hr] at hp
    obtain ⟨sh1, hr1, hw1, hf1⟩ := hp
    exact ⟨sh1, hr1.trans (Reach.step (c' := (mk (.done (.retList v)) (.seq rest :: K) st1.vars st1.lists, sh1)) rfl
      (pop_seq_abn _ _ _ _ _ _ nofun)), hw1, hf1.weaken hh (by flags) (by flags) (by flags)⟩
  | deadlock st1 => rw [hr] at hp; exact hp
  | stuck => trivial


def finWrap (p : Pending) (st : St) : Res :=
  match p with
  | .norm => .norm st
  | .ret v => .ret st v
  | .retList l => .retList st l
  | .exc e => .exc st e

def finRes (p : Pending) : Res → Res
  | .norm st => finWrap p st
  | r => r

theorem pop_finEnd_abn (sh : Shared WH) (q : Pending) (K : List Frame) (v : List (Option Val)) (l : List (List Val))
    (p : Pending) (hp : p ≠ .norm) :
    Reach meths t (mk (.done p) (.finEnd q :: K) v l, sh) (mk (.done p) K v l, sh) := by
  cases p <;> first | exact Reach.one rfl | exact absurd rfl hp

theorem fin_phase {c : Cfg} {K : List Frame} {rest : Block} {φ : Shared WH → Prop} {r : Res} (p : Pending)
    (hp : Post meths t c (.finEnd p :: .seq rest :: K) (.done .norm) φ r) :
    Post meths t c K (.run rest) φ (finRes p r) := by
  cases r with
  | norm st =>
    obtain ⟨sh', h1, h2, h3⟩ := hp
    have h4 : Reach meths t (mk (.done .norm) (.finEnd p :: .seq rest :: K) st.vars st.lists, sh')
        (mk (.done p) (.seq rest :: K) st.vars st.lists, sh') := Reach.one rfl
    cases p with
    | norm => exact ⟨sh', (h1.trans h4).trans (pop_seq_norm _ _ _ _ _), h2, h3⟩
    | ret v => exact ⟨sh', (h1.trans h4).trans (pop_seq_abn _ _ _ _ _ _ nofun), h2, h3⟩
    | retList v => exact ⟨sh', (h1.trans h4).trans (pop_seq_abn _ _ _ _ _ _ nofun), h2, h3⟩
    | exc v => exact ⟨sh', (h1.trans h4).trans (pop_seq_abn _ _ _ _ _ _ nofun), h2, h3⟩
  | ret st v =>
    exact hp.cont (fun _ h => nomatch h)
      (fun q v l sh' hq => (pop_finEnd_abn _ _ _ _ _ _ hq).trans (pop_seq_abn _ _ _ _ _ _ hq)) (fun _ h => h)
  | retList st v =>
    exact hp.cont (fun _ h => nomatch h)
      (fun q v l sh' hq => (pop_finEnd_abn _ _ _ _ _ _ hq).trans (pop_seq_abn _ _ _ _ _ _ hq)) (fun _ h => h)
  | exc st v =>
    exact hp.cont (fun _ h => nomatch h)
      (fun q v l sh' hq => (pop_finEnd_abn _ _ _ _ _ _ hq).trans (pop_seq_abn _ _ _ _ _ _ hq)) (fun _ h => h)
  | deadlock st => exact hp
  | stuck => trivial

/-- the `finally` block after a body that went from `sh` to `sh1` and completed with `p` -/
theorem then_fin {sh sh1 : Shared WH} {lf1 ho1 held2 : Bool} {nw1 : DictAttr → Bool} {st1 : St} {b2 rest : Block}
    {K : List Frame} (p : Pending) (hf1 : Fr t sh sh1 lf1 nw1 ho1) (hw1 : worldOf sh1 = st1.w)
    (ih : BlockOK call meths t b2) (hh2 : held2 = true → sh1.owner = some t) (hok2 : seqOKB held2 b2 = true) :
    Post meths t (mk (.done p) (.tryFin b2 :: .seq rest :: K) st1.vars st1.lists, sh1) K (.run rest)
      (fun sh' => Fr t sh sh' (lf1 && lockFreeB b2) (fun d => nw1 d && noWriteB d b2) false)
      (finRes p (b2.exec call st1)) := by
  have hp := ih held2 (.finEnd p :: .seq rest :: K) st1.vars st1.lists sh1 hf1.good hh2 hok2
  rw [stOf_eq hw1] at hp
  have h2 : Reach meths t (mk (.done p) (.tryFin b2 :: .seq rest :: K) st1.vars st1.lists, sh1)
      (mk (.run b2) (.finEnd p :: .seq rest :: K) st1.vars st1.lists, sh1) := Reach.one rfl
  exact ((fin_phase p hp).of_reach h2).mono fun sh' hf2 => hf1.trans hf2

theorem tryFinally_ok {body f : Block} (ihb : BlockOK call meths t body) (ihf : BlockOK call meths t f) :
    StmtOK call meths t (.tryFinally body f) := by
  intro held rest K vars lists sh hg hh hok
  simp only [seqOKS, Bool.and_eq_true] at hok
  obtain ⟨hok1, hok2⟩ := hok
  have h1 : Reach meths t (mk (.run (.cons (.tryFinally body f) rest)) K vars lists, sh)
      (mk (.run body) (.tryFin f :: .seq rest :: K) vars lists, sh) := first_step hg _ fun cc g h hb => by
    simp only [execStmt, fin_eq, unload_id hg hb]; rfl
  have hp := (ihb held (.tryFin f :: .seq rest :: K) vars lists sh hg hh hok1).of_reach h1
  rw [Stmt.exec]
  cases hr : body.exec call (stOf sh vars lists) with
  | norm st1 =>
    rw [hr] at hp
    obtain ⟨sh1, hr1, hw1, hf1⟩ := hp
    have := ((then_fin (rest := rest) (K := K) .norm hf1 hw1 ihf
      (fun h => by simp at h; exact (hf1.owner h.2).trans (hh h.1)) hok2).of_reach hr1).mono
      fun sh' hf => hf.weaken (lf' := lockFreeS (.tryFinally body f)) (nw' := fun d => noWriteS d (.tryFinally body f))
        (ho' := heldAfterS held (.tryFinally body f)) hh (by flags) (by flags) (by flags)
    dsimp only
    revert this
    cases f.exec call st1 <;> exact id
  | ret st1 v =>
    rw [hr] at hp
    obtain ⟨sh1, hr1, hw1, hf1⟩ := hp
    have := ((then_fin (rest := rest) (K := K) (.ret v) hf1 hw1 ihf
      (fun h => by simp at h; exact (hf1.owner h.2).trans (hh h.1)) hok2).of_reach hr1).mono
      fun sh' hf => hf.weaken (lf' := lockFreeS (.tryFinally body f)) (nw' := fun d => noWriteS d (.tryFinally body f))
        (ho' := heldAfterS held (.tryFinally body f)) hh (by flags) (by flags) (by flags)
    dsimp only
    revert this
    cases f.exec call st1 <;> exact id
  | retList st1 v =>
    rw [hr] at hp
    obtain ⟨sh1, hr1, hw1, hf1⟩ := hp
    have := ((then_fin (rest := rest) (K := K) (.retList v) hf1 hw1 ihf
      (fun h => by simp at h; exact (hf1.owner h.2).trans (hh h.1)) hok2).of_reach hr1).mono
      fun sh' hf => hf.weaken (lf' := lockFreeS (.tryFinally body f)) (nw' := fun d => noWriteS d (.tryFinally body f))
        (ho' := heldAfterS held (.tryFinally body f)) hh (by flags) (by flags) (by flags)
    dsimp only
    revert this
    cases f.exec call st1 <;> exact id
  | exc st1 v =>
    rw [hr] at hp
    obtain ⟨sh1, hr1, hw1, hf1⟩ := hp
    have := ((then_fin (rest := rest) (K := K) (.exc v) hf1 hw1 ihf
      (fun h => by simp at h; exact (hf1.owner h.2).trans (hh h.1)) hok2).of_reach hr1).mono
      fun sh' hf => hf.weaken (lf' := lockFreeS (.tryFinally body f)) (nw' := fun d => noWriteS d (.tryFinally body f))
        (ho' := heldAfterS held (.tryFinally body f)) hh (by flags) (by flags) (by flags)
    dsimp only
    revert this
    cases f.exec call st1 <;> exact id
  | deadlock st1 => rw [hr] at hp; exact hp
  | stuck => trivial


/-! ### loops over a list computed at loop entry -/
theorem pop_loopList_abn (sh : Shared WH) (x : Nat) (body : Block) (vs : List Val) (K : List Frame)
    (v : List (Option Val)) (l : List (List Val)) (p : Pending) (hp : p ≠ .norm) :
    Reach meths t (mk (.done p) (.loopList x body vs :: K) v l, sh) (mk (.done p) K v l, sh) := by
  cases p <;> first | exact Reach.one rfl | exact absurd rfl hp

theorem loopList_ok {α : Type} (g : α → Val) {x : Nat} {body : Block} (ihb : BlockOK call meths t body)
    (heldb : Bool) (hokb : seqOKB heldb body = true) (hlf : heldb = true → lockFreeB body = true) :
    ∀ (vs : List α) (K : List Frame) (vars : List (Option Val)) (lists : List (List Val)) (sh : Shared WH),
      Good sh → (heldb = true → sh.owner = some t) →
      Post meths t (mk (.done .norm) (.loopList x body (vs.map g) :: K) vars lists, sh) K (.done .norm)
        (fun sh' => Fr t sh sh' (lockFreeB body) (fun d => noWriteB d body) false)
        (forLoop (fun st v => body.exec call (st.setVar x (g v))) vs (stOf sh vars lists)) := by
  intro vs
  induction vs with
  | nil =>
    intro K vars lists sh hg hh
    exact ⟨sh, Reach.one rfl, rfl, Fr.refl hg _ _⟩
  | cons v vs ih =>
    intro K vars lists sh hg hh
    have h1 : Reach meths t (mk (.done .norm) (.loopList x body ((v :: vs).map g) :: K) vars lists, sh)
        (mk (.run body) (.loopList x body (vs.map g) :: K) (vars.set x (some (g v))) lists, sh) := Reach.one rfl
    have hp := (ihb heldb (.loopList x body (vs.map g) :: K) (vars.set x (some (g v))) lists sh hg hh hokb).of_reach h1
    rw [forLoop]
    have hst : stOf sh (vars.set x (some (g v))) lists = (stOf sh vars lists).setVar x (g v) := rfl
    rw [hst] at hp
    cases hr : body.exec call ((stOf sh vars lists).setVar x (g v)) with
    | norm st1 =>
      rw [hr] at hp
      obtain ⟨sh1, hr1, hw1, hf1⟩ := hp
      dsimp only
      have hp2 := ih K st1.vars st1.lists sh1 hf1.good (fun h => (hf1.owner (hlf h)).trans (hh h))
      rw [stOf_eq hw1] at hp2
      exact (hp2.of_reach hr1).mono fun sh' hf2 =>
        (hf1.trans hf2).weaken (held := false) nofun (by simp) (by simp) nofun
    | ret st1 r =>
      rw [hr] at hp
      exact hp.cont (fun _ h => nomatch h) (fun q v l sh' hq => pop_loopList_abn _ _ _ _ _ _ _ _ hq) (fun _ h => h)
    | retList st1 r =>
      rw [hr] at hp
      exact hp.cont (fun _ h => nomatch h) (fun q v l sh' hq => pop_loopList_abn _ _ _ _ _ _ _ _ hq) (fun _ h => h)
    | exc st1 r =>
      rw [hr] at hp
      exact hp.cont (fun _ h => nomatch h) (fun q v l sh' hq => pop_loopList_abn _ _ _ _ _ _ _ _ hq) (fun _ h => h)
    | deadlock st1 => rw [hr] at hp; exact hp
    | stuck => trivial

theorem forList_ok {x l : Nat} {body : Block} (ihb : BlockOK call meths t body) :
    StmtOK call meths t (.forList x l body) := by
  intro held rest K vars lists sh hg hh hok
  simp only [seqOKS] at hok
  rw [Stmt.exec]
  cases hl : (stOf sh vars lists).getList l with
  | none => trivial
  | some vs =>
    dsimp only
    have h1 : Reach meths t (mk (.run (.cons (.forList x l body) rest)) K vars lists, sh)
        (mk (.done .norm) (.loopList x body (vs.map fun v => v) :: .seq rest :: K) vars lists, sh) :=
      first_step hg _ fun cc g h hb => by
        simp only [execStmt, viewSt_buf hb, relErase_getList, hl, fin_eq, unload_id hg hb, List.map_id']; rfl
    have hp := loopList_ok (x := x) (fun v => v) ihb (held && lockFreeB body) hok (by simp) vs (.seq rest :: K) vars lists sh hg
      (fun h => by simp at h; exact hh h.1)
    exact (hp.of_reach h1).seq_cont fun sh' hf => hf.weaken hh (by flags) (by flags) (by flags)

theorem forRange_ok {x : Nat} {a b c : Expr} {body : Block} (ihb : BlockOK call meths t body) :
    StmtOK call meths t (.forRange x a b c body) := by
  intro held rest K vars lists sh hg hh hok
  simp only [seqOKS] at hok
  rw [Stmt.exec]
  split
  · rename_i av bv cv ha hb' hc
    by_cases hc0 : cv = 0
    · simp only [hc0, if_true]
      have h1 : Reach meths t (mk (.run (.cons (.forRange x a b c body) rest)) K vars lists, sh)
          (mk (.done (.exc .valueError)) K vars lists, sh) := first_step hg _ fun cc g h hb => by
        simp only [execStmt, viewSt_buf hb, eval_relErase, ha, hb', hc, hc0, if_true, fin_eq, unload_id hg hb]; rfl
      exact ⟨sh, h1, rfl, (Fr.refl hg true (fun _ => true)).weaken hh (fun _ => rfl) (fun _ _ => rfl)
        (fun h => Or.inl ⟨heldAfterS_held2 h nofun, rfl⟩)⟩
    · simp only [hc0, if_false]
      have h1 : Reach meths t (mk (.run (.cons (.forRange x a b c body) rest)) K vars lists, sh)
          (mk (.done .norm) (.loopList x body ((pyRange av bv cv).map Val.int) :: .seq rest :: K) vars lists, sh) :=
        first_step hg _ fun cc g h hb => by
          simp only [execStmt, viewSt_buf hb, eval_relErase, ha, hb', hc, hc0, if_false, fin_eq, unload_id hg hb]; rfl
      have hp := loopList_ok (x := x) Val.int ihb (held && lockFreeB body) hok (by simp) (pyRange av bv cv) (.seq rest :: K)
        vars lists sh hg (fun h => by simp at h; exact hh h.1)
      exact (hp.of_reach h1).seq_cont fun sh' hf => hf.weaken hh (by flags) (by flags) (by flags)
  · trivial


/-! ### loops over a live dict -/
theorem micro_loopItems_next {sh : Shared WH} {d : DictAttr} {es : Dict} {pos : Nat} {e : Nat × Nat}
    (hd : dictOf sh d = some es) (he : es[pos]? = some e) (k v : Nat) (body : Block) (K : List Frame)
    (vars : List (Option Val)) (lists : List (List Val)) :
    micro worldOps meths t sh (mk (.done .norm) (.loopItems k v d body pos es.length :: K) vars lists) =
      some (mk (.run body) (.loopItems k v d body (pos + 1) es.length :: K) ((vars.set k (some (.key e.1))).set v (some (wrap d e.2))) lists, sh) := by
  have hv : (viewSelf sh (mk (.done .norm) (.loopItems k v d body pos es.length :: K) vars lists)).getDict d = some es := by
    rw [viewSelf_fresh ⟨Or.inl rfl, Or.inl rfl⟩]; exact hd
  simp only [micro, mk, doneStep] at hv ⊢
  simp only [hv, he, bne_self_eq_false, Bool.false_eq_true, if_false]

theorem micro_loopItems_end {sh : Shared WH} {d : DictAttr} {es : Dict} {pos : Nat}
    (hd : dictOf sh d = some es) (he : es[pos]? = none) (k v : Nat) (body : Block) (K : List Frame)
    (vars : List (Option Val)) (lists : List (List Val)) :
    micro worldOps meths t sh (mk (.done .norm) (.loopItems k v d body pos es.length :: K) vars lists) =
      some (mk (.done .norm) K vars lists, sh) := by
  have hv : (viewSelf sh (mk (.done .norm) (.loopItems k v d body pos es.length :: K) vars lists)).getDict d = some es := by
    rw [viewSelf_fresh ⟨Or.inl rfl, Or.inl rfl⟩]; exact hd
  simp only [micro, mk, doneStep] at hv ⊢
  simp only [hv, he, bne_self_eq_false, Bool.false_eq_true, if_false]

theorem pop_loopItems_abn (sh : Shared WH) (k v : Nat) (d : DictAttr) (body : Block) (pos used : Nat) (K : List Frame)
    (vs : List (Option Val)) (ls : List (List Val)) (p : Pending) (hp : p ≠ .norm) :
    Reach meths t (mk (.done p) (.loopItems k v d body pos used :: K) vs ls, sh) (mk (.done p) K vs ls, sh) := by
  cases p <;> first | exact Reach.one rfl | exact absurd rfl hp

theorem loopItems_ok {k v : Nat} {d : DictAttr} {body : Block} (ihb : BlockOK call meths t body)
    (heldb : Bool) (hokb : seqOKB heldb body = true) (hlf : heldb = true → lockFreeB body = true)
    (hnw : noWriteB d body = true) (es : Dict) :
    ∀ (rem : Dict) (pos : Nat) (K : List Frame) (vars : List (Option Val)) (lists : List (List Val))
      (sh : Shared WH), Good sh → (heldb = true → sh.owner = some t) → dictOf sh d = some es → es.drop pos = rem →
      Post meths t (mk (.done .norm) (.loopItems k v d body pos es.length :: K) vars lists, sh) K (.done .norm)
        (fun sh' => Fr t sh sh' (lockFreeB body) (fun d => noWriteB d body) false)
        (forLoop (fun st e => body.exec call ((st.setVar k (.key e.1)).setVar v (wrap d e.2))) rem (stOf sh vars lists)) := by
  intro rem
  induction rem with
  | nil =>
    intro pos K vars lists sh hg hh hd hrem
    have he : es[pos]? = none := by
      have := List.drop_eq_nil_iff.mp hrem
      exact List.getElem?_eq_none this
    exact ⟨sh, Reach.one (micro_loopItems_end hd he _ _ _ _ _ _), rfl, Fr.refl hg _ _⟩
  | cons e rem ih =>
    intro pos K vars lists sh hg hh hd hrem
    have he : es[pos]? = some e := by
      have := List.getElem?_drop (xs := es) (i := pos) (j := 0)
      rw [hrem] at this
      simpa using this.symm
    have hrem' : es.drop (pos + 1) = rem := by
      have := List.drop_drop (i := 1) (j := pos) (l := es)
      rw [hrem] at this
      simpa [Nat.add_comm] using this.symm
    have h1 := Reach.one (meths := meths) (t := t) (c := (_, sh)) (micro_loopItems_next hd he k v body K vars lists)
    have hp := (ihb heldb _ _ lists sh hg hh hokb).of_reach h1
    rw [forLoop]
    have hst : stOf sh ((vars.set k (some (.key e.1))).set v (some (wrap d e.2))) lists = (let st := stOf sh vars lists; (st.setVar k (.key e.1)).setVar v (wrap d e.2)) := rfl
    rw [hst] at hp
    dsimp only at hp
    cases hr : body.exec call (let st := stOf sh vars lists; (st.setVar k (.key e.1)).setVar v (wrap d e.2)) with
    | norm st1 =>
      dsimp only at hr
      rw [hr] at hp
      obtain ⟨sh1, hr1, hw1, hf1⟩ := hp
      dsimp only
      have hp2 := ih (pos + 1) K st1.vars st1.lists sh1 hf1.good (fun h => (hf1.owner (hlf h)).trans (hh h))
        ((hf1.dict d hnw).trans hd) hrem'
      rw [stOf_eq hw1] at hp2
      exact (hp2.of_reach hr1).mono fun sh' hf2 =>
        (hf1.trans hf2).weaken (held := false) nofun (by simp) (by simp) nofun
    | ret st1 r =>
      dsimp only at hr
      rw [hr] at hp
      exact hp.cont (fun _ h => nomatch h) (fun q v l sh' hq => pop_loopItems_abn _ _ _ _ _ _ _ _ _ _ _ hq) (fun _ h => h)
    | retList st1 r =>
      dsimp only at hr
      rw [hr] at hp
      exact hp.cont (fun _ h => nomatch h) (fun q v l sh' hq => pop_loopItems_abn _ _ _ _ _ _ _ _ _ _ _ hq) (fun _ h => h)
    | exc st1 r =>
      dsimp only at hr
      rw [hr] at hp
      exact hp.cont (fun _ h => nomatch h) (fun q v l sh' hq => pop_loopItems_abn _ _ _ _ _ _ _ _ _ _ _ hq) (fun _ h => h)
    | deadlock st1 => dsimp only at hr; rw [hr] at hp; exact hp
    | stuck => trivial

theorem forItems_ok {k v : Nat} {d : DictAttr} {body : Block} (ihb : BlockOK call meths t body) :
    StmtOK call meths t (.forItems k v d body) := by
  intro held rest K vars lists sh hg hh hok
  simp only [seqOKS, Bool.and_eq_true, Bool.or_eq_true] at hok
  obtain ⟨⟨hown, hnw⟩, hokb⟩ := hok
  have hcond : ((d == .cache) && (sh.owner != some t)) = false := by
    rcases hown with h | h
    · cases d <;> simp at h ⊢
    · simp [hh h]
  rw [Stmt.exec]
  cases hd : (stOf sh vars lists).w.self.getDict d with
  | none => trivial
  | some es =>
    dsimp only
    have h1 : Reach meths t (mk (.run (.cons (.forItems k v d body) rest)) K vars lists, sh)
        (mk (.done .norm) (.loopItems k v d body 0 es.length :: .seq rest :: K) vars lists, sh) :=
      first_step hg _ fun cc g h hb => by
        simp only [execStmt, viewSt_buf hb, relErase_self, hd, hcond, Bool.false_eq_true, if_false, fin_eq,
          unload_id hg hb]; rfl
    have hp := loopItems_ok (k := k) (v := v) ihb (held && lockFreeB body) hokb (by simp) hnw es es 0 (.seq rest :: K) vars lists
      sh hg (fun h => by simp at h; exact hh h.1) hd rfl
    exact (hp.of_reach h1).seq_cont fun sh' hf => hf.weaken hh (by flags) (by flags) (by flags)

theorem micro_loopValues_next {sh : Shared WH} {d : DictAttr} {es : Dict} {pos : Nat} {e : Nat × Nat}
    (hd : dictOf sh d = some es) (he : es[pos]? = some e) (v : Nat) (body : Block) (K : List Frame)
    (vars : List (Option Val)) (lists : List (List Val)) :
    micro worldOps meths t sh (mk (.done .norm) (.loopValues v d body pos es.length :: K) vars lists) =
      some (mk (.run body) (.loopValues v d body (pos + 1) es.length :: K) (vars.set v (some (wrap d e.2))) lists, sh) := by
  have hv : (viewSelf sh (mk (.done .norm) (.loopValues v d body pos es.length :: K) vars lists)).getDict d = some es := by
    rw [viewSelf_fresh ⟨Or.inl rfl, Or.inl rfl⟩]; exact hd
  simp only [micro, mk, doneStep] at hv ⊢
  simp only [hv, he, bne_self_eq_false, Bool.false_eq_true, if_false]

theorem micro_loopValues_end {sh : Shared WH} {d : DictAttr} {es : Dict} {pos : Nat}
    (hd : dictOf sh d = some es) (he : es[pos]? = none) (v : Nat) (body : Block) (K : List Frame)
    (vars : List (Option Val)) (lists : List (List Val)) :
    micro worldOps meths t sh (mk (.done .norm) (.loopValues v d body pos es.length :: K) vars lists) =
      some (mk (.done .norm) K vars lists, sh) := by
  have hv : (viewSelf sh (mk (.done .norm) (.loopValues v d body pos es.length :: K) vars lists)).getDict d = some es := by
    rw [viewSelf_fresh ⟨Or.inl rfl, Or.inl rfl⟩]; exact hd
  simp only [micro, mk, doneStep] at hv ⊢
  simp only [hv, he, bne_self_eq_false, Bool.false_eq_true, if_false]

theorem pop_loopValues_abn (sh : Shared WH) (v : Nat) (d : DictAttr) (body : Block) (pos used : Nat) (K : List Frame)
    (vs : List (Option Val)) (ls : List (List Val)) (p : Pending) (hp : p ≠ .norm) :
    Reach meths t (mk (.done p) (.loopValues v d body pos used :: K) vs ls, sh) (mk (.done p) K vs ls, sh) := by
  cases p <;> first | exact Reach.one rfl | exact absurd rfl hp

theorem loopValues_ok {v : Nat} {d : DictAttr} {body : Block} (ihb : BlockOK call meths t body)
    (heldb : Bool) (hokb : seqOKB heldb body = true) (hlf : heldb = true → lockFreeB body = true)
    (hnw : noWriteB d body = true) (es : Dict) :
    ∀ (rem : Dict) (pos : Nat) (K : List Frame) (vars : List (Option Val)) (lists : List (List Val))
      (sh : Shared WH), Good sh → (heldb = true → sh.owner = some t) → dictOf sh d = some es → es.drop pos = rem →
      Post meths t (mk (.done .norm) (.loopValues v d body pos es.length :: K) vars lists, sh) K (.done .norm)
        (fun sh' => Fr t sh sh' (lockFreeB body) (fun d => noWriteB d body) false)
        (forLoop (fun st e => body.exec call (st.setVar v (wrap d e.2))) rem (stOf sh vars lists)) := by
  intro rem
  induction rem with
  | nil =>
    intro pos K vars lists sh hg hh hd hrem
    have he : es[pos]? = none := by
      have := List.drop_eq_nil_iff.mp hrem
      exact List.getElem?_eq_none this
    exact ⟨sh, Reach.one (micro_loopValues_end hd he _ _ _ _ _), rfl, Fr.refl hg _ _⟩
  | cons e rem ih =>
    intro pos K vars lists sh hg hh hd hrem
    have he : es[pos]? = some e := by
      have := List.getElem?_drop (xs := es) (i := pos) (j := 0)
      rw [hrem] at this
      simpa using this.symm
    have hrem' : es.drop (pos + 1) = rem := by
      have := List.drop_drop (i := 1) (j := pos) (l := es)
      rw [hrem] at this
      simpa [Nat.add_comm] using this.symm
    have h1 := Reach.one (meths := meths) (t := t) (c := (_, sh)) (micro_loopValues_next hd he v body K vars lists)
    have hp := (ihb heldb _ _ lists sh hg hh hokb).of_reach h1
    rw [forLoop]
    have hst : stOf sh (vars.set v (some (wrap d e.2))) lists = (let st := stOf sh vars lists; st.setVar v (wrap d e.2)) := rfl
    rw [hst] at hp
    dsimp only at hp
    cases hr : body.exec call (let st := stOf sh vars lists; st.setVar v (wrap d e.2)) with
    | norm st1 =>
      dsimp only at hr
      rw [hr] at hp
      obtain ⟨sh1, hr1, hw1, hf1⟩ := hp
      dsimp only
      have hp2 := ih (pos + 1) K st1.vars st1.lists sh1 hf1.good (fun h => (hf1.owner (hlf h)).trans (hh h))
        ((hf1.dict d hnw).trans hd) hrem'
      rw [stOf_eq hw1] at hp2
      exact (hp2.of_reach hr1).mono fun sh' hf2 =>
        (hf1.trans hf2).weaken (held := false) nofun (by simp) (by simp) nofun
    | ret st1 r =>
      dsimp only at hr
      rw [hr] at hp
      exact hp.cont (fun _ h => nomatch h) (fun q v l sh' hq => pop_loopValues_abn _ _ _ _ _ _ _ _ _ _ hq) (fun _ h => h)
    | retList st1 r =>
      dsimp only at hr
      rw [hr] at hp
      exact hp.cont (fun _ h => nomatch h) (fun q v l sh' hq => pop_loopValues_abn _ _ _ _ _ _ _ _ _ _ hq) (fun _ h => h)
    | exc st1 r =>
      dsimp only at hr
      rw [hr] at hp
      exact hp.cont (fun _ h => nomatch h) (fun q v l sh' hq => pop_loopValues_abn _ _ _ _ _ _ _ _ _ _ hq) (fun _ h => h)
    | deadlock st1 => dsimp only at hr; rw [hr] at hp; exact hp
    | stuck => trivial

theorem forValues_ok {v : Nat} {d : DictAttr} {body : Block} (ihb : BlockOK call meths t body) :
    StmtOK call meths t (.forValues v d body) := by
  intro held rest K vars lists sh hg hh hok
  simp only [seqOKS, Bool.and_eq_true, Bool.or_eq_true] at hok
  obtain ⟨⟨hown, hnw⟩, hokb⟩ := hok
  have hcond : ((d == .cache) && (sh.owner != some t)) = false := by
    rcases hown with h | h
    · cases d <;> simp at h ⊢
    · simp [hh h]
  rw [Stmt.exec]
  cases hd : (stOf sh vars lists).w.self.getDict d with
  | none => trivial
  | some es =>
    dsimp only
    have h1 : Reach meths t (mk (.run (.cons (.forValues v d body) rest)) K vars lists, sh)
        (mk (.done .norm) (.loopValues v d body 0 es.length :: .seq rest :: K) vars lists, sh) :=
      first_step hg _ fun cc g h hb => by
        simp only [execStmt, viewSt_buf hb, relErase_self, hd, hcond, Bool.false_eq_true, if_false, fin_eq,
          unload_id hg hb]; rfl
    have hp := loopValues_ok (v := v) ihb (held && lockFreeB body) hokb (by simp) hnw es es 0 (.seq rest :: K) vars lists
      sh hg (fun h => by simp at h; exact hh h.1) hd rfl
    exact (hp.of_reach h1).seq_cont fun sh' hf => hf.weaken hh (by flags) (by flags) (by flags)


/-! ### `self.m()` -/
/-- what the big-step semantics is told about `self.name()` (`call`) is what the method table `meths` of the
    small-step machine does: outside the fragment, or the body `p` run with fresh locals, `p` calling nothing -/
def CalleeOK (call : String → World → Outcome) (meths : Meths) (t : Tid) (name : String) : Prop :=
  (∀ w, call name w = .stuck) ∨
  ∃ p nl nli, meths name = some (p, nl, nli) ∧ (∀ w, call name w = PyCache.run noCall p [] nl nli w) ∧
    BlockOK noCall meths t p ∧ seqOKB false p = true

theorem callSelf_ok {name : String} (hc : CalleeOK call meths t name) : StmtOK call meths t (.callSelf name) := by
  intro held rest K vars lists sh hg hh _
  rw [Stmt.exec]
  rcases hc with hc | ⟨p, nl, nli, hm, hc, ihp, hokp⟩
  · rw [hc]; trivial
  · have h1 : Reach meths t (mk (.run (.cons (.callSelf name) rest)) K vars lists, sh)
        (mk (.run p) (.call vars lists :: .seq rest :: K) (List.replicate nl none) (List.replicate nli []), sh) :=
      first_step hg _ fun cc g h hb => by
        simp only [execStmt, hm, fin_eq, unload_id hg hb]; rfl
    have hp := (ihp false (.call vars lists :: .seq rest :: K) (List.replicate nl none) (List.replicate nli []) sh hg
      nofun hokp).of_reach h1
    have hw : ∀ sh', Fr t sh sh' (lockFreeB p) (fun d => noWriteB d p) false →
        Fr t sh sh' (lockFreeS (.callSelf name)) (fun d => noWriteS d (.callSelf name))
          (heldAfterS held (.callSelf name)) := fun sh' hf =>
      ⟨hf.good, nofun, nofun, by simp [heldAfterS, lockFreeS]⟩
    rw [hc]
    simp only [PyCache.run, stOf, List.map_nil, List.nil_append] at hp ⊢
    generalize Block.exec noCall _ p = r at hp
    cases r with
    | norm st1 =>
      obtain ⟨sh1, hr1, hw1, hf1⟩ := hp
      exact ⟨sh1, (hr1.trans (Reach.one rfl)).trans (pop_seq_norm _ _ _ _ _), hw1, hw _ hf1⟩
    | ret st1 v =>
      obtain ⟨sh1, hr1, hw1, hf1⟩ := hp
      exact ⟨sh1, (hr1.trans (Reach.one rfl)).trans (pop_seq_norm _ _ _ _ _), hw1, hw _ hf1⟩
    | retList st1 v =>
      obtain ⟨sh1, hr1, hw1, hf1⟩ := hp
      exact ⟨sh1, (hr1.trans (Reach.one rfl)).trans (pop_seq_norm _ _ _ _ _), hw1, hw _ hf1⟩
    | exc st1 e =>
      obtain ⟨sh1, hr1, hw1, hf1⟩ := hp
      exact ⟨sh1, (hr1.trans (Reach.one rfl)).trans (pop_seq_abn _ _ _ _ _ _ nofun), hw1, hw _ hf1⟩
    | deadlock st1 => exact hp
    | stuck => trivial

end compound

/-! ## every statement, every block -/
mutual
theorem stmt_ok {call : String → World → Outcome} {meths : Meths} {t : Tid}
    (hc : ∀ name, CalleeOK call meths t name) : ∀ s : Stmt, StmtOK call meths t s
  | .assign x e => stmtOK_of_simple (assign_ok x e)
  | .setAttr a e => stmtOK_of_simple (setAttr_ok a e)
  | .dictSet d k v => stmtOK_of_simple (dictSet_ok d k v)
  | .dictDel d k => stmtOK_of_simple (dictDel_ok d k)
  | .dictPop d k => stmtOK_of_simple (dictPop_ok d k)
  | .dictClear d => stmtOK_of_simple (dictClear_ok d)
  | .dictNew d => stmtOK_of_simple (dictNew_ok d)
  | .listKeys l d => stmtOK_of_simple (listKeys_ok l d)
  | .listValues l d => stmtOK_of_simple (listValues_ok l d)
  | .listEmpty l => stmtOK_of_simple (listEmpty_ok l)
  | .listAppend l e => stmtOK_of_simple (listAppend_ok l e)
  | .acquire => stmtOK_of_simple acquire_ok
  | .release => stmtOK_of_simple release_ok
  | .callSelf m => callSelf_ok (hc m)
  | .ite _ tb eb => ite_ok (block_ok hc tb) (block_ok hc eb)
  | .forList _ _ body => forList_ok (block_ok hc body)
  | .forRange _ _ _ _ body => forRange_ok (block_ok hc body)
  | .forItems _ _ _ body => forItems_ok (block_ok hc body)
  | .forValues _ _ body => forValues_ok (block_ok hc body)
  | .tryKey body handler orelse => tryKey_ok (block_ok hc body) (block_ok hc handler) (block_ok hc orelse)
  | .tryFinally body f => tryFinally_ok (block_ok hc body) (block_ok hc f)
  | .ret e => stmtOK_of_simple (ret_ok e)
  | .retNone => stmtOK_of_simple retNone_ok
  | .retList l => stmtOK_of_simple (retList_ok l)
  | .pass => stmtOK_of_simple pass_ok
theorem block_ok {call : String → World → Outcome} {meths : Meths} {t : Tid}
    (hc : ∀ name, CalleeOK call meths t name) : ∀ b : Block, BlockOK call meths t b
  | .nil => block_nil_ok
  | .cons s r => block_cons_ok (stmt_ok hc s) (block_ok hc r)
end

/-- how `CacheX.callTable` / `ConcX.meths` are related: `self.name()` is the table's program run with fresh
    locals, calling nothing -/
def CallTable (call : String → World → Outcome) (meths : Meths) : Prop :=
  ∀ name w, call name w = match meths name with
    | some (p, nl, nli) => PyCache.run noCall p [] nl nli w
    | none => .stuck

/-- the programs in the method table satisfy the side conditions (entered without knowing who owns the lock) -/
def MethsOK (meths : Meths) : Prop := ∀ name p nl nli, meths name = some (p, nl, nli) → seqOKB false p = true

theorem calleeOK_of_table {call : String → World → Outcome} {meths : Meths} (t : Tid)
    (hcall : CallTable call meths) (hm : MethsOK meths) (name : String) : CalleeOK call meths t name := by
  cases h : meths name with
  | none => exact Or.inl fun w => by rw [hcall, h]
  | some x =>
    obtain ⟨p, nl, nli⟩ := x
    exact Or.inr ⟨p, nl, nli, h, fun w => by rw [hcall, h], block_ok (fun _ => Or.inl fun _ => rfl) p,
      hm name p nl nli h⟩

/-- MAIN THEOREM.  A thread `t` running ALONE from a shared state with no alias of `self.cache` in flight
    (`Good sh`), inside any frame stack `K`, with any locals: if the big-step semantics of block `b` (from the
    abstraction `stOf sh vars lists` of the machine state) completes normally / returns / raises with final state
    `st'`, the small-step machine reaches, after finitely many `micro` steps, `done` with the matching `Pending`,
    the SAME stack `K`, the locals of `st'`, empty read buffers, and a shared state `sh'` with
    `worldOf sh' = st'.w` that is `Good` again (plus: owner / dicts untouched by code that does not touch them);
    if it deadlocks the machine reaches an `acquire` it cannot take (`Blocked`); `stuck`: no claim.
    `held` = "`t` is known to own the lock here" (needed for a loop over `self.cache`). -/
theorem smallstep_run_eq_bigstep {call : String → World → Outcome} {meths : Meths} (t : Tid)
    (hcall : CallTable call meths) (hm : MethsOK meths) (b : Block) (held : Bool) (K : List Frame)
    (vars : List (Option Val)) (lists : List (List Val)) (sh : Shared WH)
    (hg : Good sh) (hh : held = true → sh.owner = some t) (hok : seqOKB held b = true) :
    Post meths t (mk (.run b) K vars lists, sh) K (.done .norm)
      (fun sh' => Fr t sh sh' (lockFreeB b) (fun d => noWriteB d b) false)
      (b.exec call (stOf sh vars lists)) :=
  block_ok (calleeOK_of_table t hcall hm) b held K vars lists sh hg hh hok


/-! ## a whole method call -/
section whole
variable {call : String → World → Outcome} {meths : Meths} (t : Tid) (hcall : CallTable call meths)
  (hm : MethsOK meths) (prog : Block) (args : List Val) (nlocals nlists : Nat) (sh : Shared WH)
  (hg : Good sh) (hok : seqOKB false prog = true)
include hcall hm hg hok

theorem whole_post :
    Post meths t (MTh.start prog args nlocals nlists, sh) [] (.done .norm)
      (fun sh' => Fr t sh sh' (lockFreeB prog) (fun d => noWriteB d prog) false)
      (prog.exec call { w := worldOf sh, vars := args.map some ++ List.replicate nlocals none,
                        lists := List.replicate nlists [] }) :=
  smallstep_run_eq_bigstep t hcall hm prog false [] _ _ sh hg nofun hok

/-- `PyCache.run … = .ret w v`: the machine started by `MTh.start` finishes with `return v` (or falls off the end
    when `v = None`) in a shared state that abstracts to `w` -/
theorem run_ret {w : World} {v : Val} (h : PyCache.run call prog args nlocals nlists (worldOf sh) = .ret w v) :
    ∃ n m' sh', iter meths t n (MTh.start prog args nlocals nlists, sh) = some (m', sh') ∧
      (m'.result = some (.ret v) ∨ (m'.result = some .norm ∧ v = .none)) ∧ worldOf sh' = w ∧ Good sh' := by
  have hp := whole_post t hcall hm prog args nlocals nlists sh hg hok
  simp only [PyCache.run] at h
  generalize Block.exec call _ prog = r at hp h
  cases r <;> simp only [Res.toOutcome, Outcome.ret.injEq, reduceCtorEq] at h
  · obtain ⟨sh', ⟨n, hn⟩, hw, hf⟩ := hp
    exact ⟨n, _, sh', hn, Or.inr ⟨rfl, h.2.symm⟩, hw.trans h.1, hf.good⟩
  · obtain ⟨sh', ⟨n, hn⟩, hw, hf⟩ := hp
    obtain ⟨h1, h2⟩ := h; subst h2
    exact ⟨n, _, sh', hn, Or.inl rfl, hw.trans h1, hf.good⟩

theorem run_retList {w : World} {l : List Val}
    (h : PyCache.run call prog args nlocals nlists (worldOf sh) = .retList w l) :
    ∃ n m' sh', iter meths t n (MTh.start prog args nlocals nlists, sh) = some (m', sh') ∧
      m'.result = some (.retList l) ∧ worldOf sh' = w ∧ Good sh' := by
  have hp := whole_post t hcall hm prog args nlocals nlists sh hg hok
  simp only [PyCache.run] at h
  generalize Block.exec call _ prog = r at hp h
  cases r <;> simp only [Res.toOutcome, Outcome.retList.injEq, reduceCtorEq] at h
  obtain ⟨sh', ⟨n, hn⟩, hw, hf⟩ := hp
  obtain ⟨h1, h2⟩ := h; subst h2
  exact ⟨n, _, sh', hn, rfl, hw.trans h1, hf.good⟩

theorem run_exc {w : World} {e : Exc} (h : PyCache.run call prog args nlocals nlists (worldOf sh) = .exc w e) :
    ∃ n m' sh', iter meths t n (MTh.start prog args nlocals nlists, sh) = some (m', sh') ∧
      m'.result = some (.exc e) ∧ worldOf sh' = w ∧ Good sh' := by
  have hp := whole_post t hcall hm prog args nlocals nlists sh hg hok
  simp only [PyCache.run] at h
  generalize Block.exec call _ prog = r at hp h
  cases r <;> simp only [Res.toOutcome, Outcome.exc.injEq, reduceCtorEq] at h
  obtain ⟨sh', ⟨n, hn⟩, hw, hf⟩ := hp
  obtain ⟨h1, h2⟩ := h; subst h2
  exact ⟨n, _, sh', hn, rfl, hw.trans h1, hf.good⟩

/-- `.deadlock w`: the machine gets to a `self.lock.acquire()` it cannot take, in a state that abstracts to `w` -/
theorem run_deadlock {w : World} (h : PyCache.run call prog args nlocals nlists (worldOf sh) = .deadlock w) :
    ∃ n m' sh', iter meths t n (MTh.start prog args nlocals nlists, sh) = some (m', sh') ∧
      (∃ rest, m'.ctl = .run (.cons .acquire rest)) ∧ micro worldOps meths t sh' m' = none ∧ worldOf sh' = w := by
  have hp := whole_post t hcall hm prog args nlocals nlists sh hg hok
  simp only [PyCache.run] at h
  generalize Block.exec call _ prog = r at hp h
  cases r <;> simp only [Res.toOutcome, Outcome.deadlock.injEq, reduceCtorEq] at h
  obtain ⟨⟨m', sh'⟩, ⟨n, hn⟩, hb, hw⟩ := hp
  exact ⟨n, m', sh', hn, hb.1, hb.2, hw.trans h⟩
end whole

/-! ## the translated programs satisfy the side conditions -/
section extracted
open SqlObjVerif.PyCache.Extracted

theorem getProg_ok : seqOKB false getProg = true := by decide
theorem putProg_ok : seqOKB false putProg = true := by decide
theorem finishPutProg_ok : seqOKB false finishPutProg = true := by decide
theorem createdProg_ok : seqOKB false createdProg = true := by decide
theorem expireProg_ok : seqOKB false expireProg = true := by decide
theorem cullProg_ok : seqOKB false cullProg = true := by decide
theorem tryGetProg_ok : seqOKB false tryGetProg = true := by decide
theorem clearProg_ok : seqOKB false clearProg = true := by decide
theorem allIDsProg_ok : seqOKB false allIDsProg = true := by decide
theorem getAllProg_ok : seqOKB false getAllProg = true := by decide
/-- `expireAll` iterates `self.cache` — between its `acquire` and `release` -/
theorem expireAllProg_ok : seqOKB false expireAllProg = true := by decide

/-- the method table of `Model/ConcX.lean` is the call table of `Model/CacheX.lean` -/
theorem callTable_meths : CallTable Cache.callTable ConcX.meths := by
  intro name w
  unfold Cache.callTable ConcX.meths
  by_cases h : name = "cull" <;> simp [h] <;> rfl

theorem meths_ok : MethsOK ConcX.meths := by
  intro name p nl nli h
  unfold ConcX.meths at h
  by_cases hn : name = "cull" <;> simp [hn] at h
  rw [← h.1]; exact cullProg_ok

theorem noCall_table : CallTable noCall (fun _ => none) := fun _ _ => rfl
theorem none_ok : MethsOK (fun _ => none) := fun _ _ _ _ h => nomatch h
end extracted


/-! ## non-vacuity -/
section witness
open SqlObjVerif.PyCache.Extracted

/-- two cached objects, one expired entry whose object is gone, nobody holds the lock -/
def sh0 : Shared WH :=
  { cache := [(1, 10), (2, 20)], expiredCache := [(3, 30)], cullCount := 0, cullOffset := 0, cullFrequency := 100,
    cullFraction := 2, doCache := true, owner := none, gen := 0, hold := 0, olds := [],
    heap := { dead := fun h => h == 30, rel := fun _ => false, falsy := fun _ => false } }

structure Obs where
  result : Option Pending
  cache : Dict
  expiredCache : Dict
  cullOffset : Nat
  owner : Option Nat
  hold : Nat
  nolds : Nat
deriving DecidableEq, Repr

def obsS (c : Option Cfg) : Option Obs :=
  c.map fun c => ⟨c.1.result, c.2.cache, c.2.expiredCache, c.2.cullOffset, c.2.owner, c.2.hold, c.2.olds.length⟩

def obsB : Outcome → Option (Val × Dict × Dict × Nat × Bool)
  | .ret w v => some (v, w.self.cache, w.self.expiredCache, w.self.cullOffset, w.self.lock)
  | _ => none

/-- `cull()` by thread 7, micro-step by micro-step (33 of them): the dead expired entry is dropped, every second
    cached object is demoted to a weak reference, the lock is free again -/
example : obsS (iter ConcX.meths 7 33 (MTh.start cullProg [] cull_nlocals cull_nlists, sh0)) =
    some ⟨some .norm, [(2, 20)], [(1, 10)], 1, none, 0, 0⟩ := by decide
/-- … and by the big-step semantics -/
example : obsB (PyCache.run noCall cullProg [] cull_nlocals cull_nlists (worldOf sh0)) =
    some (.none, [(2, 20)], [(1, 10)], 1, false) := by decide

/-- `put(5, obj 50)` WITHOUT the lock: attribute load of `self.cache` (alias count 1), `d[5] = obj`, alias released -/
example : obsS (iter ConcX.meths 7 6 (MTh.start putProg [.key 5, .obj 50] put_nlocals put_nlists, sh0)) =
    some ⟨some .norm, [(1, 10), (2, 20), (5, 50)], [(3, 30)], 0, none, 0, 0⟩ := by decide
example : ((iter ConcX.meths 7 2 (MTh.start putProg [.key 5, .obj 50] put_nlocals put_nlists, sh0)).map
    fun c => (c.1.genSeen, c.2.hold)) = some (some 0, 1) := by decide
example : obsB (PyCache.run noCall putProg [.key 5, .obj 50] put_nlocals put_nlists (worldOf sh0)) =
    some (.none, [(1, 10), (2, 20), (5, 50)], [(3, 30)], 0, false) := by decide

/-- `get(3)` when a cull is due: calls `self.cull()` (61 micro-steps in all), misses, returns `None` holding the lock -/
example : obsS (iter ConcX.meths 7 61 (MTh.start getProg [.key 3] get_nlocals get_nlists, { sh0 with cullCount := 101 })) =
    some ⟨some (.ret .none), [(2, 20)], [(1, 10)], 1, some 7, 0, 0⟩ := by decide +kernel
theorem get3_big : obsB (PyCache.run Cache.callTable getProg [.key 3] get_nlocals get_nlists
    (worldOf { sh0 with cullCount := 101 })) = some (.none, [(2, 20)], [(1, 10)], 1, true) := by decide +kernel

theorem obsB_ret {o : Outcome} {v : Val} {c e : Dict} {n : Nat} {l : Bool} (h : obsB o = some (v, c, e, n, l)) :
    ∃ w, o = .ret w v ∧ w.self.cache = c := by
  cases o <;> simp [obsB] at h
  exact ⟨_, by rw [h.1], h.2.1⟩

/-- the theorem's hypotheses are satisfiable: its conclusion for that `get(3)` -/
example : ∃ n m' sh', iter ConcX.meths 7 n (MTh.start getProg [.key 3] get_nlocals get_nlists, { sh0 with cullCount := 101 })
      = some (m', sh') ∧ (m'.result = some (.ret .none) ∨ (m'.result = some .norm ∧ Val.none = .none)) ∧
      (worldOf sh').self.cache = [(2, 20)] ∧ Good sh' := by
  obtain ⟨w, h1, h2⟩ := obsB_ret get3_big
  obtain ⟨n, m', sh', hn, hr, hw, hg⟩ := run_ret 7 callTable_meths meths_ok getProg [.key 3] get_nlocals get_nlists
    { sh0 with cullCount := 101 } ⟨rfl, rfl⟩ getProg_ok h1
  exact ⟨n, m', sh', hn, hr, by rw [hw]; exact h2, hg⟩
end witness

end SqlObjVerif.PyCacheSS
