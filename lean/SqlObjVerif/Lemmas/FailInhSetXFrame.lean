import SqlObjVerif.Lemmas.FailCreateXFkFrame
import SqlObjVerif.Model.FailInhSetX
/-!
C06 — the frame theorem of the TRANSLATED `InheritableSQLObject.set` and of the translated setter `setfunc` of an
inherited column (`Model/FailInhSetX.lean`): for every program of the small fragment `PyInhSet`, every interface whose
two callees keep the ghost counter exact, every schedule: the ghost counter `changes` of the hand model's state never
decreases, and if it did not move, `core` is unchanged.
-/
namespace SqlObjVerif.FailInhSet
open SqlObjVerif.PyInhSet (Expr Cond Stmt Block)
open SqlObjVerif.PyInhSet.Extracted
open SqlObjVerif.PyMain (PDict)
open SqlObjVerif.PyFail (FW Outcome setFWith propCallT setValueF Fr OutFr)
open SqlObjVerif.Fail (Err Schema In clsOf)

def ResFr (w : FW) : Res → Prop
  | .norm st => Fr w.s st.w.s
  | .exc w' _ => Fr w.s w'.s
  | .deadlock w' => Fr w.s w'.s
  | .stuck => True

theorem ResFr.trans {w w' : FW} {r : Res} (h : Fr w.s w'.s) (hr : ResFr w' r) : ResFr w r := by
  cases r <;> first | trivial | exact Fr.trans h hr

theorem optRes_fr {α : Type} (w : FW) (o : Option α) (f : α → Res) (hf : ∀ a, ResFr w (f a)) :
    ResFr w (optRes o f) := by
  cases o with
  | some a => exact hf a
  | none => trivial

theorem afterCall_fr (o : Outcome) (st : St) (h : OutFr st.w o) : ResFr st.w (afterCall o st) := by
  cases o <;> exact h

/-- the two callees of the interface keep the ghost counter exact -/
structure Iface.Frame (I : Iface) : Prop where
  baseSet : ∀ b w d, OutFr w (I.baseSet b w d)
  setParentAttr : ∀ w p col v, OutFr w (I.setParentAttr w p col v)

theorem classCallOf_fr (I : Iface) (hI : I.Frame) (st : St) (cls m : String) (args : List Val) (kwn : List String)
    (kwv : List Val) (star : Option Val) : ResFr st.w (classCallOf I st cls m args kwn kwv star) := by
  unfold classCallOf
  split
  · split
    · split
      · exact afterCall_fr _ _ (hI.baseSet _ _ _)
      · trivial
    · trivial
  · trivial

theorem setattrOf_fr (I : Iface) (hI : I.Frame) (st : St) (obj name v : Val) :
    ResFr st.w (setattrOf I st obj name v) := by
  unfold setattrOf
  split
  · exact afterCall_fr _ _ (hI.setParentAttr _ _ _ _)
  · trivial

mutual
theorem execS_frame (I : Iface) (hI : I.Frame) : ∀ (s : Stmt) (st : St), ResFr st.w (execS I st s)
  | .assign x e, st => by
    rw [execS]; exact optRes_fr _ _ _ fun _ => Fr.refl _
  | .ite c t e, st => by
    rw [execS]
    refine optRes_fr _ _ _ fun b => ?_
    cases b
    · exact execB_frame I hI e st
    · exact execB_frame I hI t st
  | .send args, st => by
    rw [execS]; exact optRes_fr _ _ _ fun _ => Fr.refl _
  | .classCall cls m args kwn kwv star, st => by
    rw [execS]
    refine optRes_fr _ _ _ fun _ => optRes_fr _ _ _ fun _ => ?_
    cases star with
    | none => exact classCallOf_fr I hI _ _ _ _ _ _ _
    | some se => exact optRes_fr _ _ _ fun _ => classCallOf_fr I hI _ _ _ _ _ _ _
  | .setattr obj name v, st => by
    rw [execS]
    exact optRes_fr _ _ _ fun _ => optRes_fr _ _ _ fun _ => optRes_fr _ _ _ fun _ => setattrOf_fr I hI _ _ _ _
  | .pass, st => by rw [execS]; exact Fr.refl _
theorem execB_frame (I : Iface) (hI : I.Frame) : ∀ (b : Block) (st : St), ResFr st.w (execB I st b)
  | .nil, st => by rw [execB]; exact Fr.refl _
  | .cons s rest, st => by
    rw [execB]
    have h := execS_frame I hI s st
    generalize execS I st s = r at h
    cases r <;> try exact h
    exact ResFr.trans h (execB_frame I hI rest _)
end

/-- **Frame, for the fragment `PyInhSet`.** -/
theorem run_frame (I : Iface) (hI : I.Frame) (prog : Block) (args : List Val) (nlocals : Nat) (w : FW) :
    OutFr w (run I prog args nlocals w) := by
  unfold run
  have h := execB_frame I hI prog
    { w := w, env := args.map some ++ List.replicate (nlocals - args.length) Option.none }
  generalize execB I _ prog = r at h
  cases r <;> exact h

theorem setValueF_frame (w : FW) (col : Nat) (v : In) : OutFr w (setValueF w col v) :=
  PyFail.run_frameX PyFail.noCall PyFail.noCall_frame _ _ _ _ _ _ w

theorem backTo_frame (w w' : FW) (hs : w'.s = w.s) (c : Nat) (o : Outcome) (h : OutFr w' o) :
    OutFr w (backTo c o) := by
  cases o <;> first | trivial | (unfold OutFr at h; rw [hs] at h; exact h)

theorem assignOnParent_frame (rec : FW → Nat → Nat → In → Outcome) (hrec : ∀ w p col v, OutFr w (rec w p col v))
    (w : FW) (p col : Nat) (v : In) : OutFr w (assignOnParent rec w p col v) := by
  unfold assignOnParent
  split
  · trivial
  · rename_i p' _
    refine backTo_frame w { w with c := p' } rfl _ _ ?_
    split
    · exact setValueF_frame _ _ _
    · exact hrec _ _ _ _

theorem setfuncN_frame : ∀ (n : Nat) (w : FW) (p col : Nat) (v : In), OutFr w (setfuncN n w p col v)
  | 0, _, _, _, _ => by rw [setfuncN]; trivial
  | n + 1, w, p, col, v => by
    rw [setfuncN]
    apply run_frame
    exact ⟨fun _ _ _ => trivial, assignOnParent_frame _ (setfuncN_frame n)⟩

/-- **Frame, for the translated setter of an inherited column.** -/
theorem parentSetT_frame : ∀ w p col v, OutFr w (parentSetT w p col v) :=
  fun w p col v => setfuncN_frame _ w p col v

/-- **Frame, for the translated `InheritableSQLObject.set`.** -/
theorem inhSetF_frame (w : FW) (kw : PDict) : OutFr w (inhSetF w kw) := by
  unfold inhSetF
  apply run_frame
  exact ⟨fun b w d => PyCreate.setFT_frame parentSetT parentSetT_frame b w d, fun _ _ _ _ => trivial⟩

end SqlObjVerif.FailInhSet
