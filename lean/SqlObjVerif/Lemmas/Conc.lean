import SqlObjVerif.Model.Conc
/-! Lemmas for the Conc model (C09): association-list facts, projections of the step helpers, and the
    invariants preserved by every atomic action. -/
namespace SqlObjVerif.Conc

/-! ## association lists -/
theorem aget_aset (m : AMap) (i : Id) (o : Obj) (j : Id) :
    aget (aset m i o) j = if i = j then some o else aget m j := by
  induction m with
  | nil => simp [aset, aget]
  | cons p m ih =>
    obtain ⟨k, v⟩ := p
    simp only [aset]
    split <;> simp only [aget] <;> grind

theorem aget_adel (m : AMap) (i j : Id) :
    aget (adel m i) j = if i = j then none else aget m j := by
  induction m with
  | nil => simp [adel, aget]
  | cons p m ih =>
    obtain ⟨k, v⟩ := p
    simp only [adel]
    split <;> simp only [aget] <;> grind

theorem mem_akeys (m : AMap) (k : Id) : k ∈ akeys m ↔ aget m k ≠ none := by
  induction m with
  | nil => simp [akeys, aget]
  | cons p m ih =>
    obtain ⟨k', v⟩ := p
    simp only [akeys, List.map_cons, List.mem_cons, aget] at *
    split <;> grind

theorem akeys_aset_nodup (m : AMap) (i : Id) (o : Obj) (h : (akeys m).Nodup) : (akeys (aset m i o)).Nodup := by
  induction m with
  | nil => simp [aset, akeys]
  | cons p m ih =>
    obtain ⟨k, v⟩ := p
    simp only [akeys, List.map_cons, List.nodup_cons] at h
    simp only [aset]
    split
    · simp only [akeys, List.map_cons, List.nodup_cons]; exact h
    · rename_i hk
      simp only [akeys, List.map_cons, List.nodup_cons]
      refine ⟨?_, ih h.2⟩
      have := mem_akeys (aset m i o) k
      have := mem_akeys m k
      simp only [akeys] at *
      grind [aget_aset]

theorem akeys_adel_nodup (m : AMap) (i : Id) (h : (akeys m).Nodup) : (akeys (adel m i)).Nodup := by
  induction m with
  | nil => simp [adel, akeys]
  | cons p m ih =>
    obtain ⟨k, v⟩ := p
    simp only [akeys, List.map_cons, List.nodup_cons] at h
    simp only [adel]
    split
    · exact ih h.2
    · simp only [akeys, List.map_cons, List.nodup_cons]
      refine ⟨?_, ih h.2⟩
      have := mem_akeys (adel m i) k
      have := mem_akeys m k
      simp only [akeys] at *
      grind [aget_adel]

theorem stride_sublist (off frac : Nat) (ks : List Id) : (stride off frac ks).Sublist ks := by
  induction ks generalizing off with
  | nil => simp [stride]
  | cons k ks ih =>
    cases off with
    | zero => simp only [stride]; exact (ih _).cons_cons k
    | succ n => simp only [stride]; exact (ih n).cons k

theorem strideKeys_sublist (off frac : Nat) (ks : List Id) : (strideKeys off frac ks).Sublist ks := by
  unfold strideKeys; split
  · simp
  · exact stride_sublist off frac ks

theorem aget_aset_ne_none (m : AMap) (i : Id) (o : Obj) (j : Id) (h : aget m j ≠ none) :
    aget (aset m i o) j ≠ none := by
  rw [aget_aset]; split <;> simp_all

/-! ## who holds the lock; what the lock holder knows -/
def holds : Pc → Bool
  | .relook _ | .relRel _ _ | .weakGet _ | .weakDel _ _ | .weakDelDead _ _ | .strongSet _ _ | .relSet _ _
  | .select _ | .put _ _ | .finRel _ _ | .finRelNF _ | .nRelook _
  | .exInStrong _ | .exDelStrong _ | .exInWeak _ | .exDelWeak _ | .exRel | .exRelErr
  | .eaNext _ _ | .eaSetWeak _ _ _ _ | .eaSwap | .eaRel | .eaRelErr
  | .cuWeakKeys _ | .cuWeakChk _ _ | .cuWeakPop _ _ _ _ | .cuStrongKeys _ | .cuStrongGet _ _ _ | .cuStrongDel _ _ _ _
  | .cuWeakSet _ _ _ _ | .cuRel _ | .cuRelErr => true
  | .idle | .csGet _ | .csSet _ | .ccTest _ | .ccRead _ | .ccWrite _ _ | .ccReset _
  | .probeL _ | .probe _ _ | .acq _ | .insert _ | .crSetL _ _ | .crSet _ _ _ | .crSelect _ _ | .exAcq _ | .eaAcq
  | .cuEntry | .cuAcq _
  | .nProbe _ | .nAcq _ | .eaEntry => false

@[simp] theorem setTh_self (f : Tid → Th) (t : Tid) (v : Th) : setTh f t v t = v := by simp [setTh]
theorem setTh_ne (f : Tid → Th) (t u : Tid) (v : Th) (h : u ≠ t) : setTh f t v u = f u := by simp [setTh, h]

theorem holds_entry (dc c : Bool) (op : Op) : holds (entry dc c op) = false := by
  cases op <;> cases c <;> cases dc <;> rfl

@[simp] theorem goto_lock (s : State) (t : Tid) (pc : Pc) : (goto s t pc).lock = s.lock := rfl
@[simp] theorem goto_pc_self (s : State) (t : Tid) (pc : Pc) : ((goto s t pc).th t).pc = pc := by simp [goto]
theorem goto_th_ne (s : State) (t u : Tid) (pc : Pc) (h : u ≠ t) : (goto s t pc).th u = s.th u := by
  simp [goto, setTh, h]
@[simp] theorem finish_lock (s : State) (t : Tid) (o : Out) : (finish s t o).lock = s.lock := by
  unfold finish; split <;> rfl
theorem finish_th_ne (s : State) (t u : Tid) (o : Out) (h : u ≠ t) : (finish s t o).th u = s.th u := by
  unfold finish; split <;> simp [setTh, h]
@[simp] theorem finish_holds (s : State) (t : Tid) (o : Out) : holds ((finish s t o).th t).pc = false := by
  unfold finish; split
  · simp [holds]
  · simp [holds_entry]


theorem afterCC_lock (s : State) (t : Tid) (k : K) : (afterCC s t k).lock = s.lock := by
  cases k <;> simp [afterCC]
theorem afterCC_th_ne (s : State) (t u : Tid) (k : K) (h : u ≠ t) : (afterCC s t k).th u = s.th u := by
  cases k <;> simp [afterCC, goto_th_ne, finish_th_ne, h]
theorem afterCC_holds (s : State) (t : Tid) (k : K) : holds ((afterCC s t k).th t).pc = false := by
  cases k <;> simp [afterCC] <;> rfl
theorem afterCaches_lock (s : State) (t : Tid) (k : K) : (afterCaches s t k).lock = s.lock := by
  cases k <;> simp only [afterCaches] <;> (try split) <;> simp
theorem afterCaches_th_ne (s : State) (t u : Tid) (k : K) (h : u ≠ t) : (afterCaches s t k).th u = s.th u := by
  cases k <;> simp only [afterCaches] <;> (try split) <;> simp [goto_th_ne, h]
theorem afterCaches_holds (s : State) (t : Tid) (k : K) : holds ((afterCaches s t k).th t).pc = false := by
  cases k <;> simp only [afterCaches] <;> (try split) <;> simp <;> rfl
theorem cuWeakNext_holds (k : K) (ks : List Id) : holds (cuWeakNext k ks) = true := by
  cases ks <;> rfl
theorem cuStrongNext_holds (k : K) (ks : List Id) : holds (cuStrongNext k ks) = true := by
  cases ks <;> rfl


/-! ## projections of the step helpers (generated pattern, one lemma per shared field) -/
@[simp] theorem goto_caches (s : State) (t : Tid) (pc : Pc) : (goto s t pc).caches = s.caches := rfl
@[simp] theorem finish_caches (s : State) (t : Tid) (o : Out) : (finish s t o).caches = s.caches := by
  unfold finish; split <;> rfl
@[simp] theorem afterCC_caches (s : State) (t : Tid) (k : K) : (afterCC s t k).caches = s.caches := by
  cases k <;> simp [afterCC]
@[simp] theorem afterCaches_caches (s : State) (t : Tid) (k : K) : (afterCaches s t k).caches = s.caches := by
  cases k <;> simp only [afterCaches] <;> (try split) <;> simp
@[simp] theorem releaseFinish_caches (s : State) (t : Tid) (o : Out) : (releaseFinish s t o).caches = s.caches := by
  unfold releaseFinish; split <;> simp
@[simp] theorem goto_strong (s : State) (t : Tid) (pc : Pc) : (goto s t pc).strong = s.strong := rfl
@[simp] theorem finish_strong (s : State) (t : Tid) (o : Out) : (finish s t o).strong = s.strong := by
  unfold finish; split <;> rfl
@[simp] theorem afterCC_strong (s : State) (t : Tid) (k : K) : (afterCC s t k).strong = s.strong := by
  cases k <;> simp [afterCC]
@[simp] theorem afterCaches_strong (s : State) (t : Tid) (k : K) : (afterCaches s t k).strong = s.strong := by
  cases k <;> simp only [afterCaches] <;> (try split) <;> simp
@[simp] theorem releaseFinish_strong (s : State) (t : Tid) (o : Out) : (releaseFinish s t o).strong = s.strong := by
  unfold releaseFinish; split <;> simp
@[simp] theorem goto_weak (s : State) (t : Tid) (pc : Pc) : (goto s t pc).weak = s.weak := rfl
@[simp] theorem finish_weak (s : State) (t : Tid) (o : Out) : (finish s t o).weak = s.weak := by
  unfold finish; split <;> rfl
@[simp] theorem afterCC_weak (s : State) (t : Tid) (k : K) : (afterCC s t k).weak = s.weak := by
  cases k <;> simp [afterCC]
@[simp] theorem afterCaches_weak (s : State) (t : Tid) (k : K) : (afterCaches s t k).weak = s.weak := by
  cases k <;> simp only [afterCaches] <;> (try split) <;> simp
@[simp] theorem releaseFinish_weak (s : State) (t : Tid) (o : Out) : (releaseFinish s t o).weak = s.weak := by
  unfold releaseFinish; split <;> simp
@[simp] theorem goto_cc (s : State) (t : Tid) (pc : Pc) : (goto s t pc).cc = s.cc := rfl
@[simp] theorem finish_cc (s : State) (t : Tid) (o : Out) : (finish s t o).cc = s.cc := by
  unfold finish; split <;> rfl
@[simp] theorem afterCC_cc (s : State) (t : Tid) (k : K) : (afterCC s t k).cc = s.cc := by
  cases k <;> simp [afterCC]
@[simp] theorem afterCaches_cc (s : State) (t : Tid) (k : K) : (afterCaches s t k).cc = s.cc := by
  cases k <;> simp only [afterCaches] <;> (try split) <;> simp
@[simp] theorem releaseFinish_cc (s : State) (t : Tid) (o : Out) : (releaseFinish s t o).cc = s.cc := by
  unfold releaseFinish; split <;> simp
@[simp] theorem goto_off (s : State) (t : Tid) (pc : Pc) : (goto s t pc).off = s.off := rfl
@[simp] theorem finish_off (s : State) (t : Tid) (o : Out) : (finish s t o).off = s.off := by
  unfold finish; split <;> rfl
@[simp] theorem afterCC_off (s : State) (t : Tid) (k : K) : (afterCC s t k).off = s.off := by
  cases k <;> simp [afterCC]
@[simp] theorem afterCaches_off (s : State) (t : Tid) (k : K) : (afterCaches s t k).off = s.off := by
  cases k <;> simp only [afterCaches] <;> (try split) <;> simp
@[simp] theorem releaseFinish_off (s : State) (t : Tid) (o : Out) : (releaseFinish s t o).off = s.off := by
  unfold releaseFinish; split <;> simp
@[simp] theorem goto_freq (s : State) (t : Tid) (pc : Pc) : (goto s t pc).freq = s.freq := rfl
@[simp] theorem finish_freq (s : State) (t : Tid) (o : Out) : (finish s t o).freq = s.freq := by
  unfold finish; split <;> rfl
@[simp] theorem afterCC_freq (s : State) (t : Tid) (k : K) : (afterCC s t k).freq = s.freq := by
  cases k <;> simp [afterCC]
@[simp] theorem afterCaches_freq (s : State) (t : Tid) (k : K) : (afterCaches s t k).freq = s.freq := by
  cases k <;> simp only [afterCaches] <;> (try split) <;> simp
@[simp] theorem releaseFinish_freq (s : State) (t : Tid) (o : Out) : (releaseFinish s t o).freq = s.freq := by
  unfold releaseFinish; split <;> simp
@[simp] theorem goto_frac (s : State) (t : Tid) (pc : Pc) : (goto s t pc).frac = s.frac := rfl
@[simp] theorem finish_frac (s : State) (t : Tid) (o : Out) : (finish s t o).frac = s.frac := by
  unfold finish; split <;> rfl
@[simp] theorem afterCC_frac (s : State) (t : Tid) (k : K) : (afterCC s t k).frac = s.frac := by
  cases k <;> simp [afterCC]
@[simp] theorem afterCaches_frac (s : State) (t : Tid) (k : K) : (afterCaches s t k).frac = s.frac := by
  cases k <;> simp only [afterCaches] <;> (try split) <;> simp
@[simp] theorem releaseFinish_frac (s : State) (t : Tid) (o : Out) : (releaseFinish s t o).frac = s.frac := by
  unfold releaseFinish; split <;> simp
@[simp] theorem goto_db (s : State) (t : Tid) (pc : Pc) : (goto s t pc).db = s.db := rfl
@[simp] theorem finish_db (s : State) (t : Tid) (o : Out) : (finish s t o).db = s.db := by
  unfold finish; split <;> rfl
@[simp] theorem afterCC_db (s : State) (t : Tid) (k : K) : (afterCC s t k).db = s.db := by
  cases k <;> simp [afterCC]
@[simp] theorem afterCaches_db (s : State) (t : Tid) (k : K) : (afterCaches s t k).db = s.db := by
  cases k <;> simp only [afterCaches] <;> (try split) <;> simp
@[simp] theorem releaseFinish_db (s : State) (t : Tid) (o : Out) : (releaseFinish s t o).db = s.db := by
  unfold releaseFinish; split <;> simp
@[simp] theorem goto_fresh (s : State) (t : Tid) (pc : Pc) : (goto s t pc).fresh = s.fresh := rfl
@[simp] theorem finish_fresh (s : State) (t : Tid) (o : Out) : (finish s t o).fresh = s.fresh := by
  unfold finish; split <;> rfl
@[simp] theorem afterCC_fresh (s : State) (t : Tid) (k : K) : (afterCC s t k).fresh = s.fresh := by
  cases k <;> simp [afterCC]
@[simp] theorem afterCaches_fresh (s : State) (t : Tid) (k : K) : (afterCaches s t k).fresh = s.fresh := by
  cases k <;> simp only [afterCaches] <;> (try split) <;> simp
@[simp] theorem releaseFinish_fresh (s : State) (t : Tid) (o : Out) : (releaseFinish s t o).fresh = s.fresh := by
  unfold releaseFinish; split <;> simp
@[simp] theorem goto_stale (s : State) (t : Tid) (pc : Pc) : (goto s t pc).stale = s.stale := rfl
@[simp] theorem finish_stale (s : State) (t : Tid) (o : Out) : (finish s t o).stale = s.stale := by
  unfold finish; split <;> rfl
@[simp] theorem afterCC_stale (s : State) (t : Tid) (k : K) : (afterCC s t k).stale = s.stale := by
  cases k <;> simp [afterCC]
@[simp] theorem afterCaches_stale (s : State) (t : Tid) (k : K) : (afterCaches s t k).stale = s.stale := by
  cases k <;> simp only [afterCaches] <;> (try split) <;> simp
@[simp] theorem releaseFinish_stale (s : State) (t : Tid) (o : Out) : (releaseFinish s t o).stale = s.stale := by
  unfold releaseFinish; split <;> simp
@[simp] theorem goto_transit (s : State) (t : Tid) (pc : Pc) : (goto s t pc).transit = s.transit := rfl
@[simp] theorem finish_transit (s : State) (t : Tid) (o : Out) : (finish s t o).transit = s.transit := by
  unfold finish; split <;> rfl
@[simp] theorem afterCC_transit (s : State) (t : Tid) (k : K) : (afterCC s t k).transit = s.transit := by
  cases k <;> simp [afterCC]
@[simp] theorem afterCaches_transit (s : State) (t : Tid) (k : K) : (afterCaches s t k).transit = s.transit := by
  cases k <;> simp only [afterCaches] <;> (try split) <;> simp
@[simp] theorem releaseFinish_transit (s : State) (t : Tid) (o : Out) : (releaseFinish s t o).transit = s.transit := by
  unfold releaseFinish; split <;> simp
@[simp] theorem goto_refs (s : State) (t : Tid) (pc : Pc) : (goto s t pc).refs = s.refs := rfl
@[simp] theorem finish_refs (s : State) (t : Tid) (o : Out) : (finish s t o).refs = s.refs := by
  unfold finish; split <;> rfl
@[simp] theorem afterCC_refs (s : State) (t : Tid) (k : K) : (afterCC s t k).refs = s.refs := by
  cases k <;> simp [afterCC]
@[simp] theorem afterCaches_refs (s : State) (t : Tid) (k : K) : (afterCaches s t k).refs = s.refs := by
  cases k <;> simp only [afterCaches] <;> (try split) <;> simp
@[simp] theorem releaseFinish_refs (s : State) (t : Tid) (o : Out) : (releaseFinish s t o).refs = s.refs := by
  unfold releaseFinish; split <;> simp
@[simp] theorem goto_pins (s : State) (t : Tid) (pc : Pc) : (goto s t pc).pins = s.pins := rfl
@[simp] theorem finish_pins (s : State) (t : Tid) (o : Out) : (finish s t o).pins = s.pins := by
  unfold finish; split <;> rfl
@[simp] theorem afterCC_pins (s : State) (t : Tid) (k : K) : (afterCC s t k).pins = s.pins := by
  cases k <;> simp [afterCC]
@[simp] theorem afterCaches_pins (s : State) (t : Tid) (k : K) : (afterCaches s t k).pins = s.pins := by
  cases k <;> simp only [afterCaches] <;> (try split) <;> simp
@[simp] theorem releaseFinish_pins (s : State) (t : Tid) (o : Out) : (releaseFinish s t o).pins = s.pins := by
  unfold releaseFinish; split <;> simp
@[simp] theorem goto_dc (s : State) (t : Tid) (pc : Pc) : (goto s t pc).dc = s.dc := rfl
@[simp] theorem finish_dc (s : State) (t : Tid) (o : Out) : (finish s t o).dc = s.dc := by
  unfold finish; split <;> rfl
@[simp] theorem afterCC_dc (s : State) (t : Tid) (k : K) : (afterCC s t k).dc = s.dc := by
  cases k <;> simp [afterCC]
@[simp] theorem afterCaches_dc (s : State) (t : Tid) (k : K) : (afterCaches s t k).dc = s.dc := by
  cases k <;> simp only [afterCaches] <;> (try split) <;> simp
@[simp] theorem releaseFinish_dc (s : State) (t : Tid) (o : Out) : (releaseFinish s t o).dc = s.dc := by
  unfold releaseFinish; split <;> simp
@[simp] theorem goto_gen (s : State) (t : Tid) (pc : Pc) : (goto s t pc).gen = s.gen := rfl
@[simp] theorem finish_gen (s : State) (t : Tid) (o : Out) : (finish s t o).gen = s.gen := by
  unfold finish; split <;> rfl
@[simp] theorem afterCC_gen (s : State) (t : Tid) (k : K) : (afterCC s t k).gen = s.gen := by
  cases k <;> simp [afterCC]
@[simp] theorem afterCaches_gen (s : State) (t : Tid) (k : K) : (afterCaches s t k).gen = s.gen := by
  cases k <;> simp only [afterCaches] <;> (try split) <;> simp
@[simp] theorem releaseFinish_gen (s : State) (t : Tid) (o : Out) : (releaseFinish s t o).gen = s.gen := by
  unfold releaseFinish; split <;> simp
@[simp] theorem goto_hold (s : State) (t : Tid) (pc : Pc) : (goto s t pc).hold = s.hold := rfl
@[simp] theorem finish_hold (s : State) (t : Tid) (o : Out) : (finish s t o).hold = s.hold := by
  unfold finish; split <;> rfl
@[simp] theorem afterCC_hold (s : State) (t : Tid) (k : K) : (afterCC s t k).hold = s.hold := by
  cases k <;> simp [afterCC]
@[simp] theorem afterCaches_hold (s : State) (t : Tid) (k : K) : (afterCaches s t k).hold = s.hold := by
  cases k <;> simp only [afterCaches] <;> (try split) <;> simp
@[simp] theorem releaseFinish_hold (s : State) (t : Tid) (o : Out) : (releaseFinish s t o).hold = s.hold := by
  unfold releaseFinish; split <;> simp
@[simp] theorem goto_olds (s : State) (t : Tid) (pc : Pc) : (goto s t pc).olds = s.olds := rfl
@[simp] theorem finish_olds (s : State) (t : Tid) (o : Out) : (finish s t o).olds = s.olds := by
  unfold finish; split <;> rfl
@[simp] theorem afterCC_olds (s : State) (t : Tid) (k : K) : (afterCC s t k).olds = s.olds := by
  cases k <;> simp [afterCC]
@[simp] theorem afterCaches_olds (s : State) (t : Tid) (k : K) : (afterCaches s t k).olds = s.olds := by
  cases k <;> simp only [afterCaches] <;> (try split) <;> simp
@[simp] theorem releaseFinish_olds (s : State) (t : Tid) (o : Out) : (releaseFinish s t o).olds = s.olds := by
  unfold releaseFinish; split <;> simp
attribute [simp] afterCC_lock afterCaches_lock
theorem releaseFinish_th_ne (s : State) (t u : Tid) (o : Out) (h : u ≠ t) : (releaseFinish s t o).th u = s.th u := by
  unfold releaseFinish; split <;> simp [finish_th_ne, h]
@[simp] theorem releaseFinish_holds (s : State) (t : Tid) (o : Out) : holds ((releaseFinish s t o).th t).pc = false := by
  unfold releaseFinish; split <;> simp

/-- keys the thread relies on finding in `cache` (it saw them under the lock it still holds) -/
def needS : Pc → List Id
  | .exDelStrong i => [i]
  | .cuStrongGet _ i rest => i :: rest
  | .cuStrongDel _ i _ rest => i :: rest
  | .cuWeakSet _ _ _ rest => rest
  | _ => []

/-- keys the thread relies on finding in `expiredCache` -/
def needW : Pc → List Id
  | .weakDel i _ => [i]
  | .weakDelDead i _ => [i]
  | .cuWeakPop _ key _ rest => key :: rest
  | .exDelWeak i => [i]
  | .cuWeakChk _ ks => ks
  | _ => []

theorem need_nonholds (pc : Pc) (h : holds pc = false) : needS pc = [] ∧ needW pc = [] := by
  cases pc <;> simp_all [holds, needS, needW]

set_option hygiene false in
/-- case split of `hs : step s t = some s'` over the program counter and the branches of the action -/
macro "step_cases" : tactic =>
  `(tactic| (unfold step at hs; split at hs <;> rename_i hpc <;> (repeat' split at hs) <;>
      (first | (injection hs with hs; subst hs) | cases hs)))

/-- a thread that does not hold the lock leaves `expiredCache` alone and at most sets one `cache` entry -/
theorem nonholder_effect (s s' : State) (t : Tid) (hs : step s t = some s') (hh : holds (s.th t).pc = false) :
    (s'.weak = s.weak ∨ ∃ i o, s'.weak = aset s.weak i o) ∧ s'.stale = s.stale ∧ s'.transit = s.transit ∧
    (s'.strong = s.strong ∨ ∃ i o, s'.strong = aset s.strong i o) := by
  step_cases <;> simp only [hpc, holds] at hh <;> simp_all <;> exact Or.inr ⟨_, _, rfl⟩

/-- every action leaves the other threads' control state alone -/
theorem step_th_ne (s s' : State) (t u : Tid) (hs : step s t = some s') (hu : u ≠ t) : s'.th u = s.th u := by
  step_cases <;>
    simp only [goto_th_ne _ _ _ _ hu, finish_th_ne _ _ _ _ hu, afterCC_th_ne _ _ _ _ hu,
      afterCaches_th_ne _ _ _ _ hu, releaseFinish_th_ne _ _ _ _ hu]

/-! ## Layer A: mutual exclusion and the lock holder's knowledge — for EVERY program -/
structure AInv (s : State) : Prop where
  holder : ∀ t, holds (s.th t).pc = true ↔ s.lock = some t
  skeys : (akeys s.strong).Nodup
  needS : ∀ t, (needS (s.th t).pc).Nodup ∧ ∀ j ∈ needS (s.th t).pc, aget s.strong j ≠ none
  needW : ∀ t, (needW (s.th t).pc).Nodup ∧ ∀ j ∈ needW (s.th t).pc, aget s.weak j ≠ none
  wkeys : (akeys s.weak).Nodup

set_option maxHeartbeats 1600000 in
theorem ainv_holder (s s' : State) (t : Tid) (h : AInv s) (hs : step s t = some s') :
    ∀ u, holds (s'.th u).pc = true ↔ s'.lock = some u := by
  obtain ⟨h1, _, _, h4, _⟩ := h
  have h1t := h1 t
  have h4t := (h4 t).2
  intro u
  have h1u := h1 u
  by_cases hu : u = t
  · subst hu
    step_cases <;> simp only [hpc, holds, needW] at h1t h4t <;>
      (try simp only [true_iff, false_iff, Bool.false_eq_true] at h1t) <;>
      (try simp only [releaseFinish, h1t]) <;>
      simp only [goto_pc_self, goto_lock, finish_holds, finish_lock, afterCC_holds, afterCC_lock,
        afterCaches_holds, afterCaches_lock, cuWeakNext_holds, cuStrongNext_holds] <;>
      simp_all [holds]
  · have e : s'.lock = s.lock ∨ (s.lock = none ∧ s'.lock = some t) ∨ (s.lock = some t ∧ s'.lock = none) := by
      step_cases <;> simp only [hpc, holds] at h1t <;>
        (try simp only [true_iff, false_iff, Bool.false_eq_true] at h1t) <;>
        (try simp only [releaseFinish, h1t]) <;>
        simp_all
    rw [step_th_ne s s' t u hs hu]
    grind

theorem needS_cuStrongNext (k : K) (l : List Id) : needS (cuStrongNext k l) = l := by
  cases l <;> rfl
theorem needW_cuStrongNext (k : K) (l : List Id) : needW (cuStrongNext k l) = [] := by
  cases l <;> rfl
theorem needW_cuWeakNext (k : K) (l : List Id) : needW (cuWeakNext k l) = l := by
  cases l <;> rfl
theorem needS_cuWeakNext (k : K) (l : List Id) : needS (cuWeakNext k l) = [] := by
  cases l <;> rfl
theorem needS_finish (s : State) (t : Tid) (o : Out) : needS ((finish s t o).th t).pc = [] :=
  (need_nonholds _ (finish_holds s t o)).1
theorem needW_finish (s : State) (t : Tid) (o : Out) : needW ((finish s t o).th t).pc = [] :=
  (need_nonholds _ (finish_holds s t o)).2
theorem needS_releaseFinish (s : State) (t : Tid) (o : Out) : needS ((releaseFinish s t o).th t).pc = [] :=
  (need_nonholds _ (releaseFinish_holds s t o)).1
theorem needW_releaseFinish (s : State) (t : Tid) (o : Out) : needW ((releaseFinish s t o).th t).pc = [] :=
  (need_nonholds _ (releaseFinish_holds s t o)).2
theorem needS_afterCC (s : State) (t : Tid) (k : K) : needS ((afterCC s t k).th t).pc = [] :=
  (need_nonholds _ (afterCC_holds s t k)).1
theorem needW_afterCC (s : State) (t : Tid) (k : K) : needW ((afterCC s t k).th t).pc = [] :=
  (need_nonholds _ (afterCC_holds s t k)).2
theorem needS_afterCaches (s : State) (t : Tid) (k : K) : needS ((afterCaches s t k).th t).pc = [] :=
  (need_nonholds _ (afterCaches_holds s t k)).1
theorem needW_afterCaches (s : State) (t : Tid) (k : K) : needW ((afterCaches s t k).th t).pc = [] :=
  (need_nonholds _ (afterCaches_holds s t k)).2

theorem strideKeys_ok (m : AMap) (hk : (akeys m).Nodup) (off frac : Nat) :
    (strideKeys off frac (akeys m)).Nodup ∧ ∀ j ∈ strideKeys off frac (akeys m), aget m j ≠ none :=
  ⟨(strideKeys_sublist off frac _).nodup hk,
   fun j hj => (mem_akeys m j).1 ((strideKeys_sublist off frac _).subset hj)⟩

theorem strong_effect (s s' : State) (t : Tid) (hs : step s t = some s') :
    s'.strong = s.strong ∨ (∃ i o, s'.strong = aset s.strong i o) ∨ (∃ i, s'.strong = adel s.strong i) ∨
      s'.strong = [] := by
  step_cases <;> simp <;>
    first | exact Or.inr (Or.inl ⟨_, _, rfl⟩) | exact Or.inr (Or.inr (Or.inl ⟨_, rfl⟩))

theorem ainv_skeys (s s' : State) (t : Tid) (h : AInv s) (hs : step s t = some s') : (akeys s'.strong).Nodup := by
  rcases strong_effect s s' t hs with e | ⟨i, o, e⟩ | ⟨i, e⟩ | e <;> rw [e]
  · exact h.skeys
  · exact akeys_aset_nodup _ _ _ h.skeys
  · exact akeys_adel_nodup _ _ h.skeys
  · simp [akeys]

theorem ainv_needS (s s' : State) (t : Tid) (h : AInv s) (hs : step s t = some s') :
    ∀ u, (needS (s'.th u).pc).Nodup ∧ ∀ j ∈ needS (s'.th u).pc, aget s'.strong j ≠ none := by
  intro u
  by_cases hu : u = t
  · subst hu
    have h3 := h.needS u
    have hk := h.skeys
    step_cases <;> simp only [hpc] at h3 <;>
      simp only [goto_pc_self, goto_strong, needS_finish, needS_releaseFinish, needS_afterCC, needS_afterCaches,
        needS_cuStrongNext, needS_cuWeakNext, finish_strong, releaseFinish_strong, afterCC_strong,
        afterCaches_strong] <;>
      (try (simp [needS]; done)) <;>
      first | exact strideKeys_ok _ hk _ _ | (simp only [needS] at h3 ⊢; grind [aget_adel])
  · rw [step_th_ne s s' t u hs hu]
    have h3 := h.needS u
    cases hh : holds (s.th u).pc
    · rw [(need_nonholds _ hh).1]; simp
    · have hl := (h.holder u).1 hh
      have ht : holds (s.th t).pc = false := by
        cases ht : holds (s.th t).pc
        · rfl
        · have := (h.holder t).1 ht; simp_all
      obtain ⟨_, _, _, e⟩ := nonholder_effect s s' t hs ht
      refine ⟨h3.1, ?_⟩
      rcases e with e | ⟨i, o, e⟩ <;> rw [e]
      · exact h3.2
      · intro j hj; exact aget_aset_ne_none _ _ _ _ (h3.2 j hj)

theorem weak_effect (s s' : State) (t : Tid) (hs : step s t = some s') :
    s'.weak = s.weak ∨ (∃ i o, s'.weak = aset s.weak i o) ∨ (∃ i, s'.weak = adel s.weak i) := by
  step_cases <;> simp <;>
    first | exact Or.inr (Or.inl ⟨_, _, rfl⟩) | exact Or.inr (Or.inr ⟨_, rfl⟩)

theorem ainv_wkeys (s s' : State) (t : Tid) (h : AInv s) (hs : step s t = some s') : (akeys s'.weak).Nodup := by
  rcases weak_effect s s' t hs with e | ⟨i, o, e⟩ | ⟨i, e⟩ <;> rw [e]
  · exact h.wkeys
  · exact akeys_aset_nodup _ _ _ h.wkeys
  · exact akeys_adel_nodup _ _ h.wkeys

theorem akeys_ok (m : AMap) (hk : (akeys m).Nodup) : (akeys m).Nodup ∧ ∀ j ∈ akeys m, aget m j ≠ none :=
  ⟨hk, fun j hj => (mem_akeys m j).1 hj⟩

theorem ainv_needW (s s' : State) (t : Tid) (h : AInv s) (hs : step s t = some s') :
    ∀ u, (needW (s'.th u).pc).Nodup ∧ ∀ j ∈ needW (s'.th u).pc, aget s'.weak j ≠ none := by
  intro u
  by_cases hu : u = t
  · subst hu
    have h3 := h.needW u
    have hk := h.wkeys
    step_cases <;> simp only [hpc] at h3 <;>
      simp only [goto_pc_self, goto_weak, needW_finish, needW_releaseFinish, needW_afterCC, needW_afterCaches,
        needW_cuStrongNext, needW_cuWeakNext, finish_weak, releaseFinish_weak, afterCC_weak,
        afterCaches_weak] <;>
      (try (simp [needW]; done)) <;>
      first | exact akeys_ok _ hk | (simp only [needW] at h3 ⊢; grind [aget_adel])
  · rw [step_th_ne s s' t u hs hu]
    have h3 := h.needW u
    cases hh : holds (s.th u).pc
    · rw [(need_nonholds _ hh).2]; simp
    · have hl := (h.holder u).1 hh
      have ht : holds (s.th t).pc = false := by
        cases ht : holds (s.th t).pc
        · rfl
        · have := (h.holder t).1 ht; simp_all
      obtain ⟨e, _⟩ := nonholder_effect s s' t hs ht
      refine ⟨h3.1, ?_⟩
      rcases e with e | ⟨i, o, e⟩ <;> rw [e]
      · exact h3.2
      · intro j hj; exact aget_aset_ne_none _ _ _ _ (h3.2 j hj)

theorem ainv_step (s s' : State) (t : Tid) (h : AInv s) (hs : step s t = some s') : AInv s' :=
  ⟨ainv_holder s s' t h hs, ainv_skeys s s' t h hs, ainv_needS s s' t h hs, ainv_needW s s' t h hs,
    ainv_wkeys s s' t h hs⟩

theorem ainv_run (s : State) (sched : List Tid) (h : AInv s) : AInv (run s sched) := by
  induction sched generalizing s with
  | nil => exact h
  | cons t ts ih =>
    unfold run
    split
    · rename_i s' hs; exact ih s' (ainv_step s s' t h hs)
    · exact ih s h

theorem holds_startTh (dc c : Bool) (p : List Op) : holds (startTh dc c p).pc = false := by
  cases p
  · rfl
  · simp only [startTh]; exact holds_entry _ _ _

theorem ainv_init (dc caches : Bool) (strong weak : AMap) (db : List Id) (fresh freq frac cc off : Nat)
    (pins : List Obj) (progs : Tid → List Op) (hk : (akeys strong).Nodup) (hw : (akeys weak).Nodup) :
    AInv (mkInit dc caches strong weak db fresh freq frac cc off pins progs) := by
  refine ⟨?_, hk, ?_, ?_, hw⟩ <;> intro t
  · simp [mkInit, holds_startTh]
  · rw [show ((mkInit dc caches strong weak db fresh freq frac cc off pins progs).th t).pc = (startTh dc caches (progs t)).pc from rfl,
      (need_nonholds _ (holds_startTh dc caches (progs t))).1]
    simp
  · rw [show ((mkInit dc caches strong weak db fresh freq frac cc off pins progs).th t).pc = (startTh dc caches (progs t)).pc from rfl,
      (need_nonholds _ (holds_startTh dc caches (progs t))).2]
    simp

/-- with the lock free every unfinished thread can move -/
theorem enabled_of_free (s : State) (t : Tid) (hl : s.lock = none) (hp : (s.th t).pc ≠ .idle) :
    (step s t).isSome = true := by
  unfold step
  split <;> simp_all <;> (repeat' split) <;> simp

/-- the lock holder can always move -/
theorem enabled_of_holds (s : State) (t : Tid) (hh : holds (s.th t).pc = true) : (step s t).isSome = true := by
  unfold step
  split <;> rename_i hpc <;> simp only [hpc, holds] at hh <;> (try cases hh) <;> (repeat' split) <;> simp

end SqlObjVerif.Conc
