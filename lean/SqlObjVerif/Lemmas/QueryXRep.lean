import SqlObjVerif.Lemmas.QueryXInit
import SqlObjVerif.Lemmas.Query
/-!
# C11 — the `ops` dict the translated `__init__` leaves behind represents the hand model's `Sel` (`initOps_rep`)
-/
namespace SqlObjVerif.QueryX
open SqlObjVerif.PyQ
open SqlObjVerif.PyQ.Extracted

theorem aget_map_set (d : List (Str × Val)) (k k' : Str) (v : Val) :
    aget k' (d.map fun e => if e.1 = k then (e.1, v) else e) =
      if k' = k then (aget k d).map (fun _ => v) else aget k' d := by
  induction d with
  | nil => simp [aget]
  | cons e d ih =>
    simp only [List.map_cons, aget, ih]
    by_cases h1 : e.1 = k <;> by_cases h2 : k' = k <;> by_cases h3 : e.1 = k' <;> simp_all

theorem aget_append_one (d : List (Str × Val)) (k k' : Str) (v : Val) :
    aget k' (d ++ [(k, v)]) = match aget k' d with
      | some x => some x
      | none => if k = k' then some v else none := by
  induction d with
  | nil => simp [aget]
  | cons e d ih =>
    simp only [List.cons_append, aget, ih]
    by_cases h3 : e.1 = k' <;> simp_all

theorem any_eq_isSome (d : List (Str × Val)) (k : Str) : (d.any fun e => e.1 == k) = (aget k d).isSome := by
  induction d with
  | nil => rfl
  | cons e d ih => by_cases h : e.1 = k <;> simp_all [aget]

theorem aget_aset_self (d : List (Str × Val)) (k : Str) (v : Val) : aget k (aset d k v) = some v := by
  unfold aset
  rw [any_eq_isSome]
  cases h : aget k d with
  | none => simp [aget_append_one, h]
  | some x => simp [aget_map_set, h]

theorem aget_aset_ne (d : List (Str × Val)) (k k' : Str) (v : Val) (hne : k ≠ k') : aget k' (aset d k v) = aget k' d := by
  unfold aset
  have hne' : ¬ (k' = k) := fun e => hne e.symm
  split
  · simp [aget_map_set, hne']
  · rw [aget_append_one]
    cases aget k' d <;> simp [hne]

theorem aget_adel_ne (d : List (Str × Val)) (k k' : Str) (hne : k ≠ k') : aget k' (adel d k) = aget k' d := by
  unfold adel
  induction d with
  | nil => rfl
  | cons e d ih =>
    by_cases h1 : e.1 = k <;> by_cases h3 : e.1 = k' <;> simp_all [aget, List.filter_cons]

section
variable (sr : Val → Str) (sch : Schema)

theorem aget_opsConn (d : List (Str × Val)) (k : Str) (hne : kConnection ≠ k) : aget k (opsConn d) = aget k d := by
  unfold opsConn
  split
  · exact aget_adel_ne d _ k hne
  · rfl

theorem aget_opsDefault (d : List (Str × Val)) (k : Str) (hne : kOrderBy ≠ k) : aget k (opsDefault sch d) = aget k d := by
  unfold opsDefault
  split
  · exact aget_aset_ne d _ k _ hne
  · rfl

/-- the `ops` dict `__init__` leaves behind REPRESENTS the hand model's select: clause, munged order, flags -/
theorem initOps_rep (cl : Option Query.Expr) (d : List (Str × Val)) (o : Query.OrderBy) :
    Rep sr sch (clauseV sr sch (cl.getD .tt)) (initOps sch d o)
      { clause := cl.getD .tt, order := Query.mungeAll sch o, reversed := truthyOpt d kReversed,
        distinct := truthyOpt d kDistinct } := by
  constructor
  · rfl
  · unfold initOps
    rw [aget_opsConn _ _ (by decide), aget_aset_self]
  · unfold initOps truthyOpt
    rw [aget_opsConn _ _ (by decide), aget_aset_ne _ _ _ _ (by decide), aget_opsDefault _ _ _ (by decide)]
  · unfold initOps truthyOpt
    rw [aget_opsConn _ _ (by decide), aget_aset_ne _ _ _ _ (by decide), aget_opsDefault _ _ _ (by decide)]

theorem mem_joinS_head (sep a : Str) (l : List Str) (c : Char) (h : c ∈ a) : c ∈ joinS sep (a :: l) := by
  cases l with
  | nil => simpa [joinS] using h
  | cons b l => simp [joinS, h]

/-- the text of a non-empty keyword clause is never the word `all` (it contains a blank) -/
theorem condsText_ne_all (c : Query.Cond) (cs : List Query.Cond) : condsText sr sch (c :: cs) ≠ ['a', 'l', 'l'] := by
  intro h
  have : ' ' ∈ condsText sr sch (c :: cs) := by
    unfold condsText
    simp only [List.map_cons]
    apply mem_joinS_head
    simp [condText]
  rw [h] at this
  simp at this
end
end SqlObjVerif.QueryX
