import SqlObjVerif.Lemmas.InhSelXSem
import SqlObjVerif.Lemmas.InhSelXInit
/-!
`InheritableSelectResults.__init__` (translated) when the used tables lie on one class chain: the clause it builds and
its rows (`selInit_chain`), from `selInitX_run` (symbolic execution), `regfold` / `registry_chain` (the registry
computation) and `chain_sat` (semantics).
-/
set_option linter.unusedSimpArgs false
namespace SqlObjVerif.InhSel
open SqlObjVerif.PyIS (Sql)
open SqlObjVerif.Inherit hiding Val Res Cmp Out

theorem idAL_keys (ks : List Nat) : (idAL ks).map (·.1) = ks := by
  show (ks.map fun c => (c, c)).map (·.1) = ks
  rw [List.map_map]
  have : ((fun x : Nat × Nat => x.1) ∘ fun c => (c, c)) = id := rfl
  rw [this, List.map_id]

/-- `InheritableSelectResults.__init__` when every table the query uses lies on the class chain of the deepest used
    class `d`: the clause handed on is the caller's AND the joins `child.id = parent.id` from `d` up to the topmost used
    class `t`; its rows are the ids with a row in every table of that segment that satisfy the caller's clause -/
theorem selInit_chain (X : SCtx) (h : X.T.WF) (hreg : X.reg.Nodup) (w : SW) (s : Nat) (g : Sql) (oc : Option Nat)
    (d : Nat) (hdu : d ∈ sqlTables g ++ [s])
    (hall : ∀ a, a ∈ sqlTables g ++ [s] → a ∈ X.reg ∧ a ∈ X.T.anc d) :
    ∃ t pre post, X.T.anc d = pre ++ t :: post ∧ t ∈ sqlTables g ++ [s] ∧ (∀ z, z ∈ post → z ∉ sqlTables g ++ [s]) ∧
      selInitX X w s (.sql g) (opsOf oc) =
        .ret { w with made := some ⟨s, (linksTo t (X.T.anc d)).foldl Sql.and g, oc.getD X.dflt⟩ } .none ∧
      (∀ a, a ∈ sqlTables ((linksTo t (X.T.anc d)).foldl Sql.and g) ++ [s] → a ∈ pre ++ [t]) ∧
      ∀ (db : DB) (σ : Nat → Nat), Sat db s ((linksTo t (X.T.anc d)).foldl Sql.and g) σ ↔
        ((∀ a, a ∈ pre ++ [t] → σ a = σ d ∧ db.has a (σ d) = true) ∧ sqlEval db σ g = true) := by
  obtain ⟨tabs, htabs, hrun⟩ := selInitX_run X h w s g oc
  have hu : ∀ b, b ∈ tabs ↔ b ∈ sqlTables g ++ [s] := by
    intro b; rw [htabs]; simp
  generalize hks : X.reg.filter (fun c => tabs.contains c) = ks at *
  have hfold : X.reg.foldl (regStep tabs) [] = idAL ks := by
    rw [regfold tabs X.reg [] hreg (fun _ _ => rfl), hks]; rfl
  have hmemks : ∀ x, x ∈ ks ↔ x ∈ X.reg ∧ x ∈ sqlTables g ++ [s] := by
    intro x; rw [← hks, List.mem_filter]; simp [hu]
  have hksnd : ks.Nodup := by rw [← hks]; exact List.Nodup.sublist List.filter_sublist hreg
  have hdk : d ∈ ks := (hmemks d).2 ⟨(hall d hdu).1, hdu⟩
  rw [hfold, idAL_keys, registry_chain h ks hksnd d hdk (fun c hc => (hall c ((hmemks c).1 hc).2).2)] at hrun
  have hnd := anc_nodup h d
  rw [anc_eq_cons'] at hnd
  have hp : ∀ z, (alGet z (idAL ks)).isSome = decide (z ∈ ks) := by
    intro z; simp only [alGet_idAL]; by_cases hz : z ∈ ks <;> simp [hz]
  obtain ⟨pre, post, t, htop, hsplit, hpt, hpost, hseg⟩ :=
    seg_top (fun z => (alGet z (idAL ks)).isSome) d (X.T.anc d).tail hnd (by simp only [hp]; simpa using hdk)
  rw [← anc_eq_cons'] at hsplit hseg
  have htopOf : topOf X.T ks d = t := by simp only [topOf, htop, Option.getD_some]
  rw [htopOf] at hrun
  have hjoins : joinsOf X.T [(d, t)] = linksTo t (X.T.anc d) := by simp [joinsOf]
  rw [hjoins] at hrun
  have htk : t ∈ ks := by simp only [hp] at hpt; simpa using hpt
  have hsub : ∀ a, a ∈ sqlTables g ++ [s] → a ∈ pre ++ [t] := by
    intro a ha
    have hak : a ∈ ks := (hmemks a).2 ⟨(hall a ha).1, ha⟩
    have hmem := (hall a ha).2
    rw [hsplit] at hmem
    rcases List.mem_append.1 hmem with hm | hm
    · exact List.mem_append_left _ hm
    · rcases List.mem_cons.1 hm with rfl | hm
      · simp
      · have := hpost a hm
        simp only [hp] at this
        simp [hak] at this
  refine ⟨t, pre, post, hsplit, ((hmemks t).1 htk).2, ?_, hrun, ?_, ?_⟩
  · intro z hz hzu
    have := hpost z hz
    simp only [hp] at this
    have hzk : z ∈ ks := (hmemks z).2 ⟨(hall z hzu).1, hzu⟩
    simp [hzk] at this
  · intro a ha
    rcases List.mem_append.1 ha with ha | ha
    · rcases (tables_foldl_and _ g a).1 ha with ha | ha
      · exact hsub a (List.mem_append_left _ ha)
      · have := anc_eq_cons' X.T d
        rw [this] at ha
        have := ((links_tables t _ d a).1 ha).1
        rw [← anc_eq_cons', hseg] at this
        exact this
    · exact hsub a (List.mem_append_right _ ha)
  · intro db σ
    rw [chain_sat X.T db s d t g σ ?_ hdu, hseg]
    intro a ha
    rw [hseg]
    exact hsub a ha

end SqlObjVerif.InhSel
