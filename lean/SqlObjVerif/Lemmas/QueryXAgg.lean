import SqlObjVerif.Lemmas.QueryXOps
/-!
# C11 — the translated `SelectResults.accumulateMany` and `count`
-/
namespace SqlObjVerif.QueryX
open SqlObjVerif.PyQ
open SqlObjVerif.PyQ.Extracted

section
variable (sch : Schema) (P : Params) (fnRec : String → List Val → List (Str × Val) → R Val)
  (cm : Val → String → List Val → List (Str × Val) → R Val) (cv : Val → List Val → R Val)

/-- the text of an attribute: a `str` as it is, anything else through `conn.sqlrepr` -/
def attrText (P : Params) : Val → Str
  | .str s => s
  | v => P.sqlrepr v

/-- `'%s(%s%s)' % (func_name, distinct, attribute)` -/
def aggText (P : Params) (dw : Str) (f : Str) (a : Val) : Val := .str (f ++ ['('] ++ dw ++ attrText P a ++ [')'])

def pairV (fa : Str × Val) : Val := .tuple [.str fa.1, fa.2]

theorem accumulateMany_loop (conn : Val) (dw : Str)
    (hsr : ∀ a, methodOf (qIface sch P fnRec cm cv) conn "sqlrepr" [a] [] = .ok (.str (P.sqlrepr a))) :
    ∀ (l : List (Str × Val)) (env : Env) (acc : List Val),
    env 2 = some (.list acc) → env 3 = some conn → env 4 = some (.str dw) →
    ∃ env', forLoop (loopStep (.tup [5, 6]) fun e => Block.exec (qIface sch P fnRec cm cv) e srAccumulateMany_for0) (l.map pairV) env
        = .norm env' ∧ env' 2 = some (.list (acc ++ l.map fun fa => aggText P dw fa.1 fa.2)) ∧ env' 0 = env 0
  | [], env, acc, h, _, _ => ⟨env, rfl, by simp [h], rfl⟩
  | (f, a) :: l, env, acc, h2, h3, h4 => by
    have step : ∃ e1, loopStep (.tup [5, 6]) (fun e => Block.exec (qIface sch P fnRec cm cv) e srAccumulateMany_for0) env (pairV (f, a)) =
        .norm e1 ∧ e1 2 = some (.list (acc ++ [aggText P dw f a])) ∧ e1 3 = some conn ∧ e1 4 = some (.str dw) ∧ e1 0 = env 0 := by
      unfold srAccumulateMany_for0 aggText pairV
      by_cases ha : isStrV a = true
      · have : ∃ s, a = .str s := by cases a <;> simp_all
        obtain ⟨s, rfl⟩ := this
        pyqw [loopStep, mutateOf, rebind, h2, h3, h4, attrText]
      · pyqw [loopStep, ha, mutateOf, rebind, h2, h3, h4, hsr]
        cases a <;> simp_all [attrText]
    obtain ⟨e1, s1, s2, s3, s4, s0⟩ := step
    obtain ⟨env', h1, r2, r0⟩ := accumulateMany_loop conn dw hsr l e1 (acc ++ [aggText P dw f a]) s2 s3 s4
    refine ⟨env', ?_, ?_, ?_⟩
    · simp only [List.map_cons, forLoop, s1]; exact h1
    · simp [r2]
    · rw [r0, s0]

/-- the word `accumulateMany` puts inside the function call -/
def distinctWord (d : List (Str × Val)) : Str :=
  if truthyOpt d kDistinct = true then ['D', 'I', 'S', 'T', 'I', 'N', 'C', 'T', ' '] else []

/-- **`accumulateMany(*attributes)`** = `self.accumulate(*texts)` -/
theorem accumulateMany_translated (sc cl ct ts : Val) (d : List (Str × Val)) (conn : Val)
    (hgc : cm (srObj sc cl (.dict d) ct ts) "_getConnection" [] [] = .ok conn)
    (hsr : ∀ a, methodOf (qIface sch P fnRec cm cv) conn "sqlrepr" [a] [] = .ok (.str (P.sqlrepr a)))
    (attrs : List (Str × Val)) :
    accumulateManyX (qIface sch P fnRec cm cv) (srObj sc cl (.dict d) ct ts) (attrs.map pairV) =
      ofR (cm (srObj sc cl (.dict d) ct ts) "accumulate" (attrs.map fun fa => aggText P (distinctWord d) fa.1 fa.2) []) := by
  unfold accumulateManyX run srAccumulateMany
  simp only [exec_cons]
  have e012 : ∃ e, ((Stmt.exec (qIface sch P fnRec cm cv) (Env.ofArgs [srObj sc cl (.dict d) ct ts, .tuple (attrs.map pairV)])
      srAccumulateMany_s0).seq fun e => (Stmt.exec (qIface sch P fnRec cm cv) e srAccumulateMany_s1).seq fun e =>
        Stmt.exec (qIface sch P fnRec cm cv) e srAccumulateMany_s2) = .norm e ∧ e 0 = some (srObj sc cl (.dict d) ct ts) ∧
      e 1 = some (.tuple (attrs.map pairV)) ∧ e 2 = some (.list []) ∧ e 3 = some conn ∧ e 4 = some (.str (distinctWord d)) := by
    unfold srAccumulateMany_s0 srAccumulateMany_s1 srAccumulateMany_s2 distinctWord truthyOpt
    unfold srObj at hgc ⊢
    by_cases hd : truthy ((aget kDistinct d).getD .none) = true <;> simp only [kDistinct] at hd <;>
      pyqw [hgc, hd, kDistinct]
  obtain ⟨e, x, h0, h1, h2, h3, h4⟩ := e012
  obtain ⟨env', l1, l2, l0⟩ := accumulateMany_loop sch P fnRec cm cv conn (distinctWord d) hsr attrs e [] h2 h3 h4
  have e3 : Stmt.exec (qIface sch P fnRec cm cv) e srAccumulateMany_s3 = .norm env' := by
    unfold srAccumulateMany_s3
    rw [Stmt.exec]
    simp only [Expr.eval, h1, ofOpt_some, withR_ok, seqOf_tuple]
    exact l1
  have x' := congrArg (fun r => Res.seq r fun e => (Stmt.exec (qIface sch P fnRec cm cv) e srAccumulateMany_s3).seq fun e =>
    (Stmt.exec (qIface sch P fnRec cm cv) e srAccumulateMany_s4).seq fun e => Block.exec (qIface sch P fnRec cm cv) e .nil) x
  simp only [Res.seq_assoc, Res.seq_norm, e3] at x'
  rw [x']
  unfold srAccumulateMany_s4
  simp only [List.nil_append] at l2
  rw [h0] at l0
  unfold srObj at l0 ⊢
  pyqw [l0, l2]
  cases cm _ "accumulate" _ [] <;> simp [ofR]

/-- the expression `count()` accumulates -/
def countExpr (d : List (Str × Val)) (idText : Str) : Val :=
  if truthyOpt d kDistinct = true then
    .str (['C', 'O', 'U', 'N', 'T', '(', 'D', 'I', 'S', 'T', 'I', 'N', 'C', 'T', ' '] ++ idText ++ [')'])
  else .str ['C', 'O', 'U', 'N', 'T', '(', '*', ')']

/-- **`count()`** of an unsliced select = `self.accumulate(<COUNT expression>)`; a sliced one is an AssertionError -/
theorem count_translated (cl ct ts : Val) (d : List (Str × Val)) (conn : Val) (idText : Str)
    (hgc : cm (srObj clsV cl (.dict d) ct ts) "_getConnection" [] [] = .ok conn)
    (hsr : methodOf (qIface sch P fnRec cm cv) conn "sqlrepr" [fieldV idName] [] = .ok (.str idText)) :
    countX (qIface sch P fnRec cm cv) (srObj clsV cl (.dict d) ct ts) =
      if truthyOpt d kStart = true ∨ truthyOpt d kEnd = true then .exc .assertionError
      else ofR (cm (srObj clsV cl (.dict d) ct ts) "accumulate" [countExpr d idText] []) := by
  unfold countX run srCount srCount_s0 srCount_s1 srCount_s2 srCount_s3 srCount_s4 srCount_s5 countExpr truthyOpt
  unfold srObj at hgc ⊢
  by_cases hs : truthy ((aget kStart d).getD .none) = true
  · simp only [kStart] at hs; pyqw [hs, kStart]
  · by_cases he : truthy ((aget kEnd d).getD .none) = true
    · simp only [kStart, kEnd] at hs he; pyqw [hs, he, kStart, kEnd]
    · simp only [kStart, kEnd] at hs he
      by_cases hd : truthy ((aget kDistinct d).getD .none) = true
      · simp only [kDistinct] at hd
        cases hacc : cm (Val.obj "SelectResults"
          [("sourceClass", clsV), ("clause", cl), ("ops", Val.dict d), ("clauseTables", ct), ("tables", ts)]) "accumulate"
          [.str (['C', 'O', 'U', 'N', 'T', '(', 'D', 'I', 'S', 'T', 'I', 'N', 'C', 'T', ' '] ++ idText ++ [')'])] [] <;>
        simp only [List.cons_append, List.nil_append, List.append_assoc] at hacc <;>
        pyqw [hs, he, hd, kStart, kEnd, kDistinct, hgc, hsr, hacc, ofR]
      · simp only [kDistinct] at hd
        cases hacc : cm (Val.obj "SelectResults"
          [("sourceClass", clsV), ("clause", cl), ("ops", Val.dict d), ("clauseTables", ct), ("tables", ts)]) "accumulate"
          [.str ['C', 'O', 'U', 'N', 'T', '(', '*', ')']] [] <;>
        pyqw [hs, he, hd, kStart, kEnd, kDistinct, hgc, hsr, hacc, ofR]
end
end SqlObjVerif.QueryX
