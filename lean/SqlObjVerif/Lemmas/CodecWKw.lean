import SqlObjVerif.Lemmas.CodecWSet
/-!
# CodecW — the translated `set(<col c>=v)`: eager, lazy, and while the instance is being created
-/
namespace SqlObjVerif.CodecW
open SqlObjVerif.Codec (PyVal ColT DbVal)
open SqlObjVerif.PyMainV
open SqlObjVerif.PyMainV.Extracted

/-- an instance being created (`_create` has set `_creating` and emptied `_SO_createValues`) -/
def newObj : Obj :=
  { vals := fun _ => none, createValues := [], expired := false, dirty := false, creating := true, obsolete := false,
    sigSuppress := false, inCache := false, lock := false }

set_option maxRecDepth 4000

theorem setX_eager_enc_fail (C : Cls) (vals : Nat → Option PyVal) (g : Row) (c : Nat) (v : PyVal) (hc : c < C.n)
    (hl : C.lazyUpdate = false) (r : Codec.Res PyVal) (he : (klassOf C).enc c v = r) (hr : ∀ y, r ≠ .ok y) :
    setX C (worldOf C (objOf vals) g) [(c, .val v)] = failOut (worldOf C (objOf vals) g) r := by
  have h1 := k_hasTo C c hc
  have h1' := k_hasFrom C c hc
  have h2 := k_ncols C
  have h3 := k_lazy C
  have hb : Nat.blt c C.n = true := by simp [Nat.blt_eq, hc]
  unfold setX setProg set_nlocals set_nlists set_ndicts worldOf objOf
  cases r with
  | ok y => exact absurd rfl (hr y)
  | _ => pvrunw [set_for4] <;> simp [failOut]

theorem setX_eager_dec_fail (C : Cls) (vals : Nat → Option PyVal) (g : Row) (c : Nat) (v y : PyVal) (hc : c < C.n)
    (hl : C.lazyUpdate = false) (he : (klassOf C).enc c v = .ok y)
    (r : Codec.Res PyVal) (hd : (klassOf C).dec c y = r) (hr : ∀ x, r ≠ .ok x) :
    setX C (worldOf C (objOf vals) g) [(c, .val v)] = failOut (worldOf C (objOf vals) g) r := by
  have h1 := k_hasTo C c hc
  have h1' := k_hasFrom C c hc
  have h2 := k_ncols C
  have h3 := k_lazy C
  have hb : Nat.blt c C.n = true := by simp [Nat.blt_eq, hc]
  unfold setX setProg set_nlocals set_nlists set_ndicts worldOf objOf
  cases r with
  | ok x => exact absurd rfl (hr x)
  | _ => pvrunw [set_for4] <;> simp [failOut]

end SqlObjVerif.CodecW
