import SqlObjVerif.Lemmas.OrmValXDict
/-!
Symbolic execution of the translated `_SO_setValue` (attribute assignment) against `opSetattr`
(see `Lemmas/OrmValX.lean`).
-/
namespace SqlObjVerif.OrmVal
open SqlObjVerif.PyMain
open SqlObjVerif.PyMain.Extracted

@[simp] theorem pvOfInp_ok (v : Val) : pvOfInp (.ok v) = ofVal v := rfl
@[simp] theorem pvOfInp_bad : pvOfInp .bad = PV.bad := rfl
@[simp] theorem pyBool_ofVal_fnNone : pyBool PV.none = some false := rfl

@[simp] theorem dset_map_ofVal (k : Nat) (v : Val) (l : Pend) :
    dset k (ofVal v) (l.map fun e => (e.1, ofVal e.2)) = (dset k v l).map fun e => (e.1, ofVal e.2) :=
  dset_map ofVal k v l

@[simp] theorem dhas_single {α : Type} (k : Nat) (v : α) : dhas k [(k, v)] = true := by simp [dhas]
@[simp] theorem dget_single {α : Type} (k : Nat) (v : α) : dget k [(k, v)] = some v := by simp [dget]

theorem setValueX_eq (cfg : Cfg) (i : Iface) (s : State) (h : Hnd) (o : Inst) (cv : Pend) (fail : Bool) (c : Col) (inp : Inp)
    (ho : s.objs h = some o) (hrep : Rep cv o.pending) (hc : c < cfg.ncols o.cls) (hi : i.Ok cfg o.cls)
    (hbad : inp = .bad → i.hasFrom c = true) :
    absUnit o.cls o.id h (setValueX o.cls o.id (cfg.ncols o.cls) h (absW cfg i s o cv fail) c inp) =
      some (opSetattr cfg s h c inp fail) := by
  obtain ⟨cls, id, cached, expired, dirty, pending, obsolete, inCache⟩ := o
  have hs := hrep.sorted
  have hnd := hrep.nodup
  simp only at hs hc hi hbad
  subst hs
  have hnc : ¬ cfg.ncols cls ≤ c := Nat.not_le_of_gt hc
  unfold setValueX setValueProg setValue_nlocals setValue_nlists setValue_ndicts opSetattr
  cases inp with
  | bad =>
    have hf := hbad rfl
    pymrun
    simp [absUnit, conc, instOf, excOut, ho, hnc]
    exact setObj_self _ _ _ ho
  | ok v =>
    cases hf : i.hasFrom c <;> cases hlz : cfg.lazyUpdate cls
    all_goals
      have ht : i.hasTo c = i.hasFrom c := (hi.same c).symm
      rw [hf] at ht
      have he := hi.enc c v
      have hd := hi.dec c
      cases fail <;> cases hcv : cfg.cacheValues cls <;> pymrun <;>
        simp [absUnit, conc, instOf, excOut, sortByKey_dset _ _ _ hnd, setCached, sendUpdate, ho, hnc, hlz, hcv, hf, ht, he, hd]
      all_goals (first | rfl | exact setObj_self _ _ _ ho)

end SqlObjVerif.OrmVal
