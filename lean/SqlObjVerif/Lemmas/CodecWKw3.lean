import SqlObjVerif.Lemmas.CodecWSet
/-!
# CodecW — the translated `set(<col c>=v)` on an eager class when both conversions succeed: one UPDATE, then the cache
-/
namespace SqlObjVerif.CodecW
open SqlObjVerif.Codec (PyVal ColT DbVal)
open SqlObjVerif.PyMainV
open SqlObjVerif.PyMainV.Extracted

set_option maxRecDepth 4000

theorem setX_eager (C : Cls) (vals : Nat → Option PyVal) (g : Row) (c : Nat) (v y wc : PyVal) (hc : c < C.n)
    (hl : C.lazyUpdate = false) (he : (klassOf C).enc c v = .ok y) (hd : (klassOf C).dec c y = .ok wc) :
    setX C (worldOf C (objOf vals) g) [(c, .val v)] = sendOut C vals g c wc (applyUpd C g [(c, y)]) := by
  have h1 := k_hasTo C c hc
  have h1' := k_hasFrom C c hc
  have h2 := k_ncols C
  have h3 := k_lazy C
  have h4 := k_cache C
  have h5 := conn_upd C
  have hb : Nat.blt c C.n = true := by simp [Nat.blt_eq, hc]
  unfold setX setProg set_nlocals set_nlists set_ndicts worldOf objOf
  cases hu : applyUpd C g [(c, y)] <;> cases hcv : C.cacheValues <;>
    pvrunw [set_for4, set_for5, set_for6, set_for7] <;> simp [sendOut, worldOf, objOf, cacheIf, hcv]

end SqlObjVerif.CodecW
