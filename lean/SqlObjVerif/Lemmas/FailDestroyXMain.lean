import SqlObjVerif.Lemmas.FailDestroyXDep
/-!
C06, translated `destroySelf`, part 5: the loop over the dependent classes is the hand model's `Fail.depLoop`
(`for1_loop`, segment (g)), the tail is `Fail.destroyTail` (`tail_eq`, segment (b)), the whole method is ONE activation
of the model (`destroySelfF_eq`), and — the recursive call bound to the method itself, by induction on the fuel
(segment (h)) — **`C06_translated_destroy_eq_model`**: the translated program under the injecting semantics ends
exactly as `Fail.run sch inj (Fail.destroyProg sch fuel c id .done)`: same error, same statement log and counter,
same state (the ghost counter `changes` included).  Non-vacuity: the witness `W1` of `Props/C06.lean`, run through the
TRANSLATED program.
-/
namespace SqlObjVerif.FailDX
open SqlObjVerif.PyDestroy (Val Const Exc R CallRes Expr Exprs Cond Stmt Block Env St Res forLoop zipKw pyBool
  lenOf keysOf pairsOf vlSnoc isListVal vdSet starKwOf afterCall)
open SqlObjVerif.PyDestroyF
open SqlObjVerif.PyDestroy.Extracted
open SqlObjVerif.Fail (Err Schema Inj Pol Col Join Cls clsOf colOf fkCols Mem In Prog)
open SqlObjVerif.PyFail (sendStmt memStep)

variable (sch : Schema) (inj : Option Inj) (recC : Nat → Nat → Fail.St → CallRes Hnd Fail.St) (c id : Nat)

/-- **segment (g)**: the loop over the dependent classes is `Fail.depLoop` -/
theorem for1_loop (recP : Nat → Nat → Prog → Prog) (hnat : ∀ k j, Natural sch inj (recP k j))
    (hrec : ∀ k j s, recC k j s = outCall (Fail.run sch inj (recP k j .done) s)) (ks : List Nat) :
    ∀ (s : Fail.St) (env : Env Hnd), env 1 = some (.obj (.cls c)) → ∃ env',
      forLoop (fun st a => execB (dIface sch inj recC c id) (st.setVar 5 a) destroySelf_for1) (ks.map fun k => .obj (.cls k)) ⟨s, env⟩ =
        resSt env' (Fail.run sch inj (Fail.depLoop recP sch c id ks .done) s) ∧
      ∀ x, x < 2 → env' x = env x := by
  induction ks with
  | nil => intro s env _; exact ⟨env, by simp [forLoop, Fail.depLoop, run_done], fun _ _ => rfl⟩
  | cons k ks ih =>
    intro s env h1
    obtain ⟨envA, fA, hA⟩ := for1_step sch inj recC c id recP hnat hrec k s env h1
    have hM : Fail.run sch inj (Fail.depLoop recP sch c id (k :: ks) .done) s =
        bindRun sch inj (Fail.run sch inj (Fail.depEntry recP sch c id k .done) s) (Fail.depLoop recP sch c id ks .done) :=
      nat_depEntry sch inj recP hnat c id k (Fail.depLoop recP sch c id ks .done) s
    rw [hM]
    simp only [List.map_cons, forLoop]
    generalize Fail.run sch inj (Fail.depEntry recP sch c id k .done) s = m at hA ⊢
    rcases m with ⟨s1, _ | e⟩
    · simp only at hA
      obtain ⟨env', e1, ef⟩ := ih s1 envA (by rw [fA 1 (by decide)]; exact h1)
      refine ⟨env', ?_, fun x hx => by rw [ef x hx, fA x hx]⟩
      rcases hA with hA | hA <;> rw [hA] <;> simpa using e1
    · try simp only at hA
      exact ⟨envA, by rw [hA]; rfl, fA⟩

theorem fCall_send (s : Fail.St) (k j : Nat) (a b d : PVal) :
    fCall sch inj recC s (.obj (.imeta k j)) "send" [a, b, d] [] = .ret s .none := by simp [fCall]

theorem fCall_soDelete (s : Fail.St) (k j : Nat) :
    fCall sch inj recC s (.obj .conn) "_SO_delete" [.obj (.inst k j)] [] = outCall (sendStmt sch inj (.delete k j) s) := by
  simp [fCall]

theorem fCall_expire (s : Fail.St) (k j : Nat) :
    fCall sch inj recC s (.obj .cache) "expire" [.int j, .obj (.cls k)] [] = .ret (memStep (.unreg k j) s) .none := by
  simp [fCall]

theorem fSetAttr_obsolete (s : Fail.St) (k j : Nat) :
    fSetAttr s (.obj (.imeta k j)) "_obsolete" (.bool true) = some (memStep (.obsolete k j) s) := by
  simp [fSetAttr]

/-- the last seven statements of `destroySelf` -/
def tailBlock : Block :=
  (.cons (.call none (.attr .self "_connection") "_SO_delete" (.cons .self .nil) [] .nil none)
    (.cons (.setAttr (.attr .self "sqlmeta") "_obsolete" (.const (.bool true)))
    (.cons (.call none (.attr (.attr .self "_connection") "cache") "expire" (.cons (.attr .self "id") (.cons (.attr .self "__class__") .nil)) [] .nil none)
    (.cons (.for 16 (.var 0) destroySelf_for9)
    (.cons (.assign 0 .emptyList)
    (.cons (.call none (.attr .self "sqlmeta") "send" (.cons (.glob "events.RowDestroyedSignal") (.cons .self (.cons (.var 0) .nil))) [] .nil none)
    (.cons (.for 16 (.var 0) destroySelf_for10)
    .nil)))))))

/-- **segment (b)**: own DELETE, `_obsolete = True`, `cache.expire`, the empty post-function loops and the second
    signal are `Fail.destroyTail` -/
theorem tail_eq (s : Fail.St) (env : Env Hnd) (h0 : env 0 = some .nil) :
    (execB (dIface sch inj recC c id) ⟨s, env⟩ tailBlock).toCall =
      outCall (Fail.run sch inj (Fail.destroyTail c id .done) s) := by
  unfold tailBlock Fail.destroyTail
  rw [run_stmt]
  fhead
  simp only [fCall_soDelete, afterCall_outCall]
  rcases sendStmt sch inj (.delete c id) s with ⟨s1, _ | e⟩
  · simp only [resSt_ok, seq_norm, run_mem, run_event, run_done]
    iterate 6 (fhead; try simp [fSetAttr_obsolete, fCall_expire, fCall_send, forLoop])
    simp [Res.toCall, outCall]
  · simp [Res.toCall, outCall]

theorem destroySelfProg_tail :
    destroySelfProg =
      (.cons (.assign 0 .emptyList)
      (.cons (.call none (.attr .self "sqlmeta") "send" (.cons (.glob "events.RowDestroySignal") (.cons .self (.cons (.var 0) .nil))) [] .nil none)
      (.cons (.assign 1 (.attr .self "__class__"))
      (.cons (.for 2 (.attr (.attr (.var 1) "sqlmeta") "joins") destroySelf_for0)
      (.cons (.assign 4 (.query .self "_SO_depends" .nil [] .nil))
      (.cons (.for 5 (.var 4) destroySelf_for1) tailBlock)))))) := rfl

theorem toCall_resSt_err (env : Env Hnd) (s : Fail.St) (e : Err) :
    (resSt env (s, some e)).toCall = outCall (s, some e) := rfl

/-- **the translated `destroySelf` is one activation of the hand model's `destroySelf`** (`ownProg`), whatever the
    recursive call is, as long as it is the run of a tree that only uses its continuation -/
theorem destroySelfF_eq (recP : Nat → Nat → Prog → Prog) (hnat : ∀ k j, Natural sch inj (recP k j))
    (hrec : ∀ k j s, recC k j s = outCall (Fail.run sch inj (recP k j .done) s)) (s : Fail.St) :
    destroySelfF sch inj recC c id s = outCall (Fail.run sch inj (ownProg recP sch c id (dependentsF sch c) .done) s) := by
  unfold destroySelfF PyDestroyF.runF ownProg
  rw [destroySelfProg_tail, run_event,
    nat_ownLinks sch inj (clsOf sch c) id (Fail.depLoop recP sch c id (dependentsF sch c) (Fail.destroyTail c id .done)) s]
  generalize (SqlObjVerif.PyDestroy.Env.ofArgs [] : Env Hnd) = env0
  fhead
  fhead
  simp [fCall_send]
  fhead
  obtain ⟨env1, h0, f0⟩ := for0_loop sch inj recC c id (clsOf sch c).joins s ((env0.put 0 .nil).put 1 (.obj (.cls c)))
  change _ = resSt env1 (Fail.run sch inj (Fail.ownLinksSeg (clsOf sch c) id .done) s) at h0
  simp only [St.setVar] at h0
  have e11 : env1 1 = some (.obj (.cls c)) := by rw [f0 1 (by decide) (by decide)]; simp
  have e10 : env1 0 = some .nil := by rw [f0 0 (by decide) (by decide)]; simp
  clear f0
  fhead
  clear h0
  rcases Fail.run sch inj (Fail.ownLinksSeg (clsOf sch c) id .done) s with ⟨s1, _ | e⟩
  case some => simp [Res.toCall, outCall]
  simp only [resSt_ok, seq_norm, bindRun_ok]
  rw [nat_depLoop sch inj recP hnat c id (dependentsF sch c) (Fail.destroyTail c id .done) s1]
  fhead
  simp [fQuery_depends]
  obtain ⟨env2, h1, f1⟩ := for1_loop sch inj recC c id recP hnat hrec (dependentsF sch c) s1
    (env1.put 4 (Val.ofList ((dependentsF sch c).map fun d => .obj (.cls d)))) (by simp [e11])
  simp only [St.setVar] at h1
  have e20 : env2 0 = some .nil := by rw [f1 0 (by decide)]; simp [e10]
  clear f1
  fhead
  clear h1
  rcases Fail.run sch inj (Fail.depLoop recP sch c id (dependentsF sch c) .done) s1 with ⟨s2, _ | e⟩
  case some => simp [Res.toCall, outCall]
  simp only [resSt_ok, seq_norm, bindRun_ok]
  exact tail_eq sch inj recC c id s2 env2 e20

/-- **C06, translator tie (segment (h): the fuel induction).**  For every schema without inheritable children, every
    schedule `inj`, fuel, victim `(c, id)` and state: running the TRANSLATED `destroySelf` under the
    exception-injecting semantics, its recursive call bound to itself, ends exactly as the hand model's
    `destroyProg` run by `Fail.run` under the same schedule — the same error (as exception class name: `errName`,
    injective), and the same state: tables, link tables, instances, registered ids, seqs, lastId, the statement
    counter `n`, the statement log and the ghost counter `changes`. -/
theorem C06_translated_destroy_eq_model (sch : Schema) (hnp : NoParent sch) (inj : Option Inj) :
    ∀ (fuel c id : Nat) (s : Fail.St),
      destroyF sch inj fuel c id s = outCall (Fail.run sch inj (Fail.destroyProg sch fuel c id .done) s)
  | 0, c, id, s => by
    rw [destroyF, Fail.destroyProg, run_fail]; rfl
  | fuel + 1, c, id, s => by
    rw [destroyF, destroySelfF_eq sch inj (destroyF sch inj fuel) c id (Fail.destroyProg sch fuel)
      (fun k j => nat_destroyProg sch inj fuel k j)
      (fun k j s => C06_translated_destroy_eq_model sch hnp inj fuel k j s) s,
      ownProg_dependents, destroyProg_succ, hnp c]

theorem errName_inj : ∀ a b : Err, errName a = errName b → a = b := by
  intro a b; cases a <;> cases b <;> simp [errName]

/-- how the harness reads the end of a call: the state, and the exception's class name if it raised -/
def callView : CallRes Hnd Fail.St → Option (Fail.St × Option String)
  | .ret s _ => some (s, none)
  | .exc s e => some (s, some e)
  | .stuck => none

/-- the same, in the observable form: error outcome, statement log and counter, post-state -/
theorem C06_translated_destroy_obs (sch : Schema) (hnp : NoParent sch) (inj : Option Inj) (fuel c id : Nat) (s : Fail.St) :
    (callView (destroyF sch inj fuel c id s)).map (fun r => (PyFail.obs r.1, r.2)) =
      some (PyFail.obs (Fail.run sch inj (Fail.destroyProg sch fuel c id .done) s).1,
            (Fail.run sch inj (Fail.destroyProg sch fuel c id .done) s).2.map errName) := by
  rw [C06_translated_destroy_eq_model sch hnp inj]
  rcases Fail.run sch inj (Fail.destroyProg sch fuel c id .done) s with ⟨s1, _ | e⟩ <;> rfl

end SqlObjVerif.FailDX
